/-
Line-protocol driver of property C19 (CSV grid codec, dataslates, databox dictionary operations).

Strings (names, descriptions, cells) cross the pipe as their code points joined by `.`; numeric cells as
opaque non-empty tokens (the harness sends `num/den` of the rounded float), `nan` for NaN.

  csv <0|1> <item> …                      -> <grid> # <imported series>
  slate <F> <start> <len> <nvar> <clip> <base> <names> <db> <fallbacks> <overwrites> <trim>
                                          -> <variants> # <to_databox items>
  ext <baseStart> <baseLen> <maxLag> <maxLead> <prepend> <append>  -> start len base-columns
  op <db> <op> <args…>                    -> <new db, series as symbolic terms> # <touched names>
-/
import IrisVerif.Model.Grid
import IrisVerif.Model.Dataslate
import IrisVerif.Driver.Util

open IrisVerif.Dates (Err R)
open IrisVerif.Databox IrisVerif.Grid IrisVerif.Dataslate IrisVerif.Driver

namespace IrisVerif.Driver.C19

def showErr : Err → String
  | .mixedFreq => "err:mixed"
  | .badInput => "err:bad"
  | .noPeriod => "none"

def encStr (s : String) : String := ".".intercalate (s.toList.map (fun c => toString c.toNat))

def decStr (s : String) : Option String :=
  if s = "" then some "" else
    ((s.splitOn ".").mapM (fun (w : String) => w.toNat?.map Char.ofNat)).map String.ofList

def decStrs (s : String) : Option (List String) :=
  if s = "" then some [] else (s.splitOn ",").mapM decStr

def freq? : String → Option BFreq
  | "Y" => some .Y | "H" => some .H | "Q" => some .Q | "M" => some .M | "W" => some .W
  | "D" => some .D | "I" => some .I | "U" => some .U | _ => none

def freqLetter : BFreq → String
  | .Y => "Y" | .H => "H" | .Q => "Q" | .M => "M" | .W => "W" | .D => "D" | .I => "I" | .U => "U"

def cell? (s : String) : Option (Option Tok) :=
  if s = "nan" then some none else if h : s = "" then none else some (some ⟨s, h⟩)

def showCell : Option Tok → String
  | none => "nan"
  | some t => t.val

def cells? (s : String) : Option (List (Option Tok)) :=
  if s = "" then some [] else (s.splitOn ",").mapM cell?

def rows? (s : String) : Option (List (List (Option Tok))) :=
  if s = "" then some [] else (s.splitOn "|").mapM cells?

def showRows (rows : List (List (Option Tok))) : String :=
  "|".intercalate (rows.map (fun r => ",".intercalate (r.map showCell)))

def bool? : String → Option Bool
  | "0" => some false | "1" => some true | _ => none

def optInt? (s : String) : Option (Option Int) := if s = "-" then some none else s.toInt?.map some

/-! ### csv / slate: concrete series -/

def item? (w : String) : Option (String × Item (Ser Tok) Tok) :=
  match w.splitOn "~" with
  | ["S", name, desc, f, start, nv, rows] => do
    let name ← decStr name; let desc ← decStr desc; let f ← freq? f
    let start ← start.toInt?; let nv ← nv.toNat?; let rows ← rows? rows
    pure (name, .ser ⟨f, start, nv, rows, desc⟩)
  | ["C", name, c] => do let name ← decStr name; let c ← cell? c; pure (name, .scalar c)
  | ["L", name, cs] => do let name ← decStr name; let cs ← cells? cs; pure (name, .list cs)
  | _ => none

def box? (w : String) : Option (Box (Ser Tok) Tok) :=
  if w = "-" then some [] else (w.splitOn ";").mapM item?

def showSer (p : String × Ser Tok) : String :=
  "~".intercalate [encStr p.1, encStr p.2.desc, freqLetter p.2.freq, toString p.2.start, toString p.2.nv, showRows p.2.rows]

def showGrid (g : List (List String)) : String :=
  ";".intercalate (g.map (fun r => ",".intercalate (r.map encStr)))

def ints? (s : String) : Option (List Int) :=
  if s = "" then some [] else (s.splitOn ",").mapM (fun (w : String) => w.toInt?)

/-- `*` | `span:F=s,s,…` | `fs:F=*;F=s,s;…` -/
def fspan? (w : String) : Option (R FSpan) :=
  if w = "*" then some (pure defaultFSpan)
  else
    let entry (e : String) : Option (BFreq × Option (List Int)) :=
      match e.splitOn "=" with
      | [f, ps] => do
        let f ← freq? f
        if ps = "*" then pure (f, none) else do let l ← ints? ps; pure (f, some l)
      | _ => none
    if (w.take 5).toString = "span:" then
      (entry (w.drop 5).toString).bind (fun e => match e.2 with
        | some ps => some (spanArg e.1 ps)
        | none => none)
    else if (w.take 3).toString = "fs:" then
      (if (w.drop 3).toString = "" then some [] else ((w.drop 3).toString.splitOn ";").mapM entry).map pure
    else none

def runCsvWith (descRow : Bool) (fs : R FSpan) (names : Option (List String)) (db0 : Box (Ser Tok) Tok) : String :=
  let dbR : R (Box (Ser Tok) Tok) := match names with
    | none => pure db0
    | some l => shallow db0 (.names l) .same false
  match dbR, fs with
  | .error e, _ => showErr e
  | _, .error e => showErr e
  | .ok db, .ok fs =>
    let g := exportGridWith sdmxCodec descRow fs db
    let imp := match importGrid sdmxCodec descRow g with
      | .ok l => if l.isEmpty then "-" else ";".intercalate (l.map showSer)
      | .error e => showErr e
    (if g.isEmpty then "-" else showGrid g) ++ " # " ++ imp

def runCsv (descRow : Bool) (db : Box (Ser Tok) Tok) : String :=
  let g := exportGrid sdmxCodec descRow db
  let imp := match importGrid sdmxCodec descRow g with
    | .ok l => if l.isEmpty then "-" else ";".intercalate (l.map showSer)
    | .error e => showErr e
  (if g.isEmpty then "-" else showGrid g) ++ " # " ++ imp

def runSlate (ws : List String) : String :=
  match ws with
  | [f, start, len, nvar, clip, base, names, db, fb, ow, trim] =>
    let parsed := do
      let f ← freq? f; let start ← start.toInt?; let len ← len.toNat?; let nvar ← nvar.toNat?
      let clip ← bool? clip; let trim ← bool? trim
      let base ← (if base = "-" then some [] else (base.splitOn ",").mapM (·.toNat?))
      let names ← (if names = "*" then some none else (decStrs (names.drop 1).toString).map some)
      let db ← box? db; let fb ← box? fb; let ow ← box? ow
      pure (f, start, len, nvar, clip, trim, base, names, db, fb, ow)
    match parsed with
    | none => "bad-op"
    | some (f, start, len, nvar, clip, trim, base, names, db, fb, ow) =>
      match fromDatabox db names f start len nvar fb ow clip base with
      | .error e => showErr e
      | .ok sl =>
        let vs := ";".intercalate (sl.variants.map showRows)
        let back := match toDatabox sl trim with
          | .error e => showErr e
          | .ok l => if l.isEmpty then "-" else ";".intercalate (l.map showSer)
        (if vs = "" then "-" else vs) ++ " # " ++ back
  | _ => "bad-op"

/-- one period operation on a dataslate: `rs:n` `re:n` `ae:n` `ri` `rt` -/
def slateOp (sl : Slate Tok) (w : String) : Option (R (Slate Tok)) :=
  match w.splitOn ":" with
  | ["rs", n] => n.toNat?.map (fun n => pure (sl.removeFromStart n))
  | ["re", n] => n.toNat?.map (fun n => pure (sl.removeFromEnd n))
  | ["ae", n] => n.toNat?.map (fun n => pure (sl.addToEnd n))
  | ["ri"] => some sl.removeInitial
  | ["rt"] => some sl.removeTerminal
  | _ => none

def showState (sl : Slate Tok) : String :=
  toString sl.start ++ "," ++ toString sl.len ++ "," ++ toString sl.baseCols ++ "," ++ toString sl.basePeriods

def runSlateOps (sl : Slate Tok) (ops : List String) (acc : List String) : Option (Except String (Slate Tok × List String)) :=
  match ops with
  | [] => some (.ok (sl, acc.reverse))
  | w :: rest =>
    match slateOp sl w with
    | none => none
    | some (.error e) => some (.error (showErr e))
    | some (.ok sl') => runSlateOps sl' rest (showState sl' :: acc)

def showItems (r : R (List (String × Ser Tok))) : String :=
  match r with
  | .error e => showErr e
  | .ok l => if l.isEmpty then "-" else ";".intercalate (l.map showSer)

def runSlateSeq (ws : List String) : String :=
  match ws with
  | [f, start, len, nvar, clip, base, names, db, fb, ow, trim, mn, mx, ops] =>
    let parsed := do
      let f ← freq? f; let start ← start.toInt?; let len ← len.toNat?; let nvar ← nvar.toNat?
      let clip ← bool? clip; let trim ← bool? trim; let mn ← mn.toInt?; let mx ← mx.toInt?
      let base ← (if base = "-" then some [] else (base.splitOn ",").mapM (fun (w : String) => w.toNat?))
      let names ← (if names = "*" then some none else (decStrs (names.drop 1).toString).map some)
      let db ← box? db; let fb ← box? fb; let ow ← box? ow
      pure (f, start, len, nvar, clip, trim, base, names, db, fb, ow, mn, mx)
    match parsed with
    | none => "bad-op"
    | some (f, start, len, nvar, clip, trim, base, names, db, fb, ow, mn, mx) =>
      match fromDatabox db names f start len nvar fb ow clip base with
      | .error e => showErr e
      | .ok sl0 =>
        let sl0 := { sl0 with minShift := mn, maxShift := mx }
        match runSlateOps sl0 (if ops = "-" then [] else ops.splitOn ",") [showState sl0] with
        | none => "bad-op"
        | some (.error e) => e
        | some (.ok (sl, states)) =>
          let vs := ";".intercalate (sl.variants.map showRows)
          ";".intercalate states ++ " # " ++ (if vs = "" then "-" else vs) ++ " # " ++ showItems (toDatabox sl trim)
            ++ " # " ++ showItems (toDataboxBase sl trim)
  | _ => "bad-op"

/-! ### op: series as symbolic terms -/

inductive Sym where
  | leaf (id : String) (f : BFreq)
  | overlay (a b : Sym)
  | underlay (a b : Sym)
  | clip (a : Sym) (lo hi : Option Int)
  | hstack (a b : Sym)

def Sym.freq : Sym → BFreq
  | .leaf _ f => f
  | .overlay a _ => a.freq
  | .underlay a _ => a.freq
  | .clip a _ _ => a.freq
  | .hstack a _ => a.freq

def showOptInt : Option Int → String
  | none => "-"
  | some i => toString i

def Sym.show : Sym → String
  | .leaf id _ => id
  | .overlay a b => "ov(" ++ a.show ++ "," ++ b.show ++ ")"
  | .underlay a b => "un(" ++ a.show ++ "," ++ b.show ++ ")"
  | .clip a lo hi => "cl(" ++ a.show ++ "," ++ showOptInt lo ++ "," ++ showOptInt hi ++ ")"
  | .hstack a b => "hs(" ++ a.show ++ "," ++ b.show ++ ")"

def symOps : SOps Sym := ⟨Sym.freq, Sym.overlay, Sym.underlay, Sym.clip, Sym.hstack⟩

def symItem? (w : String) : Option (String × Item Sym Tok) :=
  match w.splitOn "~" with
  | ["S", name, id, f] => do let name ← decStr name; let f ← freq? f; pure (name, .ser (.leaf id f))
  | ["C", name, c] => do let name ← decStr name; let c ← cell? c; pure (name, .scalar c)
  | ["L", name, cs] => do let name ← decStr name; let cs ← cells? cs; pure (name, .list cs)
  | _ => none

def symBox? (w : String) : Option (Box Sym Tok) :=
  if w = "-" then some [] else (w.splitOn ";").mapM symItem?

def showSymItem (p : String × Item Sym Tok) : String :=
  encStr p.1 ++ "~" ++ (match p.2 with
    | .ser s => "S" ++ s.show
    | .scalar c => "C" ++ showCell c
    | .list l => "L" ++ ",".intercalate (l.map showCell))

def showSymBox (db : Box Sym Tok) : String :=
  if db.isEmpty then "-" else ";".intercalate (db.map showSymItem)

def startsWithL (p s : List Char) : Bool :=
  match p, s with
  | [], _ => true
  | _ :: _, [] => false
  | a :: p', b :: s' => a == b && startsWithL p' s'

def pred? (w : String) : Option (String → Bool) :=
  match w.splitOn ":" with
  | ["pre", p] => (decStr p).map (fun p => fun n => startsWithL p.toList n.toList)
  | ["in", l] => (decStrs l).map (fun l => fun n => l.contains n)
  | ["len", k] => k.toNat?.map (fun k => fun n => n.length % 2 == k)
  | _ => none

def func? (w : String) : Option (String → String) :=
  match w.splitOn ":" with
  | ["suf", p] => (decStr p).map (fun p => fun n => n ++ p)
  | ["pre", p] => (decStr p).map (fun p => fun n => p ++ n)
  | ["const", p] => (decStr p).map (fun p => fun _ => p)
  | ["up"] => some String.toUpper
  | _ => none

def sel? (w : String) : Option Sel :=
  if w = "*" then some .all else
  match w.splitOn "=" with
  | ["1", n] => (decStr n).map .one
  | ["n", l] => (decStrs l).map .names
  | ["p", p] => (pred? p).map .pred
  | _ => none

def tgt? (w : String) : Option Tgt :=
  if w = "*" then some .same else
  match w.splitOn "=" with
  | ["1", n] => (decStr n).map .one
  | ["n", l] => (decStrs l).map .names
  | ["f", f] => (func? f).map .func
  | _ => none

def optSel? (w : String) : Option (Option Sel) := if w = "-" then some none else (sel? w).map some
def optTgt? (w : String) : Option (Option Tgt) := if w = "-" then some none else (tgt? w).map some

def optNames? (w : String) : Option (Option (List String)) :=
  if w = "*" then some none else
  match w.splitOn "=" with
  | ["n", l] => (decStrs l).map some
  | _ => none

def strategy? : String → Option Strategy
  | "stack" => some .stack | "hstack" => some .stack | "replace" => some .replace | "discard" => some .discard
  | "silent" => some .report | "warning" => some .report | "error" => some .raise | "critical" => some .raise
  | _ => none

def op? (ws : List String) : Option (Op Sym Tok) :=
  match ws with
  | ["rename", s, t, b] => do let s ← sel? s; let t ← tgt? t; let b ← bool? b; pure (.rename s t b)
  | ["remove", s, b] => do let s ← optSel? s; let b ← bool? b; pure (.remove s b)
  | ["keep", s, b] => do let s ← optSel? s; let b ← bool? b; pure (.keep s b)
  | ["copy", s, t, b] => do let s ← optSel? s; let t ← optTgt? t; let b ← bool? b; pure (.copy s t b)
  | ["overlay", o, ns, b] => do let o ← symBox? o; let ns ← optNames? ns; let b ← bool? b; pure (.overlay o ns b)
  | ["underlay", o, ns, b] => do let o ← symBox? o; let ns ← optNames? ns; let b ← bool? b; pure (.underlay o ns b)
  | ["clip", f, lo, hi] => do let f ← freq? f; let lo ← optInt? lo; let hi ← optInt? hi; pure (.clip f lo hi)
  | ["prepend", o, f, stop] => do let o ← symBox? o; let f ← freq? f; let stop ← stop.toInt?; pure (.prepend o f stop)
  | "merge" :: st :: others => do let st ← strategy? st; let os ← others.mapM symBox?; pure (.merge os st)
  | "mergecall" :: ex :: lg :: others => do
    -- `merge(others, <explicit or ->, action=<legacy or ->)`: the model resolves the strategy itself
    let ex ← (if ex = "-" then some none else (strategy? ex).map some)
    let lg ← (if lg = "-" then some none else (strategy? lg).map some)
    let os ← others.mapM symBox?
    pure (.merge os (resolveStrategy ex lg))
  | _ => none

def runOp (db : Box Sym Tok) (op : Op Sym Tok) : String :=
  let t := touched symOps db op
  (match applyOp symOps db op with
    | .ok r => showSymBox r
    | .error e => showErr e) ++ " # " ++ ",".intercalate (t.map encStr)

def step (line : String) : String :=
  match words line with
  | "csv" :: d :: items =>
    (match bool? d, items.mapM item? with
      | some d, some db => runCsv d db
      | _, _ => "bad-op")
  | "csvx" :: d :: fs :: ns :: items =>
    (match bool? d, fspan? fs, (if ns = "*" then some none else (decStrs (ns.drop 2).toString).map some), items.mapM item? with
      | some d, some fs, some ns, some db => runCsvWith d fs ns db
      | _, _, _, _ => "bad-op")
  | "slate" :: rest => runSlate rest
  | "slateops" :: rest => runSlateSeq rest
  | ["ext", bs, bl, lag, lead, pre, app] =>
    (match bs.toInt?, bl.toNat?, lag.toInt?, lead.toInt?, bool? pre, bool? app with
      | some bs, some bl, some lag, some lead, some pre, some app =>
        let (s, n, cols) := extendedSpan bs bl lag lead pre app
        s!"{s} {n} {cols}"
      | _, _, _, _, _, _ => "bad-op")
  | "op" :: db :: rest =>
    (match symBox? db, op? rest with
      | some db, some op => runOp db op
      | _, _ => "bad-op")
  | _ => "bad-op"

end IrisVerif.Driver.C19

def main : IO Unit := IrisVerif.Driver.runMain IrisVerif.Driver.C19.step
