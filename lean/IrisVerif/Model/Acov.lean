/-
Executable model of the model-implied autocovariances of a solved first-order model
(`fords/covariances.py`, `simultaneous/_covariances.py`, the vector-stability classification of
`fords/solutions.py`), over exact rationals with `none` for NaN.  No Mathlib.

The triangular solution  α_t = Ta α_{t-1} + Pa u_t,  y_t = Za α_t + H w_t,  ξ = Ua α  is an *input*
(it comes out of QZ/Schur, which is not modelled): the harness passes the implementation's own
matrices, converted exactly.  The Lyapunov equation of the stable block is solved by Kronecker
vectorisation with an exact re-check of the matrix equation itself (a certificate).
-/
import IrisVerif.Model.QMat

namespace IrisVerif.Acov
open IrisVerif

abbrev Cell := Option Rat

/-- matrix of cells (`none` = NaN) -/
structure CMat where
  rows : Nat
  cols : Nat
  data : Array (Array Cell)
  deriving Repr, Inhabited, BEq

namespace CMat
def get (a : CMat) (i j : Nat) : Cell := (a.data.getD i #[]).getD j none
def ofFn (r c : Nat) (f : Nat → Nat → Cell) : CMat :=
  ⟨r, c, (Array.range r).map (fun i => (Array.range c).map (fun j => f i j))⟩
end CMat

/-- the pieces of `fords.solutions.Solution` that the covariance code reads -/
structure Sol where
  na : Nat        -- num_alpha = num_xi
  ny : Nat        -- num_y
  nu : Nat        -- num_unit_roots (the first `nu` elements of α)
  Ta : QMat       -- na × na
  Pa : QMat       -- na × ne
  Za : QMat       -- ny × na
  Ua : QMat       -- na × na
  H : QMat        -- ny × nw
  covU : QMat     -- ne × ne  (diag of std²)
  covW : QMat     -- nw × nw
  tol : Rat       -- tolerance of `_classify_solution_vector_stability`
  deriving Repr

def absQ (x : Rat) : Rat := if x < 0 then -x else x

/-! ### `get_cov_alpha_00` -/

def TaStable (s : Sol) : QMat := QMat.block s.Ta s.nu s.na s.nu s.na
def PaStable (s : Sol) : QMat := QMat.block s.Pa s.nu s.na 0 s.Pa.cols
def ZaStable (s : Sol) : QMat := QMat.block s.Za 0 s.ny s.nu s.na

def sigmaU (s : Sol) : QMat := PaStable s * s.covU * (PaStable s).transpose

/-- the discrete Lyapunov equation `Ω = T Ω Tᵀ + Σ`, as an exact test -/
def isLyapunov (T Sig Om : QMat) : Bool := QMat.eqv Om (T * Om * T.transpose + Sig)

/-- solve `(I - T ⊗ T) vec Ω = vec Σ`, then re-check the matrix equation itself and the symmetry of `Ω` -/
def lyapunov (T Sig : QMat) : Option QMat :=
  let n := T.rows
  match QMat.solveChecked (QMat.identity (n * n) - QMat.kron T T) (QMat.col (QMat.vec Sig)) with
  | none => none
  | some x =>
    let Om := QMat.unvec n n x.toVec
    if isLyapunov T Sig Om && Om.isSymmetric then some Om else none

/-- `cov_alpha_00`: zeros with the stable block filled in -/
def covAlpha00 (s : Sol) (OmS : QMat) : QMat :=
  QMat.ofFn s.na s.na (fun i j => if s.nu ≤ i ∧ s.nu ≤ j then OmS.get (i - s.nu) (j - s.nu) else 0)

/-! ### `get_cov_triangular_00` -/

def covY00 (s : Sol) (OmS : QMat) : QMat :=
  ZaStable s * OmS * (ZaStable s).transpose + s.H * s.covW * s.H.transpose

def covTriangular00 (s : Sol) (OmS : QMat) : QMat :=
  let ca := covAlpha00 s OmS
  let cay := ca * s.Za.transpose
  QMat.vstack (QMat.hstack ca cay) (QMat.hstack cay.transpose (covY00 s OmS))

/-! ### `get_autocov_triangular_00`: `Γ_{j+1} = 𝒜 Γ_j` -/

def Ta00 (s : Sol) : QMat :=
  QMat.ofFn s.na s.na (fun i j => if s.nu ≤ i ∧ s.nu ≤ j then s.Ta.get i j else 0)

def calA (s : Sol) : QMat :=
  let t := Ta00 s
  QMat.vstack (QMat.hstack t (QMat.zero s.na s.ny)) (QMat.hstack (s.Za * t) (QMat.zero s.ny s.ny))

def autocovTriangular (s : Sol) (OmS : QMat) : Nat → QMat
  | 0 => covTriangular00 s OmS
  | j + 1 => calA s * autocovTriangular s OmS j

/-! ### `get_autocov_square_00`: rows and columns of the α block mapped by `Ua` -/

def bigU (s : Sol) : QMat :=
  QMat.ofFn (s.na + s.ny) (s.na + s.ny) (fun i j =>
    if i < s.na ∧ j < s.na then s.Ua.get i j else if i = j then 1 else 0)

def toSquare (s : Sol) (g : QMat) : QMat := bigU s * g * (bigU s).transpose

/-! ### `get_autocov_square`: NaN for every vector element loading on a unit root -/

/-- `_classify_solution_vector_stability`: some `|M[i, j]| > tol` for `j < nu` -/
def loadsOnUnitRoot (M : QMat) (nu : Nat) (tol : Rat) (i : Nat) : Bool :=
  (List.range nu).any (fun j => tol < absQ (M.get i j))

/-- stability of element `i` of the joint vector `[ξ; y]` -/
def isStable (s : Sol) (i : Nat) : Bool :=
  if i < s.na then !loadsOnUnitRoot s.Ua s.nu s.tol i else !loadsOnUnitRoot s.Za s.nu s.tol (i - s.na)

def fillNaN (s : Sol) (g : QMat) : CMat :=
  CMat.ofFn g.rows g.cols (fun i j => if isStable s i && isStable s j then some (g.get i j) else none)

/-- `getv_autocov`: keep the rows/columns of the zero-shift tokens -/
def select (g : CMat) (sel : List Nat) : CMat :=
  CMat.ofFn sel.length sel.length (fun i j => g.get (sel.getD i 0) (sel.getD j 0))

/-- `get_acov(up_to_order=k)` for one variant: orders `0 … k`; `none` when the Lyapunov equation of the
stable block has no unique solution -/
def acov (s : Sol) (sel : List Nat) (k : Nat) : Option (List CMat) :=
  match lyapunov (TaStable s) (sigmaU s) with
  | none => none
  | some OmS => some ((List.range (k + 1)).map (fun j => select (fillNaN s (toSquare s (autocovTriangular s OmS j))) sel))

/-! ### `acorr_from_acov`.  The scale `1/sqrt(d_i d_j)` is irrational; the model returns the exactly
representable signed square  `sign(γ) γ² / (d_i d_j)`  (0 under the zero-variance guard `d ≤ 0`). -/

def signedSquareCorr (g0 g : CMat) (i j : Nat) : Cell :=
  match g.get i j, g0.get i i, g0.get j j with
  | some x, some di, some dj =>
    if 0 < di ∧ 0 < dj then some ((if x < 0 then -1 else 1) * x * x / (di * dj)) else some 0
  | _, _, _ => none

def acorrSq (gs : List CMat) : List CMat :=
  match gs with
  | [] => []
  | g0 :: _ => gs.map (fun g => CMat.ofFn g.rows g.cols (signedSquareCorr g0 g))

/-- `rescale_stds(factor)`: every std is multiplied by `factor` -/
def rescale (s : Sol) (f : Rat) : Sol :=
  { s with covU := QMat.smul (f * f) s.covU, covW := QMat.smul (f * f) s.covW }

/-- `rescale_stds(f, kind=…)` applied in any sequence: the stds of the transition shocks end up multiplied by `fu`,
those of the measurement shocks by `fw` (a kind that selects nothing changes nothing; nothing else is touched) -/
def rescaleKinds (s : Sol) (fu fw : Rat) : Sol :=
  { s with covU := QMat.smul (fu * fu) s.covU, covW := QMat.smul (fw * fw) s.covW }

/-- one call: the cumulative factors after `rescale_stds(f, kind)` -/
inductive StdKind | all | transition | measurement
def applyKind (fuw : Rat × Rat) (k : StdKind) (f : Rat) : Rat × Rat :=
  match k with
  | .all => (fuw.1 * f, fuw.2 * f)
  | .transition => (fuw.1 * f, fuw.2)
  | .measurement => (fuw.1, fuw.2 * f)

/-- a sequence of calls -/
def applyKinds (calls : List (StdKind × Rat)) : Rat × Rat :=
  calls.foldl (fun acc c => applyKind acc c.1 c.2) (1, 1)

/-! ### the object: a solved variant whose stds can be changed between observations -/

/-- `_get_system_vector` / `getv_autocov`: the positions, in vector order, of the current-dated (zero-shift) tokens of
`transition_variables + measurement_variables` (`shifts` = the time shifts of that joint token vector) -/
def zeroShiftSel (shifts : List Int) : List Nat :=
  (List.range shifts.length).filter (fun i => shifts.getD i 1 == 0)

/-- one `rescale_stds(f, kind=…)` call on the state: only the std block(s) of the selected kind change; the solution
matrices are not touched and nothing is re-solved -/
def stepStd (s : Sol) (c : StdKind × Rat) : Sol :=
  match c.1 with
  | .all => { s with covU := QMat.smul (c.2 * c.2) s.covU, covW := QMat.smul (c.2 * c.2) s.covW }
  | .transition => { s with covU := QMat.smul (c.2 * c.2) s.covU }
  | .measurement => { s with covW := QMat.smul (c.2 * c.2) s.covW }

/-- a history of calls -/
def runStd (s : Sol) (calls : List (StdKind × Rat)) : Sol := calls.foldl stepStd s

/-- the observation `get_acov(up_to_order=k)` after a history of std changes: a function of the state (solution as
solved, stds in force) only -/
def observeAcov (s : Sol) (calls : List (StdKind × Rat)) (shifts : List Int) (k : Nat) : Option (List CMat) :=
  acov (runStd s calls) (zeroShiftSel shifts) k

end IrisVerif.Acov
