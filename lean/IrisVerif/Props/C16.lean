/-
C16 -- Block decomposition of an incidence matrix is a valid sequential ordering.

Theorems about the executable model `IrisVerif/Model/Blazer.lean` of irispie/incidences/blazer.py
and of `Sequential.sequentialize`.  Vocabulary (defined in `Lemmas/Blazer.lean`):

* `HasPerfectMatching im rows cols` -- there is a list of incident (row, column) pairs whose rows are a
  permutation of `rows` and whose columns are a permutation of `cols` (decidable: `hasPMb_iff`);
* `blockRows bs` / `blockCols bs` -- concatenation of the row / column lists of the blocks;
* `NoInc im b b'` -- no row of block `b` has an incidence in a column of block `b'`.

All `blaze` theorems are for every size `n`, every incidence function `im` with a perfect matching on
`range n × range n`, and **every** pair `rp`, `cp` of permutations standing for what the heuristic
`triangularize_inner_block` does to the inner rows and columns.
-/
import IrisVerif.Lemmas.Blazer

namespace IrisVerif.C16
open IrisVerif.Blazer

/-- the hypotheses about the heuristic: it permutes the inner rows and the inner columns -/
def InnerPerms (im : Inc) (n : Nat) (rp cp : List Nat) : Prop :=
  rp.Perm (List.range (prefetch im (List.range n) (List.range n)).ri.length) ∧
  cp.Perm (List.range (prefetch im (List.range n) (List.range n)).ci.length)

/-! ### prefetch -/

/-- The recursion of `prefetch` stops only at a fixed point: in what it returns as the inner part no
row has exactly one incidence within the inner columns.  (Termination itself is the `termination_by`
of the model: the recursive call is guarded by `im.size < initial_size`.) -/
theorem prefetch_stops_at_fixed_point (im : Inc) (n : Nat)
    (hpm : HasPerfectMatching im (List.range n) (List.range n)) :
    firstPairs im (prefetch im (List.range n) (List.range n)).ri
      (prefetch im (List.range n) (List.range n)).ci = [] :=
  prefetch_stuck im _ _ _ rfl List.nodup_range List.nodup_range hpm

/-- `prefetch` splits rows and columns into first ++ inner ++ last (as permutations of all rows and
of all columns), the inner part keeps a perfect matching, and every prefetched pair is an incidence
that belongs to *every* perfect matching of the matrix. -/
theorem prefetch_partitions (im : Inc) (n : Nat)
    (hpm : HasPerfectMatching im (List.range n) (List.range n)) :
    let p := prefetch im (List.range n) (List.range n)
    (rowsOf p.first ++ p.ri ++ rowsOf p.last).Perm (List.range n) ∧
    (colsOf p.first ++ p.ci ++ colsOf p.last).Perm (List.range n) ∧
    HasPerfectMatching im p.ri p.ci ∧
    ∀ P, IsPM im (List.range n) (List.range n) P → ∀ q ∈ p.first ++ p.last, q ∈ P ∧ im q.1 q.2 = true := by
  have hs := prefetch_spec im _ _ _ rfl List.nodup_range List.nodup_range hpm
  exact ⟨hs.rows_perm, hs.cols_perm, hs.hasPM hpm,
    fun P hP q hq => ⟨hs.sub_pm P hP q hq, hP.2.2 q (hs.sub_pm P hP q hq)⟩⟩

/-- **Merge order across recursion rounds.** When a round (`step1`: rows with one incidence first, then
columns with one incidence last) shrinks the matrix, the result is: this round's first pairs *followed by*
the recursive call's first pairs, and the recursive call's last pairs *followed by* this round's last pairs
(`eids_last = eids_last_next + eids_last`); otherwise it is this round alone.  The pairs put last by an
outer round therefore come after all pairs put last by inner rounds -- the order on which
`blaze_blocks_lower_triangular` rests: an outer-round row may well involve an inner-round "last" column
(example below), never the other way round. -/
theorem prefetch_merge_order (im : Inc) (ri ci : List Nat) :
    let s := step1 im ri ci
    (s.ri.length * s.ci.length < ri.length * ci.length →
      (prefetch im ri ci).first = s.first ++ (prefetch im s.ri s.ci).first ∧
      (prefetch im ri ci).last = (prefetch im s.ri s.ci).last ++ s.last ∧
      (prefetch im ri ci).ri = (prefetch im s.ri s.ci).ri ∧
      (prefetch im ri ci).ci = (prefetch im s.ri s.ci).ci) ∧
    (¬ s.ri.length * s.ci.length < ri.length * ci.length → prefetch im ri ci = s) := by
  intro s
  constructor
  · intro h
    rw [prefetch_eq, if_pos h]
    exact ⟨rfl, rfl, rfl, rfl⟩
  · intro h
    rw [prefetch_eq, if_neg h]

/-- the order matters from n = 4 on: here round one puts `(3,0)` first and `(0,3)` last, round two puts
`(2,1)` first and `(1,2)` last; the trailing blocks `(1,2), (0,3)` are lower block-triangular, the other
order is not (row 0 involves column 2) -/
example : HasPerfectMatching (incOf orderMatrix) (List.range 4) (List.range 4) ∧
    prefetch (incOf orderMatrix) (List.range 4) (List.range 4) =
      { first := [(3, 0), (2, 1)], last := [(1, 2), (0, 3)], ri := [], ci := [] } ∧
    (singles [(3, 0), (2, 1), (1, 2), (0, 3)]).Pairwise (NoInc (incOf orderMatrix)) ∧
    ¬ (singles [(3, 0), (2, 1), (0, 3), (1, 2)]).Pairwise (NoInc (incOf orderMatrix)) := by
  decide +kernel

/-! ### blaze -/

/-- `blaze` does not raise on a square matrix with a perfect matching (the generator's `next(...)`
always finds a cut), and its blocks are the prefetched first pairs, then the blocks cut from the
re-ordered inner part, then the prefetched last pairs. -/
theorem blaze_succeeds (im : Inc) (n : Nat) (rp cp : List Nat)
    (hpm : HasPerfectMatching im (List.range n) (List.range n)) (hp : InnerPerms im n rp cp) :
    ∃ o inner, blazePos im n n rp cp = .ok o ∧
      o.blocks = singles o.pre.first ++ inner ++ singles o.pre.last ∧
      o.pre = prefetch im (List.range n) (List.range n) ∧
      blockRows inner = o.innerRows ∧ blockCols inner = o.innerCols := by
  obtain ⟨o, ho, hs⟩ := blazePos_spec im n rp cp hpm hp.1 hp.2
  obtain ⟨inner, h1, h2⟩ := hs.shape
  exact ⟨o, inner, ho, h1, hs.pre_eq, h2.rows, h2.cols⟩

/-- (i) the blocks partition the rows (equations) and the columns (quantities) -/
theorem blaze_blocks_partition (im : Inc) (n : Nat) (rp cp : List Nat)
    (hpm : HasPerfectMatching im (List.range n) (List.range n)) (hp : InnerPerms im n rp cp)
    (o : BlazeOut) (ho : blazePos im n n rp cp = .ok o) :
    (blockRows o.blocks).Perm (List.range n) ∧ (blockCols o.blocks).Perm (List.range n) := by
  obtain ⟨o', ho', hs⟩ := blazePos_spec im n rp cp hpm hp.1 hp.2
  obtain rfl : o' = o := by rw [ho'] at ho; exact Except.ok.inj ho
  exact ⟨hs.rows_perm, hs.cols_perm⟩

/-- (ii) every block is square -/
theorem blaze_blocks_square (im : Inc) (n : Nat) (rp cp : List Nat)
    (hpm : HasPerfectMatching im (List.range n) (List.range n)) (hp : InnerPerms im n rp cp)
    (o : BlazeOut) (ho : blazePos im n n rp cp = .ok o) :
    ∀ b ∈ o.blocks, b.1.length = b.2.length := by
  obtain ⟨o', ho', hs⟩ := blazePos_spec im n rp cp hpm hp.1 hp.2
  obtain rfl : o' = o := by rw [ho'] at ho; exact Except.ok.inj ho
  exact hs.square

/-- (iii) no block has an incidence in a column of a later block -/
theorem blaze_blocks_lower_triangular (im : Inc) (n : Nat) (rp cp : List Nat)
    (hpm : HasPerfectMatching im (List.range n) (List.range n)) (hp : InnerPerms im n rp cp)
    (o : BlazeOut) (ho : blazePos im n n rp cp = .ok o) :
    o.blocks.Pairwise (NoInc im) := by
  obtain ⟨o', ho', hs⟩ := blazePos_spec im n rp cp hpm hp.1 hp.2
  obtain rfl : o' = o := by rw [ho'] at ho; exact Except.ok.inj ho
  exact hs.lbt

/-- (iii), as in the property statement: the equations of block `k` involve only quantities of block
`k` and of earlier blocks -/
theorem blaze_incidences_in_same_or_earlier_blocks (im : Inc) (n : Nat) (rp cp : List Nat)
    (hpm : HasPerfectMatching im (List.range n) (List.range n)) (hp : InnerPerms im n rp cp)
    (o : BlazeOut) (ho : blazePos im n n rp cp = .ok o)
    (k : Nat) (hk : k < o.blocks.length) (r : Nat) (hr : r ∈ o.blocks[k].1)
    (c : Nat) (hc : c < n) (hi : im r c = true) :
    c ∈ blockCols (o.blocks.take (k + 1)) := by
  obtain ⟨o', ho', hs⟩ := blazePos_spec im n rp cp hpm hp.1 hp.2
  obtain rfl : o' = o := by rw [ho'] at ho; exact Except.ok.inj ho
  exact lbt_same_or_earlier hs.lbt hk hr (hs.cols_perm.symm.subset (List.mem_range.2 hc)) hi

/-- (iv) every diagonal block has a perfect matching (is structurally non-singular) -/
theorem blaze_diagonal_blocks_nonsingular (im : Inc) (n : Nat) (rp cp : List Nat)
    (hpm : HasPerfectMatching im (List.range n) (List.range n)) (hp : InnerPerms im n rp cp)
    (o : BlazeOut) (ho : blazePos im n n rp cp = .ok o) :
    ∀ b ∈ o.blocks, HasPerfectMatching im b.1 b.2 := by
  obtain ⟨o', ho', hs⟩ := blazePos_spec im n rp cp hpm hp.1 hp.2
  obtain rfl : o' = o := by rw [ho'] at ho; exact Except.ok.inj ho
  exact hs.pm

/-- (v) a singleton block `([r], [c])` -- in particular every prefetched one, see `blaze_succeeds` --
has exactly one unknown given the earlier blocks: `c` is an incidence of row `r`, and every other
incidence of row `r` is a column of an earlier block -/
theorem blaze_singleton_blocks_one_unknown (im : Inc) (n : Nat) (rp cp : List Nat)
    (hpm : HasPerfectMatching im (List.range n) (List.range n)) (hp : InnerPerms im n rp cp)
    (o : BlazeOut) (ho : blazePos im n n rp cp = .ok o)
    (k : Nat) (hk : k < o.blocks.length) (r c : Nat) (hb : o.blocks[k] = ([r], [c])) :
    im r c = true ∧ ∀ c' < n, im r c' = true → c' = c ∨ c' ∈ blockCols (o.blocks.take k) := by
  obtain ⟨o', ho', hs⟩ := blazePos_spec im n rp cp hpm hp.1 hp.2
  obtain rfl : o' = o := by rw [ho'] at ho; exact Except.ok.inj ho
  constructor
  · obtain ⟨P, hP1, hP2, hP3⟩ := hs.pm _ (List.getElem_mem hk)
    rw [hb] at hP1 hP2
    have h1 : P.length = 1 := by simpa [rowsOf] using hP1.length_eq
    obtain ⟨q, rfl⟩ := List.length_eq_one_iff.1 h1
    have e1 : q.1 = r := by simpa [rowsOf] using hP1
    have e2 : q.2 = c := by simpa [colsOf] using hP2
    rw [← e1, ← e2]
    exact hP3 q (List.mem_singleton_self q)
  · intro c' hc' hi
    have hr : r ∈ o'.blocks[k].1 := by rw [hb]; exact List.mem_singleton_self r
    have := lbt_same_or_earlier hs.lbt hk hr (hs.cols_perm.symm.subset (List.mem_range.2 hc')) hi
    rw [List.take_add_one, blockCols_append, List.mem_append] at this
    rcases this with h | h
    · exact Or.inr h
    · left
      rw [List.getElem?_eq_getElem hk, hb] at h
      simpa [blockCols] using h

/-! ### Sequential models

`SModel` is the tuple of equations (LHS name, names read at zero shift) that `reorder_equations`
mutates; `sequentialize m` returns the outcome and the state afterwards.  `SeqValid m'` says: every
zero-shift LHS name an equation of `m'` reads is its own LHS or the LHS of an earlier equation. -/

/-- `reorder_equations` raises before it assigns: an error leaves the state unchanged -/
theorem reorder_error_state_unchanged (m : SModel) (order : List Nat) (e : Err)
    (h : (reorderEquations m order).1 = .error e) : (reorderEquations m order).2 = m := by
  unfold reorderEquations at *
  split <;> simp_all

/-- `reorder_equations` accepts exactly the permutations of `0 .. num_equations-1` -/
theorem reorder_accepts_iff_permutation (m : SModel) (order : List Nat) :
    (reorderEquations m order).1 = .ok () ↔ order.Perm (List.range m.length) := by
  unfold reorderEquations
  split
  · rename_i h; simpa using List.isPerm_iff.1 h
  · rename_i h
    simp only [reduceCtorEq, false_iff]
    exact fun hp => h (List.isPerm_iff.2 hp)

/-- whenever `sequentialize` ends in an error, the model state is unchanged; and the only error there
is, is the permutation check of `reorder_equations` (the `IrisPieError` that `sequentialize_strictly`
builds is never raised) -/
theorem sequentialize_error_state_unchanged (m : SModel) (e : Err)
    (h : (sequentialize m).1 = .error e) : (sequentialize m).2 = m ∧ e = .notPermutation := by
  rw [sequentialize_eq] at h ⊢
  split at h
  · simp at h
  · split at h
    · simp at h
    · rename_i h1 h2
      simp only [h1, h2]
      simp at h
      exact ⟨by simp, h.symm⟩

/-- the hypothesis is met both by a model with distinct LHS names (a two-equation loop) and by one with
repeated LHS names (`v0 = v1 + 1; v0 = 2; v1 = 3`): both raise, both are left exactly as they were -/
example : (sequentialize [⟨0, [1]⟩, ⟨1, [0]⟩, ⟨2, []⟩]).1 = .error .notPermutation ∧
    (sequentialize [⟨0, [1]⟩, ⟨1, [0]⟩, ⟨2, []⟩]).2 = [⟨0, [1]⟩, ⟨1, [0]⟩, ⟨2, []⟩] ∧
    (sequentialize [⟨0, [1]⟩, ⟨0, []⟩, ⟨1, []⟩]).1 = .error .notPermutation ∧
    (sequentialize [⟨0, [1]⟩, ⟨0, []⟩, ⟨1, []⟩]).2 = [⟨0, [1]⟩, ⟨0, []⟩, ⟨1, []⟩] := by
  decide +kernel

/-- Soundness, for models whose LHS names are unique (then `Sequential.incidence_matrix` is square with
the equations' own LHS on the diagonal): if `sequentialize` returns an order `π`, then `π` is a
permutation of the equation indexes, the state afterwards is the equations in that order, and in that
order every zero-shift LHS name an equation reads is its own LHS or the LHS of an earlier equation. -/
theorem sequentialize_sound (m : SModel) (hu : (m.map (·.lhs)).Nodup) (π : List Nat) (m' : SModel)
    (h : sequentialize m = (.ok π, m')) :
    π.Perm (List.range m.length) ∧ m' = π.filterMap (fun i => m[i]?) ∧ SeqValid m' := by
  have hlen : (lhsNames m).length = m.length := by rw [lhsNames_of_nodup hu, List.length_map]
  rw [sequentialize_eq, hlen] at h
  split at h
  · rename_i hseq
    simp only [Prod.mk.injEq, Except.ok.injEq] at h
    obtain ⟨rfl, rfl⟩ := h
    refine ⟨List.Perm.refl _, (filterMap_getElem?_range' m).symm, ?_⟩
    have hpw : (List.range m.length).Pairwise fun x y => seqInc m x y = false := by
      unfold isSequential at hseq
      split at hseq
      · rename_i hemp
        have : m = [] := by simpa using hemp
        subst this; exact List.Pairwise.nil
      · rw [hlen] at hseq; exact isSequentialIm_pairwise hseq
    have := valid_of_pairwise m hu _ (fun i hi => List.mem_range.1 hi) hpw
    rwa [filterMap_getElem?_range'] at this
  · split at h
    · rename_i hperm
      simp only [Prod.mk.injEq, Except.ok.injEq] at h
      obtain ⟨rfl, rfl⟩ := h
      have hπ := List.isPerm_iff.1 hperm
      exact ⟨hπ, rfl, valid_of_pairwise m hu _ (fun i hi => List.mem_range.1 (hπ.subset hi))
        (strict_order_pairwise m hu)⟩
    · simp at h

/-- hence: if no valid order of the equations exists, `sequentialize` ends in an error (and, by
`sequentialize_error_state_unchanged`, leaves the model untouched) -/
theorem sequentialize_raises_when_no_order_exists (m : SModel) (hu : (m.map (·.lhs)).Nodup)
    (hno : ¬ ∃ π : List Nat, π.Perm (List.range m.length) ∧ SeqValid (π.filterMap fun i => m[i]?)) :
    (sequentialize m).1 = .error .notPermutation ∧ (sequentialize m).2 = m := by
  cases hres : (sequentialize m).1 with
  | error e =>
    obtain ⟨h1, h2⟩ := sequentialize_error_state_unchanged m e hres
    exact ⟨by rw [h2], h1⟩
  | ok π =>
    exfalso
    obtain ⟨h1, h2, h3⟩ := sequentialize_sound m hu π (sequentialize m).2 (by rw [← hres])
    exact hno ⟨π, h1, h2 ▸ h3⟩

/-- Completeness, for unique LHS names: whenever some valid order of the equations exists,
`sequentialize` returns one (by `sequentialize_sound` a valid one).  Together with
`sequentialize_raises_when_no_order_exists`: it raises exactly when no valid order exists, i.e. the
error object that `sequentialize_strictly` builds without raising never lets a wrong order through -- the
permutation check of `reorder_equations` rejects exactly the incomplete orders. -/
theorem sequentialize_complete (m : SModel) (hu : (m.map (·.lhs)).Nodup)
    (hex : ∃ σ : List Nat, σ.Perm (List.range m.length) ∧ SeqValid (σ.filterMap fun i => m[i]?)) :
    ∃ π, (sequentialize m).1 = .ok π := by
  obtain ⟨σ, hσ, hv⟩ := hex
  have hlen : (lhsNames m).length = m.length := by rw [lhsNames_of_nodup hu, List.length_map]
  rw [sequentialize_eq, hlen]
  split
  · exact ⟨_, rfl⟩
  · rw [if_pos (List.isPerm_iff.2 (strict_order_perm_of_valid_order m hu σ hσ hv))]
    exact ⟨_, rfl⟩

/-! ### histories: several calls on one and the same Sequential object -/

/-- every call (`reorder_equations(p)` accepted or rejected, `sequentialize()` successful or not,
`copy()`) leaves a permutation of the equations -/
theorem applyOp_perm (m : SModel) (op : SOp) : (applyOp m op).Perm m := by
  have hre : ∀ order : List Nat, order.Perm (List.range m.length) →
      (order.filterMap fun i => m[i]?).Perm m := fun order h => by
    have := h.filterMap (fun i => m[i]?)
    rwa [filterMap_getElem?_range'] at this
  cases op with
  | reorder p =>
    simp only [applyOp, reorderEquations]
    split
    · rename_i h; exact hre p (List.isPerm_iff.1 h)
    · exact List.Perm.refl _
  | sequentialize =>
    simp only [applyOp]
    rw [sequentialize_eq]
    split
    · exact List.Perm.refl _
    · split
      · rename_i h; exact hre _ (List.isPerm_iff.1 h)
      · exact List.Perm.refl _
  | copy => exact List.Perm.refl _

/-- ... hence so does every history of calls -/
theorem runOps_perm (m : SModel) (ops : List SOp) : (runOps m ops).Perm m := by
  induction ops generalizing m with
  | nil => exact List.Perm.refl _
  | cons op rest ih =>
    simp only [runOps, List.foldl_cons]
    exact (ih (applyOp m op)).trans (applyOp_perm m op)

/-- Soundness after any history: whatever re-orderings, earlier `sequentialize()` calls and copies
the object went through, a `sequentialize()` that returns does so with a permutation under which the
state is in a valid order.  (The model recomputes the incidence matrix from the current order after
every call; that the code does the same -- `collect_names` + `finalize_explanatories` -- is what the
`sequential-histories` correspondence stream and its order oracle check.) -/
theorem sequentialize_sound_after_any_history (m0 : SModel) (hu : (m0.map (·.lhs)).Nodup)
    (ops : List SOp) (π : List Nat) (m' : SModel)
    (h : sequentialize (runOps m0 ops) = (.ok π, m')) :
    π.Perm (List.range m0.length) ∧ m' = π.filterMap (fun i => (runOps m0 ops)[i]?) ∧
      SeqValid m' ∧ m'.Perm m0 := by
  have hp := runOps_perm m0 ops
  have hu' : ((runOps m0 ops).map (·.lhs)).Nodup := ((hp.map _).nodup_iff).2 hu
  obtain ⟨h1, h2, h3⟩ := sequentialize_sound _ hu' π m' h
  refine ⟨by rw [← hp.length_eq]; exact h1, h2, h3, ?_⟩
  have : m' = applyOp (runOps m0 ops) .sequentialize := by simp [applyOp, h]
  rw [this]
  exact (applyOp_perm _ _).trans hp

/-! ### ids: every labelling, re-labelling, `split_into_blocks` (round 4) -/

/-- **Equivariance.** For every matrix (square or not, with or without a perfect matching), every id
tuples and every pair of id maps `f`, `g` (injective or not): `blaze` on the re-labelled ids is `blaze`
on the original ids with every block re-labelled (and sorted again, as `Block.__init__` does).  The
decomposition depends on the incidence pattern only; the caller's ids are attached at the end -- so
anything remembered per pattern has to have the *current* ids re-applied. -/
theorem blaze_relabel_equivariant (f g : Int → Int) (m : List (List Bool)) (eids qids : List Int)
    (rp cp : List Nat) :
    blaze m (eids.map f) (qids.map g) rp cp =
      (blaze m eids qids rp cp).map fun bs => bs.map (relabelBlock f g) :=
  blaze_relabel f g m eids qids rp cp

/-- (i)–(iv) for `blaze(im, eids, qids)` itself, i.e. after the ids are attached and sorted: for every
`n × n` matrix with a perfect matching, every id tuples of length `n` and every inner permutations,
`blaze` returns blocks whose eids are a permutation of `eids` and whose qids are a permutation of `qids`,
all square, each the labelled image of a position block with a perfect matching; and when the ids are
pairwise distinct no equation id of a block is incident (`IncId`) with a quantity id of a later block. -/
theorem blaze_ids_valid (m : List (List Bool)) (eids qids : List Int) (rp cp : List Nat) (n : Nat)
    (he : eids.length = n) (hq : qids.length = n) (hm : m.length = n) (hrow : ∀ row ∈ m, row.length = n)
    (hpm : HasPerfectMatching (incOf m) (List.range n) (List.range n))
    (hp : InnerPerms (incOf m) n rp cp) :
    ∃ bs, blaze m eids qids rp cp = .ok bs ∧
      (bs.flatMap (·.1)).Perm eids ∧ (bs.flatMap (·.2)).Perm qids ∧
      (∀ b ∈ bs, b.1.length = b.2.length) ∧
      (eids.Nodup → qids.Nodup →
        bs.Pairwise fun b b' => ∀ e ∈ b.1, ∀ q ∈ b'.2, ¬ IncId m eids qids e q) ∧
      (∀ b ∈ bs, ∃ pb : Block, b = labelBlock eids qids pb ∧ HasPerfectMatching (incOf m) pb.1 pb.2) := by
  obtain ⟨bs, h, hs⟩ := blaze_id_spec m eids qids rp cp n he hq hm hrow hpm hp.1 hp.2
  exact ⟨bs, h, hs.eids_perm, hs.qids_perm, hs.square, hs.lbt, hs.pm⟩

/-- `Simultaneous.split_into_blocks(plan)`: with `n` solved equations whose steady incidence matrix over
the `n` unknowns has a perfect matching, the blocks partition the equation ids and the unknowns, where a
qid is an unknown -- hence in exactly one block -- iff it can be exogenized and the plan does not
exogenize it, or the plan endogenizes it (a swapped-out variable is in no block, a swapped-in parameter
is in one); blocks are square and lower block-triangular for the steady (any-shift) incidence. -/
theorem split_into_blocks_valid (tokens : List (List Int)) (eids canExo exo endo : List Int)
    (rp cp : List Nat) (n : Nat) (ht : tokens.length = n) (he : eids.length = n)
    (hw : (wrtQids canExo exo endo).length = n)
    (hpm : HasPerfectMatching (incOf (steadyInc tokens (wrtQids canExo exo endo))) (List.range n) (List.range n))
    (hp : InnerPerms (incOf (steadyInc tokens (wrtQids canExo exo endo))) n rp cp) :
    ∃ bs, splitIntoBlocks tokens eids canExo exo endo rp cp = .ok bs ∧
      (bs.flatMap (·.1)).Perm eids ∧
      (bs.flatMap (·.2)).Nodup ∧
      (∀ q, q ∈ bs.flatMap (·.2) ↔ (q ∈ canExo ∧ q ∉ exo) ∨ q ∈ endo) ∧
      (∀ b ∈ bs, b.1.length = b.2.length) ∧
      (eids.Nodup → bs.Pairwise fun b b' => ∀ e ∈ b.1, ∀ q ∈ b'.2,
        ¬ IncId (steadyInc tokens (wrtQids canExo exo endo)) eids (wrtQids canExo exo endo) e q) := by
  obtain ⟨bs, h, hs⟩ := blaze_id_spec (steadyInc tokens (wrtQids canExo exo endo)) eids
    (wrtQids canExo exo endo) rp cp n he hw (by rw [steadyInc_length, ht])
    (fun row hr => by rw [steadyInc_row_length _ _ row hr, hw]) hpm hp.1 hp.2
  refine ⟨bs, h, hs.eids_perm, (hs.qids_perm.nodup_iff).2 (wrtQids_nodup _ _ _), ?_, hs.square,
    fun hne => hs.lbt hne (wrtQids_nodup _ _ _)⟩
  intro q
  rw [hs.qids_perm.mem_iff, mem_wrtQids]

/-- **No claim outside the square case.**  `wrtQids` does not look at what a plan *fixes* (neither does
`_resolve_steady_wrt`: a quantity whose level and change are both fixed stays an unknown column), so a plan
that endogenizes a parameter without exogenizing a variable yields more unknowns than equations.  Then
hypothesis `hw` of `split_into_blocks_valid` fails, and nothing can be valid: whatever list of blocks is
returned, it cannot consist of square blocks that partition both the equations and the unknowns.
(Recorded as finding `split-blocks-fully-fixed-quantity` under C05; for C16 it is outside the statement,
which speaks of square matrices with a perfect matching.) -/
theorem split_into_blocks_not_square_not_valid (eids canExo exo endo : List Int)
    (bs : List (List Int × List Int)) (hne : eids.length ≠ (wrtQids canExo exo endo).length) :
    ¬ ((bs.flatMap (·.1)).Perm eids ∧ (bs.flatMap (·.2)).Perm (wrtQids canExo exo endo) ∧
        ∀ b ∈ bs, b.1.length = b.2.length) := by
  rintro ⟨h1, h2, h3⟩
  have := flatMap_length_of_square h3
  rw [h1.length_eq, h2.length_eq] at this
  exact hne this

/-- what the model (as the code) does there: three equations, unknowns `0 1 2` plus the endogenized
parameter `11` -- equation `102` ends up in two blocks; with another pattern unknown `1` is in no block -/
example : wrtQids [0, 1, 2] [] [11] = [0, 1, 2, 11] ∧
    splitIntoBlocks [[0, 10], [0, 1, 2, 11], [2, 11, 12]] [100, 101, 102] [0, 1, 2] [] [11] [0, 1] [0, 1, 2] =
      .ok [([100], [0]), ([102], [2]), ([102], [11]), ([101], [1])] ∧
    splitIntoBlocks [[0], [0, 1, 11], [1, 2]] [100, 101, 102] [0, 1, 2] [] [11] [] [] =
      .ok [([100], [0]), ([102], [2]), ([101], [11])] := by
  decide +kernel

/-! ### Sequential: the permutation check, the rectangular incidence matrix (round 4) -/

/-- For **every** model (repeated LHS names included): `sequentialize` never returns anything but a
permutation of `0 .. num_equations-1`, the state afterwards is the equations in that order, and no
equation is ever dropped or duplicated -- whether it returns or raises.  (The order from
`sequentialize_strictly` may be partial -- the looped equations are missing from it -- and it is the
permutation check of `reorder_equations` that keeps it from being applied.) -/
theorem sequentialize_never_returns_non_permutation (m : SModel) :
    (∀ π, (sequentialize m).1 = .ok π →
      π.Perm (List.range m.length) ∧ (sequentialize m).2 = π.filterMap fun i => m[i]?) ∧
    (sequentialize m).2.Perm m ∧ (sequentialize m).2.length = m.length := by
  have hperm : (sequentialize m).2.Perm m := applyOp_perm m .sequentialize
  refine ⟨?_, hperm, hperm.length_eq⟩
  intro π h
  rw [sequentialize_eq] at h ⊢
  split at h
  · rename_i hs
    simp only [Except.ok.injEq] at h
    subst h
    simp only [hs, if_true]
    exact ⟨List.Perm.refl _, (filterMap_getElem?_range' m).symm⟩
  · rename_i hs
    split at h
    · rename_i hp
      simp only [Except.ok.injEq] at h
      subst h
      simp only [hs, hp, if_true]
      exact ⟨List.isPerm_iff.1 hp, by simp⟩
    · simp at h

/-- `reorder_equations(p)` never drops or duplicates an equation either -/
theorem reorder_never_drops_equations (m : SModel) (p : List Nat) :
    (reorderEquations m p).2.Perm m ∧ (reorderEquations m p).2.length = m.length :=
  ⟨applyOp_perm m (.reorder p), (applyOp_perm m (.reorder p)).length_eq⟩

/-- `Sequential.incidence_matrix` is `num_equations × num_unique_lhs_names`: never more columns than
rows, and square exactly when the LHS names are pairwise distinct -/
theorem incidence_matrix_square_iff_distinct_lhs (m : SModel) :
    (lhsNames m).length ≤ m.length ∧
    ((lhsNames m).length = m.length ↔ (m.map (·.lhs)).Nodup) := by
  have h1 := dedup_length_le (m.map (·.lhs))
  have h2 := dedup_length_eq_iff (m.map (·.lhs))
  simp only [List.length_map] at h1 h2
  exact ⟨h1, h2⟩

/-- The correct behaviour in the square case.  With pairwise distinct LHS names the incidence matrix is
square with every equation's own LHS on the diagonal, and `sequentialize` is exactly right: it returns
(a permutation `π` whose application leaves the equations in a valid order) if and only if a valid order
exists; otherwise it raises and leaves the model untouched. -/
theorem sequentialize_correct_of_distinct_lhs (m : SModel) (hu : (m.map (·.lhs)).Nodup) :
    (lhsNames m).length = m.length ∧ (∀ i < m.length, seqInc m i i = true) ∧
    ((∃ π, (sequentialize m).1 = .ok π) ↔
      ∃ σ : List Nat, σ.Perm (List.range m.length) ∧ SeqValid (σ.filterMap fun i => m[i]?)) ∧
    (∀ π, (sequentialize m).1 = .ok π → SeqValid (sequentialize m).2) ∧
    (∀ e, (sequentialize m).1 = .error e → (sequentialize m).2 = m) := by
  refine ⟨(incidence_matrix_square_iff_distinct_lhs m).2.2 hu, ?_, ⟨?_, sequentialize_complete m hu⟩, ?_, ?_⟩
  · intro i hi
    rw [seqInc_eq hu hi hi]; simp
  · rintro ⟨π, h⟩
    obtain ⟨h1, h2, h3⟩ := sequentialize_sound m hu π (sequentialize m).2 (by rw [← h])
    exact ⟨π, h1, h2 ▸ h3⟩
  · intro π h
    exact (sequentialize_sound m hu π (sequentialize m).2 (by rw [← h])).2.2
  · intro e h
    exact (sequentialize_error_state_unchanged m e h).1

/-- Lags **and leads** are not within-period dependencies: tokens with a non-zero shift never enter the
model of an equation (`Sequential.incidence_matrix` keeps `tok.shift == 0` only), so they change neither
the incidence matrix nor `is_sequential` nor the outcome of `sequentialize`. -/
theorem shifted_tokens_do_not_count (lhs : Nat) (toks extra : List STok) (h : ∀ t ∈ extra, t.2 ≠ 0) :
    SEq.ofTokens lhs (toks ++ extra) = SEq.ofTokens lhs toks := by
  have : (extra.filter fun t => t.2 == 0) = [] := by
    rw [List.filter_eq_nil_iff]
    intro t ht
    simpa using h t ht
  simp [SEq.ofTokens, List.filter_append, this]

/-- `x0 = 0.5*x1[+1]; x1 = x0` is in sequential order as written (the lead of `x1` does not count) -/
example : isSequential [SEq.ofTokens 0 [(1, 1)], SEq.ofTokens 1 [(0, 0)]] = true ∧
    (sequentialize [SEq.ofTokens 0 [(1, 1)], SEq.ofTokens 1 [(0, 0)]]).1 = .ok [0, 1] := by
  decide +kernel

/-! ### the known finding `sequential-repeated-lhs`, machine-checked on the model of the current code

With repeated LHS names the incidence matrix is strictly rectangular and the code's square-matrix logic
goes wrong in all three ways recorded in known_findings.json. -/

/-- `v0 = 1; v0 = v1 + 2; v1 = 3` -/
def findingA : SModel := [⟨0, []⟩, ⟨0, [1]⟩, ⟨1, []⟩]
/-- `v0 = v1 + 1; v1 = v0 + 2; v0 = 3` -/
def findingB : SModel := [⟨0, [1]⟩, ⟨1, [0]⟩, ⟨0, []⟩]
/-- `v0 = v1 + 1; v0 = 2; v1 = 3` -/
def findingC : SModel := [⟨0, [1]⟩, ⟨0, []⟩, ⟨1, []⟩]

/-- reported sequential and returned as is, although the second equation reads `v1` too early -/
example : (lhsNames findingA).length < findingA.length ∧ isSequential findingA = true ∧
    (sequentialize findingA).1 = .ok [0, 1, 2] ∧ ¬ SeqValid (sequentialize findingA).2 := by
  decide +kernel

/-- re-ordered to `(2, 0, 1)`, which is still not a valid order, although `(2, 1, 0)` is one -/
example : (sequentialize findingB).1 = .ok [2, 0, 1] ∧ ¬ SeqValid (sequentialize findingB).2 ∧
    SeqValid ([2, 1, 0].filterMap fun i => findingB[i]?) := by
  decide +kernel

/-- raises although `(2, 0, 1)` is a valid order -/
example : (sequentialize findingC).1 = .error .notPermutation ∧
    SeqValid ([2, 0, 1].filterMap fun i => findingC[i]?) := by
  decide +kernel

/-! ### non-vacuity -/

example : HasPerfectMatching (incOf exampleMatrix) (List.range 5) (List.range 5) := by decide

example : InnerPerms (incOf exampleMatrix) 5 [1, 0, 2, 3] [0, 1, 3, 2] := by
  unfold InnerPerms
  rw [example_prefetch]
  constructor <;> decide

/-- the hypotheses about the heuristic are satisfiable for every matrix (identity re-ordering) -/
example (im : Inc) (n : Nat) : ∃ rp cp, InnerPerms im n rp cp :=
  ⟨_, _, List.Perm.refl _, List.Perm.refl _⟩

example : (blazePos (incOf exampleMatrix) 5 5 [1, 0, 2, 3] [0, 1, 3, 2]).map (·.blocks) =
    .ok [([0], [0]), ([2, 1], [1, 2]), ([3, 4], [4, 3])] := by
  unfold blazePos
  rw [example_prefetch]
  have e1 : applyPerm [1, 0, 2, 3] [1, 2, 3, 4] = [2, 1, 3, 4] := by decide
  have e2 : applyPerm [0, 1, 3, 2] [1, 2, 3, 4] = [1, 2, 4, 3] := by decide
  have e3 : ([1, 2, 3, 4] : List Nat).length * ([1, 2, 3, 4] : List Nat).length ≠ 0 := by decide
  simp only [e1, e2, if_pos e3, example_inner]
  decide

/-- a Sequential model with unique LHS names that is not in sequential order and has a valid order:
`v0 = v1 + ..; v1 = v2 + ..; v2 = ..` -/
example : (([⟨0, [1]⟩, ⟨1, [2]⟩, ⟨2, []⟩] : SModel).map (·.lhs)).Nodup := by decide

/-- ... and a cyclic one, for which no valid order exists (checked over all 2 orders) -/
example : ¬ ∃ π : List Nat, π.Perm (List.range 2) ∧
    SeqValid (π.filterMap fun i => ([⟨0, [1]⟩, ⟨1, [0]⟩] : SModel)[i]?) := by
  rintro ⟨π, hπ, hv⟩
  have hlen : π.length = 2 := by simpa using hπ.length_eq
  have h0 : 0 ∈ π := hπ.symm.subset (by simp)
  have h1 : 1 ∈ π := hπ.symm.subset (by simp)
  match π, hlen with
  | [a, b], _ =>
    have hab : (a = 0 ∧ b = 1) ∨ (a = 1 ∧ b = 0) := by
      have := hπ.nodup_iff.2 List.nodup_range
      simp only [List.mem_cons, List.not_mem_nil, or_false] at h0 h1
      simp only [List.nodup_cons, List.mem_cons, List.not_mem_nil, or_false, not_false_eq_true,
        List.nodup_nil, and_true] at this
      omega
    rcases hab with ⟨rfl, rfl⟩ | ⟨rfl, rfl⟩
    · have := hv 0 (by simp) 1 (by simp) (by simp)
      simp at this
    · have := hv 0 (by simp) 0 (by simp) (by simp)
      simp at this

/-- the id-level theorems are not vacuous: the 5×5 example under a non-monotone labelling -/
example : blaze exampleMatrix [50, 40, 30, 20, 10] [7, 3, 9, 1, 5] [1, 0, 2, 3] [0, 1, 3, 2] =
    .ok [([50], [7]), ([30, 40], [3, 9]), ([10, 20], [1, 5])] := by decide +kernel

/-- ... and `split_into_blocks` with a plan that swaps variable `1` for parameter `11`:
equations `0: {0, 10}`, `1: {0, 1, 2, 11}`, `2: {2, 11, 12}` over variables `0 1 2`, parameters `10 11 12` -/
example : wrtQids [0, 1, 2] [1] [11] = [0, 2, 11] ∧
    splitIntoBlocks [[0, 10], [0, 1, 2, 11], [2, 11, 12]] [100, 101, 102] [0, 1, 2] [1] [11] [0, 1] [0, 1] =
      .ok [([100], [0]), ([101, 102], [2, 11])] := by decide +kernel

/-- hypotheses of `blaze_ids_valid` / `split_into_blocks_valid` met by the two examples above -/
example : exampleMatrix.length = 5 ∧ (∀ row ∈ exampleMatrix, row.length = 5) ∧
    (wrtQids [0, 1, 2] [1] [11]).length = 3 ∧
    HasPerfectMatching (incOf (steadyInc [[0, 10], [0, 1, 2, 11], [2, 11, 12]] (wrtQids [0, 1, 2] [1] [11])))
      (List.range 3) (List.range 3) := by
  decide +kernel

/-- hypothesis of `sequentialize_complete` met: `v0 = v1; v1 = v2; v2 = 1` has the valid order (2, 1, 0),
and `sequentialize` finds it -/
example : (∃ σ : List Nat, σ.Perm (List.range 3) ∧
      SeqValid (σ.filterMap fun i => ([⟨0, [1]⟩, ⟨1, [2]⟩, ⟨2, []⟩] : SModel)[i]?)) ∧
    (sequentialize [⟨0, [1]⟩, ⟨1, [2]⟩, ⟨2, []⟩]).1 = .ok [2, 1, 0] :=
  ⟨⟨[2, 1, 0], by decide, by decide +kernel⟩, by decide +kernel⟩

/-- a history (`reorder_equations([1, 0, 2])`, `sequentialize()`, `copy()`, a rejected
`reorder_equations([0, 0, 1])`) after which `sequentialize()` still returns, with the state in valid order -/
example :
    let m := runOps [⟨0, [1]⟩, ⟨1, [2]⟩, ⟨2, []⟩] [.reorder [1, 0, 2], .sequentialize, .copy, .reorder [0, 0, 1]]
    m = [⟨2, []⟩, ⟨1, [2]⟩, ⟨0, [1]⟩] ∧ (sequentialize m).1 = .ok [0, 1, 2] ∧ SeqValid (sequentialize m).2 := by
  decide +kernel

end IrisVerif.C16
