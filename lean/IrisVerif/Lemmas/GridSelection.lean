/-
Lemmas for the CSV theorems of property C19 about explicitly selected periods (`exportGridWith`): the chain of
IrisVerif/Lemmas/GridRoundTrip.lean without the assumption that a block's periods are the consecutive range of its series.
-/
import IrisVerif.Lemmas.GridRoundTrip

namespace IrisVerif.Grid
open IrisVerif.Databox
open IrisVerif.Dates (Err R)

section
variable {V : Type}

/-- a block with any selection of periods: admissible names, rows as wide as the number of variants, and either the block of
the empty series (no periods) or a dated block with at least one period -/
structure GoodBlockG (b : Block V) : Prop where
  names : GoodNames b.members
  sers : ∀ p ∈ b.members, ∀ r ∈ p.2.rows, r.length = p.2.nv
  kind : (b.freq = .U ∧ b.periods = []) ∨ (b.freq ≠ .U ∧ b.freq ≠ .W ∧ b.periods ≠ [])

/-- what comes back for one series of a block: `set_data` of the series' own rows at the written periods -/
def reimport (dh : String × Ser V → String) (b : Block V) (p : String × Ser V) : String × Ser V :=
  (p.1, if b.freq = .U then Ser.empty p.2.nv (dh p)
        else setData b.freq p.2.nv (dh p) b.periods (b.periods.map p.2.rowAt))

theorem cells_of_series (c : Codec V) (hc : CodecLaw c) (b : Block V)
    (hs : ∀ p ∈ b.members, ∀ r ∈ p.2.rows, r.length = p.2.nv)
    (m1 m2 : List (String × Ser V)) (p : String × Ser V) (hsplit : b.members = m1 ++ p :: m2) :
    (b.periods.map (fun t => (dataCells c b t).map c.parseCell)).map
        (fun r => (r.drop ((m1.map (fun q => q.2.nv)).sum)).take p.2.nv) = b.periods.map p.2.rowAt := by
  have hpm : p ∈ b.members := by rw [hsplit]; simp
  have hrows : ∀ q ∈ b.members, ∀ t, (q.2.rowAt t).length = q.2.nv := fun q hq t => rowAt_length q.2 (hs q hq) t
  rw [List.map_map]
  apply List.map_congr_left
  intro t _
  simp only [Function.comp, dataCells, List.map_append, List.map_flatMap, List.map_map]
  have hid : ∀ q : String × Ser V, List.map (c.parseCell ∘ c.fmtCell) (q.2.rowAt t) = q.2.rowAt t := by
    intro q
    have : List.map (c.parseCell ∘ c.fmtCell) (q.2.rowAt t) = List.map id (q.2.rowAt t) :=
      List.map_congr_left (fun x _ => hc.cell x)
    rw [this, List.map_id]
  simp only [hid, hsplit]
  exact cells_slice (fun q => q.2.rowAt t) m1 m2 p _
    (fun q hq => hrows q (by rw [hsplit]; simp [hq]) t) (hrows p hpm t)

/-- **decoding one block** from any grid in which the block's own cells sit where the raw block says -/
theorem decode_block_view_gen (c : Codec V) (hc : CodecLaw c) (b : Block V) (hb : GoodBlockG b) (raw : RawBlock)
    (hraw : raw.freq = b.freq) (dh : String × Ser V → String) (dc e : String) (nameRow descRow : List String)
    (T : Nat) (hT : 1 ≤ T) (hfit : b.periods.length ≤ T) (F : Nat → List String)
    (hN : sliceRow raw nameRow = b.members.flatMap (fun p => starCont p.1 p.2.nv) ++ [""])
    (hD : sliceRow raw descRow = descCellsG dh dc b.members ++ [e])
    (hdate : ∀ i, dateCell raw (F i) = match b.periods[i]? with | some t => c.fmtDate b.freq t | none => "")
    (hcell : ∀ i t, b.periods[i]? = some t → sliceRow raw (F i) = dataCells c b t) :
    decodeBlock c nameRow descRow ((List.range T).map F) raw = .ok (b.members.map (reimport dh b)) := by
  obtain ⟨T', rfl⟩ : ∃ T', T = T' + 1 := ⟨T - 1, by omega⟩
  have hhead : ((List.range (T' + 1)).map F).head? = some (F 0) := by simp [List.range_succ_eq_map]
  rw [decodeBlock_eq c _ _ _ raw (F 0) hhead]
  unfold decodeBody
  -- printed periods are never empty cells
  have hne : ∀ t ∈ b.periods, c.fmtDate b.freq t ≠ "" := by
    intro t ht
    rcases hb.kind with ⟨_, hp⟩ | ⟨h1, h2, _⟩
    · rw [hp] at ht; simp at ht
    · exact (hc.date b.freq t h1 h2).2
  -- the dated rows are the first `n`
  have hdated : ((List.range (T' + 1)).map F).filter (fun r => dateCell raw r ≠ "") = (List.range b.periods.length).map F := by
    rw [List.filter_map, ← filter_lt_range b.periods.length (T' + 1) hfit]
    congr 1
    apply List.filter_congr
    intro i _
    simp only [Function.comp, hdate]
    by_cases hi : i < b.periods.length
    · have : b.periods[i]? = some b.periods[i] := List.getElem?_eq_getElem hi
      simp [this, hi, hne _ (List.getElem_mem hi)]
    · have : b.periods[i]? = none := List.getElem?_eq_none (by omega)
      simp [this, hi]
  have hcols : columnIterator (sliceRow raw nameRow) (sliceRow raw descRow) = colsOfG dh 0 b.members := by
    rw [hN, hD]; exact columnIterator_exportG dh dc e b.members hb.names
  have harr : ((List.range b.periods.length).map F).map (fun r => (sliceRow raw r).map c.parseCell)
      = b.periods.map (fun t => (dataCells c b t).map c.parseCell) := by
    rw [List.map_map]
    refine Eq.trans ?_ (map_getElem?_range b.periods
      (fun o => match o with | some t => (dataCells c b t).map c.parseCell | none => []))
    apply List.map_congr_left
    intro i hi
    have hi' := List.mem_range.mp hi
    have : b.periods[i]? = some b.periods[i] := List.getElem?_eq_getElem hi'
    simp only [Function.comp, this, hcell i _ this]
  simp only [hdated, hcols, harr]
  rcases hb.kind with ⟨hU, hp⟩ | ⟨h1, h2, hpne⟩
  · -- the block of the empty series
    have hrU : raw.freq = .U := hraw.trans hU
    simp only [hrU, ne_eq, not_true_eq_false, false_and, if_false, if_true, hp, List.length_nil, List.range_zero,
      List.map_nil, List.isEmpty_nil, pure, Except.pure]
    congr 1
    apply map_colsOfG
    intro m1 p m2 _
    simp [reimport, hU]
  · -- a block of dated series
    have hrf : raw.freq ≠ .U := by rw [hraw]; exact h1
    have hlen : 0 < b.periods.length := List.length_pos_iff.mpr hpne
    have h0 : c.parseDate raw.freq (dateCell raw (F 0)) ≠ none := by
      have : b.periods[0]? = some b.periods[0] := List.getElem?_eq_getElem hlen
      rw [hdate 0, this, hraw, (hc.date b.freq _ h1 h2).1]
      simp
    have hperiods : ((List.range b.periods.length).map F).mapM (fun r => parsePeriod c raw.freq (dateCell raw r))
        = .ok b.periods := by
      rw [mapM_map_ok F _ (fun i => (b.periods[i]?).getD 0)]
      · rw [map_getElem?_range b.periods (fun o => o.getD 0)]
        simp
      · intro i hi
        have hi' := List.mem_range.mp hi
        have : b.periods[i]? = some b.periods[i] := List.getElem?_eq_getElem hi'
        simp only [parsePeriod, hdate i, this, hraw, (hc.date b.freq _ h1 h2).1, Option.getD_some]
        rfl
    simp only [hrf, ne_eq, not_false_eq_true, true_and, h0, if_false, hperiods, bind, Except.bind, pure, Except.pure]
    congr 1
    apply map_colsOfG
    intro m1 p m2 hsplit
    simp only [reimport, h1, if_false, Nat.zero_add, hraw]
    congr 2
    exact cells_of_series c hc b hb.sers m1 m2 p hsplit

theorem gridRow_lengthG (c : Codec V) (x : Block V) (hx : GoodBlockG x) (i : Nat) : (x.gridRow c i).length = x.width := by
  unfold Block.gridRow
  split
  · rename_i t _
    have : (x.members.flatMap (fun p => (p.2.rowAt t).map c.fmtCell)).length = (x.members.map (fun p => p.2.nv)).sum := by
      have hs := hx.sers
      generalize x.members = m at hs
      induction m with
      | nil => rfl
      | cons p ps ih =>
        simp only [List.flatMap_cons, List.length_append, List.length_map, List.map_cons, List.sum_cons]
        rw [rowAt_length p.2 (hs p (by simp)) t, ih (fun q hq => hs q (List.mem_cons_of_mem _ hq))]
    simp [Block.dataRow, Block.width, this]; omega
  · simp [Block.emptyRow]


theorem decode_in_context_gen (c : Codec V) (hc : CodecLaw c) (d : Bool) (T : Nat) (hT : 1 ≤ T)
    (B1 B2 : List (Block V)) (b : Block V) (hg : ∀ x ∈ B1 ++ b :: B2, GoodBlockG x ∧ x.periods.length ≤ T) :
    decodeBlock c ((B1 ++ b :: B2).flatMap Block.nameRow) (descRowOf d (B1 ++ b :: B2)) (dataRowsOf c T (B1 ++ b :: B2))
        ⟨b.freq, widths B1, b.width - 1⟩
      = .ok (b.members.map (reimport (descOf d) b)) := by
  have hb := (hg b (by simp)).1
  have hfit := (hg b (by simp)).2
  have hB1 : ∀ x ∈ B1, GoodBlockG x := fun x hx => (hg x (by simp [hx])).1
  have hnames : ∀ x ∈ B1 ++ b :: B2, GoodNames x.members := fun x hx => (hg x hx).1.names
  have hwb : (b.members.flatMap (fun p => starCont p.1 p.2.nv) ++ [""]).length = b.width - 1 := by
    simp [nameCells_length _ hb.names, Block.width]; omega
  have hN := (seg_slice Block.nameRow B1 B2 b (fun x hx => nameRow_length x (hB1 x hx).names) (mark b.freq)
      (b.members.flatMap (fun p => starCont p.1 p.2.nv) ++ [""]) rfl hwb).1
  -- the data rows
  have hdata : ∀ i, dateCell ⟨b.freq, widths B1, b.width - 1⟩ ((B1 ++ b :: B2).flatMap (fun x => x.gridRow c i))
        = (match b.periods[i]? with | some t => c.fmtDate b.freq t | none => "")
      ∧ ∀ t, b.periods[i]? = some t →
        sliceRow ⟨b.freq, widths B1, b.width - 1⟩ ((B1 ++ b :: B2).flatMap (fun x => x.gridRow c i)) = dataCells c b t := by
    intro i
    have hlenB1 : ∀ x ∈ B1, (x.gridRow c i).length = x.width := fun x hx => gridRow_lengthG c x (hB1 x hx) i
    have hlenb := gridRow_lengthG c b hb i
    cases hp : b.periods[i]? with
    | none =>
      have hrow : b.gridRow c i = "" :: List.replicate (b.width - 1) "" := by
        simp only [Block.gridRow, hp, Block.emptyRow]
        have : b.width = (b.width - 1) + 1 := by simp [Block.width]
        conv => lhs; rw [this]
        rfl
      have := seg_slice (fun x => x.gridRow c i) B1 B2 b hlenB1 "" _ hrow (by simp)
      exact ⟨this.2, fun t ht => by simp at ht⟩
    | some t =>
      have hrow : b.gridRow c i = c.fmtDate b.freq t :: dataCells c b t := by
        simp only [Block.gridRow, hp, Block.dataRow, dataCells]
      have hl : (dataCells c b t).length = b.width - 1 := by
        have := hlenb; rw [hrow] at this; simp at this; omega
      have := seg_slice (fun x => x.gridRow c i) B1 B2 b hlenB1 _ _ hrow hl
      exact ⟨this.2, fun t' ht' => by cases ht'; exact this.1⟩
  cases d with
  | true =>
    have hwd : (b.members.flatMap (fun p => starCont p.2.desc p.2.nv) ++ [""]).length = b.width - 1 := by
      simp [descCells_length _ hb.names, Block.width]; omega
    have hD := (seg_slice Block.descRow B1 B2 b (fun x hx => descRow_length x (hB1 x hx).names) ""
      (b.members.flatMap (fun p => starCont p.2.desc p.2.nv) ++ [""]) rfl hwd).1
    exact decode_block_view_gen c hc b hb _ rfl (descOf true) "*" "" _ _ T hT hfit _ hN
      (by simpa [descRowOf, descCellsG, starCont, descOf] using hD) (fun i => (hdata i).1) (fun i t ht => (hdata i).2 t ht)
  | false =>
    have hlenN : ((B1 ++ b :: B2).flatMap Block.nameRow).length = widths B1 + b.width + widths B2 := by
      rw [flatMap_seg_length Block.nameRow _ (fun x hx => nameRow_length x (hnames x hx))]
      simp [widths]; omega
    have hD : sliceRow ⟨b.freq, widths B1, b.width - 1⟩ (descRowOf false (B1 ++ b :: B2))
        = descCellsG (descOf false) "" b.members ++ [""] := by
      have hw : 1 ≤ b.width := by simp [Block.width]
      have e : descCellsG (descOf (V := V) false) "" b.members = descCellsG (fun _ => "") "" b.members := rfl
      rw [e, ← blank_descCells b.members hb.names]
      simp only [descRowOf, Bool.false_eq_true, if_false, hlenN, sliceRow, List.drop_replicate, List.take_replicate]
      have : min (b.width - 1) (widths B1 + b.width + widths B2 - (widths B1 + 1)) = (b.members.map (fun p => p.2.nv)).sum + 1 := by
        simp [Block.width]; omega
      rw [this, List.replicate_succ']
    exact decode_block_view_gen c hc b hb _ rfl (descOf false) "" "" _ _ T hT hfit _ hN hD
      (fun i => (hdata i).1) (fun i t ht => (hdata i).2 t ht)


/-- **import of the exported blocks**, any number of blocks, series, variants and rows -/
theorem import_of_blocks_gen (c : Codec V) (hc : CodecLaw c) (d : Bool) (T : Nat) (hT : 1 ≤ T) (Bs : List (Block V))
    (hg : ∀ x ∈ Bs, GoodBlockG x ∧ x.periods.length ≤ T) (hnd : (keys (Bs.flatMap (·.members))).Nodup) :
    importGrid c d (zipRowsN (headerRows d + T) (Bs.map (Block.rows c d T)))
      = .ok (Bs.flatMap (fun b => b.members.map (reimport (descOf d) b))) := by
  have hnames : ∀ x ∈ Bs, GoodNames x.members := fun x hx => (hg x hx).1.names
  have hparts : (blockIterator (Bs.flatMap Block.nameRow)).mapM
      (decodeBlock c (Bs.flatMap Block.nameRow) (descRowOf d Bs) (dataRowsOf c T Bs))
        = .ok (Bs.map (fun b => b.members.map (reimport (descOf d) b))) := by
    rw [blockIterator, scan_export Bs hnames 0]
    have := mapM_rawOf (decodeBlock c (Bs.flatMap Block.nameRow) (descRowOf d Bs) (dataRowsOf c T Bs))
      (fun b => b.members.map (reimport (descOf d) b)) [] Bs
    simp only [widths, List.map_nil, List.sum_nil, List.nil_append] at this
    apply this
    intro B2a b B2b hsplit
    have := decode_in_context_gen c hc d T hT B2a B2b b (by rw [← hsplit]; exact hg)
    rw [← hsplit] at this
    exact this
  have hlenN : (Bs.flatMap Block.nameRow).length = widths Bs :=
    flatMap_seg_length Block.nameRow Bs (fun x hx => nameRow_length x (hnames x hx))
  have hdataLen : ∀ r ∈ dataRowsOf c T Bs, r.length = (Bs.flatMap Block.nameRow).length := by
    intro r hr
    simp only [dataRowsOf, List.mem_map] at hr
    obtain ⟨i, _, rfl⟩ := hr
    rw [hlenN, flatMap_seg_length (fun x => x.gridRow c i) Bs (fun x hx => gridRow_lengthG c x (hg x hx).1 i)]
  have hfinal : dictOfList ((Bs.map (fun b => b.members.map (reimport (descOf d) b))).flatten)
      = Bs.flatMap (fun b => b.members.map (reimport (descOf d) b)) := by
    have hk : keys (Bs.flatMap (fun b => b.members.map (reimport (descOf d) b))) = keys (Bs.flatMap (·.members)) := by
      simp only [keys, List.map_flatMap, List.map_map]
      rfl
    rw [← List.flatMap_def]
    exact dictOfList_nodup _ (by rw [hk]; exact hnd)
  rw [grid_eq c d T Bs (fun x hx => (hg x hx).2)]
  cases d with
  | true =>
    have hrect : (([Bs.flatMap Block.descRow] ++ dataRowsOf c T Bs).all
        (fun r => r.length == (Bs.flatMap Block.nameRow).length)) = true := by
      rw [List.all_eq_true]
      intro r hr
      simp only [List.cons_append, List.nil_append, List.mem_cons] at hr
      rcases hr with rfl | hr
      · simp [flatMap_rows_length Bs hnames]
      · simp [hdataLen r hr]
    simp only [importGrid, if_true, hrect, Bool.not_true, Bool.false_eq_true, if_false, List.cons_append, List.nil_append]
    have hd : descRowOf true Bs = Bs.flatMap Block.descRow := by simp [descRowOf]
    rw [hd] at hparts
    simp only [hparts, bind, Except.bind, pure, Except.pure, hfinal]
    rw [if_neg (by simpa using hrect)]
  | false =>
    have hrect : (([] ++ dataRowsOf c T Bs).all
        (fun r => r.length == (Bs.flatMap Block.nameRow).length)) = true := by
      rw [List.all_eq_true]
      intro r hr
      simp only [List.nil_append] at hr
      simp [hdataLen r hr]
    simp only [importGrid, Bool.false_eq_true, if_false, hrect, Bool.not_true, List.nil_append]
    have hd : descRowOf false Bs = List.replicate (Bs.flatMap Block.nameRow).length "" := by simp [descRowOf]
    rw [hd] at hparts
    simp only [List.nil_append] at hrect
    simp only [hparts, bind, Except.bind, pure, Except.pure, hfinal]
    rw [if_neg (by rw [hrect]; simp)]


end

theorem fill_other {α : Type} (idxs : List Nat) (rows acc : List α) (j : Nat) (hj : j ∉ idxs) :
    ((idxs.zip rows).foldl (fun acc pr => acc.set pr.1 pr.2) acc)[j]? = acc[j]? := by
  induction idxs generalizing rows acc with
  | nil => simp
  | cons k ks ih =>
    cases rows with
    | nil => simp
    | cons r rs =>
      simp only [List.zip_cons_cons, List.foldl_cons]
      simp only [List.mem_cons, not_or] at hj
      rw [ih rs (acc.set k r) hj.2, List.getElem?_set_ne (fun e => hj.1 e.symm)]

theorem fill_at {α : Type} (idxs : List Nat) (rows acc : List α) (hnd : idxs.Nodup) (hlt : ∀ k ∈ idxs, k < acc.length)
    (i : Nat) (k : Nat) (r : α) (hk : idxs[i]? = some k) (hr : rows[i]? = some r) :
    ((idxs.zip rows).foldl (fun acc pr => acc.set pr.1 pr.2) acc)[k]? = some r := by
  induction idxs generalizing rows acc i with
  | nil => simp at hk
  | cons k0 ks ih =>
    cases rows with
    | nil => simp at hr
    | cons r0 rs =>
      simp only [List.zip_cons_cons, List.foldl_cons]
      simp only [List.nodup_cons] at hnd
      cases i with
      | zero =>
        simp at hk hr
        subst hk; subst hr
        rw [fill_other ks rs _ k0 hnd.1]
        simp [hlt k0 (by simp)]
      | succ i' =>
        simp at hk hr
        exact ih rs (acc.set k0 r0) hnd.2 (fun k hk' => by simpa using hlt k (List.mem_cons_of_mem _ hk')) i' hk hr

theorem nodup_map_on {α β : Type} (f : α → β) (l : List α) (hinj : ∀ x ∈ l, ∀ y ∈ l, f x = f y → x = y) (h : l.Nodup) :
    (l.map f).Nodup := by
  induction l with
  | nil => simp
  | cons a l ih =>
    simp only [List.nodup_cons] at h
    simp only [List.map_cons, List.nodup_cons]
    refine ⟨?_, ih (fun x hx y hy => hinj x (List.mem_cons_of_mem _ hx) y (List.mem_cons_of_mem _ hy)) h.2⟩
    intro hm
    obtain ⟨y, hy, hfy⟩ := List.mem_map.mp hm
    have := hinj y (List.mem_cons_of_mem _ hy) a (by simp) hfy
    exact h.1 (this ▸ hy)

theorem foldl_min_le (a : Int) (l : List Int) : ∀ x ∈ a :: l, l.foldl min a ≤ x := by
  induction l generalizing a with
  | nil => intro x hx; simp at hx; subst hx; simp
  | cons y l ih =>
    intro x hx
    simp only [List.foldl_cons]
    rcases List.mem_cons.mp hx with rfl | hx
    · exact Int.le_trans (ih (min x y) (min x y) (by simp)) (Int.min_le_left _ _)
    · rcases List.mem_cons.mp hx with rfl | hx
      · exact Int.le_trans (ih (min a x) (min a x) (by simp)) (Int.min_le_right _ _)
      · exact ih (min a y) x (List.mem_cons_of_mem _ hx)

theorem le_foldl_max (a : Int) (l : List Int) : ∀ x ∈ a :: l, x ≤ l.foldl max a := by
  induction l generalizing a with
  | nil => intro x hx; simp at hx; subst hx; simp
  | cons y l ih =>
    intro x hx
    simp only [List.foldl_cons]
    rcases List.mem_cons.mp hx with rfl | hx
    · exact Int.le_trans (Int.le_max_left _ _) (ih (max x y) (max x y) (by simp))
    · rcases List.mem_cons.mp hx with rfl | hx
      · exact Int.le_trans (Int.le_max_right _ _) (ih (max a x) (max a x) (by simp))
      · exact ih (max a y) x (List.mem_cons_of_mem _ hx)

section
variable {V : Type}

/-- `set_data` before the final `trim()` -/
def setDataRaw (f : BFreq) (nv : Nat) (desc : String) (p0 : Int) (ps : List Int) (rows : List (List (Option V))) : Ser V :=
  let lo := ps.foldl min p0
  let hi := ps.foldl max p0
  ⟨f, lo, nv, ((p0 :: ps).zip rows).foldl (fun acc pr => acc.set (pr.1 - lo).toNat pr.2)
    (List.replicate (hi - lo + 1).toNat (nanRow nv)), desc⟩

theorem setData_eq_trim_raw (f : BFreq) (nv : Nat) (desc : String) (p0 : Int) (ps : List Int) (rows : List (List (Option V))) :
    setData f nv desc (p0 :: ps) rows = (setDataRaw f nv desc p0 ps rows).trim := rfl

/-- **every row lands at its own period, whatever the order or step of the written periods**: before the final trim (which
only drops all-NaN rows at the two ends) the series set up from distinct periods `p₀, p₁, …` and rows `r₀, r₁, …` has row `rᵢ`
at period `pᵢ` and NaN rows at every period that was not written -/
theorem setDataRaw_rowAt (f : BFreq) (nv : Nat) (desc : String) (p0 : Int) (ps : List Int) (rows : List (List (Option V)))
    (hnd : (p0 :: ps).Nodup) :
    (∀ (i : Nat) (p : Int) (r : List (Option V)), (p0 :: ps)[i]? = some p → rows[i]? = some r → (setDataRaw f nv desc p0 ps rows).rowAt p = r)
    ∧ (∀ p, p ∉ p0 :: ps → (setDataRaw f nv desc p0 ps rows).rowAt p = nanRow nv) := by
  have hlo := foldl_min_le p0 ps
  have hhi := le_foldl_max p0 ps
  -- the fold over periods is a fold over positions
  have hconv : ((p0 :: ps).zip rows).foldl (fun acc pr => acc.set (pr.1 - ps.foldl min p0).toNat pr.2)
        (List.replicate (ps.foldl max p0 - ps.foldl min p0 + 1).toNat (nanRow nv))
      = ((((p0 :: ps).map (fun p => (p - ps.foldl min p0).toNat)).zip rows).foldl (fun acc pr => acc.set pr.1 pr.2)
        (List.replicate (ps.foldl max p0 - ps.foldl min p0 + 1).toNat (nanRow nv))) := by
    rw [List.zip_map_left, List.foldl_map]
    rfl
  have hidx_nd : ((p0 :: ps).map (fun p => (p - ps.foldl min p0).toNat)).Nodup := by
    apply nodup_map_on _ _ _ hnd
    intro x hx y hy hxy
    have := hlo x hx; have := hlo y hy
    omega
  have hidx_lt : ∀ k ∈ (p0 :: ps).map (fun p => (p - ps.foldl min p0).toNat),
      k < (List.replicate (ps.foldl max p0 - ps.foldl min p0 + 1).toNat (nanRow nv : List (Option V))).length := by
    intro k hk
    obtain ⟨x, hx, rfl⟩ := List.mem_map.mp hk
    have := hlo x hx; have := hhi x hx
    simp; omega
  constructor
  · intro i p r hp hr
    have hpm : p ∈ p0 :: ps := List.mem_of_getElem? hp
    have h1 := hlo p hpm
    simp only [setDataRaw, Ser.rowAt, h1, if_true]
    rw [hconv, fill_at _ rows _ hidx_nd hidx_lt i ((p - ps.foldl min p0).toNat) r (by rw [List.getElem?_map, hp]; rfl) hr]
    rfl
  · intro p hp
    simp only [setDataRaw, Ser.rowAt]
    by_cases h1 : ps.foldl min p0 ≤ p
    · simp only [h1, if_true]
      rw [hconv, fill_other]
      · cases hq : (List.replicate (ps.foldl max p0 - ps.foldl min p0 + 1).toNat (nanRow nv : List (Option V)))[(p - ps.foldl min p0).toNat]? with
        | none => rfl
        | some r => simp only [Option.getD_some]; exact (List.mem_replicate.mp (List.mem_of_getElem? hq)).2
      · intro hk
        obtain ⟨x, hx, hxe⟩ := List.mem_map.mp hk
        have := hlo x hx
        have : x = p := by omega
        exact hp (this ▸ hx)
    · simp only [h1, if_false]

end


theorem split_trailing {α : Type} (p : α → Bool) (l : List α) :
    l = (l.reverse.dropWhile p).reverse ++ (l.reverse.takeWhile p).reverse := by
  have := List.takeWhile_append_dropWhile (p := p) (l := l.reverse)
  have h2 := congrArg List.reverse this
  simp only [List.reverse_append, List.reverse_reverse] at h2
  exact h2.symm

theorem mem_takeWhile' {α : Type} (p : α → Bool) (l : List α) (x : α) (h : x ∈ l.takeWhile p) : p x = true ∧ x ∈ l := by
  induction l with
  | nil => simp at h
  | cons a l ih =>
    simp only [List.takeWhile_cons] at h
    by_cases ha : p a = true
    · simp only [ha, if_true, List.mem_cons] at h
      rcases h with rfl | h
      · exact ⟨ha, by simp⟩
      · exact ⟨(ih h).1, List.mem_cons_of_mem _ (ih h).2⟩
    · simp [ha] at h

theorem fill_fun {α : Type} (g : Nat → α) (idxs : List Nat) (acc : List α) (hlt : ∀ k ∈ idxs, k < acc.length) (k : Nat) :
    ((idxs.zip (idxs.map g)).foldl (fun acc pr => acc.set pr.1 pr.2) acc)[k]? = if k ∈ idxs then some (g k) else acc[k]? := by
  induction idxs generalizing acc with
  | nil => simp
  | cons k0 ks ih =>
    simp only [List.map_cons, List.zip_cons_cons, List.foldl_cons]
    rw [ih (acc.set k0 (g k0)) (fun j hj => by simpa using hlt j (List.mem_cons_of_mem _ hj))]
    by_cases h1 : k ∈ ks
    · simp [h1]
    · simp only [h1, if_false, List.mem_cons, or_false]
      by_cases h2 : k = k0
      · subst h2; simp [hlt k (by simp)]
      · simp [h2, List.getElem?_set_ne (Ne.symm h2)]

section
variable {V : Type}

theorem eq_nanRow_of_allNan (r : List (Option V)) (nv : Nat) (h1 : allNan r = true) (h2 : r.length = nv) : r = nanRow nv := by
  subst h2
  unfold nanRow
  apply List.ext_getElem (by simp)
  intro i hi _
  simp only [List.getElem_replicate]
  have : r[i].isNone = true := by
    unfold allNan at h1
    exact List.all_eq_true.mp h1 _ (List.getElem_mem hi)
  cases hq : r[i] with
  | none => rfl
  | some x => rw [hq] at this; simp at this

/-- rows that are all-NaN before and after the core do not matter for `rowAt` -/
theorem rowAt_core (f : BFreq) (st : Int) (nv : Nat) (d1 d2 : String) (L M T : List (List (Option V)))
    (hL : ∀ r ∈ L, r = nanRow nv) (hT : ∀ r ∈ T, r = nanRow nv) (t : Int) :
    (⟨f, st, nv, L ++ M ++ T, d1⟩ : Ser V).rowAt t = (⟨f, st + (L.length : Int), nv, M, d2⟩ : Ser V).rowAt t := by
  simp only [Ser.rowAt]
  by_cases h1 : st ≤ t
  · simp only [h1, if_true]
    by_cases h2 : (t - st).toNat < L.length
    · have h3 : ¬ st + (L.length : Int) ≤ t := by omega
      simp only [h3, if_false]
      rw [List.append_assoc, List.getElem?_append_left h2]
      have : L[(t - st).toNat]? = some L[(t - st).toNat] := List.getElem?_eq_getElem h2
      rw [this]
      exact hL _ (List.getElem_mem h2)
    · have h3 : st + (L.length : Int) ≤ t := by omega
      simp only [h3, if_true]
      rw [List.append_assoc, List.getElem?_append_right (by omega)]
      have e : (t - st).toNat - L.length = (t - (st + (L.length : Int))).toNat := by omega
      rw [e]
      by_cases h4 : (t - (st + (L.length : Int))).toNat < M.length
      · rw [List.getElem?_append_left h4]
      · rw [List.getElem?_append_right (by omega), List.getElem?_eq_none (l := M) (by omega)]
        cases hq : T[(t - (st + (L.length : Int))).toNat - M.length]? with
        | none => rfl
        | some r => simp only [Option.getD_some, Option.getD_none]; exact hT r (List.mem_of_getElem? hq)
  · have h3 : ¬ st + (L.length : Int) ≤ t := by omega
    simp [h1, h3]

/-- **`Series.trim()` does not change any row**: the trimmed series has the same row as the untrimmed one at every period
(NaN rows outside) -/
theorem trim_rowAt (s : Ser V) (hrows : ∀ r ∈ s.rows, r.length = s.nv) (t : Int) : s.trim.rowAt t = s.rowAt t := by
  obtain ⟨f, st, nv, rows, d⟩ := s
  simp only at hrows
  have h1 := (List.takeWhile_append_dropWhile (p := allNan) (l := rows)).symm
  have h2 := split_trailing allNan (rows.dropWhile allNan)
  have hL : ∀ r ∈ rows.takeWhile allNan, r = nanRow nv := by
    intro r hr
    exact eq_nanRow_of_allNan r nv (mem_takeWhile' _ _ _ hr).1 (hrows r (mem_takeWhile' _ _ _ hr).2)
  have hT : ∀ r ∈ ((rows.dropWhile allNan).reverse.takeWhile allNan).reverse, r = nanRow nv := by
    intro r hr
    have hr' := List.mem_reverse.mp hr
    refine eq_nanRow_of_allNan r nv (mem_takeWhile' _ _ _ hr').1 (hrows r ?_)
    have := (mem_takeWhile' _ _ _ hr').2
    exact (List.dropWhile_sublist allNan).subset (List.mem_reverse.mp this)
  have hdecomp : rows = rows.takeWhile allNan ++ ((rows.dropWhile allNan).reverse.dropWhile allNan).reverse
      ++ ((rows.dropWhile allNan).reverse.takeWhile allNan).reverse := by
    rw [List.append_assoc, ← h2]; exact h1
  have key := rowAt_core f st nv d d (rows.takeWhile allNan) ((rows.dropWhile allNan).reverse.dropWhile allNan).reverse
    ((rows.dropWhile allNan).reverse.takeWhile allNan).reverse hL hT t
  rw [← hdecomp] at key
  rw [key]
  unfold Ser.trim
  simp only
  by_cases he : (((rows.dropWhile allNan).reverse.dropWhile allNan).reverse).isEmpty = true
  · simp only [he, if_true]
    have : ((rows.dropWhile allNan).reverse.dropWhile allNan).reverse = [] := List.isEmpty_iff.mp he
    rw [this]
    simp [Ser.rowAt, Ser.empty]
  · simp only [he, Bool.false_eq_true, if_false]

/-- rows set up from a function of the period: every written period (repetitions allowed, any order) holds its own row -/
theorem setDataRaw_rowAt_fun (f : BFreq) (nv : Nat) (desc : String) (p0 : Int) (ps : List Int) (F : Int → List (Option V)) (p : Int) :
    (setDataRaw f nv desc p0 ps ((p0 :: ps).map F)).rowAt p = if p ∈ p0 :: ps then F p else nanRow nv := by
  have hlo := foldl_min_le p0 ps
  have hhi := le_foldl_max p0 ps
  have hconv : ((p0 :: ps).zip ((p0 :: ps).map F)).foldl (fun acc pr => acc.set (pr.1 - ps.foldl min p0).toNat pr.2)
        (List.replicate (ps.foldl max p0 - ps.foldl min p0 + 1).toNat (nanRow nv))
      = ((((p0 :: ps).map (fun p => (p - ps.foldl min p0).toNat)).zip
          (((p0 :: ps).map (fun p => (p - ps.foldl min p0).toNat)).map (fun (k : Nat) => F (ps.foldl min p0 + (k : Int))))).foldl
            (fun acc pr => acc.set pr.1 pr.2)
        (List.replicate (ps.foldl max p0 - ps.foldl min p0 + 1).toNat (nanRow nv))) := by
    have e : ((p0 :: ps).map (fun p => (p - ps.foldl min p0).toNat)).map (fun (k : Nat) => F (ps.foldl min p0 + (k : Int)))
        = (p0 :: ps).map F := by
      rw [List.map_map]
      apply List.map_congr_left
      intro x hx
      have := hlo x hx
      simp only [Function.comp]
      congr 1
      omega
    rw [e, List.zip_map_left, List.foldl_map]
    rfl
  have hidx_lt : ∀ k ∈ (p0 :: ps).map (fun p => (p - ps.foldl min p0).toNat),
      k < (List.replicate (ps.foldl max p0 - ps.foldl min p0 + 1).toNat (nanRow nv : List (Option V))).length := by
    intro k hk
    obtain ⟨x, hx, rfl⟩ := List.mem_map.mp hk
    have := hlo x hx; have := hhi x hx
    simp; omega
  simp only [setDataRaw, Ser.rowAt]
  by_cases h1 : ps.foldl min p0 ≤ p
  · simp only [h1, if_true]
    rw [hconv, fill_fun _ _ _ hidx_lt]
    by_cases hm : p ∈ p0 :: ps
    · have : (p - ps.foldl min p0).toNat ∈ (p0 :: ps).map (fun p => (p - ps.foldl min p0).toNat) :=
        List.mem_map.mpr ⟨p, hm, rfl⟩
      simp only [this, hm, if_true, Option.getD_some]
      congr 1
      omega
    · have : (p - ps.foldl min p0).toNat ∉ (p0 :: ps).map (fun p => (p - ps.foldl min p0).toNat) := by
        intro hk
        obtain ⟨x, hx, hxe⟩ := List.mem_map.mp hk
        have := hlo x hx
        have : x = p := by omega
        exact hm (this ▸ hx)
      simp only [this, hm, if_false]
      cases hq : (List.replicate (ps.foldl max p0 - ps.foldl min p0 + 1).toNat (nanRow nv : List (Option V)))[(p - ps.foldl min p0).toNat]? with
      | none => rfl
      | some r => simp only [Option.getD_some]; exact (List.mem_replicate.mp (List.mem_of_getElem? hq)).2
  · have hm : p ∉ p0 :: ps := fun hm => h1 (hlo p hm)
    simp [h1, hm]

end


theorem foldl_set_all {α : Type} (P : α → Prop) (l : List (Nat × α)) (acc : List α) (h1 : ∀ x ∈ acc, P x) (h2 : ∀ pr ∈ l, P pr.2) :
    ∀ x ∈ l.foldl (fun acc pr => acc.set pr.1 pr.2) acc, P x := by
  induction l generalizing acc with
  | nil => exact h1
  | cons pr rest ih =>
    simp only [List.foldl_cons]
    apply ih
    · intro x hx
      rcases List.mem_or_eq_of_mem_set hx with h | h
      · exact h1 x h
      · rw [h]; exact h2 pr (by simp)
    · exact fun q hq => h2 q (List.mem_cons_of_mem _ hq)

section
variable {V : Type}

theorem setDataRaw_rows_width (f : BFreq) (nv : Nat) (desc : String) (p0 : Int) (ps : List Int) (rows : List (List (Option V)))
    (hr : ∀ r ∈ rows, r.length = nv) : ∀ r ∈ (setDataRaw f nv desc p0 ps rows).rows, r.length = nv := by
  simp only [setDataRaw]
  have := foldl_set_all (fun r : List (Option V) => r.length = nv)
    (((p0 :: ps).zip rows).map (fun pr => ((pr.1 - ps.foldl min p0).toNat, pr.2)))
    (List.replicate (ps.foldl max p0 - ps.foldl min p0 + 1).toNat (nanRow nv))
    (by intro x hx; rw [(List.mem_replicate.mp hx).2]; simp [nanRow])
    (by
      intro pr hpr
      obtain ⟨q, hq, rfl⟩ := List.mem_map.mp hpr
      exact hr _ (List.of_mem_zip hq).2)
  rw [List.foldl_map] at this
  exact this

/-- **the re-imported series, period by period** (any selection of periods: stepped, descending, hand-picked, repeated): at every
written period it has the original series' own row, at every other period a NaN row -/
theorem reimport_rowAt (dh : String × Ser V → String) (b : Block V) (p : String × Ser V) (hf : b.freq ≠ .U)
    (hne : b.periods ≠ []) (hrows : ∀ r ∈ p.2.rows, r.length = p.2.nv) (t : Int) :
    (reimport dh b p).2.rowAt t = if t ∈ b.periods then p.2.rowAt t else nanRow p.2.nv := by
  cases hper : b.periods with
  | nil => exact absurd hper hne
  | cons p0 ps =>
    have e : (reimport dh b p).2 = (setDataRaw b.freq p.2.nv (dh p) p0 ps ((p0 :: ps).map p.2.rowAt)).trim := by
      simp only [reimport, hf, if_false, hper]; rfl
    rw [e, trim_rowAt _ (setDataRaw_rows_width _ _ _ _ _ _ (by
      intro r hr
      obtain ⟨x, _, rfl⟩ := List.mem_map.mp hr
      exact rowAt_length p.2 hrows x))]
    exact setDataRaw_rowAt_fun b.freq p.2.nv (dh p) p0 ps p.2.rowAt t

/-! ### the layout of the written grid -/

/-- **the written grid is rectangular**, for any mix of block lengths and variant counts and any selection of periods: every
row -- name row, description row, data rows, padding rows -- has one cell per block for the date, one per variant of every
series of the block (`Block.width` = 1 + Σ variants + 1), and nothing else -/
theorem exportGridWith_rectangular (c : Codec V) (d : Bool) (fs : FSpan) (db : Box (Ser V) V)
    (hn : GoodNames (seriesOf db)) (hrows : ∀ p ∈ seriesOf db, ∀ r ∈ p.2.rows, r.length = p.2.nv)
    (hfit : ∀ b ∈ exportBlocksWith fs (seriesOf db), b.periods.length ≤ totalRowsWith fs (seriesOf db)) :
    ∀ r ∈ exportGridWith c d fs db, r.length = widths (exportBlocksWith fs (seriesOf db)) := by
  intro r hr
  unfold exportGridWith at hr
  by_cases hB : (exportBlocksWith fs (seriesOf db)).isEmpty = true
  · simp [hB] at hr
  · simp only [hB, Bool.false_eq_true, if_false] at hr
    rw [grid_eq c d _ _ hfit] at hr
    have hnames := goodNames_exportBlocksWith fs _ hn
    have hsers : ∀ x ∈ exportBlocksWith fs (seriesOf db), ∀ p ∈ x.members, ∀ r ∈ p.2.rows, r.length = p.2.nv := by
      intro x hx p hp
      unfold exportBlocksWith at hx
      obtain ⟨e, _, hxe⟩ := List.mem_filterMap.mp hx
      dsimp only at hxe
      split at hxe
      · simp at hxe
      · simp only [Option.some.injEq] at hxe
        subst hxe
        exact hrows p (List.mem_filter.mp hp).1
    have hgrid : ∀ i, ∀ x ∈ exportBlocksWith fs (seriesOf db), (x.gridRow c i).length = x.width := by
      intro i x hx
      unfold Block.gridRow
      split
      · rename_i t _
        have : (x.members.flatMap (fun p => (p.2.rowAt t).map c.fmtCell)).length = (x.members.map (fun p => p.2.nv)).sum := by
          have hs := hsers x hx
          generalize x.members = m at hs
          induction m with
          | nil => rfl
          | cons p ps ih =>
            simp only [List.flatMap_cons, List.length_append, List.length_map, List.map_cons, List.sum_cons]
            rw [rowAt_length p.2 (hs p (by simp)) t, ih (fun q hq => hs q (List.mem_cons_of_mem _ hq))]
        simp [Block.dataRow, Block.width, this]; omega
      · simp [Block.emptyRow]
    simp only [List.mem_cons, List.mem_append] at hr
    rcases hr with rfl | hr | hr
    · exact flatMap_seg_length Block.nameRow _ (fun x hx => nameRow_length x (hnames x hx))
    · cases d with
      | true =>
        simp only [if_true, List.mem_singleton] at hr
        subst hr
        exact flatMap_seg_length Block.descRow _ (fun x hx => descRow_length x (hnames x hx))
      | false => simp at hr
    · simp only [dataRowsOf, List.mem_map] at hr
      obtain ⟨i, _, rfl⟩ := hr
      exact flatMap_seg_length (fun x => x.gridRow c i) _ (hgrid i)

end


section
variable {V : Type}

/-- a file without data rows is rejected as soon as it has a block (`data_rows[0]`: IndexError) -/
theorem import_without_data_rows (c : Codec V) (d : Bool) (Bs : List (Block V)) (hne : Bs ≠ [])
    (hnames : ∀ b ∈ Bs, GoodNames b.members) (hper : ∀ b ∈ Bs, b.periods.length ≤ 0) :
    importGrid c d (zipRowsN (headerRows d + 0) (Bs.map (Block.rows c d 0))) = .error .badInput := by
  rw [grid_eq c d 0 Bs hper]
  have hdata : dataRowsOf c 0 Bs = [] := by simp [dataRowsOf]
  have hraw : ∃ raw rest, blockIterator (Bs.flatMap Block.nameRow) = raw :: rest := by
    rw [blockIterator, scan_export Bs hnames 0]
    cases Bs with
    | nil => exact absurd rfl hne
    | cons b bs => exact ⟨_, _, rfl⟩
  obtain ⟨raw, rest, hr⟩ := hraw
  cases d with
  | true =>
    have hrect : ([Bs.flatMap Block.descRow].all (fun r => r.length == (Bs.flatMap Block.nameRow).length)) = true := by
      simp [flatMap_rows_length Bs hnames]
    simp only [hdata, List.append_nil, if_true, importGrid, hrect, Bool.not_true, Bool.false_eq_true, if_false, hr,
      List.mapM_cons, decodeBlock, bind, Except.bind]
    rfl
  | false =>
    simp only [hdata, List.append_nil, Bool.false_eq_true, if_false, importGrid, List.all_nil, Bool.not_true, hr,
      List.mapM_cons, decodeBlock, bind, Except.bind]
    rfl

end

end IrisVerif.Grid
