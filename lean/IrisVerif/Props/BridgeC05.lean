/-
Bridge for property C05 (linear steady state): the hypotheses of the matrix-level theorems of `Props/C05.lean`
section 9 (`linear_flat`, `stacked_solution_all_dates`, `measurement_all_dates`) are *derived* from the executable
linear algorithm of `Model/Steady.lean` (`Linear.solveFlat`, `Linear.solveNonflat`, `Linear.solveMeasurement`)
returning a result, through the `QMat → Matrix` refinement lemmas (`Lemmas/QMatRefines.lean`).

"Holds at every date" thereby becomes a theorem about the model's own output: whenever the executable algorithm
returns `(ξ, δ)`, the executable residual `Linear.residAt A B C ξ δ t` is the zero matrix at **every** rational date `t`
(`solveNonflat_residAt_zero`), likewise for the flat algorithm (`solveFlat_residAt_zero`) and the measurement block
(`solveMeasurement_measResidAt_zero`).
-/
import IrisVerif.Lemmas.QMatRefines
import IrisVerif.Props.C05

open Matrix

namespace IrisVerif.BridgeC05

open IrisVerif IrisVerif.QMat IrisVerif.Steady IrisVerif.Steady.Linear

/-- first column of a `QMat` as a vector of length `n` -/
def colVec (x : QMat) (n : Nat) : Fin n → ℚ := fun i => x.get i 0

/-- a one-column view is the column of its first-column vector -/
theorem toMat_one_col (x : QMat) (n : Nat) : x.toMat n 1 = Matrix.replicateCol (Fin 1) (colVec x n) := by
  ext i j
  have : j = 0 := Subsingleton.elim _ _
  subst this
  simp [colVec]

theorem mul_replicateCol {r k : Nat} (M : Matrix (Fin r) (Fin k) ℚ) (v : Fin k → ℚ) :
    M * Matrix.replicateCol (Fin 1) v = Matrix.replicateCol (Fin 1) (M *ᵥ v) := by
  ext i j
  simp [Matrix.mul_apply, Matrix.mulVec, dotProduct]

theorem replicateCol_add' {r : Nat} (v w : Fin r → ℚ) :
    Matrix.replicateCol (Fin 1) v + Matrix.replicateCol (Fin 1) w = Matrix.replicateCol (Fin 1) (v + w) := by
  ext i j; simp

theorem replicateCol_smul' {r : Nat} (t : ℚ) (v : Fin r → ℚ) :
    t • Matrix.replicateCol (Fin 1) v = Matrix.replicateCol (Fin 1) (t • v) := by
  ext i j; simp

/-- the view of the model's residual `A (ξ + tδ) + B (ξ + (t-1)δ) + C` as a column -/
theorem residAt_view (A B C xi dxi : QMat) (n : Nat) (t : ℚ)
    (hAr : A.rows = n) (hAc : A.cols = n) (hBr : B.rows = n) (hBc : B.cols = n)
    (hxr : xi.rows = n) (hxc : xi.cols = 1) (hdr : dxi.rows = n) (hdc : dxi.cols = 1) :
    (residAt A B C xi dxi t).toMat n 1 = Matrix.replicateCol (Fin 1)
      (A.toMat n n *ᵥ (colVec xi n + t • colVec dxi n) + B.toMat n n *ᵥ (colVec xi n + (t - 1) • colVec dxi n)
        + colVec C n) := by
  unfold residAt
  rw [toMat_add _ _ n 1 (by simp [hAr]) (by simp [hxc]), toMat_add _ _ n 1 (by simp [hAr]) (by simp [hxc]),
    toMat_mul A _ n n 1 hAr hAc (by simp [hxc]), toMat_mul B _ n n 1 hBr hBc (by simp [hxc]),
    toMat_add xi _ n 1 hxr hxc, toMat_add xi _ n 1 hxr hxc, toMat_smul t dxi n 1 hdr hdc,
    toMat_smul (t - 1) dxi n 1 hdr hdc]
  simp only [toMat_one_col, replicateCol_smul', replicateCol_add', mul_replicateCol]

/-! ## the non-flat algorithm: from the checked stacked solve to the two block rows -/

/-- the view of the stacked two-date matrix is `fromBlocks (A+B) (-B) (A+B) A` (k = 1), up to `Fin n ⊕ Fin n ≃ Fin (n+n)` -/
theorem stackedAB_view (A B : QMat) (n : Nat) (hAr : A.rows = n) (hAc : A.cols = n) (hBr : B.rows = n) (hBc : B.cols = n) :
    (stackedAB A B 1).toMat (n + n) (n + n) =
      (Matrix.fromBlocks (A.toMat n n + B.toMat n n) (-(B.toMat n n)) (A.toMat n n + B.toMat n n) (A.toMat n n)).submatrix
        finSumFinEquiv.symm finSumFinEquiv.symm := by
  unfold stackedAB
  rw [toMat_vstack_hstack _ _ _ _ n n n n (by simp [hAr]) (by simp [hAc]) (by simp [hBc]) (by simp [hAr]) (by simp [hAc])
    (by simp [hAc]),
    toMat_add A B n n hAr hAc, toMat_smul (-1) B n n hBr hBc,
    toMat_add _ _ n n (by simp [hAr]) (by simp [hAc]), toMat_smul 1 A n n hAr hAc, toMat_smul (1 - 1) B n n hBr hBc]
  simp

/-- **what `solveNonflat` returning a result means**: the two returned columns have length `n` and solve the stacked
two-date system of `Props/C05.lean` -- the hypothesis of `C05.stacked_solution_all_dates`, derived, not assumed -/
theorem solveNonflat_sound (A B C xi dxi : QMat) (n : Nat)
    (hAr : A.rows = n) (hAc : A.cols = n) (hBr : B.rows = n) (hBc : B.cols = n) (hCr : C.rows = n) (hCc : C.cols = 1)
    (h : solveNonflat A B C = some (xi, dxi)) :
    xi.rows = n ∧ xi.cols = 1 ∧ dxi.rows = n ∧ dxi.cols = 1 ∧
      Matrix.fromBlocks (A.toMat n n + B.toMat n n) (-(B.toMat n n)) (A.toMat n n + B.toMat n n) (A.toMat n n)
          *ᵥ Sum.elim (colVec xi n) (colVec dxi n) + Sum.elim (colVec C n) (colVec C n) = 0 := by
  unfold solveNonflat at h
  split at h
  · rename_i x hx
    simp only [Option.some.injEq, Prod.mk.injEq] at h
    obtain ⟨rfl, rfl⟩ := h
    have hn : (-(stackedAB A B 1)).rows = n + n := by simp [stackedAB, hAr]
    have hm : (QMat.vstack C C).cols = 1 := by simp [hCc]
    obtain ⟨hac, hbr, hxr, hxc, heq⟩ := solveChecked_sound' _ _ x hx hn hm
    refine ⟨by simp [hAc], by simp, by simp [hAc]; omega, by simp, ?_⟩
    simp only [toMatrix'_eq] at heq
    have hmv := mulVec_of_mul_col _ x (QMat.vstack C C) heq
    rw [toMat_neg _ (n + n) (n + n) (by simp [stackedAB, hAr]) (by simp [stackedAB, hAc, hBc]),
      stackedAB_view A B n hAr hAc hBr hBc, Matrix.neg_mulVec, Matrix.submatrix_mulVec_equiv] at hmv
    -- the unknown and the right-hand side, re-indexed by `Fin n ⊕ Fin n`
    have hx' : (fun i : Fin (n + n) => x.get i 0) ∘ (finSumFinEquiv.symm : Fin (n + n) ≃ Fin n ⊕ Fin n).symm
        = Sum.elim (colVec (QMat.block x 0 A.cols 0 1) n) (colVec (QMat.block x A.cols (2 * A.cols) 0 1) n) := by
      funext s
      cases s with
      | inl i => simp [colVec, get_block, hAc]
      | inr i =>
        have := i.isLt
        have h2 : (i : Nat) < 2 * n - n := by omega
        simp [colVec, get_block, hAc, h2, Nat.add_comm]
    rw [hx'] at hmv
    funext s
    have hs := congrFun hmv (finSumFinEquiv s)
    simp only [Function.comp_apply, Equiv.symm_apply_apply, Pi.neg_apply] at hs
    have hc : (QMat.vstack C C).get (finSumFinEquiv s : Fin (n + n)) 0 = Sum.elim (colVec C n) (colVec C n) s := by
      cases s with
      | inl i =>
        have := i.isLt
        simp [colVec, get_vstack, hCr, hCc]
        intro hh; omega
      | inr i =>
        have := i.isLt
        simp [colVec, get_vstack, hCr, hCc]
    rw [hc] at hs
    simp only [Pi.add_apply, Pi.zero_apply]
    linarith
  · cases h

/-- **every date, for the model's output (mulVec form)**: whatever `solveNonflat` returns satisfies
`A ξ̄_t + B ξ̄_{t-1} + C = 0` on the path `ξ̄_t = ξ + t δ` at every rational date `t` -/
theorem solveNonflat_all_dates (A B C xi dxi : QMat) (n : Nat)
    (hAr : A.rows = n) (hAc : A.cols = n) (hBr : B.rows = n) (hBc : B.cols = n) (hCr : C.rows = n) (hCc : C.cols = 1)
    (h : solveNonflat A B C = some (xi, dxi)) (t : ℚ) :
    A.toMat n n *ᵥ (colVec xi n + t • colVec dxi n) + B.toMat n n *ᵥ (colVec xi n + (t - 1) • colVec dxi n)
      + colVec C n = 0 :=
  C05.stacked_solution_all_dates _ _ _ _ _ (solveNonflat_sound A B C xi dxi n hAr hAc hBr hBc hCr hCc h).2.2.2.2 t

/-- **every date, for the model's output (executable form)**: the model's own residual function evaluates to the zero
column at every rational date -/
theorem solveNonflat_residAt_zero (A B C xi dxi : QMat) (n : Nat)
    (hAr : A.rows = n) (hAc : A.cols = n) (hBr : B.rows = n) (hBc : B.cols = n) (hCr : C.rows = n) (hCc : C.cols = 1)
    (h : solveNonflat A B C = some (xi, dxi)) (t : ℚ) :
    (residAt A B C xi dxi t).toMat n 1 = 0 := by
  obtain ⟨h1, h2, h3, h4, _⟩ := solveNonflat_sound A B C xi dxi n hAr hAc hBr hBc hCr hCc h
  rw [residAt_view A B C xi dxi n t hAr hAc hBr hBc h1 h2 h3 h4,
    solveNonflat_all_dates A B C xi dxi n hAr hAc hBr hBc hCr hCc h t]
  ext i j; simp

/-! ## the flat algorithm -/

theorem colVec_zero (r c n : Nat) : colVec (QMat.zero r c) n = 0 := by
  funext i; simp [colVec, get_zero]

/-- `solveFlat` returning `ξ` means `(-(A+B)) ξ = C` for the views: the hypothesis of `C05.linear_flat` -/
theorem solveFlat_sound (A B C xi : QMat) (n : Nat)
    (hAr : A.rows = n) (hAc : A.cols = n) (hCc : C.cols = 1) (h : solveFlat A B C = some xi) :
    xi.rows = n ∧ xi.cols = 1 ∧ (-(A.toMat n n + B.toMat n n)) *ᵥ colVec xi n = colVec C n := by
  unfold solveFlat at h
  have hn : (-(A + B)).rows = n := by simp [hAr]
  obtain ⟨hac, hbr, hxr, hxc, heq⟩ := solveChecked_sound' _ _ xi h hn hCc
  simp only [toMatrix'_eq] at heq
  have hmv := mulVec_of_mul_col _ xi C heq
  rw [toMat_neg _ n n (by simp [hAr]) (by simp [hAc]), toMat_add A B n n hAr hAc] at hmv
  exact ⟨hxr, hxc, hmv⟩

/-- **flat steady state of the model's output at every date**: the constant path `ξ` (change 0) makes the executable
residual vanish at every rational date -/
theorem solveFlat_residAt_zero (A B C xi : QMat) (n : Nat)
    (hAr : A.rows = n) (hAc : A.cols = n) (hBr : B.rows = n) (hBc : B.cols = n) (hCc : C.cols = 1)
    (h : solveFlat A B C = some xi) (t : ℚ) :
    (residAt A B C xi (QMat.zero n 1) t).toMat n 1 = 0 := by
  obtain ⟨h1, h2, h3⟩ := solveFlat_sound A B C xi n hAr hAc hCc h
  rw [residAt_view A B C xi (QMat.zero n 1) n t hAr hAc hBr hBc h1 h2 (by simp) (by simp), colVec_zero]
  have := C05.linear_flat (A.toMat n n) (B.toMat n n) (colVec C n) (colVec xi n) h3
  simp only [smul_zero, add_zero]
  rw [this]
  ext i j; simp

/-! ## the measurement block -/

theorem measResidAt_view (F G H xi dxi y dy : QMat) (p n : Nat) (t : ℚ)
    (hFr : F.rows = p) (hFc : F.cols = p) (hGr : G.rows = p) (hGc : G.cols = n)
    (hxr : xi.rows = n) (hxc : xi.cols = 1) (hdr : dxi.rows = n) (hdc : dxi.cols = 1)
    (hyr : y.rows = p) (hyc : y.cols = 1) (hdyr : dy.rows = p) (hdyc : dy.cols = 1) :
    (measResidAt F G H xi dxi y dy t).toMat p 1 = Matrix.replicateCol (Fin 1)
      (F.toMat p p *ᵥ (colVec y p + t • colVec dy p) + G.toMat p n *ᵥ (colVec xi n + t • colVec dxi n)
        + colVec H p) := by
  unfold measResidAt
  rw [toMat_add _ _ p 1 (by simp [hFr]) (by simp [hyc]), toMat_add _ _ p 1 (by simp [hFr]) (by simp [hyc]),
    toMat_mul F _ p p 1 hFr hFc (by simp [hyc]), toMat_mul G _ p n 1 hGr hGc (by simp [hxc]),
    toMat_add y _ p 1 hyr hyc, toMat_add xi _ n 1 hxr hxc, toMat_smul t dy p 1 hdyr hdyc,
    toMat_smul t dxi n 1 hdr hdc]
  simp only [toMat_one_col, replicateCol_smul', replicateCol_add', mul_replicateCol]

/-- one checked measurement solve: `F y + G ξ + H = 0` for the views -/
theorem solveMeasurement_sound (F G H xi y : QMat) (p n : Nat)
    (hFr : F.rows = p) (hFc : F.cols = p) (hGr : G.rows = p) (hGc : G.cols = n) (hxc : xi.cols = 1)
    (h : solveMeasurement F G H xi = some y) :
    y.rows = p ∧ y.cols = 1 ∧ F.toMat p p *ᵥ colVec y p + G.toMat p n *ᵥ colVec xi n + colVec H p = 0 := by
  unfold solveMeasurement at h
  have hn : (-F).rows = p := by simp [hFr]
  have hm : (G * xi + H).cols = 1 := by simp [hxc]
  obtain ⟨hac, hbr, hyr, hyc, heq⟩ := solveChecked_sound' _ _ y h hn hm
  simp only [toMatrix'_eq] at heq
  rw [toMat_neg F p p hFr hFc, toMat_add _ _ p 1 (by simp [hGr]) (by simp [hxc]),
    toMat_mul G xi p n 1 hGr hGc hxc] at heq
  simp only [toMat_one_col, mul_replicateCol, replicateCol_add'] at heq
  have hv : (-(F.toMat p p)) *ᵥ colVec y p = G.toMat p n *ᵥ colVec xi n + colVec H p := by
    funext i
    have := congrFun (congrFun heq i) 0
    simpa using this
  refine ⟨hyr, hyc, ?_⟩
  rw [Matrix.neg_mulVec] at hv
  rw [add_assoc, ← hv]; simp

/-- **measurement block of the model's output at every date** -/
theorem solveMeasurementNonflat_measResidAt_zero (F G H xi dxi y dy : QMat) (p n : Nat)
    (hFr : F.rows = p) (hFc : F.cols = p) (hGr : G.rows = p) (hGc : G.cols = n)
    (hxr : xi.rows = n) (hxc : xi.cols = 1) (hdr : dxi.rows = n) (hdc : dxi.cols = 1)
    (h : solveMeasurementNonflat F G H xi dxi = some (y, dy)) (t : ℚ) :
    (measResidAt F G H xi dxi y dy t).toMat p 1 = 0 := by
  unfold solveMeasurementNonflat at h
  split at h
  · rename_i y' dy' hy hdy
    simp only [Option.some.injEq, Prod.mk.injEq] at h
    obtain ⟨rfl, rfl⟩ := h
    obtain ⟨h1, h2, h0⟩ := solveMeasurement_sound F G H xi y' p n hFr hFc hGr hGc hxc hy
    obtain ⟨h3, h4, hd⟩ := solveMeasurement_sound F G _ dxi dy' p n hFr hFc hGr hGc hdc hdy
    rw [colVec_zero, add_zero] at hd
    have hone : F.toMat p p *ᵥ (colVec y' p + colVec dy' p) + G.toMat p n *ᵥ (colVec xi n + colVec dxi n) + colVec H p = 0 := by
      have e : F.toMat p p *ᵥ (colVec y' p + colVec dy' p) + G.toMat p n *ᵥ (colVec xi n + colVec dxi n) + colVec H p
          = (F.toMat p p *ᵥ colVec y' p + G.toMat p n *ᵥ colVec xi n + colVec H p)
            + (F.toMat p p *ᵥ colVec dy' p + G.toMat p n *ᵥ colVec dxi n) := by
        simp only [Matrix.mulVec_add]; abel
      rw [e, h0, hd, add_zero]
    rw [measResidAt_view F G H xi dxi y' dy' p n t hFr hFc hGr hGc hxr hxc hdr hdc h1 h2 h3 h4,
      C05.measurement_all_dates (F.toMat p p) (G.toMat p n) (colVec H p) (colVec y' p) (colVec dy' p) (colVec xi n)
        (colVec dxi n) h0 hone t]
    ext i j; simp
  · cases h

/-! ## non-vacuity: the executable algorithms do return results (kernel evaluation) -/

-- x = 1/2 x[-1] + 1 (stationary: ξ = 2, δ = 0) and a unit root with drift stacked with it is singular (level-indeterminate)
example : (solveNonflat (QMat.ofRows [[1]]) (QMat.ofRows [[-1/2]]) (QMat.ofRows [[-1]])).isSome = true := by decide +kernel
example : (solveFlat (QMat.ofRows [[1, 0], [-1/2, 1]]) (QMat.ofRows [[-1/2, 0], [0, -1/4]]) (QMat.ofRows [[-1], [-3]])).isSome = true := by
  decide +kernel
example : (solveNonflat (QMat.ofRows [[1]]) (QMat.ofRows [[-1]]) (QMat.ofRows [[-1]])).isSome = false := by decide +kernel

end IrisVerif.BridgeC05
