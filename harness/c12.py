"""
C12 -- Aggregation and disaggregation respect calendar membership and are consistent.

Correspondence: the Lean model (IrisVerif/Model/Conversions.lean, driver C12) against
irispie.aggregate / irispie.disaggregate / series.arip on the same request lines.
  class E/D  aggregate, disaggregate, round trips: dyadic data, canonical text compared exactly (the model's exact
             rational is rounded to the nearest double, which is what statistics.mean returns for an exact sum);
  class D    the arip system matrices (F, C) captured at numpy.linalg.solve for the "diff" form: exact;
  class T    the arip solution against the model's exact rational solve (1e-8 relative);
  class V    the implementation's arip output substituted into the constraint rows in exact arithmetic.
Oracle (independent of the model, written from the property statement): calendar membership by brute force through
`datetime`, reductions through `fractions`, placement positions by counting member periods, the constrained
minimiser by an exact rational solve of the textbook KKT system.
"""
from __future__ import annotations
import datetime as dt
import math
from fractions import Fraction as Fr

import warnings
import numpy as np
warnings.filterwarnings("ignore", category=RuntimeWarning)     # inf * 0, inf - inf inside numpy reductions are intended inputs
import irispie as ir
from irispie import dates as D
from irispie.series import arip as ARIP

from .common import Ctx, err_kind

DRIVERS = ["C12"]
EXTRA_PROPS = ['BridgeC12', 'C12Ext', 'C12Arip']   # refinement bridge from the executable QMat model to the matrix-level theorems (audited with this check)
LEVEL = "proof"
MANIFEST = {
    "category": "proof",
    "text": ("Lean 4 theorems about an executable model of series/_conversions.py and series/arip.py (all starts, lengths, years, variants and "
             "NaN patterns, no bound): regular->regular and daily->regular aggregation hand the method exactly the periods t with "
             "refrequent(t, to) = T, in calendar order (leap years and month lengths included; built on the C09 calendar theorems); a missing "
             "member gives a missing value under mean/sum/prod, first/last return the first/last member, discard_missing is the method on the "
             "non-missing sub-list, an empty group is missing, select is positional choice of calendar positions applied BEFORE discarding "
             "(group level for any group; full pipeline theorem for regular pairs with in-range positions; an out-of-range position is "
             "rejected); the rejection branches (empty series, finer/coarser target, same frequency = no-op) are theorems too; trimming never changes the period-indexed map; "
             "disaggregate flat/first/middle/last puts the value of T at exactly the documented positions of T for regular targets (and provably "
             "misplaces them for DAILY targets: finding C12-a); aggregate mean|first|last|min|max after disaggregate flat, first after first and "
             "last after last return the original series for every NaN pattern (regular pairs, series with at least one observation); arip: any solution of the bordered KKT system meets every "
             "aggregation row and every target row exactly and minimises the autoregressive smoothness criterion ||K x - c||^2 among all feasible "
             "x, for every rho, c, sigma and aggregation vector (Mathlib matrices over an ordered field), the model's system being an instance; "
             "the unrepaired 0/1 multiplier columns are proved NOT to give the minimiser for 'first' (defect C12-b). The model is tied to the code "
             "on every run by exact line-by-line correspondence (6 regular pairs x every start segment x lengths up to 3 years x NaN masks x "
             "methods x discard/select, daily->M/Q/H/Y around leap and century years, disaggregation incl. DAILY, round trips, the arip matrices "
             "captured at numpy.linalg.solve) and the arip solution against the exact rational solve; an independent datetime/fractions oracle on "
             "the implementation supplies the replay. Round 4 (Props/C12Ext): two trimmed well-shaped series with equal period-indexed maps have "
             "equal (start, rows) and Series.trim yields that form, hence the round trips return the very same representation; variant locality "
             "(each output column of aggregate / daily aggregate / disaggregate is a function of its own input column alone); keyword resolution "
             "(explicit discard_missing wins over legacy remove_missing, default False, method or 'mean') modelled and tied by an exhaustive "
             "options stream incl. function form = in-place method form; a memoised per-variant loop equals the plain loop iff the key determines "
             "the value (the (nHigh, rho, const, sigma) key is sound, a rho-only key is refuted), the whole multi-variant arip loop tied to one call "
             "on the multi-variant series; the DAILY finding C12-a is machine-checked clause by clause on the model of the current code "
             "(placement, uncovered days, first, failing round trip). Round 5: the within-period routine is also "
             "modelled over extended values (NaN, -inf, +inf, rationals; IEEE +, x, <) and proved to refine the rational model for every method; "
             "discard_missing removes NaN only (+-inf reach the method; a +inf member without -inf/NaN gives sum = mean = +inf); the documented "
             "spellings of the arip model (rate/multiplicative, diff/additive, mean/avg) resolve to the same form, sigma vector and aggregation "
             "vector; tied by exact streams on _aggregate_within_data and the arip tables, every spelling also run end to end. The optimality theorem for the executable arip model (BridgeC12) holds for every "
             "aggregation vector; Props/C12Arip shows its hypotheses met for first / last / custom weights by kernel evaluation and that the "
             "unrepaired membership columns coincide with the KKT system for 'sum' and differ for 'first'. Not proved: series-level behaviour "
             "with +-inf (oracle only), the daily pipeline with select, structural equality after daily aggregation."),
    "design": "7/C12",
    "note": ("IEEE rounding is outside the theorems: data are dyadic so that sums/products are exact, statistics.mean is compared with the "
             "correctly rounded exact mean; arip outputs are compared with tolerances (1e-8 relative) on generator-controlled instances. "
             "geometric_mean and user callables are not modelled. Known finding: disaggregation to DAILY uses 365//f days per period."),
    "technique": "Lean 4 proof over executable model + exhaustive/dense differential correspondence + exact-arithmetic certificate validation",
}
ASSUMPTIONS = [
    "datetime.date is the reference calendar of the oracle; the model's calendar is tied to it by C09",
    "floating-point rounding is not modelled: generators use dyadic data for which builtin sum / numpy.prod are exact; statistics.mean is "
    "exact-sum-then-round; arip outputs are compared within 1e-8 relative on well-conditioned generated instances",
    "geometric_mean and user-supplied aggregation callables are opaque (not modelled)",
    "numpy.linalg.solve is the unmodelled substrate of arip; the theorem takes the solved system as hypothesis and the run validates it",
]

CLS = {"I": D.IntegerPeriod, "Y": D.YearlyPeriod, "H": D.HalfyearlyPeriod, "Q": D.QuarterlyPeriod,
       "M": D.MonthlyPeriod, "D": D.DailyPeriod}
FREQ = {"I": ir.Frequency.INTEGER, "Y": ir.Frequency.YEARLY, "H": ir.Frequency.HALFYEARLY,
        "Q": ir.Frequency.QUARTERLY, "M": ir.Frequency.MONTHLY, "D": ir.Frequency.DAILY}
LETTER = {v: k for k, v in FREQ.items()}
FVAL = {"I": 0, "Y": 1, "H": 2, "Q": 4, "M": 12, "D": 365}
REG = ["Y", "H", "Q", "M"]
PAIRS = [("M", "Q"), ("M", "H"), ("M", "Y"), ("Q", "H"), ("Q", "Y"), ("H", "Y")]     # (high, low)
METHODS = ["mean", "sum", "prod", "first", "last", "min", "max"]
DMETHODS = ["flat", "first", "middle", "last"]
NAN = float("nan")


# ---------------------------------------------------------------------------------------
# text forms
# ---------------------------------------------------------------------------------------

def vtext(x) -> str:
    x = float(x)
    if x != x:
        return "nan"
    if math.isinf(x):
        return "inf" if x > 0 else "-inf"
    n, d = x.as_integer_ratio()
    return f"{n}/{d}"


def vparse(s: str) -> float:
    if s == "nan":
        return NAN
    if s in ("inf", "-inf"):
        return float(s)
    return float(Fr(s))


def frac_text(q: Fr) -> str:
    return f"{q.numerator}/{q.denominator}"


def round_model_series(reply: str) -> str:
    """the model's exact rationals rounded to the nearest double (what statistics.mean does with an exact sum)"""
    ws = reply.split()
    if len(ws) < 3 or ws[0] not in FVAL:
        return reply
    if ws[1] == "none":
        return "- none 0"          # an empty Series has no frequency (UNKNOWN)
    return " ".join(ws[:3] + [vtext(vparse(w)) for w in ws[3:]])


def mk_series(f: str, start: int, nv: int, rows):
    if not rows:
        return ir.Series(num_variants=nv)
    arr = np.array(rows, dtype=float).reshape(len(rows), nv)
    return ir.Series(start=CLS[f](int(start)), values=arr)


def show_series(y) -> str:
    f = LETTER.get(y.frequency)
    data = np.asarray(y.data, dtype=float)
    if y.start is None or data.shape[0] == 0:
        return "- none 0"
    return " ".join([f, str(int(y.start.serial)), str(data.shape[0])] + [vtext(v) for v in data.ravel()])


def parse_series_reply(reply: str):
    """-> (freq letter, start or None, rows (list of list of float)) or None for an error reply"""
    ws = reply.split()
    if len(ws) < 3 or (ws[0] not in FVAL and ws[0] != "-"):
        return None
    n = int(ws[2])
    vals = [vparse(w) for w in ws[3:]]
    nv = len(vals) // n if n else 0
    rows = [vals[i * nv:(i + 1) * nv] for i in range(n)]
    return ws[0], (None if ws[1] == "none" else int(ws[1])), rows


def ser_line(op, f, t, start, mid, nv, rows) -> str:
    vals = [vtext(v) for r in rows for v in r]
    return " ".join([op, f, t, str(start)] + [str(m) for m in mid] + [str(nv), str(len(rows))] + vals)


def parse_ser_line(ws, nmid):
    f, t, start = ws[1], ws[2], int(ws[3])
    mid = ws[4:4 + nmid]
    nv, n = int(ws[4 + nmid]), int(ws[5 + nmid])
    vals = [vparse(w) for w in ws[6 + nmid:]]
    rows = [vals[i * nv:(i + 1) * nv] for i in range(n)]
    return f, t, start, mid, nv, rows


def parse_opt_line(ws):
    """opt <discard_missing -|0|1> <remove_missing -|0|1> <method -|name> <F> <T> <start> <nv> <n> v…"""
    dm, rm, meth = ws[1:4]
    kw = {}
    if dm != "-":
        kw["discard_missing"] = dm == "1"
    if rm != "-":
        kw["remove_missing"] = rm == "1"
    if meth != "-":
        kw["method"] = meth
    f, t, start, nv, n = ws[4], ws[5], int(ws[6]), int(ws[7]), int(ws[8])
    vals = [vparse(w) for w in ws[9:]]
    return kw, f, t, start, nv, [vals[i * nv:(i + 1) * nv] for i in range(n)]


def parse_select(s):
    if s == "-":
        return None
    if s == "e":
        return []
    return [int(x) for x in s.split(",")]


# ---------------------------------------------------------------------------------------
# implementation side of the line protocol
# ---------------------------------------------------------------------------------------

def impl_eval(line: str) -> str:
    ws = line.split()
    op = ws[0]
    try:
        if op == "agg":
            f, t, start, (m, disc, sel), nv, rows = parse_ser_line(ws, 3)
            x = mk_series(f, start, nv, rows)
            y = ir.aggregate(x, FREQ[t], method=m, discard_missing=(disc == "1"), select=parse_select(sel))
            return show_series(y)
        if op == "opt":
            kw, f, t, start, nv, rows = parse_opt_line(ws)
            y = ir.aggregate(mk_series(f, start, nv, rows), FREQ[t], **kw)
            x2 = mk_series(f, start, nv, rows)
            x2.aggregate(FREQ[t], **kw)                       # the in-place method form must give the same series
            if show_series(x2) != show_series(y):
                return "form-mismatch function=" + show_series(y) + " method=" + show_series(x2)
            return show_series(y)
        if op == "dis":
            f, t, start, (m,), nv, rows = parse_ser_line(ws, 1)
            x = mk_series(f, start, nv, rows)
            y = ir.disaggregate(x, FREQ[t], method=m)
            return show_series(y)
        if op == "rt":
            f, t, start, (dm, m), nv, rows = parse_ser_line(ws, 2)
            x = mk_series(f, start, nv, rows)
            y = ir.aggregate(ir.disaggregate(x, FREQ[t], method=dm), FREQ[f], method=m)
            return show_series(y)
    except Exception as e:
        return err_kind(e)
    return "bad-op"


# ---------------------------------------------------------------------------------------
# independent calendar (datetime) and reductions (fractions) for the oracle
# ---------------------------------------------------------------------------------------

def period_days(f: str, serial: int):
    """(first ordinal, last ordinal) of the period, through datetime only"""
    if f == "D":
        return serial, serial
    v = FVAL[f]
    y, seg0 = divmod(serial, v)
    n = 12 // v
    m1, m2 = seg0 * n + 1, seg0 * n + n
    first = dt.date(y, m1, 1).toordinal()
    last = (dt.date(y + 1, 1, 1) if m2 == 12 else dt.date(y, m2 + 1, 1)).toordinal() - 1
    return first, last


def period_containing(f: str, ordinal: int) -> int:
    """serial of the period of frequency f that contains the day"""
    if f == "D":
        return ordinal
    d = dt.date.fromordinal(ordinal)
    v = FVAL[f]
    return d.year * v + (d.month - 1) // (12 // v)


def members(high: str, low: str, T: int):
    """serials of the high-frequency periods whose days fall inside low-frequency period T, in calendar order"""
    a, b = period_days(low, T)
    out = []
    t = period_containing(high, a)
    while True:
        ta, tb = period_days(high, t)
        if ta > b:
            break
        if ta >= a and tb <= b:
            out.append(t)
        t += 1
    return out


def isnan(x):
    return x != x


def reduce_exact(method: str, g):
    """expected value of `method` on the non-empty group g (floats); None = the statement leaves it open"""
    if any(math.isinf(x) for x in g) and not any(isnan(x) for x in g):
        # +-inf are observations; IEEE rules, written out independently of the implementation
        pos, neg = any(x == math.inf for x in g), any(x == -math.inf for x in g)
        if method in ("sum", "mean"):
            return NAN if (pos and neg) else (math.inf if pos else -math.inf)
        if method == "prod":
            if any(x == 0 for x in g):
                return NAN
            return -math.inf if sum(1 for x in g if x < 0) % 2 else math.inf
        if method == "first":
            return g[0]
        if method == "last":
            return g[-1]
        return min(g) if method == "min" else max(g)
    if method in ("mean", "sum", "prod"):
        if any(isnan(x) for x in g):
            return NAN
        fs = [Fr(x) for x in g]
        if method == "mean":
            return float(sum(fs) / len(fs))
        if method == "sum":
            return float(sum(fs))
        p = Fr(1)
        for x in fs:
            p *= x
        return float(p)
    if method == "first":
        return g[0]
    if method == "last":
        return g[-1]
    if any(isnan(x) for x in g):
        return None            # min/max of a group with a NaN member: not fixed by the statement (order dependent)
    return min(g) if method == "min" else max(g)


def same(a, b):
    return (isnan(a) and isnan(b)) or a == b


def trim_rows(start, rows):
    rows = [list(r) for r in rows]
    while rows and all(isnan(v) for v in rows[0]):
        rows.pop(0); start += 1
    while rows and all(isnan(v) for v in rows[-1]):
        rows.pop()
    return (start if rows else None), rows


def as_map(start, rows):
    return {} if start is None else {start + i: r for i, r in enumerate(rows)}


# ---------------------------------------------------------------------------------------
# oracles on the implementation's answer
# ---------------------------------------------------------------------------------------

def oracle_agg(ctx: Ctx, line: str, reply: str):
    ws = line.split()
    f, t, start, (m, disc, sel), nv, rows = parse_ser_line(ws, 3)
    if not rows or f not in FVAL or f == t or f == "I" or t == "I" or FVAL[t] > FVAL[f]:
        return
    select = parse_select(sel)
    site = "aggregate-select" if select is not None else "aggregate-membership"
    src = as_map(start, rows)
    first_day = period_days(f, start)[0]
    last_day = period_days(f, start + len(rows) - 1)[1]
    T0, T1 = period_containing(t, first_day), period_containing(t, last_day)
    expected = {}
    open_cells = set()
    bad_select = False
    for T in range(T0, T1 + 1):
        mem = members(f, t, T)
        row = []
        for v in range(nv):
            g = [src[s][v] if s in src else NAN for s in mem]
            if select is not None:
                try:
                    g = [g[i] for i in select]
                except IndexError:
                    bad_select = True
                    g = []
            if disc == "1":
                g = [x for x in g if not isnan(x)]
            if not g:
                row.append(NAN)
            else:
                e = reduce_exact(m, g)
                if e is None:
                    open_cells.add((T, v)); e = NAN
                row.append(e)
        expected[T] = row
    got = parse_series_reply(reply)
    if bad_select:
        if got is not None:
            ctx.fail(site, {"line": line}, f"select index outside the group, yet a result came back: {reply[:120]}")
        return
    if got is None:
        ctx.fail(site, {"line": line}, f"aggregate raised ({reply}) on a valid request")
        return
    gf, gstart, grows = got
    if gf != t and gstart is not None:
        ctx.fail(site, {"line": line}, f"result has frequency {gf}, expected {t}")
        return
    gmap = as_map(gstart, grows)
    for T in sorted(set(expected) | set(gmap)):
        for v in range(nv):
            if (T, v) in open_cells:
                continue
            e = expected.get(T, [NAN] * nv)[v]
            g = gmap.get(T, [NAN] * nv)[v]
            if not same(e, g):
                y, seg = divmod(T, FVAL[t])
                ctx.fail(site, {"line": line},
                         f"{t} period serial {T} ({y}:{seg + 1}) variant {v}: method {m} over its member periods gives {e!r}, aggregate returned {g!r}")
                return


def allowed_positions(method: str, k: int):
    if method == "first":
        return {0}
    if method == "last":
        return {k - 1}
    if method == "middle":
        return {(k - 1) // 2, k // 2}      # even count: either of the two central periods is "the middle"
    return None


def oracle_dis(ctx: Ctx, line: str, reply: str):
    ws = line.split()
    f, t, start, (m,), nv, rows = parse_ser_line(ws, 1)
    if not rows or f == t or f == "I" or t == "I" or FVAL[t] < FVAL[f]:
        return
    site = "disaggregate-to-daily" if t == "D" else "disaggregate-placement"
    got = parse_series_reply(reply)
    if got is None:
        ctx.fail(site, {"line": line}, f"disaggregate raised ({reply}) on a valid request")
        return
    gf, gstart, grows = got
    gmap = as_map(gstart, grows)
    if gstart is not None and gf != t:
        ctx.fail(site, {"line": line}, f"result has frequency {gf}, expected {t}")
        return
    covered = set()
    for i, r in enumerate(rows):
        T = start + i
        mem = members(t, f, T)
        covered.update(mem)
        pos = allowed_positions(m, len(mem))
        for v in range(nv):
            vals = [gmap.get(s, [NAN] * nv)[v] for s in mem]
            if isnan(r[v]):
                ok = all(isnan(x) for x in vals)
            elif pos is None:
                ok = all(x == r[v] for x in vals)
            else:
                where = [j for j, x in enumerate(vals) if not isnan(x)]
                ok = len(where) == 1 and where[0] in pos and vals[where[0]] == r[v]
            if not ok:
                fy, fs = (divmod(T, FVAL[f]) if f != "D" else (T, 0))
                shown = [(str(dt.date.fromordinal(s)) if t == "D" else s, x) for s, x in zip(mem, vals)]
                bad = [p for p in shown if not same(p[1], r[v])][:3] if pos is None else ([p for p in shown if not isnan(p[1])][:3] or "no value at all")
                ctx.fail(site, {"line": line},
                         f"{f} period {fy}:{fs + 1} (value {r[v]!r}, variant {v}) disaggregated '{m}' to {t}: its {len(mem)} member periods hold e.g. {bad}")
                return
    for s, r in gmap.items():
        if s not in covered and not all(isnan(x) for x in r):
            ctx.fail(site, {"line": line}, f"{t} serial {s} lies in no period of the source series but received {r}")
            return


RT_COMBOS = [("flat", "mean"), ("flat", "first"), ("flat", "last"), ("flat", "min"), ("flat", "max"),
             ("first", "first"), ("last", "last")]


def oracle_rt(ctx: Ctx, line: str, reply: str):
    ws = line.split()
    f, t, start, (dm, m), nv, rows = parse_ser_line(ws, 2)
    if (dm, m) not in RT_COMBOS or not rows or f == t or f == "I" or t == "I" or FVAL[t] < FVAL[f]:
        return
    site = "disaggregate-to-daily" if t == "D" else "roundtrip"
    estart, erows = trim_rows(start, rows)
    got = parse_series_reply(reply)
    if got is None:
        ctx.fail(site, {"line": line}, f"round trip raised ({reply})")
        return
    gf, gstart, grows = got
    ok = gstart == estart and len(grows) == len(erows) and all(same(a, b) for r, q in zip(grows, erows) for a, b in zip(r, q)) \
        and (gf == f or gstart is None)
    if not ok:
        ctx.fail(site, {"line": line},
                 f"aggregate('{m}') of disaggregate('{dm}', {t}) differs from the original: start {gstart} rows {grows[:4]} vs start {estart} rows {erows[:4]}")


def oracle_opt(ctx: Ctx, line: str, reply: str):
    """keyword resolution as documented: discard_missing defaults to False and an explicit value is obeyed; the legacy
    keyword remove_missing stands in for it only when discard_missing is not given; the default method is "mean";
    function form and in-place method form agree. Judged through the membership oracle with the resolved options."""
    ws = line.split()
    dm, rm, meth = ws[1:4]
    if reply.startswith("form-mismatch"):
        ctx.fail("aggregate-forms-differ", {"line": line}, reply[:300])
        return
    disc = dm if dm != "-" else (rm if rm != "-" else "0")
    before = len(ctx.failures)
    oracle_agg(ctx, " ".join(["agg", ws[4], ws[5], ws[6], meth if meth != "-" else "mean", disc, "-"] + ws[7:]), reply)
    for fl in ctx.failures[before:]:
        fl["site"] = "aggregate-options"
        fl["case"] = {"line": line}
        fl["detail"] = f"keywords discard_missing={dm} remove_missing={rm} method={meth}: " + fl["detail"]


ORACLES = {"agg": oracle_agg, "dis": oracle_dis, "rt": oracle_rt, "opt": oracle_opt}


# ---------------------------------------------------------------------------------------
# arip
#   case line:  aripq <F> <T> <start> <form> <agg name | v1,v2,…> <nLow> low… <nHigh> target…
# ---------------------------------------------------------------------------------------

FORM_CANON = {"rate": "rate", "multiplicative": "rate", "diff": "diff", "additive": "diff"}
FORM_ALIAS = {"rate": "multiplicative", "multiplicative": "rate", "diff": "additive", "additive": "diff"}
AGG_ALIAS = {"mean": "avg", "avg": "mean"}
AGG_VEC = {
    "sum": lambda n: [1.0] * n,
    "mean": lambda n: [1 / n] * n,
    "avg": lambda n: [1 / n] * n,
    "first": lambda n: [1.0] + [0.0] * (n - 1),
    "last": lambda n: [0.0] * (n - 1) + [1.0],
}


def parse_arip(line: str):
    ws = line.split()
    f, t, start, form, aggspec, n_low = ws[1], ws[2], int(ws[3]), ws[4], ws[5], int(ws[6])
    low = [vparse(w) for w in ws[7:7 + n_low]]
    n_high = int(ws[7 + n_low])
    target = [vparse(w) for w in ws[8 + n_low:8 + n_low + n_high]]
    agg = aggspec if aggspec in AGG_VEC else tuple(float(Fr(x)) for x in aggspec.split(","))
    return f, t, start, form, agg, low, target


def arip_params(f, t, form, low_eff):
    """rho, const, sigma as documented (average growth / difference of the observed series, converted to the
    high frequency; sigma_t = rho^t for the rate form), computed here in plain floats"""
    lf, hf = FVAL[f], FVAL[t]
    n_high = len(low_eff) * (hf // lf)
    fin = [i for i, x in enumerate(low_eff) if math.isfinite(x)]
    span = fin[-1] - fin[0] if fin else 0
    if FORM_CANON[form] == "diff":
        rho = 1.0
        const = ((low_eff[fin[-1]] - low_eff[fin[0]]) / span) * (float(lf) / float(hf)) if span else 0.0
        sigma = [1.0] * n_high
    else:
        roc = (low_eff[fin[-1]] / low_eff[fin[0]]) ** (1 / span) if span else 1.0
        rho = float(roc) ** (float(lf) / float(hf))
        const = 0.0
        sigma = [float(x) for x in (rho ** np.arange(n_high))]
    return rho, const, sigma


def low_effective(low, target, w):
    return [NAN if all(math.isfinite(x) for x in target[i * w:(i + 1) * w]) else low[i] for i in range(len(low))]


def frac_solve(A, b):
    """exact Gauss-Jordan over Fractions; None when singular"""
    n = len(A)
    M = [list(r) + [b[i]] for i, r in enumerate(A)]
    for c in range(n):
        p = next((i for i in range(c, n) if M[i][c] != 0), None)
        if p is None:
            return None
        M[c], M[p] = M[p], M[c]
        pv = M[c][c]
        M[c] = [x / pv for x in M[c]]
        for i in range(n):
            if i != c and M[i][c] != 0:
                fct = M[i][c]
                M[i] = [x - fct * y for x, y in zip(M[i], M[c])]
    return [M[i][n] for i in range(n)]


def arip_run(line: str, capture=False):
    """-> dict(y=[…] | err=…, F=…, C=…)"""
    f, t, start, form, agg, low, target = parse_arip(line)
    x = mk_series(f, start, 1, [[v] for v in low])
    hs = None
    kw = {}
    if any(not isnan(v) for v in target):
        hs = CLS[t].from_ymd(*CLS[f](start).to_ymd(position="start"))
        kw["target"] = ir.Series(start=hs, values=np.array(target, dtype=float))
    out = {}
    orig = np.linalg.solve
    if capture:
        def cap(Fm, Cm, *a, **k):
            out["F"], out["C"] = np.array(Fm, dtype=float), np.array(Cm, dtype=float)
            return orig(Fm, Cm, *a, **k)
        np.linalg.solve = cap
    try:
        y = ir.disaggregate(x, FREQ[t], method="arip", model=(form, agg), **kw)
        out["start"] = None if y.start is None else int(y.start.serial)
        out["y"] = [float(v) for v in np.asarray(y.data, dtype=float)[:, 0]]
    except Exception as e:
        out["err"] = err_kind(e) + ":" + type(e).__name__
    finally:
        np.linalg.solve = orig
    return out


def parse_arip_mv(line: str):
    """aripmv <F> <T> <start> <form> <agg> <nv> <nLow> low (row major nLow*nv)… <nHigh> target…  ->  per-variant aripq lines"""
    ws = line.split()
    nv, n_low = int(ws[6]), int(ws[7])
    lows = ws[8:8 + n_low * nv]
    rest = ws[8 + n_low * nv:]
    return nv, [" ".join(["aripq"] + ws[1:6] + [str(n_low)] + [lows[i * nv + v] for i in range(n_low)] + rest) for v in range(nv)]


def arip_run_mv(line: str):
    """one call on the multi-variant series; -> one result dict per variant (its column, its captured F and C)"""
    nv, vlines = parse_arip_mv(line)
    parsed = [parse_arip(l) for l in vlines]
    f, t, start, form, agg, _, target = parsed[0]
    n_low = len(parsed[0][5])
    x = mk_series(f, start, nv, [[parsed[v][5][i] for v in range(nv)] for i in range(n_low)])
    kw = {}
    if any(not isnan(v) for v in target):
        hs = CLS[t].from_ymd(*CLS[f](start).to_ymd(position="start"))
        kw["target"] = ir.Series(start=hs, values=np.array(target, dtype=float))
    caps = []
    orig = np.linalg.solve

    def cap(Fm, Cm, *a, **k):
        caps.append((np.array(Fm, dtype=float), np.array(Cm, dtype=float)))
        return orig(Fm, Cm, *a, **k)
    np.linalg.solve = cap
    outs = [dict() for _ in range(nv)]
    try:
        y = ir.disaggregate(x, FREQ[t], method="arip", model=(form, agg), **kw)
        data = np.asarray(y.data, dtype=float)
        for v in range(nv):
            outs[v]["start"] = None if y.start is None else int(y.start.serial)
            outs[v]["y"] = [float(z) for z in data[:, v]] if data.shape[1] == nv else []
            if len(caps) == nv:
                outs[v]["F"], outs[v]["C"] = caps[v]
    except Exception as e:
        for v in range(nv):
            outs[v]["err"] = err_kind(e) + ":" + type(e).__name__
    finally:
        np.linalg.solve = orig
    return vlines, outs


def arip_model_line(line: str, op="arip", kkt="1") -> str:
    f, t, start, form, agg, low, target = parse_arip(line)
    w = FVAL[t] // FVAL[f]
    le = low_effective(low, target, w)
    rho, const, sigma = arip_params(f, t, form, le)
    av = AGG_VEC[agg](w) if isinstance(agg, str) else list(agg)
    toks = [op, kkt, str(len(low)), str(w), vtext(rho), vtext(const)] + [vtext(s) for s in sigma] + [vtext(a) for a in av] \
        + [vtext(v) for v in low] + [vtext(v) for v in target]
    return " ".join(toks)


def qmat_text(M) -> str:
    M = np.atleast_2d(M)
    return " ".join([str(M.shape[0]), str(M.shape[1])] + [(lambda q: str(q.numerator) if q.denominator == 1 else frac_text(q))(Fr(float(v))) for v in M.ravel()])


def arip_exact_minimiser(f, t, form, le, av, target):
    """exact solve of the KKT system of  min ||K x - c||^2  s.t. aggregation rows and target rows; None when not unique"""
    w = len(av)
    n_high = len(le) * w
    rho, const, sigma = arip_params(f, t, form, le)
    rq, cq, sq = Fr(rho), Fr(const), [Fr(s) for s in sigma]
    K = [[Fr(0)] * n_high for _ in range(n_high - 1)]
    c = [Fr(0)] * (n_high - 1)
    for i in range(n_high - 1):
        K[i][i + 1] = 1 / sq[i + 1]
        K[i][i] = -rq / sq[i + 1]
        c[i] = cq / sq[i + 1]
    A, b = [], []
    for i, lv in enumerate(le):
        if math.isfinite(lv):
            row = [Fr(0)] * n_high
            for k, a in enumerate(av):
                row[i * w + k] = Fr(a)
            A.append(row); b.append(Fr(lv))
    for j, tv in enumerate(target):
        if math.isfinite(tv):
            row = [Fr(0)] * n_high
            row[j] = Fr(1)
            A.append(row); b.append(Fr(tv))
    mcon = len(A)
    KtK = [[sum(K[r][i] * K[r][j] for r in range(n_high - 1)) for j in range(n_high)] for i in range(n_high)]
    Ktc = [sum(K[r][i] * c[r] for r in range(n_high - 1)) for i in range(n_high)]
    big = [KtK[i] + [A[r][i] for r in range(mcon)] for i in range(n_high)] + [A[r] + [Fr(0)] * mcon for r in range(mcon)]
    sol = frac_solve(big, Ktc + b)
    if sol is None:
        return None
    return K, c, sol[:n_high]


def oracle_arip(ctx: Ctx, line: str, res: dict, tol=1e-8, case=None, tag=""):
    """constraints, targets, optimality (exact KKT solve of the documented criterion), round trip through ir.aggregate"""
    f, t, start, form, agg, low, target = parse_arip(line)
    w = FVAL[t] // FVAL[f]
    n_high = len(low) * w
    le = low_effective(low, target, w)
    av = AGG_VEC[agg](w) if isinstance(agg, str) else list(agg)
    kkt = arip_exact_minimiser(f, t, form, le, av, target)
    if kkt is None:
        ctx.count("arip:dependent-constraints-skipped")     # e.g. 'first' aggregation plus a target on the first period
        return "singular"
    K, c, xs = kkt
    if "err" in res:
        ctx.fail("arip-raises", case or {"line": line}, tag + f"disaggregate(method='arip') raised {res['err']} although the constrained problem has a unique solution")
        return
    y = res["y"]
    hs = period_containing(t, period_days(f, start)[0])
    if res["start"] != hs or len(y) != n_high:
        ctx.fail("arip-constraints", case or {"line": line}, tag + f"output spans start={res['start']} len={len(y)}, expected start={hs} len={n_high}")
        return
    scale = max([1.0] + [abs(v) for v in y])
    yq = [Fr(v) for v in y]
    # aggregation rows and target rows, exact arithmetic on the implementation's floats
    for i, lv in enumerate(le):
        if math.isfinite(lv):
            r = sum(Fr(a) * yq[i * w + k] for k, a in enumerate(av)) - Fr(lv)
            if abs(r) > tol * scale * max(1.0, sum(abs(a) for a in av)):
                ctx.fail("arip-constraints", case or {"line": line}, tag + f"low period {i}: aggregation row gives residual {float(r):.3e} (value {lv})")
                return
    for j, tv in enumerate(target):
        if math.isfinite(tv) and abs(yq[j] - Fr(tv)) > tol * scale:
            ctx.fail("arip-targets", case or {"line": line}, tag + f"high period {j}: target {tv} but output {y[j]}")
            return
    # round trip through the public aggregate with the declared aggregation
    if isinstance(agg, str):
        ys = mk_series(t, hs, 1, [[v] for v in y])
        back = ir.aggregate(ys, FREQ[f], method=("mean" if agg == "avg" else agg))
        bmap = as_map(None if back.start is None else int(back.start.serial), [list(map(float, r)) for r in np.asarray(back.data, dtype=float)])
        for i, lv in enumerate(le):
            if math.isfinite(lv):
                b = bmap.get(start + i, [NAN])[0]
                if not (abs(b - lv) <= tol * scale * w):
                    ctx.fail("arip-roundtrip", case or {"line": line}, tag + f"aggregate('{agg}') of the arip output gives {b} at low period {i}, original {lv}")
                    return
    # every documented spelling of the same model gives the same output
    ws0 = line.split()
    for other in ([ws0[:4] + [FORM_ALIAS[ws0[4]]] + ws0[5:]] + ([ws0[:5] + [AGG_ALIAS[ws0[5]]] + ws0[6:]] if ws0[5] in AGG_ALIAS else [])):
        alt = arip_run(" ".join(other))
        if "y" not in alt or len(alt["y"]) != len(y) or max(abs(a - b) for a, b in zip(alt["y"], y)) > 1e-9 * scale:
            ctx.fail("arip-spellings-differ", case or {"line": line},
                     tag + f"model=({ws0[4]!r}, {ws0[5]!r}) and its documented alias ({other[4]!r}, {other[5]!r}) give different outputs: "
                     f"{[round(v, 6) for v in y[:4]]} vs {[round(v, 6) for v in alt.get('y', [alt.get('err')])[:4]]}")
            return
    dev = max(abs(float(xs[j] - yq[j])) for j in range(n_high))
    if dev > 1e-6 * scale:
        def obj(x):
            return float(sum((sum(K[r][j] * x[j] for j in (r, r + 1)) - c[r]) ** 2 for r in range(n_high - 1)))
        ctx.fail("arip-not-minimiser", case or {"line": line},
                 tag + f"output deviates {dev:.3e} from the constrained minimiser of sum(((x[t+1]-rho*x[t]-c)/sigma[t+1])^2): "
                 f"criterion {obj(yq):.9g} at the output vs {obj(xs):.9g} at the minimiser (same constraints met)")


# ---------------------------------------------------------------------------------------
# generators
# ---------------------------------------------------------------------------------------

def gen_rows(rng, n, nv, density, values="dyadic"):
    """n rows x nv variants; first and last row hold at least one observation (a Series is always trimmed)"""
    def val():
        if values == "pow2":
            return rng.choice([1.0, 2.0, 0.5, -1.0, -2.0, 4.0, 0.25, -0.5])
        if values == "small":
            return rng.choice([1.0, 2.0, 3.0, 0.5, -1.0, 1.5, -2.0, 0.25, -3.0])
        return rng.dyadic(-8, 8, 3)
    rows = [[(NAN if rng.chance(density) else val()) for _ in range(nv)] for _ in range(n)]
    for i in (0, n - 1):
        if all(isnan(v) for v in rows[i]):
            rows[i][rng.randint(0, nv - 1)] = val()
    return rows


def rows_from_mask(rng, mask, nv):
    rows = []
    for bit in mask:
        rows.append([(rng.dyadic(-8, 8, 3) if bit else NAN)] + [rng.dyadic(-8, 8, 3) if rng.chance(0.6) else NAN for _ in range(nv - 1)])
    return rows


def values_for(method):
    return "small" if method == "prod" else "dyadic"


def gen_agg_regular(ctx: Ctx):
    rng = ctx.rng.fork("agg-regular")
    lines = []
    for hi, lo in PAIRS:
        F = FVAL[hi]
        factor = F // FVAL[lo]
        lengths = sorted(set([1, 2, factor - 1, factor, factor + 1, F - 1, F, F + 1, 2 * F, 2 * F + 1, 3 * F]) - {0})
        if not ctx.quick:
            lengths = list(range(1, 3 * F + 2))
        for seg0 in range(F):
            for n in lengths:
                year = rng.choice([1999, 2000, 2020, 1900, 2023, rng.randint(1, 9990)])
                start = year * F + seg0
                reps = 1 if ctx.quick else 2
                for _ in range(reps):
                    nv = 2 if rng.chance(0.3) else 1
                    dens = rng.choice([0.0, 0.15, 0.4])
                    for m in METHODS:
                        if ctx.quick and rng.chance(0.45):
                            continue
                        rows = gen_rows(rng, n, nv, dens, values_for(m))
                        disc = "1" if rng.chance(0.4) else "0"
                        lines.append(ser_line("agg", hi, lo, start, [m, disc, "-"], nv, rows))
                        ctx.count(f"agg:{hi}->{lo}")
                        ctx.count(f"agg:method:{m}")
    # every NaN mask of short series (single variant), anchored at every start segment
    for hi, lo in [("Q", "Y"), ("Q", "H"), ("H", "Y"), ("M", "Q")]:
        F = FVAL[hi]
        top = 7 if ctx.quick else 9
        for n in range(1, top + 1):
            for bits in range(1 << n):
                mask = [(bits >> i) & 1 for i in range(n)]
                if not (mask[0] and mask[-1]):
                    continue
                seg0 = rng.randint(0, F - 1)
                start = rng.choice([2000, 2021]) * F + seg0
                m = rng.choice(METHODS)
                rows = rows_from_mask(rng, mask, 1)
                if m == "prod":
                    rows = [[(rng.choice([1.0, 2.0, -1.0, 0.5, 3.0]) if not isnan(r[0]) else NAN)] for r in rows]
                disc = "1" if rng.chance(0.5) else "0"
                lines.append(ser_line("agg", hi, lo, start, [m, disc, "-"], 1, rows))
                ctx.count("agg:all-masks")
    return lines


DAILY_YEARS = list(range(1896, 1905)) + list(range(1999, 2005)) + list(range(2096, 2105))


def gen_agg_daily(ctx: Ctx):
    rng = ctx.rng.fork("agg-daily")
    lines = []
    count = ctx.n(300, 2500)
    anchors = [(1, 1), (1, 31), (2, 27), (2, 28), (3, 1), (3, 31), (4, 30), (6, 30), (7, 1), (9, 30), (12, 1), (12, 30), (12, 31)]
    for i in range(count):
        y = rng.choice(DAILY_YEARS) if rng.chance(0.85) else rng.randint(2, 9990)
        mth, day = rng.choice(anchors)
        start = dt.date(y, mth, day).toordinal() + rng.randint(-2, 2)
        n = rng.choice([1, 2, 3, 28, 29, 30, 31, 32, 59, 60, 61, 90, 92, 181, 184, 365, 366, 367, rng.randint(1, 800)])
        if ctx.quick and n > 400 and rng.chance(0.7):
            n = rng.randint(1, 120)
        lo = rng.choice(REG)
        m = rng.choice(METHODS)
        nv = 2 if rng.chance(0.2) else 1
        dens = rng.choice([0.0, 0.0, 0.05, 0.5])
        rows = gen_rows(rng, n, nv, dens, "pow2" if m == "prod" else "dyadic")
        disc = "1" if rng.chance(0.4) else "0"
        lines.append(ser_line("agg", "D", lo, start, [m, disc, "-"], nv, rows))
        ctx.count(f"agg:D->{lo}")
        ctx.count("agg:daily-leap" if (y % 4 == 0 and (y % 100 != 0 or y % 400 == 0)) else "agg:daily-common")
    return lines


# every kind of calendar year: divisible by 400 (leap), by 100 only (common), by 4 only (leap), common; plus one random
BOUNDARY_YEARS = [1600, 1900, 2000, 2004, 2020, 2023, 2100, 2400]


def gen_agg_daily_boundaries(ctx: Ctx):
    """structured, not random: for every kind of year and every month end, a short fully observed daily series that
    straddles the boundary (last 4 days of the month + first 3 of the next), aggregated to every regular frequency with
    methods whose result depends on each member day (sum / mean / prod), on the last and on the first member; plus, per
    year, the whole of February..March aggregated to MONTHLY. A wrong month length or leap rule moves a day across a
    period boundary and changes these results."""
    rng = ctx.rng.fork("agg-daily-boundaries")
    lines = []
    years = BOUNDARY_YEARS + [rng.randint(2, 9990)]
    k = 0
    for y in years:
        leap = y % 4 == 0 and (y % 100 != 0 or y % 400 == 0)
        for mth in range(1, 13):
            nxt = dt.date(y + 1, 1, 1) if mth == 12 else dt.date(y, mth + 1, 1)
            start = nxt.toordinal() - 4
            for lo in REG:
                m = ["sum", "last", "mean", "first", "max", "prod", "min"][k % 7]
                k += 1
                rows = gen_rows(rng, 7, 1, 0.0, "pow2" if m == "prod" else "dyadic")
                if m in ("max", "min"):     # strictly monotone so that the extreme is the day next to the boundary
                    rows = [[float(i + 1) * (1 if m == "max" else -1)] for i in range(7)]
                lines.append(ser_line("agg", "D", lo, start, [m, "0", "-"], 1, rows))
                ctx.count(f"agg:boundary:{'leap' if leap else 'common'}{'-century' if y % 100 == 0 else ''}")
        feb1 = dt.date(y, 2, 1).toordinal()
        n = dt.date(y, 4, 1).toordinal() - feb1
        for m in ("sum", "last", "mean"):
            lines.append(ser_line("agg", "D", "M", feb1, [m, "0", "-"], 1, gen_rows(rng, n, 1, 0.0)))
    return lines


def gen_agg_select(ctx: Ctx):
    rng = ctx.rng.fork("agg-select")
    lines = []
    for _ in range(ctx.n(60, 600)):
        hi, lo = rng.choice(PAIRS + [("D", "M")])
        F = FVAL[hi]
        factor = 28 if hi == "D" else F // FVAL[lo]
        if hi == "D":
            start = dt.date(rng.choice([2019, 2020, 2100]), rng.randint(1, 12), 1).toordinal() + rng.randint(0, 3)
            n = rng.randint(1, 70)
        else:
            start = rng.choice([2000, 2021]) * F + rng.randint(0, F - 1)
            n = rng.randint(1, 2 * F + 1)
        k = rng.choice([0, 1, 1, 2, 2, 3])
        sel = [rng.randint(-factor, factor - 1) for _ in range(k)]
        if rng.chance(0.12):
            sel.append(rng.choice([factor + 3, -factor - 4, 40]))
        m = rng.choice(METHODS)
        rows = gen_rows(rng, n, 1, rng.choice([0.0, 0.2]), "pow2" if m == "prod" else "dyadic")
        seltxt = "e" if not sel else ",".join(str(i) for i in sel)
        lines.append(ser_line("agg", hi, lo, start, [m, "1" if rng.chance(0.3) else "0", seltxt], 1, rows))
        ctx.count(f"agg:select:len{len(sel)}")
    return lines


def gen_options(ctx: Ctx):
    """every combination of discard_missing in {absent, False, True} x remove_missing in {absent, False, True} x method in
    {absent, each name}, on series with interior NaNs (so that discarding changes the result), 1-2 variants"""
    rng = ctx.rng.fork("options")
    lines = []
    for dm in "-01":
        for rm in "-01":
            for meth in ["-"] + [m for m in METHODS if m != "prod"]:
                for _ in range(ctx.n(1, 4)):
                    hi, lo = rng.choice(PAIRS + [("D", "M")])
                    nv = rng.choice([1, 2])
                    if hi == "D":
                        start = dt.date(rng.choice([2019, 2020]), rng.randint(1, 12), rng.randint(1, 28)).toordinal()
                        n = rng.randint(20, 70)
                    else:
                        start = rng.choice([1999, 2020]) * FVAL[hi] + rng.randint(0, FVAL[hi] - 1)
                        n = rng.randint(FVAL[hi] // FVAL[lo] + 1, 2 * FVAL[hi])
                    rows = gen_rows(rng, n, nv, 0.3)
                    lines.append(" ".join(["opt", dm, rm, meth, hi, lo, str(start), str(nv), str(n)] + [vtext(v) for r in rows for v in r]))
                    ctx.count(f"opt:discard={dm}:remove={rm}")
    return lines


def gen_malformed(ctx: Ctx):
    rng = ctx.rng.fork("malformed")
    lines = []
    allf = ["I", "Y", "H", "Q", "M", "D"]
    for f in allf:
        for t in allf:
            if f == "D":
                start = dt.date(2020, 2, 27).toordinal()
            else:
                start = 2020 * max(FVAL[f], 1) + 1
            rows = gen_rows(rng, 3, 1, 0.0)
            lines.append(ser_line("agg", f, t, start, ["sum", "0", "-"], 1, rows))
            lines.append(ser_line("dis", f, t, start, ["first"], 1, rows))
            ctx.count("malformed-or-identity")
    lines.append(ser_line("agg", "Q", "Y", 0, ["sum", "0", "-"], 1, []))
    lines.append(ser_line("dis", "Q", "M", 0, ["flat"], 1, []))
    return lines


def gen_dis(ctx: Ctx):
    rng = ctx.rng.fork("dis")
    lines = []
    for hi, lo in PAIRS:
        F = FVAL[lo]
        for seg0 in range(F):
            for n in ([1, 2, 3, 5] if ctx.quick else range(1, 9)):
                for m in DMETHODS:
                    nv = 2 if rng.chance(0.3) else 1
                    start = rng.choice([1999, 2000, 2020, rng.randint(1, 9990)]) * F + seg0
                    rows = gen_rows(rng, n, nv, rng.choice([0.0, 0.3]))
                    lines.append(ser_line("dis", lo, hi, start, [m], nv, rows))
                    ctx.count(f"dis:{lo}->{hi}")
                    ctx.count(f"dis:method:{m}")
    # every NaN mask up to length 5, Y->Q and Q->M
    for lo, hi in [("Y", "Q"), ("Q", "M"), ("H", "M")]:
        for n in range(1, 6):
            for bits in range(1 << n):
                mask = [(bits >> i) & 1 for i in range(n)]
                if not (mask[0] and mask[-1]):
                    continue
                start = 2020 * FVAL[lo] + rng.randint(0, FVAL[lo] - 1)
                lines.append(ser_line("dis", lo, hi, start, [rng.choice(DMETHODS)], 1, rows_from_mask(rng, mask, 1)))
                ctx.count("dis:all-masks")
    return lines


def gen_dis_daily(ctx: Ctx):
    rng = ctx.rng.fork("dis-daily")
    lines = []
    for _ in range(ctx.n(40, 300)):
        lo = rng.choice(REG)
        F = FVAL[lo]
        y = rng.choice([1900, 2000, 2019, 2020, 2021, 2100])
        start = y * F + rng.randint(0, F - 1)
        n = rng.randint(1, 3)
        m = rng.choice(DMETHODS)
        rows = gen_rows(rng, n, 1, 0.0)
        lines.append(ser_line("dis", lo, "D", start, [m], 1, rows))
        ctx.count(f"dis:{lo}->D")
    return lines


def gen_rt(ctx: Ctx):
    rng = ctx.rng.fork("rt")
    lines = []
    for hi, lo in PAIRS:
        F = FVAL[lo]
        for seg0 in range(F):
            for n in ([1, 2, 4] if ctx.quick else range(1, 8)):
                for dm, m in RT_COMBOS:
                    nv = 2 if rng.chance(0.3) else 1
                    start = rng.choice([1999, 2000, 2020, rng.randint(1, 9990)]) * F + seg0
                    rows = gen_rows(rng, n, nv, rng.choice([0.0, 0.3, 0.5]))
                    lines.append(ser_line("rt", lo, hi, start, [dm, m], nv, rows))
                    ctx.count(f"rt:{dm}/{m}")
    for _ in range(ctx.n(6, 60)):
        lo = rng.choice(REG)
        start = rng.choice([2019, 2020]) * FVAL[lo] + rng.randint(0, FVAL[lo] - 1)
        dm, m = rng.choice(RT_COMBOS)
        lines.append(ser_line("rt", lo, "D", start, [dm, m], 1, gen_rows(rng, rng.randint(1, 3), 1, 0.0)))
        ctx.count("rt:via-daily")
    return lines


def gen_arip(ctx: Ctx, count=None):
    rng = ctx.rng.fork("arip")
    lines = []
    count = count or ctx.n(120, 600)
    for i in range(count):
        hi, lo = rng.choice(PAIRS)
        w = FVAL[hi] // FVAL[lo]
        n_low = rng.randint(2, 4 if w >= 6 else 6) if not rng.chance(0.08) else 1
        if ctx.quick and w == 12:
            n_low = min(n_low, 2)
        form = rng.choice(["diff", "rate", "additive", "multiplicative"])
        aggspec = rng.weighted([("sum", 3), ("mean", 2), ("avg", 2), ("first", 2), ("last", 2), ("custom", 2)])
        if aggspec == "custom":
            aggspec = ",".join(frac_text(Fr(rng.randint(1, 6), rng.choice([1, 2, 4]))) for _ in range(w))
        base = rng.randint(8, 40)
        low = []
        v = float(base)
        for _ in range(n_low):
            low.append(v)
            v = v + rng.randint(-3, 6) * 0.5 if FORM_CANON[form] == "diff" else max(1.0, v * rng.choice([1.0, 1.125, 1.25, 0.875, 1.5]))
        if n_low >= 3 and rng.chance(0.25):
            low[rng.randint(1, n_low - 2)] = NAN
        target = [NAN] * (n_low * w)
        if rng.chance(0.4):
            for _ in range(rng.randint(1, max(1, w // 2))):
                j = rng.randint(0, n_low * w - 1)
                target[j] = float(rng.randint(4, 40)) / 4
            if rng.chance(0.25):            # one completely targeted low period: its aggregation row is dropped
                i0 = rng.randint(0, n_low - 1)
                for k in range(w):
                    target[i0 * w + k] = float(rng.randint(8, 24)) / 4
        start = rng.choice([1999, 2020]) * FVAL[lo] + rng.randint(0, FVAL[lo] - 1)
        toks = ["aripq", lo, hi, str(start), form, aggspec, str(n_low)] + [vtext(x) for x in low] + [str(n_low * w)] + [vtext(x) for x in target]
        lines.append(" ".join(toks))
        ctx.count(f"arip:{form}")
        ctx.count(f"arip:agg:{aggspec if aggspec in AGG_VEC else 'custom'}")
        ctx.count("arip:with-target" if any(not isnan(x) for x in target) else "arip:no-target")
    return lines


def gen_arip_mv(ctx: Ctx, count=None):
    """series with 2-3 variants whose levels, slopes / growth rates and NaN patterns differ: the code solves one system per
    variant, and every variant is judged against its own exact minimiser and its own model solve"""
    rng = ctx.rng.fork("arip-mv")
    lines = []
    for _ in range(count or ctx.n(40, 250)):
        hi, lo = rng.choice(PAIRS)
        w = FVAL[hi] // FVAL[lo]
        n_low = rng.randint(2, 3 if w >= 6 else 5)
        if ctx.quick and w == 12:
            n_low = 2
        nv = rng.choice([2, 2, 3])
        form = rng.choice(["diff", "rate", "additive", "multiplicative"])
        aggspec = rng.weighted([("sum", 3), ("mean", 2), ("avg", 1), ("first", 1), ("last", 2), ("custom", 1)])
        if aggspec == "custom":
            aggspec = ",".join(frac_text(Fr(rng.randint(1, 6), rng.choice([1, 2, 4]))) for _ in range(w))
        cols = []
        for v in range(nv):
            val = float(rng.randint(8, 40))
            step = rng.choice([-3.0, -1.5, 0.0, 0.5, 2.0, 4.5, 7.0])         # a different drift per variant
            growth = rng.choice([0.875, 1.0, 1.125, 1.25, 1.5])
            col = []
            for _ in range(n_low):
                col.append(val)
                val = val + step + rng.randint(-1, 1) * 0.5 if FORM_CANON[form] == "diff" else max(1.0, val * growth)
            if n_low >= 3 and rng.chance(0.2):
                col[rng.randint(1, n_low - 2)] = NAN
            cols.append(col)
        target = [NAN] * (n_low * w)
        if rng.chance(0.3):
            for _ in range(rng.randint(1, max(1, w // 2))):
                target[rng.randint(0, n_low * w - 1)] = float(rng.randint(4, 40)) / 4
        start = rng.choice([1999, 2020]) * FVAL[lo] + rng.randint(0, FVAL[lo] - 1)
        toks = ["aripmv", lo, hi, str(start), form, aggspec, str(nv), str(n_low)] \
            + [vtext(cols[v][i]) for i in range(n_low) for v in range(nv)] + [str(n_low * w)] + [vtext(x) for x in target]
        lines.append(" ".join(toks))
        ctx.count(f"arip:mv:{form}:nv{nv}")
    return lines


# ---------------------------------------------------------------------------------------
# non-finite observations and spellings (round 5)
# ---------------------------------------------------------------------------------------

def gen_xagg(ctx: Ctx):
    """one within-period group over nan / +-inf / dyadic values, every method, with and without discarding"""
    rng = ctx.rng.fork("xagg")
    lines = []
    for _ in range(ctx.n(400, 4000)):
        m = rng.choice(METHODS)
        pool = ["nan", "inf", "-inf", "0/1"] + ([vtext(v) for v in (1.0, 2.0, -1.0, 0.5, -2.0)] if m == "prod" else [vtext(rng.dyadic(-8, 8, 3)) for _ in range(4)])
        g = [rng.choice(pool) for _ in range(rng.randint(1, 6))]
        lines.append(" ".join(["xagg", m, str(rng.randint(0, 1))] + g))
        ctx.count("xagg:with-inf" if any("inf" in x for x in g) else "xagg:finite")
    return lines


def impl_xagg(line: str) -> str:
    from irispie.series import _conversions as CONV
    ws = line.split()
    try:
        out = CONV._aggregate_within_data(None, ws[2] == "1", CONV._AGGREGATION_METHOD_RESOLUTION[ws[1]], np.array([vparse(w) for w in ws[3:]], dtype=float))
        return vtext(out)
    except Exception as e:
        return err_kind(e)


def gen_aripform(ctx: Ctx):
    lines = []
    for form in ["rate", "multiplicative", "diff", "additive", "level"]:
        for agg in ["sum", "mean", "avg", "first", "last", "median"]:
            for rho in ["1/1", "3/2", "1/2", "5/4", "2/1"]:
                for n, w in [(4, 2), (12, 4), (9, 3)]:
                    lines.append(f"aripform {form} {agg} {rho} {n} {w}")
    return lines


def impl_aripform(line: str) -> str:
    _, form, agg, rho, n, w = line.split()
    try:
        cls = ARIP._CHOOSE_FORM[form]
        canon = "diff" if cls is ARIP._DiffForm else "rate"
        rho_eff = 1.0 if canon == "diff" else float(Fr(rho))
        sigma = cls.get_sigma_vector(rho_eff, int(n))
        av = ARIP._CHOOSE_AGGREGATION_VECTOR[agg](int(w))
        return canon + " ; " + " ".join(vtext(v) for v in sigma) + " ; " + " ".join(vtext(v) for v in av)
    except Exception as e:
        return err_kind(e)


def check_xagg(ctx: Ctx, xl, with_model=True):
    if not xl:
        return
    impl = [impl_xagg(l) for l in xl]
    ctx.evaluations += len(xl)
    # independent expectation for the group (same rules as the membership oracle)
    for l, r in zip(xl, impl):
        ws = l.split()
        g = [vparse(w) for w in ws[3:]]
        if ws[2] == "1":
            g = [x for x in g if not isnan(x)]
        e = NAN if not g else reduce_exact(ws[1], g)
        if e is not None and not (r in ("nan", "inf", "-inf") or "/" in r):
            ctx.fail("aggregate-nonfinite", {"line": l}, f"the within-period routine raised ({r})")
        elif e is not None and not same(e, vparse(r)):
            ctx.fail("aggregate-nonfinite", {"line": l}, f"method {ws[1]} discard={ws[2]} on {ws[3:]} gives {e!r}, the implementation returned {r}")
    if with_model:
        model = ctx.model("C12", xl)
        if model is not None:
            model = [m if m in ("nan", "inf", "-inf", "bad-op") else vtext(vparse(m)) for m in model]
        ctx.compare("within-nonfinite", [{"line": l} for l in xl], impl, model)


def check_aripform(ctx: Ctx, al, with_model=True):
    if not al or not with_model:
        return
    am = ctx.model("C12", al)
    if am is not None:
        am = [" ; ".join([p.split(".")[-1] if i == 0 else " ".join(vtext(vparse(z)) for z in p.split()) for i, p in enumerate(m.split(" ; "))]) if " ; " in m else m for m in am]
    ctx.compare("arip-spellings", [{"line": l} for l in al], [impl_aripform(l) for l in al], am)
    ctx.evaluations += len(al)


def run_round5_streams(ctx: Ctx, with_model=True):
    check_xagg(ctx, gen_xagg(ctx), with_model)
    check_aripform(ctx, gen_aripform(ctx), with_model)
    # end to end: series with +-inf, -0.0, huge and tiny magnitudes through aggregate, all keyword spellings of discarding
    rng = ctx.rng.fork("agg-nonfinite")
    lines = []
    for _ in range(ctx.n(150, 1500)):
        hi, lo = rng.choice(PAIRS + [("D", "M"), ("D", "Q")])
        nv = rng.choice([1, 1, 2])
        if hi == "D":
            start = dt.date(rng.choice([2000, 2019, 2020]), rng.randint(1, 12), rng.randint(1, 28)).toordinal()
            n = rng.randint(5, 70)
        else:
            start = rng.choice([1999, 2020]) * FVAL[hi] + rng.randint(0, FVAL[hi] - 1)
            n = rng.randint(2, 2 * FVAL[hi])
        m = rng.choice(METHODS)
        rows = gen_rows(rng, n, nv, 0.2, "pow2" if m == "prod" else "dyadic")
        special = [math.inf, -math.inf, math.inf, -math.inf, 0.0]
        if m in ("first", "last", "min", "max"):
            special += [-0.0, 1e308, -1e308, 2.0 ** -1060, -(2.0 ** -1070)]
        for _ in range(rng.randint(1, 3)):
            rows[rng.randint(0, n - 1)][rng.randint(0, nv - 1)] = rng.choice(special)
        vals = [vtext(v) for r in rows for v in r]
        if rng.chance(0.5):
            lines.append(" ".join(["agg", hi, lo, str(start), m, str(rng.randint(0, 1)), "-", str(nv), str(n)] + vals))
        else:
            lines.append(" ".join(["opt", rng.choice("-01"), rng.choice("-01"), m, hi, lo, str(start), str(nv), str(n)] + vals))
        ctx.count("agg:nonfinite")
    run_series_stream(ctx, "agg-nonfinite", lines, with_model=False)


# ---------------------------------------------------------------------------------------
# reuse / isolation: the conversions never modify or alias their inputs, and a later call that reuses the same input
# objects gives what it gives on fresh copies.  Case lines (values as num/den | nan):
#   reuse conv <F> <start> <nv> <n> v… | agg <T> <method> <disc> <sel> ; dis <T> <dmethod> ; …
#   reuse arip <F> <T> <form> <agg> <tstart> <nT> t… | <start> <n> low… | <start> <n> low… | …
# ---------------------------------------------------------------------------------------

def snap(x):
    return (None if x.start is None else (LETTER.get(x.frequency), int(x.start.serial)), np.array(x.data, dtype=float, copy=True))


def same_snap(a, b):
    return a[0] == b[0] and a[1].shape == b[1].shape and bool(np.all((a[1] == b[1]) | (np.isnan(a[1]) & np.isnan(b[1]))))


def show_snap(a):
    return f"start={a[0]} shape={a[1].shape} data={a[1].ravel()[:8].tolist()}"


def oracle_reuse(ctx: Ctx, line: str):
    head, *parts = [p.strip() for p in line.split("|")]
    ws = head.split()
    kind = ws[1]
    case = {"line": line}
    if kind == "conv":
        f, start, nv, n = ws[2], int(ws[3]), int(ws[4]), int(ws[5])
        vals = [vparse(w) for w in ws[6:]]
        rows = [vals[i * nv:(i + 1) * nv] for i in range(n)]
        x = mk_series(f, start, nv, rows)
        before = snap(x)
        ops = [o.split() for o in parts[0].split(";") if o.strip()]
        for k, op in enumerate(ops):
            sel = parse_select(op[4]) if op[0] == "agg" else None
            sel_before = None if sel is None else list(sel)

            def call(obj, sel_obj):
                if op[0] == "agg":
                    return ir.aggregate(obj, FREQ[op[1]], method=op[2], discard_missing=(op[3] == "1"), select=sel_obj)
                return ir.disaggregate(obj, FREQ[op[1]], method=op[2])
            try:
                got = snap(call(x, sel))
            except Exception as e:
                got = err_kind(e)
            try:
                fresh = snap(call(mk_series(f, start, nv, rows), None if sel_before is None else list(sel_before)))
            except Exception as e:
                fresh = err_kind(e)
            now = snap(x)
            if not same_snap(before, now):
                ctx.fail("input-mutated", case, f"step {k} ({' '.join(op)}) changed its input series: {show_snap(before)} -> {show_snap(now)}")
                return
            if sel is not None and sel != sel_before:
                ctx.fail("input-mutated", case, f"step {k} changed the select list {sel_before} -> {sel}")
                return
            ok = (got == fresh) if isinstance(got, str) or isinstance(fresh, str) else same_snap(got, fresh)
            if not ok:
                ctx.fail("reuse-differs", case, f"step {k} ({' '.join(op)}) on the reused series differs from the same call on a fresh copy")
                return
        return
    # arip with one target object shared by several calls
    f, t, form, aggspec = ws[2], ws[3], ws[4], ws[5]
    tstart, n_t = int(ws[6]), int(ws[7])
    tvals = [vparse(w) for w in ws[8:8 + n_t]]
    agg = aggspec if aggspec in AGG_VEC else tuple(float(Fr(z)) for z in aggspec.split(","))
    w = FVAL[t] // FVAL[f]
    target = ir.Series(start=CLS[t](tstart), values=np.array(tvals, dtype=float))
    tbefore = snap(target)
    tmap = as_map(tbefore[0][1] if tbefore[0] else None, tbefore[1].tolist())
    for k, part in enumerate(parts):
        pw = part.split()
        start, n = int(pw[0]), int(pw[1])
        low = [vparse(z) for z in pw[2:2 + n]]
        x = mk_series(f, start, 1, [[v] for v in low])
        xbefore = snap(x)
        try:
            y = ir.disaggregate(x, FREQ[t], method="arip", model=(form, agg), target=target)
            got = snap(y)
        except Exception as e:
            got = err_kind(e)
        tnow = snap(target)
        if not same_snap(tbefore, tnow):
            ctx.fail("input-mutated", case, f"call {k} (low series {start}+{n}) changed the caller's target series: {show_snap(tbefore)} -> {show_snap(tnow)}")
            return
        if not same_snap(xbefore, snap(x)):
            ctx.fail("input-mutated", case, f"call {k} changed the low-frequency input series")
            return
        try:
            fresh_t = ir.Series(start=CLS[t](tstart), values=np.array(tvals, dtype=float))
            fresh = snap(ir.disaggregate(mk_series(f, start, 1, [[v] for v in low]), FREQ[t], method="arip", model=(form, agg), target=fresh_t))
        except Exception as e:
            fresh = err_kind(e)
        if isinstance(got, str) or isinstance(fresh, str):
            if got != fresh:
                ctx.fail("reuse-differs", case, f"call {k}: {got if isinstance(got, str) else 'ok'} with the reused target, {fresh if isinstance(fresh, str) else 'ok'} with a fresh one")
                return
            continue
        if not (got[0] == fresh[0] and got[1].shape == fresh[1].shape and np.allclose(got[1], fresh[1], rtol=1e-9, atol=1e-9, equal_nan=True)):
            ctx.fail("reuse-differs", case, f"call {k} with the reused target object differs from the same call with a fresh target")
            return
        # the targets the caller passed (original values) that fall into this call's span are met
        hs = period_containing(t, period_days(f, start)[0])
        out = got[1][:, 0]
        win = [tmap.get(hs + j, [NAN])[0] for j in range(n * w)]
        av = AGG_VEC[agg](w) if isinstance(agg, str) else list(agg)
        if arip_exact_minimiser(f, t, form, low_effective(low, win, w), av, win) is None:
            ctx.count("reuse:arip-dependent-constraints-skipped")
            continue
        scale = max(1.0, float(np.nanmax(np.abs(out))))
        for j in range(n * w):
            tv = tmap.get(hs + j, [NAN])[0]
            if math.isfinite(tv) and not abs(out[j] - tv) <= 1e-8 * scale:
                ctx.fail("arip-targets", case, f"call {k}: target {tv} at high period {hs + j} (inside the span) but output {out[j]}")
                return


def gen_reuse(ctx: Ctx):
    rng = ctx.rng.fork("reuse")
    lines = []
    for _ in range(ctx.n(40, 300)):
        f = rng.choice(["M", "Q", "H", "Y", "D"])
        nv = rng.choice([1, 1, 2])
        if f == "D":
            start = dt.date(rng.choice([1999, 2000, 2020]), rng.randint(1, 12), rng.randint(1, 28)).toordinal()
            n = rng.randint(1, 80)
        else:
            start = rng.choice([1999, 2020]) * FVAL[f] + rng.randint(0, FVAL[f] - 1)
            n = rng.randint(1, 2 * FVAL[f] + 3)
        rows = gen_rows(rng, n, nv, rng.choice([0.0, 0.3]))
        ops = []
        for _ in range(rng.randint(2, 5)):
            lower = [g for g in REG if FVAL[g] < FVAL[f]]
            higher = [g for g in REG if FVAL[g] > FVAL[f]]
            if lower and (not higher or rng.chance(0.6)):
                k = FVAL[f] // FVAL[rng.choice(lower)] if f != "D" else 28
                sel = "-" if rng.chance(0.7) else ",".join(str(rng.randint(0, 1)) for _ in range(rng.randint(1, 2)))
                ops.append(f"agg {rng.choice(lower)} {rng.choice([m for m in METHODS if m != 'prod'])} {rng.randint(0, 1)} {sel}")
            elif higher:
                ops.append(f"dis {rng.choice(higher)} {rng.choice(DMETHODS)}")
        if not ops:
            continue
        vals = " ".join(vtext(v) for r in rows for v in r)
        lines.append(f"reuse conv {f} {start} {nv} {n} {vals} | " + " ; ".join(ops))
        ctx.count("reuse:conv")
    for _ in range(ctx.n(30, 200)):
        hi, lo = rng.choice(PAIRS)
        w = FVAL[hi] // FVAL[lo]
        base = rng.choice([1999, 2020]) * FVAL[lo] + rng.randint(0, FVAL[lo] - 1)
        total = rng.randint(3, 5 if w >= 6 else 7)            # low periods covered by the target
        tstart = base * w
        tvals = [NAN] * (total * w)
        for _ in range(rng.randint(2, 2 + total)):
            tvals[rng.randint(0, total * w - 1)] = float(rng.randint(8, 60)) / 4
        tvals[0] = tvals[0] if not isnan(tvals[0]) else 5.0      # a Series is trimmed: observed ends
        tvals[-1] = tvals[-1] if not isnan(tvals[-1]) else 7.5
        form = rng.choice(["diff", "rate", "additive", "multiplicative"])
        aggspec = rng.choice(["sum", "mean", "avg", "last"])
        calls = []
        spans = [(0, total), (rng.randint(0, 1), rng.randint(2, max(2, total - 1))), (0, total)]
        rng.shuffle(spans)
        for a, b in spans[:rng.randint(2, 3)]:
            b = max(b, a + 2)
            low = [float(rng.randint(40, 90)) / 2 for _ in range(b - a)]
            calls.append(f"{base + a} {b - a} " + " ".join(vtext(v) for v in low))
        lines.append(f"reuse arip {lo} {hi} {form} {aggspec} {tstart} {len(tvals)} " + " ".join(vtext(v) for v in tvals) + " | " + " | ".join(calls))
        ctx.count("reuse:arip")
    return lines


def run_reuse_stream(ctx: Ctx, lines):
    for l in lines:
        oracle_reuse(ctx, l)
        ctx.evaluations += 1
        ws = l.split()
        ctx.nontriv(("reuse", ws[1], ws[2], l.count("|") + l.count(";")))
    if lines:
        ctx.sample({"stream": "reuse", "request": lines[-1][:200]})


# ---------------------------------------------------------------------------------------
# streams
# ---------------------------------------------------------------------------------------

def run_series_stream(ctx: Ctx, name: str, lines, with_model=True):
    impl = [impl_eval(l) for l in lines]
    if with_model:
        # +-inf are outside the rational series model (the within-period routine has its own extended model, `xagg`)
        idx = [i for i, l in enumerate(lines) if "inf" not in l]
        model = ctx.model("C12", [lines[i] for i in idx])
        if model is not None:
            model = [round_model_series(r) for r in model]
        ctx.compare(name, [{"line": lines[i]} for i in idx], [impl[i] for i in idx], model)
    for l, r in zip(lines, impl):
        ORACLES[l.split()[0]](ctx, l, r)
        ws = l.split()
        got = parse_series_reply(r)
        if got is not None and got[1] is not None and len(got[2]) >= 1:
            # distinct non-trivial: a result with at least one row, keyed by (op, pair, method, start segment class, has-NaN)
            f = ws[1]
            segclass = int(ws[3]) % FVAL[f] if f in REG else dt.date.fromordinal(int(ws[3])).timetuple().tm_yday if f == "D" and 1 <= int(ws[3]) <= 3652059 else 0
            ctx.nontriv((ws[0], ws[1], ws[2], ws[4], segclass, "nan" in l, len(got[2])))
    ctx.evaluations += len(lines)
    for l, o in list(zip(lines, impl))[:: max(1, len(lines) // 2)][:1]:
        ctx.sample({"stream": name, "request": l[:160], "implementation": o[:160]})


def run_arip_stream(ctx: Ctx, lines, with_model=True):
    sys_lines, sys_cases, sys_impl = [], [], []
    x_lines, x_cases, x_impl = [], [], []
    items = []          # (replay case, single-variant aripq line, result for that variant, tag)
    mv = []             # (replay case, model request for all variants at once, implementation results)
    for l in lines:
        if l.split()[0] == "aripmv":
            vlines, outs = arip_run_mv(l)
            mv.append(({"line": l}, vlines, outs))
            for v, (vl, res) in enumerate(zip(vlines, outs)):
                items.append(({"line": l}, vl, res, f"variant {v} of {len(outs)}: "))
        else:
            items.append(({"line": l}, l, arip_run(l, capture=True), ""))
    for case, l, res, tag in items:
        verdict = oracle_arip(ctx, l, res, case=case, tag=tag)
        ctx.evaluations += 1
        if verdict == "singular":
            # linearly dependent constraints: the exact system has no unique solution (the model answers "singular"),
            # while LAPACK may or may not notice in floating point -- nothing to compare
            continue
        f, t, start, form, agg, low, target = parse_arip(l)
        if "y" in res:
            ctx.nontriv(("arip", f, t, form, agg if isinstance(agg, str) else "custom", any(not isnan(x) for x in target), len(low), tag[:9]))
        if not with_model:
            continue
        if FORM_CANON[form] == "diff" and "F" in res:
            sys_lines.append(arip_model_line(l, "aripsys", "1")); sys_cases.append(case)
            sys_impl.append(qmat_text(res["F"]) + " | " + qmat_text(res["C"]))
        x_lines.append(arip_model_line(l, "arip", "1")); x_cases.append(case); x_impl.append(res)
    if not with_model:
        return
    # the whole per-variant loop at once: the model's `aripSolveAll` against one call on the multi-variant series
    mv_ok = []
    for case, vlines, outs in mv:
        singular = False
        for vl in vlines:
            f, t, start, form, agg, low, target = parse_arip(vl)
            w = FVAL[t] // FVAL[f]
            av = AGG_VEC[agg](w) if isinstance(agg, str) else list(agg)
            if arip_exact_minimiser(f, t, form, low_effective(low, target, w), av, target) is None:
                singular = True
        if not singular and all("y" in o for o in outs):
            mv_ok.append((case, "aripmv 1 " + " | ".join(arip_model_line(vl, "arip", "1").split(" ", 2)[2] for vl in vlines), outs))
    replies = ctx.model("C12", [m[1] for m in mv_ok])
    if replies is not None:
        ctx.streams_compared["arip-variants"] = ctx.streams_compared.get("arip-variants", 0) + len(mv_ok)
        for (case, _, outs), rep in zip(mv_ok, replies):
            parts = [p.strip() for p in rep.split("|")]
            bad = len(parts) != len(outs)
            for o, ptxt in zip(outs, parts):
                if bad or ptxt.startswith("err") or ptxt == "bad-op":
                    bad = True
                    break
                xs = [float(Fr(z)) for z in ptxt.split()]
                scale = max([1.0] + [abs(v) for v in o["y"]])
                if len(xs) != len(o["y"]) or max(abs(a - b) for a, b in zip(xs, o["y"])) > 1e-7 * scale:
                    bad = True
            if bad:
                ctx.disagree("arip-variants", case, [[round(v, 9) for v in o["y"][:4]] for o in outs], rep[:200])
    ctx.compare("arip-system-matrices", sys_cases, sys_impl, ctx.model("C12", sys_lines))
    model = ctx.model("C12", x_lines)
    if model is not None:
        ctx.streams_compared["arip-solution"] = ctx.streams_compared.get("arip-solution", 0) + len(x_lines)
        for case, res, rep in zip(x_cases, x_impl, model):
            if rep.startswith("err") or "err" in res:
                if not (rep.startswith("err") and "err" in res):
                    ctx.disagree("arip-solution", case, res.get("err", "ok"), rep[:80])
                continue
            xs = [Fr(w) for w in rep.split()]
            y = res["y"]
            scale = max([1.0] + [abs(v) for v in y])
            if len(xs) != len(y) or max(abs(float(a) - b) for a, b in zip(xs, y)) > 1e-8 * scale * 10:
                ctx.disagree("arip-solution", case, [round(v, 9) for v in y[:6]], [round(float(a), 9) for a in xs[:6]])
    if lines:
        ctx.sample({"stream": "arip", "request": lines[0][:160]})


def corpus_cases():
    import os, json
    d = os.path.join(os.path.dirname(os.path.dirname(os.path.abspath(__file__))), "corpus", "C12")
    out = []
    if os.path.isdir(d):
        for fn in sorted(os.listdir(d)):
            if fn.endswith(".json"):
                out.append(json.load(open(os.path.join(d, fn))))
    return out


def run_lines(ctx: Ctx, lines, name, with_model=True):
    ser = [l for l in lines if l.split()[0] in ORACLES]
    ar = [l for l in lines if l.split()[0] in ("aripq", "aripmv")]
    run_reuse_stream(ctx, [l for l in lines if l.split()[0] == "reuse"])
    check_xagg(ctx, [l for l in lines if l.split()[0] == "xagg"], with_model)
    check_aripform(ctx, [l for l in lines if l.split()[0] == "aripform"], with_model)
    if ser:
        run_series_stream(ctx, name, ser, with_model)
    if ar:
        run_arip_stream(ctx, ar, with_model)


def case_lines(payload):
    case = payload.get("case")
    if isinstance(case, dict) and "line" in case:
        return [case["line"]]
    if isinstance(case, str):
        return [case]
    out = []
    for d in payload.get("disagreements", []) or []:
        c = d.get("case")
        if isinstance(c, dict) and "line" in c:
            out.append(c["line"])
    return out


def run(ctx: Ctx):
    ctx.rule = ("aggregate: 6 regular pairs x every start segment x lengths up to 3 years (quick: boundary lengths; thorough: every length) x "
                "NaN densities x 7 methods x discard, every NaN mask of short series, daily->M/Q/H/Y starting around month/leap/century "
                "boundaries of 1896-1904, 1999-2004, 2096-2104 and random years, select lists; disaggregate: 6 pairs x every start segment x "
                "4 methods (+ DAILY targets), round trips, arip over forms x aggregations x targets. distinct_nontrivial counts distinct "
                "(op, from, to, method, start segment / day of year, has-NaN, result length) with a non-empty result, and distinct arip "
                "(pair, form, aggregation, has-target, length) configurations solved")
    corpus = [l for p in corpus_cases() for l in case_lines(p)]
    if corpus:
        run_lines(ctx, corpus, "corpus")
        ctx.count("corpus", len(corpus))
    run_series_stream(ctx, "agg-regular", gen_agg_regular(ctx))
    run_series_stream(ctx, "agg-daily", gen_agg_daily(ctx))
    run_series_stream(ctx, "agg-daily-boundaries", gen_agg_daily_boundaries(ctx))
    run_series_stream(ctx, "agg-select", gen_agg_select(ctx))
    run_series_stream(ctx, "malformed", gen_malformed(ctx))
    run_series_stream(ctx, "options", gen_options(ctx))
    run_series_stream(ctx, "disaggregate", gen_dis(ctx))
    run_series_stream(ctx, "disaggregate-daily", gen_dis_daily(ctx))
    run_series_stream(ctx, "roundtrip", gen_rt(ctx))
    run_arip_stream(ctx, gen_arip(ctx) + gen_arip_mv(ctx))
    run_reuse_stream(ctx, gen_reuse(ctx))
    run_round5_streams(ctx)
    ctx.exhaustive = False
    ctx.extra["exhaustive_parts"] = ("every start segment of the 6 regular pairs; every NaN mask of single-variant series up to length "
                                     + ("7" if ctx.quick else "9") + " (aggregate) and 5 (disaggregate)")


def search(ctx: Ctx, seeds):
    """failing-input search on the real code when a tie broke: the disagreeing inputs first, then the oracles alone with the full budget"""
    lines = [c["line"] for c in seeds if isinstance(c, dict) and "line" in c]
    run_lines(ctx, lines, "seeds", with_model=False)
    ctx.tier = "thorough"
    for gen in (gen_agg_regular, gen_agg_daily, gen_agg_daily_boundaries, gen_agg_select, gen_options, gen_dis, gen_dis_daily, gen_rt):
        run_series_stream(ctx, "search", gen(ctx), with_model=False)
    run_arip_stream(ctx, gen_arip(ctx, 300) + gen_arip_mv(ctx, 150), with_model=False)
    run_round5_streams(ctx, with_model=False)
    run_reuse_stream(ctx, gen_reuse(ctx))


def replay(ctx: Ctx, payload):
    lines = case_lines(payload)
    run_lines(ctx, lines, "replay")
