/-
Helper lemmas for frequency conversion (C11): month-level facts about the generated day tables.
-/
import IrisVerif.Model.DateFormats
import IrisVerif.Lemmas.Calendar
import IrisVerif.Props.C09

set_option linter.unusedSimpArgs false

namespace IrisVerif.Dates
open IrisVerif.Gen.Dates IrisVerif.Dates.C09

/-- (month, day?) of a segment at a position, from the generated tables -/
def mdAt (f : Freq) (pos : Pos) (seg : Int) : Option (Int × Option Int) := lookupSeg (mdrTable f pos) seg

theorem regular_cases (f : Freq) (hf : f ∈ regularFreqs) : f = .Y ∨ f = .H ∨ f = .Q ∨ f = .M := by
  simpa [regularFreqs] using hf

/-- `to_ymd` of the period built from a (year, segment) pair with the segment in range -/
theorem toYmd_fromYearSegment (f : Freq) (hf : f ∈ regularFreqs) (y seg : Int) (h1 : 1 ≤ seg) (h2 : seg ≤ f.value)
    (pos : Pos) :
    toYmd (fromYearSegment f y seg) pos =
      match mdAt f pos seg with
      | none => .error .badInput
      | some (m, some d) => .ok (y, m, d)
      | some (m, none) => .ok (y, m, daysInMonth y m) := by
  have hys := toYearSegment_fromYearSegment f hf y seg h1 h2
  have hfreq : (fromYearSegment f y seg).freq = f := by
    rcases regular_cases f hf with h | h | h | h <;> subst h <;> rfl
  unfold toYmd
  rw [hfreq]
  rcases regular_cases f hf with h | h | h | h <;> subst h <;>
    simp only [hys, bind, Except.bind, mdAt] <;> rfl

def MdOk (f : Freq) (pos : Pos) (seg y : Int) : Prop :=
  match mdAt f pos seg with
  | some (m, od) => 1 ≤ m ∧ m ≤ 12 ∧ monthToSegment f m = seg ∧ ValidYmd y m (od.getD (daysInMonth y m))
  | none => False

theorem MdOk.exists {f : Freq} {pos : Pos} {seg y : Int} (h : MdOk f pos seg y) :
    ∃ m od, mdAt f pos seg = some (m, od) ∧ 1 ≤ m ∧ m ≤ 12 ∧ monthToSegment f m = seg ∧
      ValidYmd y m (od.getD (daysInMonth y m)) := by
  unfold MdOk at h
  split at h
  · rename_i m od heq; exact ⟨m, od, heq, h⟩
  · exact h.elim

/-- every table row of an in-range segment exists, its month is a calendar month, its day is valid, and the month
maps back to the segment -/
theorem mdAt_spec (f : Freq) (hf : f ∈ regularFreqs) (seg : Int) (h1 : 1 ≤ seg) (h2 : seg ≤ f.value) (pos : Pos) (y : Int) :
    ∃ m od, mdAt f pos seg = some (m, od) ∧ 1 ≤ m ∧ m ≤ 12 ∧ monthToSegment f m = seg ∧
      ValidYmd y m (od.getD (daysInMonth y m)) := by
  apply MdOk.exists
  unfold MdOk
  rcases regular_cases f hf with h | h | h | h <;> subst h <;>
    simp only [Freq.value, freqYearly, freqHalfyearly, freqQuarterly, freqMonthly] at h2
  · have : seg = 1 := by omega
    subst this
    cases pos <;> cases hl : isLeap y <;> simp [mdAt, mdrTable, mdrY_start, mdrY_middle, mdrY_end, lookupSeg, monthToSegment,
      monthToSegmentY, ValidYmd, daysInMonth, hl]
  · have : seg = 1 ∨ seg = 2 := by omega
    rcases this with h | h <;> subst h <;> cases pos <;> cases hl : isLeap y <;>
      simp [mdAt, mdrTable, mdrH_start, mdrH_middle, mdrH_end, lookupSeg, monthToSegment, monthToSegmentH,
        ValidYmd, daysInMonth, hl, Int.fdiv_eq_ediv_of_nonneg]
  · have : seg = 1 ∨ seg = 2 ∨ seg = 3 ∨ seg = 4 := by omega
    rcases this with h | h | h | h <;> subst h <;> cases pos <;> cases hl : isLeap y <;>
      simp [mdAt, mdrTable, mdrQ_start, mdrQ_middle, mdrQ_end, lookupSeg, monthToSegment, monthToSegmentQ,
        ValidYmd, daysInMonth, hl, Int.fdiv_eq_ediv_of_nonneg]
  · have : seg = 1 ∨ seg = 2 ∨ seg = 3 ∨ seg = 4 ∨ seg = 5 ∨ seg = 6 ∨ seg = 7 ∨ seg = 8 ∨ seg = 9 ∨ seg = 10 ∨
        seg = 11 ∨ seg = 12 := by omega
    rcases this with h | h | h | h | h | h | h | h | h | h | h | h <;> subst h <;> cases pos <;> cases hl : isLeap y <;>
      simp [mdAt, mdrTable, mdrM_start, mdrM_middle, mdrM_end, lookupSeg, monthToSegment, monthToSegmentM,
        ValidYmd, daysInMonth, hl]

/-- the segment computed from a calendar month is in range -/
theorem monthToSegment_range (f : Freq) (hf : f ∈ regularFreqs) (m : Int) (h1 : 1 ≤ m) (h2 : m ≤ 12) :
    1 ≤ monthToSegment f m ∧ monthToSegment f m ≤ f.value := by
  rcases regular_cases f hf with h | h | h | h <;> subst h <;>
    simp [monthToSegment, monthToSegmentY, monthToSegmentH, monthToSegmentQ, monthToSegmentM, Freq.value,
      freqYearly, freqHalfyearly, freqQuarterly, freqMonthly, Int.fdiv_eq_ediv_of_nonneg] <;> omega

/-- `f'` is at least as fine as `f` (regular frequencies): its value is a multiple -/
def FinerOrEq (f f' : Freq) : Prop := f.value ∣ f'.value

/-- **Nesting of months**: with `f'` at least as fine as `f`, any month of the `f'`-segment that contains month `m`
lies in the same `f`-segment as `m`. -/
theorem month_nesting (f f' : Freq) (hf : f ∈ regularFreqs) (hf' : f' ∈ regularFreqs) (hfin : f.value ∣ f'.value)
    (m : Int) (h1 : 1 ≤ m) (h2 : m ≤ 12) (pos : Pos) (m2 : Int) (od : Option Int)
    (h : mdAt f' pos (monthToSegment f' m) = some (m2, od)) : monthToSegment f m2 = monthToSegment f m := by
  have hm : m = 1 ∨ m = 2 ∨ m = 3 ∨ m = 4 ∨ m = 5 ∨ m = 6 ∨ m = 7 ∨ m = 8 ∨ m = 9 ∨ m = 10 ∨ m = 11 ∨ m = 12 := by omega
  rcases regular_cases f hf with h | h | h | h <;> subst h <;>
  rcases regular_cases f' hf' with h' | h' | h' | h' <;> subst h' <;>
  (first
    | (exfalso; revert hfin; simp [Freq.value, freqYearly, freqHalfyearly, freqQuarterly, freqMonthly]; done)
    | (rcases hm with h | h | h | h | h | h | h | h | h | h | h | h <;> subst h <;> cases pos <;>
        simp [mdAt, mdrTable, lookupSeg, monthToSegment, monthToSegmentY, monthToSegmentH, monthToSegmentQ, monthToSegmentM,
          mdrY_start, mdrY_middle, mdrY_end, mdrH_start, mdrH_middle, mdrH_end, mdrQ_start, mdrQ_middle, mdrQ_end,
          mdrM_start, mdrM_middle, mdrM_end, Int.fdiv_eq_ediv_of_nonneg] at h ⊢ <;>
        (obtain ⟨rfl, _⟩ := h) <;> simp [Int.fdiv_eq_ediv_of_nonneg]))

end IrisVerif.Dates
