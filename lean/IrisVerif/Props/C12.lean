/-
C12 — Aggregation and disaggregation respect calendar membership and are consistent.

Property theorems only (helper lemmas: IrisVerif/Lemmas/Conversions.lean, IrisVerif/Lemmas/AripMin.lean). Every theorem is
about the executable model in IrisVerif/Model/Conversions.lean, which the correspondence check (harness/c12.py) ties to
/repo/src/irispie/series/_conversions.py and series/arip.py, or — for arip — about Mathlib matrices over an arbitrary
linearly ordered field, of which the model's system over `Rat` is the instance the harness validates.
-/
import IrisVerif.Lemmas.Conversions
import IrisVerif.Lemmas.AripMin
import Mathlib.Data.Rat.Defs
import Mathlib.Algebra.Order.Field.Rat
import Mathlib.Data.Fin.VecNotation
import Mathlib.LinearAlgebra.Matrix.Notation
import Mathlib.Data.Matrix.ColumnRowPartitioned
import Mathlib.Tactic.Ring
import Mathlib.Tactic.FieldSimp

set_option linter.unusedSimpArgs false
set_option linter.unusedVariables false
set_option linter.unusedSectionVars false

namespace IrisVerif.C12
open IrisVerif.Dates IrisVerif.Gen.Dates IrisVerif.Dates.C09 IrisVerif.Conv

/-! ## 1. Membership, regular → regular -/

/-- the high-frequency serials that belong to low-frequency period `T`, in calendar order -/
def members (hi lo : Freq) (T : Int) : List Int :=
  (List.range (factorOf hi lo)).map fun (i : Nat) => T * (factorOf hi lo : Nat) + i

theorem factorOf_pos (hi lo : Freq) (hp : (hi, lo) ∈ regularPairs) : 0 < factorOf hi lo := by
  simp only [regularPairs, List.mem_cons, Prod.mk.injEq, List.mem_nil_iff, or_false] at hp
  rcases hp with ⟨rfl, rfl⟩ | ⟨rfl, rfl⟩ | ⟨rfl, rfl⟩ | ⟨rfl, rfl⟩ | ⟨rfl, rfl⟩ | ⟨rfl, rfl⟩ <;>
    simp [factorOf, Freq.value, freqMonthly, freqQuarterly, freqHalfyearly, freqYearly]

/-- **Membership (regular → regular), calendar side.** `members hi lo T` is strictly increasing and contains exactly the
periods `t` that `refrequent` (at any position: start, middle or end day) sends to `T`. -/
theorem members_spec (hi lo : Freq) (hp : (hi, lo) ∈ regularPairs) (T : Int) :
    (members hi lo T).Pairwise (· < ·) ∧
    ∀ (t : Int) (pos : Pos), t ∈ members hi lo T ↔ refrequent ⟨hi, t⟩ lo pos = .ok ⟨lo, T⟩ := by
  have hk := factorOf_pos hi lo hp
  constructor
  · unfold members
    rw [List.pairwise_map]
    apply List.Pairwise.imp _ (List.pairwise_lt_range (n := factorOf hi lo))
    intro a b hab; omega
  · intro t pos
    rw [refrequent_regular hi lo hp]
    simp only [members, List.mem_map, List.mem_range, Except.ok.injEq, Period.mk.injEq, true_and]
    constructor
    · rintro ⟨i, hi', rfl⟩
      rw [Int.add_comm, Int.add_mul_ediv_right _ _ (by omega)]
      have : ((i : Nat) : Int) / ((factorOf hi lo : Nat) : Int) = 0 := Int.ediv_eq_zero_of_lt (by omega) (by omega)
      omega
    · intro h
      refine ⟨(t % ((factorOf hi lo : Nat) : Int)).toNat, ?_, ?_⟩
      · have := Int.emod_lt_of_pos t (show (0 : Int) < (factorOf hi lo : Nat) by omega)
        have := Int.emod_nonneg t (show ((factorOf hi lo : Nat) : Int) ≠ 0 by omega)
        omega
      · have := Int.emod_nonneg t (show ((factorOf hi lo : Nat) : Int) ≠ 0 by omega)
        have e := Int.ediv_mul_add_emod t ((factorOf hi lo : Nat) : Int)
        rw [h] at e
        rw [Int.toNat_of_nonneg this]
        omega

/-- **Membership (regular → regular), code side.** For every start, length, year, variant and NaN pattern, `aggregate`
succeeds and, as a period-indexed map, its value at *every* low-frequency period `T` is the method (after the optional
discarding of missing values) applied to the values of exactly the member periods of `T`, in calendar order — padding,
reshaping and trimming included. -/
theorem aggregate_regular_membership (hi lo : Freq) (hp : (hi, lo) ∈ regularPairs) (s : Ser) (hs : s.freq = hi)
    (hne : s.rows ≠ []) (m : Method) (d : Bool) :
    ∃ r, aggregate s lo m d none = .ok r ∧ r.freq = lo ∧ r.nv = s.nv ∧
      ∀ v, v < s.nv → ∀ T : Int, r.get v T = aggPure d m ((members hi lo T).map (s.get v)) := by
  have hk := factorOf_pos hi lo hp
  have hagg : aggregate s lo m d none = aggregateRegular s lo m d none := by
    simp only [regularPairs, List.mem_cons, Prod.mk.injEq, List.mem_nil_iff, or_false] at hp
    unfold aggregate
    have : s.rows.isEmpty = false := by cases h : s.rows <;> simp_all
    rcases hp with ⟨rfl, rfl⟩ | ⟨rfl, rfl⟩ | ⟨rfl, rfl⟩ | ⟨rfl, rfl⟩ | ⟨rfl, rfl⟩ | ⟨rfl, rfl⟩ <;>
      simp [this, hs, Freq.value, freqMonthly, freqQuarterly, freqHalfyearly, freqYearly, Freq.isRegular]
  rw [hagg, aggregateRegular_eq hi lo hp s hs m d]
  refine ⟨_, rfl, rfl, rfl, ?_⟩
  intro v hv T
  have hlen : 0 < s.rows.length := by cases h : s.rows <;> simp_all
  have hend : s.start ≤ s.endSerial := by unfold Ser.endSerial; omega
  rw [aggRows_get s lo d m (factorOf hi lo) _ hk _ _ ?_ ?_ ?_ v hv T]
  · unfold members; rw [List.map_map]; rfl
  all_goals
    simp only [regularPairs, List.mem_cons, Prod.mk.injEq, List.mem_nil_iff, or_false] at hp
    rcases hp with ⟨rfl, rfl⟩ | ⟨rfl, rfl⟩ | ⟨rfl, rfl⟩ | ⟨rfl, rfl⟩ | ⟨rfl, rfl⟩ | ⟨rfl, rfl⟩ <;>
      simp [factorOf, Freq.value, freqMonthly, freqQuarterly, freqHalfyearly, freqYearly] <;> omega


/-! ## 1b. Membership, daily → regular -/

theorem regular_cases' (f : Freq) (hf : f ∈ regularFreqs) : f = .Y ∨ f = .H ∨ f = .Q ∨ f = .M := by
  simpa [regularFreqs] using hf

theorem toYmd_fromYearSegment' (f : Freq) (hf : f ∈ regularFreqs) (y seg : Int) (h1 : 1 ≤ seg) (h2 : seg ≤ f.value)
    (pos : Pos) :
    toYmd (fromYearSegment f y seg) pos =
      match lookupSeg (mdrTable f pos) seg with
      | none => .error .badInput
      | some (m, some d) => .ok (y, m, d)
      | some (m, none) => .ok (y, m, daysInMonth y m) := by
  have hys := toYearSegment_fromYearSegment f hf y seg h1 h2
  have hfreq : (fromYearSegment f y seg).freq = f := by
    rcases regular_cases' f hf with h | h | h | h <;> subst h <;> rfl
  unfold toYmd
  rw [hfreq]
  rcases regular_cases' f hf with h | h | h | h <;> subst h <;>
    simp only [hys, bind, Except.bind] <;> rfl

/-- first and last day (ordinals) of a regular period; total (the error branch of `dayOrd` is unreachable) -/
def firstDay (f : Freq) (T : Int) : Int := match dayOrd ⟨f, T⟩ .start with | .ok a => a | .error _ => 0
def lastDay (f : Freq) (T : Int) : Int := match dayOrd ⟨f, T⟩ .end_ with | .ok a => a | .error _ => 0

theorem firstDay_lastDay_spec (f : Freq) (hf : f ∈ regularFreqs) (T : Int) :
    dayOrd ⟨f, T⟩ .start = .ok (firstDay f T) ∧ dayOrd ⟨f, T⟩ .end_ = .ok (lastDay f T) ∧
    firstDay f T ≤ lastDay f T ∧ firstDay f (T + 1) = lastDay f T + 1 := by
  obtain ⟨a, m, b, ha, hm, hb, h1, h2⟩ := start_le_middle_le_end f hf T
  obtain ⟨a', b', ha', hb', hab⟩ := consecutive_periods_tile f hf T
  simp only [firstDay, lastDay, ha, hb, hb', true_and]
  rw [hb] at ha'; cases ha'
  omega

theorem lastDay_lt_firstDay (f : Freq) (hf : f ∈ regularFreqs) (T T' : Int) (h : T < T') :
    lastDay f T < firstDay f T' := by
  have key : ∀ n : Nat, lastDay f T < firstDay f (T + 1 + n) := by
    intro n
    induction n with
    | zero => have := (firstDay_lastDay_spec f hf T).2.2.2; simp; omega
    | succ n ih =>
      have e : T + 1 + ((n + 1 : Nat) : Int) = (T + 1 + n) + 1 := by omega
      rw [e, (firstDay_lastDay_spec f hf (T + 1 + n)).2.2.2]
      have := (firstDay_lastDay_spec f hf (T + 1 + n)).2.2.1
      omega
  have e : T' = T + 1 + ((T' - T - 1).toNat : Int) := by omega
  rw [e]; exact key _

/-- the regular period a day is converted to contains that day -/
theorem daily_refrequent_contains (lo : Freq) (hlo : lo ∈ regularFreqs) (n : Int) (pos : Pos) :
    ∃ T, refrequent ⟨.D, n⟩ lo pos = .ok ⟨lo, T⟩ ∧ firstDay lo T ≤ n ∧ n ≤ lastDay lo T := by
  rcases h : ord2ymd n with ⟨y, m, dd⟩
  have hv : ValidYmd y m dd := by have := ord2ymd_valid n; rw [h] at this; exact this
  have hn : ymd2ord y m dd = n := by have := ymd2ord_ord2ymd n; rw [h] at this; exact this
  obtain ⟨hm1, hm12, hd1, hd2⟩ := hv
  have hm : m = 1 ∨ m = 2 ∨ m = 3 ∨ m = 4 ∨ m = 5 ∨ m = 6 ∨ m = 7 ∨ m = 8 ∨ m = 9 ∨ m = 10 ∨ m = 11 ∨ m = 12 := by omega
  have hseg : 1 ≤ monthToSegment lo m ∧ monthToSegment lo m ≤ lo.value := by
    rcases regular_cases' lo hlo with rfl | rfl | rfl | rfl <;>
      simp [monthToSegment, monthToSegmentY, monthToSegmentH, monthToSegmentQ, monthToSegmentM, Freq.value,
        freqYearly, freqHalfyearly, freqQuarterly, freqMonthly, Int.fdiv_eq_ediv_of_nonneg] <;> omega
  have hq : (⟨lo, (fromYearSegment lo y (monthToSegment lo m)).serial⟩ : Period) = fromYearSegment lo y (monthToSegment lo m) := by
    rcases regular_cases' lo hlo with rfl | rfl | rfl | rfl <;> rfl
  refine ⟨(fromYearSegment lo y (monthToSegment lo m)).serial, ?_, ?_⟩
  · rw [hq]
    rcases regular_cases' lo hlo with rfl | rfl | rfl | rfl <;>
      simp [refrequent, toYmd, h, bind, Except.bind, fromYmd, pure, Except.pure]
  · simp only [firstDay, lastDay, hq, dayOrd, toYmd_fromYearSegment' lo hlo y _ hseg.1 hseg.2, bind, Except.bind]
    subst hn
    rcases regular_cases' lo hlo with rfl | rfl | rfl | rfl <;>
    rcases hm with rfl | rfl | rfl | rfl | rfl | rfl | rfl | rfl | rfl | rfl | rfl | rfl <;>
    cases hl : isLeap y <;>
    simp [mdrTable, lookupSeg, monthToSegment, monthToSegmentY, monthToSegmentH, monthToSegmentQ, monthToSegmentM,
      mdrY_start, mdrY_end, mdrH_start, mdrH_end, mdrQ_start, mdrQ_end, mdrM_start, mdrM_end,
      Int.fdiv_eq_ediv_of_nonneg, pure, Except.pure, ymd2ord, dbm, daysInMonth, hl] at hd2 ⊢ <;> omega

/-- **Membership (daily → regular), calendar side.** A day is converted (`refrequent`, any position argument) to the
regular period `T` exactly when it lies between the first and the last day of `T`; month lengths and leap years are those
of the civil calendar of C09 (`dayOrd`, tiling). -/
theorem daily_membership (lo : Freq) (hlo : lo ∈ regularFreqs) (T n : Int) (pos : Pos) :
    refrequent ⟨.D, n⟩ lo pos = .ok ⟨lo, T⟩ ↔ (firstDay lo T ≤ n ∧ n ≤ lastDay lo T) := by
  obtain ⟨T', hT', h1, h2⟩ := daily_refrequent_contains lo hlo n pos
  constructor
  · intro h
    rw [hT'] at h
    cases h
    exact ⟨h1, h2⟩
  · rintro ⟨h3, h4⟩
    rw [hT']
    rcases Int.lt_trichotomy T' T with hlt | heq | hgt
    · have := lastDay_lt_firstDay lo hlo T' T hlt; omega
    · rw [heq]
    · have := lastDay_lt_firstDay lo hlo T T' hgt; omega


theorem toDaily_eq (lo : Freq) (hlo : lo ∈ regularFreqs) (T : Int) :
    toDaily ⟨lo, T⟩ .start = .ok ⟨.D, firstDay lo T⟩ ∧ toDaily ⟨lo, T⟩ .end_ = .ok ⟨.D, lastDay lo T⟩ := by
  obtain ⟨y, seg, hys, h1, h2, hp⟩ := fromYearSegment_toYearSegment ⟨lo, T⟩ hlo
  simp only at h2 hp
  simp only [toDaily, refrequent, firstDay, lastDay, dayOrd, ← hp, toYmd_fromYearSegment' lo hlo y seg h1 h2, bind, Except.bind]
  rcases regular_cases' lo hlo with rfl | rfl | rfl | rfl <;>
    simp only [Freq.value, freqYearly, freqHalfyearly, freqQuarterly, freqMonthly] at h2
  · have : seg = 1 := by omega
    subst this
    cases hl : isLeap y <;> simp [mdrTable, lookupSeg, mdrY_start, mdrY_end, fromYmd, ValidYmd, daysInMonth, hl, pure, Except.pure]
  · have : seg = 1 ∨ seg = 2 := by omega
    rcases this with rfl | rfl <;>
    cases hl : isLeap y <;> simp [mdrTable, lookupSeg, mdrH_start, mdrH_end, fromYmd, ValidYmd, daysInMonth, hl, pure, Except.pure]
  · have : seg = 1 ∨ seg = 2 ∨ seg = 3 ∨ seg = 4 := by omega
    rcases this with rfl | rfl | rfl | rfl <;>
    cases hl : isLeap y <;> simp [mdrTable, lookupSeg, mdrQ_start, mdrQ_end, fromYmd, ValidYmd, daysInMonth, hl, pure, Except.pure]
  · have : seg = 1 ∨ seg = 2 ∨ seg = 3 ∨ seg = 4 ∨ seg = 5 ∨ seg = 6 ∨ seg = 7 ∨ seg = 8 ∨ seg = 9 ∨ seg = 10 ∨ seg = 11 ∨ seg = 12 := by omega
    rcases this with rfl | rfl | rfl | rfl | rfl | rfl | rfl | rfl | rfl | rfl | rfl | rfl <;>
    cases hl : isLeap y <;> simp [mdrTable, lookupSeg, mdrM_start, mdrM_end, fromYmd, ValidYmd, daysInMonth, hl, pure, Except.pure]

theorem pySlice_map_range {α} (n : Nat) (f : Nat → α) (x y : Nat) (hxy : x ≤ y) (hy : y ≤ n) :
    pySlice ((List.range n).map f) (x : Int) (y : Int) = (List.range (y - x)).map fun i => f (x + i) := by
  have hx : ¬ ((x : Int) < 0) := by omega
  have hy' : ¬ ((y : Int) < 0) := by omega
  have e1 : (min (x : Int) (n : Int)).toNat = x := by omega
  have e2 : (min (y : Int) (n : Int)).toNat = y := by omega
  simp only [pySlice, List.length_map, List.length_range, hx, hy', if_false, e1, e2]
  apply List.ext_getElem
  · simp; omega
  · intro i h1 h2
    simp [List.getElem_take, List.getElem_drop]

/-- **Membership (daily → regular), code side.** Whenever the padded window `[sd, ed]` covers period `T`, the slice that
`_aggregate_daily_to_regular` hands to the method is the list of values of the days `firstDay T, …, lastDay T` in calendar
order — by `daily_membership`, exactly the days that convert to `T`. -/
theorem dailyGroup_eq (lo : Freq) (hlo : lo ∈ regularFreqs) (s : Ser) (v : Nat) (sd ed T : Int)
    (h1 : sd ≤ firstDay lo T) (h2 : lastDay lo T ≤ ed) :
    dailyGroup s v sd ed ⟨lo, T⟩ =
      .ok ((List.range (lastDay lo T - firstDay lo T + 1).toNat).map fun (i : Nat) => s.get v (firstDay lo T + i)) := by
  have hle := (firstDay_lastDay_spec lo hlo T).2.2.1
  obtain ⟨ha, hb⟩ := toDaily_eq lo hlo T
  simp only [dailyGroup, ha, hb, bind, Except.bind, pure, Except.pure]
  have ex : firstDay lo T - sd = ((firstDay lo T - sd).toNat : Int) := by omega
  have ey : lastDay lo T - sd + 1 = ((lastDay lo T - sd + 1).toNat : Int) := by omega
  rw [ex, ey, pySlice_map_range _ _ _ _ (by omega) (by omega)]
  congr 1
  have : (lastDay lo T - sd + 1).toNat - (firstDay lo T - sd).toNat = (lastDay lo T - firstDay lo T + 1).toNat := by omega
  rw [this]
  apply List.map_congr_left
  intro i _
  congr 1
  omega


/-- the days of regular period `T`, in calendar order -/
def days (lo : Freq) (T : Int) : List Int :=
  (List.range (lastDay lo T - firstDay lo T + 1).toNat).map fun (i : Nat) => firstDay lo T + i

theorem mapM_ok_of_forall {α β} (l : List α) (f : α → R β) (g : α → β) (h : ∀ x ∈ l, f x = .ok (g x)) :
    l.mapM f = .ok (l.map g) := by
  induction l with
  | nil => rfl
  | cons x xs ih =>
    rw [List.mapM_cons, h x (by simp), ih (fun y hy => h y (by simp [hy]))]
    rfl

theorem firstDay_year_start (lo : Freq) (hlo : lo ∈ regularFreqs) (y : Int) :
    firstDay lo (fromYearSegment lo y 1).serial = ymd2ord y 1 1 ∧
    lastDay lo (fromYearSegment lo y lo.value).serial = ymd2ord y 12 31 := by
  have hq : ∀ seg, (⟨lo, (fromYearSegment lo y seg).serial⟩ : Period) = fromYearSegment lo y seg := by
    intro seg; rcases regular_cases' lo hlo with rfl | rfl | rfl | rfl <;> rfl
  have hv : 1 ≤ lo.value := by
    rcases regular_cases' lo hlo with rfl | rfl | rfl | rfl <;> simp [Freq.value, freqYearly, freqHalfyearly, freqQuarterly, freqMonthly]
  simp only [firstDay, lastDay, hq, dayOrd, toYmd_fromYearSegment' lo hlo y 1 (by omega) hv,
    toYmd_fromYearSegment' lo hlo y lo.value hv (by omega), bind, Except.bind]
  rcases regular_cases' lo hlo with rfl | rfl | rfl | rfl <;>
    simp [mdrTable, lookupSeg, mdrY_start, mdrY_end, mdrH_start, mdrH_end, mdrQ_start, mdrQ_end, mdrM_start, mdrM_end,
      Freq.value, freqYearly, freqHalfyearly, freqQuarterly, freqMonthly, pure, Except.pure]

theorem firstDay_mono (lo : Freq) (hlo : lo ∈ regularFreqs) (T T' : Int) (h : T ≤ T') :
    firstDay lo T ≤ firstDay lo T' ∧ lastDay lo T ≤ lastDay lo T' := by
  rcases Int.lt_or_eq_of_le h with hlt | rfl
  · have h1 := lastDay_lt_firstDay lo hlo T T' hlt
    have h2 := (firstDay_lastDay_spec lo hlo T).2.2.1
    have h3 := (firstDay_lastDay_spec lo hlo T').2.2.1
    omega
  · omega


/-- **Membership (daily → regular), full pipeline.** For every daily series (any start day, length, year — leap or not —
variants, NaN pattern), every regular target, method and `discard`: `aggregate` succeeds and, as a period-indexed map,
its value at every period `T` is the method applied to the values of exactly the days of `T` (`daily_membership`), in
calendar order. -/
theorem aggregate_daily_membership (lo : Freq) (hlo : lo ∈ regularFreqs) (s : Ser) (hs : s.freq = .D)
    (hne : s.rows ≠ []) (m : Method) (d : Bool) :
    ∃ r, aggregate s lo m d none = .ok r ∧ r.freq = lo ∧ r.nv = s.nv ∧
      ∀ v, v < s.nv → ∀ T : Int, r.get v T = aggPure d m ((days lo T).map (s.get v)) := by
  have hlen : 0 < s.rows.length := by cases h : s.rows <;> simp_all
  have hend : s.start ≤ s.endSerial := by unfold Ser.endSerial; omega
  have hemp : s.rows.isEmpty = false := by cases h : s.rows <;> simp_all
  have hreg : lo.isRegular = true := by rcases regular_cases' lo hlo with rfl | rfl | rfl | rfl <;> rfl
  have hagg : aggregate s lo m d none = aggregateDaily s lo m d none := by
    unfold aggregate
    rcases regular_cases' lo hlo with rfl | rfl | rfl | rfl <;>
      simp [hemp, hs, Freq.value, freqDaily, freqMonthly, freqQuarterly, freqHalfyearly, freqYearly, Freq.isRegular]
  -- window and output range
  obtain ⟨hsd, _⟩ := firstDay_year_start lo hlo (yearOf s.start)
  obtain ⟨_, hed⟩ := firstDay_year_start lo hlo (yearOf s.endSerial)
  have hy1 := yearOf_spec s.start
  have hy2 := yearOf_spec s.endSerial
  have hsd' : ymd2ord (yearOf s.start) 1 1 ≤ s.start := by simp [ymd2ord, dbm]; omega
  have hed' : s.endSerial ≤ ymd2ord (yearOf s.endSerial) 12 31 := by
    have := dbm_dec (yearOf s.endSerial); have := dby_succ (yearOf s.endSerial)
    simp [ymd2ord, daysInMonth] at *; omega
  generalize hns : (fromYearSegment lo (yearOf s.start) 1).serial = newStart at hsd
  generalize hne' : (fromYearSegment lo (yearOf s.endSerial) lo.value).serial = newEnd at hed
  generalize hsdv : ymd2ord (yearOf s.start) 1 1 = sd at hsd hsd'
  generalize hedv : ymd2ord (yearOf s.endSerial) 12 31 = ed at hed hed'
  have hrows : aggregateDaily s lo m d none = .ok (Ser.trim ⟨lo, s.nv, newStart,
      (List.range (newEnd - newStart + 1).toNat).map fun (j : Nat) => (List.range s.nv).map fun (v : Nat) =>
        aggPure d m ((days lo (newStart + (j : Int))).map (s.get v))⟩) := by
    unfold aggregateDaily
    simp only [hreg, Bool.not_true, Bool.false_eq_true, if_false, hns, hne', hsdv, hedv, bind, Except.bind, pure, Except.pure]
    rw [mapM_ok_of_forall _ _ (fun (j : Nat) => (List.range s.nv).map fun (v : Nat) => aggPure d m ((days lo (newStart + (j : Int))).map (s.get v)))]
    intro j hj
    have hj' : j < (newEnd - newStart + 1).toNat := List.mem_range.1 hj
    have m1 := firstDay_mono lo hlo newStart (newStart + (j : Int)) (by omega)
    have m2 := firstDay_mono lo hlo (newStart + (j : Int)) newEnd (by omega)
    rw [mapM_ok_of_forall _ _ (fun (v : Nat) => aggPure d m ((days lo (newStart + (j : Int))).map (s.get v)))]
    intro v _
    rw [dailyGroup_eq lo hlo s v sd ed (newStart + (j : Int)) (by omega) (by omega)]
    simp only [aggWithin_no_select, days, List.map_map]
    rfl
  rw [hagg, hrows]
  refine ⟨_, rfl, rfl, rfl, ?_⟩
  intro v hv T
  rw [Ser.get_trim, Ser.get_eq]
  simp only [rowsGet_table]
  have hnonempty := (firstDay_lastDay_spec lo hlo T).2.2.1
  have hall : (∀ t ∈ days lo T, t < s.start ∨ s.endSerial < t) → aggPure d m ((days lo T).map (s.get v)) = none := by
    intro h
    unfold days
    rw [List.map_map]
    apply aggPure_all_none
    intro i hi
    apply Ser.get_outside
    apply h
    simp only [days, List.mem_map, List.mem_range]
    exact ⟨i, hi, rfl⟩
  have hmem : ∀ t ∈ days lo T, firstDay lo T ≤ t ∧ t ≤ lastDay lo T := by
    intro t ht
    simp only [days, List.mem_map, List.mem_range] at ht
    obtain ⟨i, hi, rfl⟩ := ht
    omega
  by_cases c1 : T < newStart
  · simp only [c1, if_true]
    symm; apply hall
    intro t ht
    have := lastDay_lt_firstDay lo hlo T newStart c1
    have := hmem t ht
    left; omega
  · simp only [c1, if_false]
    by_cases c2 : (T - newStart).toNat < (newEnd - newStart + 1).toNat
    · simp only [c2, hv, and_self, if_true]
      have e : newStart + (((T - newStart).toNat : Nat) : Int) = T := by omega
      rw [e]
    · simp only [c2, false_and, if_false]
      symm; apply hall
      intro t ht
      have hlt : newEnd < T := by omega
      have := lastDay_lt_firstDay lo hlo newEnd T hlt
      have := hmem t ht
      right; omega


/-! ## 2. What the method sees and returns -/

/-- without `select` the within-period routine never raises and is the pure function `aggPure` -/
theorem aggWithin_pure (d : Bool) (m : Method) (w : List Val) : aggWithin none d m w = .ok (aggPure d m w) := rfl

/-- a group with a missing member yields a missing value under mean, sum and prod (missing values not discarded) -/
theorem missing_member_gives_missing (m : Method) (hm : m = .mean ∨ m = .sum ∨ m = .prod) (w : List Val)
    (h : none ∈ w) : aggPure false m w = none := by
  have hne : w.isEmpty = false := by cases w <;> simp_all
  simp only [aggPure, Bool.false_eq_true, if_false, hne]
  rcases hm with rfl | rfl | rfl
  · exact stMean_of_mem_none w h
  · exact pySum_of_mem_none w h
  · exact npProd_of_mem_none w h

/-- without missing members: sum and prod are the rational sum and product, mean is the sum over the count -/
theorem sum_prod_mean_of_present (l : List Rat) (hne : l ≠ []) :
    aggPure false .sum (l.map some) = some (l.foldl (· + ·) 0) ∧
    aggPure false .prod (l.map some) = some (l.foldl (· * ·) 1) ∧
    aggPure false .mean (l.map some) = some (l.foldl (· + ·) 0 / (l.length : Rat)) := by
  have h : (l.map some).isEmpty = false := by cases l <;> simp_all
  simp [aggPure, h, Method.apply, pySum, npProd, stMean, foldl_addVal_some, foldl_mulVal_some]

/-- first and last return the first and the last member of the group (missing or not) -/
theorem first_last_member (x : Val) (xs : List Val) :
    aggPure false .first (x :: xs) = x ∧ aggPure false .last (xs ++ [x]) = x := by
  constructor
  · simp [aggPure, Method.apply]
  · have : (xs ++ [x]).isEmpty = false := by cases xs <;> simp
    simp [aggPure, Method.apply, this]

/-- `discard_missing=True` is the method on the sub-list of non-missing members (in the same order) -/
theorem discard_is_method_on_present (m : Method) (w : List Val) :
    aggPure true m w = aggPure false m (w.filter Option.isSome) := by
  simp [aggPure]

/-- an empty group (nothing selected, or everything discarded) is missing -/
theorem empty_group_missing (d : Bool) (m : Method) (sel : Option (List Int)) :
    aggPure d m [] = none ∧ (∀ w : List Val, (∀ x ∈ w, x = none) → aggPure true m w = none) := by
  constructor
  · cases d <;> simp [aggPure]
  · intro w hw
    have : w.filter Option.isSome = [] := by
      rw [List.filter_eq_nil_iff]; intro x hx; rw [hw x hx]; simp
    simp [aggPure, this]

/-- one index of numpy fancy indexing -/
def npIndex (w : List Val) (i : Int) : R Val :=
  if 0 ≤ (if i < 0 then i + (w.length : Int) else i) ∧ (if i < 0 then i + (w.length : Int) else i) < (w.length : Int)
  then .ok (w.getD (if i < 0 then i + (w.length : Int) else i).toNat none) else .error .badInput

theorem npTake_eq (w : List Val) (sel : List Int) : npTake w sel = sel.mapM (npIndex w) := rfl

theorem npIndex_cases (w : List Val) (i : Int) :
    (0 ≤ i ∧ i < w.length → npIndex w i = .ok (w.getD i.toNat none)) ∧
    (-(w.length : Int) ≤ i ∧ i < 0 → npIndex w i = .ok (w.getD (i + w.length).toNat none)) ∧
    (i ≥ w.length ∨ i < -(w.length : Int) → npIndex w i = .error .badInput) ∧
    (∀ e, npIndex w i = .error e → e = .badInput) := by
  unfold npIndex
  refine ⟨?_, ?_, ?_, ?_⟩
  · intro h
    have : ¬ i < 0 := by omega
    simp [this, h]
  · intro h
    have h1 : i < 0 := h.2
    have h2 : 0 ≤ i + (w.length : Int) ∧ i + (w.length : Int) < (w.length : Int) := by omega
    simp [h1, h2]
  · intro h
    have : ¬ (0 ≤ (if i < 0 then i + (w.length : Int) else i) ∧ (if i < 0 then i + (w.length : Int) else i) < (w.length : Int)) := by
      split <;> omega
    simp [this]
  · intro e h
    by_cases hc : 0 ≤ (if i < 0 then i + (w.length : Int) else i) ∧ (if i < 0 then i + (w.length : Int) else i) < (w.length : Int)
    · rw [if_pos hc] at h; cases h
    · rw [if_neg hc] at h; cases h; rfl

/-- `select` is positional choice inside the group: the chosen members in the order given (negative positions count from
the end), then discarding and the method exactly as without `select`; a position outside the group is rejected
(`IndexError`) -/
theorem select_is_positional (sel : List Int) (d : Bool) (m : Method) (w : List Val) :
    (∀ w', npTake w sel = .ok w' → aggWithin (some sel) d m w = .ok (aggPure d m w')) ∧
    ((∀ i ∈ sel, 0 ≤ i ∧ i < w.length) → npTake w sel = .ok (sel.map fun i => w.getD i.toNat none)) ∧
    ((∃ i ∈ sel, i ≥ w.length ∨ i < -(w.length : Int)) → aggWithin (some sel) d m w = .error .badInput) := by
  refine ⟨?_, ?_, ?_⟩
  · intro w' h
    simp [aggWithin, h, bind, Except.bind, pure, Except.pure, aggPure]
  · intro h
    rw [npTake_eq]
    induction sel with
    | nil => rfl
    | cons i is ih =>
      rw [List.mapM_cons, (npIndex_cases w i).1 (h i (by simp)), ih (fun j hj => h j (by simp [hj]))]
      rfl
  · rintro ⟨i, hi, hout⟩
    have : npTake w sel = .error .badInput := by
      rw [npTake_eq]
      induction sel with
      | nil => cases hi
      | cons j js ih =>
        rw [List.mapM_cons]
        cases hj : npIndex w j with
        | error e => rw [(npIndex_cases w j).2.2.2 e hj]; rfl
        | ok x =>
          rcases List.mem_cons.1 hi with rfl | hmem
          · rw [(npIndex_cases w i).2.2.1 hout] at hj; cases hj
          · rw [ih hmem]; rfl
    simp [aggWithin, this, bind, Except.bind]


/-! ## 3. Placement of disaggregated values -/

/-- **Placement (regular targets).** `disaggregate` succeeds and, as a period-indexed map, the result at every
high-frequency period `t` is the value of the low-frequency period `t / k` that contains it (`refrequent_regular`) when the
position `t % k` of `t` inside that period is kept by the method — every position for `flat`, `0` for `first`, `k / 2` for
`middle`, `k - 1` for `last` — and missing everywhere else (`k` = number of high-frequency periods per low-frequency
period). Trimming included; no condition on variants or the NaN pattern. -/
theorem disaggregate_placement (hi lo : Freq) (hp : (hi, lo) ∈ regularPairs) (s : Ser) (hs : s.freq = lo)
    (hne : s.rows ≠ []) (dm : DMethod) :
    ∃ r, disaggregate s hi dm = .ok r ∧ r.freq = hi ∧ r.nv = s.nv ∧
      ∀ (v : Nat) (t : Int), r.get v t =
        if keeps (dm.offset (factorOf hi lo)) (t % (factorOf hi lo : Nat)).toNat then s.get v (t / (factorOf hi lo : Nat)) else none := by
  rw [disaggregate_eq hi lo hp s hs hne dm]
  refine ⟨_, rfl, rfl, rfl, ?_⟩
  intro v t
  have hk : 0 < factorOf hi lo := by
    simp only [regularPairs, List.mem_cons, Prod.mk.injEq, List.mem_nil_iff, or_false] at hp
    rcases hp with ⟨rfl, rfl⟩ | ⟨rfl, rfl⟩ | ⟨rfl, rfl⟩ | ⟨rfl, rfl⟩ | ⟨rfl, rfl⟩ | ⟨rfl, rfl⟩ <;>
      simp [factorOf, Freq.value, freqMonthly, freqQuarterly, freqHalfyearly, freqYearly]
  rw [Ser.get_trim, Ser.get_eq, Ser.get_eq]
  simp only [disaggRows_get _ hk]
  generalize factorOf hi lo = k at hk ⊢
  by_cases c : t < s.start * (k : Int)
  · have : t / (k : Int) < s.start := Int.ediv_lt_of_lt_mul (by omega) c
    simp [c, this]
  · have c' : ¬ t / (k : Int) < s.start := by
      intro h
      have h1 : t / (k : Int) + 1 ≤ s.start := by omega
      have h2 : (t / (k : Int) + 1) * (k : Int) ≤ s.start * k := Int.mul_le_mul_of_nonneg_right h1 (by omega)
      have h3 := Int.ediv_mul_add_emod t (k : Int)
      have h4 := Int.emod_lt_of_pos t (show (0 : Int) < k by omega)
      rw [Int.add_mul] at h2
      omega
    simp only [c, c', if_false]
    have e0 : t = ((t - s.start * (k : Int)).toNat : Int) + s.start * k := by omega
    have e1 : ((t - s.start * (k : Int)).toNat % k : Nat) = (t % (k : Int)).toNat := by
      have : t % (k : Int) = (((t - s.start * (k : Int)).toNat % k : Nat) : Int) := by
        conv_lhs => rw [e0]
        rw [Int.add_mul_emod_self_right]; simp
      rw [this, Int.toNat_natCast]
    have e2 : ((t - s.start * (k : Int)).toNat / k : Nat) = (t / (k : Int) - s.start).toNat := by
      have : t / (k : Int) = (((t - s.start * (k : Int)).toNat / k : Nat) : Int) + s.start := by
        conv_lhs => rw [e0]
        rw [Int.add_mul_ediv_right _ _ (by omega)]; simp
      rw [this, Int.add_sub_cancel, Int.toNat_natCast]
    rw [e1, e2]


/-! ## 4. Round trips -/

theorem foldl_add_replicate (k : Nat) (a q : Rat) : (List.replicate k q).foldl (· + ·) a = a + k * q := by
  induction k generalizing a with
  | zero => simp
  | succ k ih => rw [List.replicate_succ, List.foldl_cons, ih]; push_cast; ring

/-- on a constant group, mean / first / last / min / max return the constant (missing stays missing) -/
theorem aggPure_replicate (m : Method) (hm : m = .mean ∨ m = .first ∨ m = .last ∨ m = .min ∨ m = .max) (k : Nat) (x : Val) :
    aggPure false m (List.replicate (k + 1) x) = x := by
  have hne : (List.replicate (k + 1) x).isEmpty = false := by simp
  simp only [aggPure, Bool.false_eq_true, if_false, hne]
  rcases hm with rfl | rfl | rfl | rfl | rfl
  · cases x with
    | none => exact stMean_of_mem_none _ (by simp)
    | some q =>
      have : List.replicate (k + 1) (some q) = (List.replicate (k + 1) q).map some := by simp
      simp only [Method.apply, stMean, pySum, this, foldl_addVal_some, foldl_add_replicate, List.length_map, List.length_replicate]
      congr 1
      have : ((k + 1 : Nat) : Rat) ≠ 0 := by exact_mod_cast Nat.succ_ne_zero k
      field_simp
      ring
  · simp [Method.apply, List.replicate_succ]
  · simp [Method.apply, List.getLast?_replicate]
  · exact pyMin_replicate k x
  · exact pyMax_replicate k x

/-- the matching (disaggregation, aggregation) method pairs of the property statement -/
def matchingMethods : List (DMethod × Method) :=
  [(.flat, .mean), (.flat, .first), (.flat, .last), (.flat, .min), (.flat, .max), (.first, .first), (.last, .last)]

theorem group_roundtrip (k : Nat) (dm : DMethod) (m : Method) (hc : (dm, m) ∈ matchingMethods) (x : Val) :
    aggPure false m ((List.range (k + 1)).map fun i => if keeps (dm.offset (k + 1)) i then x else none) = x := by
  simp only [matchingMethods, List.mem_cons, Prod.mk.injEq, List.mem_nil_iff, or_false] at hc
  have hflat : ∀ m', (m' = .mean ∨ m' = .first ∨ m' = .last ∨ m' = .min ∨ m' = .max) →
      aggPure false m' ((List.range (k + 1)).map fun i => if keeps (DMethod.offset (k + 1) .flat) i then x else none) = x := by
    intro m' hm'
    have : ((List.range (k + 1)).map fun i => if keeps (DMethod.offset (k + 1) .flat) i then x else none)
        = List.replicate (k + 1) x := by
      apply List.ext_getElem <;> simp [DMethod.offset, keeps]
    rw [this]; exact aggPure_replicate m' hm' k x
  have hne : ∀ f : Nat → Val, ((List.range (k + 1)).map f).isEmpty = false := by intro f; simp
  rcases hc with ⟨rfl, rfl⟩ | ⟨rfl, rfl⟩ | ⟨rfl, rfl⟩ | ⟨rfl, rfl⟩ | ⟨rfl, rfl⟩ | ⟨rfl, rfl⟩ | ⟨rfl, rfl⟩
  · exact hflat _ (by simp)
  · exact hflat _ (by simp)
  · exact hflat _ (by simp)
  · exact hflat _ (by simp)
  · exact hflat _ (by simp)
  · simp only [aggPure, Bool.false_eq_true, if_false, hne, Method.apply]
    simp [List.range_succ_eq_map, DMethod.offset, keeps]
  · simp only [aggPure, Bool.false_eq_true, if_false, hne, Method.apply]
    simp [List.range_succ, DMethod.offset, keeps]

/-- **Round trips.** For every series with at least one observation (any start, length, variants, NaN pattern), every
regular pair and every matching method pair — `flat` with mean / first / last / min / max, `first` with `first`, `last`
with `last` — aggregating the disaggregated series succeeds and returns, as a period-indexed map, exactly the original
series (missing values map to missing values). -/
theorem aggregate_disaggregate_roundtrip (hi lo : Freq) (hp : (hi, lo) ∈ regularPairs) (s : Ser) (hs : s.freq = lo)
    (hobs : ∃ v t, s.get v t ≠ none) (dm : DMethod) (m : Method) (hc : (dm, m) ∈ matchingMethods) :
    ∃ d a, disaggregate s hi dm = .ok d ∧ aggregate d lo m false none = .ok a ∧ a.freq = lo ∧ a.nv = s.nv ∧
      ∀ v, v < s.nv → ∀ T : Int, a.get v T = s.get v T := by
  obtain ⟨v0, t0, h0⟩ := hobs
  have hne : s.rows ≠ [] := by
    intro h; apply h0; simp [Ser.get_eq, h, rowsGet]
  obtain ⟨d, hd, hdf, hdn, hdget⟩ := disaggregate_placement hi lo hp s hs hne dm
  have hk := factorOf_pos hi lo hp
  obtain ⟨k, hk'⟩ : ∃ k, factorOf hi lo = k + 1 := ⟨factorOf hi lo - 1, by omega⟩
  -- index arithmetic inside one low-frequency period
  have hidx : ∀ (T : Int) (i : Nat), i < k + 1 →
      ((T * ((k + 1 : Nat) : Int) + i) % ((k + 1 : Nat) : Int)).toNat = i ∧ (T * ((k + 1 : Nat) : Int) + i) / ((k + 1 : Nat) : Int) = T := by
    intro T i hi'
    constructor
    · rw [Int.add_comm, Int.add_mul_emod_self_right, Int.emod_eq_of_lt (by omega) (by omega)]; simp
    · rw [Int.add_comm, Int.add_mul_ediv_right _ _ (by omega), Int.ediv_eq_zero_of_lt (by omega) (by omega)]; simp
  -- the disaggregated series has an observation, hence rows
  have hdne : d.rows ≠ [] := by
    intro h
    obtain ⟨o, ho⟩ : ∃ o : Nat, o < k + 1 ∧ keeps (dm.offset (k + 1)) o = true := by
      cases dm
      · exact ⟨0, by omega, rfl⟩
      · exact ⟨0, by omega, rfl⟩
      · exact ⟨(k + 1) / 2, by omega, by simp [DMethod.offset, keeps]⟩
      · exact ⟨k + 1 - 1, by omega, by simp [DMethod.offset, keeps]⟩
    have := hdget v0 (t0 * ((k + 1 : Nat) : Int) + (o : Int))
    rw [hk', (hidx t0 o ho.1).1, (hidx t0 o ho.1).2, ho.2] at this
    simp only [if_true] at this
    apply h0; rw [← this]; simp [Ser.get_eq, h, rowsGet]
  obtain ⟨a, ha, haf, han, haget⟩ := aggregate_regular_membership hi lo hp d hdf hdne m false
  refine ⟨d, a, hd, ha, haf, by rw [han, hdn], ?_⟩
  intro v hv T
  rw [haget v (by rw [hdn]; exact hv) T]
  have : (members hi lo T).map (d.get v)
      = (List.range (k + 1)).map fun i => if keeps (dm.offset (k + 1)) i then s.get v T else none := by
    unfold members
    rw [hk', List.map_map]
    apply List.map_congr_left
    intro i hi'
    have hi'' : i < k + 1 := List.mem_range.1 hi'
    simp only [Function.comp]
    rw [hdget, hk', (hidx T i hi'').1, (hidx T i hi'').2]
  rw [this, group_roundtrip k dm m hc]


/-! ## 5. arip -/

open Matrix IrisVerif.AripMin

section Arip
variable {K : Type} [Field K] [LinearOrder K] [IsStrictOrderedRing K]
variable {qa qt : Type} [Fintype qa] [Fintype qt] [DecidableEq qa] [DecidableEq qt]

/-- **arip (repaired system).** Let `K`, `c` be the difference matrix and constant of the autoregression
(`arK`, `arC`: any `ρ`, `c`, `σ`), `Agg` any matrix of aggregation rows (any aggregation vector, one row per observed
low-frequency value `y`), `Tar` the target rows (`τ` the target values). If `(x, λ)` solves the bordered system
`[[KᵀK, Aᵀ], [A, 0]] (x, λ) = (Kᵀc, (y, τ))`, `A` = `Agg` stacked on `Tar`, then the high-frequency part `x`
satisfies every aggregation row and every target row exactly and minimises the documented criterion
`Σ_t ((x_{t+1} − ρ x_t − c)/σ_{t+1})²` among all `x'` that satisfy the same rows. -/
theorem arip_solution_is_constrained_minimiser (N : Nat) (rho const : K) (sigma : Fin (N + 1) → K)
    (Agg : Matrix qa (Fin (N + 1)) K) (Tar : Matrix qt (Fin (N + 1)) K) (y : qa → K) (tau : qt → K)
    (x : Fin (N + 1) → K) (lam : qa ⊕ qt → K)
    (hsys : Matrix.fromBlocks ((arK N rho sigma)ᵀ * arK N rho sigma) (Matrix.fromRows Agg Tar)ᵀ (Matrix.fromRows Agg Tar) 0
              *ᵥ Sum.elim x lam = Sum.elim ((arK N rho sigma)ᵀ *ᵥ arC N const sigma) (Sum.elim y tau)) :
    Agg *ᵥ x = y ∧ Tar *ᵥ x = tau ∧
    ∀ x' : Fin (N + 1) → K, Agg *ᵥ x' = y → Tar *ᵥ x' = tau →
      criterion N rho const sigma x ≤ criterion N rho const sigma x' := by
  obtain ⟨hstat, hfeas⟩ := bordered_split _ _ _ _ _ _ hsys
  have hsplit : ∀ z : Fin (N + 1) → K, Matrix.fromRows Agg Tar *ᵥ z = Sum.elim y tau ↔ (Agg *ᵥ z = y ∧ Tar *ᵥ z = tau) := by
    intro z
    rw [Matrix.fromRows_mulVec]
    constructor
    · intro h
      exact ⟨by simpa using congrArg (fun f => f ∘ Sum.inl) h, by simpa using congrArg (fun f => f ∘ Sum.inr) h⟩
    · rintro ⟨h1, h2⟩; rw [h1, h2]
  obtain ⟨h1, h2⟩ := (hsplit x).1 hfeas
  refine ⟨h1, h2, ?_⟩
  intro x' h1' h2'
  rw [criterion_eq, criterion_eq]
  exact constrained_ls_min _ _ _ _ x _ lam rfl hstat hfeas x' ((hsplit x').2 ⟨h1', h2'⟩)

/-- **arip (code as it stands, aggregation "sum" or "mean").** The unrepaired code uses 0/1 membership columns `M` for the
aggregation multipliers. When the aggregation rows are a non-zero multiple of the transposed membership columns
(`Agg = a • Mᵀ`: `a = 1` for "sum", `a = 1/n` for "mean") the conclusion is the same. -/
theorem arip_membership_columns_sum_mean (N : Nat) (rho const : K) (sigma : Fin (N + 1) → K)
    (M : Matrix (Fin (N + 1)) qa K) (a : K) (ha : a ≠ 0)
    (Tar : Matrix qt (Fin (N + 1)) K) (y : qa → K) (tau : qt → K)
    (x : Fin (N + 1) → K) (l1 : qa → K) (l2 : qt → K)
    (hstat : ((arK N rho sigma)ᵀ * arK N rho sigma) *ᵥ x + (M *ᵥ l1 + Tarᵀ *ᵥ l2) = (arK N rho sigma)ᵀ *ᵥ arC N const sigma)
    (hagg : (a • Mᵀ) *ᵥ x = y) (htar : Tar *ᵥ x = tau) :
    ∀ x' : Fin (N + 1) → K, (a • Mᵀ) *ᵥ x' = y → Tar *ᵥ x' = tau →
      criterion N rho const sigma x ≤ criterion N rho const sigma x' := by
  intro x' h1' h2'
  rw [criterion_eq, criterion_eq]
  have hrow : M *ᵥ l1 + Tarᵀ *ᵥ l2 = (Matrix.fromRows (a • Mᵀ) Tar)ᵀ *ᵥ Sum.elim (a⁻¹ • l1) l2 := by
    rw [Matrix.transpose_fromRows, Matrix.fromCols_mulVec_sumElim]
    congr 1
    rw [Matrix.transpose_smul, Matrix.transpose_transpose, Matrix.smul_mulVec, Matrix.mulVec_smul, smul_smul,
      mul_inv_cancel₀ ha, one_smul]
  refine constrained_ls_min _ _ (Matrix.fromRows (a • Mᵀ) Tar) (Sum.elim y tau) x _ _ hrow hstat ?_ x' ?_
  · rw [Matrix.fromRows_mulVec, hagg, htar]
  · rw [Matrix.fromRows_mulVec, h1', h2']

end Arip

/-! ### Defect C12-b: with 0/1 membership columns and aggregation "first" the solution is not the minimiser -/

/-- two yearly values `0, 6`, two periods per year, aggregation "first" (`x₀ = 0`, `x₂ = 6`), `ρ = 1`, `c = 0`, `σ = 1`:
`x = (0, 2, 6, 8)` with multipliers `(2, -2)` solves the system the unrepaired code builds (membership columns
`(1,1,0,0)`, `(0,0,1,1)`), yet `x' = (0, 3, 6, 6)` meets the same constraints with a strictly smaller criterion
(18 < 24). So the bordered system of the unrepaired code does not characterise the constrained minimiser. -/
theorem arip_membership_columns_first_not_minimiser :
    let Km := arK 3 (1 : ℚ) (fun _ => 1)
    let Agg : Matrix (Fin 2) (Fin 4) ℚ := !![1, 0, 0, 0; 0, 0, 1, 0]
    let M : Matrix (Fin 4) (Fin 2) ℚ := !![1, 0; 1, 0; 0, 1; 0, 1]
    let x : Fin 4 → ℚ := ![0, 2, 6, 8]
    let x' : Fin 4 → ℚ := ![0, 3, 6, 6]
    (Kmᵀ * Km) *ᵥ x + M *ᵥ ![2, -2] = Kmᵀ *ᵥ arC 3 (0 : ℚ) (fun _ => 1) ∧
    Agg *ᵥ x = ![0, 6] ∧ Agg *ᵥ x' = ![0, 6] ∧
    criterion 3 (1 : ℚ) 0 (fun _ => 1) x' < criterion 3 (1 : ℚ) 0 (fun _ => 1) x := by
  refine ⟨?_, ?_, ?_, ?_⟩
  · decide +kernel
  · decide +kernel
  · decide +kernel
  · decide +kernel


/-! ## 6. Finding C12-a (DAILY targets) and non-vacuity -/

/-- **Finding C12-a.** Disaggregation to DAILY repeats every value `365 // f` times (30 days per month) instead of the
calendar length of the period: monthly `1, 2, 3` from January 2020 disaggregated `flat` puts February's value `2` on
2020-01-31 (ordinal 737455), a day that `refrequent` sends to January (monthly serial 24240). The placement theorem
therefore does not extend to DAILY targets; the model reproduces the code here and the harness reports the site
`disaggregate-to-daily`. -/
theorem disaggregate_daily_misplaces :
    (disaggregate ⟨.M, 1, 24240, [[some 1], [some 2], [some 3]]⟩ .D .flat).map (fun r => r.get 0 737455) = .ok (some 2) ∧
    refrequent ⟨.D, 737455⟩ .M .start = .ok ⟨.M, 24240⟩ := by
  decide +kernel

-- the hypotheses of the theorems above are met by concrete non-trivial values, and the model computes
example : (Freq.M, Freq.Q) ∈ regularPairs ∧ factorOf .M .Q = 3 ∧ members .M .Q 8080 = [24240, 24241, 24242] := by decide +kernel
example : (aggregate ⟨.Q, 1, 8081, [[some 1], [some 2], [some 3], [some 4], [some 5], [some 6], [some 7]]⟩ .Y .mean false none).map
    (fun r => (r.start, r.rows)) = .ok (2021, [[some (11 / 2)]]) := by decide +kernel
example : (aggregate ⟨.Q, 1, 8081, [[none], [some 2], [some 3], [some 4]]⟩ .Y .min true none).map
    (fun r => (r.start, r.rows)) = .ok (2020, [[some 2], [some 4]]) := by decide +kernel
example : (disaggregate ⟨.Y, 1, 2020, [[some 1], [some 2]]⟩ .Q .middle).map (fun r => (r.start, r.rows))
    = .ok (8082, [[some 1], [none], [none], [none], [some 2]]) := by decide +kernel
example : ∃ v t, (⟨.Q, 1, 8081, [[some 1], [none], [some 3]]⟩ : Ser).get v t ≠ none := ⟨0, 8081, by decide +kernel⟩
example : days .M 24241 = (List.range 29).map (fun (i : Nat) => (737456 : Int) + i) := by decide +kernel
example : firstDay .M 24241 = 737456 ∧ lastDay .M 24241 = 737484 := by decide +kernel     -- February 2020 has 29 days
example : (DMethod.flat, Method.max) ∈ matchingMethods := by decide

end IrisVerif.C12
