/-
Model of the CSV grid codec of irispie (property C19):
  databoxes/_exports.py  `_ExportBlock.__iter__`, `to_csv_file`  ->  `Block.rows`, `exportGrid`
  databoxes/_imports.py  `_block_iterator`, `_ImportBlock.column_iterator`,
                         `_extract_periods_from_data_rows`, `_add_series_for_block`  ->  `scan`, `colScan`,
                         `decodeBlock`, `importGrid`
The grid is what `csv.reader` / `csv.writer` see: rows of string cells.  How a period or a number is
printed and parsed is a parameter (`Codec`): `str(Period)`, `Period.from_sdmx_string`, `repr(float)`,
`numpy.round` and `numpy.genfromtxt` are runtime facts observed by the harness, not modelled here
(an executable SDMX instance for the correspondence run is at the end of the file).

Core Lean only (no Mathlib).
-/
import IrisVerif.Model.Databox

namespace IrisVerif.Grid
open IrisVerif.Dates (Err R)
open IrisVerif.Databox

/-- the order of `_DEFAULT_FREQUENCY_SPAN` = the order of the blocks in the file (no WEEKLY entry) -/
def blockOrder : List BFreq := [.Y, .H, .Q, .M, .D, .I, .U]

/-- `_get_frequency_mark`: `"__" + frequency.name.lower() + "__"` -/
def mark : BFreq → String
  | .Y => "__yearly__" | .H => "__halfyearly__" | .Q => "__quarterly__" | .M => "__monthly__"
  | .W => "__weekly__" | .D => "__daily__" | .I => "__integer__" | .U => "__unknown__"

/-- `_is_end`: `cell.startswith("__")` -/
def isEnd (c : String) : Bool :=
  match c.toList with
  | '_' :: '_' :: _ => true
  | _ => false

/-- `_is_start` and `Frequency.from_letter`: the character after the leading `__`, upper-cased, is the first
letter of a `Frequency` member (ASCII letters only in the model) -/
def startFreq (c : String) : Option BFreq :=
  match c.toList with
  | '_' :: '_' :: ch :: _ =>
    match ch.toUpper with
    | 'I' => some .I | 'Y' => some .Y | 'H' => some .H | 'Q' => some .Q | 'M' => some .M
    | 'W' => some .W | 'D' => some .D | 'U' => some .U
    | _ => none
  | _ => none

/-- printing and parsing of cells: runtime facts of CPython / numpy / dates.py, abstracted -/
structure Codec (V : Type) where
  /-- `str(period)` (the default `date_formatter`) -/
  fmtDate : BFreq → Int → String
  /-- `Period.from_sdmx_string(cell, frequency=f).serial`; `none` when it raises -/
  parseDate : BFreq → String → Option Int
  /-- `repr(round(x))`, NaN as `nan_str` (default "") -/
  fmtCell : Option V → String
  /-- `numpy.genfromtxt` on one cell: empty or unparsable -> NaN -/
  parseCell : String → Option V

section Export
variable {V : Type}

def seriesOf (db : Box (Ser V) V) : List (String × Ser V) :=
  db.filterMap (fun p => match p.2 with | .ser s => some (p.1, s) | _ => none)

/-- `get_series_names_by_frequency(f)` (with the series) -/
def withFreq (ss : List (String × Ser V)) (f : BFreq) : List (String × Ser V) :=
  ss.filter (fun p => p.2.freq = f)

def minStart : List (String × Ser V) → Int
  | [] => 0
  | p :: ps => if ps.isEmpty then p.2.start else min p.2.start (minStart ps)

def maxStop : List (String × Ser V) → Int
  | [] => 0
  | p :: ps => if ps.isEmpty then p.2.stop else max p.2.stop (maxStop ps)

def periodsOf (lo hi : Int) : List Int := (List.range (hi - lo + 1).toNat).map (fun (i : Nat) => lo + (i : Int))

/-- `get_span_by_frequency(f)` expanded: UNKNOWN has no periods -/
def blockPeriods (f : BFreq) (m : List (String × Ser V)) : List Int :=
  if f = .U then [] else periodsOf (minStart m) (maxStop m)

structure Block (V : Type) where
  freq : BFreq
  periods : List Int
  members : List (String × Ser V)

/-- `(x, ) + ("*", )*(num_data_columns - 1)` -/
def starCont (x : String) (nv : Nat) : List String := x :: List.replicate (nv - 1) "*"

def Block.width (b : Block V) : Nat := 1 + (b.members.map (fun p => p.2.nv)).sum + 1

def Block.nameRow (b : Block V) : List String :=
  mark b.freq :: (b.members.flatMap (fun p => starCont p.1 p.2.nv) ++ [""])

def Block.descRow (b : Block V) : List String :=
  "" :: (b.members.flatMap (fun p => starCont p.2.desc p.2.nv) ++ [""])

def Block.dataRow (c : Codec V) (b : Block V) (t : Int) : List String :=
  c.fmtDate b.freq t :: (b.members.flatMap (fun p => (p.2.rowAt t).map c.fmtCell) ++ [""])

def Block.emptyRow (b : Block V) : List String := List.replicate b.width ""

/-- the rows `_ExportBlock.__iter__` yields -/
def Block.rows (c : Codec V) (descRow : Bool) (total : Nat) (b : Block V) : List (List String) :=
  b.nameRow :: ((if descRow then [b.descRow] else []) ++ b.periods.map (b.dataRow c)
    ++ List.replicate (total - b.periods.length) b.emptyRow)

def maxLen : List Nat → Nat
  | [] => 0
  | n :: ns => max n (maxLen ns)

/-- the resolved `frequency_span` dictionary of `to_csv_file`, in key order: `none` stands for `...` (the whole
range of that frequency), `some periods` for an explicit selection of periods (any order, step or repetition) -/
abbrev FSpan := List (BFreq × Option (List Int))

/-- `_DEFAULT_FREQUENCY_SPAN` -/
def defaultFSpan : FSpan := blockOrder.map (fun f => (f, none))

/-- the `span=` argument: `{span[0].frequency: span}`; an empty span is an IndexError -/
def spanArg (f : BFreq) (periods : List Int) : R FSpan :=
  if periods.isEmpty then throw .badInput else pure [(f, some periods)]

/-- one block per entry of the frequency-span dictionary whose frequency has series, in key order -/
def exportBlocksWith (fs : FSpan) (ss : List (String × Ser V)) : List (Block V) :=
  fs.filterMap (fun e =>
    let m := withFreq ss e.1
    if m.isEmpty then none else some ⟨e.1, e.2.getD (blockPeriods e.1 m), m⟩)

/-- `_get_total_num_data_rows`: the longest span of the dictionary -- explicit spans count even without series -/
def totalRowsWith (fs : FSpan) (ss : List (String × Ser V)) : Nat :=
  maxLen (fs.map (fun e => match e.2 with
    | some ps => ps.length
    | none => let m := withFreq ss e.1; if m.isEmpty then 0 else (blockPeriods e.1 m).length))

/-- one block per frequency that has series, in `blockOrder` -/
def exportBlocks (ss : List (String × Ser V)) : List (Block V) := exportBlocksWith defaultFSpan ss

/-- `zip(*blocks)` + `chain.from_iterable(row)` for blocks of `R` rows each -/
def zipRowsN (R : Nat) : List (List (List String)) → List (List String)
  | [] => List.replicate R []
  | b :: bs => List.zipWith (· ++ ·) b (zipRowsN R bs)

def headerRows (descRow : Bool) : Nat := if descRow then 2 else 1

/-- the grid `to_csv_file(frequency_span=…)` hands to `csv.writer`, row by row (no block: nothing is written) -/
def exportGridWith (c : Codec V) (descRow : Bool) (fs : FSpan) (db : Box (Ser V) V) : List (List String) :=
  let blocks := exportBlocksWith fs (seriesOf db)
  let total := totalRowsWith fs (seriesOf db)
  if blocks.isEmpty then []
  else zipRowsN (headerRows descRow + total) (blocks.map (Block.rows c descRow total))

/-- the default export: every frequency over its whole range -/
def exportGrid (c : Codec V) (descRow : Bool) (db : Box (Ser V) V) : List (List String) :=
  exportGridWith c descRow defaultFSpan db

end Export

/-! ### Import -/

structure RawBlock where
  freq : BFreq
  dateCol : Nat
  /-- number of columns after the date column, up to (excluding) the next cell starting with `__` -/
  num : Nat
  deriving Repr, DecidableEq

/-- `_block_iterator`'s loop over the name row; `st` = (frequency, date column) of the open block -/
def scan (st : Option (BFreq × Nat)) (col : Nat) : List String → List RawBlock
  | [] => []
  | c :: rest =>
    let out : List RawBlock := match st with
      | some (f, dc) => if isEnd c then [⟨f, dc, col - (dc + 1)⟩] else []
      | none => []
    let st1 : Option (BFreq × Nat) := match st with
      | some s => if isEnd c then none else some s
      | none => none
    let st2 : Option (BFreq × Nat) := match st1 with
      | some s => some s
      | none => (startFreq c).map (fun f => (f, col))
    out ++ scan st2 (col + 1) rest

/-- `name_row += ["__"]`, then the loop -/
def blockIterator (nameRow : List String) : List RawBlock := scan none 0 (nameRow ++ ["__"])

structure ColSpec where
  first : Nat
  count : Nat
  name : String
  desc : String
  deriving Repr, DecidableEq

/-- `_ImportBlock.column_iterator`: a non-empty, non-`*` name opens a series, `*` cells extend it -/
def colScan (st : Option ColSpec) (i : Nat) : List (String × String) → List ColSpec
  | [] => []
  | (n, d) :: rest =>
    let out : List ColSpec := match st with
      | some cs => if n ≠ "*" then [cs] else []
      | none => []
    let st1 : Option ColSpec := match st with
      | some cs => if n = "*" then some { cs with count := cs.count + 1 } else none
      | none => none
    let st2 : Option ColSpec := match st1 with
      | some s => some s
      | none => if n ≠ "" ∧ n ≠ "*" then some ⟨i, 1, n, d⟩ else none
    out ++ colScan st2 (i + 1) rest

def columnIterator (names descs : List String) : List ColSpec :=
  colScan none 0 ((names ++ [""]).zip (descs ++ [""]))

section Import
variable {V : Type}

/-- a fresh `Series(num_variants=nv, description=desc).set_data(periods, rows)`: rows are placed at their
periods (later duplicates win), gaps are NaN, then `trim()` -/
def setData (f : BFreq) (nv : Nat) (desc : String) (periods : List Int) (rows : List (List (Option V))) : Ser V :=
  match periods with
  | [] => Ser.empty nv desc
  | p0 :: ps =>
    let lo := ps.foldl min p0
    let hi := ps.foldl max p0
    let blank : List (List (Option V)) := List.replicate (hi - lo + 1).toNat (nanRow nv)
    let filled := (periods.zip rows).foldl (fun acc pr => acc.set (pr.1 - lo).toNat pr.2) blank
    Ser.trim ⟨f, lo, nv, filled, desc⟩

/-- the cells of a row that belong to a block: `row[column_start : column_start + num_columns]` -/
def sliceRow (b : RawBlock) (row : List String) : List String := (row.drop (b.dateCol + 1)).take b.num

def dateCell (b : RawBlock) (row : List String) : String := row.getD b.dateCol ""

/-- the parsed period of a date cell, or the exception of `Period.from_sdmx_string` -/
def parsePeriod (c : Codec V) (f : BFreq) (s : String) : R Int :=
  match c.parseDate f s with
  | some p => pure p
  | none => throw .badInput

/-- `_extract_periods_from_data_rows` (default `start_period_only=False`), `_read_array_for_block`,
`_add_series_for_block` for one block, `r0` being the first data row -/
def decodeBody (c : Codec V) (nameRow descRow : List String) (dataRows : List (List String)) (b : RawBlock)
    (r0 : List String) : R (List (String × Ser V)) :=
  -- `start_date = period_from_string(data_rows[0][column], ...)` is evaluated (and may raise) although unused;
  -- `UnknownPeriod.from_sdmx_string` returns None for every string
  if b.freq ≠ .U ∧ c.parseDate b.freq (dateCell b r0) = none then throw .badInput
  else
    let dated := dataRows.filter (fun r => dateCell b r ≠ "")
    let cols := columnIterator (sliceRow b nameRow) (sliceRow b descRow)
    let arr : List (List (Option V)) := dated.map (fun r => (sliceRow b r).map c.parseCell)
    if b.freq = .U then
      -- periods would be `None` objects: only the case without dated rows is modelled
      if dated.isEmpty then pure (cols.map (fun cs => (cs.name, Ser.empty cs.count cs.desc)))
      else throw .badInput
    else do
      let periods ← dated.mapM (fun r => parsePeriod c b.freq (dateCell b r))
      pure (cols.map (fun cs =>
        (cs.name, setData b.freq cs.count cs.desc periods (arr.map (fun r => (r.drop cs.first).take cs.count)))))

def decodeBlock (c : Codec V) (nameRow descRow : List String) (dataRows : List (List String)) (b : RawBlock) :
    R (List (String × Ser V)) :=
  match dataRows with
  | [] => throw .badInput                                  -- `data_rows[0]`: IndexError
  | r0 :: _ => decodeBody c nameRow descRow dataRows b r0

/-- `Databox.from_csv_file` on the parsed grid.  Ragged grids are rejected up front (the code rejects them in
`genfromtxt` or with an IndexError; header rows shorter than data rows are not modelled). -/
def importGrid (c : Codec V) (descRow : Bool) (grid : List (List String)) : R (List (String × Ser V)) :=
  match grid with
  | [] => pure []
  | nameRow :: rest =>
    if !(rest.all (fun r => r.length == nameRow.length)) then throw .badInput
    else
      let go (descR : List String) (dataRows : List (List String)) : R (List (String × Ser V)) := do
        let parts ← (blockIterator nameRow).mapM (decodeBlock c nameRow descR dataRows)
        pure (dictOfList parts.flatten)
      if descRow then
        match rest with
        | [] => throw .badInput                            -- `header_rows[1]`: IndexError
        | d :: dataRows => go d dataRows
      else go (List.replicate nameRow.length "") rest

end Import

/-! ### An executable codec for the correspondence run: SDMX period strings, numeric cells as opaque tokens -/

def padZero (w : Nat) (n : Int) : String :=
  let s := toString n.toNat
  String.ofList (List.replicate (w - s.length) '0') ++ s

def toDatesFreq : BFreq → Option Dates.Freq
  | .Y => some .Y | .H => some .H | .Q => some .Q | .M => some .M | .D => some .D | .I => some .I
  | _ => none

/-- `Period.to_sdmx_string()` for years 0..9999 -/
def fmtSdmx (f : BFreq) (n : Int) : String :=
  match f with
  | .I => "(" ++ toString n ++ ")"
  | .D => let (y, m, d) := Dates.ord2ymd n; padZero 4 y ++ "-" ++ padZero 2 m ++ "-" ++ padZero 2 d
  | .Y | .H | .Q | .M =>
    match toDatesFreq f with
    | none => ""
    | some g =>
      match Dates.toYearSegment ⟨g, n⟩ with
      | .error _ => ""
      | .ok (y, s) =>
        match f with
        | .Y => padZero 4 y
        | .H => padZero 4 y ++ "-H" ++ toString s
        | .Q => padZero 4 y ++ "-Q" ++ toString s
        | _ => padZero 4 y ++ "-" ++ padZero 2 s
  | _ => ""

def natOf? (s : String) : Option Int := if s.isEmpty then none else s.toNat?.map (fun n => (n : Int))

/-- `<PeriodClass>.from_sdmx_string` on canonical strings (Python's `int()` leniency is not modelled) -/
def parseSdmx (f : BFreq) (s : String) : Option Int :=
  match f with
  | .I =>
    match s.toList with
    | '(' :: rest => (String.ofList (rest.takeWhile (· ≠ ')'))).toInt?
    | _ => s.toInt?
  | .Y => natOf? s
  | .H => match s.splitOn "-H" with
    | [y, k] => do let y ← natOf? y; let k ← natOf? k; pure (Dates.fromYearSegment .H y k).serial
    | _ => none
  | .Q => match s.splitOn "-Q" with
    | [y, k] => do let y ← natOf? y; let k ← natOf? k; pure (Dates.fromYearSegment .Q y k).serial
    | _ => none
  | .M => match s.splitOn "-" with
    | [y, k] => do let y ← natOf? y; let k ← natOf? k; pure (Dates.fromYearSegment .M y k).serial
    | _ => none
  | .D => match s.splitOn "-" with
    | [y, m, d] => do
      let y ← natOf? y; let m ← natOf? m; let d ← natOf? d
      match Dates.fromYmd .D y m d with
      | .ok p => pure p.serial
      | .error _ => none
    | _ => none
  | _ => none

/-- numeric cells as non-empty opaque tokens (the harness sends the exact value of the rounded float) -/
abbrev Tok := { s : String // s ≠ "" }

def sdmxCodec : Codec Tok where
  fmtDate := fmtSdmx
  parseDate := parseSdmx
  fmtCell := fun x => match x with | none => "" | some t => t.val
  parseCell := fun s => if h : s = "" then none else some ⟨s, h⟩

end IrisVerif.Grid
