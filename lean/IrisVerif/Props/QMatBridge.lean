/-
Worked clients of the `QMat → Matrix` bridge (`Lemmas/QMatRefines.lean`): property theorems that were stated over
Mathlib matrices with an *assumed* algebraic hypothesis are carried down to the executable models, the hypothesis
being *derived* from the model's own exact re-check.

Part A (C18, reduced-form VAR): `RedVar.estimate … = .ok e` ⇒ the Mathlib views of `e.lhsEst`, `e.rhsEst`, `e.beta`
satisfy `LeastSquares.NormalEq` -- the hypothesis of every theorem in `Props/C18.lean` Part 1 -- hence the model's
coefficient matrix minimises the sum of squared residuals over exactly the fitted columns (+ dummy observations),
and the residuals the model reports on the fitted columns are the residuals of that minimiser.

What stays unbridged is said at the end of each part and in `notes/QMatRefines.md`.
-/
import IrisVerif.Lemmas.QMatRefines
import IrisVerif.Props.C18
import Mathlib.Algebra.Order.Field.Rat

open Matrix

namespace IrisVerif.QMatBridge

open IrisVerif IrisVerif.QMat IrisVerif.RedVar IrisVerif.LeastSquares

/-! ## Part A: C18 -- the executable VAR estimate satisfies the normal equations, hence is the least-squares minimiser -/

/-- both dummy blocks of a prior have `Prior.numObs` columns -/
theorem prior_cols (s : Spec) (pr : Prior) : (pr.lhs s).cols = (pr.rhs s).cols := by
  cases pr <;> rfl

theorem prior_lhs_rows (s : Spec) (pr : Prior) : (pr.lhs s).rows = s.n := by cases pr <;> rfl
theorem prior_rhs_rows (s : Spec) (pr : Prior) : (pr.rhs s).rows = s.numRhs := by cases pr <;> rfl

theorem foldl_hstack_rows (f : Prior → QMat) (ps : List Prior) (acc : QMat) :
    (ps.foldl (fun acc pr => QMat.hstack acc (f pr)) acc).rows = acc.rows := by
  induction ps generalizing acc with
  | nil => rfl
  | cons p ps ih => rw [List.foldl_cons, ih]; rfl

theorem foldl_hstack_cols (f g : Prior → QMat) (hfg : ∀ pr, (f pr).cols = (g pr).cols) (ps : List Prior)
    (acc acc' : QMat) (h : acc.cols = acc'.cols) :
    (ps.foldl (fun acc pr => QMat.hstack acc (f pr)) acc).cols
      = (ps.foldl (fun acc pr => QMat.hstack acc (g pr)) acc').cols := by
  induction ps generalizing acc acc' with
  | nil => exact h
  | cons p ps ih =>
    rw [List.foldl_cons, List.foldl_cons]
    apply ih
    rw [hstack_cols, hstack_cols, h, hfg]

theorem dummy_cols (s : Spec) (ps : List Prior) : (dummyLhs s ps).cols = (dummyRhs s ps).cols :=
  foldl_hstack_cols _ _ (prior_cols s) ps _ _ rfl

theorem lhsFull_rows (s : Spec) (Y : OMat) (cols : List Nat) (pr : Option (List Prior)) :
    (lhsFull s Y cols pr).rows = s.n := by
  cases pr <;> rfl

theorem rhsFull_rows (s : Spec) (Y X : OMat) (cols : List Nat) (pr : Option (List Prior)) :
    (rhsFull s Y X cols pr).rows = s.numRhs := by
  cases pr <;> rfl

/-- the two estimation matrices have the same number of columns (fitted periods + dummy observations) -/
theorem full_cols (s : Spec) (Y X : OMat) (cols : List Nat) (pr : Option (List Prior)) :
    (rhsFull s Y X cols pr).cols = (lhsFull s Y cols pr).cols := by
  cases pr with
  | none => rfl
  | some ps =>
    show (rhsData s Y X cols).cols + (dummyRhs s ps).cols = (lhsData s Y cols).cols + (dummyLhs s ps).cols
    rw [dummy_cols]; rfl

/-- what a successful `estimate` returns (everything the bridge needs, read off the definition) -/
theorem estimate_ok (s : Spec) (dof : Bool) (Y X : OMat) (pr : Option (List Prior)) (e : Estimate)
    (h : estimate s dof Y X pr = .ok e) :
    e.fittedCols = fitted s Y X ∧
    e.lhsEst = lhsFull s Y (fitted s Y X) pr ∧
    e.rhsEst = rhsFull s Y X (fitted s Y X) pr ∧
    e.u = OMat.ofFn s.n (numBase s Y) (residual s e.beta Y X) ∧
    ∃ x : QMat, QMat.solveChecked (normalMx e.rhsEst) (normalMy e.lhsEst e.rhsEst) = some x ∧
      e.beta = x.transpose := by
  unfold estimate at h
  simp only at h
  split at h
  · cases h
  · split at h
    · cases h
    split at h
    · cases h
    · rename_i beta hols
      generalize ((fitted s Y X).length : Int) - (if dof = true then (dofCount s : Int) else 0) = denom at h
      split at h
      · cases h
      · injection h with h
        subst h
        refine ⟨rfl, rfl, rfl, rfl, ?_⟩
        simp only
        unfold ols at hols
        cases hs : QMat.solveChecked (normalMx (rhsFull s Y X (fitted s Y X) pr))
            (normalMy (lhsFull s Y (fitted s Y X) pr) (rhsFull s Y X (fitted s Y X) pr)) with
        | none => simp [hs] at hols
        | some x =>
          simp only [hs, Option.map_some, Option.some.injEq] at hols
          exact ⟨x, rfl, hols.symm⟩

/-- dimensions of a successful estimate: `lhsEst` is `n × T`, `rhsEst` is `numRhs × T`, `beta` is `n × numRhs` -/
theorem estimate_dims (s : Spec) (dof : Bool) (Y X : OMat) (pr : Option (List Prior)) (e : Estimate)
    (h : estimate s dof Y X pr = .ok e) :
    e.lhsEst.rows = s.n ∧ e.rhsEst.rows = s.numRhs ∧ e.rhsEst.cols = e.lhsEst.cols ∧
      e.beta.rows = s.n ∧ e.beta.cols = s.numRhs ∧ e.beta.wellShaped = true := by
  obtain ⟨_, hl, hr, _, x, hx, hb⟩ := estimate_ok s dof Y X pr e h
  have hlr : e.lhsEst.rows = s.n := by rw [hl]; exact lhsFull_rows _ _ _ _
  have hrr : e.rhsEst.rows = s.numRhs := by rw [hr]; exact rhsFull_rows _ _ _ _ _
  obtain ⟨_, _, h3, h4, _, _⟩ := solveChecked_sound _ _ x hx
  refine ⟨hlr, hrr, by rw [hl, hr]; exact full_cols _ _ _ _ _, ?_, ?_, ?_⟩
  · rw [hb, transpose_rows, h4]; exact hlr
  · rw [hb, transpose_cols, h3]; exact hrr
  · rw [hb]; exact wellShaped_transpose x

/-- **Bridge (C18).**  A successful run of the executable estimator yields matrices whose Mathlib views satisfy the
normal equations `(X Xᵀ) βᵀ = X Yᵀ` -- the hypothesis `NormalEq` of `Props/C18.lean` Part 1 -- *derived* from the
model's exact re-check (`QMat.solveChecked`), not assumed. -/
theorem estimate_normalEq (s : Spec) (dof : Bool) (Y X : OMat) (pr : Option (List Prior)) (e : Estimate)
    (h : estimate s dof Y X pr = .ok e) :
    NormalEq (e.lhsEst.toMat s.n e.lhsEst.cols) (e.rhsEst.toMat s.numRhs e.lhsEst.cols)
      (e.beta.toMat s.n s.numRhs) := by
  obtain ⟨hlr, hrr, hc, _, _, _⟩ := estimate_dims s dof Y X pr e h
  obtain ⟨_, _, _, _, x, hx, hb⟩ := estimate_ok s dof Y X pr e h
  obtain ⟨_, _, h3, h4, _, h6⟩ := solveChecked_sound _ _ x hx
  -- the dimensions of the normal-equation matrices
  have ha : (normalMx e.rhsEst).rows = s.numRhs := hrr
  have hbc : (normalMy e.lhsEst e.rhsEst).cols = s.n := hlr
  rw [ha, hbc] at h6
  rw [ha] at h3
  rw [hbc] at h4
  -- `normalMx = R Rᵀ`, `normalMy = R Lᵀ`, `beta = xᵀ`
  have hMx : (normalMx e.rhsEst).toMat s.numRhs s.numRhs
      = e.rhsEst.toMat s.numRhs e.lhsEst.cols * (e.rhsEst.toMat s.numRhs e.lhsEst.cols)ᵀ := by
    unfold normalMx
    rw [toMat_mul _ _ s.numRhs e.lhsEst.cols s.numRhs hrr hc hrr, toMat_transpose _ _ _ hrr hc]
  have hMy : (normalMy e.lhsEst e.rhsEst).toMat s.numRhs s.n
      = e.rhsEst.toMat s.numRhs e.lhsEst.cols * (e.lhsEst.toMat s.n e.lhsEst.cols)ᵀ := by
    unfold normalMy
    rw [toMat_mul _ _ s.numRhs e.lhsEst.cols s.n hrr hc hlr, toMat_transpose _ _ _ hlr rfl]
  have hβ : (e.beta.toMat s.n s.numRhs)ᵀ = x.toMat s.numRhs s.n := by
    rw [hb, toMat_transpose x _ _ h3 h4, Matrix.transpose_transpose]
  unfold NormalEq
  rw [hβ, ← hMx, ← hMy]
  exact h6

/-- **C18 carried down to the executable model**: the coefficient matrix returned by `RedVar.estimate` minimises the
sum of squared residuals over exactly the columns that entered the estimation, against *every* competing coefficient
matrix -- for all specifications, data sets, missing-value patterns and priors on which the model returns `ok`. -/
theorem estimate_minimises (s : Spec) (dof : Bool) (Y X : OMat) (pr : Option (List Prior)) (e : Estimate)
    (h : estimate s dof Y X pr = .ok e) (β' : Matrix (Fin s.n) (Fin s.numRhs) ℚ) :
    ssr (e.lhsEst.toMat s.n e.lhsEst.cols) (e.rhsEst.toMat s.numRhs e.lhsEst.cols) (e.beta.toMat s.n s.numRhs)
      ≤ ssr (e.lhsEst.toMat s.n e.lhsEst.cols) (e.rhsEst.toMat s.numRhs e.lhsEst.cols) β' :=
  C18.normalEq_minimises _ _ _ (estimate_normalEq s dof Y X pr e h) β'

/-- … equation by equation -/
theorem estimate_minimises_row (s : Spec) (dof : Bool) (Y X : OMat) (pr : Option (List Prior)) (e : Estimate)
    (h : estimate s dof Y X pr = .ok e) (β' : Matrix (Fin s.n) (Fin s.numRhs) ℚ) (i : Fin s.n) :
    let L := e.lhsEst.toMat s.n e.lhsEst.cols
    let R := e.rhsEst.toMat s.numRhs e.lhsEst.cols
    let β := e.beta.toMat s.n s.numRhs
    ∑ t, (L - β * R) i t * (L - β * R) i t ≤ ∑ t, (L - β' * R) i t * (L - β' * R) i t :=
  C18.normalEq_minimises_row _ _ _ (estimate_normalEq s dof Y X pr e h) β' i

/-- … and, when the moment matrix of the regressors is non-singular, the estimate is the closed form
`((X Xᵀ)⁻¹ X Yᵀ)ᵀ`, the unique solution -/
theorem estimate_eq_closed_form (s : Spec) (dof : Bool) (Y X : OMat) (pr : Option (List Prior)) (e : Estimate)
    (h : estimate s dof Y X pr = .ok e)
    (hdet : IsUnit ((e.rhsEst.toMat s.numRhs e.lhsEst.cols) * (e.rhsEst.toMat s.numRhs e.lhsEst.cols)ᵀ).det) :
    let L := e.lhsEst.toMat s.n e.lhsEst.cols
    let R := e.rhsEst.toMat s.numRhs e.lhsEst.cols
    e.beta.toMat s.n s.numRhs = ((R * Rᵀ)⁻¹ * (R * Lᵀ))ᵀ :=
  C18.normalEq_unique _ _ _ _ hdet (estimate_normalEq s dof Y X pr e h) (C18.normalEq_solution _ _ hdet)

/-- **noise-free data return the generating coefficients, on the executable model**: if the left-hand data of the
fitted columns are exactly `β₀ ·` regressors, the model returns `β₀` -/
theorem estimate_noise_free (s : Spec) (dof : Bool) (Y X : OMat) (pr : Option (List Prior)) (e : Estimate)
    (h : estimate s dof Y X pr = .ok e) (β₀ : Matrix (Fin s.n) (Fin s.numRhs) ℚ)
    (hdet : IsUnit ((e.rhsEst.toMat s.numRhs e.lhsEst.cols) * (e.rhsEst.toMat s.numRhs e.lhsEst.cols)ᵀ).det)
    (hgen : e.lhsEst.toMat s.n e.lhsEst.cols = β₀ * e.rhsEst.toMat s.numRhs e.lhsEst.cols) :
    e.beta.toMat s.n s.numRhs = β₀ := by
  have hne := estimate_normalEq s dof Y X pr e h
  rw [hgen] at hne
  exact C18.noise_free_recovery _ β₀ _ hdet hne

/-! ### the matrices of the bridge are the data: entries of `lhsEst`/`rhsEst`, and the reported residuals -/

theorem getD_mem_fitted (s : Spec) (Y X : OMat) (k : Nat) (hk : k < (fitted s Y X).length) :
    (fitted s Y X).getD k 0 ∈ fitted s Y X := by
  have : (fitted s Y X).getD k 0 = (fitted s Y X)[k] := by simp [List.getD, hk]
  rw [this]
  exact List.getElem_mem hk

theorem some_getD_of_isSome {α : Type} (o : Option α) (d : α) (h : o.isSome = true) : some (o.getD d) = o := by
  cases o with
  | none => cases h
  | some v => rfl

/-- the first `#fitted` columns of `lhsEst` hold the left-hand data of the fitted periods, in order … -/
theorem lhsEst_entry (s : Spec) (dof : Bool) (Y X : OMat) (pr : Option (List Prior)) (e : Estimate)
    (h : estimate s dof Y X pr = .ok e) (i k : Nat) (hi : i < s.n) (hk : k < (fitted s Y X).length) :
    some (e.lhsEst.get i k) = y0 s Y i ((fitted s Y X).getD k 0) := by
  obtain ⟨_, hl, _, _, _⟩ := estimate_ok s dof Y X pr e h
  have hd : (lhsData s Y (fitted s Y X)).get i k = (y0 s Y i ((fitted s Y X).getD k 0)).getD 0 := by
    unfold lhsData; rw [get_ofFn_of_lt _ _ _ _ _ hi hk]
  have hfull : e.lhsEst.get i k = (lhsData s Y (fitted s Y X)).get i k := by
    rw [hl]
    cases pr with
    | none => rfl
    | some ps =>
      show (QMat.hstack (lhsData s Y (fitted s Y X)) (dummyLhs s ps)).get i k = _
      rw [get_hstack, if_pos ⟨hi, Nat.lt_add_right _ hk⟩]
      exact if_pos hk
  rw [hfull, hd]
  exact some_getD_of_isSome _ _ ((C18.fitted_complete s Y X _ (getD_mem_fitted s Y X k hk)).1 i hi)

/-- … and those of `rhsEst` the regressors `[y1; x; 1]` of the fitted periods -/
theorem rhsEst_entry (s : Spec) (dof : Bool) (Y X : OMat) (pr : Option (List Prior)) (e : Estimate)
    (h : estimate s dof Y X pr = .ok e) (r k : Nat) (hr : r < s.numRhs) (hk : k < (fitted s Y X).length) :
    some (e.rhsEst.get r k) = reg s Y X r ((fitted s Y X).getD k 0) := by
  obtain ⟨_, _, hrE, _, _⟩ := estimate_ok s dof Y X pr e h
  have hd : (rhsData s Y X (fitted s Y X)).get r k = (reg s Y X r ((fitted s Y X).getD k 0)).getD 0 := by
    unfold rhsData; rw [get_ofFn_of_lt _ _ _ _ _ hr hk]
  have hfull : e.rhsEst.get r k = (rhsData s Y X (fitted s Y X)).get r k := by
    rw [hrE]
    cases pr with
    | none => rfl
    | some ps =>
      show (QMat.hstack (rhsData s Y X (fitted s Y X)) (dummyRhs s ps)).get r k = _
      rw [get_hstack, if_pos ⟨hr, Nat.lt_add_right _ hk⟩]
      exact if_pos hk
  rw [hfull, hd]
  exact some_getD_of_isSome _ _ ((C18.fitted_complete s Y X _ (getD_mem_fitted s Y X k hk)).2 r hr)

theorem omat_get_ofFn (r c : Nat) (f : Nat → Nat → Cell) (i j : Nat) (hi : i < r) (hj : j < c) :
    (OMat.ofFn r c f).get i j = f i j := by
  unfold OMat.get OMat.ofFn
  simp [hi, hj]

/-- the number of fitted columns is at most the number of columns of the estimation matrices -/
theorem fitted_le_cols (s : Spec) (dof : Bool) (Y X : OMat) (pr : Option (List Prior)) (e : Estimate)
    (h : estimate s dof Y X pr = .ok e) : (fitted s Y X).length ≤ e.lhsEst.cols := by
  obtain ⟨_, hl, _, _, _⟩ := estimate_ok s dof Y X pr e h
  rw [hl]
  cases pr with
  | none => exact Nat.le_refl _
  | some ps => exact Nat.le_add_right _ _

/-- **the residuals the model reports on the fitted periods are the residuals `Y - β X` of the Mathlib-level
minimiser** (so the sums of squares in `estimate_minimises` are sums of squares of the reported residuals) -/
theorem residual_fitted (s : Spec) (dof : Bool) (Y X : OMat) (pr : Option (List Prior)) (e : Estimate)
    (h : estimate s dof Y X pr = .ok e) (i : Fin s.n) (k : Fin e.lhsEst.cols) (hk : (k : Nat) < (fitted s Y X).length) :
    e.u.get i ((fitted s Y X).getD k 0)
      = some ((e.lhsEst.toMat s.n e.lhsEst.cols - e.beta.toMat s.n s.numRhs * e.rhsEst.toMat s.numRhs e.lhsEst.cols) i k) := by
  obtain ⟨_, _, _, hu, _⟩ := estimate_ok s dof Y X pr e h
  have hmem := getD_mem_fitted s Y X k hk
  have hbase : (fitted s Y X).getD k 0 < numBase s Y := ((C18.fitted_iff s Y X _).1 hmem).1
  have hfin : regsFinite s Y X ((fitted s Y X).getD k 0) = true := by
    have := ((C18.fitted_iff s Y X _).1 hmem).2
    unfold whereObs at this
    simp only [Bool.and_eq_true] at this
    exact this.2
  rw [hu, omat_get_ofFn _ _ _ _ _ i.isLt hbase]
  unfold residual
  rw [← lhsEst_entry s dof Y X pr e h i k i.isLt hk]
  simp only [hfin, if_true, Option.some.injEq, Matrix.sub_apply, Matrix.mul_apply, toMat_apply]
  congr 1
  unfold fitAt sumTo
  rw [foldl_sum, ← Fin.sum_univ_eq_sum_range (fun r => e.beta.get i r * (reg s Y X r ((fitted s Y X).getD k 0)).getD 0)]
  refine Finset.sum_congr rfl (fun r _ => ?_)
  rw [← rhsEst_entry s dof Y X pr e h r k r.isLt hk]
  rfl

/-
What is NOT bridged for C18:
* non-singularity of `X Xᵀ` (the hypothesis `hdet` of `estimate_eq_closed_form`/`estimate_noise_free`) is not derived
  from the model: `solveChecked` returning `some` proves `A X = B`, not that `A` is invertible (that would need the
  correctness of Gauss-Jordan `QMat.solve`, unproved by design);
* the converse (a non-singular system makes `estimate` return `ok`) needs the same;
* `cov`, the companion form and `mean` of the model are not yet connected to `C18.cov_residuals_spec`,
  `C18.companion_step`, `C18.mean_fixed_point` (the lemmas `toMat_smul`, `toMat_mul`, `toMat_transpose`,
  `solveChecked_sound`, `toFn_toVec` are what is needed).
-/

end IrisVerif.QMatBridge
