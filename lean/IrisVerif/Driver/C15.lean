/-
Line-protocol driver for the autocovariance model (property C15).

  acov na ny nu ne nw k tol f <Ta na*na> <Pa na*ne> <Za ny*na> <Ua na*na> <H ny*nw> <covU diag ne> <covW diag nw> nsel <sel…>
      -> ok;S=<stability bits of [ξ; y]>;G=<(k+1)·nsel² cells>;R=<(k+1)·nsel² signed squared correlations>
         (`f` = factor of rescale_stds applied before, 1 for none; or `fu,fw` = cumulative factors per kind of std);  err:singular when the Lyapunov equation has no unique solution
  cert na ny nu ne nw <Ta> <Pa> <Za> <H> <covU diag> <covW diag> <G0: (na+ny)² rationals, the implementation's cov_triangular_00>
      -> max |G0 - (𝒜 G0 𝒜ᵀ + ℬ Σ ℬᵀ)| as a rational (exact residual of the second-moment fixed point)
-/
import IrisVerif.Model.Acov
import IrisVerif.Driver.Util

open IrisVerif IrisVerif.Acov IrisVerif.Driver

namespace IrisVerif.Driver.C15

def takeRats (k : Nat) (ws : List String) : Option (Array Rat × List String) :=
  if ws.length < k then none else do
    let v ← (ws.take k).mapM QMat.parseRat?
    pure (v.toArray, ws.drop k)

def takeQMat (r c : Nat) (ws : List String) : Option (QMat × List String) := do
  let (v, rest) ← takeRats (r * c) ws
  pure (QMat.ofFn r c (fun i j => v.getD (i * c + j) 0), rest)

def showCell : Cell → String
  | none => "nan"
  | some q => QMat.showRat q

def showCMat (a : CMat) : String :=
  " ".intercalate (a.data.toList.flatMap (fun r => r.toList.map showCell))

def runAcov (ws : List String) : Option String := do
  match ws with
  | na :: ny :: nu :: ne :: nw :: k :: tol :: f :: rest =>
    let na ← na.toNat?; let ny ← ny.toNat?; let nu ← nu.toNat?; let ne ← ne.toNat?; let nw ← nw.toNat?
    let k ← k.toNat?; let tol ← QMat.parseRat? tol
    -- `seq:t*3/2;m*2;a*1/2` = a history of rescale_stds calls (t transition, m measurement, a all), applied call by call
    let calls? : Option (List (StdKind × Rat)) := if f.startsWith "seq:" then
        ((f.drop 4).toString.splitOn ";").mapM (fun w => match w.splitOn "*" with
          | [kd, x] => do
            let x ← QMat.parseRat? x
            let kd ← (if kd = "t" then some StdKind.transition else if kd = "m" then some StdKind.measurement
              else if kd = "a" then some StdKind.all else none)
            pure (kd, x)
          | _ => none)
      else none
    let f := if f.startsWith "seq:" then "1" else f
    -- `f` = one factor for all stds, or `fu,fw` = cumulative factors of a sequence of rescale_stds(kind=…) calls
    let (fu, fw) ← (match f.splitOn "," with
      | [a] => (QMat.parseRat? a).map (fun a => (a, a))
      | [a, b] => do let a ← QMat.parseRat? a; let b ← QMat.parseRat? b; pure (a, b)
      | _ => none)
    let (Ta, rest) ← takeQMat na na rest
    let (Pa, rest) ← takeQMat na ne rest
    let (Za, rest) ← takeQMat ny na rest
    let (Ua, rest) ← takeQMat na na rest
    let (H, rest) ← takeQMat ny nw rest
    let (du, rest) ← takeRats ne rest
    let (dw, rest) ← takeRats nw rest
    match rest with
    | nsel :: rest =>
      -- either `nsel i…` (positions) or `shifts n s…` (the time shifts of the joint token vector: the model selects)
      let sel ← (if nsel = "shifts" then
          (match rest with
           | _ :: sh => (sh.mapM String.toInt?).map zeroShiftSel
           | [] => none)
        else do
          let nsel ← nsel.toNat?
          let sel ← rest.mapM String.toNat?
          if sel.length ≠ nsel then none else pure sel)
      let s0 : Sol := ⟨na, ny, nu, Ta, Pa, Za, Ua, H, QMat.diag du, QMat.diag dw, tol⟩
      let s := match calls? with
        | some calls => runStd s0 calls
        | none => if fu = 1 ∧ fw = 1 then s0 else if fu = fw then rescale s0 fu else rescaleKinds s0 fu fw
      match acov s sel k with
      | none => pure "err:singular"
      | some gs =>
        let bits := String.join ((List.range (na + ny)).map (fun i => if isStable s i then "1" else "0"))
        pure (";".intercalate ["ok", "S=" ++ bits, "G=" ++ " ".intercalate (gs.map showCMat),
          "R=" ++ " ".intercalate ((acorrSq gs).map showCMat)])
    | _ => none
  | _ => none

def runCert (ws : List String) : Option String := do
  match ws with
  | na :: ny :: nu :: ne :: nw :: rest =>
    let na ← na.toNat?; let ny ← ny.toNat?; let nu ← nu.toNat?; let ne ← ne.toNat?; let nw ← nw.toNat?
    let (Ta, rest) ← takeQMat na na rest
    let (Pa, rest) ← takeQMat na ne rest
    let (Za, rest) ← takeQMat ny na rest
    let (H, rest) ← takeQMat ny nw rest
    let (du, rest) ← takeRats ne rest
    let (dw, rest) ← takeRats nw rest
    let (G0, rest) ← takeQMat (na + ny) (na + ny) rest
    if rest ≠ [] then none else
    let s : Sol := ⟨na, ny, nu, Ta, Pa, Za, QMat.identity na, H, QMat.diag du, QMat.diag dw, 0⟩
    let A := calA s
    -- ℬ = [[Pa00, 0], [Za Pa00, H]],  Σ = diag(covU, covW)
    let Pa00 := QMat.ofFn na ne (fun i j => if nu ≤ i then Pa.get i j else 0)
    let B := QMat.vstack (QMat.hstack Pa00 (QMat.zero na nw)) (QMat.hstack (Za * Pa00) H)
    let Sig := QMat.diag (du ++ dw)
    let R := G0 - (A * G0 * A.transpose + B * Sig * B.transpose)
    pure (QMat.showRat R.maxAbs)
  | _ => none

def step (line : String) : String :=
  match words line with
  | "acov" :: ws => (runAcov ws).getD "bad-op"
  | "cert" :: ws => (runCert ws).getD "bad-op"
  | _ => "bad-op"

end IrisVerif.Driver.C15

def main : IO Unit := IrisVerif.Driver.runMain IrisVerif.Driver.C15.step
