/-
Mathlib-level objects of the Hodrick-Prescott problem (helper lemmas for Props/C14.lean):
the second-difference matrix `Kmat`, the constraint matrix `Cmat` (level rows, then change rows), their
actions on a sequence, affine sequences and the kernel of `Kmat`.
-/
import IrisVerif.Lemmas.QuadMin
import Mathlib.Algebra.Order.Field.Basic
import Mathlib.Tactic.LinearCombination
import Mathlib.Tactic.FieldSimp
import Mathlib.Tactic.Push

namespace IrisVerif.HPMatrix

open Matrix

variable {K : Type} [Field K]

/-- entry `(i, j)` of the second-difference matrix (the same nested `if` as `IrisVerif.HP.kEntry`) -/
def kEntryK (i j : Nat) : K :=
  if j = i then 1 else if j = i + 1 then -2 else if j = i + 2 then 1 else 0

/-- the `(n-2) × n` second-difference matrix -/
def Kmat (n : Nat) : Matrix (Fin (n - 2)) (Fin n) K := fun i j => kEntryK i.val j.val

/-- positions `i, i+1, i+2` of row `i` -/
def p0 {n : Nat} (i : Fin (n - 2)) : Fin n := ⟨i.val, by omega⟩
def p1 {n : Nat} (i : Fin (n - 2)) : Fin n := ⟨i.val + 1, by omega⟩
def p2 {n : Nat} (i : Fin (n - 2)) : Fin n := ⟨i.val + 2, by omega⟩

theorem Kmat_mulVec (n : Nat) (τ : Fin n → K) (i : Fin (n - 2)) :
    (Kmat n *ᵥ τ) i = τ (p0 i) - 2 * τ (p1 i) + τ (p2 i) := by
  have key : ∀ j : Fin n, Kmat n i j * τ j =
      (if j = p0 i then τ j else 0) + (if j = p1 i then -2 * τ j else 0) + (if j = p2 i then τ j else 0) := by
    intro j
    unfold Kmat kEntryK p0 p1 p2
    simp only [Fin.ext_iff]
    by_cases h0 : j.val = i.val
    · simp [h0]
    · by_cases h1 : j.val = i.val + 1
      · simp [h1]
      · by_cases h2 : j.val = i.val + 2
        · simp [h2]
        · simp [h0, h1, h2]
  unfold Matrix.mulVec dotProduct
  simp only [key, Finset.sum_add_distrib, Finset.sum_ite_eq', Finset.mem_univ, if_true]
  ring

/-- the smoothness penalty as the sum of squared second differences -/
theorem Kmat_penalty (n : Nat) (τ : Fin n → K) :
    (Kmat n *ᵥ τ) ⬝ᵥ (Kmat n *ᵥ τ) = ∑ i : Fin (n - 2), (τ (p0 i) - 2 * τ (p1 i) + τ (p2 i)) ^ 2 := by
  unfold dotProduct
  refine Finset.sum_congr rfl (fun i _ => ?_)
  rw [Kmat_mulVec]; ring

/-- `K (a + b t) = 0` for every `n` -/
theorem Kmat_affine (n : Nat) (a b : K) : Kmat n *ᵥ (fun t : Fin n => a + b * (t.val : K)) = 0 := by
  funext i
  rw [Kmat_mulVec]
  simp only [p0, p1, p2, Pi.zero_apply]
  push_cast
  ring

/-- the kernel of `K` consists of affine sequences only -/
theorem Kmat_kernel (n : Nat) (hn : 2 ≤ n) (τ : Fin n → K) (h : Kmat n *ᵥ τ = 0) :
    ∀ k (hk : k < n), τ ⟨k, hk⟩ =
      τ ⟨0, by omega⟩ + (τ ⟨1, by omega⟩ - τ ⟨0, by omega⟩) * (k : K) := by
  intro k
  induction k using Nat.strong_induction_on with
  | _ k ih =>
    intro hk
    match k, ih, hk with
    | 0, _, _ => simp
    | 1, _, _ => simp
    | k + 2, ih, hk =>
      have h1 := ih (k + 1) (by omega) (by omega)
      have h0 := ih k (by omega) (by omega)
      have hr := congrFun h ⟨k, by omega⟩
      rw [Kmat_mulVec] at hr
      simp only [p0, p1, p2, Pi.zero_apply] at hr
      have e : τ ⟨k + 2, hk⟩ = 2 * τ ⟨k + 1, by omega⟩ - τ ⟨k, by omega⟩ := by linear_combination hr
      rw [e, h1, h0]
      push_cast
      ring

/-! ### First-difference matrix (lonf order 1) -/

/-- entry `(i, j)` of the first-difference matrix of `_first_order_matrix_setup`: `D[i,i] = 1, D[i,i+1] = -1` -/
def d1EntryK (i j : Nat) : K := if j = i then 1 else if j = i + 1 then -1 else 0

/-- the `(n-1) × n` first-difference matrix -/
def Dmat1 (n : Nat) : Matrix (Fin (n - 1)) (Fin n) K := fun i j => d1EntryK i.val j.val

def q0 {n : Nat} (i : Fin (n - 1)) : Fin n := ⟨i.val, by omega⟩
def q1 {n : Nat} (i : Fin (n - 1)) : Fin n := ⟨i.val + 1, by omega⟩

theorem Dmat1_mulVec (n : Nat) (τ : Fin n → K) (i : Fin (n - 1)) :
    (Dmat1 n *ᵥ τ) i = τ (q0 i) - τ (q1 i) := by
  have key : ∀ j : Fin n, Dmat1 n i j * τ j =
      (if j = q0 i then τ j else 0) + (if j = q1 i then - τ j else 0) := by
    intro j
    unfold Dmat1 d1EntryK q0 q1
    simp only [Fin.ext_iff]
    split_ifs <;> first | (exfalso; omega) | ring1
  unfold Matrix.mulVec dotProduct
  simp only [key, Finset.sum_add_distrib, Finset.sum_ite_eq', Finset.mem_univ, if_true]
  ring
/-! ### Constraints -/

variable {n kl kc : Nat}

/-- predecessor position (used only for positions `≥ 1`) -/
def pred (j : Fin n) : Fin n := ⟨j.val - 1, by omega⟩

/-- constraint matrix: row `inl i` is `e_{lw i}` (level), row `inr i` is `e_{cw i} - e_{cw i - 1}` (change) -/
def Cmat (lw : Fin kl → Fin n) (cw : Fin kc → Fin n) : Matrix (Fin kl ⊕ Fin kc) (Fin n) K :=
  fun r j => match r with
    | Sum.inl i => if j = lw i then 1 else 0
    | Sum.inr i => if j = cw i then 1 else if j.val + 1 = (cw i).val then -1 else 0

theorem Cmat_level (lw : Fin kl → Fin n) (cw : Fin kc → Fin n) (τ : Fin n → K) (i : Fin kl) :
    (Cmat lw cw *ᵥ τ) (Sum.inl i) = τ (lw i) := by
  unfold Matrix.mulVec dotProduct Cmat
  simp only [ite_mul, one_mul, zero_mul, Finset.sum_ite_eq', Finset.mem_univ, if_true]

theorem Cmat_change (lw : Fin kl → Fin n) (cw : Fin kc → Fin n) (τ : Fin n → K) (i : Fin kc)
    (hpos : 0 < (cw i).val) :
    (Cmat lw cw *ᵥ τ) (Sum.inr i) = τ (cw i) - τ (pred (cw i)) := by
  have key : ∀ j : Fin n, (Cmat (K := K) lw cw) (Sum.inr i) j * τ j =
      (if j = cw i then τ j else 0) + (if j = pred (cw i) then - τ j else 0) := by
    intro j
    unfold Cmat pred
    simp only [Fin.ext_iff]
    split_ifs <;> first | (exfalso; omega) | ring1
  unfold Matrix.mulVec dotProduct
  simp only [key, Finset.sum_add_distrib, Finset.sum_ite_eq', Finset.mem_univ, if_true]
  ring

/-- feasibility `C τ = (lv, cv)` spelled out: every level and every change constraint holds -/
theorem Cmat_feasible_iff (lw : Fin kl → Fin n) (cw : Fin kc → Fin n) (hcw : ∀ i, 0 < (cw i).val)
    (lv : Fin kl → K) (cv : Fin kc → K) (τ : Fin n → K) :
    Cmat lw cw *ᵥ τ = Sum.elim lv cv ↔
      ((∀ i, τ (lw i) = lv i) ∧ (∀ i, τ (cw i) - τ (pred (cw i)) = cv i)) := by
  constructor
  · intro h
    refine ⟨fun i => ?_, fun i => ?_⟩
    · rw [← Cmat_level lw cw τ i, h]; rfl
    · rw [← Cmat_change lw cw τ i (hcw i), h]; rfl
  · rintro ⟨h1, h2⟩
    funext r
    cases r with
    | inl i => rw [Cmat_level, h1]; rfl
    | inr i => rw [Cmat_change _ _ _ _ (hcw i), h2]; rfl

/-! ### Full row rank of the constraint matrix (independent constraints) -/

/-- weight a multiplier vector puts on level constraints at position `j` -/
def alphaOf (lw : Fin kl → Fin n) (μ : Fin kl ⊕ Fin kc → K) (j : Nat) : K :=
  ∑ i, if (lw i).val = j then μ (Sum.inl i) else 0

/-- weight a multiplier vector puts on change constraints at position `j` -/
def betaOf (cw : Fin kc → Fin n) (μ : Fin kl ⊕ Fin kc → K) (j : Nat) : K :=
  ∑ k, if (cw k).val = j then μ (Sum.inr k) else 0

/-- component `j` of `Cᵀ μ`: levels at `j`, plus changes at `j`, minus changes at `j + 1` -/
theorem Cmat_transpose_mulVec (lw : Fin kl → Fin n) (cw : Fin kc → Fin n) (μ : Fin kl ⊕ Fin kc → K) (j : Fin n) :
    ((Cmat lw cw)ᵀ *ᵥ μ) j = alphaOf lw μ j.val + betaOf cw μ j.val - betaOf cw μ (j.val + 1) := by
  unfold Matrix.mulVec dotProduct alphaOf betaOf
  rw [Fintype.sum_sum_type]
  simp only [Matrix.transpose_apply, Cmat]
  rw [add_sub_assoc, ← Finset.sum_sub_distrib]
  congr 1
  · refine Finset.sum_congr rfl (fun i _ => ?_)
    simp only [Fin.ext_iff]
    split_ifs <;> first | (exfalso; omega) | ring1
  · refine Finset.sum_congr rfl (fun k _ => ?_)
    simp only [Fin.ext_iff]
    split_ifs <;> first | (exfalso; omega) | ring1

theorem betaOf_zero (cw : Fin kc → Fin n) (hcw : ∀ k, 0 < (cw k).val) (μ : Fin kl ⊕ Fin kc → K) : betaOf cw μ 0 = 0 := by
  unfold betaOf
  refine Finset.sum_eq_zero (fun k _ => ?_)
  have := hcw k
  rw [if_neg (by omega)]

theorem betaOf_out (cw : Fin kc → Fin n) (μ : Fin kl ⊕ Fin kc → K) (j : Nat) (hj : n ≤ j) : betaOf cw μ j = 0 := by
  unfold betaOf
  refine Finset.sum_eq_zero (fun k _ => ?_)
  have := (cw k).isLt
  rw [if_neg (by omega)]

theorem alphaOf_at (lw : Fin kl → Fin n) (hinj : Function.Injective lw) (μ : Fin kl ⊕ Fin kc → K) (i : Fin kl) :
    alphaOf lw μ (lw i).val = μ (Sum.inl i) := by
  unfold alphaOf
  rw [Finset.sum_eq_single i]
  · simp
  · intro i' _ hne
    rw [if_neg]
    intro h
    exact hne (hinj (Fin.ext h))
  · intro h; exact absurd (Finset.mem_univ i) h

theorem betaOf_at (cw : Fin kc → Fin n) (hinj : Function.Injective cw) (μ : Fin kl ⊕ Fin kc → K) (k : Fin kc) :
    betaOf cw μ (cw k).val = μ (Sum.inr k) := by
  unfold betaOf
  rw [Finset.sum_eq_single k]
  · simp
  · intro k' _ hne
    rw [if_neg]
    intro h
    exact hne (hinj (Fin.ext h))
  · intro h; exact absurd (Finset.mem_univ k) h

/-- the recursion `β(j+1) = β(j) + α(j)` that `Cᵀ μ = 0` imposes along the time line -/
theorem beta_step (lw : Fin kl → Fin n) (cw : Fin kc → Fin n) (μ : Fin kl ⊕ Fin kc → K)
    (h : (Cmat lw cw)ᵀ *ᵥ μ = 0) (j : Nat) (hj : j < n) :
    betaOf cw μ (j + 1) = betaOf cw μ j + alphaOf lw μ j := by
  have := congrFun h ⟨j, hj⟩
  rw [Cmat_transpose_mulVec] at this
  simp only [Pi.zero_apply] at this
  linear_combination -this

/-- **full row rank, levels only**: distinct level positions are independent -/
theorem Cmat_rank_levels (lw : Fin kl → Fin n) (hinj : Function.Injective lw) (cw : Fin 0 → Fin n)
    (μ : Fin kl ⊕ Fin 0 → K) (h : (Cmat lw cw)ᵀ *ᵥ μ = 0) : μ = 0 := by
  funext r
  rcases r with i | k
  · have hb : ∀ j, betaOf cw μ j = 0 := fun j => by unfold betaOf; simp
    have := beta_step lw cw μ h (lw i).val (lw i).isLt
    rw [hb, hb, alphaOf_at lw hinj] at this
    simpa using this.symm
  · exact k.elim0

/-- **full row rank, changes only**: distinct change positions (each `≥ 1`) are independent -/
theorem Cmat_rank_changes (lw : Fin 0 → Fin n) (cw : Fin kc → Fin n) (hinj : Function.Injective cw)
    (hcw : ∀ k, 0 < (cw k).val) (μ : Fin 0 ⊕ Fin kc → K) (h : (Cmat lw cw)ᵀ *ᵥ μ = 0) : μ = 0 := by
  have ha : ∀ j, alphaOf lw μ j = 0 := fun j => by unfold alphaOf; simp
  have hb : ∀ j, j ≤ n → betaOf cw μ j = 0 := by
    intro j
    induction j with
    | zero => intro _; exact betaOf_zero cw hcw μ
    | succ j ih =>
      intro hj
      rw [beta_step lw cw μ h j (by omega), ih (by omega), ha, add_zero]
  funext r
  rcases r with i | k
  · exact i.elim0
  · rw [← betaOf_at cw hinj μ k]
    exact hb _ (by have := (cw k).isLt; omega)

theorem alphaOf_ne_zero (lw : Fin kl → Fin n) (μ : Fin kl ⊕ Fin kc → K) (j : Nat) (h : alphaOf lw μ j ≠ 0) :
    ∃ i, (lw i).val = j := by
  by_contra hne
  apply h
  unfold alphaOf
  refine Finset.sum_eq_zero (fun i _ => ?_)
  rw [if_neg]
  intro hi
  exact hne ⟨i, hi⟩

theorem betaOf_ne_zero (cw : Fin kc → Fin n) (μ : Fin kl ⊕ Fin kc → K) (j : Nat) (h : betaOf cw μ j ≠ 0) :
    ∃ k, (cw k).val = j := by
  by_contra hne
  apply h
  unfold betaOf
  refine Finset.sum_eq_zero (fun k _ => ?_)
  rw [if_neg]
  intro hk
  exact hne ⟨k, hk⟩

/-- **full row rank, levels and changes together.**  Distinct level positions, distinct change positions (`≥ 1`), and
no "cycle": between two level positions `p < q` at least one period of `p+1 … q` carries no change constraint
(otherwise the two levels and the changes in between over-determine `τ_q − τ_p`). -/
theorem Cmat_rank_mixed (lw : Fin kl → Fin n) (cw : Fin kc → Fin n)
    (hlinj : Function.Injective lw) (hcinj : Function.Injective cw) (hcw : ∀ k, 0 < (cw k).val)
    (hnc : ∀ i i', (lw i).val < (lw i').val → ∃ j, (lw i).val < j ∧ j ≤ (lw i').val ∧ ∀ k, (cw k).val ≠ j)
    (μ : Fin kl ⊕ Fin kc → K) (h : (Cmat lw cw)ᵀ *ᵥ μ = 0) : μ = 0 := by
  have step := beta_step lw cw μ h
  -- all level weights vanish
  have ha : ∀ j, j < n → alphaOf lw μ j = 0 := by
    by_contra hcon
    push Not at hcon
    have hex : ∃ p, p < n ∧ alphaOf lw μ p ≠ 0 := hcon
    classical
    let p := Nat.find hex
    have hp : p < n ∧ alphaOf lw μ p ≠ 0 := Nat.find_spec hex
    have hmin : ∀ j, j < p → alphaOf lw μ j = 0 := by
      intro j hj
      by_contra hne
      exact Nat.find_min hex hj ⟨by omega, hne⟩
    obtain ⟨i, hi⟩ := alphaOf_ne_zero lw μ p hp.2
    have hb0 : ∀ j, j ≤ p → betaOf cw μ j = 0 := by
      intro j
      induction j with
      | zero => intro _; exact betaOf_zero cw hcw μ
      | succ j ih =>
        intro hj
        rw [step j (by omega), ih (by omega), hmin j (by omega), add_zero]
    -- β stays at α(p) as long as no level position is met
    have hrun : ∀ j, p < j → j ≤ n → (∀ q, p < q → q < j → ∀ i', (lw i').val ≠ q) →
        betaOf cw μ j = alphaOf lw μ p := by
      intro j
      induction j with
      | zero => intro h0; omega
      | succ j ih =>
        intro hpj hjn hfree
        rw [step j (by omega)]
        by_cases hjp : j = p
        · rw [hjp, hb0 p le_rfl, zero_add]
        · have hpj' : p < j := by omega
          rw [ih hpj' (by omega) (fun q h1 h2 => hfree q h1 (by omega))]
          have : alphaOf lw μ j = 0 := by
            by_contra hne
            obtain ⟨i', hi'⟩ := alphaOf_ne_zero lw μ j hne
            exact hfree j hpj' (by omega) i' hi'
          rw [this, add_zero]
    by_cases hq : ∃ q, p < q ∧ ∃ i', (lw i').val = q
    · have hspec := Nat.find_spec hq
      have hfm : ∀ m, m < Nat.find hq → ¬ (p < m ∧ ∃ i', (lw i').val = m) := fun m hm => Nat.find_min hq hm
      generalize Nat.find hq = q at hspec hfm
      obtain ⟨hpq, i', hi'⟩ := hspec
      have hqmin : ∀ q', p < q' → q' < q → ∀ i'', (lw i'').val ≠ q' := by
        intro q' h1 h2 i'' h3
        exact hfm q' h2 ⟨h1, i'', h3⟩
      obtain ⟨j, hj1, hj2, hj3⟩ := hnc i i' (by rw [hi, hi']; exact hpq)
      rw [hi] at hj1
      rw [hi'] at hj2
      have hqn : q < n := by rw [← hi']; exact (lw i').isLt
      have hbj : betaOf cw μ j = alphaOf lw μ p :=
        hrun j hj1 (by omega) (fun q' h1 h2 => hqmin q' h1 (by omega))
      obtain ⟨k, hk⟩ := betaOf_ne_zero cw μ j (by rw [hbj]; exact hp.2)
      exact hj3 k hk
    · push Not at hq
      have hbn : betaOf cw μ n = alphaOf lw μ p :=
        hrun n hp.1 le_rfl (fun q h1 _ i' h3 => hq q h1 i' h3)
      rw [betaOf_out cw μ n le_rfl] at hbn
      exact hp.2 hbn.symm
  have hb : ∀ j, j ≤ n → betaOf cw μ j = 0 := by
    intro j
    induction j with
    | zero => intro _; exact betaOf_zero cw hcw μ
    | succ j ih =>
      intro hj
      rw [step j (by omega), ih (by omega), ha j (by omega), add_zero]
  funext r
  rcases r with i | k
  · rw [← alphaOf_at lw hlinj μ i]; exact ha _ (lw i).isLt
  · rw [← betaOf_at cw hcinj μ k]; exact hb _ (by have := (cw k).isLt; omega)

end IrisVerif.HPMatrix
