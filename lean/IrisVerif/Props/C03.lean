/-
C03 — Kalman filter, smoother and likelihood equal exact Gaussian conditioning.

Gaussian distributions are represented by their moments: a joint Gaussian of `(x, y)` is a mean pair and a block covariance
`fromBlocks Sxx Sxy Syx Syy`; conditioning on `y` with a (two-sided) inverse `Si` of `Syy` gives
`condMean = μx + Sxy Si (y − μy)`, `condCov = Sxx − Sxy Si Syx` (this is the definition of "exact Gaussian conditioning" the
property refers to; no measure theory is involved).  The filter recursion the theorems are about is
`IrisVerif.KalmanAbs` (Lemmas/Kalman.lean), the Mathlib-matrix transcription of Model/Kalman.lean = fords/kalmans.py.

Proved for all dimensions over any commutative ring / field:
 (a) the prediction step is the push-forward of the moments through the affine map `[T P]`;
 (b) the joint covariance of (state, observed rows) is `((Q₀, Q₀Zᵀ),(ZQ₀, F))`, the update step equals its conditional moments,
     and conditioning on `y₁` then on `y₂` equals conditioning on `(y₁, y₂)` jointly (block inverse through the Schur complement);
 (c) the block-LDLᵀ step of the likelihood: `det Σ = det S₁₁ · det S₂₂.₁` and `dᵀΣ⁻¹d = d₁ᵀS₁₁⁻¹d₁ + e₂ᵀS₂₂.₁⁻¹e₂` with
     `e₂ = d₂ − S₂₁S₁₁⁻¹d₁` the prediction error of the second block; contributions sum to the total; a period without
     observations has `det F = 1`, quadratic form `0`;
 (d) variance rescaling identities.
The induction over periods of (b) and (c) is carried out on an explicitly built stacked system (`Joint`, `joint`):
`filter_is_conditioning`, `likelihood_is_stacked_density` hold for N periods and any missing-data pattern, and so do
`smoother_is_conditioning` (state means), `smoother_mse_is_conditioning`, `smoother_shocks_is_conditioning`,
`smoother_mshocks_is_conditioning`: the backward recursion of `one_step_back` returns the conditional moments given ALL data.
-/
import IrisVerif.Lemmas.Kalman
import Mathlib.Data.Matrix.Block
import Mathlib.Data.Matrix.ColumnRowPartitioned
import Mathlib.LinearAlgebra.Matrix.SchurComplement
import Mathlib.LinearAlgebra.Matrix.NonsingularInverse
import Mathlib.Tactic.Ring
import Mathlib.Tactic.FieldSimp
import Mathlib.Algebra.Order.Field.Rat
import Mathlib.Tactic.NormNum
import Mathlib.Algebra.BigOperators.Group.Finset.Basic

open Matrix

set_option linter.unusedSectionVars false

namespace IrisVerif.C03
open IrisVerif.KalmanAbs

variable {n q w k m₁ m₂ : Type} [Fintype n] [Fintype q] [Fintype w] [Fintype k] [Fintype m₁] [Fintype m₂]
  [DecidableEq n] [DecidableEq q] [DecidableEq w] [DecidableEq m₁] [DecidableEq m₂]
variable {K : Type} [CommRing K]

/-- conditional mean of `x` given `y` in a joint Gaussian with cross-covariance `Sxy` and `Syy⁻¹ = Si` -/
def condMean {a b : Type} [Fintype b] (μx : Matrix a k K) (Sxy : Matrix a b K) (Si : Matrix b b K) (d : Matrix b k K) :
    Matrix a k K := μx + Sxy * Si * d

/-- conditional covariance -/
def condCov {a b : Type} [Fintype b] (Sxx : Matrix a a K) (Sxy : Matrix a b K) (Si : Matrix b b K) (Syx : Matrix b a K) :
    Matrix a a K := Sxx - Sxy * Si * Syx

/-! ### (a) prediction step = push-forward of the moments -/

/-- covariance of `T ξ + P u` for uncorrelated `ξ ~ Q`, `u ~ Σ`: the block-diagonal covariance pushed through `[T P]` -/
theorem predict_mse_is_pushforward (T : Matrix n n K) (P : Matrix n q K) (Q : Matrix n n K) (S : Matrix q q K) :
    (fromCols T P) * (fromBlocks Q 0 0 S) * (fromCols T P)ᵀ = T * Q * Tᵀ + P * S * Pᵀ := by
  rw [transpose_fromCols, fromCols_mul_fromBlocks, fromCols_mul_fromRows]
  simp

/-- mean of `T ξ + K + P u`: the stacked mean pushed through `[T P]`, plus the constant -/
theorem predict_mean_is_pushforward (T : Matrix n n K) (P : Matrix n q K) (Kc a : Matrix n k K) (u0 : Matrix q k K) :
    (fromCols T P) * (fromRows a u0) + Kc = T * a + Kc + P * u0 := by
  rw [fromCols_mul_fromRows]; abel

variable [Invertible (2 : K)]

/-- the model's prediction step (with its `symmetrize`) is that push-forward, for every period of every run -/
theorem model_predict_is_pushforward {p : ℕ → Type} [∀ t, Fintype (p t)] [∀ t, DecidableEq (p t)]
    (I : Inputs n q w k p K) (hI : I.Regular) (t : ℕ) :
    I.Q0 t = (fromCols I.T I.P) * (fromBlocks (I.state t).2 0 0 (I.Su t)) * (fromCols I.T I.P)ᵀ
    ∧ I.a0 t = (fromCols I.T I.P) * (fromRows (I.state t).1 (I.u0 t)) + I.Kc := by
  rw [predict_mse_is_pushforward, predict_mean_is_pushforward]
  exact ⟨I.Q0_eq hI t, rfl⟩

/-! ### (b) update step = conditional moments; sequential = joint conditioning -/

/-- joint covariance of (state, observed rows) `(ξ, Zξ + Hw)` for uncorrelated `ξ ~ Q₀`, `w ~ Σ_w`:
`((Q₀, Q₀Zᵀ),(ZQ₀, ZQ₀Zᵀ + HΣ_wHᵀ))` -/
theorem joint_cov_state_obs {p : Type} [Fintype p] [DecidableEq p]
    (Z : Matrix p n K) (H : Matrix p w K) (Q0 : Matrix n n K) (Sw : Matrix w w K) :
    fromBlocks 1 0 Z H * fromBlocks Q0 0 0 Sw * (fromBlocks 1 0 Z H)ᵀ
      = fromBlocks Q0 (Q0 * Zᵀ) (Z * Q0) (Z * Q0 * Zᵀ + H * Sw * Hᵀ) := by
  rw [fromBlocks_transpose, fromBlocks_multiply, fromBlocks_multiply]
  simp [Matrix.mul_assoc]

/-- **update = conditioning** for every period of every run and any missing-data pattern: the updated mean and MSE of the
model are the conditional moments of the state given the observed rows in the joint `((Q₀, Q₀Zᵀ),(ZQ₀, F))` with means
`(a₀, y₀)` -/
theorem model_update_is_conditioning {p : ℕ → Type} [∀ t, Fintype (p t)] [∀ t, DecidableEq (p t)]
    (I : Inputs n q w k p K) (hI : I.Regular) (t : ℕ) :
    I.a1 t = condMean (I.a0 t) (I.Q0 t * (I.Z t)ᵀ) (I.Fi t) (I.y t - I.y0 t)
    ∧ I.Q1 t = condCov (I.Q0 t) (I.Q0 t * (I.Z t)ᵀ) (I.Fi t) (I.Z t * I.Q0 t)
    ∧ I.F t = I.Z t * I.Q0 t * (I.Z t)ᵀ + I.H t * I.Sw t * (I.H t)ᵀ := by
  refine ⟨?_, ?_, I.F_eq hI t⟩
  · show I.a0 t + I.Q0 t * ((I.Z t)ᵀ * I.Fi t) * (I.y t - I.y0 t) = _
    unfold condMean
    simp only [Matrix.mul_assoc]
  · rw [I.Q1_eq hI t]
    show I.Q0 t - I.Q0 t * ((I.Z t)ᵀ * I.Fi t) * I.Z t * I.Q0 t = _
    unfold condCov
    simp only [Matrix.mul_assoc]

omit [Invertible (2 : K)]

section schur
variable (S11 : Matrix m₁ m₁ K) (S12 : Matrix m₁ m₂ K) (S21 : Matrix m₂ m₁ K) (S22 : Matrix m₂ m₂ K)
  (S11i : Matrix m₁ m₁ K) (W : Matrix m₂ m₂ K)

/-- inverse of a 2×2 block covariance from `S₁₁⁻¹` and the inverse `W` of the Schur complement `S₂₂ − S₂₁S₁₁⁻¹S₁₂` -/
def blockInv : Matrix (m₁ ⊕ m₂) (m₁ ⊕ m₂) K :=
  fromBlocks (S11i + S11i * S12 * W * S21 * S11i) (-(S11i * S12 * W)) (-(W * S21 * S11i)) W

/-- `blockInv` is a right inverse of the block matrix (hence, for square matrices over a commutative ring, *the* inverse) -/
theorem block_mul_blockInv (h1 : S11 * S11i = 1) (hW : (S22 - S21 * S11i * S12) * W = 1) :
    fromBlocks S11 S12 S21 S22 * blockInv S12 S21 S11i W = 1 := by
  unfold blockInv
  rw [fromBlocks_multiply, ← fromBlocks_one]
  have hW' : S22 * W = 1 + S21 * S11i * S12 * W := by
    rw [← hW]; simp only [Matrix.sub_mul]; abel
  have a1 : S11 * (S11i * S12 * W) = S12 * W := by
    rw [← Matrix.mul_assoc, ← Matrix.mul_assoc, h1, Matrix.one_mul]
  congr 1
  · rw [Matrix.mul_add, h1]
    have : S11 * (S11i * S12 * W * S21 * S11i) = S12 * W * S21 * S11i := by
      simp only [← Matrix.mul_assoc, h1, Matrix.one_mul]
    rw [this]; simp only [Matrix.mul_neg, Matrix.mul_assoc]; abel
  · rw [Matrix.mul_neg, a1]; abel
  · have : S22 * -(W * S21 * S11i) = -(S21 * S11i) - S21 * S11i * S12 * W * S21 * S11i := by
      rw [Matrix.mul_neg, ← Matrix.mul_assoc, ← Matrix.mul_assoc, hW']
      simp only [Matrix.add_mul, Matrix.one_mul, Matrix.mul_assoc]; abel
    rw [this]; simp only [Matrix.mul_add, Matrix.mul_assoc]; abel
  · rw [hW']; simp only [Matrix.mul_neg, Matrix.mul_assoc]; abel

/-- any right inverse of the block covariance is `blockInv` (so "conditioning jointly" does not depend on how the inverse of the
stacked covariance is obtained) -/
theorem right_inverse_eq_blockInv (h1 : S11 * S11i = 1) (hW : (S22 - S21 * S11i * S12) * W = 1)
    (Si : Matrix (m₁ ⊕ m₂) (m₁ ⊕ m₂) K) (hSi : fromBlocks S11 S12 S21 S22 * Si = 1) :
    Si = blockInv S12 S21 S11i W := by
  have hB := block_mul_blockInv S11 S12 S21 S22 S11i W h1 hW
  have hSi' : Si * fromBlocks S11 S12 S21 S22 = 1 := mul_eq_one_comm.mp hSi
  calc Si = Si * (fromBlocks S11 S12 S21 S22 * blockInv S12 S21 S11i W) := by rw [hB, Matrix.mul_one]
    _ = blockInv S12 S21 S11i W := by rw [← Matrix.mul_assoc, hSi', Matrix.one_mul]

variable {a : Type} [Fintype a] [DecidableEq a]
  (μx : Matrix a k K) (Sxx : Matrix a a K) (Sx1 : Matrix a m₁ K) (Sx2 : Matrix a m₂ K) (d1 : Matrix m₁ k K) (d2 : Matrix m₂ k K)

/-- **sequential = joint conditioning (means)**: conditioning `x` on `y₁` and then — inside the conditional distribution, with
cross-covariance `Sx2 − Sx1 S₁₁⁻¹ S₁₂`, innovation `d₂ − S₂₁S₁₁⁻¹d₁` and the inverse `W` of `S₂₂ − S₂₁S₁₁⁻¹S₁₂` — on `y₂`
gives the mean of conditioning on the stacked `(y₁, y₂)` with the inverse of the stacked covariance -/
theorem sequential_eq_joint_mean :
    condMean (condMean μx Sx1 S11i d1) (Sx2 - Sx1 * S11i * S12) W (d2 - S21 * S11i * d1)
      = condMean μx (fromCols Sx1 Sx2) (blockInv S12 S21 S11i W) (fromRows d1 d2) := by
  unfold condMean blockInv
  rw [fromCols_mul_fromBlocks, fromCols_mul_fromRows]
  simp only [Matrix.mul_add, Matrix.mul_sub, Matrix.add_mul, Matrix.sub_mul, Matrix.mul_neg, Matrix.neg_mul, Matrix.mul_assoc]
  abel

/-- **sequential = joint conditioning (covariances)** -/
theorem sequential_eq_joint_cov (S1x : Matrix m₁ a K) (S2x : Matrix m₂ a K) :
    condCov (condCov Sxx Sx1 S11i S1x) (Sx2 - Sx1 * S11i * S12) W (S2x - S21 * S11i * S1x)
      = condCov Sxx (fromCols Sx1 Sx2) (blockInv S12 S21 S11i W) (fromRows S1x S2x) := by
  unfold condCov blockInv
  rw [fromCols_mul_fromBlocks, fromCols_mul_fromRows]
  simp only [Matrix.mul_add, Matrix.mul_sub, Matrix.add_mul, Matrix.sub_mul, Matrix.mul_neg, Matrix.neg_mul, Matrix.mul_assoc]
  abel

/-! ### (c) likelihood: block LDLᵀ step -/

/-- quadratic form `dᵀ Σ⁻¹ d` of the stacked vector = quadratic form of the first block + quadratic form of the prediction error
of the second block given the first (symmetric case `S₂₁ = S₁₂ᵀ`, `S₁₁⁻¹` symmetric) -/
theorem quadform_block (hS : S21 = S12ᵀ) (h1s : S11iᵀ = S11i) :
    (fromRows d1 d2)ᵀ * blockInv S12 S21 S11i W * fromRows d1 d2
      = d1ᵀ * S11i * d1 + (d2 - S21 * S11i * d1)ᵀ * W * (d2 - S21 * S11i * d1) := by
  unfold blockInv
  rw [transpose_fromRows, fromCols_mul_fromBlocks, fromCols_mul_fromRows, hS]
  simp only [Matrix.transpose_sub, Matrix.transpose_mul, Matrix.transpose_transpose, h1s,
    Matrix.mul_add, Matrix.mul_sub, Matrix.add_mul, Matrix.sub_mul, Matrix.mul_neg, Matrix.neg_mul, Matrix.mul_assoc]
  abel

/-- determinant of the stacked covariance = `det S₁₁ · det (S₂₂ − S₂₁ S₁₁⁻¹ S₁₂)`: with `log`, the log-determinants of the
per-period prediction-error covariances add up to the log-determinant of the stacked covariance -/
theorem det_block [Invertible S11] :
    (fromBlocks S11 S12 S21 S22).det = S11.det * (S22 - S21 * ⅟S11 * S12).det :=
  det_fromBlocks₁₁ S11 S12 S21 S22

end schur

/-- a period without observations: `F` is the empty matrix, its determinant is 1 (log-determinant 0) -/
theorem det_empty_period {e : Type} [Fintype e] [DecidableEq e] [IsEmpty e] (F : Matrix e e K) : F.det = 1 :=
  det_isEmpty

/-- a period without observations: the quadratic form `peᵀ Fi pe` is 0 -/
theorem quadform_empty_period {e : Type} [Fintype e] [IsEmpty e] (pe : Matrix e k K) (Fi : Matrix e e K) :
    peᵀ * Fi * pe = 0 := by
  ext i j
  simp [Matrix.mul_apply]

section scalars
variable {F : Type} [Field F]

/-- **contributions sum to the total** (as computed by `calculate_likelihood` / `calculate_likelihood_contributions`, including
the variance scale): with per-period `ld_t = log det F_t`, `q_t = peᵀFi pe`, `n_t` observations, `c = log 2π`, `ls = log var_scale`,
`Σ_t (ld_t + n_t·ls + q_t/vs + n_t·c)/2 = (N·c + (Σ ld_t + N·ls) + (Σ q_t)/vs)/2`, `N = Σ n_t`, for every list of periods -/
theorem contributions_sum_to_total (two_ne : (2 : F) ≠ 0) (c ls vs : F) (per : List (F × F × F)) :
    (per.map (fun x => (x.1 + x.2.2 * ls + x.2.1 / vs + x.2.2 * c) / 2)).sum
      = ((per.map (·.2.2)).sum * c + ((per.map (·.1)).sum + (per.map (·.2.2)).sum * ls) + (per.map (·.2.1)).sum / vs) / 2 := by
  induction per with
  | nil => simp
  | cons x xs ih =>
    simp only [List.map_cons, List.sum_cons, ih]
    field_simp
    ring

/-- a period without observations contributes exactly nothing: `ld = log 1 = 0`, `q = 0`, `n = 0` -/
theorem empty_period_contributes_zero (c ls vs : F) : ((0 : F) + 0 * ls + 0 / vs + 0 * c) / 2 = 0 := by simp

/-- **variance rescaling** (`_calculate_variance_scale`): with `vs = q/N` the rescaled quadratic term equals `N` … -/
theorem rescaled_quadform (q N : F) (hq : q ≠ 0) : q / (q / N) = N := by
  rw [div_div_eq_mul_div, mul_comm, mul_div_assoc, div_self hq, mul_one]

/-- … and `vs = q/N` is the stationary point of the concentrated criterion `N·log s + q/s` (its derivative `N/s − q/s²` vanishes) -/
theorem rescale_first_order_condition (q N : F) (hq : q ≠ 0) (_hN : N ≠ 0) : N / (q / N) - q / (q / N) ^ 2 = 0 := by
  field_simp
  ring

end scalars

/-- scaling all covariances by `s` scales `F` by `s`: `det (s•F) = s^{n_t} det F` (so `log det` gains `n_t · log s`) and the
inverse becomes `s⁻¹ • Fi`, which divides the quadratic form by `s` — the two terms `_calculate_variance_scale` applies -/
theorem det_scaled {e : Type} [Fintype e] [DecidableEq e] (F : Matrix e e K) (s : K) :
    (s • F).det = s ^ Fintype.card e * F.det := det_smul F s

theorem inverse_scaled {e : Type} [Fintype e] [DecidableEq e] (F Fi : Matrix e e K) (s si : K) (hs : s * si = 1)
    (h : F * Fi = 1) : (s • F) * (si • Fi) = 1 := by
  rw [Matrix.smul_mul, Matrix.mul_smul, smul_smul, h, hs, one_smul]

/-! ### multi-period statements: the stacked system -/

omit [Invertible (2 : K)]

section step
variable {o p : Type} [Fintype o] [Fintype p] [DecidableEq o] [DecidableEq p]
variable (T : Matrix n n K) (P : Matrix n q K) (Kc : Matrix n k K) (Su : Matrix q q K) (u0 : Matrix q k K)
  (Z : Matrix p n K) (H : Matrix p w K) (D : Matrix p k K) (Sw : Matrix w w K) (w0 : Matrix w k K) (Fi : Matrix p p K)
  (y : Matrix p k K)
  (mx : Matrix n k K) (Vx : Matrix n n K) (Cxy : Matrix n o K) (Vyi : Matrix o o K) (d : Matrix o k K)

/-- (A) the model's `F` (computed from the conditional `Q`) is the Schur complement of the stacked prior covariance -/
theorem step_F_is_schur :
    Z * (T * condCov Vx Cxy Vyi Cxyᵀ * Tᵀ + P * Su * Pᵀ) * Zᵀ + H * Sw * Hᵀ
      = (Z * (T * Vx * Tᵀ + P * Su * Pᵀ) * Zᵀ + H * Sw * Hᵀ) - Z * (T * Cxy) * Vyi * (Z * (T * Cxy))ᵀ := by
  unfold condCov
  simp only [Matrix.transpose_mul, Matrix.mul_sub, Matrix.sub_mul, Matrix.mul_add, Matrix.add_mul, Matrix.mul_assoc]
  abel

/-- (B) the model's prediction error is the innovation of the new block given the past blocks -/
theorem step_pe_is_innovation :
    y - (Z * (T * condMean mx Cxy Vyi d + Kc + P * u0) + D + H * w0)
      = (y - (Z * (T * mx + Kc + P * u0) + D + H * w0)) - Z * (T * Cxy) * Vyi * d := by
  unfold condMean
  simp only [Matrix.mul_add, Matrix.mul_assoc]
  abel

/-- (C) updated mean = conditional mean given the past blocks and the new block jointly -/
theorem step_mean (a : Matrix n k K) (Q : Matrix n n K)
    (ha : a = condMean mx Cxy Vyi d) (hQ : Q = condCov Vx Cxy Vyi Cxyᵀ) :
    let a0 := T * a + Kc + P * u0
    let Q0 := T * Q * Tᵀ + P * Su * Pᵀ
    let pe := y - (Z * a0 + D + H * w0)
    a0 + Q0 * (Zᵀ * Fi) * pe
      = condMean (T * mx + Kc + P * u0) (fromCols (T * Cxy) ((T * Vx * Tᵀ + P * Su * Pᵀ) * Zᵀ))
          (blockInv (Z * (T * Cxy))ᵀ (Z * (T * Cxy)) Vyi Fi)
          (fromRows d (y - (Z * (T * mx + Kc + P * u0) + D + H * w0))) := by
  intro a0 Q0 pe
  rw [← sequential_eq_joint_mean]
  have h1 : a0 = condMean (T * mx + Kc + P * u0) (T * Cxy) Vyi d := by
    simp only [a0, ha, condMean, Matrix.mul_add, Matrix.mul_assoc]; abel
  have h2 : Q0 * Zᵀ = (T * Vx * Tᵀ + P * Su * Pᵀ) * Zᵀ - T * Cxy * Vyi * (Z * (T * Cxy))ᵀ := by
    simp only [Q0, hQ, condCov, Matrix.transpose_mul, Matrix.mul_sub, Matrix.sub_mul, Matrix.mul_add, Matrix.add_mul,
      Matrix.mul_assoc]
    abel
  have h3 : pe = (y - (Z * (T * mx + Kc + P * u0) + D + H * w0)) - Z * (T * Cxy) * Vyi * d := by
    simp only [pe, a0, ha]
    exact step_pe_is_innovation T P Kc u0 Z H D w0 y mx Cxy Vyi d
  rw [← h1, ← h2, ← h3]
  unfold condMean
  simp only [Matrix.mul_assoc]

/-- (D) updated MSE = conditional covariance given the past blocks and the new block jointly -/
theorem step_cov (Q : Matrix n n K) (hQ : Q = condCov Vx Cxy Vyi Cxyᵀ) (hVx : Vxᵀ = Vx) (hSu : Suᵀ = Su) :
    let Q0 := T * Q * Tᵀ + P * Su * Pᵀ
    Q0 - Q0 * (Zᵀ * Fi) * Z * Q0
      = condCov (T * Vx * Tᵀ + P * Su * Pᵀ) (fromCols (T * Cxy) ((T * Vx * Tᵀ + P * Su * Pᵀ) * Zᵀ))
          (blockInv (Z * (T * Cxy))ᵀ (Z * (T * Cxy)) Vyi Fi)
          (fromCols (T * Cxy) ((T * Vx * Tᵀ + P * Su * Pᵀ) * Zᵀ))ᵀ := by
  intro Q0
  have hV' : (T * Vx * Tᵀ + P * Su * Pᵀ)ᵀ = T * Vx * Tᵀ + P * Su * Pᵀ := by
    simp only [Matrix.transpose_add, Matrix.transpose_mul, Matrix.transpose_transpose, hVx, hSu, Matrix.mul_assoc]
  rw [transpose_fromCols, Matrix.transpose_mul ((T * Vx * Tᵀ + P * Su * Pᵀ)) Zᵀ, hV', Matrix.transpose_transpose,
    ← sequential_eq_joint_cov]
  have h1 : Q0 = condCov (T * Vx * Tᵀ + P * Su * Pᵀ) (T * Cxy) Vyi (T * Cxy)ᵀ := by
    simp only [Q0, hQ, condCov, Matrix.transpose_mul, Matrix.mul_sub, Matrix.sub_mul, Matrix.mul_assoc]
    abel
  have h2 : Q0 * Zᵀ = (T * Vx * Tᵀ + P * Su * Pᵀ) * Zᵀ - T * Cxy * Vyi * (Z * (T * Cxy))ᵀ := by
    simp only [Q0, hQ, condCov, Matrix.transpose_mul, Matrix.mul_sub, Matrix.sub_mul, Matrix.mul_add, Matrix.add_mul,
      Matrix.mul_assoc]
    abel
  have h3 : Z * Q0 = Z * (T * Vx * Tᵀ + P * Su * Pᵀ) - Z * (T * Cxy) * Vyi * (T * Cxy)ᵀ := by
    simp only [Q0, hQ, condCov, Matrix.transpose_mul, Matrix.mul_sub, Matrix.sub_mul, Matrix.mul_add, Matrix.add_mul,
      Matrix.mul_assoc]
    abel
  rw [← h1, ← h2, ← h3]
  unfold condCov
  simp only [Matrix.mul_assoc]


/-- (F) the block inverse of a symmetric block matrix built from symmetric pieces is symmetric -/
theorem blockInv_symm (S21 : Matrix p o K) (hVyi : Vyiᵀ = Vyi) (hFi : Fiᵀ = Fi) :
    (blockInv S21ᵀ S21 Vyi Fi)ᵀ = blockInv S21ᵀ S21 Vyi Fi := by
  unfold blockInv
  rw [fromBlocks_transpose]
  congr 1
  · simp only [Matrix.transpose_add, Matrix.transpose_mul, Matrix.transpose_transpose, hVyi, hFi, Matrix.mul_assoc]
  · simp only [Matrix.transpose_neg, Matrix.transpose_mul, Matrix.transpose_transpose, hVyi, hFi, Matrix.mul_assoc]
  · simp only [Matrix.transpose_neg, Matrix.transpose_mul, Matrix.transpose_transpose, hVyi, hFi, Matrix.mul_assoc]

/-- (G) determinant step: `det` of the extended stacked covariance = `det` of the past one times `det` of the Schur complement -/
theorem step_det (Vy : Matrix o o K) (S12 : Matrix o p K) (S21 : Matrix p o K) (S22 : Matrix p p K)
    (hinv : Vy * Vyi = 1) :
    (fromBlocks Vy S12 S21 S22).det = Vy.det * (S22 - S21 * Vyi * S12).det := by
  let _ : Invertible Vy := _root_.invertibleOfRightInverse Vy Vyi hinv
  have h : ⅟Vy = Vyi := invOf_eq_right_inv hinv
  rw [det_fromBlocks₁₁, h]

end step

/-! ### the stacked system, built period by period

`Joint` holds, for the state `ξ` handed to some period and the stacked vector `Y` of all rows observed before it: the index type
of `Y` (a finite type grown by `⊕ p t` per period — any missing-data pattern), the PRIOR (unconditional) mean and covariance of
`ξ`, the prior cross-covariance `cov(ξ, Y)`, the prior covariance `Vy = cov(Y)`, a candidate inverse `Vyi`, and the stacked data
minus its prior mean `d = Y − μ_Y`.  `Joint.step` is the moment recursion of the linear state-space model itself
(`ξ' = Tξ + K + Pu`, `y = Zξ' + D + Hw`, `u`, `w` uncorrelated with everything earlier):
`cov(ξ',Y) = T cov(ξ,Y)`, `cov(ξ',y) = V' Zᵀ`, `cov(y,Y) = Z T cov(ξ,Y)`, `cov(y) = Z V' Zᵀ + H Σw Hᵀ`; no conditioning is
involved in `mx Vx Cxy Vy d`.  Only `Vyi` uses the filter's `Fi` (block inverse through the Schur complement), and the theorem
proves that it IS the inverse of `Vy`. -/

structure Joint (n k : Type) (K : Type) where
  ι : Type
  fin : Fintype ι
  dec : DecidableEq ι
  mx : Matrix n k K
  Vx : Matrix n n K
  Cxy : Matrix n ι K
  Vy : Matrix ι ι K
  Vyi : Matrix ι ι K
  d : Matrix ι k K

attribute [instance] Joint.fin Joint.dec

variable {p : ℕ → Type} [∀ t, Fintype (p t)] [∀ t, DecidableEq (p t)]

/-- before the first period: nothing observed yet -/
def Joint.init (I : Inputs n q w k p K) : Joint n k K :=
  { ι := Empty, fin := inferInstance, dec := inferInstance, mx := I.aInit, Vx := I.QInit, Cxy := 0, Vy := 0, Vyi := 0, d := 0 }

/-- one period of the model: the state moves on, the rows observed in period `t` are appended to `Y` -/
def Joint.step (J : Joint n k K) (I : Inputs n q w k p K) (t : ℕ) : Joint n k K :=
  { ι := J.ι ⊕ p t, fin := inferInstance, dec := inferInstance
    mx := I.T * J.mx + I.Kc + I.P * I.u0 t
    Vx := I.T * J.Vx * I.Tᵀ + I.P * I.Su t * I.Pᵀ
    Cxy := fromCols (I.T * J.Cxy) ((I.T * J.Vx * I.Tᵀ + I.P * I.Su t * I.Pᵀ) * (I.Z t)ᵀ)
    Vy := fromBlocks J.Vy (I.Z t * (I.T * J.Cxy))ᵀ (I.Z t * (I.T * J.Cxy))
      (I.Z t * (I.T * J.Vx * I.Tᵀ + I.P * I.Su t * I.Pᵀ) * (I.Z t)ᵀ + I.H t * I.Sw t * (I.H t)ᵀ)
    Vyi := blockInv (I.Z t * (I.T * J.Cxy))ᵀ (I.Z t * (I.T * J.Cxy)) J.Vyi (I.Fi t)
    d := fromRows J.d (I.y t - (I.Z t * (I.T * J.mx + I.Kc + I.P * I.u0 t) + I.D t + I.H t * I.w0 t)) }

/-- `joint I t`: state handed to period `t` and all rows observed in periods `0 … t-1` -/
def joint (I : Inputs n q w k p K) : ℕ → Joint n k K
  | 0 => Joint.init I
  | t + 1 => (joint I t).step I t

/-- "`(a, Q)` are the conditional moments of the state given the stacked observations", with a certified symmetric inverse -/
structure Joint.Good (J : Joint n k K) (a : Matrix n k K) (Q : Matrix n n K) : Prop where
  inv : J.Vy * J.Vyi = 1
  VyiT : J.Vyiᵀ = J.Vyi
  VxT : J.Vxᵀ = J.Vx
  mean : a = condMean J.mx J.Cxy J.Vyi J.d
  cov : Q = condCov J.Vx J.Cxy J.Vyi J.Cxyᵀ

variable [Invertible (2 : K)]
variable (I : Inputs n q w k p K)

theorem Joint.init_good (hI : I.Regular) : (Joint.init I).Good I.aInit I.QInit where
  inv := by ext i; exact i.elim
  VyiT := by ext i; exact i.elim
  VxT := hI.QInit_symm
  mean := by
    show I.aInit = I.aInit + (0 : Matrix n Empty K) * (0 : Matrix Empty Empty K) * (0 : Matrix Empty k K)
    rw [Matrix.zero_mul, Matrix.zero_mul, add_zero]
  cov := by
    show I.QInit = I.QInit - (0 : Matrix n Empty K) * (0 : Matrix Empty Empty K) * (0 : Matrix n Empty K)ᵀ
    rw [Matrix.zero_mul, Matrix.zero_mul, sub_zero]

/-- one period: if the moments handed to period `t` are the conditional ones given the rows observed so far, the model's updated
moments are the conditional ones given those rows and the rows observed in period `t` -/
theorem Joint.step_good (hI : I.Regular) (t : ℕ) (J : Joint n k K) (hJ : J.Good (I.state t).1 (I.state t).2)
    (hF : I.F t * I.Fi t = 1) : (J.step I t).Good (I.state (t + 1)).1 (I.state (t + 1)).2 := by
  have hQ0 := I.Q0_eq hI t
  have hFe := I.F_eq hI t
  have hQ1 := I.Q1_eq hI t
  have hSchur : (I.Z t * (I.T * J.Vx * I.Tᵀ + I.P * I.Su t * I.Pᵀ) * (I.Z t)ᵀ + I.H t * I.Sw t * (I.H t)ᵀ
      - I.Z t * (I.T * J.Cxy) * J.Vyi * (I.Z t * (I.T * J.Cxy))ᵀ) * I.Fi t = 1 := by
    rw [← step_F_is_schur, ← hJ.cov, ← hQ0, ← hFe, hF]
  refine ⟨?_, ?_, ?_, ?_, ?_⟩
  · exact block_mul_blockInv J.Vy _ _ _ J.Vyi (I.Fi t) hJ.inv hSchur
  · exact blockInv_symm (Fi := I.Fi t) (Vyi := J.Vyi) _ hJ.VyiT (hI.Fi_symm t)
  · show (I.T * J.Vx * I.Tᵀ + I.P * I.Su t * I.Pᵀ)ᵀ = I.T * J.Vx * I.Tᵀ + I.P * I.Su t * I.Pᵀ
    simp only [Matrix.transpose_add, Matrix.transpose_mul, Matrix.transpose_transpose, hJ.VxT, hI.Su_symm t, Matrix.mul_assoc]
  · have h := step_mean I.T I.P I.Kc (I.Su t) (I.u0 t) (I.Z t) (I.H t) (I.D t) (I.w0 t) (I.Fi t) (I.y t) J.mx J.Vx J.Cxy J.Vyi J.d
      (I.state t).1 (I.state t).2 hJ.mean hJ.cov
    simp only at h
    rw [← hQ0] at h
    exact h
  · have h := step_cov I.T I.P (I.Su t) (I.Z t) (I.Fi t) J.Vx J.Cxy J.Vyi (I.state t).2 hJ.cov hJ.VxT (hI.Su_symm t)
    simp only at h
    rw [← hQ0] at h
    show I.Q1 t = _
    rw [hQ1]
    exact h

/-- **filter = exact Gaussian conditioning, N periods, any missing-data pattern.**  For every `t`: the moments `(a, Q)` the filter
hands to period `t` (the initial ones for `t = 0`, the updated ones `a1 (t-1), Q1 (t-1)` after) are the conditional mean and
covariance of the state given the stacked vector of ALL rows observed in periods `0 … t-1`, computed in the joint Gaussian of the
stacked system — `prior mean + C Σ⁻¹ (Y − μ)`, `V − C Σ⁻¹ Cᵀ` — and `Σ⁻¹ = (joint I t).Vyi` is a genuine (two-sided, symmetric)
inverse of the stacked covariance.  Hypothesis: `F_s Fi_s = 1` for the periods used (re-checked exactly by the executable model). -/
theorem filter_is_conditioning (hI : I.Regular) (t : ℕ) (hF : ∀ s, s < t → I.F s * I.Fi s = 1) :
    (joint I t).Good (I.state t).1 (I.state t).2 := by
  induction t with
  | zero => exact Joint.init_good I hI
  | succ t ih =>
    exact Joint.step_good I hI t (joint I t) (ih (fun s hs => hF s (by omega))) (hF t (by omega))

/-- the same with ANY right inverse of the stacked covariance (it is unique) -/
theorem filter_is_conditioning' (hI : I.Regular) (t : ℕ) (hF : ∀ s, s < t → I.F s * I.Fi s = 1)
    (Si : Matrix (joint I t).ι (joint I t).ι K) (hSi : (joint I t).Vy * Si = 1) :
    (I.state t).1 = condMean (joint I t).mx (joint I t).Cxy Si (joint I t).d
    ∧ (I.state t).2 = condCov (joint I t).Vx (joint I t).Cxy Si (joint I t).Cxyᵀ := by
  have h := filter_is_conditioning I hI t hF
  have hSi' : Si * (joint I t).Vy = 1 := mul_eq_one_comm.mp hSi
  have e : Si = (joint I t).Vyi := by
    calc Si = Si * ((joint I t).Vy * (joint I t).Vyi) := by rw [h.inv, Matrix.mul_one]
      _ = (joint I t).Vyi := by rw [← Matrix.mul_assoc, hSi', Matrix.one_mul]
  rw [e]
  exact ⟨h.mean, h.cov⟩

/-- predicted moments of period `t` = conditional moments given the rows observed in periods `0 … t-1`, pushed through the
transition equation -/
theorem predict_is_conditioning (hI : I.Regular) (t : ℕ) (hF : ∀ s, s < t → I.F s * I.Fi s = 1) :
    I.a0 t = condMean (I.T * (joint I t).mx + I.Kc + I.P * I.u0 t) (I.T * (joint I t).Cxy) (joint I t).Vyi (joint I t).d
    ∧ I.Q0 t = condCov (I.T * (joint I t).Vx * I.Tᵀ + I.P * I.Su t * I.Pᵀ) (I.T * (joint I t).Cxy) (joint I t).Vyi
        (I.T * (joint I t).Cxy)ᵀ := by
  have h := filter_is_conditioning I hI t hF
  constructor
  · show I.T * (I.state t).1 + I.Kc + I.P * I.u0 t = _
    rw [h.mean]
    simp only [condMean, Matrix.mul_add, Matrix.mul_assoc]; abel
  · rw [I.Q0_eq hI t, h.cov]
    simp only [condCov, Matrix.transpose_mul, Matrix.mul_sub, Matrix.sub_mul, Matrix.mul_assoc]; abel


/-- one period of the likelihood decomposition: the determinant of the stacked covariance gains the factor `det F_t`, the stacked
quadratic form gains `pe_tᵀ Fi_t pe_t` -/
theorem Joint.step_likelihood (hI : I.Regular) (t : ℕ) (J : Joint n k K) (hJ : J.Good (I.state t).1 (I.state t).2) :
    (J.step I t).Vy.det = J.Vy.det * (I.F t).det
    ∧ (J.step I t).dᵀ * (J.step I t).Vyi * (J.step I t).d = J.dᵀ * J.Vyi * J.d + (I.pe t)ᵀ * I.Fi t * I.pe t := by
  have hQ0 := I.Q0_eq hI t
  have hFe : I.F t = (I.Z t * (I.T * J.Vx * I.Tᵀ + I.P * I.Su t * I.Pᵀ) * (I.Z t)ᵀ + I.H t * I.Sw t * (I.H t)ᵀ)
      - I.Z t * (I.T * J.Cxy) * J.Vyi * (I.Z t * (I.T * J.Cxy))ᵀ := by
    rw [← step_F_is_schur, ← hJ.cov, ← hQ0, ← I.F_eq hI t]
  have hpe : I.pe t = (I.y t - (I.Z t * (I.T * J.mx + I.Kc + I.P * I.u0 t) + I.D t + I.H t * I.w0 t))
      - I.Z t * (I.T * J.Cxy) * J.Vyi * J.d := by
    rw [← step_pe_is_innovation, ← hJ.mean]
    rfl
  constructor
  · rw [hFe]
    exact step_det J.Vyi J.Vy _ _ _ hJ.inv
  · rw [hpe]
    exact quadform_block (I.Z t * (I.T * J.Cxy))ᵀ (I.Z t * (I.T * J.Cxy)) J.Vyi (I.Fi t) J.d _
      (Matrix.transpose_transpose _).symm hJ.VyiT

/-- **likelihood = stacked Gaussian density, N periods, any missing-data pattern.**  The product of the determinants of the
per-period prediction-error covariances is the determinant of the covariance of the stacked observations (so
`Σ_t log det F_t = log det Σ_Y`), and the sum of the per-period quadratic forms is the quadratic form of the stacked vector,
`Σ_t pe_tᵀ Fi_t pe_t = (Y−μ)ᵀ Σ_Y⁻¹ (Y−μ)`: the value reported by `calculate_likelihood` is the negative log-density of the
observed data under the model's joint Gaussian distribution. -/
theorem likelihood_is_stacked_density (hI : I.Regular) (t : ℕ) (hF : ∀ s, s < t → I.F s * I.Fi s = 1) :
    ∏ s ∈ Finset.range t, (I.F s).det = (joint I t).Vy.det
    ∧ ∑ s ∈ Finset.range t, (I.pe s)ᵀ * I.Fi s * I.pe s = (joint I t).dᵀ * (joint I t).Vyi * (joint I t).d := by
  induction t with
  | zero =>
    constructor
    · rw [Finset.prod_range_zero]
      show (1 : K) = (0 : Matrix Empty Empty K).det
      exact det_isEmpty.symm
    · rw [Finset.sum_range_zero]
      show (0 : Matrix k k K) = (0 : Matrix Empty k K)ᵀ * (0 : Matrix Empty Empty K) * (0 : Matrix Empty k K)
      rw [Matrix.mul_zero]
  | succ t ih =>
    have ih' := ih (fun s hs => hF s (by omega))
    have hJ := filter_is_conditioning I hI t (fun s hs => hF s (by omega))
    have h := Joint.step_likelihood I hI t (joint I t) hJ
    constructor
    · rw [Finset.prod_range_succ, ih'.1]
      exact h.1.symm
    · rw [Finset.sum_range_succ, ih'.2]
      exact h.2.symm


/-! ### the stacked prior moments are the push-forward of the model's primitives -/

section pushforward
variable {o p : Type} [Fintype o] [Fintype p] [DecidableEq o] [DecidableEq p]

theorem fromCols_add' {a b c : Type} (A C : Matrix a b K) (B D : Matrix a c K) :
    fromCols A B + fromCols C D = fromCols (A + C) (B + D) := by
  ext i (j | j) <;> simp

theorem fromRows_add' {a b c : Type} (A C : Matrix a c K) (B D : Matrix b c K) :
    fromRows A B + fromRows C D = fromRows (A + C) (B + D) := by
  ext (i | i) j <;> simp

/-- `Joint.step` is the push-forward of second moments: with `cov((ξ,Y)) = ((Vx, Cxy),(Cxyᵀ, Vy))` and shocks `u ~ Su`, `w ~ Sw`
uncorrelated with `(ξ, Y)` and with each other, the covariance of `(ξ', (Y, y))`, `ξ' = Tξ + Pu`, `y = Zξ' + Hw`, is
`((Vx', Cxy'),(Cxy'ᵀ, Vy'))` with exactly the blocks `Joint.step` builds. -/
theorem joint_step_is_pushforward (T : Matrix n n K) (P : Matrix n q K) (Z : Matrix p n K) (H : Matrix p w K)
    (Vx : Matrix n n K) (Cxy : Matrix n o K) (Vy : Matrix o o K) (Su : Matrix q q K) (Sw : Matrix w w K) :
    let M : Matrix (n ⊕ (o ⊕ p)) ((n ⊕ o) ⊕ (q ⊕ w)) K :=
      fromBlocks (fromCols T 0) (fromCols P 0) (fromBlocks 0 1 (Z * T) 0) (fromBlocks 0 0 (Z * P) H)
    let S : Matrix ((n ⊕ o) ⊕ (q ⊕ w)) ((n ⊕ o) ⊕ (q ⊕ w)) K :=
      fromBlocks (fromBlocks Vx Cxy Cxyᵀ Vy) 0 0 (fromBlocks Su 0 0 Sw)
    let Vx' := T * Vx * Tᵀ + P * Su * Pᵀ
    M * S * Mᵀ = fromBlocks Vx' (fromCols (T * Cxy) (Vx' * Zᵀ)) (fromRows (Cxyᵀ * Tᵀ) (Z * Vx'))
      (fromBlocks Vy (Z * (T * Cxy))ᵀ (Z * (T * Cxy)) (Z * Vx' * Zᵀ + H * Sw * Hᵀ)) := by
  intro M S Vx'
  simp only [M, S, Vx', fromBlocks_transpose, transpose_fromCols, fromBlocks_multiply, fromCols_mul_fromBlocks,
    fromCols_mul_fromRows, Matrix.transpose_zero, Matrix.transpose_one, Matrix.mul_zero, Matrix.zero_mul, Matrix.mul_one,
    Matrix.one_mul, add_zero, zero_add, Matrix.transpose_mul, Matrix.transpose_add, Matrix.transpose_transpose,
    fromBlocks_mul_fromRows, fromBlocks_add, fromCols_add', fromRows_add', Matrix.mul_add, Matrix.add_mul, Matrix.mul_assoc,
    add_assoc]

open IrisVerif.KalmanAbs in
/-- the blocks `Joint.step` builds ARE that push-forward: the prior second moments of `(ξ', (Y, y))` after period `t` are the
second moments of `(ξ, Y, u_t, w_t)` pushed through the model's equations -/
theorem Joint.step_is_pushforward {pp : ℕ → Type} [∀ t, Fintype (pp t)] [∀ t, DecidableEq (pp t)]
    (J : Joint n k K) (I : Inputs n q w k pp K) (t : ℕ) (hVx : J.Vxᵀ = J.Vx) (hSu : (I.Su t)ᵀ = I.Su t) :
    let M : Matrix (n ⊕ (J.ι ⊕ pp t)) ((n ⊕ J.ι) ⊕ (q ⊕ w)) K :=
      fromBlocks (fromCols I.T 0) (fromCols I.P 0) (fromBlocks 0 1 (I.Z t * I.T) 0) (fromBlocks 0 0 (I.Z t * I.P) (I.H t))
    M * fromBlocks (fromBlocks J.Vx J.Cxy J.Cxyᵀ J.Vy) 0 0 (fromBlocks (I.Su t) 0 0 (I.Sw t)) * Mᵀ
      = fromBlocks (J.step I t).Vx (J.step I t).Cxy (J.step I t).Cxyᵀ (J.step I t).Vy := by
  intro M
  have h := joint_step_is_pushforward I.T I.P (I.Z t) (I.H t) J.Vx J.Cxy J.Vy (I.Su t) (I.Sw t)
  simp only at h
  rw [h]
  have hV' : (I.T * J.Vx * I.Tᵀ + I.P * I.Su t * I.Pᵀ)ᵀ = I.T * J.Vx * I.Tᵀ + I.P * I.Su t * I.Pᵀ := by
    simp only [Matrix.transpose_add, Matrix.transpose_mul, Matrix.transpose_transpose, hVx, hSu, Matrix.mul_assoc]
  show _ = fromBlocks _ (fromCols (I.T * J.Cxy) ((I.T * J.Vx * I.Tᵀ + I.P * I.Su t * I.Pᵀ) * (I.Z t)ᵀ))
    (fromCols (I.T * J.Cxy) ((I.T * J.Vx * I.Tᵀ + I.P * I.Su t * I.Pᵀ) * (I.Z t)ᵀ))ᵀ _
  rw [transpose_fromCols, Matrix.transpose_mul (I.T * J.Vx * I.Tᵀ + I.P * I.Su t * I.Pᵀ), hV', Matrix.transpose_transpose,
    Matrix.transpose_mul I.T]
  rfl

end pushforward

/-! ### smoother = conditioning on all observations -/

section smoothing

/-- conditional cross-covariance of `z` and `x` given `y`: `cov(z,x) − cov(z,y) Σ_y⁻¹ cov(y,x)` (`condCov` is the case `z = x`) -/
def condCross {c a b : Type} [Fintype b] (Szx : Matrix c a K) (Szy : Matrix c b K) (Si : Matrix b b K) (Syx : Matrix b a K) :
    Matrix c a K := Szx - Szy * Si * Syx

theorem condCov_eq_condCross {a b : Type} [Fintype b] (Sxx : Matrix a a K) (Sxy : Matrix a b K) (Si : Matrix b b K)
    (Syx : Matrix b a K) : condCov Sxx Sxy Si Syx = condCross Sxx Sxy Si Syx := rfl

section crossSchur
variable {m₁ m₂ c a : Type} [Fintype m₁] [Fintype m₂] [DecidableEq m₁] [DecidableEq m₂]

/-- sequential = joint conditioning for cross-covariances (rectangular version of `sequential_eq_joint_cov`) -/
theorem sequential_eq_joint_cross (S12 : Matrix m₁ m₂ K) (S21 : Matrix m₂ m₁ K) (S11i : Matrix m₁ m₁ K) (W : Matrix m₂ m₂ K)
    (Szx : Matrix c a K) (Sz1 : Matrix c m₁ K) (Sz2 : Matrix c m₂ K) (S1x : Matrix m₁ a K) (S2x : Matrix m₂ a K) :
    condCross (condCross Szx Sz1 S11i S1x) (Sz2 - Sz1 * S11i * S12) W (S2x - S21 * S11i * S1x)
      = condCross Szx (fromCols Sz1 Sz2) (blockInv S12 S21 S11i W) (fromRows S1x S2x) := by
  unfold condCross blockInv
  rw [fromCols_mul_fromBlocks, fromCols_mul_fromRows]
  simp only [Matrix.mul_add, Matrix.mul_sub, Matrix.add_mul, Matrix.sub_mul, Matrix.mul_neg, Matrix.neg_mul, Matrix.mul_assoc]
  abel

end crossSchur

section trackstep
variable {o p nz : Type} [Fintype o] [Fintype p] [Fintype nz] [DecidableEq o] [DecidableEq p] [DecidableEq nz]
variable (T : Matrix n n K) (P : Matrix n q K) (Kc : Matrix n k K) (Su : Matrix q q K) (u0 : Matrix q k K)
  (Z : Matrix p n K) (H : Matrix p w K) (D : Matrix p k K) (Sw : Matrix w w K) (w0 : Matrix w k K) (Fi : Matrix p p K)
  (y : Matrix p k K)
  (mx : Matrix n k K) (Vx : Matrix n n K) (Cxy : Matrix n o K) (Vyi : Matrix o o K) (d : Matrix o k K)
  (mz : Matrix nz k K) (Vz : Matrix nz nz K) (Czx : Matrix nz n K) (Czy : Matrix nz o K)

/-- tracked vector, mean -/
theorem track_mean (a : Matrix n k K) (zh : Matrix nz k K) (M : Matrix nz n K)
    (ha : a = condMean mx Cxy Vyi d) (hz : zh = condMean mz Czy Vyi d) (hM : M = condCross Czx Czy Vyi Cxyᵀ) :
    let pe := y - (Z * (T * a + Kc + P * u0) + D + H * w0)
    zh + M * Tᵀ * (Zᵀ * Fi * pe)
      = condMean mz (fromCols Czy (Czx * Tᵀ * Zᵀ)) (blockInv (Z * (T * Cxy))ᵀ (Z * (T * Cxy)) Vyi Fi)
          (fromRows d (y - (Z * (T * mx + Kc + P * u0) + D + H * w0))) := by
  intro pe
  rw [← sequential_eq_joint_mean]
  have h2 : M * Tᵀ * Zᵀ = Czx * Tᵀ * Zᵀ - Czy * Vyi * (Z * (T * Cxy))ᵀ := by
    simp only [hM, condCross, Matrix.transpose_mul, Matrix.sub_mul, Matrix.mul_assoc]
  have h3 : pe = (y - (Z * (T * mx + Kc + P * u0) + D + H * w0)) - Z * (T * Cxy) * Vyi * d := by
    simp only [pe, ha]
    exact step_pe_is_innovation T P Kc u0 Z H D w0 y mx Cxy Vyi d
  rw [← hz, ← h2, ← h3]
  unfold condMean
  simp only [Matrix.mul_assoc]

/-- tracked vector, conditional cross-covariance with the state -/
theorem track_cross (Q : Matrix n n K) (M : Matrix nz n K)
    (hQ : Q = condCov Vx Cxy Vyi Cxyᵀ) (hM : M = condCross Czx Czy Vyi Cxyᵀ) (hVx : Vxᵀ = Vx) (hSu : Suᵀ = Su) :
    let Q0 := T * Q * Tᵀ + P * Su * Pᵀ
    M * Tᵀ - M * Tᵀ * (Zᵀ * Fi * (Z * Q0))
      = condCross (Czx * Tᵀ) (fromCols Czy (Czx * Tᵀ * Zᵀ)) (blockInv (Z * (T * Cxy))ᵀ (Z * (T * Cxy)) Vyi Fi)
          (fromCols (T * Cxy) ((T * Vx * Tᵀ + P * Su * Pᵀ) * Zᵀ))ᵀ := by
  intro Q0
  have hV' : (T * Vx * Tᵀ + P * Su * Pᵀ)ᵀ = T * Vx * Tᵀ + P * Su * Pᵀ := by
    simp only [Matrix.transpose_add, Matrix.transpose_mul, Matrix.transpose_transpose, hVx, hSu, Matrix.mul_assoc]
  rw [transpose_fromCols, Matrix.transpose_mul ((T * Vx * Tᵀ + P * Su * Pᵀ)) Zᵀ, hV', Matrix.transpose_transpose,
    ← sequential_eq_joint_cross]
  have h1 : M * Tᵀ = condCross (Czx * Tᵀ) Czy Vyi (T * Cxy)ᵀ := by
    simp only [hM, condCross, Matrix.transpose_mul, Matrix.sub_mul, Matrix.mul_assoc]
  have h2 : M * Tᵀ * Zᵀ = Czx * Tᵀ * Zᵀ - Czy * Vyi * (Z * (T * Cxy))ᵀ := by
    simp only [hM, condCross, Matrix.transpose_mul, Matrix.sub_mul, Matrix.mul_assoc]
  have h3 : Z * Q0 = Z * (T * Vx * Tᵀ + P * Su * Pᵀ) - Z * (T * Cxy) * Vyi * (T * Cxy)ᵀ := by
    simp only [Q0, hQ, condCov, Matrix.transpose_mul, Matrix.mul_sub, Matrix.sub_mul, Matrix.mul_add, Matrix.add_mul,
      Matrix.mul_assoc]
    abel
  rw [← h1, ← h2, ← h3]
  unfold condCross
  simp only [Matrix.mul_assoc]

/-- tracked vector, conditional covariance -/
theorem track_var (M : Matrix nz n K) (Pz : Matrix nz nz K)
    (hM : M = condCross Czx Czy Vyi Cxyᵀ) (hP : Pz = condCross Vz Czy Vyi Czyᵀ) (hVyi : Vyiᵀ = Vyi) :
    Pz - M * Tᵀ * (Zᵀ * Fi * (Z * (T * Mᵀ)))
      = condCross Vz (fromCols Czy (Czx * Tᵀ * Zᵀ)) (blockInv (Z * (T * Cxy))ᵀ (Z * (T * Cxy)) Vyi Fi)
          (fromCols Czy (Czx * Tᵀ * Zᵀ))ᵀ := by
  rw [transpose_fromCols, ← sequential_eq_joint_cross]
  have h2 : M * Tᵀ * Zᵀ = Czx * Tᵀ * Zᵀ - Czy * Vyi * (Z * (T * Cxy))ᵀ := by
    simp only [hM, condCross, Matrix.transpose_mul, Matrix.sub_mul, Matrix.mul_assoc]
  have h3 : Z * (T * Mᵀ) = (Czx * Tᵀ * Zᵀ)ᵀ - Z * (T * Cxy) * Vyi * Czyᵀ := by
    simp only [hM, condCross, Matrix.transpose_sub, Matrix.transpose_mul, Matrix.transpose_transpose, hVyi, Matrix.mul_sub,
      Matrix.mul_assoc]
  rw [← hP, ← h2, ← h3]
  unfold condCross
  simp only [Matrix.mul_assoc]

/-- a vector `z` uncorrelated with the past (`cov(z, Y) = 0`) whose covariance with the new block is `Sz2`: mean -/
theorem start_mean (a : Matrix n k K) (Sz2 : Matrix nz p K) (ha : a = condMean mx Cxy Vyi d) :
    let pe := y - (Z * (T * a + Kc + P * u0) + D + H * w0)
    mz + Sz2 * (Fi * pe)
      = condMean mz (fromCols (0 : Matrix nz o K) Sz2) (blockInv (Z * (T * Cxy))ᵀ (Z * (T * Cxy)) Vyi Fi)
          (fromRows d (y - (Z * (T * mx + Kc + P * u0) + D + H * w0))) := by
  intro pe
  rw [← sequential_eq_joint_mean]
  have h3 : pe = (y - (Z * (T * mx + Kc + P * u0) + D + H * w0)) - Z * (T * Cxy) * Vyi * d := by
    simp only [pe, ha]
    exact step_pe_is_innovation T P Kc u0 Z H D w0 y mx Cxy Vyi d
  rw [← h3]
  unfold condMean
  simp only [Matrix.zero_mul, add_zero, sub_zero, Matrix.mul_assoc]

/-- … cross-covariance with the new state (`Cz = cov(z, ξ')` a priori) -/
theorem start_cross (Q : Matrix n n K) (Cz : Matrix nz n K) (Sz2 : Matrix nz p K)
    (hQ : Q = condCov Vx Cxy Vyi Cxyᵀ) (hVx : Vxᵀ = Vx) (hSu : Suᵀ = Su) :
    let Q0 := T * Q * Tᵀ + P * Su * Pᵀ
    Cz - Sz2 * (Fi * (Z * Q0))
      = condCross Cz (fromCols (0 : Matrix nz o K) Sz2) (blockInv (Z * (T * Cxy))ᵀ (Z * (T * Cxy)) Vyi Fi)
          (fromCols (T * Cxy) ((T * Vx * Tᵀ + P * Su * Pᵀ) * Zᵀ))ᵀ := by
  intro Q0
  have hV' : (T * Vx * Tᵀ + P * Su * Pᵀ)ᵀ = T * Vx * Tᵀ + P * Su * Pᵀ := by
    simp only [Matrix.transpose_add, Matrix.transpose_mul, Matrix.transpose_transpose, hVx, hSu, Matrix.mul_assoc]
  rw [transpose_fromCols, Matrix.transpose_mul ((T * Vx * Tᵀ + P * Su * Pᵀ)) Zᵀ, hV', Matrix.transpose_transpose,
    ← sequential_eq_joint_cross]
  have h3 : Z * Q0 = Z * (T * Vx * Tᵀ + P * Su * Pᵀ) - Z * (T * Cxy) * Vyi * (T * Cxy)ᵀ := by
    simp only [Q0, hQ, condCov, Matrix.transpose_mul, Matrix.mul_sub, Matrix.sub_mul, Matrix.mul_add, Matrix.add_mul,
      Matrix.mul_assoc]
    abel
  rw [← h3]
  unfold condCross
  simp only [Matrix.zero_mul, sub_zero, Matrix.mul_assoc]

/-- … covariance -/
theorem start_var (Sz2 : Matrix nz p K) :
    Vz - Sz2 * (Fi * Sz2ᵀ)
      = condCross Vz (fromCols (0 : Matrix nz o K) Sz2) (blockInv (Z * (T * Cxy))ᵀ (Z * (T * Cxy)) Vyi Fi)
          (fromCols (0 : Matrix nz o K) Sz2)ᵀ := by
  rw [transpose_fromCols, ← sequential_eq_joint_cross]
  unfold condCross
  simp only [Matrix.zero_mul, Matrix.transpose_zero, Matrix.mul_zero, sub_zero, Matrix.mul_assoc]

end trackstep

/-! ### smoother = conditioning on ALL observations

`JointZ` = a `Joint` together with a tracked vector `z` (the state of a fixed period `t`, or its transition / measurement shocks):
prior mean `mz`, prior covariance `Vz`, prior cross-covariance `Czx` with the state currently handed over and `Czy` with the
stacked observations.  `JointZ.step` continues the model's moment recursion for them: later shocks are uncorrelated with `z`, so
`cov(z, ξ') = cov(z, ξ) Tᵀ` and `cov(z, y) = cov(z, ξ') Zᵀ`. -/

structure JointZ (n nz k : Type) (K : Type) extends Joint n k K where
  mz : Matrix nz k K
  Vz : Matrix nz nz K
  Czx : Matrix nz n K
  Czy : Matrix nz ι K

variable {nz : Type} [Fintype nz] [DecidableEq nz]

def JointZ.step (Zj : JointZ n nz k K) (I : Inputs n q w k p K) (s : ℕ) : JointZ n nz k K :=
  { toJoint := Zj.toJoint.step I s
    mz := Zj.mz
    Vz := Zj.Vz
    Czx := Zj.Czx * I.Tᵀ
    Czy := fromCols Zj.Czy (Zj.Czx * I.Tᵀ * (I.Z s)ᵀ) }

/-- `z` tracked through the periods `t+1 … t+j` -/
def track (I : Inputs n q w k p K) (t : ℕ) (Z0 : JointZ n nz k K) : ℕ → JointZ n nz k K
  | 0 => Z0
  | j + 1 => (track I t Z0 j).step I (t + 1 + j)

/-- "`zh`, `M`, `Pz` are the conditional mean of `z`, its conditional cross-covariance with the state handed over, and its
conditional covariance, given the stacked rows" -/
structure JointZ.Tracks (Zj : JointZ n nz k K) (zh : Matrix nz k K) (M : Matrix nz n K) (Pz : Matrix nz nz K) : Prop where
  mean : zh = condMean Zj.mz Zj.Czy Zj.Vyi Zj.d
  cross : M = condCross Zj.Czx Zj.Czy Zj.Vyi Zj.Cxyᵀ
  var : Pz = condCross Zj.Vz Zj.Czy Zj.Vyi Zj.Czyᵀ


/-- fixed-point form of the smoother: conditional mean, cross-covariance and covariance of `z` after `j` more periods -/
def fpsFrom (t : ℕ) (z0 : Matrix nz k K) (M0 : Matrix nz n K) (P0 : Matrix nz nz K) :
    ℕ → Matrix nz k K × Matrix nz n K × Matrix nz nz K
  | 0 => (z0, M0, P0)
  | j + 1 =>
    ((fpsFrom t z0 M0 P0 j).1 + (fpsFrom t z0 M0 P0 j).2.1 * I.Tᵀ * ((I.Z (t + 1 + j))ᵀ * I.Fi (t + 1 + j) * I.pe (t + 1 + j)),
     (fpsFrom t z0 M0 P0 j).2.1 * I.Tᵀ
       - (fpsFrom t z0 M0 P0 j).2.1 * I.Tᵀ * ((I.Z (t + 1 + j))ᵀ * I.Fi (t + 1 + j) * (I.Z (t + 1 + j) * I.Q0 (t + 1 + j))),
     (fpsFrom t z0 M0 P0 j).2.2
       - (fpsFrom t z0 M0 P0 j).2.1 * I.Tᵀ * ((I.Z (t + 1 + j))ᵀ * I.Fi (t + 1 + j)
          * (I.Z (t + 1 + j) * (I.T * ((fpsFrom t z0 M0 P0 j).2.1)ᵀ))))

theorem track_good (hI : I.Regular) (t : ℕ) (Z0 : JointZ n nz k K) (z0 : Matrix nz k K) (M0 : Matrix nz n K)
    (P0 : Matrix nz nz K) (hG0 : Z0.toJoint.Good (I.state (t + 1)).1 (I.state (t + 1)).2) (hT0 : Z0.Tracks z0 M0 P0)
    (j : ℕ) (hF : ∀ s, s < t + 1 + j → I.F s * I.Fi s = 1) :
    (track I t Z0 j).toJoint.Good (I.state (t + 1 + j)).1 (I.state (t + 1 + j)).2
    ∧ (track I t Z0 j).Tracks (fpsFrom I t z0 M0 P0 j).1 (fpsFrom I t z0 M0 P0 j).2.1 (fpsFrom I t z0 M0 P0 j).2.2 := by
  induction j with
  | zero => exact ⟨hG0, hT0⟩
  | succ j ih =>
    obtain ⟨hG, hT⟩ := ih (fun s hs => hF s (by omega))
    have hFj : I.F (t + 1 + j) * I.Fi (t + 1 + j) = 1 := hF _ (by omega)
    refine ⟨Joint.step_good I hI (t + 1 + j) _ hG hFj, ?_, ?_, ?_⟩
    · exact track_mean I.T I.P I.Kc (I.u0 (t + 1 + j)) (I.Z (t + 1 + j)) (I.H (t + 1 + j)) (I.D (t + 1 + j))
        (I.w0 (t + 1 + j)) (I.Fi (t + 1 + j)) (I.y (t + 1 + j)) (track I t Z0 j).mx (track I t Z0 j).Cxy
        (track I t Z0 j).Vyi (track I t Z0 j).d (track I t Z0 j).mz (track I t Z0 j).Czx (track I t Z0 j).Czy
        (I.state (t + 1 + j)).1 _ _ hG.mean hT.mean hT.cross
    · have h := track_cross I.T I.P (I.Su (t + 1 + j)) (I.Z (t + 1 + j)) (I.Fi (t + 1 + j)) (track I t Z0 j).Vx
        (track I t Z0 j).Cxy (track I t Z0 j).Vyi (track I t Z0 j).Czx (track I t Z0 j).Czy
        (I.state (t + 1 + j)).2 _ hG.cov hT.cross hG.VxT (hI.Su_symm _)
      simp only at h
      rw [← I.Q0_eq hI (t + 1 + j)] at h
      exact h
    · exact track_var I.T (I.Z (t + 1 + j)) (I.Fi (t + 1 + j)) (track I t Z0 j).Cxy (track I t Z0 j).Vyi
        (track I t Z0 j).Vz (track I t Z0 j).Czx (track I t Z0 j).Czy _ _ hT.cross hT.var hG.VyiT

theorem L_transpose (hI : I.Regular) (s : ℕ) :
    (I.L s)ᵀ = I.Tᵀ - (I.Z s)ᵀ * (I.Fi s * I.Z s * I.Q0 s) * I.Tᵀ := by
  unfold Inputs.L
  rw [Matrix.transpose_sub, Matrix.transpose_mul, Matrix.transpose_mul, I.G_transpose hI s]
  simp only [Matrix.mul_assoc]

theorem L_eq (s : ℕ) : I.L s = I.T - I.T * (I.Q0 s * ((I.Z s)ᵀ * I.Fi s)) * I.Z s := rfl

/-- `ẑ_i + M_i Tᵀ r_{t+1+i}` does not depend on `i`: one forward step of the fixed-point recursion absorbs one backward step of `r` -/
theorem fps_mean_invariant (hI : I.Regular) (N t : ℕ) (z0 : Matrix nz k K) (M0 : Matrix nz n K) (P0 : Matrix nz nz K)
    (i : ℕ) (hi : t + 1 + i ≤ N) :
    z0 + M0 * I.Tᵀ * I.r N (t + 1)
      = (fpsFrom I t z0 M0 P0 i).1 + (fpsFrom I t z0 M0 P0 i).2.1 * I.Tᵀ * I.r N (t + 1 + i) := by
  induction i with
  | zero => rfl
  | succ i ih =>
    rw [ih (by omega), I.r_of_lt (show t + 1 + i < N by omega), L_transpose I hI (t + 1 + i)]
    have hZ : I.ZtFi (t + 1 + i) = (I.Z (t + 1 + i))ᵀ * I.Fi (t + 1 + i) := rfl
    rw [hZ]
    show _ = ((fpsFrom I t z0 M0 P0 i).1
        + (fpsFrom I t z0 M0 P0 i).2.1 * I.Tᵀ * ((I.Z (t + 1 + i))ᵀ * I.Fi (t + 1 + i) * I.pe (t + 1 + i)))
      + ((fpsFrom I t z0 M0 P0 i).2.1 * I.Tᵀ - (fpsFrom I t z0 M0 P0 i).2.1 * I.Tᵀ
          * ((I.Z (t + 1 + i))ᵀ * I.Fi (t + 1 + i) * (I.Z (t + 1 + i) * I.Q0 (t + 1 + i)))) * I.Tᵀ * I.r N (t + 1 + i + 1)
    simp only [Matrix.mul_add, Matrix.mul_sub, Matrix.add_mul, Matrix.sub_mul, Matrix.mul_assoc]
    abel

/-- `P_i − M_i Tᵀ N_{t+1+i} T M_iᵀ` does not depend on `i` -/
theorem fps_var_invariant (hI : I.Regular) (N t : ℕ) (z0 : Matrix nz k K) (M0 : Matrix nz n K) (P0 : Matrix nz nz K)
    (i : ℕ) (hi : t + 1 + i ≤ N) :
    P0 - M0 * I.Tᵀ * I.Nm N (t + 1) * (I.T * M0ᵀ)
      = (fpsFrom I t z0 M0 P0 i).2.2
        - (fpsFrom I t z0 M0 P0 i).2.1 * I.Tᵀ * I.Nm N (t + 1 + i) * (I.T * ((fpsFrom I t z0 M0 P0 i).2.1)ᵀ) := by
  induction i with
  | zero => rfl
  | succ i ih =>
    rw [ih (by omega), I.Nm_of_lt (show t + 1 + i < N by omega), L_transpose I hI (t + 1 + i), L_eq I (t + 1 + i)]
    have hZ : I.ZtFi (t + 1 + i) = (I.Z (t + 1 + i))ᵀ * I.Fi (t + 1 + i) := rfl
    have hQ := I.Q0_symm (t + 1 + i)
    have hFi := hI.Fi_symm (t + 1 + i)
    rw [hZ]
    show _ = ((fpsFrom I t z0 M0 P0 i).2.2
        - (fpsFrom I t z0 M0 P0 i).2.1 * I.Tᵀ * ((I.Z (t + 1 + i))ᵀ * I.Fi (t + 1 + i)
          * (I.Z (t + 1 + i) * (I.T * ((fpsFrom I t z0 M0 P0 i).2.1)ᵀ))))
      - ((fpsFrom I t z0 M0 P0 i).2.1 * I.Tᵀ - (fpsFrom I t z0 M0 P0 i).2.1 * I.Tᵀ
          * ((I.Z (t + 1 + i))ᵀ * I.Fi (t + 1 + i) * (I.Z (t + 1 + i) * I.Q0 (t + 1 + i)))) * I.Tᵀ * I.Nm N (t + 1 + i + 1)
        * (I.T * ((fpsFrom I t z0 M0 P0 i).2.1 * I.Tᵀ - (fpsFrom I t z0 M0 P0 i).2.1 * I.Tᵀ
          * ((I.Z (t + 1 + i))ᵀ * I.Fi (t + 1 + i) * (I.Z (t + 1 + i) * I.Q0 (t + 1 + i))))ᵀ)
    simp only [Matrix.transpose_sub, Matrix.transpose_mul, Matrix.transpose_transpose, hQ, hFi,
      Matrix.mul_add, Matrix.mul_sub, Matrix.add_mul, Matrix.sub_mul, Matrix.mul_assoc]
    abel


/-! #### the state of period `t` -/

/-- start tracking the state currently handed over -/
def JointZ.startState (J : Joint n k K) : JointZ n n k K :=
  { toJoint := J, mz := J.mx, Vz := J.Vx, Czx := J.Vx, Czy := J.Cxy }

/-- stacked system in which the state of period `t` is tracked through a sample of `t+1+j` periods -/
def smoothJoint (t j : ℕ) : JointZ n n k K := track I t (JointZ.startState (joint I (t + 1))) j

/-- the code's smoothed state in updated form: `a₂(t) = a₁(t) + Q₁(t) Tᵀ r_{t+1}` -/
theorem a2_eq_updated (hI : I.Regular) {N t : ℕ} (ht : t < N) :
    I.a2 N t = I.a1 t + I.Q1 t * I.Tᵀ * I.r N (t + 1) := by
  unfold Inputs.a2
  rw [I.r_of_lt ht, I.Q1_eq hI t, L_transpose I hI t]
  have ha1 : I.a1 t = I.a0 t + I.G t * I.pe t := rfl
  have hG : I.G t = I.Q0 t * ((I.Z t)ᵀ * I.Fi t) := rfl
  have hZ : I.ZtFi t = (I.Z t)ᵀ * I.Fi t := rfl
  rw [ha1, hG, hZ]
  simp only [Matrix.mul_add, Matrix.mul_sub, Matrix.add_mul, Matrix.sub_mul, Matrix.mul_assoc]
  abel

/-- the code's smoothed MSE in updated form: `Q₂(t) = Q₁(t) − Q₁(t) Tᵀ N_{t+1} T Q₁(t)ᵀ` -/
theorem Q2_eq_updated (hI : I.Regular) {N t : ℕ} (ht : t < N) :
    I.Q2 N t = I.Q1 t - I.Q1 t * I.Tᵀ * I.Nm N (t + 1) * (I.T * (I.Q1 t)ᵀ) := by
  rw [I.Q2_eq hI N t, I.Nm_of_lt ht, I.Q1_eq hI t, L_transpose I hI t, L_eq I t]
  have hG : I.G t = I.Q0 t * ((I.Z t)ᵀ * I.Fi t) := rfl
  have hZ : I.ZtFi t = (I.Z t)ᵀ * I.Fi t := rfl
  have hQ := I.Q0_symm t
  have hFi := hI.Fi_symm t
  rw [hG, hZ]
  simp only [Matrix.transpose_sub, Matrix.transpose_mul, Matrix.transpose_transpose, hQ, hFi,
    Matrix.mul_add, Matrix.mul_sub, Matrix.add_mul, Matrix.sub_mul, Matrix.mul_assoc]
  abel

theorem smoothJoint_good (hI : I.Regular) (t j : ℕ) (hF : ∀ s, s < t + 1 + j → I.F s * I.Fi s = 1) :
    (smoothJoint I t j).toJoint.Good (I.state (t + 1 + j)).1 (I.state (t + 1 + j)).2
    ∧ (smoothJoint I t j).Tracks (fpsFrom I t (I.a1 t) (I.Q1 t) (I.Q1 t) j).1 (fpsFrom I t (I.a1 t) (I.Q1 t) (I.Q1 t) j).2.1
        (fpsFrom I t (I.a1 t) (I.Q1 t) (I.Q1 t) j).2.2 := by
  have h := filter_is_conditioning I hI (t + 1) (fun s hs => hF s (by omega))
  exact track_good I hI t _ _ _ _ h ⟨h.mean, h.cov, h.cov⟩ j hF

/-- **smoother = exact Gaussian conditioning on ALL observations — state means**, every horizon, any missing-data pattern.
For a sample of `N = t+1+j` periods the smoothed state `a₂(t) = a₀(t) + Q₀(t) r_t` of the backward recursion
(`one_step_back` / `smooth`) is `prior mean + C Σ⁻¹ (Y − μ)`: the conditional mean of the state of period `t` given the stacked
vector of all rows observed in periods `0 … N-1`; `C = (smoothJoint I t j).Czy` is the prior cross-covariance of that state with
all observations (model's own moment recursion), `Σ⁻¹` the certified inverse of the stacked covariance. -/
theorem smoother_is_conditioning (hI : I.Regular) (t j : ℕ) (hF : ∀ s, s < t + 1 + j → I.F s * I.Fi s = 1) :
    I.a2 (t + 1 + j) t
      = condMean (smoothJoint I t j).mz (smoothJoint I t j).Czy (smoothJoint I t j).Vyi (smoothJoint I t j).d := by
  rw [a2_eq_updated I hI (show t < t + 1 + j by omega),
    fps_mean_invariant I hI (t + 1 + j) t (I.a1 t) (I.Q1 t) (I.Q1 t) j (le_refl _),
    I.r_of_ge (le_refl _), Matrix.mul_zero, add_zero]
  exact (smoothJoint_good I hI t j hF).2.mean

/-- **smoother MSE = conditional covariance given ALL observations**: `Q₂(t) = V − C Σ⁻¹ Cᵀ` -/
theorem smoother_mse_is_conditioning (hI : I.Regular) (t j : ℕ) (hF : ∀ s, s < t + 1 + j → I.F s * I.Fi s = 1) :
    I.Q2 (t + 1 + j) t
      = condCross (smoothJoint I t j).Vz (smoothJoint I t j).Czy (smoothJoint I t j).Vyi (smoothJoint I t j).Czyᵀ := by
  rw [Q2_eq_updated I hI (show t < t + 1 + j by omega),
    fps_var_invariant I hI (t + 1 + j) t (I.a1 t) (I.Q1 t) (I.Q1 t) j (le_refl _),
    I.Nm_of_ge (le_refl _), Matrix.mul_zero, Matrix.zero_mul, sub_zero]
  exact (smoothJoint_good I hI t j hF).2.var

/-- the stacked system of `track` is the one of `joint`: same observations, same covariance, same inverse -/
theorem track_toJoint (t : ℕ) (Z0 : JointZ n nz k K) (h0 : Z0.toJoint = joint I (t + 1)) (j : ℕ) :
    (track I t Z0 j).toJoint = joint I (t + 1 + j) := by
  induction j with
  | zero => exact h0
  | succ j ih =>
    show (track I t Z0 j).toJoint.step I (t + 1 + j) = (joint I (t + 1 + j)).step I (t + 1 + j)
    rw [ih]


/-! #### the transition and measurement shocks of period `t` -/

/-- after period `t`, track the transition shocks `u_t`: `cov(u_t, ξ_t) = Σu Pᵀ`, `cov(u_t, y_t) = Σu Pᵀ Zᵀ`, nothing with the past -/
def JointZ.startU (J : Joint n k K) (t : ℕ) : JointZ n q k K :=
  { toJoint := J.step I t, mz := I.u0 t, Vz := I.Su t, Czx := I.Su t * I.Pᵀ,
    Czy := fromCols 0 (I.Su t * I.Pᵀ * (I.Z t)ᵀ) }

/-- after period `t`, track the measurement shocks `w_t`: `cov(w_t, ξ_t) = 0`, `cov(w_t, y_t) = Σw Hᵀ` -/
def JointZ.startW (J : Joint n k K) (t : ℕ) : JointZ n w k K :=
  { toJoint := J.step I t, mz := I.w0 t, Vz := I.Sw t, Czx := 0, Czy := fromCols 0 (I.Sw t * (I.H t)ᵀ) }

def smoothJointU (t j : ℕ) : JointZ n q k K := track I t (JointZ.startU I (joint I t) t) j
def smoothJointW (t j : ℕ) : JointZ n w k K := track I t (JointZ.startW I (joint I t) t) j

/-- **smoothed transition shocks = conditional mean of `u_t` given ALL observations** -/
theorem smoother_shocks_is_conditioning (hI : I.Regular) (t j : ℕ) (hF : ∀ s, s < t + 1 + j → I.F s * I.Fi s = 1) :
    I.u2 (t + 1 + j) t
      = condMean (smoothJointU I t j).mz (smoothJointU I t j).Czy (smoothJointU I t j).Vyi (smoothJointU I t j).d := by
  have hJ := filter_is_conditioning I hI t (fun s hs => hF s (by omega))
  have hG0 := Joint.step_good I hI t (joint I t) hJ (hF t (by omega))
  have hm := start_mean I.T I.P I.Kc (I.u0 t) (I.Z t) (I.H t) (I.D t) (I.w0 t) (I.Fi t) (I.y t) (joint I t).mx (joint I t).Cxy
    (joint I t).Vyi (joint I t).d (I.u0 t) (I.state t).1 (I.Su t * I.Pᵀ * (I.Z t)ᵀ) hJ.mean
  have hc := start_cross I.T I.P (I.Su t) (I.Z t) (I.Fi t) (joint I t).Vx (joint I t).Cxy (joint I t).Vyi
    (I.state t).2 (I.Su t * I.Pᵀ) (I.Su t * I.Pᵀ * (I.Z t)ᵀ) hJ.cov hJ.VxT (hI.Su_symm t)
  have hv := start_var I.T (I.Z t) (I.Fi t) (joint I t).Cxy (joint I t).Vyi (I.Su t) (I.Su t * I.Pᵀ * (I.Z t)ᵀ)
  simp only at hm hc
  rw [← I.Q0_eq hI t] at hc
  have hT0 : (JointZ.startU I (joint I t) t).Tracks _ _ _ := ⟨hm, hc, hv⟩
  have h := track_good I hI t _ _ _ _ hG0 hT0 j hF
  unfold smoothJointU
  have hu : I.u2 (t + 1 + j) t
      = (I.u0 t + I.Su t * I.Pᵀ * (I.Z t)ᵀ * (I.Fi t * I.pe t))
        + (I.Su t * I.Pᵀ - I.Su t * I.Pᵀ * (I.Z t)ᵀ * (I.Fi t * (I.Z t * I.Q0 t))) * I.Tᵀ * I.r (t + 1 + j) (t + 1) := by
    -- the code's `u₂ = u₀ + (P Σu)ᵀ r_t` in updated form
    unfold Inputs.u2
    rw [I.r_of_lt (show t < t + 1 + j by omega), L_transpose I hI t, Matrix.transpose_mul, hI.Su_symm t]
    have hZ : I.ZtFi t = (I.Z t)ᵀ * I.Fi t := rfl
    rw [hZ]
    simp only [Matrix.mul_add, Matrix.mul_sub, Matrix.add_mul, Matrix.sub_mul, Matrix.mul_assoc]
    abel
  rw [hu, fps_mean_invariant I hI (t + 1 + j) t _ _ (I.Su t - I.Su t * I.Pᵀ * (I.Z t)ᵀ * (I.Fi t * (I.Su t * I.Pᵀ * (I.Z t)ᵀ)ᵀ)) j
    (le_refl _), I.r_of_ge (le_refl _), Matrix.mul_zero, add_zero]
  exact h.2.mean

/-- **smoothed measurement shocks = conditional mean of `w_t` given ALL observations** -/
theorem smoother_mshocks_is_conditioning (hI : I.Regular) (t j : ℕ) (hF : ∀ s, s < t + 1 + j → I.F s * I.Fi s = 1) :
    I.w2 (t + 1 + j) t
      = condMean (smoothJointW I t j).mz (smoothJointW I t j).Czy (smoothJointW I t j).Vyi (smoothJointW I t j).d := by
  have hJ := filter_is_conditioning I hI t (fun s hs => hF s (by omega))
  have hG0 := Joint.step_good I hI t (joint I t) hJ (hF t (by omega))
  have hm := start_mean I.T I.P I.Kc (I.u0 t) (I.Z t) (I.H t) (I.D t) (I.w0 t) (I.Fi t) (I.y t) (joint I t).mx (joint I t).Cxy
    (joint I t).Vyi (joint I t).d (I.w0 t) (I.state t).1 (I.Sw t * (I.H t)ᵀ) hJ.mean
  have hc := start_cross I.T I.P (I.Su t) (I.Z t) (I.Fi t) (joint I t).Vx (joint I t).Cxy (joint I t).Vyi
    (I.state t).2 (0 : Matrix w n K) (I.Sw t * (I.H t)ᵀ) hJ.cov hJ.VxT (hI.Su_symm t)
  have hv := start_var I.T (I.Z t) (I.Fi t) (joint I t).Cxy (joint I t).Vyi (I.Sw t) (I.Sw t * (I.H t)ᵀ)
  simp only at hm hc
  rw [← I.Q0_eq hI t] at hc
  have hT0 : (JointZ.startW I (joint I t) t).Tracks _ _ _ := ⟨hm, hc, hv⟩
  have h := track_good I hI t _ _ _ _ hG0 hT0 j hF
  unfold smoothJointW
  have hw : I.w2 (t + 1 + j) t
      = (I.w0 t + I.Sw t * (I.H t)ᵀ * (I.Fi t * I.pe t))
        + (0 - I.Sw t * (I.H t)ᵀ * (I.Fi t * (I.Z t * I.Q0 t))) * I.Tᵀ * I.r (t + 1 + j) (t + 1) := by
    -- the code's `w₂ = w₀ + (H Σw)ᵀ (Fi pe − (T G)ᵀ r_{t+1})`
    unfold Inputs.w2
    rw [Matrix.transpose_mul (I.H t), hI.Sw_symm t, Matrix.transpose_mul I.T, I.G_transpose hI t]
    simp only [Matrix.mul_add, Matrix.mul_sub, Matrix.add_mul, Matrix.sub_mul, zero_sub, Matrix.neg_mul, Matrix.mul_assoc]
    abel
  rw [hw, fps_mean_invariant I hI (t + 1 + j) t _ _ (I.Sw t - I.Sw t * (I.H t)ᵀ * (I.Fi t * (I.Sw t * (I.H t)ᵀ)ᵀ)) j
    (le_refl _), I.r_of_ge (le_refl _), Matrix.mul_zero, add_zero]
  exact h.2.mean


/-- push-forward of cross-covariances: if a vector `z` has cross-covariance `[R₁ R₂ | R₃ R₄]` with `(ξ, Y, u_t, w_t)`, its
cross-covariance with `(ξ', (Y, y_t))` is `R Mᵀ` for the matrix `M` of the model equations (`joint_step_is_pushforward`).
`JointZ.step` is the case `R = [Czx Czy | 0 0]` (later shocks uncorrelated with `z`), `JointZ.startU` the case `[0 0 | Σu 0]`
(`z = u_t`), `JointZ.startW` the case `[0 0 | 0 Σw]` (`z = w_t`). -/
theorem cross_step_is_pushforward {o pp zz : Type} [Fintype o] [Fintype pp] [DecidableEq o] [DecidableEq pp]
    (T : Matrix n n K) (P : Matrix n q K) (Z : Matrix pp n K) (H : Matrix pp w K)
    (R1 : Matrix zz n K) (R2 : Matrix zz o K) (R3 : Matrix zz q K) (R4 : Matrix zz w K) :
    fromCols (fromCols R1 R2) (fromCols R3 R4)
        * (fromBlocks (fromCols T (0 : Matrix n o K)) (fromCols P (0 : Matrix n w K))
            (fromBlocks (0 : Matrix o n K) 1 (Z * T) 0) (fromBlocks (0 : Matrix o q K) 0 (Z * P) H))ᵀ
      = fromCols (R1 * Tᵀ + R3 * Pᵀ) (fromCols R2 (R1 * Tᵀ * Zᵀ + R3 * Pᵀ * Zᵀ + R4 * Hᵀ)) := by
  simp only [fromBlocks_transpose, transpose_fromCols, fromCols_mul_fromBlocks, fromCols_mul_fromRows,
    Matrix.transpose_zero, Matrix.transpose_one, Matrix.mul_zero, Matrix.mul_one, add_zero, zero_add,
    Matrix.transpose_mul, fromCols_add', Matrix.mul_assoc, add_assoc]

end smoothing

/-! ### fixed unknown initial condition (`estimate_unknown_init`, `correct_for_unknown_init`)

The code runs the filter from the initial mean with the unit-root block at zero, records `Xi_t` (`all_Xi`: `Xi_0 = T Xi_init`,
`Xi_t = (T − T G_{t-1} Z_{t-1}) Xi_{t-1}`), estimates `δ` by GLS and then corrects the cache: `a0_t += Xi_t δ`, `y0_t += Z_t Xi_t δ`,
`pe_t −= Z_t Xi_t δ`.  The theorem says that this correction, applied in EVERY period `t` (also after the last observation, and
whether or not the prediction step is stored), yields exactly the cache of the filter run from the shifted initial mean
`aInit + x` (`x = Xi_init δ`), with unchanged MSEs and gains.  Hence every theorem about `Inputs` (conditioning above, the
smoother identities of Props/C08.lean) applies to the corrected run. -/

/-- the run from the shifted initial mean -/
def shiftInit {p : ℕ → Type} (I : Inputs n q w k p K) (x : Matrix n k K) : Inputs n q w k p K :=
  { I with aInit := I.aInit + x }

/-- shift of the state handed to period `t` -/
def shiftPath {p : ℕ → Type} [∀ t, Fintype (p t)] [∀ t, DecidableEq (p t)] (I : Inputs n q w k p K) (x : Matrix n k K) :
    ℕ → Matrix n k K
  | 0 => x
  | t + 1 => I.T * shiftPath I x t - I.G t * (I.Z t * (I.T * shiftPath I x t))

/-- `all_Xi[t] @ delta` of the code, as a recursion on the impact on `a0_t` -/
def xiPath {p : ℕ → Type} [∀ t, Fintype (p t)] [∀ t, DecidableEq (p t)] (I : Inputs n q w k p K) (x : Matrix n k K) :
    ℕ → Matrix n k K
  | 0 => I.T * x
  | t + 1 => (I.T - I.T * I.G t * I.Z t) * xiPath I x t

section unknownInit
variable {p : ℕ → Type} [∀ t, Fintype (p t)] [∀ t, DecidableEq (p t)] (I : Inputs n q w k p K) (x : Matrix n k K)

theorem xiPath_eq (t : ℕ) : xiPath I x t = I.T * shiftPath I x t := by
  induction t with
  | zero => rfl
  | succ t ih =>
    show (I.T - I.T * I.G t * I.Z t) * xiPath I x t = I.T * (I.T * shiftPath I x t - I.G t * (I.Z t * (I.T * shiftPath I x t)))
    rw [ih]
    simp only [Matrix.sub_mul, Matrix.mul_sub, Matrix.mul_assoc]

theorem shift_state (t : ℕ) :
    ((shiftInit I x).state t).2 = (I.state t).2 ∧ ((shiftInit I x).state t).1 = (I.state t).1 + shiftPath I x t := by
  induction t with
  | zero => exact ⟨rfl, rfl⟩
  | succ t ih =>
    constructor
    · show I.Q1f t ((shiftInit I x).state t).2 = I.Q1f t (I.state t).2
      rw [ih.1]
    · show I.a0f t ((shiftInit I x).state t).1 + I.Gf t ((shiftInit I x).state t).2 * I.pef t ((shiftInit I x).state t).1
          = I.a0f t (I.state t).1 + I.Gf t (I.state t).2 * I.pef t (I.state t).1
            + (I.T * shiftPath I x t - I.G t * (I.Z t * (I.T * shiftPath I x t)))
      rw [ih.1, ih.2]
      show I.T * ((I.state t).1 + shiftPath I x t) + I.Kc + I.P * I.u0 t
          + I.Gf t (I.state t).2 * (I.y t - (I.Z t * (I.T * ((I.state t).1 + shiftPath I x t) + I.Kc + I.P * I.u0 t) + I.D t + I.H t * I.w0 t))
        = I.T * (I.state t).1 + I.Kc + I.P * I.u0 t
          + I.Gf t (I.state t).2 * (I.y t - (I.Z t * (I.T * (I.state t).1 + I.Kc + I.P * I.u0 t) + I.D t + I.H t * I.w0 t))
          + (I.T * shiftPath I x t - I.Gf t (I.state t).2 * (I.Z t * (I.T * shiftPath I x t)))
      simp only [Matrix.mul_add, Matrix.mul_sub, Matrix.add_mul]
      abel

/-- **`correct_for_unknown_init` = the run from the shifted initial mean**, for every period `t` (no restriction to the periods
up to the last observation), any missing-data pattern: same `Q0 Q1 F G`; `a0_t + Xi_t δ`, `y0_t + Z_t Xi_t δ`, `pe_t − Z_t Xi_t δ`. -/
theorem unknown_init_correction_is_shifted_run (t : ℕ) :
    (shiftInit I x).Q0 t = I.Q0 t ∧ (shiftInit I x).Q1 t = I.Q1 t ∧ (shiftInit I x).G t = I.G t
    ∧ (shiftInit I x).a0 t = I.a0 t + xiPath I x t
    ∧ (shiftInit I x).y0 t = I.y0 t + I.Z t * xiPath I x t
    ∧ (shiftInit I x).pe t = I.pe t - I.Z t * xiPath I x t := by
  have h := shift_state I x t
  have ha0 : (shiftInit I x).a0 t = I.a0 t + xiPath I x t := by
    show I.T * ((shiftInit I x).state t).1 + I.Kc + I.P * I.u0 t = I.T * (I.state t).1 + I.Kc + I.P * I.u0 t + xiPath I x t
    rw [h.2, xiPath_eq, Matrix.mul_add]; abel
  have hy0 : (shiftInit I x).y0 t = I.y0 t + I.Z t * xiPath I x t := by
    show I.Z t * (shiftInit I x).a0 t + I.D t + I.H t * I.w0 t = I.Z t * I.a0 t + I.D t + I.H t * I.w0 t + I.Z t * xiPath I x t
    rw [ha0, Matrix.mul_add]; abel
  refine ⟨?_, (shift_state I x (t + 1)).1, ?_, ha0, hy0, ?_⟩
  · show I.Q0f t ((shiftInit I x).state t).2 = I.Q0f t (I.state t).2
    rw [h.1]
  · show I.Gf t ((shiftInit I x).state t).2 = I.Gf t (I.state t).2
    rw [h.1]
  · show I.y t - (shiftInit I x).y0 t = I.y t - I.y0 t - I.Z t * xiPath I x t
    rw [hy0]; abel

end unknownInit

/-! ### non-vacuity -/

/-- the hypotheses of the Schur lemmas are met by a concrete 1+1 block covariance `((2,1),(1,1))` over ℚ -/
example : (fromBlocks ((2 : ℚ) • (1 : Matrix (Fin 1) (Fin 1) ℚ)) (1 : Matrix (Fin 1) (Fin 1) ℚ) (1 : Matrix (Fin 1) (Fin 1) ℚ)
      (1 : Matrix (Fin 1) (Fin 1) ℚ))
    * blockInv (1 : Matrix (Fin 1) (Fin 1) ℚ) (1 : Matrix (Fin 1) (Fin 1) ℚ) ((1/2 : ℚ) • 1) ((2 : ℚ) • 1) = 1 := by
  apply block_mul_blockInv
  · ext i j
    have : i = j := Subsingleton.elim i j
    subst this; simp
  · ext i j
    have : i = j := Subsingleton.elim i j
    subst this; simp; norm_num

section nonvacuousN
local instance inv2q : Invertible (2 : ℚ) := ⟨1/2, by norm_num, by norm_num⟩

/-- white-noise state observed without measurement error (`T = 0`, `P = Z = 1`, `H = 0`, unit covariances, data `y_t = t`) -/
def exN : Inputs (Fin 2) (Fin 2) (Fin 2) (Fin 1) (fun _ => Fin 2) ℚ :=
  { T := 0, P := 1, Kc := fun _ _ => 1, Z := fun _ => 1, H := fun _ => 0, D := fun _ _ _ => 0, y := fun t _ _ => t,
    Su := fun _ => 1, Sw := fun _ => 1, u0 := fun _ => 0, w0 := fun _ => 0, Fi := fun _ => 1, aInit := 0, QInit := 1 }

/-- the hypotheses of `filter_is_conditioning` / `likelihood_is_stacked_density` are met for EVERY horizon by a concrete system -/
example : exN.Regular ∧ ∀ s, exN.F s * exN.Fi s = 1 := by
  have hs : IrisVerif.KalmanAbs.symm (1 : Matrix (Fin 2) (Fin 2) ℚ) = 1 := symm_of_symmetric _ (by simp)
  refine ⟨⟨?_, ?_, ?_, ?_⟩, ?_⟩
  · simp [exN]
  · intro t; simp [exN]
  · intro t; simp [exN]
  · intro t; simp [exN]
  · intro s
    have hF : exN.F s = 1 := by
      simp [Inputs.F, Inputs.Ff, Inputs.Q0f, exN, hs]
    rw [hF]
    show (1 : Matrix (Fin 2) (Fin 2) ℚ) * 1 = 1
    rw [Matrix.mul_one]

end nonvacuousN

end IrisVerif.C03
