/-
C07 -- Simulation plans hit exogenized points exactly; swaps invert a simulation.

Part A  the conditioning step of `fords/simulators.py: _simulate_conditional`, i.e. `kalmans.predict` /
        `kalmans.one_step_back` with `H = 0`, `D = 0` (exogenized points are noiseless observations of
        current-dated states), for matrices over any commutative ring, any dimensions.  Vectors are
        `· × k` matrices so that one family of lemmas serves.  The definitions below are the formulas of
        the code, line by line (`gain` = `G`, `Lmat` = `all_L[t]`, `rStep` / `rLast` = the two branches on
        `r is None`, `smoothState` = `ak`, `smoothShock` = `uk`).
Part B  the solution recursion, its affinity in the shocks, the impact matrix `M`, uniqueness and the round trip.
Part C  stacked time (`_get_wrt_spots`, `_copy_exogenized_data_to_frame_data`) and the plan registers:
        theorems about the executable definitions of `IrisVerif.Model.Plans`.
-/
import Mathlib.Data.Matrix.Mul
import Mathlib.Data.Matrix.Block
import Mathlib.Data.Matrix.Diagonal
import Mathlib.LinearAlgebra.Matrix.NonsingularInverse
import Mathlib.Tactic.Abel
import Mathlib.Tactic.NoncommRing
import IrisVerif.Model.Plans

open Matrix

set_option linter.unusedSectionVars false

namespace IrisVerif.C07

/-! ## Part A: one period of predict / smooth -/

section Smoother

variable {n p m q k : Type} [Fintype n] [Fintype p] [Fintype m] [Fintype q]
  [DecidableEq n] [DecidableEq p] [DecidableEq m] [DecidableEq q]
variable {K : Type} [CommRing K]

/-- `G = Q0 @ Z.T @ Fi` -/
def gain (Q0 : Matrix n n K) (Z : Matrix p n K) (Fi : Matrix p p K) : Matrix n p K := Q0 * Zᵀ * Fi

/-- `all_L[t] = T_next - T_next @ G @ Z` (filled in by the following period of `predict`) -/
def Lmat (Tn : Matrix n n K) (Q0 : Matrix n n K) (Z : Matrix p n K) (Fi : Matrix p p K) : Matrix n n K :=
  Tn - Tn * gain Q0 Z Fi * Z

/-- `pe = y1 - y0` with `y0 = Z @ a0` (`H = 0`, `D = 0`) -/
def predErr (Z : Matrix p n K) (a0 : Matrix n k K) (y : Matrix p k K) : Matrix p k K := y - Z * a0

/-- `r = Zt_Fi_pe + L.T @ r` -/
def rStep (Z : Matrix p n K) (Fi : Matrix p p K) (pe : Matrix p k K) (L : Matrix n n K) (rn : Matrix n k K) :
    Matrix n k K := Zᵀ * Fi * pe + Lᵀ * rn

/-- `r = Zt_Fi_pe` (the branch `r is None`: last period with observations) -/
def rLast (Z : Matrix p n K) (Fi : Matrix p p K) (pe : Matrix p k K) : Matrix n k K := Zᵀ * Fi * pe

/-- `ak = a0 + Q0 @ r` -/
def smoothState (a0 : Matrix n k K) (Q0 : Matrix n n K) (r : Matrix n k K) : Matrix n k K := a0 + Q0 * r

/-- `uk = uk + P_cov_u.T @ r` with `P_cov_u = P @ cov_u` -/
def smoothShock (u0 : Matrix m k K) (P : Matrix n m K) (S : Matrix m m K) (r : Matrix n k K) : Matrix m k K :=
  u0 + (P * S)ᵀ * r

/-- `a1 = a0 + G @ pe` -/
def filtState (a0 : Matrix n k K) (Q0 : Matrix n n K) (Z : Matrix p n K) (Fi : Matrix p p K) (pe : Matrix p k K) :
    Matrix n k K := a0 + gain Q0 Z Fi * pe

/-- `Q1 = Q0 - G @ Z @ Q0` -/
def filtMse (Q0 : Matrix n n K) (Z : Matrix p n K) (Fi : Matrix p p K) : Matrix n n K := Q0 - gain Q0 Z Fi * Z * Q0

/-- `Q0 = T @ Q1_prev @ T.T + P @ cov_u @ P.T` -/
def predMse (T : Matrix n n K) (Q1 : Matrix n n K) (P : Matrix n m K) (S : Matrix m m K) : Matrix n n K :=
  T * Q1 * Tᵀ + P * S * Pᵀ

/-- **(1) Exogenized points are hit exactly**, interior period: whatever the smoother has accumulated from
the later periods (`rn` arbitrary), the smoothed state reproduces the observation `y` in the observed rows.
`F = Z Q0 Zᵀ` because `H = 0`; `Fi` is its inverse. -/
theorem exogenized_hit
    (Tn : Matrix n n K) (Z : Matrix p n K) (Q0 : Matrix n n K) (Fi : Matrix p p K)
    (a0 rn : Matrix n k K) (y : Matrix p k K)
    (hQ : Q0ᵀ = Q0) (hFi : Fiᵀ = Fi) (hF : Z * Q0 * Zᵀ * Fi = 1) :
    Z * smoothState a0 Q0 (rStep Z Fi (predErr Z a0 y) (Lmat Tn Q0 Z Fi) rn) = y := by
  have GT : (gain Q0 Z Fi)ᵀ = Fi * Z * Q0 := by
    simp only [gain, Matrix.transpose_mul, Matrix.transpose_transpose, hQ, hFi, Matrix.mul_assoc]
  have key2 : Z * Q0 * (Lmat Tn Q0 Z Fi)ᵀ = 0 := by
    simp only [Lmat, Matrix.transpose_sub, Matrix.transpose_mul, GT]
    have e : Z * Q0 * (Tnᵀ - Zᵀ * ((Fi * Z * Q0) * Tnᵀ)) = Z * Q0 * Tnᵀ - (Z * Q0 * Zᵀ * Fi) * (Z * Q0 * Tnᵀ) := by
      simp only [Matrix.mul_sub, Matrix.mul_assoc]
    rw [e, hF, Matrix.one_mul, sub_self]
  have e : Z * smoothState a0 Q0 (rStep Z Fi (predErr Z a0 y) (Lmat Tn Q0 Z Fi) rn)
      = Z * a0 + (Z * Q0 * Zᵀ * Fi) * predErr Z a0 y + (Z * Q0 * (Lmat Tn Q0 Z Fi)ᵀ) * rn := by
    simp only [smoothState, rStep, Matrix.mul_add, Matrix.mul_assoc]
    abel
  rw [e, hF, key2, Matrix.one_mul, Matrix.zero_mul, add_zero]
  simp only [predErr]; abel

/-- (1) at the last period that has observations (`r is None` in `one_step_back`) -/
theorem exogenized_hit_last
    (Z : Matrix p n K) (Q0 : Matrix n n K) (Fi : Matrix p p K) (a0 : Matrix n k K) (y : Matrix p k K)
    (hF : Z * Q0 * Zᵀ * Fi = 1) :
    Z * smoothState a0 Q0 (rLast Z Fi (predErr Z a0 y)) = y := by
  have e : Z * smoothState a0 Q0 (rLast Z Fi (predErr Z a0 y)) = Z * a0 + (Z * Q0 * Zᵀ * Fi) * predErr Z a0 y := by
    simp only [smoothState, rLast, Matrix.mul_add, Matrix.mul_assoc]
  rw [e, hF, Matrix.one_mul]; simp only [predErr]; abel

/-- the observation matrix of `_generate_Z` is a row selection: `Z a` reads the rows `sel` of `a`.  Together with
`exogenized_hit` this says: the simulated variable in row `sel i` equals its input value `y i`. -/
theorem selection_reads (sel : p → n) (a : Matrix n k K) (i : p) (l : k) :
    ((Matrix.of fun (i : p) (j : n) => if sel i = j then (1 : K) else 0) * a) i l = a (sel i) l := by
  simp [Matrix.mul_apply]

/-- **(2) A shock with zero variance is returned unchanged**: `cov_u = diag(std_u_endogenized²)` and
`uk = u0 + (P cov_u)ᵀ r`; a zero diagonal entry gives a zero row. -/
theorem zero_variance_shock_unchanged
    (u0 : Matrix m k K) (P : Matrix n m K) (d : m → K) (r : Matrix n k K) (j : m) (l : k) (hd : d j = 0) :
    smoothShock u0 P (Matrix.diagonal d) r j l = u0 j l := by
  have : ((P * Matrix.diagonal d)ᵀ * r) j l = 0 := by
    rw [Matrix.mul_apply]
    apply Finset.sum_eq_zero
    intro i _
    rw [Matrix.transpose_apply, Matrix.mul_diagonal, hd, mul_zero, zero_mul]
  simp only [smoothShock, Matrix.add_apply, this, add_zero]

/-- `_insert_std_endogenized_unanticipated`: the std is kept for endogenized cells and is 0 elsewhere -/
def endogenizedVar (std : m → K) (endo : m → Bool) : m → K := fun j => if endo j then std j * std j else 0

/-- (2) in the terms of the plan: **only endogenized shocks move** -/
theorem only_endogenized_shocks_move
    (u0 : Matrix m k K) (P : Matrix n m K) (std : m → K) (endo : m → Bool) (r : Matrix n k K) (j : m) (l : k)
    (hj : endo j = false) :
    smoothShock u0 P (Matrix.diagonal (endogenizedVar std endo)) r j l = u0 j l :=
  zero_variance_shock_unchanged u0 P _ r j l (by simp [endogenizedVar, hj])

/-- **(3) Transition identity**: the smoothed state of a period is the solution recursion applied to the smoothed
state of the previous period and the smoothed shocks of this one.  `c` collects `K` and the impact of the
(non-endogenized) anticipated shocks; primes mark the previous period.  Pure algebra: no inverse is used. -/
theorem smoothed_transition
    (T : Matrix n n K) (P : Matrix n m K) (S : Matrix m m K) (c : Matrix n k K) (u0 : Matrix m k K)
    (Z' : Matrix p n K) (Q0' : Matrix n n K) (Fi' : Matrix p p K) (a0' : Matrix n k K) (pe' : Matrix p k K)
    (r : Matrix n k K)
    (hQ : Q0'ᵀ = Q0') (hFi : Fi'ᵀ = Fi') (hS : Sᵀ = S) :
    let a0 := T * filtState a0' Q0' Z' Fi' pe' + c + P * u0
    let Q0 := predMse T (filtMse Q0' Z' Fi') P S
    let r' := rStep Z' Fi' pe' (Lmat T Q0' Z' Fi') r
    smoothState a0 Q0 r = T * smoothState a0' Q0' r' + c + P * smoothShock u0 P S r := by
  intro a0 Q0 r'
  have GT : (gain Q0' Z' Fi')ᵀ = Fi' * Z' * Q0' := by
    simp only [gain, Matrix.transpose_mul, Matrix.transpose_transpose, hQ, hFi, Matrix.mul_assoc]
  simp only [a0, Q0, r', smoothState, smoothShock, filtState, filtMse, predMse, rStep, Lmat,
    Matrix.transpose_sub, Matrix.transpose_mul, GT, hS]
  simp only [gain, Matrix.mul_add, Matrix.add_mul, Matrix.mul_sub, Matrix.sub_mul, Matrix.mul_assoc]
  abel

/-- (3) in the first period: the recursion starts from `a_init + Q_init Tᵀ r` -/
theorem smoothed_transition_first
    (T : Matrix n n K) (P : Matrix n m K) (S : Matrix m m K) (c : Matrix n k K) (u0 : Matrix m k K)
    (aInit : Matrix n k K) (QInit : Matrix n n K) (r : Matrix n k K) (hS : Sᵀ = S) :
    smoothState (T * aInit + c + P * u0) (predMse T QInit P S) r
      = T * (aInit + QInit * Tᵀ * r) + c + P * smoothShock u0 P S r := by
  simp only [smoothState, smoothShock, predMse, Matrix.transpose_mul, hS,
    Matrix.mul_add, Matrix.add_mul, Matrix.mul_assoc]
  abel

/-- the initial MSE of `_simulate_conditional` / `_adjust_initials` is zero in the rows of the model's own state
(`init_mse = 0`, block-diagonal extension for the endogenized anticipated shocks): **the initial condition is kept** -/
theorem initial_condition_kept
    (aInit : Matrix (n ⊕ q) k K) (QInit T : Matrix (n ⊕ q) (n ⊕ q) K) (r : Matrix (n ⊕ q) k K)
    (hQ : ∀ i j, QInit (Sum.inl i) j = 0) (i : n) (l : k) :
    (aInit + QInit * Tᵀ * r) (Sum.inl i) l = aInit (Sum.inl i) l := by
  have : (QInit * (Tᵀ * r)) (Sum.inl i) l = 0 := by
    rw [Matrix.mul_apply]; exact Finset.sum_eq_zero (fun j _ => by rw [hQ, zero_mul])
  simp only [Matrix.add_apply, Matrix.mul_assoc, this, add_zero]

/-- at the last period with observations the smoothed state is the filtered one, so the periods after it
(where `one_step_back` returns the prediction `a0 = T a1_prev + …` and `u0`) continue the same recursion -/
theorem smoothed_eq_filtered_at_last
    (Z : Matrix p n K) (Q0 : Matrix n n K) (Fi : Matrix p p K) (a0 : Matrix n k K) (pe : Matrix p k K) :
    smoothState a0 Q0 (rLast Z Fi pe) = filtState a0 Q0 Z Fi pe := by
  simp only [smoothState, rLast, filtState, gain, Matrix.mul_assoc]

/-- a period without observations does not update: `a1 = a0` -/
theorem no_observation_no_update [IsEmpty p]
    (Z : Matrix p n K) (Q0 : Matrix n n K) (Fi : Matrix p p K) (a0 : Matrix n k K) (pe : Matrix p k K) :
    filtState a0 Q0 Z Fi pe = a0 := by
  ext i l; simp [filtState, Matrix.mul_apply]

/-- the model's own block of an augmented vector -/
def top (a : Matrix (n ⊕ q) k K) : Matrix n k K := fun i l => a (Sum.inl i) l
/-- the appended block (endogenized anticipated shocks) -/
def bot (a : Matrix (n ⊕ q) k K) : Matrix q k K := fun j l => a (Sum.inr j) l
/-- `np.pad` / `np.concatenate` of a block below -/
def stackRows (x : Matrix n k K) (y : Matrix q k K) : Matrix (n ⊕ q) k K :=
  fun i l => match i with | .inl i => x i l | .inr j => y j l

/-- **state augmentation** (`_generate_period_system` with endogenized anticipated shocks):
`T_aug = [[T, R],[0, I]]`, `K_aug = [K; 0]`, `P_aug = [P; 0]`.  If the augmented smoothed states satisfy the
augmented recursion then the model's own block satisfies `xi_t = T xi_{t-1} + R v + c + P u` and the
appended block (the endogenized anticipated shocks) is constant over time -- which is why `_store_smooth`
may read it off the last period. -/
theorem augmented_transition_blocks
    (T : Matrix n n K) (R : Matrix n q K) (P : Matrix n m K) (c : Matrix n k K) (u : Matrix m k K)
    (a a' : Matrix (n ⊕ q) k K)
    (h : a = Matrix.fromBlocks T R 0 1 * a' + stackRows c 0 + stackRows P 0 * u) :
    top a = T * top a' + R * bot a' + c + P * u ∧ bot a = bot a' := by
  subst h
  constructor
  · ext i l
    simp [top, bot, stackRows, Matrix.mul_apply, Matrix.add_apply, Fintype.sum_sum_type]
  · ext j l
    simp [bot, stackRows, Matrix.mul_apply, Matrix.add_apply, Fintype.sum_sum_type, Matrix.one_apply]

/-- symmetry is an invariant of the MSE recursion, so the hypotheses `Q0ᵀ = Q0`, `Fiᵀ = Fi` of (1) and (3) hold in
every period: prediction … -/
theorem predMse_symm (T : Matrix n n K) (Q1 : Matrix n n K) (P : Matrix n m K) (S : Matrix m m K)
    (hQ : Q1ᵀ = Q1) (hS : Sᵀ = S) : (predMse T Q1 P S)ᵀ = predMse T Q1 P S := by
  simp only [predMse, Matrix.transpose_add, Matrix.transpose_mul, Matrix.transpose_transpose, hQ, hS, Matrix.mul_assoc]

/-- … and update -/
theorem filtMse_symm (Q0 : Matrix n n K) (Z : Matrix p n K) (Fi : Matrix p p K)
    (hQ : Q0ᵀ = Q0) (hFi : Fiᵀ = Fi) : (filtMse Q0 Z Fi)ᵀ = filtMse Q0 Z Fi := by
  simp only [filtMse, gain, Matrix.transpose_sub, Matrix.transpose_mul, Matrix.transpose_transpose, hQ, hFi,
    Matrix.mul_assoc]

/-- the inverse of a symmetric `F` is symmetric (`Fi = inv(F)`; the code symmetrizes it again) -/
theorem inverse_symm (F Fi : Matrix p p K) (hF : Fᵀ = F) (h1 : F * Fi = 1) : Fiᵀ = Fi := by
  have h3 : Fiᵀ * F = 1 := by
    have := congrArg Matrix.transpose h1
    rwa [Matrix.transpose_mul, hF, Matrix.transpose_one] at this
  calc Fiᵀ = Fiᵀ * (F * Fi) := by rw [h1, Matrix.mul_one]
    _ = (Fiᵀ * F) * Fi := by rw [Matrix.mul_assoc]
    _ = Fi := by rw [h3, Matrix.one_mul]

/-- `symmetrize` of `fords/covariances.py` is the identity on symmetric matrices -/
theorem symmetrize_of_symm [Invertible (2 : K)] (X : Matrix n n K) (hX : Xᵀ = X) : ⅟(2 : K) • (X + Xᵀ) = X := by
  rw [hX, ← two_smul K X, smul_smul, invOf_mul_self, one_smul]

end Smoother

/-! ### The whole sample: `predict` forward, `smooth` backward -/

section WholeSample

variable {n m k : Type} [Fintype n] [Fintype m] [DecidableEq n] [DecidableEq m]
variable {K : Type} [CommRing K]
variable {p : ℕ → Type} [∀ t, Fintype (p t)] [∀ t, DecidableEq (p t)]

/-- what `_generate_period_system` / `_generate_period_data` hand to `kalmans.predict`, period by period (the number of
observed rows `p t` varies with `t`), the inverses `Fi t` that `predict` computes, and the initials -/
structure CondSystem (n m k : Type) (K : Type) (p : ℕ → Type) where
  T : ℕ → Matrix n n K
  P : ℕ → Matrix n m K
  S : ℕ → Matrix m m K
  c : ℕ → Matrix n k K
  u0 : ℕ → Matrix m k K
  Z : (t : ℕ) → Matrix (p t) n K
  Fi : (t : ℕ) → Matrix (p t) (p t) K
  y : (t : ℕ) → Matrix (p t) k K
  aInit : Matrix n k K
  QInit : Matrix n n K

/-- the loop of `predict`: `(a1_prev, Q1_prev)` on entry to period `t` -/
def CondSystem.filt (s : CondSystem n m k K p) : ℕ → Matrix n k K × Matrix n n K
  | 0 => (s.aInit, s.QInit)
  | t + 1 =>
    let Q0 := predMse (s.T t) (s.filt t).2 (s.P t) (s.S t)
    let a0 := s.T t * (s.filt t).1 + s.c t + s.P t * s.u0 t
    (filtState a0 Q0 (s.Z t) (s.Fi t) (predErr (s.Z t) a0 (s.y t)), filtMse Q0 (s.Z t) (s.Fi t))

def CondSystem.Q0 (s : CondSystem n m k K p) (t : ℕ) : Matrix n n K := predMse (s.T t) (s.filt t).2 (s.P t) (s.S t)
def CondSystem.a0 (s : CondSystem n m k K p) (t : ℕ) : Matrix n k K := s.T t * (s.filt t).1 + s.c t + s.P t * s.u0 t
def CondSystem.pe (s : CondSystem n m k K p) (t : ℕ) : Matrix (p t) k K := predErr (s.Z t) (s.a0 t) (s.y t)

/-- symmetry of the prediction MSE in every period (induction over the loop of `predict`) -/
theorem CondSystem.Q0_symm (s : CondSystem n m k K p) (hQ : s.QInitᵀ = s.QInit) (hS : ∀ t, (s.S t)ᵀ = s.S t)
    (hFi : ∀ t, (s.Fi t)ᵀ = s.Fi t) : ∀ t, (s.Q0 t)ᵀ = s.Q0 t := by
  have h1 : ∀ t, ((s.filt t).2)ᵀ = (s.filt t).2 := by
    intro t
    induction t with
    | zero => exact hQ
    | succ t ih => exact filtMse_symm _ _ _ (predMse_symm _ _ _ _ ih (hS t)) (hFi t)
  intro t
  exact predMse_symm _ _ _ _ (h1 t) (hS t)

/-- **The conditional simulation over the whole frame.**  `last` is the last period with exogenized points
(`cache.last_period_of_observations`); `r` is any sequence satisfying the two branches of `one_step_back`.
Hypotheses: the initial MSE and the shock covariances are symmetric (they are diagonal in the code), each `Fi t` is a
symmetric inverse of `F_t = Z_t Q0_t Z_tᵀ` (`H = 0`).  Then, for the smoothed states `a2 t = a0_t + Q0_t r_t` and shocks
`u2 t = u0_t + (P_t S_t)ᵀ r_t` that `_store_smooth` writes:
(1) every exogenized point is hit in every period up to `last`;
(3) the transition recursion holds between all consecutive periods and from the (smoothed) initial state. -/
theorem conditional_simulation_identities (s : CondSystem n m k K p) (last : ℕ) (r : ℕ → Matrix n k K)
    (hQ : s.QInitᵀ = s.QInit) (hS : ∀ t, (s.S t)ᵀ = s.S t) (hFi : ∀ t, (s.Fi t)ᵀ = s.Fi t)
    (hF : ∀ t, t ≤ last → s.Z t * s.Q0 t * (s.Z t)ᵀ * s.Fi t = 1)
    (hrLast : r last = rLast (s.Z last) (s.Fi last) (s.pe last))
    (hr : ∀ t, t < last →
      r t = rStep (s.Z t) (s.Fi t) (s.pe t) (Lmat (s.T (t + 1)) (s.Q0 t) (s.Z t) (s.Fi t)) (r (t + 1))) :
    (∀ t, t ≤ last → s.Z t * smoothState (s.a0 t) (s.Q0 t) (r t) = s.y t)
    ∧ (∀ t, t < last →
        smoothState (s.a0 (t + 1)) (s.Q0 (t + 1)) (r (t + 1))
          = s.T (t + 1) * smoothState (s.a0 t) (s.Q0 t) (r t) + s.c (t + 1)
            + s.P (t + 1) * smoothShock (s.u0 (t + 1)) (s.P (t + 1)) (s.S (t + 1)) (r (t + 1)))
    ∧ smoothState (s.a0 0) (s.Q0 0) (r 0)
        = s.T 0 * (s.aInit + s.QInit * (s.T 0)ᵀ * r 0) + s.c 0 + s.P 0 * smoothShock (s.u0 0) (s.P 0) (s.S 0) (r 0) := by
  have hQ0 := s.Q0_symm hQ hS hFi
  refine ⟨?_, ?_, ?_⟩
  · intro t ht
    rcases Nat.lt_or_eq_of_le ht with hlt | rfl
    · rw [hr t hlt]
      exact exogenized_hit _ _ _ _ _ _ _ (hQ0 t) (hFi t) (hF t ht)
    · rw [hrLast]
      exact exogenized_hit_last _ _ _ _ _ (hF t ht)
  · intro t hlt
    rw [hr t hlt]
    exact smoothed_transition (s.T (t + 1)) (s.P (t + 1)) (s.S (t + 1)) (s.c (t + 1)) (s.u0 (t + 1))
      (s.Z t) (s.Q0 t) (s.Fi t) (s.a0 t) (s.pe t) (r (t + 1)) (hQ0 t) (hFi t) (hS (t + 1))
  · exact smoothed_transition_first (s.T 0) (s.P 0) (s.S 0) (s.c 0) (s.u0 0) s.aInit s.QInit (r 0) (hS 0)

end WholeSample

/-! ### Log-variables: the frame is logarithmized before and delogarithmized after the linear step -/

section LogWrapper

/-- `frame_ds.logarithmize()` … `frame_ds.delogarithmize()` around `_simulate_conditional`, with `lg` / `ex` an abstract
inverse pair: the conditioning step works on `lg` of a log-variable.  If the observation handed to it is the
**logarithmized** input value (for a log-variable) and the linear step reproduces its observation (Part A (1)), the
delogarithmized output equals the input value on the level scale.  (This is what fords/simulators.py has to do with
`input_data_array`; handing over the level value makes the output `ex target` instead, see notes/C07.md.) -/
theorem logged_target_hits_level {α : Type} (lg ex : α → α) (hinv : ∀ x, ex (lg x) = x) (isLog : Bool)
    (target state : α) (hhit : state = if isLog then lg target else target) :
    (if isLog then ex state else state) = target := by
  cases isLog <;> simp_all

/-- … and with the level value handed over instead, a log-variable comes out as `ex target` -/
theorem unlogged_target_misses {α : Type} (ex : α → α) (target state : α) (hhit : state = target) :
    ex state = ex target := by rw [hhit]

end LogWrapper

/-! ## Part B: the solution recursion, the impact matrix and the inversion -/

section Recursion

variable {n m ι : Type} [Fintype n] [Fintype m] [Fintype ι] [DecidableEq n] [DecidableEq m] [DecidableEq ι]
variable {K : Type} [CommRing K]

/-- `simulate_flat`: `simPath T d x0 t` is the state after `t` simulated periods; `d s` is everything of period `s` that
does not depend on the previous state (`K + P u_s + Σ_k R_k v_{s+k}`, see `drive`) -/
def simPath (T : Matrix n n K) (d : ℕ → n → K) (x0 : n → K) : ℕ → n → K
  | 0 => x0
  | t + 1 => T *ᵥ simPath T d x0 t + d t

/-- the period input of the recursion from the shocks: `K + P u_t + Σ_{j<H} R_j v_{t+j}` (`_get_solution_expansion`,
`_simulate_anticipated_shock_values`; `H` bounds the horizon, `v` is zero beyond the frame) -/
def drive (Kc : n → K) (P : Matrix n m K) (R : ℕ → Matrix n m K) (H : ℕ) (u v : ℕ → m → K) (t : ℕ) : n → K :=
  Kc + P *ᵥ u t + ∑ j ∈ Finset.range H, R j *ᵥ v (t + j)

/-- **(3/4) determinism of the recursion**: a sequence that starts at `x0` and satisfies the transition identity in every
period *is* the simulation (induction over periods).  Applied to the smoothed states (Part A (3)) it says that the
output of the conditional simulation is the plain simulation of its own shocks. -/
theorem recursion_deterministic (T : Matrix n n K) (d : ℕ → n → K) (x0 : n → K) (N : ℕ) (a : ℕ → n → K)
    (h0 : a 0 = x0) (hstep : ∀ t, t < N → a (t + 1) = T *ᵥ a t + d t) :
    ∀ t, t ≤ N → a t = simPath T d x0 t := by
  intro t
  induction t with
  | zero => intro _; simpa [simPath] using h0
  | succ t ih =>
    intro ht
    rw [hstep t (by omega), ih (by omega)]
    rfl

/-- the recursion depends only on the inputs of the periods already simulated -/
theorem simPath_congr (T : Matrix n n K) (d d' : ℕ → n → K) (x0 : n → K) (N : ℕ) (h : ∀ t, t < N → d t = d' t) :
    ∀ t, t ≤ N → simPath T d x0 t = simPath T d' x0 t := by
  intro t
  induction t with
  | zero => intro _; rfl
  | succ t ih => intro ht; simp only [simPath]; rw [ih (by omega), h t (by omega)]

theorem simPath_add (T : Matrix n n K) (d δ : ℕ → n → K) (x0 y0 : n → K) (t : ℕ) :
    simPath T (d + δ) (x0 + y0) t = simPath T d x0 t + simPath T δ y0 t := by
  induction t with
  | zero => rfl
  | succ t ih =>
    simp only [simPath, ih, Matrix.mulVec_add, Pi.add_apply]
    abel

theorem simPath_smul (T : Matrix n n K) (c : K) (δ : ℕ → n → K) (y0 : n → K) (t : ℕ) :
    simPath T (fun s => c • δ s) (c • y0) t = c • simPath T δ y0 t := by
  induction t with
  | zero => rfl
  | succ t ih => simp only [simPath, ih, Matrix.mulVec_smul, smul_add]

theorem simPath_zero (T : Matrix n n K) (t : ℕ) : simPath T (fun _ => 0) (0 : n → K) t = 0 := by
  induction t with
  | zero => rfl
  | succ t ih => simp only [simPath, ih, Matrix.mulVec_zero, add_zero]

/-- the input perturbation caused by instrument values `e`: `B i` is the input path of a unit of instrument `i` -/
def perturb (B : ι → ℕ → n → K) (e : ι → K) : ℕ → n → K := fun s => ∑ i, e i • B i s

theorem simPath_perturb (T : Matrix n n K) (B : ι → ℕ → n → K) (e : ι → K) (t : ℕ) :
    simPath T (perturb B e) 0 t = ∑ i, e i • simPath T (B i) 0 t := by
  induction t with
  | zero => simp [simPath]
  | succ t ih =>
    simp only [simPath, ih, perturb, Matrix.mulVec_sum, Matrix.mulVec_smul, smul_add, Finset.sum_add_distrib]

/-- **the simulation is affine in the shocks**: adding `e` to the instruments adds the zero-initial-condition,
zero-constant simulation of the perturbation -/
theorem simPath_affine (T : Matrix n n K) (d : ℕ → n → K) (x0 : n → K) (B : ι → ℕ → n → K) (e : ι → K) (t : ℕ) :
    simPath T (d + perturb B e) x0 t = simPath T d x0 t + ∑ i, e i • simPath T (B i) 0 t := by
  have := simPath_add T d (perturb B e) x0 0 t
  rw [add_zero] at this
  rw [this, simPath_perturb]

variable {τ : Type} [Fintype τ] [DecidableEq τ]

/-- the values of the exogenized cells `(period, row of xi)` along a path -/
def select (cell : τ → ℕ × n) (path : ℕ → n → K) : τ → K := fun j => path (cell j).1 (cell j).2

/-- **impact matrix** from the instruments to the exogenized cells -/
def impactMatrix (T : Matrix n n K) (B : ι → ℕ → n → K) (cell : τ → ℕ × n) : Matrix τ ι K :=
  Matrix.of fun j i => simPath T (B i) 0 (cell j).1 (cell j).2

/-- **stacked impact formulation** `x = x⁰ + M e` -/
theorem exogenized_affine (T : Matrix n n K) (d : ℕ → n → K) (x0 : n → K) (B : ι → ℕ → n → K)
    (cell : τ → ℕ × n) (e : ι → K) :
    select cell (simPath T (d + perturb B e) x0) = select cell (simPath T d x0) + impactMatrix T B cell *ᵥ e := by
  funext j
  simp only [select, simPath_affine, Pi.add_apply, Finset.sum_apply, Pi.smul_apply, smul_eq_mul,
    impactMatrix, Matrix.mulVec, dotProduct, Matrix.of_apply]
  congr 1
  exact Finset.sum_congr rfl (fun i _ => mul_comm _ _)

/-- **(4) uniqueness**: with a non-singular impact matrix two instrument vectors with the same effect are equal -/
theorem instruments_unique (M : Matrix ι ι K) (hM : IsUnit M.det) (e e' : ι → K) (h : M *ᵥ e = M *ᵥ e') : e = e' := by
  have := congrArg (fun v => M⁻¹ *ᵥ v) h
  simpa [Matrix.mulVec_mulVec, Matrix.nonsing_inv_mul M hM] using this

/-- **(4) the conditional problem has exactly one solution** among the shock paths that differ from the input only in
the instruments: if `e` and `e'` both put every exogenized cell on its target, they coincide, and so do the paths. -/
theorem conditional_solution_unique (T : Matrix n n K) (d : ℕ → n → K) (x0 : n → K) (B : ι → ℕ → n → K)
    (cell : ι → ℕ × n) (hM : IsUnit (impactMatrix T B cell).det) (target : ι → K) (e e' : ι → K)
    (h : select cell (simPath T (d + perturb B e) x0) = target)
    (h' : select cell (simPath T (d + perturb B e') x0) = target) :
    e = e' ∧ ∀ t, simPath T (d + perturb B e) x0 t = simPath T (d + perturb B e') x0 t := by
  have he : e = e' := by
    apply instruments_unique _ hM
    have h1 := exogenized_affine T d x0 B cell e
    have h2 := exogenized_affine T d x0 B cell e'
    rw [h] at h1; rw [h'] at h2
    exact add_left_cancel (h1.symm.trans h2)
  exact ⟨he, fun t => by rw [he]⟩

/-- **(4) inversion / round trip.**  First leg: a plain simulation with instrument values `eTrue` (on top of the
second leg's input `d`); the targets are read off it.  Second leg: any output that (a) is a simulation from the same
initial condition (Part A (3) + `recursion_deterministic`), (b) whose shocks differ from the input only in the instruments,
by some `eOut` (Part A (2)), and (c) hits the targets (Part A (1)).  If the impact matrix is non-singular the second
leg returns the original instrument values and the whole original path. -/
theorem roundtrip_recovers (T : Matrix n n K) (d : ℕ → n → K) (x0 : n → K) (B : ι → ℕ → n → K)
    (cell : ι → ℕ × n) (hM : IsUnit (impactMatrix T B cell).det) (eTrue eOut : ι → K) (N : ℕ)
    (out : ℕ → n → K)
    (h0 : out 0 = x0)
    (hsim : ∀ t, t < N → out (t + 1) = T *ᵥ out t + (d + perturb B eOut) t)
    (hcells : ∀ j, (cell j).1 ≤ N)
    (hhit : select cell out = select cell (simPath T (d + perturb B eTrue) x0)) :
    eOut = eTrue ∧ ∀ t, t ≤ N → out t = simPath T (d + perturb B eTrue) x0 t := by
  have hdet := recursion_deterministic T (d + perturb B eOut) x0 N out h0 hsim
  have hsel : select cell (simPath T (d + perturb B eOut) x0) = select cell out := by
    funext j; simp only [select]; rw [hdet _ (hcells j)]
  have := conditional_solution_unique T d x0 B cell hM (select cell (simPath T (d + perturb B eTrue) x0)) eOut eTrue
    (hsel.trans hhit) rfl
  exact ⟨this.1, fun t ht => by rw [hdet t ht, this.1]⟩

/-- the perturbation of the period inputs caused by adding `e i` times the direction `(du i, dv i)` to the shocks:
for an endogenized unanticipated cell `(j, s)` the direction is the indicator of that cell in `u`, for an anticipated
one in `v` -/
theorem drive_perturb (Kc : n → K) (P : Matrix n m K) (R : ℕ → Matrix n m K) (H : ℕ) (u v : ℕ → m → K)
    (du dv : ι → ℕ → m → K) (e : ι → K) :
    drive Kc P R H (fun t => u t + ∑ i, e i • du i t) (fun t => v t + ∑ i, e i • dv i t)
      = drive Kc P R H u v + perturb (fun i => drive 0 P R H (du i) (dv i)) e := by
  funext t
  simp only [drive, perturb, Pi.add_apply, Matrix.mulVec_add, Matrix.mulVec_sum, Matrix.mulVec_smul,
    Finset.sum_add_distrib, smul_add, zero_add, Finset.smul_sum]
  rw [Finset.sum_comm (s := Finset.range H)]
  abel

end Recursion

/-! ## Part C: stacked time and the plan registers (theorems about `IrisVerif.Model.Plans`) -/

section Stacked

open IrisVerif.Plans

theorem contains_iff (l : List Spot) (s : Spot) : l.contains s = true ↔ s ∈ l := by
  simp

/-- `_copy_exogenized_data_to_frame_data`: exogenized cells take the input value … -/
theorem copyExogenized_exogenized (data input : Spot → Rat) (exo : List Spot) (s : Spot) (h : s ∈ exo) :
    copyExogenized data input exo s = input s := by
  simp [copyExogenized, h]

/-- … and no other cell is touched -/
theorem copyExogenized_other (data input : Spot → Rat) (exo : List Spot) (s : Spot) (h : s ∉ exo) :
    copyExogenized data input exo s = data s := by
  simp [copyExogenized, h]

theorem notContains_iff (l : List Spot) (s : Spot) : (!l.contains s) = true ↔ s ∉ l := by simp

theorem mem_unionSpots (a b : List Spot) (s : Spot) : s ∈ unionSpots a b ↔ s ∈ a ∨ s ∈ b := by
  simp only [unionSpots, List.mem_append, List.mem_filter, notContains_iff]
  constructor
  · rintro (h | ⟨h, _⟩)
    · exact Or.inl h
    · exact Or.inr h
  · rintro (h | h)
    · exact Or.inl h
    · by_cases ha : s ∈ a
      · exact Or.inl ha
      · exact Or.inr ⟨h, ha⟩

theorem unionSpots_nodup (a b : List Spot) (ha : a.Nodup) (hb : b.Nodup) : (unionSpots a b).Nodup := by
  unfold unionSpots
  refine List.Nodup.append ha (hb.filter _) ?_
  intro s hs hs'
  simp only [List.mem_filter, notContains_iff] at hs'
  exact hs'.2 hs

/-- **(5) the swapped cells are exactly the planned ones**: a cell is an unknown of the stacked system iff it is a default
unknown that is not exogenized, or an endogenized shock cell -/
theorem mem_swapSpots (all exo endo : List Spot) (s : Spot) :
    s ∈ swapSpots all exo endo ↔ (s ∈ all ∧ s ∉ exo) ∨ s ∈ endo := by
  simp only [swapSpots, mem_unionSpots, List.mem_filter, notContains_iff]

/-- **(5) counting**: removing the exogenized cells (all of them default unknowns) and adding the endogenized ones (none of
them a default unknown) changes the number of unknowns by `|endo| - |exo|` -/
theorem swapSpots_length (all exo endo : List Spot) (hall : all.Nodup) (hexo : exo.Nodup)
    (hsub : ∀ s, s ∈ exo → s ∈ all) (hdisj : ∀ s, s ∈ endo → s ∉ all) :
    (swapSpots all exo endo).length + exo.length = all.length + endo.length := by
  have h1 : (endo.filter (fun s => !(all.filter (fun s => !exo.contains s)).contains s)) = endo := by
    apply List.filter_eq_self.mpr
    intro s hs
    rw [notContains_iff, List.mem_filter]
    intro h; exact absurd h.1 (hdisj s hs)
  have h2 : (all.filter (fun s => exo.contains s)).length = exo.length := by
    apply List.Perm.length_eq
    apply (List.perm_ext_iff_of_nodup (hall.filter _) hexo).mpr
    intro s
    simp only [List.mem_filter, List.contains_iff_mem]
    exact ⟨fun h => h.2, fun h => ⟨hsub s h, h⟩⟩
  have h3 : all.length = (all.filter (fun s => exo.contains s)).length + (all.filter (fun s => !exo.contains s)).length :=
    List.length_eq_length_filter_add _
  simp only [swapSpots, unionSpots, List.length_append, h1]
  omega

theorem allSpots_length (cols qids : List Nat) : (allSpots cols qids).length = cols.length * qids.length := by
  unfold allSpots
  induction cols with
  | nil => simp
  | cons c cs ih =>
    simp only [List.flatMap_cons, List.length_append, List.length_map, List.length_cons, ih]
    rw [Nat.add_mul, Nat.one_mul, Nat.add_comm]

/-- **(5) for an exactly identified plan the stacked system stays square**: as many unknown cells as default unknowns,
i.e. (number of columns to run) x (number of endogenous quantities) = the number of stacked equations -/
theorem exactly_identified_square (cols qids : List Nat) (exo endo : List Spot)
    (hall : (allSpots cols qids).Nodup) (hexo : exo.Nodup)
    (hsub : ∀ s, s ∈ exo → s ∈ allSpots cols qids) (hdisj : ∀ s, s ∈ endo → s ∉ allSpots cols qids)
    (hid : exo.length = endo.length) :
    ((swapSpots (allSpots cols qids) exo endo).mergeSort spotLe).length = cols.length * qids.length := by
  have h := swapSpots_length (allSpots cols qids) exo endo hall hexo hsub hdisj
  rw [List.length_mergeSort, ← allSpots_length]
  omega

/-- sorting does not change which cells are unknowns (`tuple(sorted(set …))`) -/
theorem mem_wrt_iff (cols qids : List Nat) (ea eu na nu : List (List Bool)) (eaQ euQ naQ nuQ : List Nat) (s : Spot) :
    s ∈ (getWrtSpots cols qids ea eu na nu eaQ euQ naQ nuQ).wrt ↔
      (s ∈ allSpots cols qids ∧
        ¬ (s ∈ spotsFromRegister ea eaQ cols ∨ s ∈ spotsFromRegister eu euQ (cols.take 1)))
      ∨ (s ∈ spotsFromRegister na naQ cols ∨ s ∈ spotsFromRegister nu nuQ (cols.take 1)) := by
  simp only [getWrtSpots, List.mem_mergeSort, mem_swapSpots, mem_unionSpots]

/-- the exogenized cells reported to `_copy_exogenized_data_to_frame_data`: anticipated ones in every column to run,
unanticipated ones in the first column of the frame only -/
theorem mem_exogenized_iff (cols qids : List Nat) (ea eu na nu : List (List Bool)) (eaQ euQ naQ nuQ : List Nat) (s : Spot) :
    s ∈ (getWrtSpots cols qids ea eu na nu eaQ euQ naQ nuQ).exogenized ↔
      s ∈ spotsFromRegister ea eaQ cols ∨ s ∈ spotsFromRegister eu euQ (cols.take 1) := by
  simp only [getWrtSpots, List.mem_mergeSort, mem_unionSpots]

/-- a cell comes out of a register exactly when its row is flagged in the column paired with it -/
theorem mem_spotsFromRegister (tbl : List (List Bool)) (rowQids cols : List Nat) (s : Spot) :
    s ∈ spotsFromRegister tbl rowQids cols ↔
      ∃ row, (s.1, row) ∈ rowQids.zip tbl ∧ (s.2, true) ∈ cols.zip row := by
  obtain ⟨q, c⟩ := s
  simp only [spotsFromRegister, List.mem_flatMap, List.mem_filterMap, Prod.exists]
  constructor
  · rintro ⟨q', row, hrow, c', b, hcb, h⟩
    cases b with
    | false => simp at h
    | true =>
      simp only [if_true, Option.some.injEq, Prod.mk.injEq] at h
      obtain ⟨rfl, rfl⟩ := h
      exact ⟨row, hrow, hcb⟩
  · rintro ⟨row, hrow, hcb⟩
    exact ⟨q, row, hrow, c, true, hcb, by simp⟩

end Stacked

section Registers

open IrisVerif.Plans

/-- writing to one register leaves the other three untouched -/
theorem set_get_other (p : Plan) (k k' : Kind) (r : Register) (h : k ≠ k') : (p.set k r).get k' = p.get k' := by
  cases k <;> cases k' <;> first | (exact absurd rfl h) | rfl

theorem set_get_same (p : Plan) (k : Kind) (r : Register) : (p.set k r).get k = r := by
  cases k <;> rfl

theorem set_numPeriods (p : Plan) (k : Kind) (r : Register) : (p.set k r).numPeriods = p.numPeriods := by
  cases k <;> rfl

/-- `exogenize_*` / `endogenize_*` touch only their own register (the four statuses of a cell are independent) -/
theorem write_other_register (p p' : Plan) (k k' : Kind) (periods : List Int) (names : List Nat) (st : Bool)
    (h : p.write k periods names st = .ok p') (hk : k ≠ k') : p'.get k' = p.get k' := by
  unfold Plan.write at h
  simp only at h
  split_ifs at h with h1 h2
  cases h
  exact set_get_other _ _ _ _ hk

/-- **a read reflects every write made so far** (the registers are the only state): after an accepted write the row of
name `i` is the old row with `some status` in the written periods if `i` was named, and the old row otherwise -/
theorem write_row (p p' : Plan) (k : Kind) (periods : List Int) (names : List Nat) (st : Bool)
    (h : p.write k periods names st = .ok p') (i : Nat) :
    (p'.get k)[i]? = ((p.get k)[i]?).map fun row =>
      if names.contains i then row.mapIdx (fun t s => if (periods.map Int.toNat).contains t then some st else s) else row := by
  unfold Plan.write at h
  simp only at h
  split_ifs at h with h1 h2
  cases h
  rw [set_get_same, List.getElem?_mapIdx]

/-- cell level: the boolean array read after a write shows `status` in every written cell and the previous status elsewhere -/
theorem write_cell (p p' : Plan) (k : Kind) (periods : List Int) (names : List Nat) (st : Bool)
    (h : p.write k periods names st = .ok p') (i t : Nat) (row : List Status) (s : Status)
    (hrow : (p.get k)[i]? = some row) (hcell : row[t]? = some s) :
    ∃ row', (p'.get k)[i]? = some row' ∧
      row'[t]? = some (if names.contains i ∧ (periods.map Int.toNat).contains t then some st else s) := by
  have hr := write_row p p' k periods names st h i
  rw [hrow, Option.map_some] at hr
  by_cases hn : names.contains i = true
  · refine ⟨_, hr, ?_⟩
    simp only [hn, if_true, List.getElem?_mapIdx, hcell, Option.map_some, true_and]
  · refine ⟨_, hr, ?_⟩
    rw [if_neg hn, hcell, if_neg (fun h => hn h.1)]

/-- a write keeps the plan span -/
theorem write_numPeriods (p p' : Plan) (k : Kind) (periods : List Int) (names : List Nat) (st : Bool)
    (h : p.write k periods names st = .ok p') : p'.numPeriods = p.numPeriods := by
  unfold Plan.write at h
  simp only at h
  split_ifs at h with h1 h2
  cases h
  exact set_numPeriods _ _ _

/-- **the order (and multiplicity) in which the dates are handed over is irrelevant**: a write depends on the period list only
through the set of its elements -- a tuple or list in any order, or a forward / backward / stepped span enumerating the same dates
(the enumeration itself is `Span` of property C09), register the same cells -/
theorem write_periods_set (p : Plan) (k : Kind) (periods periods' : List Int) (names : List Nat) (st : Bool)
    (h : ∀ t, t ∈ periods ↔ t ∈ periods') :
    p.write k periods names st = p.write k periods' names st := by
  have h1 : (periods.any fun t => t < 0 || (p.numPeriods : Int) ≤ t) = (periods'.any fun t => t < 0 || (p.numPeriods : Int) ≤ t) := by
    rw [Bool.eq_iff_iff]
    simp only [List.any_eq_true]
    exact ⟨fun ⟨t, ht, hp⟩ => ⟨t, (h t).mp ht, hp⟩, fun ⟨t, ht, hp⟩ => ⟨t, (h t).mpr ht, hp⟩⟩
  have h2 : ∀ t : Nat, (periods.map Int.toNat).contains t = (periods'.map Int.toNat).contains t := by
    intro t
    rw [Bool.eq_iff_iff]
    simp only [List.contains_iff_mem, List.mem_map]
    exact ⟨fun ⟨a, ha, e⟩ => ⟨a, (h a).mp ha, e⟩, fun ⟨a, ha, e⟩ => ⟨a, (h a).mpr ha, e⟩⟩
  unfold Plan.write
  simp only [h1, h2]

/-- an invalid name or an out-of-span period rejects the whole call: nothing is written -/
theorem write_rejects (p : Plan) (k : Kind) (periods : List Int) (names : List Nat) (st : Bool)
    (h : (names.any fun n => (p.get k).length ≤ n) = true ∨
         (periods.any fun t => t < 0 || (p.numPeriods : Int) ≤ t) = true) :
    ∃ e, p.write k periods names st = .error e := by
  unfold Plan.write
  by_cases h1 : (names.any fun n => (p.get k).length ≤ n) = true
  · exact ⟨.badName, by simp [h1]⟩
  · have h2 := h.resolve_left h1
    exact ⟨.badPeriod, by simp [h1, h2]⟩

/-- reading a register outside the plan span gives `False` (`_get_per_indexes` returns `None` there) -/
theorem boolArray_outside (np : Nat) (reg : Register) (periods : List Int) (i j : Nat) (row : List Bool) (t : Int)
    (hrow : (Plans.boolArray np reg periods)[i]? = some row) (ht : periods[j]? = some t)
    (hout : t < 0 ∨ (np : Int) ≤ t) : row[j]? = some false := by
  simp only [Plans.boolArray, List.getElem?_map] at hrow
  cases hr : reg[i]? with
  | none => simp [hr] at hrow
  | some r =>
    simp only [hr, Option.map_some, Option.some.injEq] at hrow
    subst hrow
    simp only [List.getElem?_map, ht, Option.map_some, Option.some.injEq]
    rcases hout with h | h <;> simp [h]

/-- a fresh plan is empty and has no endogenized anticipated point -/
theorem empty_isEmpty (np a b : Nat) : (Plan.empty np a b).isEmpty = true := by
  simp [Plan.empty, Plan.isEmpty, isActive, List.any_replicate]

end Registers

/-! ### Non-vacuity: the hypotheses are met by concrete non-trivial values -/

section Examples

open IrisVerif.Plans

/-- (1): `Z = [1 0]` observes the first of two states, `Q0 = [[2,1],[1,3]]` symmetric, `F = 2`, `Fi = 1/2` -/
example : ∃ (Z : Matrix (Fin 1) (Fin 2) ℚ) (Q0 : Matrix (Fin 2) (Fin 2) ℚ) (Fi : Matrix (Fin 1) (Fin 1) ℚ),
    Q0ᵀ = Q0 ∧ Fiᵀ = Fi ∧ Z * Q0 * Zᵀ * Fi = 1 ∧ Z ≠ 0 :=
  ⟨!![1, 0], !![2, 1; 1, 3], !![1/2],
    by ext i j; fin_cases i <;> fin_cases j <;> rfl,
    by ext i j; fin_cases i; fin_cases j; rfl,
    by ext i j; fin_cases i; fin_cases j; norm_num [Matrix.mul_apply, Fin.sum_univ_two, Matrix.vecMul, dotProduct],
    fun h => by have := congrFun (congrFun h 0) 0; simp at this⟩

/-- whole sample: a one-state system observed in period 0 (`Q0 = 1`, `F = 1`): the hypotheses of
`conditional_simulation_identities` hold with `last = 0` -/
example : ∃ (s : CondSystem (Fin 1) (Fin 1) (Fin 1) ℚ (fun _ => Fin 1)),
    s.QInitᵀ = s.QInit ∧ (∀ t, (s.S t)ᵀ = s.S t) ∧ (∀ t, (s.Fi t)ᵀ = s.Fi t) ∧
    (∀ t, t ≤ 0 → s.Z t * s.Q0 t * (s.Z t)ᵀ * s.Fi t = 1) ∧ s.Z 0 ≠ 0 :=
  ⟨{ T := fun _ => !![1/2], P := fun _ => 1, S := fun _ => 1, c := fun _ => 0, u0 := fun _ => 0, Z := fun _ => 1,
     Fi := fun _ => 1, y := fun _ => !![3], aInit := !![1], QInit := 0 },
   by simp, fun _ => by simp, fun _ => by simp,
   fun t ht => by
     have : t = 0 := by omega
     subst this
     simp [CondSystem.Q0, CondSystem.filt, predMse],
   by simp⟩

/-- (4): a 2-state recursion, two instruments entering in period 0 and 1, targets in period 1 and 2: `det M = 1` -/
example : ∃ (T : Matrix (Fin 2) (Fin 2) ℚ) (B : Fin 2 → ℕ → Fin 2 → ℚ) (cell : Fin 2 → ℕ × Fin 2),
    IsUnit (impactMatrix T B cell).det :=
  ⟨!![1/2, 0; 1, 1/2], fun i s => if s = i.val then ![1, 0] else 0, ![(1, 0), (2, 0)], by
    have : (impactMatrix !![(1/2 : ℚ), 0; 1, 1/2] (fun i s => if s = i.val then ![1, 0] else 0) ![(1, 0), (2, 0)]).det = 1 := by
      simp [impactMatrix, simPath, Matrix.det_fin_two]
    rw [this]; exact isUnit_one⟩

/-- (5): three endogenous quantities over two columns, one exogenized cell swapped for one shock cell: 6 unknowns -/
example : swapSpots (allSpots [1, 2] [0, 1, 2])
      (unionSpots (spotsFromRegister [[false, true], [false, false], [false, false]] [0, 1, 2] [1, 2]) [])
      (unionSpots (spotsFromRegister [[false, true], [false, false], [false, false]] [6, 7, 8] [1, 2]) [])
    = [(0, 1), (1, 1), (2, 1), (1, 2), (2, 2), (6, 2)] := by decide

/-- registers: an accepted write, a rejected one -/
example : ((Plan.empty 3 2 2).write .exoAnt [1] [0] true).toOption.map (fun p => p.boolArray .exoAnt [0, 1, 2, 3])
    = some [[false, true, false, false], [false, false, false, false]] := by decide
example : (match (Plan.empty 3 2 2).write .exoAnt [3] [0] true with | .error .badPeriod => true | _ => false) = true := by
  decide

end Examples

end IrisVerif.C07
