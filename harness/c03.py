"""
C03 -- Kalman filter, smoother and likelihood equal exact Gaussian conditioning.

Correspondence (class T): the Lean model `IrisVerif/Model/Kalman.lean` (exact rationals, driver C03) against
`irispie.fords.kalmans.predict/update/smooth/Cache.calculate_likelihood*` called directly on random small systems
(every missing mask for small T*ny, random above), against `estimate_unknown_init/correct_for_unknown_init`, and against
`Simultaneous.kalman_filter` on solved random models (the filter's own triangular solution and initial moments are fed
to the model, outputs mapped through `Ua`).
Oracle: batch Gaussian conditioning of the stacked system in numpy -- no recursion over conditional moments; for the
models the joint distribution is built from the generator's coefficient arrays alone (companion form, own Lyapunov solve).
"""
from __future__ import annotations
import os, json, glob, itertools, math
import numpy as np

from .common import Ctx, VERIF
from . import kalman_shared as ks

DRIVERS = ["C03"]
EXTRA_PROPS = ['KalmanBridge', 'GenTieCore', 'GenTieC03', 'KalmanVariants', 'KalmanObject']   # refinement bridge from the executable QMat model to the matrix-level theorems (audited with this check)
LEVEL = "proof"
MANIFEST = {
    "category": "proof",
    "text": ("Partial only in the sense of DESIGN section 8 (floating point, LAPACK, the output store and the model-to-abstract-recursion tie "
             "are validated, not proved); filter, likelihood AND smoother are proved. Lean 4 theorems over Mathlib matrices, any "
             "commutative ring with 2 invertible, all dimensions, every horizon N, any missing-data pattern (period-dependent row types): "
             "filter_is_conditioning -- the moments the filter hands to every period are prior mean + C S^-1 (Y - mu) and V - C S^-1 C' "
             "for the explicitly built stacked system (prior moments by the model's own moment recursion, proved to be the push-forward "
             "of the primitives' covariance through the model equations; S^-1 proved to be a genuine symmetric inverse, and unique); "
             "likelihood_is_stacked_density -- prod_t det F_t = det S_Y and sum_t pe'Fi pe = (Y-mu)' S_Y^-1 (Y-mu), so the reported value is "
             "the stacked Gaussian negative log-density; smoother_is_conditioning, smoother_mse_is_conditioning, "
             "smoother_shocks_is_conditioning, smoother_mshocks_is_conditioning -- the backward recursion of one_step_back/smooth "
             "(r, N, a2, Q2, u2, w2) returns the conditional mean and covariance of the state of period t, and the conditional means of "
             "its transition and measurement shocks, given ALL rows observed in periods 0..N-1 (tracked-vector extension of the stacked "
             "system; cross-covariances proved to be push-forwards); the one-period lemmas (push-forward prediction, update = conditional moments, "
             "sequential = joint conditioning via the Schur complement, block det / quadratic form); contributions sum to the total, empty "
             "periods contribute 0; variance-rescaling identities; the unknown-initial correction equals the run from the shifted initial "
             "mean in every period. The executable model (exact rationals, same operation structure as fords/kalmans.py incl. per-period "
             "row selection, time-varying std, unknown-initial GLS correction) is tied to the code on every run by tolerance-class "
             "correspondence on direct calls and through Simultaneous.kalman_filter, and an independent numpy batch-conditioning oracle on "
             "the real code supplies the replay. Also modelled and proved (Props/KalmanVariants, Props/KalmanObject): the per-variant loop with "
             "variance rescaling (variant locality; every reported MSE rescaled exactly once by its own variant's scale; stream "
             "variants-model via driver op kfv) and the solved model object as a state machine (assign / rescale_stds / copy / filter / "
             "memoised expansions extended on demand) refining its stateless specification for every call history (stream "
             "object-history via driver op obj)."),
    "design": "7/C03",
    "note": ("log det is taken in the harness (the model returns det Fi_t exactly); floating point, LAPACK inverse and the QZ solution are "
             "unmodelled substrate; tolerances 1e-8 relative on generator-controlled instances with cond(F_t) <= 1e6. The abstract Mathlib "
             "recursion the theorems are about and the QMat model are two transcriptions of the same formulas; the model's exact outputs are "
             "checked on every case against the identities the theorems prove."),
    "technique": "Lean 4 proof over Mathlib matrices + executable rational model + differential correspondence + batch-conditioning oracle",
}
ASSUMPTIONS = [
    "class-T comparison: |impl - model| <= 1e-8*(1+scale) on instances with cond(F_t) <= 1e6; oracle 1e-6*(1+scale) with cond(S_Y) <= 1e8",
    "the executable QMat model is tied to the abstract Mathlib recursion of Props/C03.lean by Props/KalmanBridge.lean (the exact runtime flags are sound, F*Fi = 1 whenever a period is passed) and, for the predict step, by the translator tie Props/GenTieC03.lean (model = regenerated kalmans.predict); an operation-by-operation refinement of the update and smoother steps is not proved -- they are two transcriptions of the same formulas compared on every case",
    "QMat.inverse is proved sound and complete (Lemmas/QMatSolve.lean: inverse_isSome_iff, inverse_complete) and is re-checked exactly (F*Fi = I) inside the model anyway; QMat.det is not proved (used only for the log-determinant term, compared with tolerance)",
    "log is taken by the harness on the model's exact det(Fi_t)",
    "unit-root / fixed_unknown initial conditions only through the direct-call stream with the GLS (concentrated) oracle",
]

ORTOL = 1e-6
MAXFAIL = 3


def fail(ctx: Ctx, site, case, detail):
    if sum(1 for f in ctx.failures if f["site"] == site) < MAXFAIL:
        ctx.fail(site, case, detail)
    else:
        ctx.count("failures_not_listed:" + site)


def prune(ctx: Ctx):
    """failures re-labelled after the fact (variants / callseq / noncontiguous) escape the per-site cap of `fail`: re-apply it"""
    seen, keep = {}, []
    for f in ctx.failures:
        seen[f["site"]] = seen.get(f["site"], 0) + 1
        if seen[f["site"]] <= MAXFAIL:
            keep.append(f)
        else:
            ctx.count("failures_not_listed:" + f["site"])
    ctx.failures[:] = keep


def oclose(a, b):
    return ks.close(a, b, ORTOL)


# ---------------------------------------------------------------------------------------
# oracle on direct calls
# ---------------------------------------------------------------------------------------

def oracle_direct(ctx: Ctx, case, impl):
    """impl = record of fords.kalmans on `case`; compared with batch conditioning of the stacked system"""
    A = ks.arrays(case)
    cw = {"stream": "direct", "case": case}
    if A["xi"] is None:
        B = ks.batch_of_case(case)
    else:
        # fixed unknown initial condition: a_init + Xi*delta with delta estimated by GLS on the stacked system
        B = ks.batch_of_case(case)
        m = len(B.Y)
        if m == 0:
            return
        S = B.C @ B.Sig @ B.C.T
        M = B.C @ B.A_init.T @ A["xi"]          # d(E Y)/d(delta)
        G = M.T @ np.linalg.solve(S, M)
        if np.linalg.cond(G) > 1e8:
            ctx.count("unknown_init_unidentified_skipped"); return
        resid = B.Y - (B.C @ B.mu + B.c)
        delta = np.linalg.solve(G, M.T @ np.linalg.solve(S, resid))
        if not oclose(impl["delta"], delta):
            fail(ctx, "unknown-init-gls", cw, f"delta impl={impl['delta']} gls={delta}")
        c2 = dict(case); c2["a"] = (A["a"] + (A["xi"] @ delta)).tolist(); c2["xi"] = None
        B = ks.batch_of_case(c2)
    if B.condS() > 1e8:
        ctx.count("oracle_ill_conditioned_skipped"); return
    n, nper, mall = B.n, B.nper, len(B.Y)
    for t in range(nper):
        m0, m1 = (B.upto(t - 1) if t else 0), B.upto(t)
        pa, pq = B.cond(B.A[t], B.k[t], m0)
        ua, uq = B.cond(B.A[t], B.k[t], m1)
        sa, sq = B.cond(B.A[t], B.k[t], mall)
        su, _ = B.cond(B.Eu[t], np.zeros(B.nu), mall)
        sw, _ = B.cond(B.Ew[t], np.zeros(B.nw), mall)
        uu, _ = B.cond(B.Eu[t], np.zeros(B.nu), m1)
        uw, _ = B.cond(B.Ew[t], np.zeros(B.nw), m1)
        checks = [("predict-mean", impl["a0"][t], pa), ("update-mean", impl["a1"][t], ua), ("smooth-mean", impl["a2"][t], sa),
                  ("smooth-shock-mean", impl["u2"][t], su), ("smooth-mshock-mean", impl["w2"][t], sw),
                  ("update-shock-mean", impl["u1"][t], uu), ("update-mshock-mean", impl["w1"][t], uw)]
        if A["xi"] is None:     # with an estimated initial condition the reported MSEs are conditional on delta; only means are compared
            checks += [("predict-mse", impl["Q0"][t], pq), ("update-mse", impl["Q1"][t], uq), ("smooth-mse", impl["Q2"][t], sq)]
            inx = A["mask"][t]
            if inx.any():
                Cy = (A["Z"] @ B.A[t] + A["H"] @ B.Ew[t])[inx]
                cy = (A["Z"] @ B.k[t] + A["D"])[inx]
                ym, yq = B.cond(Cy, cy, m0)
                checks += [("predict-obs-mean", impl["y0"][t], ym), ("predict-obs-mse", impl["F"][t], yq)]
        for name, got, want in checks:
            if got is None or not oclose(got, want):
                fail(ctx, "direct-" + name, cw, f"t={t}: impl={np.asarray(got).tolist() if got is not None else None} conditional={np.asarray(want).tolist()}")
    # likelihood
    N = mall
    if case.get("rescale") and N > 0:
        q = B.quad()
        vs = q / N
        if vs > 1e-12:
            want = B.nll(N, scale=vs)
            if not oclose([impl["var_scale"]], [vs]):
                fail(ctx, "direct-var-scale", cw, f"impl={impl['var_scale']} q/N={vs}")
            if not oclose([impl["nll"]], [want]):
                fail(ctx, "direct-likelihood-rescaled", cw, f"impl={impl['nll']} concentrated={want}")
    else:
        want = B.nll(N)
        if not oclose([impl["nll"]], [want]):
            fail(ctx, "direct-likelihood", cw, f"impl={impl['nll']} batch={want}")
        for t in range(nper):
            m0, m1 = (B.upto(t - 1) if t else 0), B.upto(t)
            wc = B.nll(m1) - B.nll(m0)
            if not ks.close([impl["contrib"][t]], [wc], 1e-6 * max(1.0, abs(want))):
                fail(ctx, "direct-contribution", cw, f"t={t}: impl={impl['contrib'][t]} conditional density={wc}")
    check_contrib_laws(ctx, "direct", cw, impl["contrib"], impl["nll"], impl["num_obs"], bool(case.get("rescale")))


def check_contrib_laws(ctx, prefix, cw, contrib, total, num_obs, rescaled):
    s = float(np.sum(contrib))
    if not ks.close([s], [total], 1e-9):
        fail(ctx, ("contributions-sum-rescaled" if rescaled else prefix + "-contributions-sum"), cw,
             f"sum of contributions={s!r} total={total!r} rescale_variance={rescaled}")
    for t, (c, k) in enumerate(zip(contrib, num_obs)):
        if k == 0 and c != 0:
            fail(ctx, prefix + "-empty-period-contributes", cw, f"t={t}: contribution {c!r} without observations")


# ---------------------------------------------------------------------------------------
# direct stream
# ---------------------------------------------------------------------------------------

def run_direct(ctx: Ctx, cases, stream, with_model=True):
    impls, lines = [], []
    for c in cases:
        try:
            impls.append(ks.impl_direct(c))
        except np.linalg.LinAlgError:
            impls.append("err:singular")
        except Exception as e:
            impls.append("err:" + type(e).__name__ + ":" + str(e)[:80])
        lines.append(ks.encode(c))
    replies = ctx.model("C03", lines) if with_model else None
    for i, (c, im) in enumerate(zip(cases, impls)):
        ctx.evaluations += 1
        A = ks.arrays(c)
        nobs = int(sum(m.sum() for m in A["mask"]))
        ctx.count(f"{stream}:n={len(c['T'])}"); ctx.count(f"{stream}:ny={len(c['Z'])}"); ctx.count(f"{stream}:T={A['nper']}")
        ctx.count(f"{stream}:missing={'none' if nobs == A['nper'] * len(c['Z']) else ('all' if nobs == 0 else 'some')}")
        if any(not m.any() for m in A["mask"]): ctx.count(f"{stream}:has_empty_period")
        if c.get("rescale"): ctx.count(f"{stream}:rescale")
        if isinstance(im, str):
            ctx.count(f"{stream}:impl_{im[:20]}")
            if replies is not None and not (im == "err:singular" and replies[i] == "err:singular"):
                # an exactly singular F on the float side may be a tiny pivot: only other errors are disagreements
                if not (im == "err:singular" or replies[i] == "err:singular"):
                    ctx.disagree(stream, c, im, replies[i][:200])
            continue
        if nobs > 0 and A["nper"] > 1:
            ctx.nontriv((stream, len(c["T"]), len(c["Z"]), A["nper"], tuple(tuple(int(b) for b in m) for m in A["mask"]),
                         bool(c.get("rescale")), c["xi"] is not None))
        if i < 2:
            ctx.sample({"stream": stream, "case": c, "implementation": {"nll": im["nll"], "contrib": im["contrib"]}})
        oracle_direct(ctx, c, im)
        if replies is None:
            continue
        ctx.streams_compared[stream] = ctx.streams_compared.get(stream, 0) + 1
        mo = ks.decode(replies[i], c["xi"] is not None)
        if "err" in mo:
            if mo["err"] == "err:singular" or mo["err"] == "err:zeroScale":
                ctx.count(f"{stream}:model_{mo['err']}")
            else:
                ctx.disagree(stream, c, "ok", mo["err"])
            continue
        if im["condF"] > ks.COND_MAX:
            ctx.count(f"{stream}:ill_conditioned_skipped"); continue
        bad = ks.compare_direct(im, mo)
        if bad:
            ctx.disagree(stream, c, f"differs at {bad[:6]} nll={im['nll']!r}", f"nll={mo['nll']!r}")
        if "F" in (mo["mid"], mo["tid"], mo["sim"], mo["csum"]) and c["xi"] is None:
            ctx.disagree(stream + "-model-identities", c, "identities proved in Props/C08, C03",
                         f"mid={mo['mid']} tid={mo['tid']} sim={mo['sim']} csum={mo['csum']}")


def exhaustive_mask_cases(ctx: Ctx, rng, budget):
    """one system per (ny, T) with ny*T <= budget, every missing-data mask"""
    cases = []
    for ny, nper in [(1, 1), (1, 2), (2, 1), (1, 3), (3, 1), (2, 2), (1, 4), (2, 3), (3, 2), (1, 5), (1, 6), (2, 4), (1, 8), (3, 3), (2, 5)]:
        if ny * nper > budget:
            continue
        base = ks.gen_system(rng.fork(f"ex{ny}x{nper}"), n=rng.randint(1, 3), ny=ny, nper=nper)
        for bits in itertools.product([0, 1], repeat=ny * nper):
            c = dict(base)
            c["mask"] = [list(bits[t * ny:(t + 1) * ny]) for t in range(nper)]
            cases.append(c)
    return cases


# ---------------------------------------------------------------------------------------
# through Simultaneous.kalman_filter
# ---------------------------------------------------------------------------------------

def oracle_e2e(ctx: Ctx, case, m, span, out, info):
    mc, data = case["mc"], case["data"]
    cw = {"stream": "e2e", "case": case}
    B = ks.e2e_batch(case)
    if B.condS() > 1e8:
        ctx.count("e2e:oracle_ill_conditioned_skipped"); return
    nx = len(mc["logx"]); ne = len(mc["std_e"]); nw = len(mc["std_w"]); nper = data["nper"]; mall = len(B.Y)
    vs = 1.0
    if case["rescale"]:
        vs = B.quad() / mall
        if not vs > 1e-12:
            ctx.count("e2e:zero_variance_scale_skipped"); return      # the data are fitted exactly: log(var_scale) is not defined
        if not oclose([info["var_scale"]], [vs]):
            fail(ctx, "e2e-var-scale", cw, f"impl={info['var_scale']} q/N={vs}")
        want = B.nll(mall, scale=vs)
    else:
        want = B.nll(mall)
    if not oclose([info["neg_log_likelihood"]], [want]):
        fail(ctx, "e2e-likelihood", cw, f"impl={info['neg_log_likelihood']!r} joint Gaussian={want!r} rescale={case['rescale']}")
    contrib = ks.series_values(info, "neg_log_likelihood_contributions", span) if False else \
        np.array(info["neg_log_likelihood_contributions"].get_data(span), dtype=float).ravel()
    num_obs = [int(sum(r)) for r in data["mask"]]
    check_contrib_laws(ctx, "e2e", cw, contrib, info["neg_log_likelihood"], num_obs, case["rescale"])
    if not case["rescale"]:
        for t in range(nper):
            wc = B.nll(B.upto(t)) - B.nll(B.upto(t - 1) if t else 0)
            if not ks.close([contrib[t]], [wc], 1e-6 * max(1.0, abs(want))):
                fail(ctx, "e2e-contribution", cw, f"t={t}: impl={contrib[t]} conditional density={wc}")
    sc = math.sqrt(vs)
    got = {}
    for step in ("predict", "update", "smooth"):
        for j in range(nx):
            key = ks.var_key(f"x{j}", mc["logx"][j])
            got[(step, "med", j)] = ks.series_values(out[step + "_med"], key, span)
            got[(step, "std", j)] = ks.series_values(out[step + "_std"], key, span)
    for t in range(nper):
        ms = {"predict": (B.upto(t - 1) if t else 0), "update": B.upto(t), "smooth": mall}
        for step, mm in ms.items():
            mean, cov = B.cond(B.A[t][:nx], B.k[t][:nx], mm)
            sdv = ks.sd(cov) * sc
            for j in range(nx):
                if not oclose([got[(step, "med", j)][t]], [mean[j]]):
                    fail(ctx, f"e2e-{step}-mean", cw, f"t={t} x{j}: impl={got[(step, 'med', j)][t]!r} conditional={mean[j]!r}")
                # stds are compared through variances: sqrt amplifies round-off of a (nearly) zero conditional variance
                if not oclose([got[(step, "std", j)][t] ** 2], [sdv[j] ** 2]):
                    fail(ctx, f"e2e-{step}-std", cw, f"t={t} x{j}: impl={got[(step, 'std', j)][t]!r} conditional={sdv[j]!r}")
            if step != "predict":
                um, _ = B.cond(B.Eu[t], np.zeros(ne), mm)
                wm, _ = B.cond(B.Ew[t], np.zeros(nw), mm)
                for j in range(ne):
                    v = ks.series_values(out[step + "_med"], f"e{j}", span)[t]
                    if not oclose([v], [um[j]]):
                        fail(ctx, f"e2e-{step}-shock-mean", cw, f"t={t} e{j}: impl={v!r} conditional={um[j]!r}")
                for j in range(nw):
                    v = ks.series_values(out[step + "_med"], f"w{j}", span)[t]
                    if not oclose([v], [wm[j]]):
                        fail(ctx, f"e2e-{step}-shock-mean", cw, f"t={t} w{j}: impl={v!r} conditional={wm[j]!r}")
    # stds of shocks in the prediction step are the (possibly time-varying) input stds
    se = data["std_e_t"] or [mc["std_e"]] * nper
    for j in range(ne):
        v = ks.series_values(out["predict_std"], f"e{j}", span)
        if not oclose(v, np.array([r[j] for r in se]) * sc):
            fail(ctx, "e2e-predict-shock-std", cw, f"e{j}: impl={v.tolist()} input={[r[j] for r in se]}")


def run_e2e(ctx: Ctx, cases, n_model):
    lines, keep = [], []
    for i, c in enumerate(cases):
        ctx.evaluations += 1
        if ks.e2e_batch(c).condS() > 1e8:
            ctx.count("e2e:degenerate_joint_distribution_skipped"); continue
        try:
            m, db, span, out, info = ks.run_e2e(c)
        except Exception as e:
            fail(ctx, "e2e-raises", {"stream": "e2e", "case": c}, repr(e)[:300]); continue
        full = c
        c = ks.effective(c)           # a span that is not a consecutive run = its contiguous hull with the other periods unobserved
        if full.get("sel") is not None:
            ctx.count("e2e:noncontiguous_span=" + ("Span(step)" if isinstance(ks.prepare_e2e(full, m)[2], tuple) is False else "tuple"))
        mc, data = c["mc"], c["data"]
        ctx.count(f"e2e:nx={len(mc['logx'])}"); ctx.count(f"e2e:ny={len(mc['logy'])}"); ctx.count(f"e2e:T={data['nper']}")
        ctx.count(f"e2e:deviation={c['deviation']}"); ctx.count(f"e2e:rescale={c['rescale']}")
        ctx.count(f"e2e:tv_std={data['std_e_t'] is not None}"); ctx.count(f"e2e:logs={any(mc['logx']) or any(mc['logy'])}")
        ctx.count(f"e2e:unit_root={mc.get('unit') is not None}")
        if not any(data["mask"][-1]): ctx.count("e2e:forecast_tail")
        if any(not any(r) for r in data["mask"]): ctx.count("e2e:has_empty_period")
        ctx.nontriv(("e2e", json.dumps(mc, sort_keys=True), json.dumps(data["mask"]), c["deviation"], c["rescale"]))
        if i < 2:
            ctx.sample({"stream": "e2e", "source": ks.model_source(mc), "mask": data["mask"], "deviation": c["deviation"],
                        "rescale": c["rescale"], "neg_log_likelihood": info["neg_log_likelihood"]})
        before = len(ctx.failures)
        oracle_e2e(ctx, c, m, span, out, info)
        if full.get("sel") is not None:
            for f in ctx.failures[before:]:
                f["case"] = {"stream": "e2e", "case": full}; f["site"] = f["site"].replace("e2e-", "noncontiguous-span-")
        if i < n_model:
            lc, maps = ks.lean_case_of_e2e(c, m)
            lines.append("kfr" + ks.encode(lc)[2:]); keep.append((c, lc, maps, span, out, info))
    replies = ctx.model("C03", lines)
    if replies is None:
        return
    for (c, lc, maps, span, out, info), r in zip(keep, replies):
        ctx.streams_compared["e2e-model"] = ctx.streams_compared.get("e2e-model", 0) + 1
        mo = ks.decode(r, lc["xi"] is not None)
        if "err" in mo:
            if mo["err"] == "err:zeroScale":
                # rescale_variance with an exact fit (q = 0): the model's explicit partial-operation branch; numpy gives inf/nan
                ctx.count("e2e-model:zero_variance_scale_skipped")
            elif mo["err"] == "err:singular" and lc["xi"] is not None:
                ctx.count("e2e-model:unknown_init_singular_gls_skipped")
            else:
                ctx.disagree("e2e-model", c, "ok", mo["err"])
            continue
        condF = max([float(np.linalg.cond(F)) for F in mo["F"] if F.size] + [1.0])
        if condF > ks.COND_MAX:
            ctx.count("e2e-model:ill_conditioned_skipped"); continue
        bad = []
        sc = math.sqrt(float(mo["var_scale"]))
        U = maps["Ua_sel"]
        for step, ka, kq in (("predict", "a0", "Q0"), ("update", "a1", "Q1"), ("smooth", "a2", "Q2")):
            for t in range(len(lc["mask"])):
                x = U @ mo[ka][t]; s = ks.sd(U @ mo[kq][t] @ U.T) * sc
                for nm, v, sv in zip(maps["x_names"], x, s):
                    key = ks.var_key(nm, c["mc"]["logx"][int(nm[1:])])
                    if not ks.close([ks.series_values(out[step + "_med"], key, span)[t]], [v]): bad.append((step, "med", nm, t))
                    if not ks.close([ks.series_values(out[step + "_std"], key, span)[t] ** 2], [sv ** 2], 1e-7): bad.append((step, "std", nm, t))
        for t in range(len(lc["mask"])):
            for nm, v in zip(maps["u_names"], mo["u2"][t]):
                if not ks.close([ks.series_values(out["smooth_med"], nm, span)[t]], [v]): bad.append(("smooth", "shock", nm, t))
            for nm, v in zip(maps["w_names"], mo["w2"][t]):
                if not ks.close([ks.series_values(out["smooth_med"], nm, span)[t]], [v]): bad.append(("smooth", "mshock", nm, t))
        if not ks.close([info["neg_log_likelihood"]], [mo["nll"]]): bad.append(("nll",))
        if not ks.close([info["var_scale"]], [float(mo["var_scale"])]): bad.append(("var_scale",))
        cm = np.array(info["neg_log_likelihood_contributions"].get_data(span), dtype=float).ravel()
        if not ks.close(cm, mo["contrib"]): bad.append(("contrib",))
        if bad:
            ctx.disagree("e2e-model", c, f"differs at {bad[:6]} nll={info['neg_log_likelihood']!r}", f"nll={mo['nll']!r}")
        if mo["mid"] == "F" or mo["csum"] == "F":
            ctx.disagree("e2e-model-identities", c, "identities proved in Props", f"mid={mo['mid']} csum={mo['csum']}")


def run_variants(ctx: Ctx, cases, n_model=0):
    """several parameter variants in one model object: every variant against the joint Gaussian of ITS parameters; the first
    `n_model` cases also go through the Lean model's variant loop (`kfv` = `filterVariants`: per-variant run + own variance scale)"""
    lines, keep = [], []
    for ci, c in enumerate(cases):
        ctx.evaluations += 1
        nv = len(c["mcs"])
        cvs = ks.variant_subcases(c)
        if any(ks.e2e_batch(cv).condS() > 1e8 for cv in cvs):
            ctx.count("variants:degenerate_joint_distribution_skipped"); continue
        try:
            m, db, span, out, info = ks.run_variants(c)
        except Exception as e:
            fail(ctx, "variants-raises", {"stream": "variants", "case": c}, repr(e)[:300]); continue
        ctx.count(f"variants:nv={nv}"); ctx.count(f"variants:rescale={bool(c.get('rescale'))}")
        ctx.count(f"variants:deviation={bool(c.get('deviation'))}"); ctx.count(f"variants:tv_std={c['data']['std_e_t'] is not None}")
        ctx.nontriv(("variants", json.dumps(c["mcs"], sort_keys=True), json.dumps(c["data"]["mask"])))
        before = len(ctx.failures)
        for v in range(nv):
            out_v, info_v = ks.slice_variant(out, info, v, nv, span)
            oracle_e2e(ctx, cvs[v], m, span, out_v, info_v)
        for f in ctx.failures[before:]:
            if f["case"].get("stream") == "e2e":
                f["case"] = {"stream": "variants", "case": c}; f["site"] = f["site"].replace("e2e-", "variants-")
        if ci < n_model:
            try:
                import itertools
                mvs = list(itertools.islice(m.iter_variants(), nv))
                parts, maps = [], []
                for v in range(nv):
                    lc, mp = ks.lean_case_of_e2e(cvs[v], mvs[v])
                    if lc["xi"] is not None:
                        raise ValueError("unit root")
                    parts.append(" ".join(ks.encode(lc).split()[3:])); maps.append((lc, mp))
                lines.append(f"kfv {1 if c.get('rescale') else 0} {nv} " + " ".join(parts))
                keep.append((c, cvs, maps, span, out, info))
            except Exception as e:
                ctx.count("variants-model:not_encoded")
    if not lines:
        return
    replies = ctx.model("C03", lines)
    if replies is None:
        return
    for (c, cvs, maps, span, out, info), r in zip(keep, replies):
        ctx.streams_compared["variants-model"] = ctx.streams_compared.get("variants-model", 0) + 1
        if not r.startswith("ok "):
            if r == "err:singular" or r == "err:zeroScale":
                ctx.count("variants-model:" + r)
            else:
                ctx.disagree("variants-model", {"stream": "variants", "case": c}, "ok", r[:100])
            continue
        tk = ks._Tok(r); tk.word()
        nv = int(tk.word()); bad = []
        for v in range(nv):
            vs = float(tk.rat()); nper = int(tk.word())
            lc, mp = maps[v]
            if not ks.close([info[v]["var_scale"]], [vs]): bad.append(("var_scale", v))
            U = mp["Ua_sel"]
            for t in range(nper):
                for step in ("predict", "update", "smooth"):
                    Qs = tk.mat()
                    var = np.maximum(np.diag(U @ Qs @ U.T), 0.0)
                    for nm, want in zip(mp["x_names"], var):
                        key = ks.var_key(nm, cvs[v]["mc"]["logx"][int(nm[1:])])
                        a = np.array(out[step + "_std"][key].get_data(span), dtype=float)
                        got = a.reshape(a.shape[0], -1)[t, v] ** 2
                        if not ks.close([got], [want], 1e-7): bad.append((step, "var", nm, t, v))
        if bad:
            ctx.disagree("variants-model", {"stream": "variants", "case": c}, f"reported variances differ at {bad[:6]}", "filterVariants")


def run_callseq(ctx: Ctx, cases):
    """sequences of calls on ONE solved model object (filter / neg_log_likelihood / simulate; deviation and level mode, rescaling,
    full, sub- and non-consecutive spans drawn independently per call): every filter call is judged against the batch oracle of
    ITS options, whatever was called before"""
    import irispie as ir
    for c in cases:
        ctx.evaluations += 1
        mc = c["mc"]
        cw = {"stream": "callseq", "case": c}
        if ks.e2e_batch({"mc": mc, "data": c["data"], "deviation": False, "rescale": False}).condS() > 1e8:
            ctx.count("callseq:degenerate_joint_distribution_skipped"); continue
        try:
            m = ks.build_model(mc)
        except Exception as e:
            fail(ctx, "callseq-raises", cw, repr(e)[:300]); continue
        ctx.nontriv(("callseq", json.dumps(mc, sort_keys=True), json.dumps(c["calls"])))
        pat = ">".join((("dev-" if k.get("deviation") else "lvl-") if k["kind"] in ("filter", "nll", "simulate") else "") + k["kind"]
                       for k in c["calls"])
        ctx.count("callseq:" + pat)
        if any(k["kind"] in ("assign_stds", "rescale_stds") for k in c["calls"]): ctx.count("callseq:with_std_change")
        if any(k["kind"] == "copy" for k in c["calls"]): ctx.count("callseq:with_copy")
        mc_now = ks.json_copy(mc)
        for k, call in enumerate(c["calls"]):
            before = len(ctx.failures)
            if call["kind"] in ("assign_stds", "rescale_stds", "copy"):
                try:
                    m = ks.apply_mutation(m, mc_now, call)
                except Exception as e:
                    fail(ctx, "callseq-raises", cw, f"call {k} {call}: {e!r}"[:300]); break
                continue
            sub = ks.callseq_subcase(c, call, ks.json_copy(mc_now))
            try:
                if call["kind"] == "simulate":
                    start, span = ks.e2e_span(c["data"]["nper"])
                    sdb = ir.Databox.steady(m, span, deviation=call["deviation"])
                    m.simulate(sdb, span, method="first_order", deviation=call["deviation"])
                    continue
                B = ks.e2e_batch(sub)
                if B.condS() > 1e8 or len(B.Y) == 0:
                    continue
                if call["kind"] == "filter":
                    _, db, span, out, info = ks.run_e2e(sub, m=m)
                    oracle_e2e(ctx, ks.effective(sub), m, span, out, info)
                else:
                    _, db, fspan, span, kw = ks.prepare_e2e(sub, m)
                    nll = m.neg_log_likelihood(db, fspan, **kw)
                    N = len(B.Y)
                    vs = B.quad() / N if call["rescale"] else 1.0
                    if vs > 1e-12 and not oclose([nll], [B.nll(N, scale=vs)]):
                        fail(ctx, "callseq-likelihood", cw, f"call {k} {call}: neg_log_likelihood()={nll!r} joint Gaussian={B.nll(N, scale=vs)!r}")
            except Exception as e:
                fail(ctx, "callseq-raises", cw, f"call {k} {call}: {e!r}"[:300])
            for f in ctx.failures[before:]:
                if f["case"].get("stream") == "e2e":
                    f["case"] = cw; f["site"] = f["site"].replace("e2e-", "callseq-")
                    f["detail"] = f"call {k} {call} after {[(x['kind'], x.get('deviation')) for x in c['calls'][:k]]}: " + f["detail"]


def run_object_history(ctx: Ctx, rng, n):
    """the solved model object as a state machine (Lean: Model/KalmanObject.lean, Props/KalmanObject.lean `run_refines_spec`):
    histories of assign / rescale_stds / copy / filter (observation: the shock stds the filter run reports) / expansion requests of
    growing and shrinking horizon on the square and triangular memo, replayed op by op on the model (`obj`) and on the real object"""
    lines, keep = [], []
    for i in range(n):
        r = rng.fork(i)
        mc = ks.gen_model(r, forward=True)
        data = ks.gen_data(r, mc, 4)
        data["std_e_t"] = None; data["std_w_t"] = None
        try:
            m = ks.build_model(mc)
            sol = m._gets_solution()
            if any(getattr(sol, k) is None for k in ("X", "Xa", "J", "Ru")):
                ctx.count("object-history:no_expansion_skipped"); continue
        except Exception:
            ctx.count("object-history:unsolvable_skipped"); continue
        ctx.evaluations += 1
        start, span = ks.e2e_span(4)
        db = ks.databox_of(mc, data, start)
        ne, nw = len(mc["std_e"]), len(mc["std_w"])
        head = ["obj"] + [ks.mat_text(getattr(sol, k)) for k in ("X", "Xa", "J", "Ru")]
        head += [str(ne)] + [ks.rat_of_float(v) for v in mc["std_e"]] + [str(nw)] + [ks.rat_of_float(v) for v in mc["std_w"]]
        ops, outs = [], []
        for _ in range(r.randint(6, 10)):
            kind = r.weighted([("aE", 2), ("aW", 1), ("rs", 2), ("cp", 1), ("fl", 3), ("xs", 3), ("xt", 3)])
            ctx.count("object-history:op=" + kind)
            try:
                if kind == "aE":
                    v = [r.choice([0.2, 0.5, 1.0, 1.3, 2.0]) for _ in range(ne)]
                    m.assign(**{f"std_e{j}": x for j, x in enumerate(v)})
                    ops.append(" ".join(["aE", str(ne)] + [ks.rat_of_float(x) for x in v])); outs.append(None)
                elif kind == "aW":
                    v = [r.choice([0.1, 0.3, 0.7]) for _ in range(nw)]
                    if nw: m.assign(**{f"std_w{j}": x for j, x in enumerate(v)})
                    ops.append(" ".join(["aW", str(nw)] + [ks.rat_of_float(x) for x in v])); outs.append(None)
                elif kind == "rs":
                    f = r.choice([0.5, 2.0, 1.5, 3.0]); m.rescale_stds(f)
                    ops.append("rs " + ks.rat_of_float(f)); outs.append(None)
                elif kind == "cp":
                    m = m.copy(); sol = m._gets_solution()
                    ops.append("cp"); outs.append(None)
                elif kind == "fl":
                    o = m.kalman_filter(db, span, return_=("predict",))
                    outs.append(("S", [float(ks.series_values(o["predict_std"], f"e{j}", span)[0]) for j in range(ne)],
                                 [float(ks.series_values(o["predict_std"], f"w{j}", span)[0]) for j in range(nw)]))
                    ops.append("fl")
                else:
                    fwd = r.randint(0, 6)
                    res = (sol.expand_square_solution(fwd) if kind == "xs" else sol.expand_triangular_solution(fwd))[1:]
                    outs.append(("M", [np.array(x, dtype=float) for x in res])); ops.append(f"{kind} {fwd}")
            except np.linalg.LinAlgError:
                # the random model has a (numerically) singular prediction-error covariance for this data: not a history matter
                ctx.count("object-history:singular_F_skipped"); ops = None; break
            except Exception as e:
                fail(ctx, "object-history-raises", {"stream": "object-history", "mc": mc, "ops": ops}, f"{kind}: {e!r}"[:300]); break
        if ops is None:
            continue
        lines.append(" ".join(head + [str(len(ops))] + ops)); keep.append((mc, ops, outs))
        ctx.nontriv(("object-history", json.dumps(mc, sort_keys=True), tuple(ops)))
        if i < 1:
            ctx.sample({"stream": "object-history", "ops": ops})
    replies = ctx.model("C03", lines) if lines else None
    if replies is None:
        return
    for (mc, ops, outs), rep in zip(keep, replies):
        ctx.streams_compared["object-history"] = ctx.streams_compared.get("object-history", 0) + 1
        case = {"stream": "object-history", "mc": mc, "ops": ops}
        if not rep.startswith("ok"):
            ctx.disagree("object-history", case, "ok", rep[:100]); continue
        tk = ks._Tok(rep); tk.word(); bad = []
        for k, o in enumerate(outs):
            tag = tk.word()
            if tag == "-":
                if o is not None: bad.append((k, "kind"))
            elif tag == "S":
                e = [float(tk.rat()) for _ in range(int(tk.word()))]; wv = [float(tk.rat()) for _ in range(int(tk.word()))]
                if o is None or o[0] != "S" or not ks.close(o[1], e, 1e-12) or not ks.close(o[2], wv, 1e-12): bad.append((k, ops[k], "stds"))
            else:
                mats = [tk.mat() for _ in range(int(tk.word()))]
                if o is None or o[0] != "M" or len(o[1]) != len(mats) or any(not ks.close(a, b, 1e-9) for a, b in zip(o[1], mats)):
                    bad.append((k, ops[k], "expansion"))
        if bad:
            ctx.disagree("object-history", case, f"observations differ at {bad[:5]}", "state machine = stateless spec")


def run_config(ctx: Ctx, cases):
    """which output steps are requested / stored must not change any reported number: the likelihood of a call that stores nothing
    (`neg_log_likelihood`), the smoother alone, the update step without the smoother"""
    for c in cases:
        ctx.evaluations += 1
        cw = {"stream": "config", "case": c}
        if ks.e2e_batch(c).condS() > 1e8:
            continue
        try:
            m, db, span, out, info = ks.run_e2e(c)
        except Exception as e:
            continue
        kw = dict(stds_from_data=c["data"]["std_e_t"] is not None, deviation=c["deviation"], rescale_variance=c["rescale"])
        nx = len(c["mc"]["logx"])
        keys = [ks.var_key(f"x{j}", c["mc"]["logx"][j]) for j in range(nx)]
        ctx.count(f"config:unit_root={c['mc'].get('unit') is not None}")
        # (1) nothing stored
        try:
            nll = m.neg_log_likelihood(db, span, **kw)
            if not ks.close([nll], [info["neg_log_likelihood"]], 1e-10):
                fail(ctx, "likelihood-depends-on-requested-output", cw,
                     f"neg_log_likelihood()={nll!r} but kalman_filter(...) info={info['neg_log_likelihood']!r}")
        except Exception as e:
            fail(ctx, "likelihood-depends-on-requested-output", cw, f"neg_log_likelihood raises {e!r}"[:300])
        # (2) single steps
        for ret, step in ((("smooth",), "smooth"), (("predict", "update"), "update"), (("update",), "update"), (("predict",), "predict")):
            site = "update-without-smooth" if (step == "update" and c["mc"].get("unit") is None) else "output-depends-on-requested-steps"
            try:
                out2, info2 = m.kalman_filter(db, span, return_=ret, return_info=True, **kw)
            except Exception as e:
                fail(ctx, site, cw, f"kalman_filter(return_={ret}) raises {e!r}"[:300]); continue
            if not ks.close([info2["neg_log_likelihood"]], [info["neg_log_likelihood"]], 1e-10):
                fail(ctx, "likelihood-depends-on-requested-output", cw,
                     f"return_={ret}: likelihood {info2['neg_log_likelihood']!r} vs {info['neg_log_likelihood']!r}")
            for key in keys:
                for kind in ("_med", "_std"):
                    a = ks.series_values(out2[step + kind], key, span); b = ks.series_values(out[step + kind], key, span)
                    if not ks.close(a, b, 1e-10):
                        fail(ctx, site, cw, f"return_={ret}: {step}{kind}[{key}] = {a.tolist()} but {b.tolist()} when all steps are requested")


# ---------------------------------------------------------------------------------------
# entry points
# ---------------------------------------------------------------------------------------

def corpus_payloads():
    for p in sorted(glob.glob(os.path.join(VERIF, "corpus", "C03", "*.json"))):
        yield p, json.load(open(p))


def run_payload(ctx: Ctx, payload, with_model=True):
    case = payload.get("case", payload)
    stream = case.get("stream") if isinstance(case, dict) else None
    inner = case.get("case") if isinstance(case, dict) and "case" in case else case
    if stream in ("direct", None) and isinstance(inner, dict) and "T" in inner:
        run_direct(ctx, [inner], "replay", with_model)
    elif stream == "e2e":
        run_e2e(ctx, [inner], 1 if with_model else 0)
    elif stream == "config":
        run_config(ctx, [inner])
    elif stream == "callseq" or (isinstance(inner, dict) and "calls" in inner):
        run_callseq(ctx, [inner])
    elif stream == "variants" or (isinstance(inner, dict) and "mcs" in inner):
        run_variants(ctx, [inner])
    elif isinstance(inner, dict) and "mc" in inner:
        run_e2e(ctx, [inner], 1 if with_model else 0)
        run_config(ctx, [inner])


def run(ctx: Ctx):
    ctx.rule = ("direct stream: random systems n<=5 states, <=3 observables, T<=12 with dyadic entries, time-varying stds, shock means, "
                "random missing masks, plus every mask of one system per (ny,T) with ny*T <= 6 (quick) / 10 (thorough); unknown-init stream: "
                "same with one unit root and Xi; e2e: random linear Simultaneous models (1-3 variables, lags <=2, log-variables, 1-3 "
                "observables) with simulated data, masks incl. forecast tails, time-varying stds from data, deviation and rescale_variance "
                "flags; filter spans that are not consecutive runs (ir.Span with a step, hand-picked tuples) with observations in the in-between "
                "periods; sequences of 3-5 calls on one model object (filter / neg_log_likelihood / simulate, deviation and level, "
                "rescaling, full / sub / non-consecutive spans; in between, stds of transition / measurement shocks re-assigned or rescaled "
                "without a new solve(), the object replaced by its copy), each filter call against the oracle of the options and "
                "parameters in force at that call; "
                "highly persistent stationary models (real roots 0.98-0.9995, complex pairs with modulus close to 1); "
                "the same with one random-walk (unit-root) variable under fixed_unknown (GLS oracle); config: every case re-run "
                "through neg_log_likelihood and with single output steps. "
                "distinct_nontrivial = distinct (sizes, mask, flags) cases with T>1 and at least one observation (direct) / distinct "
                "(model, mask, flags) (e2e)")
    for p, payload in corpus_payloads():
        ctx.count("corpus")
        run_payload(ctx, payload)
    rng = ctx.rng.fork("direct")
    cases = [ks.gen_system(rng.fork(i)) for i in range(ctx.n(120, 2500))]
    run_direct(ctx, cases, "direct")
    ex = exhaustive_mask_cases(ctx, ctx.rng.fork("masks"), 6 if ctx.quick else 10)
    ctx.count("exhaustive_mask_cases", len(ex))
    run_direct(ctx, ex, "direct-masks")
    rng = ctx.rng.fork("xi")
    cases = [ks.gen_system(rng.fork(i), unknown_init=True) for i in range(ctx.n(30, 400))]
    run_direct(ctx, cases, "direct-unknown-init")
    rng = ctx.rng.fork("e2e")
    cases = [ks.gen_e2e_case(rng.fork(i), 8 if ctx.quick else 12) for i in range(ctx.n(40, 600))]
    run_e2e(ctx, cases, ctx.n(10, 60))
    rng = ctx.rng.fork("e2e-persistent")
    pcases = [ks.gen_e2e_case(rng.fork(i), 8 if ctx.quick else 12, persistent=True) for i in range(ctx.n(14, 150))]
    for c in pcases: ctx.count("e2e:persistent_root=" + str(max(abs(x) for x in np.linalg.eigvals(np.array(c["mc"]["A1"]))).round(4)))
    run_e2e(ctx, pcases, ctx.n(3, 20))
    rng = ctx.rng.fork("e2e-unit-root")
    ucases = [ks.gen_e2e_case(rng.fork(i), 8 if ctx.quick else 12, unit_root=True) for i in range(ctx.n(16, 200))]
    run_e2e(ctx, ucases, ctx.n(4, 30))
    run_config(ctx, cases[:ctx.n(4, 25)] + ucases[:ctx.n(6, 40)])
    rng = ctx.rng.fork("variants")
    run_variants(ctx, [ks.gen_variant_case(rng.fork(i)) for i in range(ctx.n(14, 150))], ctx.n(5, 30))
    rng = ctx.rng.fork("noncontiguous")
    ncases = [ks.gen_e2e_case(rng.fork(i), 9 if ctx.quick else 12, noncontiguous=True) for i in range(ctx.n(14, 200))]
    run_e2e(ctx, ncases, ctx.n(3, 20))
    run_object_history(ctx, ctx.rng.fork("object-history"), ctx.n(12, 150))
    rng = ctx.rng.fork("callseq")
    run_callseq(ctx, [ks.gen_callseq_case(rng.fork(i)) for i in range(ctx.n(14, 200))])
    prune(ctx)


def search(ctx: Ctx, seeds):
    ctx.tier = "thorough"
    for s in seeds:
        try:
            run_payload(ctx, {"case": s} if not (isinstance(s, dict) and "case" in s) else s, with_model=False)
        except Exception:
            pass
    rng = ctx.rng.fork("search")
    run_direct(ctx, [ks.gen_system(rng.fork(i)) for i in range(1500)], "direct", with_model=False)
    run_direct(ctx, [ks.gen_system(rng.fork(("x", i).__repr__()), unknown_init=True) for i in range(200)], "direct-unknown-init", with_model=False)
    cases = [ks.gen_e2e_case(rng.fork(("e", i).__repr__()), 10) for i in range(300)]
    run_e2e(ctx, cases, 0)
    run_e2e(ctx, [ks.gen_e2e_case(rng.fork(("p", i).__repr__()), 10, persistent=True) for i in range(100)], 0)
    ucases = [ks.gen_e2e_case(rng.fork(("u", i).__repr__()), 10, unit_root=True) for i in range(100)]
    run_e2e(ctx, ucases, 0)
    run_config(ctx, cases[:10] + ucases[:20])
    run_variants(ctx, [ks.gen_variant_case(rng.fork(("v", i).__repr__())) for i in range(40)])
    run_e2e(ctx, [ks.gen_e2e_case(rng.fork(("n", i).__repr__()), 10, noncontiguous=True) for i in range(100)], 0)
    run_callseq(ctx, [ks.gen_callseq_case(rng.fork(("c", i).__repr__())) for i in range(100)])


def replay(ctx: Ctx, payload):
    run_payload(ctx, payload)
    prune(ctx)
