/-
Model of the string / tuple conversions of irispie/dates.py (property C11): SDMX strings with
frequency auto-detection from the generated `SDMX_REXP_FORMATS` table, ISO strings, repr.

Strings are `List Char`. Number formatting models Python's `:04g`, `:02g`, `:1g` on the supported
range only (`0 ≤ n < 10^width`; beyond it Python prints more digits or an exponent and the SDMX
patterns cannot match — the model answers `unsupported` there instead of guessing).
-/
import IrisVerif.Model.Dates

namespace IrisVerif.Dates
open IrisVerif.Gen.Dates

abbrev Str := List Char

def digitChar (d : Nat) : Char := Char.ofNat (48 + d)

def isDigit (c : Char) : Bool := 48 ≤ c.toNat && c.toNat ≤ 57

def digitVal (c : Char) : Nat := c.toNat - 48

def pad4 (y : Nat) : Str := [digitChar (y / 1000 % 10), digitChar (y / 100 % 10), digitChar (y / 10 % 10), digitChar (y % 10)]
def pad2 (m : Nat) : Str := [digitChar (m / 10 % 10), digitChar (m % 10)]
def pad1 (s : Nat) : Str := [digitChar (s % 10)]

/-- decimal digits of a natural number, most significant first (`str(n)`), by structural recursion on fuel -/
def digitsFuel : Nat → Nat → Str → Str
  | 0, n, acc => digitChar (n % 10) :: acc
  | fuel + 1, n, acc => if n < 10 then digitChar n :: acc else digitsFuel fuel (n / 10) (digitChar (n % 10) :: acc)

def natDigits (n : Nat) : Str := digitsFuel n n []

/-- `f"{n:0{w}g}"` for `w ∈ {1, 2, 4}` on the supported range -/
def fmtG (w : Nat) (n : Int) : Option Str :=
  if n < 0 then none
  else match w with
    | 4 => if n < 10000 then some (pad4 n.toNat) else none
    | 2 => if n < 100 then some (pad2 n.toNat) else none
    | 1 => if n < 10 then some (pad1 n.toNat) else none
    | _ => none

/-- one step of reading a digit string -/
def parseStep (acc : Option Nat) (c : Char) : Option Nat :=
  match acc with
  | none => none
  | some a => if isDigit c then some (a * 10 + digitVal c) else none

/-- non-empty digit string → number (`int(s)` on the strings the library itself produces) -/
def parseNat (s : Str) : Option Nat :=
  if s.isEmpty then none else s.foldl parseStep (some 0)

/-- `int(s)` with an optional sign -/
def parseInt (s : Str) : Option Int :=
  match s with
  | '-' :: r => (parseNat r).map (fun n => -(n : Int))
  | '+' :: r => (parseNat r).map (fun n => (n : Int))
  | r => (parseNat r).map (fun n => (n : Int))

/-- Python `s.strip()` for ASCII blanks -/
def isBlank (c : Char) : Bool := c == ' ' || c == '\t' || c == '\n' || c == '\r'
def strip (s : Str) : Str := ((s.dropWhile isBlank).reverse.dropWhile isBlank).reverse

/-- Python `s.split(c)` for a one-character separator -/
def split1 (sep : Char) : Str → Str → List Str
  | [], cur => [cur.reverse]
  | c :: cs, cur => if c == sep then cur.reverse :: split1 sep cs [] else split1 sep cs (c :: cur)

/-- Python `s.split(ab)` for a two-character separator -/
def split2 (a b : Char) : Str → Str → List Str
  | [], cur => [cur.reverse]
  | [c], cur => [(c :: cur).reverse]
  | c :: d :: cs, cur =>
    if c == a && d == b then cur.reverse :: split2 a b cs [] else split2 a b (d :: cs) (c :: cur)

/-! ### A matcher for the regular-expression subset that `SDMX_REXP_FORMATS` uses

The pattern TEXT comes from the generated table, so a change to a pattern in dates.py changes
what the model accepts. Supported syntax: literal characters, `\d`, `\X` (escaped literal),
`[...]` classes of (possibly escaped) literals, and the postfix operators `?` and `+`. -/

inductive Atom where
  | digit
  | lit (c : Char)
  | cls (cs : List Char)
  deriving Repr, DecidableEq

inductive Quant where | one | opt | plus
  deriving Repr, DecidableEq

def Atom.accepts : Atom → Char → Bool
  | .digit, c => isDigit c
  | .lit a, c => a == c
  | .cls cs, c => cs.contains c

/-- parse the inside of a `[...]` class up to the closing bracket -/
def parseClass : Str → List Char → Option (List Char × Str)
  | [], _ => none
  | ']' :: rest, acc => some (acc.reverse, rest)
  | '\\' :: c :: rest, acc => parseClass rest (c :: acc)
  | c :: rest, acc => parseClass rest (c :: acc)

def parseAtom : Str → Option (Atom × Str)
  | [] => none
  | '\\' :: 'd' :: rest => some (.digit, rest)
  | '\\' :: c :: rest => some (.lit c, rest)
  | '[' :: rest => (parseClass rest []).map (fun (cs, r) => (.cls cs, r))
  | c :: rest => if c == '?' || c == '+' || c == '*' || c == '(' || c == ')' || c == '|' || c == '.' then none else some (.lit c, rest)

/-- compile pattern text into (atom, quantifier) items; `none` = outside the supported syntax -/
def compileRe (fuel : Nat) (s : Str) : Option (List (Atom × Quant)) :=
  match fuel with
  | 0 => none
  | fuel + 1 =>
    match s with
    | [] => some []
    | _ =>
      match parseAtom s with
      | none => none
      | some (a, '?' :: rest) => (compileRe fuel rest).map ((a, .opt) :: ·)
      | some (a, '+' :: rest) => (compileRe fuel rest).map ((a, .plus) :: ·)
      | some (a, rest) => (compileRe fuel rest).map ((a, .one) :: ·)

/-- `fullmatch` by backtracking over the item list (structural in the items, fuelled by the text for `+`) -/
def matchItems : List (Atom × Quant) → Str → Bool
  | [], s => s.isEmpty
  | (a, .one) :: items, s =>
    match s with
    | c :: cs => a.accepts c && matchItems items cs
    | [] => false
  | (a, .opt) :: items, s =>
    (match s with
      | c :: cs => a.accepts c && matchItems items cs
      | [] => false) || matchItems items s
  | (a, .plus) :: items, s =>
    -- one or more: try every non-empty accepted prefix
    let rec go : Str → Bool
      | [] => false
      | c :: cs => a.accepts c && (matchItems items cs || go cs)
    go s

def fullmatch (pattern : String) (s : Str) : Option Bool :=
  (compileRe (pattern.length + 1) pattern.toList).map (fun items => matchItems items s)

/-! ### SDMX strings -/

def freqOfValue? (v : Int) : Option Freq :=
  if v = freqInteger then some .I else if v = freqYearly then some .Y else if v = freqHalfyearly then some .H
  else if v = freqQuarterly then some .Q else if v = freqMonthly then some .M else if v = freqDaily then some .D
  else none

/-- `Frequency.from_sdmx_string`: the first table row (dictionary order) whose length and pattern match.
`Except.error badInput` = IrisPieCritical; rows of frequencies without a period class (weekly) are reported as such. -/
def detectFreqIn (tbl : List (Int × Option Nat × String)) (s : Str) : R (Option Freq) :=
  match tbl with
  | [] => throw .badInput
  | (v, len, pat) :: rest =>
    let lenOk := match len with | none => true | some n => s.length == n
    match fullmatch pat s with
    | none => throw .badInput      -- pattern outside the modelled regex subset
    | some m => if lenOk && m then pure (freqOfValue? v) else detectFreqIn rest s

def detectFreq (s : Str) : R (Option Freq) := detectFreqIn sdmxFormats (strip s)

def needSome {α} : Option α → R α
  | some a => pure a
  | none => throw .badInput

/-- `<Class>.to_sdmx_string()` -/
def toSdmx (p : Period) : R Str :=
  match p.freq with
  | .I => pure ('(' :: (if p.serial < 0 then '-' :: natDigits p.serial.natAbs else natDigits p.serial.natAbs) ++ [')'])
  | .Y => do
    let (y, _) ← toYearSegment p
    needSome (fmtG 4 y)
  | .H | .Q => do
    let (y, s) ← toYearSegment p
    let ys ← needSome (fmtG 4 y)
    let ss ← needSome (fmtG 1 s)
    pure (ys ++ ['-'] ++ p.freq.letter.toList ++ ss)
  | .M => do
    let (y, s) ← toYearSegment p
    let ys ← needSome (fmtG 4 y)
    let ss ← needSome (fmtG 2 s)
    pure (ys ++ ['-'] ++ ss)
  | .D => do
    let (y, m, d) ← toYmd p .start
    let ys ← needSome (fmtG 4 y)
    let ms ← needSome (fmtG 2 m)
    let ds ← needSome (fmtG 2 d)
    pure (ys ++ ['-'] ++ ms ++ ['-'] ++ ds)

/-- `<Class>.from_sdmx_string(s)` -/
def fromSdmxAs (f : Freq) (s : Str) : R Period :=
  match f with
  | .I =>
    let t := strip s
    let t := match t with | '(' :: r => r | r => r
    let t := match t.reverse with | ')' :: r => r.reverse | _ => t
    do let n ← needSome (parseInt t); pure ⟨.I, n⟩
  | .Y => do let n ← needSome (parseInt (strip s)); pure ⟨.Y, n⟩
  | .H =>
    match split2 '-' 'H' (strip s) [] with
    | [y, h] => do
      let y ← needSome (parseInt y); let h ← needSome (parseInt h)
      pure (fromYearSegment .H y h)
    | _ => throw .badInput
  | .Q =>
    match split2 '-' 'Q' (strip s) [] with
    | [y, q] => do
      let y ← needSome (parseInt y); let q ← needSome (parseInt q)
      pure (fromYearSegment .Q y q)
    | _ => throw .badInput
  | .M =>
    match split1 '-' (strip s) [] with
    | [y, m] => do
      let y ← needSome (parseInt y); let m ← needSome (parseInt m)
      pure (fromYearSegment .M y m)
    | _ => throw .badInput
  | .D =>
    match split1 '-' s [] with
    | y :: m :: d :: _ => do
      let y ← needSome (parseInt (strip y)); let m ← needSome (parseInt (strip m)); let d ← needSome (parseInt (strip d))
      fromYmd .D y m d
    | _ => throw .badInput

/-- `Period.from_sdmx_string(s)` with auto-detected frequency -/
def fromSdmx (s : Str) : R Period := do
  match ← detectFreq s with
  | some f => fromSdmxAs f s
  | none => throw .badInput

/-- `periods_from_sdmx_strings(strings, frequency=None)`: the frequency is detected from the FIRST string when it is not
given, and every string is then parsed by that frequency's class, one by one, in the order given (no assumption that the
strings form a run of consecutive periods). -/
def periodsFromSdmx (f? : Option Freq) (l : List Str) : R (List Period) :=
  match l with
  | [] => pure []
  | s0 :: _ => do
    let f ← match f? with
      | some f => pure f
      | none => do
        match ← detectFreq s0 with
        | some f => pure f
        | none => throw .badInput
    l.mapM (fromSdmxAs f)

/-- `to_iso_string(position=…)` -/
def toIso (p : Period) (pos : Pos) : R Str := do
  let (y, m, d) ← toYmd p pos
  let ys ← needSome (fmtG 4 y)
  let ms ← needSome (fmtG 2 m)
  let ds ← needSome (fmtG 2 d)
  pure (ys ++ ['-'] ++ ms ++ ['-'] ++ ds)

/-- `Period.from_iso_string(s, frequency=f)`; `year, month, day = s.split("-")` needs exactly three parts -/
def fromIso (f : Freq) (s : Str) : R Period :=
  match split1 '-' s [] with
  | [y, m, d] => do
    let y ← needSome (parseInt (strip y)); let m ← needSome (parseInt (strip m)); let d ← needSome (parseInt (strip d))
    fromYmd f y m d
  | _ => throw .badInput

/-- `repr(p)` as (constructor, arguments): `yy(2020)`, `qq(2020,1)`, `dd(2020,2,29)`, `ii(5)` -/
def toRepr (p : Period) : R (String × List Int) :=
  match p.freq with
  | .I => pure ("ii", [p.serial])
  | .Y => do let (y, _) ← toYearSegment p; pure ("yy", [y])
  | .H => do let (y, s) ← toYearSegment p; pure ("hh", [y, s])
  | .Q => do let (y, s) ← toYearSegment p; pure ("qq", [y, s])
  | .M => do let (y, s) ← toYearSegment p; pure ("mm", [y, s])
  | .D => do let (y, m, d) ← toYmd p .start; pure ("dd", [y, m, d])

/-- evaluating the repr: the public constructors `yy hh qq mm dd ii` -/
def fromRepr : String × List Int → R Period
  | ("ii", [n]) => pure ⟨.I, n⟩
  | ("yy", [y]) => pure (fromYearSegment .Y y 1)
  | ("hh", [y, s]) => pure (fromYearSegment .H y s)
  | ("qq", [y, s]) => pure (fromYearSegment .Q y s)
  | ("mm", [y, s]) => pure (fromYearSegment .M y s)
  | ("dd", [y, m, d]) => fromYmd .D y m d
  | _ => throw .badInput

end IrisVerif.Dates
