/-
Executable model, part 2, for property C07 (no Mathlib): object state and loops around the conditional simulation.

1. `Solution.square_expansion` -- the memo of forward expansion matrices kept on the solution object and extended by
   `_get_solution_expansion(existing_expansion, P, X, J, Ru, forward)` (fords/solutions.py) -- as a state machine.
2. The loop over frames of `Simultaneous.simulate` (simultaneous/_simulate.py) with `input_data_array` shared by all frames,
   `write_frame_data_to_main_dataslate` (frames.py), and the logarithmizing of the exogenized input values in
   `_simulate_conditional` (fords/simulators.py), on a copy or in place.
3. Plan date normalisation: `SimulationPlan._get_period_indexes` = `Span.resolve(plan)` followed by `d - plan.start`, for dates
   handed over as a collection of periods or as a (stepped, backward, context-dependent) `Span`.
-/
import IrisVerif.Model.Plans

namespace IrisVerif.Plans

/-! ## 1. The expansion memo -/

/-- one call of `_get_solution_expansion`: the memo holds `f 0, f 1, …` (`f k = -X J^k Ru`, freshly computed, `k = k_minus_1`);
it is extended up to `forward` entries and the call returns `[R0] + memo[:forward]`.  Returns (new memo, result). -/
def memoExpand {α : Type} (f : Nat → α) (p0 : α) (memo : List α) (forward : Nat) : List α × List α :=
  let memo' := memo ++ (List.range' memo.length (forward - memo.length)).map f
  (memo', p0 :: memo'.take forward)

/-- a history of calls on one solution object: the results, in order -/
def memoRun {α : Type} (f : Nat → α) (p0 : α) : List α → List Nat → List (List α)
  | _, [] => []
  | memo, fwd :: rest => (memoExpand f p0 memo fwd).2 :: memoRun f p0 (memoExpand f p0 memo fwd).1 rest

/-- the entry `-X J^k Ru` -/
def Sol.memoEntry (s : Sol) (k : Nat) : QMat := QMat.neg (s.X * QMat.pow s.J k * s.Ru)

/-- `Solution.expand_square_solution` over a history of `forward` values, starting from an empty memo -/
def Sol.expandHistory (s : Sol) (fwds : List Nat) : List (List QMat) := memoRun s.memoEntry s.P [] fwds

/-! ## 2. Frames -/

/-- a frame: columns `first .. last` are written back (`Frame.slice`) -/
structure Frame where
  first : Nat
  last : Nat
  deriving Repr, DecidableEq

def Frame.contains (fr : Frame) (t : Nat) : Bool := fr.first ≤ t && t ≤ fr.last

/-- `write_frame_data_to_main_dataslate` for a regular row: the frame's slice is copied, everything else stays -/
def writeBack {α : Type} (main frameOut : Nat → α) (fr : Frame) : Nat → α :=
  fun t => if fr.contains t then frameOut t else main t

/-- the loop over frames with an **immutable** input: every frame is run on the same `input` and on the main data as left by
the frames before it -/
def simulateFrames {α β : Type} (run : Frame → β → (Nat → α) → (Nat → α)) (input : β) (frames : List Frame)
    (main : Nat → α) : Nat → α :=
  frames.foldl (fun main fr => writeBack main (run fr input main) fr) main

/-- the same loop when a frame may also hand on a (possibly modified) input to the next frame -- what the Python code does,
`input_data_array` being one array object shared by all frames -/
def simulateFramesSt {α β : Type} (step : Frame → β → (Nat → α) → β × (Nat → α)) : β → List Frame → (Nat → α) → β × (Nat → α)
  | input, [], main => (input, main)
  | input, fr :: rest, main =>
    let r := step fr input main
    simulateFramesSt step r.1 rest (writeBack main r.2 fr)

/-- logarithmize the rows flagged as log-variables (`lg` abstract) -/
def logRows {α : Type} (lg : α → α) (isLog : Nat → Bool) (x : Nat → Nat → α) : Nat → Nat → α :=
  fun row t => if isLog row then lg (x row t) else x row t

/-- a frame step that logarithmizes a **copy** of the input (the repaired `_simulate_conditional`) … -/
def stepCopy {α : Type} (lg : α → α) (isLog : Nat → Bool) (cond : Frame → (Nat → Nat → α) → (Nat → α) → (Nat → α))
    (fr : Frame) (input : Nat → Nat → α) (main : Nat → α) : (Nat → Nat → α) × (Nat → α) :=
  (input, cond fr (logRows lg isLog input) main)

/-- … and one that logarithmizes the shared array in place -/
def stepInPlace {α : Type} (lg : α → α) (isLog : Nat → Bool) (cond : Frame → (Nat → Nat → α) → (Nat → α) → (Nat → α))
    (fr : Frame) (input : Nat → Nat → α) (main : Nat → α) : (Nat → Nat → α) × (Nat → α) :=
  (logRows lg isLog input, cond fr (logRows lg isLog input) main)

/-! ## 3. Plan dates -/

/-- an end point of a span relative to the plan: an absolute offset from the plan start, `ir.start + a`, or `ir.end + o` -/
inductive EndPt
  | abs (t : Int)
  | fromStart (a : Int)
  | fromEnd (o : Int)
  deriving Repr, DecidableEq

/-- `ContextualPeriod.resolve(plan)`: `plan.start_date + a`, `plan.end_date + o`, as offsets from the plan start -/
def EndPt.resolve (np : Nat) : EndPt → Int
  | .abs t => t
  | .fromStart a => a
  | .fromEnd o => (np : Int) - 1 + o

/-- the periods of `Span(a, b, step)` as offsets: `a, a+step, …` while not beyond `b` (upwards for a positive, downwards for a
negative step; an empty enumeration for step 0) -/
def spanOffsets (a b step : Int) : List Int :=
  if 0 < step then (List.range ((b - a) / step + 1).toNat).map (fun (i : Nat) => a + (i : Int) * step)
  else if step < 0 then (List.range ((a - b) / (-step) + 1).toNat).map (fun (i : Nat) => a + (i : Int) * step)
  else []

/-- the ways dates are handed to `exogenize_*` / `endogenize_*` -/
inductive DateArg
  | periods (ts : List Int)                       -- a tuple / list of periods (offsets), any order
  | span (e1 e2 : EndPt) (step : Int)             -- a `Span`, resolved against the plan first
  deriving Repr

/-- `_get_period_indexes`: `periods.resolve(self)` for a span, then `d - self.start` for every period -/
def periodIndexes (np : Nat) : DateArg → List Int
  | .periods ts => ts
  | .span e1 e2 step => spanOffsets (e1.resolve np) (e2.resolve np) step

/-- a plan call with its dates in any of the forms -/
def Plan.writeDates (p : Plan) (k : Kind) (d : DateArg) (names : List Nat) (status : Bool) : Except PlanErr Plan :=
  p.write k (periodIndexes p.numPeriods d) names status

/-! ## 4. Option spellings -/

/-- the simulator modules of `simultaneous/_simulate.py` -/
inductive SimMethod | firstOrder | periodByPeriod | stackedTime
  deriving DecidableEq, Repr

/-- `METHOD_NAME` of the module -/
def SimMethod.name : SimMethod → String
  | .firstOrder => "first_order" | .periodByPeriod => "period_by_period" | .stackedTime => "stacked_time"

/-- `_SIMULATOR_MODULE[method]` with the default of the keyword (`none` = the keyword is left out); an unknown spelling is a `KeyError` -/
def resolveMethod : Option String → Option SimMethod
  | none => some .firstOrder
  | some "first_order" => some .firstOrder
  | some "period_by_period" => some .periodByPeriod
  | some "period" => some .periodByPeriod
  | some "stacked_time" => some .stackedTime
  | some "stacked" => some .stackedTime
  | some _ => none

/-- `Simultaneous.simulate` as far as the spelling of `method` is concerned: everything downstream of the lookup (input snapshot, frames,
initial guess, frame simulation) is a function of the resolved module -/
def simulateSpelled {α : Type} (run : SimMethod → α) (spelling : Option String) : Option α :=
  (resolveMethod spelling).map run

/-! ## 5. The loop over variants -/

/-- exhaust-then-last broadcasting of data variants to `n` model variants (`Dataslate.from_databox_for_slatable(num_variants=n)`) -/
def broadcastVariants {γ : Type} (n : Nat) (datas : List γ) : List γ :=
  (List.range n).filterMap fun k => datas[min k (datas.length - 1)]?

/-- the variant loop of `Simultaneous.simulate`: `zip(range(num_variants), self.iter_variants(), dataslate.iter_variants())`; variant k
of the model is run on variant k of the data, **including the input snapshot the exogenized values are read from**; the plan is shared -/
def simulateVariants {β γ α : Type} (run : β → γ → α) (models : List β) (datas : List γ) : List α :=
  List.zipWith run models (broadcastVariants models.length datas)

/-! ## 6. `swap_anticipated` / `swap_unanticipated` with a list of pairs -/

/-- `swap_*(dates, pairs)`: for every pair `(variable row, shock row)`, exogenize the variable and endogenize the shock at the dates;
`exoK` / `endoK` are the two registers of the mode -/
def Plan.swapPairs (p : Plan) (exoK endoK : Kind) (d : DateArg) (pairs : List (Nat × Nat)) (status : Bool) : Except PlanErr Plan :=
  pairs.foldlM (fun p pr => do
    let p1 ← p.writeDates exoK d [pr.1] status
    p1.writeDates endoK d [pr.2] status) p

end IrisVerif.Plans
