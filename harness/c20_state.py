"""
C20 round 4 -- correspondence streams for the object state modelled in IrisVerif/Model/C20State.lean:
  * flags: Flags.from_kwargs over all 3^6 keyword dictionaries (absent / False / True for the plain spellings and the `is_`
    aliases), Flags.update_from_kwargs over all 8 x 27 (model flags, explicit overrides), to_portable/from_portable over all 8;
    exhaustive, exact;
  * the expansion memo of Solution objects: histories of expand (horizon) / copy / re-solve over an original and its copies;
    the answer entries are identified with stamps (version, k) by comparing them bitwise with the entries of a brand-new
    solution of that version; memo lengths compared too.  The independent oracle of this class is `used_oracle` in c20.py.
"""
from __future__ import annotations

import copy as _copy
import itertools
import pickle

import numpy as np

import irispie as ir
from irispie.simultaneous._flags import Flags

from .common import Ctx


def _ob(x):
    return "n" if x is None else ("T" if x else "F")


def _fl(f) -> str:
    return "".join("T" if b else "F" for b in (f.is_linear, f.is_flat, f.is_deterministic))


def flags_stream(ctx: Ctx):
    lines, impl = [], []
    keys = ("linear", "is_linear", "flat", "is_flat", "deterministic", "is_deterministic")
    for combo in itertools.product((None, False, True), repeat=6):
        kw = {k: v for k, v in zip(keys, combo) if v is not None}
        lines.append("port fk " + " ".join(_ob(v) for v in combo))
        impl.append(_fl(Flags.from_kwargs(**kw)))
    for base in itertools.product((False, True), repeat=3):
        f0 = Flags.from_kwargs(linear=base[0], flat=base[1], deterministic=base[2])
        bits = "".join("1" if b else "0" for b in base)
        lines.append("port fp " + bits)
        impl.append(_fl(Flags.from_portable(f0.to_portable())))
        for combo in itertools.product((None, False, True), repeat=3):
            kw = {k: v for k, v in zip(("linear", "flat", "deterministic"), combo)}      # explicit None = not given
            lines.append(f"port fu {bits} " + " ".join(_ob(v) for v in combo))
            impl.append(_fl(Flags.update_from_kwargs(f0, **kw)))
    ctx.count("flags_lines_exhaustive", len(lines))
    ctx.evaluations += len(lines)
    ctx.compare("flags", lines, impl, ctx.model("C20", lines))
    # the same resolution seen from a model: an explicit False at call time overrides a True set at creation (and vice versa)
    m = ir.Simultaneous.from_string("!transition_variables\n x\n!parameters\n r\n!transition_equations\n x = r*x[-1];\n", linear=True, flat=True)
    for kw, want in (({"linear": False}, (False, True, False)), ({"flat": False, "deterministic": True}, (True, False, True)), ({}, (True, True, False))):
        f = m.resolve_flags(**kw)
        if (f.is_linear, f.is_flat, f.is_deterministic) != want:
            ctx.fail("flags-explicit-override-ignored", {"kind": "flags", "kwargs": kw}, f"resolve_flags({kw}) on a linear, flat model gives {_fl(f)}")


MEMO_SRC = r"""
!transition_variables
    x, y
!transition_shocks
    ex, ey
!parameters
    rho, beta
!transition_equations
    x = rho*x[-1] + beta*x[+1] + y + ex;
    y = 0.5*y[-1] + ey;
"""
RHO = [0.5, 0.25, 0.375, 0.125]      # solution version v <-> rho = RHO[v]
FMAX = 12
_REF = {}


def _solved(v):
    m = ir.Simultaneous.from_string(MEMO_SRC, linear=True)
    m.assign(rho=RHO[v], beta=0.3)
    m.solve()
    return m


def _ref(kind):
    """bytes of entry k of a brand-new solution of version v -> stamp"""
    if kind not in _REF:
        tbl = {}
        for v in range(len(RHO)):
            sol = _solved(v)._variants[0].solution
            ans = (sol.expand_square_solution if kind == "sq" else sol.expand_triangular_solution)(FMAX)
            for k, a in enumerate(ans[1:]):
                tbl[np.ascontiguousarray(a).tobytes()] = f"{v}.{k}"
        _REF[kind] = tbl
    return _REF[kind]


def memo_case(ctx: Ctx, case: dict):
    kind = case["expansion"]
    tbl = _ref(kind)
    objs = [_solved(case["v0"])]
    vers = [case["v0"]]
    answers = []
    for op in case["ops"]:
        i = op[1]
        if i >= len(objs):
            continue
        if op[0] == "e":
            sol = objs[i]._variants[0].solution
            ans = (sol.expand_square_solution if kind == "sq" else sol.expand_triangular_solution)(op[2])
            answers.append(f"{i}:{op[2]}=" + ",".join(tbl.get(np.ascontiguousarray(a).tobytes(), "?") for a in ans[1:]))
        elif op[0] == "c":
            via = op[2]
            new = objs[i].copy() if via == "copy" else (pickle.loads(pickle.dumps(objs[i])) if via == "pickle" else _copy.deepcopy(objs[i]))
            objs.append(new); vers.append(vers[i])
        else:
            objs[i].assign(rho=RHO[op[2]])
            objs[i].solve()
            vers[i] = op[2]
    lens = []
    for m, v in zip(objs, vers):
        sol = m._variants[0].solution
        lens.append(f"{v}/{len(sol.square_expansion if kind == 'sq' else sol.triangular_expansion)}")
    text = " ".join(("e:%d:%d" % (o[1], o[2])) if o[0] == "e" else (("c:%d" % o[1]) if o[0] == "c" else ("r:%d:%d" % (o[1], o[2])))
                    for o in case["ops"])
    return f"memo {case['v0']} {text}", " ".join(answers) + " | " + " ".join(lens)


def gen_memo_case(rng) -> dict:
    ops, n = [], 1
    for _ in range(rng.randint(4, 10)):
        k = rng.weighted([("e", 6), ("c", 2 if n < 4 else 0), ("r", 1.5)])
        i = rng.randint(0, n - 1)
        if k == "e":
            ops.append(["e", i, rng.choice([0, 1, 1, 2, 3, 4, 5, 6, 8, 10, FMAX])])
        elif k == "c":
            ops.append(["c", i, rng.choice(["copy", "pickle", "deepcopy"])]); n += 1
        else:
            ops.append(["r", i, rng.randint(0, len(RHO) - 1)])
    return {"kind": "memo", "expansion": rng.choice(["sq", "tr"]), "v0": rng.randint(0, len(RHO) - 1), "ops": ops}


def memo_stream(ctx: Ctx, n: int):
    rng = ctx.rng.fork("memo")
    cases, lines, impl = [], [], []
    for i in range(n):
        case = gen_memo_case(rng.fork(i))
        req, rep = memo_case(ctx, case)
        cases.append(case); lines.append(req); impl.append(rep)
        ctx.evaluations += 1
        if len(case["ops"]) >= 6 and any(o[0] == "c" for o in case["ops"]):
            ctx.nontriv("memo:" + req)
        # independent of the model: no answer entry may be foreign to every brand-new solution
        if "?" in rep:
            ctx.fail("expansion-memo-entry-wrong", case, f"an expansion entry differs from the entry of a brand-new solution with the same parameters: {rep[:200]}")
    if cases:
        ctx.sample({"memo_case": cases[0]})
    ctx.compare("memo", cases, impl, ctx.model("C20", lines))
