/-
Tie T for the matrix code of property C18 (reduced-form VAR): the least-squares algebra of the hand-written model
`Model/RedVar.lean` EQUALS the definitions that `tools/gens/npmat_c18.py` regenerates on every run from
`/repo/src/irispie/fords/least_squares.py` (`ordinary_least_squares`, with `_np.linalg.solve` as an explicit parameter)
and `/repo/src/irispie/fords/covariances.py` (`symmetrize`) -- `Generated/LeastSquaresGen.lean`.

The model does not call an unverified solver: it calls `QMat.solveChecked` (Gauss-Jordan + exact re-check).  The tie is
therefore: whenever the model's estimate succeeds, its coefficient matrix is the generated `ordinary_least_squares`
evaluated with the external solver replaced by the model's checked solution.
-/
import IrisVerif.Props.GenTieCore
import IrisVerif.Props.QMatBridge
import IrisVerif.Model.RedVar
import IrisVerif.Generated.LeastSquaresGen

namespace IrisVerif.GenTieC18

open IrisVerif IrisVerif.QMat IrisVerif.RedVar IrisVerif.GenTie IrisVerif.QMatNp

/-- **`ordinary_least_squares`** is `solve(normalMx, normalMy)ᵀ` with the model's two moment matrices, for every value
of the external solver -/
theorem model_eq_generated_normalEq (solve : QMat → QMat → QMat) (lhs rhs : QMat) :
    Gen.LeastSquares.ordinary_least_squares solve lhs rhs = (solve (normalMx rhs) (normalMy lhs rhs)).transpose := rfl

/-- **`RedVar.ols`** is the generated function with the solver's answer replaced by the model's checked solution -/
theorem model_eq_generated_ols (lhs rhs : QMat) :
    ols lhs rhs = (QMat.solveChecked (normalMx rhs) (normalMy lhs rhs)).map
      (fun x => Gen.LeastSquares.ordinary_least_squares (fun _ _ => x) lhs rhs) := by
  unfold ols
  cases QMat.solveChecked (normalMx rhs) (normalMy lhs rhs) <;> rfl

/-- … in particular the coefficient matrix of every successful run of the model's estimator -/
theorem model_eq_generated_beta (s : Spec) (dof : Bool) (Y X : OMat) (pr : Option (List Prior)) (e : Estimate)
    (h : estimate s dof Y X pr = .ok e) :
    ∃ x, QMat.solveChecked (normalMx e.rhsEst) (normalMy e.lhsEst e.rhsEst) = some x ∧
      e.beta = Gen.LeastSquares.ordinary_least_squares (fun _ _ => x) e.lhsEst e.rhsEst := by
  obtain ⟨_, _, _, _, x, hx, hb⟩ := QMatBridge.estimate_ok s dof Y X pr e h
  exact ⟨x, hx, hb⟩

/-- `symmetrize(X) = (X + X.T) / 2` is the model's `½ (X + Xᵀ)` -/
theorem model_eq_generated_symmetrize (c : QMat) :
    QMat.smul (1 / 2) (c + c.transpose) = Gen.Symmetrize.symmetrize c := by
  unfold Gen.Symmetrize.symmetrize QMat.smul QMatNp.divScalar
  apply ofFn_congr
  intro i j _ _
  rw [div_eq_mul_inv, div_eq_mul_inv, one_mul, mul_comm]

/-- **the residual covariance** of the model is the generated `symmetrize` of `u uᵀ / d` -/
theorem model_eq_generated_covResiduals (s : Spec) (u : OMat) (cols : List Nat) (denom : Int) :
    covResiduals s u cols denom =
      Gen.Symmetrize.symmetrize (QMat.smul (1 / (denom : Rat))
        (QMat.ofFn s.n cols.length (fun i k => (u.get i (cols.getD k 0)).getD 0) *
          (QMat.ofFn s.n cols.length (fun i k => (u.get i (cols.getD k 0)).getD 0)).transpose)) := by
  unfold covResiduals
  exact model_eq_generated_symmetrize _

end IrisVerif.GenTieC18
