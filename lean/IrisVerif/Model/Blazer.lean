/-
Model of irispie/incidences/blazer.py (block-triangular reordering of an incidence matrix) and of
the equation re-ordering of Sequential models (sequentials/main.py, sequentials/_invariants.py).

Representation.  numpy works on a positional boolean matrix from which rows and columns are
deleted; the id tuples are carried alongside and split at the same positions.  Because positions
are always distinct, this is the same as keeping the *original* matrix `im : Nat → Nat → Bool`
fixed and tracking the lists `ri`, `ci` of the original row / column positions that are still
present (in their current order).  `np.delete(im, idx, axis)` = filtering the positions out,
`ids[i] for i in index` = mapping the id lookup over the extracted positions.  Ids are attached at
the very end (`blaze`).  Nothing here assumes the matrix is square or has a perfect matching: on
such inputs the model reproduces what numpy does (duplicate deletions collapse, the generator's
`next(...)` may run dry = `RuntimeError`).

No Mathlib import (the driver is interpreted).
-/
namespace IrisVerif.Blazer

/-- incidence of original row `r` and original column `c` -/
abbrev Inc := Nat → Nat → Bool
/-- a prefetched (row, column) position pair -/
abbrev Pair := Nat × Nat
/-- a block: row positions, column positions -/
abbrev Block := List Nat × List Nat

inductive Err where
  /-- `next(i for i in range(...) if ...)` ran dry inside the generator `_generate_inner_blocks`
  (more columns than rows with an incidence in the overhang): Python raises `RuntimeError` -/
  | stopIteration
  /-- `reorder_equations`: `sorted(new_order) != list(range(num_equations))` raises `ValueError` -/
  | notPermutation
  /-- id tuples shorter/longer than the matrix (not modelled further; Python: IndexError or silent) -/
  | shape
  deriving DecidableEq, Repr, Inhabited

/-! ### prefetch -/

/-- the columns of the current sub-matrix incident in row `r` (in current column order) -/
def rowCols (im : Inc) (ci : List Nat) (r : Nat) : List Nat := ci.filter fun c => im r c

/-- the rows of the current sub-matrix incident in column `c` (in current row order) -/
def colRows (im : Inc) (ri : List Nat) (c : Nat) : List Nat := ri.filter fun r => im r c

/-- `sum == 1`, and then the first (= only) hit of `np.where(... == 1)[0][0]` -/
def single? : List Nat → Option Nat
  | [c] => some c
  | _ => none

/-- `_prefetch_first`: every row with exactly one incidence, paired with the column of that incidence,
in row order -/
def firstPairs (im : Inc) (ri ci : List Nat) : List Pair :=
  ri.filterMap fun r => (single? (rowCols im ci r)).map fun c => (r, c)

/-- `_prefetch_last`: every column with exactly one incidence, paired with the row of that incidence,
in column order -/
def lastPairs (im : Inc) (ri ci : List Nat) : List Pair :=
  ci.filterMap fun c => (single? (colRows im ri c)).map fun r => (r, c)

/-- `np.delete(.., index, ..)` / the `remaining` part of `_split_ids`: positions not in `d`
(duplicates in `d` are harmless, as in numpy) -/
def removeAll (l d : List Nat) : List Nat := l.filter fun x => !d.contains x

def rowsOf (ps : List Pair) : List Nat := ps.map Prod.fst
def colsOf (ps : List Pair) : List Nat := ps.map Prod.snd

/-- result of `prefetch`: pairs ordered first, pairs ordered last, what is left -/
structure Pre where
  first : List Pair
  last : List Pair
  ri : List Nat
  ci : List Nat
  deriving DecidableEq, Repr, Inhabited

/-- `prefetch`: peel rows with one incidence (they go first), then columns with one incidence
(they go last), and repeat on what is left *as long as the matrix got smaller*
(`if im.size < initial_size`).  The recursion of the Python code terminates only because of that
guard; here the guard is the termination proof. -/
def prefetch (im : Inc) (ri ci : List Nat) : Pre :=
  let f := firstPairs im ri ci
  let ri1 := removeAll ri (rowsOf f)
  let ci1 := removeAll ci (colsOf f)
  let l := lastPairs im ri1 ci1
  let ri2 := removeAll ri1 (rowsOf l)
  let ci2 := removeAll ci1 (colsOf l)
  if _h : ri2.length * ci2.length < ri.length * ci.length then
    let p := prefetch im ri2 ci2
    { first := f ++ p.first, last := p.last ++ l, ri := p.ri, ci := p.ci }
  else
    { first := f, last := l, ri := ri2, ci := ci2 }
termination_by ri.length * ci.length

/-! ### inner blocks -/

/-- `not im[:i, i:].any()` on the current (re-ordered) inner matrix -/
def cutOk (im : Inc) (ri ci : List Nat) (i : Nat) : Bool :=
  (ri.take i).all fun r => (ci.drop i).all fun c => !im r c

/-- `next(i for i in range(1, im.shape[0]+1) if not im[:i, i:].any())`; `none` = StopIteration -/
def findCut (im : Inc) (ri ci : List Nat) : Option Nat :=
  (List.range' 1 ri.length).find? (cutOk im ri ci)

theorem findCut_pos {im : Inc} {ri ci : List Nat} {i : Nat} (h : findCut im ri ci = some i) :
    1 ≤ i ∧ i ≤ ri.length := by
  have := List.mem_of_find?_eq_some h
  rw [List.mem_range'_1] at this
  omega

/-- `_generate_inner_blocks`: cut the leading block at the first `i` whose upper-right corner
`im[:i, i:]` is empty, continue with `im[i:, i:]` while `im.size` is non-zero. -/
def genInner (im : Inc) (ri ci : List Nat) : Except Err (List Block) :=
  if ri.length * ci.length = 0 then .ok []
  else
    match _hc : findCut im ri ci with
    | none => .error .stopIteration
    | some i =>
      match genInner im (ri.drop i) (ci.drop i) with
      | .error e => .error e
      | .ok rest => .ok ((ri.take i, ci.take i) :: rest)
termination_by ri.length
decreasing_by
  have := findCut_pos _hc
  simp only [List.length_drop]
  omega

/-- `ids[perm]` (numpy fancy indexing by a position array); positions out of range are dropped here,
the drivers and theorems only use it with a permutation of `range l.length` -/
def applyPerm (p : List Nat) (l : List Nat) : List Nat := p.filterMap fun i => l[i]?

def singles (ps : List Pair) : List Block := ps.map fun p => ([p.1], [p.2])

/-- everything `blaze(..., return_info=True)` exposes, in positions -/
structure BlazeOut where
  pre : Pre
  /-- inner rows / columns after `triangularize_inner_block` -/
  innerRows : List Nat
  innerCols : List Nat
  blocks : List Block
  deriving DecidableEq, Repr, Inhabited

/-- `blaze` on positions. `rp`, `cp` are the row and column re-orderings chosen by the heuristic
`triangularize_inner_block` (position arrays into the inner rows / columns); they are an *input*:
the model assumes nothing about them, the theorems assume only that they are permutations.
The heuristic runs only `if im_inner.size`. -/
def blazePos (im : Inc) (nr nc : Nat) (rp cp : List Nat) : Except Err BlazeOut :=
  let p := prefetch im (List.range nr) (List.range nc)
  let reorder := p.ri.length * p.ci.length ≠ 0
  let ri := if reorder then applyPerm rp p.ri else p.ri
  let ci := if reorder then applyPerm cp p.ci else p.ci
  match genInner im ri ci with
  | .error e => .error e
  | .ok inner => .ok { pre := p, innerRows := ri, innerCols := ci,
                       blocks := singles p.first ++ inner ++ singles p.last }

/-! ### ids -/

def insertSorted (x : Int) : List Int → List Int
  | [] => [x]
  | y :: ys => if x ≤ y then x :: y :: ys else y :: insertSorted x ys

/-- `sorted(...)` of `Block.__init__` -/
def sortInts (l : List Int) : List Int := l.foldr insertSorted []

def idAt (ids : List Int) (i : Nat) : Int := ids.getD i 0

/-- a matrix given as rows of booleans -/
def incOf (m : List (List Bool)) : Inc := fun r c => (m.getD r []).getD c false

/-- the id-level blocks: `Block(eids, qids)` sorts both tuples -/
def labelBlock (eids qids : List Int) (b : Block) : List Int × List Int :=
  (sortInts (b.1.map (idAt eids)), sortInts (b.2.map (idAt qids)))

/-- `blaze(im, eids, qids)`; the matrix must have `len(eids)` rows of `len(qids)` entries -/
def blaze (m : List (List Bool)) (eids qids : List Int) (rp cp : List Nat) :
    Except Err (List (List Int × List Int)) :=
  if m.length ≠ eids.length ∨ m.any (fun row => row.length != qids.length) then .error .shape
  else
    match blazePos (incOf m) eids.length qids.length rp cp with
    | .error e => .error e
    | .ok o => .ok (o.blocks.map (labelBlock eids qids))

/-! ### is_sequential / sequentialize_strictly -/

/-- `np.all(~np.triu(im, 1))`: nothing strictly above the diagonal -/
def isSequentialIm (im : Inc) (nr nc : Nat) : Bool :=
  (List.range nr).all fun i => (List.range nc).all fun j => !(decide (i < j) && im i j)

/-- the `fail` flag that `sequentialize_strictly` computes (and then does **not** raise) -/
def strictFail (p : Pre) : Bool :=
  p.ri.length * p.ci.length ≠ 0 || !p.ri.isEmpty || !p.ci.isEmpty
    || rowsOf p.first != colsOf p.first || rowsOf p.last != colsOf p.last

/-- `sequentialize_strictly(im)`: `eids_first + eids_last` of `prefetch`; the error object built when
`fail` holds is never raised, so the value is returned regardless -/
def sequentializeStrictly (im : Inc) (nr nc : Nat) : List Nat :=
  let p := prefetch im (List.range nr) (List.range nc)
  rowsOf p.first ++ rowsOf p.last

/-! ### Sequential models -/

/-- an equation of a Sequential model as far as ordering is concerned: the name on its left-hand side
and the names it reads at zero shift (names are numbers; names that are nobody's LHS may occur) -/
structure SEq where
  lhs : Nat
  reads : List Nat
  deriving DecidableEq, Repr, Inhabited

/-- the state that `reorder_equations` mutates: the tuple of equations in their current order -/
abbrev SModel := List SEq

/-- `collect_lhs_names`: unique names in order of first appearance -/
def dedup : List Nat → List Nat
  | [] => []
  | x :: xs => x :: (dedup xs).filter fun y => y != x

def lhsNames (m : SModel) : List Nat := dedup (m.map (·.lhs))

/-- `Sequential.incidence_matrix`: equation `i` × unique LHS name `j`; a token counts when its shift is
zero and it is an LHS name; the equation's own LHS is such a token -/
def seqInc (m : SModel) : Inc := fun i j =>
  match m[i]?, (lhsNames m)[j]? with
  | some e, some v => e.lhs == v || e.reads.contains v
  | _, _ => false

/-- `Sequential.is_sequential` -/
def isSequential (m : SModel) : Bool :=
  if m.isEmpty then true else isSequentialIm (seqInc m) m.length (lhsNames m).length

/-- `Invariant.reorder_equations`: the permutation check comes first and raises before anything is
assigned; returns the outcome and the state afterwards -/
def reorderEquations (m : SModel) (order : List Nat) : Except Err Unit × SModel :=
  if order.isPerm (List.range m.length) then (.ok (), order.filterMap fun i => m[i]?)
  else (.error .notPermutation, m)

/-- `Sequential.sequentialize`: outcome (the order) and the state afterwards -/
def sequentialize (m : SModel) : Except Err (List Nat) × SModel :=
  if isSequential m then (.ok (List.range m.length), m)
  else
    let order := sequentializeStrictly (seqInc m) m.length (lhsNames m).length
    match reorderEquations m order with
    | (.ok (), m') => (.ok order, m')
    | (.error e, m') => (.error e, m')

/-! ### histories of operations on one Sequential object -/

/-- the calls that touch the equation order of one and the same `Sequential` object -/
inductive SOp where
  /-- `m.reorder_equations(p)` (state unchanged when it raises) -/
  | reorder (p : List Nat)
  /-- `m.sequentialize()` -/
  | sequentialize
  /-- `m = m.copy()`: the copy carries the same equations in the same order -/
  | copy
  deriving DecidableEq, Repr, Inhabited

/-- the state after one call; the incidence matrix of the next call is recomputed from this state
(`collect_names` + `finalize_explanatories` after every re-ordering) -/
def applyOp (m : SModel) : SOp → SModel
  | .reorder p => (reorderEquations m p).2
  | .sequentialize => (sequentialize m).2
  | .copy => m

def runOps (m : SModel) (ops : List SOp) : SModel := ops.foldl applyOp m

/-! ### validity of an equation order, executable -/

/-- every zero-shift LHS name an equation reads is its own LHS or the LHS of an earlier equation
(`SeqValid` of Lemmas/Blazer.lean, as a Bool; `seqValidB_iff`) -/
def seqValidB (m : SModel) : Bool :=
  (List.range m.length).all fun k =>
    match m[k]? with
    | none => true
    | some e => e.reads.all fun v =>
        !(m.map (·.lhs)).contains v || v == e.lhs || ((m.take k).map (·.lhs)).contains v

/-! ### re-labelling, `split_into_blocks` -/

/-- re-labelling a block of ids: apply the id maps, sort again (`Block.__init__`) -/
def relabelBlock (f g : Int → Int) (b : List Int × List Int) : List Int × List Int :=
  (sortInts (b.1.map f), sortInts (b.2.map g))

/-- a Python `set` of ints, as far as membership goes: first occurrences -/
def dedupI : List Int → List Int
  | [] => []
  | x :: xs => x :: (dedupI xs).filter fun y => y != x

/-- `_resolve_steady_wrt`: the unknowns of the steady system are the quantities that can be exogenized,
minus those the plan exogenizes, plus those it endogenizes
(`(wrt_names - set(exogenized)) | set(endogenized)`), as a sorted tuple of qids -/
def wrtQids (canExo exo endo : List Int) : List Int :=
  sortInts (dedupI ((canExo.filter fun q => !exo.contains q) ++ endo))

/-- `_calculate_steady_incidence_matrix`: equation × unknown; a token counts whatever its shift, and only
when its qid is among the unknowns (`qid_to_column.get(tok.qid)`) -/
def steadyInc (tokens : List (List Int)) (wrt : List Int) : List (List Bool) :=
  tokens.map fun toks => wrt.map fun q => toks.contains q

/-- `Simultaneous.split_into_blocks(plan)` up to the name lookup of `HumanBlock`: `blaze` on the steady
incidence matrix of the solved equations (`tokens[i]` = qids occurring in equation `eids[i]`) -/
def splitIntoBlocks (tokens : List (List Int)) (eids canExo exo endo : List Int) (rp cp : List Nat) :
    Except Err (List (List Int × List Int)) :=
  blaze (steadyInc tokens (wrtQids canExo exo endo)) eids (wrtQids canExo exo endo) rp cp

/-- `HumanBlock(block, equations, quantities)`: ids (already sorted) looked up in the name tables -/
def humanBlock (eqName qName : Int → String) (b : List Int × List Int) : List String × List String :=
  (b.1.map eqName, b.2.map qName)

/-! ### incidence tokens with shifts -/

/-- an incidence token of an equation: (name, shift) -/
abbrev STok := Nat × Int

/-- what `Sequential.incidence_matrix` keeps of an equation's tokens: `tok.shift == 0` (lags **and leads**
of a name are not within-period dependencies) -/
def SEq.ofTokens (lhs : Nat) (toks : List STok) : SEq :=
  ⟨lhs, (toks.filter fun t => t.2 == 0).map (·.1)⟩

end IrisVerif.Blazer
