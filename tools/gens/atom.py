"""
py2lean plugin for C02: aldi/differentiators.py `Atom` (forward-mode AD rules) and the dispatch table of
aldi/adaptations.py  ->  lean/IrisVerif/Generated/AtomGen.lean

Every method of `Atom` is run through a small *symbolic interpreter* of its Python AST. Values are
  Num(t)      a Lean term of the carrier type α
  AtomV(v,d)  an Atom: pair of carrier terms (value, diff) -- `diff` is the *property* (after the log chain rule)
  BoolT(t)    a Lean `Bool` term (numpy masks `a < b`, `self._logly`)
  Static(b)   a Python bool known at translation time (`hasattr(other, "_is_atom")` in the variant being generated)
  Dyn         a dynamic type test (`isinstance(x, Real)`): both branches must give the same symbolic state
  Tup([...])
Supported statements: docstrings, `name = expr`, tuple unpacking of a helper's result, masked stores
`x[mask] = e` / `x[mask] = e[mask]`, `if` on a Static/Dyn test, `return`.
Anything else raises Untranslatable (the tie "no longer checks"); nothing is ever silently kept.

Each method gives one pair of definitions per variant (`_aa`: the argument is an Atom, `_an`: a number; a
parameter has both variants iff the body tests `hasattr(<param>, "_is_atom")`, otherwise it is a number):

    def add_aa_value (sv sd ov od : α) : α := (sv + ov)
    def add_aa_diff  (sv sd ov od : α) : α := (sd + od)

The carrier is abstract: core `Add Sub Mul Div Neg NatCast` plus `IrisVerif.ADFun` (log exp sqrt expit pw ltb eqb).
Name table (trusted): _np.log→log, _np.exp→exp, _np.sqrt→sqrt, _sp.special.expit→expit, `**`→pw,
_np.copy / _np.array(·, dtype=float) → identity.
"""
from __future__ import annotations
import ast
import py2lean
from py2lean import Source, Untranslatable, HEADER, strip_doc

REL = "src/irispie/aldi/differentiators.py"
REL_ADAPT = "src/irispie/aldi/adaptations.py"

UNARY_CALLS = {"_np.log": "ADFun.log", "_np.exp": "ADFun.exp", "_np.sqrt": "ADFun.sqrt", "_sp.special.expit": "ADFun.expit"}
IDENTITY_CALLS = {"_np.copy", "_np.array"}
SKIP_METHODS = {"__init__"}          # constructors / data access: modelled by hand (Model/Expr.lean)
LEAN_NAMES = {"__neg__": "neg", "__pos__": "pos", "__add__": "add", "__sub__": "sub", "__mul__": "mul",
              "__truediv__": "truediv", "__rtruediv__": "rtruediv", "__pow__": "pow", "__rsub__": "rsub",
              "_exponential": "exponential", "_power": "power"}


class Num:
    def __init__(self, t): self.t = t
    def key(self): return ("N", self.t)

class AtomV:
    def __init__(self, v, d): self.v, self.d = v, d
    def key(self): return ("A", self.v, self.d)

class BoolT:
    def __init__(self, t): self.t = t
    def key(self): return ("B", self.t)

class Static:
    def __init__(self, b): self.b = b
    def key(self): return ("S", self.b)

class Dyn:
    def key(self): return ("D",)

class Tup:
    def __init__(self, items): self.items = items
    def key(self): return ("T",) + tuple(i.key() for i in self.items)


def lit(v) -> str:
    if isinstance(v, bool):
        raise Untranslatable(f"boolean used as a number: {v!r}")
    if isinstance(v, int):
        return f"((({v} : Nat) : α))" if v >= 0 else f"(-(({-v} : Nat) : α))"
    if isinstance(v, float):
        if v != v or v in (float("inf"), float("-inf")):
            raise Untranslatable(f"constant {v!r}")
        n, d = v.as_integer_ratio()
        s = f"((({abs(n)} : Nat) : α))" if d == 1 else f"((({abs(n)} : Nat) : α) / (({d} : Nat) : α))"
        return s if n >= 0 else f"(-{s})"
    raise Untranslatable(f"constant {v!r}")


class Interp:
    def __init__(self, cls: ast.ClassDef):
        self.cls = cls
        self.methods = {n.name: n for n in cls.body if isinstance(n, ast.FunctionDef)}
        self.aliases = {}
        for n in cls.body:
            if isinstance(n, ast.Assign) and len(n.targets) == 1 and isinstance(n.targets[0], ast.Name) \
                    and isinstance(n.value, ast.Name) and n.value.id in self.methods:
                self.aliases[n.targets[0].id] = n.value.id
        self.depth = 0

    # ---- helpers
    def dotted(self, node):
        if isinstance(node, ast.Name): return node.id
        if isinstance(node, ast.Attribute):
            b = self.dotted(node.value)
            return None if b is None else b + "." + node.attr
        return None

    def decorators(self, fn):
        return [self.dotted(d) for d in fn.decorator_list]

    def params(self, fn):
        a = fn.args
        if a.vararg or a.kwarg or a.kwonlyargs:
            raise Untranslatable(f"Atom.{fn.name}: star/keyword-only parameters")
        names = [x.arg for x in a.posonlyargs + a.args]
        if not names or names[0] != "self":
            raise Untranslatable(f"Atom.{fn.name}: first parameter is not self")
        return names[1:]

    def polymorphic_params(self, fn):
        """parameters that the body tests with hasattr(<param>, "_is_atom")"""
        out = set()
        for n in ast.walk(fn):
            if isinstance(n, ast.Call) and isinstance(n.func, ast.Name) and n.func.id == "hasattr" and len(n.args) == 2 \
                    and isinstance(n.args[0], ast.Name) and isinstance(n.args[1], ast.Constant) and n.args[1].value == "_is_atom":
                out.add(n.args[0].id)
        return out

    # ---- calling a method symbolically
    def call_method(self, name: str, selfv: AtomV, args: list):
        name = self.aliases.get(name, name)
        if name not in self.methods:
            raise Untranslatable(f"Atom.{name}: no such method")
        fn = self.methods[name]
        if self.decorators(fn):
            raise Untranslatable(f"Atom.{name}: decorated method called as a rule")
        ps = self.params(fn)
        if len(args) != len(ps):
            raise Untranslatable(f"Atom.{name}: called with {len(args)} arguments, has {len(ps)} parameters")
        self.depth += 1
        if self.depth > 6:
            raise Untranslatable(f"Atom.{name}: call depth")
        env = {"self": selfv}
        env.update(dict(zip(ps, args)))
        try:
            ret = self.block(strip_doc(fn.body), env, f"Atom.{name}")
        finally:
            self.depth -= 1
        if ret is None:
            raise Untranslatable(f"Atom.{name}: falls off the end without return")
        return ret

    # ---- statements
    def block(self, body, env, where):
        for st in body:
            if isinstance(st, ast.Expr) and isinstance(st.value, ast.Constant) and isinstance(st.value.value, str):
                continue
            if isinstance(st, ast.Pass):
                continue
            if isinstance(st, ast.Return):
                if st.value is None:
                    raise Untranslatable(f"{where}: bare return")
                return self.expr(st.value, env, where)
            if isinstance(st, ast.Assign):
                if len(st.targets) != 1:
                    raise Untranslatable(f"{where}: chained assignment")
                tgt = st.targets[0]
                if isinstance(tgt, ast.Name):
                    env[tgt.id] = self.expr(st.value, env, where)
                    continue
                if isinstance(tgt, ast.Tuple) and all(isinstance(e, ast.Name) for e in tgt.elts):
                    val = self.expr(st.value, env, where)
                    if not isinstance(val, Tup) or len(val.items) != len(tgt.elts):
                        raise Untranslatable(f"{where}: tuple unpacking of a non-tuple")
                    for e, v in zip(tgt.elts, val.items):
                        if e.id != "_":
                            env[e.id] = v
                    continue
                if isinstance(tgt, ast.Subscript) and isinstance(tgt.value, ast.Name) and isinstance(tgt.slice, ast.Name):
                    arr, mask = env.get(tgt.value.id), env.get(tgt.slice.id)
                    if not isinstance(arr, Num) or not isinstance(mask, BoolT):
                        raise Untranslatable(f"{where}: masked store `{ast.unparse(tgt)}` on non-array/non-mask")
                    rhs_node = st.value
                    if isinstance(rhs_node, ast.Subscript) and isinstance(rhs_node.slice, ast.Name) and rhs_node.slice.id == tgt.slice.id:
                        rhs_node = rhs_node.value          # e[mask] stored under the same mask = elementwise e
                    rhs = self.expr(rhs_node, env, where)
                    if not isinstance(rhs, Num):
                        raise Untranslatable(f"{where}: masked store of a non-number")
                    env[tgt.value.id] = Num(f"(if {mask.t} then {rhs.t} else {arr.t})")
                    continue
                raise Untranslatable(f"{where}: assignment target `{ast.unparse(tgt)}`")
            if isinstance(st, ast.If):
                test = self.expr(st.test, env, where)
                if isinstance(test, Static):
                    ret = self.block(st.body if test.b else st.orelse, env, where)
                    if ret is not None:
                        return ret
                    continue
                if isinstance(test, Dyn):
                    e1, e2 = dict(env), dict(env)
                    r1 = self.block(st.body, e1, where)
                    r2 = self.block(st.orelse, e2, where)
                    if r1 is not None or r2 is not None:
                        raise Untranslatable(f"{where}: return inside a dynamic type test")
                    k1 = {k: v.key() for k, v in e1.items()}
                    k2 = {k: v.key() for k, v in e2.items()}
                    if k1 != k2:
                        raise Untranslatable(f"{where}: branches of `if {ast.unparse(st.test)}` differ symbolically")
                    env.clear(); env.update(e1)
                    continue
                raise Untranslatable(f"{where}: `if {ast.unparse(st.test)}` is not a static or type test")
            raise Untranslatable(f"{where}: statement `{ast.unparse(st)[:60]}`")
        return None

    # ---- expressions
    def expr(self, node, env, where):
        if isinstance(node, ast.Constant):
            v = node.value
            if isinstance(v, bool):
                return Static(v)
            if isinstance(v, (int, float)):
                return Num(lit(v))
            raise Untranslatable(f"{where}: constant {v!r}")
        if isinstance(node, ast.Name):
            if node.id in env:
                return env[node.id]
            raise Untranslatable(f"{where}: free name `{node.id}` resolves to nothing")
        if isinstance(node, ast.Tuple):
            return Tup([self.expr(e, env, where) for e in node.elts])
        if isinstance(node, ast.Attribute):
            base = self.expr(node.value, env, where) if not (isinstance(node.value, ast.Name) and node.value.id not in env) else None
            if isinstance(base, AtomV):
                if node.attr == "value": return Num(base.v)
                if node.attr == "diff": return Num(base.d)
                if node.attr == "_diff" and "__rawdiff__" in env: return env["__rawdiff__"]
                if node.attr == "_logly" and "__logly__" in env: return env["__logly__"]
            raise Untranslatable(f"{where}: attribute `{ast.unparse(node)}`")
        if isinstance(node, ast.UnaryOp):
            x = self.expr(node.operand, env, where)
            if isinstance(node.op, ast.USub):
                if isinstance(x, Num): return Num(f"(-{x.t})")
                if isinstance(x, AtomV): return self.call_method("__neg__", x, [])
            if isinstance(node.op, ast.UAdd):
                if isinstance(x, Num): return x
                if isinstance(x, AtomV): return self.call_method("__pos__", x, [])
            if isinstance(node.op, ast.Not):
                if isinstance(x, Static): return Static(not x.b)
                if isinstance(x, BoolT): return BoolT(f"(!{x.t})")
            raise Untranslatable(f"{where}: unary `{ast.unparse(node)}`")
        if isinstance(node, ast.BoolOp):
            vals = [self.expr(v, env, where) for v in node.values]
            if all(isinstance(v, Dyn) for v in vals):
                return Dyn()
            if all(isinstance(v, Static) for v in vals):
                bs = [v.b for v in vals]
                return Static(all(bs) if isinstance(node.op, ast.And) else any(bs))
            raise Untranslatable(f"{where}: boolean `{ast.unparse(node)}`")
        if isinstance(node, ast.BinOp):
            a, b = self.expr(node.left, env, where), self.expr(node.right, env, where)
            if not (isinstance(a, Num) and isinstance(b, Num)):
                raise Untranslatable(f"{where}: operator on non-numbers in `{ast.unparse(node)}`")
            op = node.op
            if isinstance(op, ast.Add): return Num(f"({a.t} + {b.t})")
            if isinstance(op, ast.Sub): return Num(f"({a.t} - {b.t})")
            if isinstance(op, ast.Mult): return Num(f"({a.t} * {b.t})")
            if isinstance(op, ast.Div): return Num(f"({a.t} / {b.t})")
            if isinstance(op, ast.Pow): return Num(f"(ADFun.pw {a.t} {b.t})")
            raise Untranslatable(f"{where}: operator {type(op).__name__}")
        if isinstance(node, ast.Compare):
            if len(node.ops) != 1:
                raise Untranslatable(f"{where}: chained comparison")
            a, b = self.expr(node.left, env, where), self.expr(node.comparators[0], env, where)
            if not (isinstance(a, Num) and isinstance(b, Num)):
                raise Untranslatable(f"{where}: comparison of non-numbers")
            op = node.ops[0]
            if isinstance(op, ast.Eq): return BoolT(f"(ADFun.eqb {a.t} {b.t})")
            if isinstance(op, ast.Lt): return BoolT(f"(ADFun.ltb {a.t} {b.t})")
            if isinstance(op, ast.Gt): return BoolT(f"(ADFun.ltb {b.t} {a.t})")
            raise Untranslatable(f"{where}: comparison {type(op).__name__}")
        if isinstance(node, ast.IfExp):
            t = self.expr(node.test, env, where)
            if isinstance(t, Static):
                return self.expr(node.body if t.b else node.orelse, env, where)
            if isinstance(t, BoolT):
                a, b = self.expr(node.body, env, where), self.expr(node.orelse, env, where)
                if isinstance(a, Num) and isinstance(b, Num):
                    return Num(f"(if {t.t} then {a.t} else {b.t})")
            raise Untranslatable(f"{where}: conditional `{ast.unparse(node)[:60]}`")
        if isinstance(node, ast.Call):
            return self.call(node, env, where)
        raise Untranslatable(f"{where}: expression `{ast.unparse(node)[:60]}`")

    def call(self, node: ast.Call, env, where):
        f = node.func
        callee = self.dotted(f)
        # hasattr(x, "_is_atom") / isinstance(x, Real)
        if callee == "hasattr":
            if len(node.args) == 2 and isinstance(node.args[1], ast.Constant) and node.args[1].value == "_is_atom":
                x = self.expr(node.args[0], env, where)
                return Static(isinstance(x, AtomV))
            raise Untranslatable(f"{where}: `{ast.unparse(node)}`")
        if callee == "isinstance":
            if len(node.args) == 2 and self.dotted(node.args[1]) == "Real":
                self.expr(node.args[0], env, where)
                return Dyn()
            raise Untranslatable(f"{where}: `{ast.unparse(node)}`")
        if callee in UNARY_CALLS:
            if len(node.args) != 1 or node.keywords:
                raise Untranslatable(f"{where}: arity of {callee}")
            x = self.expr(node.args[0], env, where)
            if not isinstance(x, Num):
                raise Untranslatable(f"{where}: {callee} of a non-number")
            return Num(f"({UNARY_CALLS[callee]} {x.t})")
        if callee in IDENTITY_CALLS:
            if len(node.args) != 1 or any(k.arg != "dtype" or self.dotted(k.value) != "float" for k in node.keywords):
                raise Untranslatable(f"{where}: `{ast.unparse(node)}`")
            x = self.expr(node.args[0], env, where)
            if not isinstance(x, Num):
                raise Untranslatable(f"{where}: {callee} of a non-number")
            return x
        # type(self).no_context(value, diff, False)
        if isinstance(f, ast.Attribute) and f.attr == "no_context":
            tv = f.value
            ok = (isinstance(tv, ast.Call) and self.dotted(tv.func) == "type" and len(tv.args) == 1
                  and isinstance(tv.args[0], ast.Name) and tv.args[0].id == "self") or self.dotted(tv) in ("klass", "Atom")
            if not ok or node.keywords or len(node.args) not in (2, 3):
                raise Untranslatable(f"{where}: `{ast.unparse(node)[:60]}`")
            v, d = self.expr(node.args[0], env, where), self.expr(node.args[1], env, where)
            if len(node.args) == 3:
                lg = self.expr(node.args[2], env, where)
                if not (isinstance(lg, Static) and lg.b is False):
                    raise Untranslatable(f"{where}: result atom is not created with logly=False")
            if not (isinstance(v, Num) and isinstance(d, Num)):
                raise Untranslatable(f"{where}: no_context of non-numbers")
            return AtomV(v.t, d.t)
        # method call on an atom-valued expression
        if isinstance(f, ast.Attribute):
            recv = self.expr(f.value, env, where)
            if isinstance(recv, AtomV):
                if node.keywords:
                    raise Untranslatable(f"{where}: keyword arguments in `{ast.unparse(node)[:60]}`")
                args = [self.expr(a, env, where) for a in node.args]
                return self.call_method(f.attr, recv, args)
        raise Untranslatable(f"{where}: call to `{callee or ast.unparse(f)[:40]}` resolves to nothing")


def gen_atom(repo: str) -> str:
    src = Source(repo, REL)
    cls = src.find("Atom")
    if not isinstance(cls, ast.ClassDef):
        raise Untranslatable("Atom is not a class")
    ip = Interp(cls)
    out = [HEADER.format(src=REL + ", " + REL_ADAPT),
           "import IrisVerif.Model.ADNum\n",
           "set_option linter.unusedVariables false\n",
           "namespace IrisVerif.Gen.Atom\n",
           "variable {α : Type} [Add α] [Sub α] [Mul α] [Div α] [Neg α] [NatCast α] [ADFun α]\n"]

    # ---- the `diff` property: log-variable chain rule
    fn = ip.methods.get("diff")
    if fn is None or "property" not in ip.decorators(fn):
        raise Untranslatable("Atom.diff is not a property")
    env = {"self": AtomV("value", "?"), "__rawdiff__": Num("rawdiff"), "__logly__": BoolT("logly")}
    r = ip.block(strip_doc(fn.body), env, "Atom.diff")
    if not isinstance(r, Num):
        raise Untranslatable("Atom.diff does not return a number")
    out.append("/-- `Atom.diff` (property): the seed `_diff`, multiplied by the value for a log-variable -/")
    out.append(f"def diffProp (rawdiff value : α) (logly : Bool) : α := {r.t}\n")

    # ---- every rule method
    rule_names = []
    method_names = []
    for n in cls.body:
        if not isinstance(n, ast.FunctionDef):
            continue
        decs = ip.decorators(n)
        if n.name in SKIP_METHODS or "classmethod" in decs or "staticmethod" in decs or "property" in decs:
            continue
        if decs:
            raise Untranslatable(f"Atom.{n.name}: decorator {decs}")
        method_names.append(n.name)
        lname = LEAN_NAMES.get(n.name, n.name)
        if not lname.isidentifier() or lname.startswith("_"):
            raise Untranslatable(f"Atom.{n.name}: no Lean name for this method")
        ps = ip.params(n)
        poly = ip.polymorphic_params(n)
        if len(ps) > 1:
            raise Untranslatable(f"Atom.{n.name}: more than one argument")
        variants = [()] if not ps else ([("a",), ("n",)] if ps[0] in poly else [("n",)])
        for var in variants:
            if not ps:
                args, sig, suffix = [], "(sv sd : α)", ""
            elif var == ("a",):
                args, sig, suffix = [AtomV("ov", "od")], "(sv sd ov od : α)", "_aa"
            else:
                args, sig, suffix = [Num("o")], "(sv sd o : α)", ("_an" if ps[0] in poly else "")
            r = ip.call_method(n.name, AtomV("sv", "sd"), args)
            if isinstance(r, AtomV):
                v, d = r.v, r.d
            elif isinstance(r, Tup) and len(r.items) == 2 and all(isinstance(i, Num) for i in r.items):
                v, d = r.items[0].t, r.items[1].t
            else:
                raise Untranslatable(f"Atom.{n.name}: does not return an atom or a (value, diff) pair")
            out.append(f"/-- `Atom.{n.name}`" + ({"_aa": " (argument is an Atom)", "_an": " (argument is a number)"}.get(suffix, "")) + " -/")
            out.append(f"def {lname}{suffix}_value {sig} : α := {v}")
            out.append(f"def {lname}{suffix}_diff {sig} : α := {d}\n")
            rule_names.append(f"{lname}{suffix}")

    def lean_list(xs): return "[" + ", ".join('"' + x + '"' for x in xs) + "]"
    out.append("/-- the rules generated above (a rule added to or removed from `Atom` changes this list) -/")
    out.append(f"def rules : List String := {lean_list(rule_names)}\n")
    out.append("/-- callable attributes of `Atom` (methods and aliases): what `hasattr(x, name)` and operator dispatch can reach -/")
    out.append(f"def methods : List String := {lean_list(method_names + sorted(ip.aliases))}\n")
    out.append("/-- class-level aliases such as `__rmul__ = __mul__` -/")
    out.append("def aliases : List (String × String) := [" + ", ".join(f'("{k}", "{v}")' for k, v in sorted(ip.aliases.items())) + "]\n")

    # ---- adaptations.py: the offered functions and the shape of the dispatch
    ad = Source(repo, REL_ADAPT)
    table = ad.find("_ELEMENTWISE_FUNCTIONS")
    if not isinstance(table, ast.Dict) or not all(isinstance(k, ast.Constant) and isinstance(k.value, str) for k in table.keys):
        raise Untranslatable("_ELEMENTWISE_FUNCTIONS is not a dict literal with string keys")
    offered = [k.value for k in table.keys]
    # the dispatch template: `if hasattr(x, '{n}'): return x.{n}(*args, **kwargs) else: return _ELEMENTWISE_FUNCTIONS['{n}'](x, ...)`
    template = None
    for n in ast.walk(ad.tree):
        if isinstance(n, ast.Call) and isinstance(n.func, ast.Name) and n.func.id == "exec" and n.args:
            try:
                template = eval(compile(ast.Expression(n.args[0]), "<adaptation template>", "eval"), {"n": "NAME"})
            except Exception as e:
                raise Untranslatable(f"adaptations.py: cannot evaluate the exec template: {e!r}")
    if template is None:
        raise Untranslatable("adaptations.py: no exec template found")
    norm = "".join(template.split())
    want = "".join("""def NAME(x, *args, **kwargs):
        if hasattr(x, 'NAME'):
            return x.NAME(*args, **kwargs, )
        else:
            return _ELEMENTWISE_FUNCTIONS['NAME'](x, *args, **kwargs, )""".split())
    # since fix d7575dc the numpy branch first turns a first argument that is exactly a Python int into a float (so that
    # `abs(1)^(-2)` is not an integer power); an Atom never reaches that line, so the dispatch modelled here is unchanged
    want_coercing = "".join("""def NAME(x, *args, **kwargs):
        if hasattr(x, 'NAME'):
            return x.NAME(*args, **kwargs, )
        else:
            x = float(x) if type(x) is int else x
            return _ELEMENTWISE_FUNCTIONS['NAME'](x, *args, **kwargs, )""".split())
    if norm not in (want, want_coercing):
        raise Untranslatable("adaptations.py: the dispatch template is not `hasattr(x, name) -> x.name(*args) else numpy`")
    out.append("/-- names offered to equations by `adaptations.py` (`_ELEMENTWISE_FUNCTIONS`); each dispatches on its FIRST argument:")
    out.append("`x.name(*args)` when `hasattr(x, name)`, the numpy/scipy function otherwise (which raises on an `Atom`) -/")
    out.append(f"def offered : List String := {lean_list(offered)}\n")
    out.append("end IrisVerif.Gen.Atom\n")
    return "\n".join(out)


GENERATORS = {
    "AtomGen.lean": (gen_atom, {"C02"}),
}
