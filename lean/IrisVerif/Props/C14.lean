/-
C14 — Trend filters return the optimum of their problem; trend plus gap is the data.

Part A (Mathlib matrices over any linearly ordered field `K`, every size `n`, every observation pattern, every
set of level/change constraint positions): the bordered system solved by
`series/_hp.py: _ConstrainedHodrickPrescottFilter` characterises the constrained minimiser of the
Hodrick-Prescott objective; uniqueness; straight lines; missing observations.
Part B (the executable model `IrisVerif.HP` over `QMat`): the model's matrices are entrywise the matrices of
Part A; what `filterData` returns solves the bordered system exactly; trend + gap = data; zeros at missing
observations; `log=True` is `exp ∘ hpf ∘ log`; clipping is restriction.
Part C (l1 trend filter, `series/_ell_one.py`): the dual-form optimality conditions imply optimality, and any
dual-feasible `ν` bounds the sub-optimality of `y − Dᵀν` by its duality gap (the certificate the harness
evaluates in exact arithmetic on `lonf`'s output).
-/
import IrisVerif.Lemmas.HPMatrix
import Mathlib.Algebra.BigOperators.Fin
import Mathlib.Tactic.FinCases
import Mathlib.Tactic.NormNum
import IrisVerif.Lemmas.HPModel
import IrisVerif.Lemmas.QuadExist

namespace IrisVerif.C14

open Matrix IrisVerif.QuadMin IrisVerif.HPMatrix

variable {K : Type} [Field K] [LinearOrder K] [IsStrictOrderedRing K]
variable {n kl kc : Nat}

/-! ## Part A — the Hodrick-Prescott problem -/

/-- observation weights: `1` where the observation exists, `0` where it is missing -/
def wt (obs : Fin n → Bool) : Fin n → K := fun t => if obs t then 1 else 0

/-- the objective of the property statement:
`Σ_{t observed} (y_t − τ_t)² + λ Σ_i (τ_i − 2 τ_{i+1} + τ_{i+2})²` -/
def hpObj (obs : Fin n → Bool) (y : Fin n → K) (lam : K) (τ : Fin n → K) : K :=
  (∑ t, if obs t then (y t - τ t) ^ 2 else 0)
    + lam * ∑ i : Fin (n - 2), (τ (p0 i) - 2 * τ (p1 i) + τ (p2 i)) ^ 2

/-- the matrix the code builds: `λ KᵀK + diag(obs)` -/
def hpA (obs : Fin n → Bool) (lam : K) : Matrix (Fin n) (Fin n) K :=
  lam • ((Kmat n)ᵀ * Kmat n) + Matrix.diagonal (wt obs)

/-- the right-hand side: the data, with zeros at the missing observations -/
def hpRhs (obs : Fin n → Bool) (y : Fin n → K) : Fin n → K := fun t => if obs t then y t else 0

/-- the full bordered matrix `F = [[λKᵀK + W, Cᵀ], [C, 0]]` -/
def hpF (obs : Fin n → Bool) (lam : K) (lw : Fin kl → Fin n) (cw : Fin kc → Fin n) :
    Matrix (Fin n ⊕ (Fin kl ⊕ Fin kc)) (Fin n ⊕ (Fin kl ⊕ Fin kc)) K :=
  Matrix.fromBlocks (hpA obs lam) (Cmat lw cw)ᵀ (Cmat lw cw) 0

omit [LinearOrder K] [IsStrictOrderedRing K] in
theorem hpObj_eq_wls (obs : Fin n → Bool) (y : Fin n → K) (lam : K) (τ : Fin n → K) :
    hpObj obs y lam τ = wlsObj (wt obs) y lam (Kmat n) τ := by
  unfold hpObj wlsObj
  rw [Kmat_penalty]
  congr 1
  refine Finset.sum_congr rfl (fun t _ => ?_)
  unfold wt
  split_ifs <;> simp

omit [LinearOrder K] [IsStrictOrderedRing K] in
theorem hpA_eq_wlsA (obs : Fin n → Bool) (lam : K) : hpA obs lam = wlsA (wt obs) lam (Kmat n) := by
  unfold hpA wlsA; rw [add_comm]

omit [LinearOrder K] [IsStrictOrderedRing K] in
theorem hpRhs_eq (obs : Fin n → Bool) (y : Fin n → K) : hpRhs obs y = fun t => wt obs t * y t := by
  funext t; unfold hpRhs wt; split_ifs <;> simp

theorem wt_nonneg (obs : Fin n → Bool) (t : Fin n) : (0 : K) ≤ wt obs t := by
  unfold wt; split_ifs <;> simp

omit [LinearOrder K] [IsStrictOrderedRing K] in
/-- the two KKT equations contained in the bordered system -/
theorem hp_system_iff (obs : Fin n → Bool) (y : Fin n → K) (lam : K) (lw : Fin kl → Fin n) (cw : Fin kc → Fin n)
    (lv : Fin kl → K) (cv : Fin kc → K) (τ : Fin n → K) (μ : Fin kl ⊕ Fin kc → K) :
    hpF obs lam lw cw *ᵥ Sum.elim τ μ = Sum.elim (hpRhs obs y) (Sum.elim lv cv) ↔
      (hpA obs lam *ᵥ τ + (Cmat lw cw)ᵀ *ᵥ μ = hpRhs obs y ∧ Cmat lw cw *ᵥ τ = Sum.elim lv cv) :=
  bordered_iff _ _ _ _ _ _

omit [LinearOrder K] [IsStrictOrderedRing K] in
/-- **Constraints are met exactly.** A solution of `F (τ, μ) = (W y, c)` satisfies every level constraint
`τ_{lw i} = lv i` and every change constraint `τ_{cw i} − τ_{cw i − 1} = cv i`. -/
theorem hp_constraints_met (obs : Fin n → Bool) (y : Fin n → K) (lam : K)
    (lw : Fin kl → Fin n) (cw : Fin kc → Fin n) (hcw : ∀ i, 0 < (cw i).val)
    (lv : Fin kl → K) (cv : Fin kc → K) (τ : Fin n → K) (μ : Fin kl ⊕ Fin kc → K)
    (hsys : hpF obs lam lw cw *ᵥ Sum.elim τ μ = Sum.elim (hpRhs obs y) (Sum.elim lv cv)) :
    (∀ i, τ (lw i) = lv i) ∧ (∀ i, τ (cw i) - τ (pred (cw i)) = cv i) :=
  (Cmat_feasible_iff lw cw hcw lv cv τ).1 ((hp_system_iff obs y lam lw cw lv cv τ μ).1 hsys).2

/-- **Optimality.** For `λ ≥ 0` (in particular `λ > 0`), a solution of `F (τ, μ) = (W y, c)` minimises
`Σ_obs (y_t − τ_t)² + λ Σ (τ_{t−1} − 2τ_t + τ_{t+1})²` among all sequences meeting the constraints. -/
theorem hp_optimal (obs : Fin n → Bool) (y : Fin n → K) (lam : K) (hlam : 0 ≤ lam)
    (lw : Fin kl → Fin n) (cw : Fin kc → Fin n) (hcw : ∀ i, 0 < (cw i).val)
    (lv : Fin kl → K) (cv : Fin kc → K) (τ : Fin n → K) (μ : Fin kl ⊕ Fin kc → K)
    (hsys : hpF obs lam lw cw *ᵥ Sum.elim τ μ = Sum.elim (hpRhs obs y) (Sum.elim lv cv))
    (τ' : Fin n → K) (hl' : ∀ i, τ' (lw i) = lv i) (hc' : ∀ i, τ' (cw i) - τ' (pred (cw i)) = cv i) :
    hpObj obs y lam τ ≤ hpObj obs y lam τ' := by
  obtain ⟨hstat, hfeas⟩ := (hp_system_iff obs y lam lw cw lv cv τ μ).1 hsys
  have hfeas' : Cmat lw cw *ᵥ τ' = Sum.elim lv cv := (Cmat_feasible_iff lw cw hcw lv cv τ').2 ⟨hl', hc'⟩
  rw [hpA_eq_wlsA, hpRhs_eq] at hstat
  rw [hpObj_eq_wls, hpObj_eq_wls]
  exact wls_kkt_min (wt obs) y (wt_nonneg obs) lam hlam (Kmat n) (Cmat lw cw) _ τ μ hstat hfeas τ' hfeas'

omit [LinearOrder K] [IsStrictOrderedRing K] in
/-- **Exact excess**: any other feasible sequence is worse by exactly the objective of the difference
(fidelity of the difference at the observed points plus `λ` times its roughness). -/
theorem hp_excess (obs : Fin n → Bool) (y : Fin n → K) (lam : K)
    (lw : Fin kl → Fin n) (cw : Fin kc → Fin n) (hcw : ∀ i, 0 < (cw i).val)
    (lv : Fin kl → K) (cv : Fin kc → K) (τ : Fin n → K) (μ : Fin kl ⊕ Fin kc → K)
    (hsys : hpF obs lam lw cw *ᵥ Sum.elim τ μ = Sum.elim (hpRhs obs y) (Sum.elim lv cv))
    (τ' : Fin n → K) (hl' : ∀ i, τ' (lw i) = lv i) (hc' : ∀ i, τ' (cw i) - τ' (pred (cw i)) = cv i) :
    hpObj obs y lam τ' = hpObj obs y lam τ + hpObj obs 0 lam (τ' - τ) := by
  obtain ⟨hstat, hfeas⟩ := (hp_system_iff obs y lam lw cw lv cv τ μ).1 hsys
  have hfeas' : Cmat lw cw *ᵥ τ' = Sum.elim lv cv := (Cmat_feasible_iff lw cw hcw lv cv τ').2 ⟨hl', hc'⟩
  have hd : Cmat lw cw *ᵥ (τ' - τ) = 0 := by rw [Matrix.mulVec_sub, hfeas, hfeas', sub_self]
  rw [hpA_eq_wlsA, hpRhs_eq] at hstat
  have e : τ' = τ + (τ' - τ) := by abel
  rw [hpObj_eq_wls obs y, hpObj_eq_wls obs y, hpObj_eq_wls obs 0]
  conv_lhs => rw [e]
  rw [wls_kkt_excess (wt obs) y lam (Kmat n) (Cmat lw cw) τ μ hstat _ hd]
  unfold wlsObj
  simp only [Pi.zero_apply, zero_sub, neg_sq]

omit [LinearOrder K] [IsStrictOrderedRing K] in
/-- **Kernel of `K` = the affine sequences** (both directions, every `n ≥ 2`): `K τ = 0 ↔ τ_t = a + b t`. -/
theorem hp_kernel_iff_affine (hn : 2 ≤ n) (τ : Fin n → K) :
    Kmat n *ᵥ τ = 0 ↔ ∃ a b : K, ∀ t : Fin n, τ t = a + b * (t.val : K) := by
  constructor
  · intro h
    exact ⟨τ ⟨0, by omega⟩, τ ⟨1, by omega⟩ - τ ⟨0, by omega⟩, fun t => Kmat_kernel n hn τ h t.val t.isLt⟩
  · rintro ⟨a, b, h⟩
    have : τ = fun t : Fin n => a + b * (t.val : K) := funext h
    rw [this]; exact Kmat_affine n a b

/-- a sequence that is invisible to the smoothness term (`K d = 0`) and vanishes at two distinct observed
positions is zero: two observations pin the null space of `K` -/
theorem two_observations_pin (obs : Fin n → Bool) (s t : Fin n) (hst : s ≠ t) (hs : obs s = true) (ht : obs t = true)
    (d : Fin n → K) (hw : ∀ i, wt obs i * d i ^ 2 = (0 : K)) (hK : Kmat n *ᵥ d = 0) : d = 0 := by
  have hn : 2 ≤ n := by
    have := s.isLt; have := t.isLt
    have : s.val ≠ t.val := fun h => hst (Fin.ext h)
    omega
  have ds : d s = 0 := by
    have := hw s; unfold wt at this; simpa [hs] using this
  have dt : d t = 0 := by
    have := hw t; unfold wt at this; simpa [ht] using this
  have aff := Kmat_kernel n hn d hK
  set a := d ⟨0, by omega⟩ with ha
  set b := d ⟨1, by omega⟩ - d ⟨0, by omega⟩ with hb
  have es : a + b * (s.val : K) = 0 := by rw [← aff s.val s.isLt]; exact ds
  have et : a + b * (t.val : K) = 0 := by rw [← aff t.val t.isLt]; exact dt
  have hne : (s.val : K) - (t.val : K) ≠ 0 := by
    rw [sub_ne_zero]
    exact fun h => hst (Fin.ext (Nat.cast_injective h))
  have hb0 : b = 0 := by
    have : b * ((s.val : K) - (t.val : K)) = 0 := by linear_combination es - et
    rcases mul_eq_zero.1 this with h | h
    · exact h
    · exact absurd h hne
  have ha0 : a = 0 := by rw [hb0] at es; simpa using es
  funext k
  have hk : d k = a + b * (k.val : K) := aff k.val k.isLt
  rw [hk, ha0, hb0]; simp

/-- **Uniqueness.** For `λ > 0` and at least two observations, every feasible sequence that is not worse than
the solution of the bordered system *is* that solution: the trend is the unique minimiser. -/
theorem hp_unique (obs : Fin n → Bool) (y : Fin n → K) (lam : K) (hlam : 0 < lam)
    (s t : Fin n) (hst : s ≠ t) (hs : obs s = true) (ht : obs t = true)
    (lw : Fin kl → Fin n) (cw : Fin kc → Fin n) (hcw : ∀ i, 0 < (cw i).val)
    (lv : Fin kl → K) (cv : Fin kc → K) (τ : Fin n → K) (μ : Fin kl ⊕ Fin kc → K)
    (hsys : hpF obs lam lw cw *ᵥ Sum.elim τ μ = Sum.elim (hpRhs obs y) (Sum.elim lv cv))
    (τ' : Fin n → K) (hl' : ∀ i, τ' (lw i) = lv i) (hc' : ∀ i, τ' (cw i) - τ' (pred (cw i)) = cv i)
    (hle : hpObj obs y lam τ' ≤ hpObj obs y lam τ) : τ' = τ := by
  obtain ⟨hstat, hfeas⟩ := (hp_system_iff obs y lam lw cw lv cv τ μ).1 hsys
  have hfeas' : Cmat lw cw *ᵥ τ' = Sum.elim lv cv := (Cmat_feasible_iff lw cw hcw lv cv τ').2 ⟨hl', hc'⟩
  rw [hpA_eq_wlsA, hpRhs_eq] at hstat
  rw [hpObj_eq_wls, hpObj_eq_wls] at hle
  exact wls_kkt_unique (wt obs) y (wt_nonneg obs) lam hlam (Kmat n) (Cmat lw cw) _ τ μ
    (fun d _ hw hK => two_observations_pin obs s t hst hs ht d hw hK) hstat hfeas τ' hfeas' hle

/-- the system has at most one trend solution (so "the" solution returned by an exact solver is well defined) -/
theorem hp_solution_unique (obs : Fin n → Bool) (y : Fin n → K) (lam : K) (hlam : 0 < lam)
    (s t : Fin n) (hst : s ≠ t) (hs : obs s = true) (ht : obs t = true)
    (lw : Fin kl → Fin n) (cw : Fin kc → Fin n) (hcw : ∀ i, 0 < (cw i).val)
    (lv : Fin kl → K) (cv : Fin kc → K) (τ τ' : Fin n → K) (μ μ' : Fin kl ⊕ Fin kc → K)
    (hsys : hpF obs lam lw cw *ᵥ Sum.elim τ μ = Sum.elim (hpRhs obs y) (Sum.elim lv cv))
    (hsys' : hpF obs lam lw cw *ᵥ Sum.elim τ' μ' = Sum.elim (hpRhs obs y) (Sum.elim lv cv)) : τ' = τ := by
  obtain ⟨hl', hc'⟩ := hp_constraints_met obs y lam lw cw hcw lv cv τ' μ' hsys'
  obtain ⟨hl, hc⟩ := hp_constraints_met obs y lam lw cw hcw lv cv τ μ hsys
  exact hp_unique obs y lam hlam s t hst hs ht lw cw hcw lv cv τ μ hsys τ' hl' hc'
    (hp_optimal obs y lam hlam.le lw cw hcw lv cv τ' μ' hsys' τ hl hc)

omit [LinearOrder K] [IsStrictOrderedRing K] in
/-- **A straight line solves the system**: a fully observed affine series `a + b t` (no constraints, or
constraints that lie on the line) satisfies the normal equations with zero multipliers … -/
theorem hp_line_solves (lam a b : K) (lw : Fin kl → Fin n) (cw : Fin kc → Fin n) :
    let line : Fin n → K := fun t => a + b * (t.val : K)
    hpA (fun _ => true) lam *ᵥ line + (Cmat lw cw)ᵀ *ᵥ (0 : Fin kl ⊕ Fin kc → K) = hpRhs (fun _ => true) line := by
  intro line
  have hK : Kmat n *ᵥ line = 0 := Kmat_affine n a b
  unfold hpA
  rw [Matrix.add_mulVec, Matrix.smul_mulVec, ← Matrix.mulVec_mulVec, hK, Matrix.mulVec_zero, smul_zero,
    Matrix.mulVec_zero, zero_add, add_zero]
  funext t
  rw [Matrix.mulVec_diagonal]
  simp [wt, hpRhs]

/-- … hence **a straight line is returned unchanged**: whatever solves the system for fully observed affine
data (with `n ≥ 2`, `λ > 0` and any constraints the line itself meets) is the line. -/
theorem hp_line_fixed (hn : 2 ≤ n) (lam : K) (hlam : 0 < lam) (a b : K)
    (lw : Fin kl → Fin n) (cw : Fin kc → Fin n) (hcw : ∀ i, 0 < (cw i).val)
    (τ : Fin n → K) (μ : Fin kl ⊕ Fin kc → K) :
    let line : Fin n → K := fun t => a + b * (t.val : K)
    hpF (fun _ => true) lam lw cw *ᵥ Sum.elim τ μ
        = Sum.elim (hpRhs (fun _ => true) line) (Cmat lw cw *ᵥ line) →
    τ = line := by
  intro line hsys
  have hc : Cmat lw cw *ᵥ line = Sum.elim (fun i => (Cmat lw cw *ᵥ line) (Sum.inl i))
      (fun i => (Cmat lw cw *ᵥ line) (Sum.inr i)) := by
    funext r; cases r <;> rfl
  rw [hc] at hsys
  have hline : hpF (fun _ => true) lam lw cw *ᵥ Sum.elim line 0
      = Sum.elim (hpRhs (fun _ => true) line) (Sum.elim (fun i => (Cmat lw cw *ᵥ line) (Sum.inl i))
          (fun i => (Cmat lw cw *ᵥ line) (Sum.inr i))) := by
    rw [← hc]
    exact (bordered_iff _ _ _ _ _ _).2 ⟨hp_line_solves lam a b lw cw, rfl⟩
  exact hp_solution_unique (fun _ => true) line lam hlam ⟨0, by omega⟩ ⟨1, by omega⟩
    (by simp [Fin.ext_iff]) rfl rfl lw cw hcw _ _ line τ 0 μ hline hsys

omit [LinearOrder K] [IsStrictOrderedRing K] in
/-- **Missing observations contribute no fidelity term**: the objective does not depend on the value stored at
an unobserved position (only the smoothness term bridges it). -/
theorem hp_missing_no_fidelity (obs : Fin n → Bool) (y y' : Fin n → K) (lam : K) (τ : Fin n → K)
    (h : ∀ t, obs t = true → y t = y' t) : hpObj obs y lam τ = hpObj obs y' lam τ := by
  unfold hpObj
  congr 1
  refine Finset.sum_congr rfl (fun t _ => ?_)
  by_cases ho : obs t = true
  · simp [ho, h t ho]
  · simp [ho]

omit [LinearOrder K] [IsStrictOrderedRing K] in
/-- … and neither does the right-hand side of the system (zeros are enforced there). -/
theorem hp_missing_rhs (obs : Fin n → Bool) (y y' : Fin n → K) (h : ∀ t, obs t = true → y t = y' t) :
    hpRhs obs y = hpRhs obs y' := by
  funext t; unfold hpRhs
  by_cases ho : obs t = true
  · simp [ho, h t ho]
  · simp [ho]

/-- non-vacuity of the hypotheses of `hp_constraints_met` / `hp_optimal` / `hp_unique`: `n = 12`, `λ = 1600`, the fully
observed data `3 + 2t`, a level constraint at position 7 and a change constraint at position 4 (both on the line):
the bordered system has the solution `(line, 0)`.  (Instances with missing observations and non-zero multipliers are
produced, and re-checked exactly, by the executable model on every run.) -/
example : ∃ (τ : Fin 12 → ℚ) (μ : Fin 1 ⊕ Fin 1 → ℚ),
    hpF (fun _ => true) 1600 (![7] : Fin 1 → Fin 12) (![4] : Fin 1 → Fin 12) *ᵥ Sum.elim τ μ
      = Sum.elim (hpRhs (fun _ => true) (fun t => 3 + 2 * (t.val : ℚ)))
          (Cmat ![7] ![4] *ᵥ (fun t : Fin 12 => 3 + 2 * (t.val : ℚ))) :=
  ⟨_, 0, (bordered_iff _ _ _ _ _ _).2 ⟨hp_line_solves 1600 3 2 _ _, rfl⟩⟩

/-! ## Part D — existence: the system matrix is non-singular, so the unique minimiser exists -/

section Existence

/-- `λKᵀK + W` is definite when `λ > 0` and two observations exist:
`dᵀ(λKᵀK + W)d = 0 ⇒ Kd = 0 ∧ Wd = 0 ⇒ d` affine with two zeros `⇒ d = 0`. -/
theorem hpA_definite (obs : Fin n → Bool) (lam : K) (hlam : 0 < lam)
    (s t : Fin n) (hst : s ≠ t) (hs : obs s = true) (ht : obs t = true)
    (d : Fin n → K) (h : d ⬝ᵥ hpA obs lam *ᵥ d = 0) : d = 0 := by
  rw [hpA_eq_wlsA, wlsA_form] at h
  have h1 : 0 ≤ ∑ i, wt obs i * d i ^ 2 := Finset.sum_nonneg (fun i _ => mul_nonneg (wt_nonneg obs i) (sq_nonneg _))
  have h2 : 0 ≤ Kmat n *ᵥ d ⬝ᵥ Kmat n *ᵥ d := dot_self_nonneg _
  have h3 : 0 ≤ lam * (Kmat n *ᵥ d ⬝ᵥ Kmat n *ᵥ d) := mul_nonneg hlam.le h2
  have s1 : ∑ i, wt obs i * d i ^ 2 = 0 := by linarith
  have s2 : lam * (Kmat n *ᵥ d ⬝ᵥ Kmat n *ᵥ d) = 0 := by linarith
  have s3 : Kmat n *ᵥ d ⬝ᵥ Kmat n *ᵥ d = 0 := by
    rcases mul_eq_zero.1 s2 with h | h
    · exact absurd h hlam.ne'
    · exact h
  have s4 : ∀ i, wt obs i * d i ^ 2 = 0 := fun i =>
    (Finset.sum_eq_zero_iff_of_nonneg (fun i _ => mul_nonneg (wt_nonneg obs i) (sq_nonneg _))).1 s1 i (Finset.mem_univ i)
  exact two_observations_pin obs s t hst hs ht d s4 (dot_self_eq_zero s3)

/-- **Unconstrained system matrix is non-singular** (`λ > 0`, two observations). -/
theorem hp_plain_nonsingular (obs : Fin n → Bool) (lam : K) (hlam : 0 < lam)
    (s t : Fin n) (hst : s ≠ t) (hs : obs s = true) (ht : obs t = true) : IsUnit (hpA obs lam).det :=
  isUnit_det_of_definite _ (hpA_definite obs lam hlam s t hst hs ht)

omit [LinearOrder K] [IsStrictOrderedRing K] in
/-- **Independent constraints have full row rank**: distinct level positions, distinct change positions (`≥ 1`), and
between two level positions `p < q` at least one of the periods `p+1 … q` without a change constraint. -/
theorem hp_independent_constraints (lw : Fin kl → Fin n) (cw : Fin kc → Fin n)
    (hlinj : Function.Injective lw) (hcinj : Function.Injective cw) (hcw : ∀ k, 0 < (cw k).val)
    (hnc : ∀ i i', (lw i).val < (lw i').val → ∃ j, (lw i).val < j ∧ j ≤ (lw i').val ∧ ∀ k, (cw k).val ≠ j)
    (μ : Fin kl ⊕ Fin kc → K) (h : (Cmat lw cw)ᵀ *ᵥ μ = 0) : μ = 0 :=
  Cmat_rank_mixed lw cw hlinj hcinj hcw hnc μ h

/-- **The bordered system matrix `F` is non-singular** for `λ > 0`, two observations and a constraint matrix of full
row rank (`hC`; see `hp_independent_constraints`). -/
theorem hp_bordered_nonsingular (obs : Fin n → Bool) (lam : K) (hlam : 0 < lam)
    (s t : Fin n) (hst : s ≠ t) (hs : obs s = true) (ht : obs t = true)
    (lw : Fin kl → Fin n) (cw : Fin kc → Fin n)
    (hC : ∀ μ : Fin kl ⊕ Fin kc → K, (Cmat lw cw)ᵀ *ᵥ μ = 0 → μ = 0) :
    IsUnit (hpF obs lam lw cw).det :=
  bordered_isUnit_det _ _ (fun d _ hq => hpA_definite obs lam hlam s t hst hs ht d hq) hC

/-- **The system is solvable for every data and every constraint values** … -/
theorem hp_system_solvable (obs : Fin n → Bool) (y : Fin n → K) (lam : K) (hlam : 0 < lam)
    (s t : Fin n) (hst : s ≠ t) (hs : obs s = true) (ht : obs t = true)
    (lw : Fin kl → Fin n) (cw : Fin kc → Fin n)
    (hC : ∀ μ : Fin kl ⊕ Fin kc → K, (Cmat lw cw)ᵀ *ᵥ μ = 0 → μ = 0)
    (lv : Fin kl → K) (cv : Fin kc → K) :
    ∃ (τ : Fin n → K) (μ : Fin kl ⊕ Fin kc → K),
      hpF obs lam lw cw *ᵥ Sum.elim τ μ = Sum.elim (hpRhs obs y) (Sum.elim lv cv) := by
  obtain ⟨τ, μ, h1, h2⟩ := kkt_exists (hpA obs lam) (Cmat lw cw)
    (fun d _ hq => hpA_definite obs lam hlam s t hst hs ht d hq) hC (hpRhs obs y) (Sum.elim lv cv)
  exact ⟨τ, μ, (hp_system_iff obs y lam lw cw lv cv τ μ).2 ⟨h1, h2⟩⟩

/-- … hence **the constrained Hodrick-Prescott minimiser exists and is unique**: for `λ > 0`, two observations and
independent constraints there is exactly one sequence that meets all constraints and minimises the objective among
the sequences that do. -/
theorem hp_minimiser_exists_unique (obs : Fin n → Bool) (y : Fin n → K) (lam : K) (hlam : 0 < lam)
    (s t : Fin n) (hst : s ≠ t) (hs : obs s = true) (ht : obs t = true)
    (lw : Fin kl → Fin n) (cw : Fin kc → Fin n) (hcw : ∀ i, 0 < (cw i).val)
    (hC : ∀ μ : Fin kl ⊕ Fin kc → K, (Cmat lw cw)ᵀ *ᵥ μ = 0 → μ = 0)
    (lv : Fin kl → K) (cv : Fin kc → K) :
    ∃! τ : Fin n → K,
      ((∀ i, τ (lw i) = lv i) ∧ (∀ i, τ (cw i) - τ (pred (cw i)) = cv i)) ∧
      ∀ σ : Fin n → K, (∀ i, σ (lw i) = lv i) → (∀ i, σ (cw i) - σ (pred (cw i)) = cv i) →
        hpObj obs y lam τ ≤ hpObj obs y lam σ := by
  obtain ⟨τ, μ, hsys⟩ := hp_system_solvable obs y lam hlam s t hst hs ht lw cw hC lv cv
  have hfeas := hp_constraints_met obs y lam lw cw hcw lv cv τ μ hsys
  refine ⟨τ, ⟨hfeas, fun σ h1 h2 => hp_optimal obs y lam hlam.le lw cw hcw lv cv τ μ hsys σ h1 h2⟩, ?_⟩
  rintro σ ⟨⟨h1, h2⟩, hmin⟩
  exact hp_unique obs y lam hlam s t hst hs ht lw cw hcw lv cv τ μ hsys σ h1 h2 (hmin τ hfeas.1 hfeas.2)

/-- the unconstrained case, spelled out: the plain Hodrick-Prescott trend exists and is unique -/
theorem hp_plain_minimiser_exists_unique (obs : Fin n → Bool) (y : Fin n → K) (lam : K) (hlam : 0 < lam)
    (s t : Fin n) (hst : s ≠ t) (hs : obs s = true) (ht : obs t = true) :
    ∃! τ : Fin n → K, ∀ σ : Fin n → K, hpObj obs y lam τ ≤ hpObj obs y lam σ := by
  obtain ⟨τ, ⟨_, hmin⟩, huniq⟩ := hp_minimiser_exists_unique obs y lam hlam s t hst hs ht
    (Fin.elim0 : Fin 0 → Fin n) (Fin.elim0 : Fin 0 → Fin n) (fun i => i.elim0)
    (fun μ _ => funext (fun r => by rcases r with i | i <;> exact i.elim0)) Fin.elim0 Fin.elim0
  refine ⟨τ, fun σ => hmin σ (fun i => i.elim0) (fun i => i.elim0), ?_⟩
  intro σ hσ
  exact huniq σ ⟨⟨fun i => i.elim0, fun i => i.elim0⟩, fun ρ _ _ => hσ ρ⟩

/-! ### converse: dependent constraints make the system singular -/

omit [LinearOrder K] [IsStrictOrderedRing K] in
/-- **Converse of `hp_bordered_nonsingular`**: if the constraint rows are linearly dependent (`Cᵀμ = 0` for some `μ ≠ 0`)
the bordered matrix is singular, whatever the data, `λ` and the observation pattern. -/
theorem hp_singular_of_dependent (obs : Fin n → Bool) (lam : K) (lw : Fin kl → Fin n) (cw : Fin kc → Fin n)
    (μ : Fin kl ⊕ Fin kc → K) (hμ : μ ≠ 0) (h : (Cmat lw cw)ᵀ *ᵥ μ = 0) :
    ¬ IsUnit (hpF obs lam lw cw).det := by
  intro hu
  have hinj := Matrix.mulVec_injective_iff_isUnit.2 ((Matrix.isUnit_iff_isUnit_det _).2 hu)
  have h0 : hpF obs lam lw cw *ᵥ Sum.elim (0 : Fin n → K) μ = Sum.elim (0 : Fin n → K) (0 : Fin kl ⊕ Fin kc → K) := by
    unfold hpF
    rw [bordered_iff]
    exact ⟨by rw [Matrix.mulVec_zero, zero_add, h], Matrix.mulVec_zero _⟩
  have hz : Sum.elim (0 : Fin n → K) (0 : Fin kl ⊕ Fin kc → K) = 0 := by funext r; cases r <;> rfl
  have h1 : hpF obs lam lw cw *ᵥ Sum.elim (0 : Fin n → K) μ = hpF obs lam lw cw *ᵥ 0 := by
    rw [h0, hz, Matrix.mulVec_zero]
  have h2 := hinj h1
  apply hμ
  funext r
  have := congrFun h2 (Sum.inr r)
  simpa using this

omit [LinearOrder K] [IsStrictOrderedRing K] in
/-- two level constraints at the same period are dependent -/
theorem dependent_of_duplicate_level (lw : Fin kl → Fin n) (cw : Fin kc → Fin n) (i i' : Fin kl) (hne : i ≠ i')
    (hdup : lw i = lw i') :
    ∃ μ : Fin kl ⊕ Fin kc → K, μ ≠ 0 ∧ (Cmat lw cw)ᵀ *ᵥ μ = 0 := by
  refine ⟨fun r => match r with
    | Sum.inl a => (if a = i then 1 else 0) - (if a = i' then 1 else 0)
    | Sum.inr _ => 0, ?_, ?_⟩
  · intro h
    have := congrFun h (Sum.inl i)
    simp [hne] at this
  · funext j
    rw [Cmat_transpose_mulVec]
    have hb : ∀ m, betaOf (K := K) cw (fun r : Fin kl ⊕ Fin kc => match r with
        | Sum.inl a => (if a = i then 1 else 0) - (if a = i' then 1 else 0)
        | Sum.inr _ => 0) m = 0 := by
      intro m; unfold betaOf; simp
    rw [hb, hb]
    unfold alphaOf
    simp only [Pi.zero_apply, add_zero, sub_zero]
    have : ∀ a : Fin kl, (if (lw a).val = j.val then ((if a = i then (1 : K) else 0) - (if a = i' then 1 else 0)) else 0)
        = (if a = i then (if (lw i).val = j.val then 1 else 0) else 0) - (if a = i' then (if (lw i').val = j.val then 1 else 0) else 0) := by
      intro a
      by_cases h1 : a = i
      · have h2 : a ≠ i' := fun h => hne (h1.symm.trans h)
        subst h1; simp [h2]
      · by_cases h2 : a = i'
        · subst h2; simp [h1]; split_ifs <;> simp
        · simp [h1, h2]
    simp only [this, Finset.sum_sub_distrib, Finset.sum_ite_eq', Finset.mem_univ, if_true, hdup, sub_self]

omit [LinearOrder K] [IsStrictOrderedRing K] in
/-- two change constraints at the same period are dependent -/
theorem dependent_of_duplicate_change (lw : Fin kl → Fin n) (cw : Fin kc → Fin n) (k k' : Fin kc) (hne : k ≠ k')
    (hdup : cw k = cw k') :
    ∃ μ : Fin kl ⊕ Fin kc → K, μ ≠ 0 ∧ (Cmat lw cw)ᵀ *ᵥ μ = 0 := by
  refine ⟨fun r => match r with
    | Sum.inl _ => 0
    | Sum.inr a => (if a = k then 1 else 0) - (if a = k' then 1 else 0), ?_, ?_⟩
  · intro h
    have := congrFun h (Sum.inr k)
    simp [hne] at this
  · funext j
    rw [Cmat_transpose_mulVec]
    have ha : ∀ m, alphaOf (K := K) lw (fun r : Fin kl ⊕ Fin kc => match r with
        | Sum.inl _ => 0
        | Sum.inr a => (if a = k then 1 else 0) - (if a = k' then 1 else 0)) m = 0 := by
      intro m; unfold alphaOf; simp
    have hb : ∀ m, betaOf (K := K) cw (fun r : Fin kl ⊕ Fin kc => match r with
        | Sum.inl _ => 0
        | Sum.inr a => (if a = k then 1 else 0) - (if a = k' then 1 else 0)) m = 0 := by
      intro m
      unfold betaOf
      have : ∀ a : Fin kc, (if (cw a).val = m then ((if a = k then (1 : K) else 0) - (if a = k' then 1 else 0)) else 0)
          = (if a = k then (if (cw k).val = m then 1 else 0) else 0) - (if a = k' then (if (cw k').val = m then 1 else 0) else 0) := by
        intro a
        by_cases h1 : a = k
        · have h2 : a ≠ k' := fun h => hne (h1.symm.trans h)
          subst h1; simp [h2]
        · by_cases h2 : a = k'
          · subst h2; simp [h1]; split_ifs <;> simp
          · simp [h1, h2]
      simp only [this, Finset.sum_sub_distrib, Finset.sum_ite_eq', Finset.mem_univ, if_true, hdup, sub_self]
    rw [ha, hb, hb]; simp

omit [LinearOrder K] [IsStrictOrderedRing K] in
/-- **a level–changes–level cycle is dependent**: level constraints at periods `p < q` together with a change constraint at
every period `p+1, …, q` (`kf j` is the one at `j`) — the excluded configuration of `hp_independent_constraints` — admit
`μ = e_{level p} − e_{level q} + Σ_j e_{change j}` with `Cᵀμ = 0`. -/
theorem dependent_of_cycle (lw : Fin kl → Fin n) (cw : Fin kc → Fin n) (i i' : Fin kl)
    (hpq : (lw i).val < (lw i').val) (kf : Nat → Fin kc)
    (hkf : ∀ j, (lw i).val < j → j ≤ (lw i').val → (cw (kf j)).val = j) :
    ∃ μ : Fin kl ⊕ Fin kc → K, μ ≠ 0 ∧ (Cmat lw cw)ᵀ *ᵥ μ = 0 := by
  have hne : i ≠ i' := fun h => by rw [h] at hpq; exact lt_irrefl _ hpq
  let μ : Fin kl ⊕ Fin kc → K := fun r => match r with
    | Sum.inl a => (if a = i then 1 else 0) - (if a = i' then 1 else 0)
    | Sum.inr k => if (lw i).val < (cw k).val ∧ (cw k).val ≤ (lw i').val ∧ k = kf (cw k).val then 1 else 0
  refine ⟨μ, ?_, ?_⟩
  · intro h
    have := congrFun h (Sum.inl i)
    simp [μ, hne] at this
  · have ha : ∀ m, alphaOf lw μ m = (if (lw i).val = m then 1 else 0) - (if (lw i').val = m then 1 else 0) := by
      intro m
      unfold alphaOf
      have : ∀ a : Fin kl, (if (lw a).val = m then μ (Sum.inl a) else 0)
          = (if a = i then (if (lw i).val = m then (1 : K) else 0) else 0) - (if a = i' then (if (lw i').val = m then 1 else 0) else 0) := by
        intro a
        simp only [μ]
        by_cases h1 : a = i
        · have h2 : a ≠ i' := fun h => hne (h1.symm.trans h)
          subst h1; simp [h2]
        · by_cases h2 : a = i'
          · subst h2; simp [h1]; split_ifs <;> simp
          · simp [h1, h2]
      simp only [this, Finset.sum_sub_distrib, Finset.sum_ite_eq', Finset.mem_univ, if_true]
    have hb : ∀ m, betaOf cw μ m = (if (lw i).val < m ∧ m ≤ (lw i').val then 1 else 0) := by
      intro m
      unfold betaOf
      by_cases hm : (lw i).val < m ∧ m ≤ (lw i').val
      · rw [if_pos hm, Finset.sum_eq_single (kf m)]
        · have hk := hkf m hm.1 hm.2
          rw [if_pos hk]
          simp only [μ]
          rw [if_pos]
          refine ⟨by rw [hk]; exact hm.1, by rw [hk]; exact hm.2, by rw [hk]⟩
        · intro k _ hk
          by_cases hc : (cw k).val = m
          · rw [if_pos hc]
            simp only [μ]
            rw [if_neg]
            rintro ⟨_, _, h3⟩
            rw [hc] at h3
            exact hk h3
          · rw [if_neg hc]
        · intro h; exact absurd (Finset.mem_univ _) h
      · rw [if_neg hm]
        refine Finset.sum_eq_zero (fun k _ => ?_)
        by_cases hc : (cw k).val = m
        · rw [if_pos hc]
          simp only [μ]
          rw [if_neg]
          rintro ⟨h1, h2, _⟩
          rw [hc] at h1 h2
          exact hm ⟨h1, h2⟩
        · rw [if_neg hc]
    funext j
    rw [Cmat_transpose_mulVec, ha, hb, hb]
    simp only [Pi.zero_apply]
    split_ifs <;> first | (exfalso; omega) | ring1

/-- **Non-singularity characterised**: for `λ > 0`, two observations and change positions `≥ 1`, the bordered system
matrix is non-singular **iff** the constraints are independent in the combinatorial sense: distinct level positions, distinct
change positions, and no two level positions joined by change constraints at every period in between. -/
theorem hp_nonsingular_iff_independent (obs : Fin n → Bool) (lam : K) (hlam : 0 < lam)
    (s t : Fin n) (hst : s ≠ t) (hs : obs s = true) (ht : obs t = true)
    (lw : Fin kl → Fin n) (cw : Fin kc → Fin n) (hcw : ∀ k, 0 < (cw k).val) :
    IsUnit (hpF obs lam lw cw).det ↔
      (Function.Injective lw ∧ Function.Injective cw ∧
        ∀ i i', (lw i).val < (lw i').val → ∃ j, (lw i).val < j ∧ j ≤ (lw i').val ∧ ∀ k, (cw k).val ≠ j) := by
  constructor
  · intro hu
    refine ⟨?_, ?_, ?_⟩
    · intro i i' h
      by_contra hne
      obtain ⟨μ, hμ, hd⟩ := dependent_of_duplicate_level (K := K) lw cw i i' hne h
      exact hp_singular_of_dependent obs lam lw cw μ hμ hd hu
    · intro k k' h
      by_contra hne
      obtain ⟨μ, hμ, hd⟩ := dependent_of_duplicate_change (K := K) lw cw k k' hne h
      exact hp_singular_of_dependent obs lam lw cw μ hμ hd hu
    · intro i i' hpq
      by_contra hcon
      push Not at hcon
      have hall : ∀ j, (lw i).val < j → j ≤ (lw i').val → ∃ k, (cw k).val = j := hcon
      obtain ⟨k0, _⟩ := hall (lw i').val hpq le_rfl
      classical
      let kf : Nat → Fin kc := fun j => if h : ∃ k, (cw k).val = j then Classical.choose h else k0
      have hkf : ∀ j, (lw i).val < j → j ≤ (lw i').val → (cw (kf j)).val = j := by
        intro j h1 h2
        have hex := hall j h1 h2
        simp only [kf, dif_pos hex]
        exact Classical.choose_spec hex
      obtain ⟨μ, hμ, hd⟩ := dependent_of_cycle (K := K) lw cw i i' hpq kf hkf
      exact hp_singular_of_dependent obs lam lw cw μ hμ hd hu
  · rintro ⟨h1, h2, h3⟩
    exact hp_bordered_nonsingular obs lam hlam s t hst hs ht lw cw (hp_independent_constraints lw cw h1 h2 hcw h3)

/-- non-vacuity (independent side): `n = 4`, all observed, one level at period 3 and one change at period 1 — non-singular -/
example : IsUnit (hpF (K := ℚ) (fun _ : Fin 4 => true) 1 (![3] : Fin 1 → Fin 4) (![1] : Fin 1 → Fin 4)).det := by
  refine (hp_nonsingular_iff_independent (fun _ => true) 1 one_pos 0 1 (by decide) rfl rfl _ _ (fun k => ?_)).2
    ⟨fun a b _ => Subsingleton.elim a b, fun a b _ => Subsingleton.elim a b, fun i i' h => ?_⟩
  · fin_cases k; simp
  · exfalso; fin_cases i; fin_cases i'; simp at h

/-- non-vacuity (dependent side): two level constraints at the same period make the system singular -/
example : ¬ IsUnit (hpF (K := ℚ) (fun _ : Fin 4 => true) 1 (![2, 2] : Fin 2 → Fin 4) (Fin.elim0 : Fin 0 → Fin 4)).det := by
  obtain ⟨μ, hμ, hd⟩ := dependent_of_duplicate_level (K := ℚ) (![2, 2] : Fin 2 → Fin 4) (Fin.elim0 : Fin 0 → Fin 4) 0 1
    (by decide) rfl
  exact hp_singular_of_dependent _ _ _ _ μ hμ hd

/-- non-vacuity: the plain and the constrained minimiser exist and are unique on concrete instances -/
example : ∃! τ : Fin 3 → ℚ, ∀ σ : Fin 3 → ℚ, hpObj (fun _ => true) ![1, 5, 2] 1 τ ≤ hpObj (fun _ => true) ![1, 5, 2] 1 σ :=
  hp_plain_minimiser_exists_unique (fun _ => true) ![1, 5, 2] 1 one_pos 0 1 (by decide) rfl rfl

example : ∃! τ : Fin 4 → ℚ,
    ((∀ i : Fin 1, τ ((![3] : Fin 1 → Fin 4) i) = (![7] : Fin 1 → ℚ) i) ∧
     (∀ i : Fin 1, τ ((![1] : Fin 1 → Fin 4) i) - τ (pred ((![1] : Fin 1 → Fin 4) i)) = (![2] : Fin 1 → ℚ) i)) ∧
    ∀ σ : Fin 4 → ℚ, (∀ i : Fin 1, σ ((![3] : Fin 1 → Fin 4) i) = (![7] : Fin 1 → ℚ) i) →
      (∀ i : Fin 1, σ ((![1] : Fin 1 → Fin 4) i) - σ (pred ((![1] : Fin 1 → Fin 4) i)) = (![2] : Fin 1 → ℚ) i) →
      hpObj ![true, true, false, true] ![0, 1, 4, 9] 1 τ ≤ hpObj ![true, true, false, true] ![0, 1, 4, 9] 1 σ := by
  refine hp_minimiser_exists_unique ![true, true, false, true] ![0, 1, 4, 9] 1 one_pos 0 1 (by decide) rfl rfl
    (![3] : Fin 1 → Fin 4) (![1] : Fin 1 → Fin 4) (fun k => by fin_cases k; simp) ?_ ![7] ![2]
  exact hp_independent_constraints _ _ (fun a b _ => Subsingleton.elim a b) (fun a b _ => Subsingleton.elim a b)
    (fun k => by fin_cases k; simp) (fun i i' h => by exfalso; fin_cases i; fin_cases i'; simp at h)

end Existence

/-! ## Part B — the executable model (`IrisVerif.HP`, exact rationals) -/

section Model

open IrisVerif.HP IrisVerif.HPModel

/-- **The model's system matrix is the theorem's `F`**, entry by entry: for every pair of block positions
(`emb` enumerates trend positions, then level rows, then change rows), the matrix built by the model exactly as
`_ConstrainedHodrickPrescottFilter` builds it (`λ KᵀK`, bordered by `vstack`/`hstack`, plus the observation
diagonal) equals `hpF = [[λKᵀK + W, Cᵀ], [C, 0]]` over `ℚ`. -/
theorem model_sysMatrix_eq_hpF (n : Nat) (lam : Rat) (lw cw : List Nat) (y : Array (Option Rat))
    (hl : ∀ a, a < lw.length → lw.getD a 0 < n) (hc : ∀ a, a < cw.length → cw.getD a 0 < n)
    (r c : Fin n ⊕ (Fin lw.length ⊕ Fin cw.length)) :
    (sysMatrix n lam lw cw y).get (emb n lw.length r) (emb n lw.length c)
      = hpF (K := ℚ) (obsOf n y) lam (posF n lw hl) (posF n cw hc) r c := by
  have hb : ∀ q : Fin n ⊕ (Fin lw.length ⊕ Fin cw.length), emb n lw.length q < n + lw.length + cw.length := by
    intro q
    rcases q with t | a | a
    · have := t.isLt; simp only [emb]; omega
    · have := a.isLt; simp only [emb]; omega
    · have := a.isLt; simp only [emb]; omega
  rw [sysMatrix_get n lam lw cw y _ _ (hb r) (hb c)]
  unfold hpF
  rcases r with t | a | a <;> rcases c with u | b | b
  · -- top-left: λKᵀK + diag(obs)
    have ht := t.isLt; have hu := u.isLt
    simp only [emb, Matrix.fromBlocks_apply₁₁]
    have h1 : u.val < n + lw.length := by omega
    have h2 : t.val < n + lw.length := by omega
    simp only [h1, h2, hu, ht, if_true, true_and]
    rw [plainF_get n lam t.val u.val ht hu]
    unfold hpA
    rw [Matrix.add_apply, Matrix.diagonal_apply]
    congr 1
    unfold wt obsOf
    by_cases htu : t = u
    · subst htu; simp
    · have : ¬ t.val = u.val := fun h => htu (Fin.ext h)
      simp [htu, this]
  · -- top-middle: level columns
    have ht := t.isLt; have hb' := b.isLt
    simp only [emb, Matrix.fromBlocks_apply₁₂, Matrix.transpose_apply]
    have h1 : n + b.val < n + lw.length := by omega
    have h2 : t.val < n + lw.length := by omega
    have h3 : ¬ n + b.val < n := by omega
    have h4 : ¬ (t.val = n + b.val ∧ t.val < n ∧ ((y.getD t.val none).isSome = true)) := by omega
    simp only [h1, h2, h3, h4, if_true, if_false, Nat.add_sub_cancel_left, add_zero]
    exact levelPat_eq n lw cw hl hc b t
  · -- top-right: change columns
    have ht := t.isLt; have hb' := b.isLt
    simp only [emb, Matrix.fromBlocks_apply₁₂, Matrix.transpose_apply]
    have h1 : ¬ n + lw.length + b.val < n + lw.length := by omega
    have h4 : ¬ (t.val = n + lw.length + b.val ∧ t.val < n ∧ ((y.getD t.val none).isSome = true)) := by omega
    simp only [h1, h4, if_false, Nat.add_sub_cancel_left, add_zero]
    exact changePat_eq n lw cw hl hc b t
  · -- middle-left: level rows
    have hu := u.isLt; have ha := a.isLt
    simp only [emb, Matrix.fromBlocks_apply₂₁]
    have h1 : u.val < n + lw.length := by omega
    have h2 : n + a.val < n + lw.length := by omega
    have h3 : ¬ n + a.val < n := by omega
    have h4 : ¬ (n + a.val = u.val ∧ n + a.val < n ∧ ((y.getD (n + a.val) none).isSome = true)) := by omega
    simp only [h1, h2, h3, hu, if_true, if_false, Nat.add_sub_cancel_left, false_and, and_false, add_zero]
    exact levelPat_eq n lw cw hl hc a u
  · -- middle-middle: zero
    have ha := a.isLt; have hb' := b.isLt
    simp only [emb, Matrix.fromBlocks_apply₂₂, Matrix.zero_apply]
    have h1 : n + b.val < n + lw.length := by omega
    have h2 : n + a.val < n + lw.length := by omega
    have h3 : ¬ n + b.val < n := by omega
    have h4 : ¬ (n + a.val = n + b.val ∧ n + a.val < n ∧ ((y.getD (n + a.val) none).isSome = true)) := by omega
    simp only [h1, h2, h3, h4, if_true, if_false, Nat.add_sub_cancel_left, add_zero]
    exact levelPat_out _ _ (by have := hl b.val b.isLt; omega)
  · -- middle-right: zero
    have ha := a.isLt; have hb' := b.isLt
    simp only [emb, Matrix.fromBlocks_apply₂₂, Matrix.zero_apply]
    have h1 : ¬ n + lw.length + b.val < n + lw.length := by omega
    have h4 : ¬ (n + a.val = n + lw.length + b.val ∧ n + a.val < n ∧ ((y.getD (n + a.val) none).isSome = true)) := by omega
    simp only [h1, h4, if_false, Nat.add_sub_cancel_left, add_zero]
    exact changePat_out _ _ (by have := hc b.val b.isLt; omega)
  · -- bottom-left: change rows
    have hu := u.isLt; have ha := a.isLt
    simp only [emb, Matrix.fromBlocks_apply₂₁]
    have h1 : u.val < n + lw.length := by omega
    have h2 : ¬ n + lw.length + a.val < n + lw.length := by omega
    have h4 : ¬ (n + lw.length + a.val = u.val ∧ n + lw.length + a.val < n ∧ ((y.getD (n + lw.length + a.val) none).isSome = true)) := by omega
    simp only [h1, h2, h4, if_true, if_false, Nat.add_sub_cancel_left, add_zero]
    exact changePat_eq n lw cw hl hc a u
  · -- bottom-middle: zero
    have ha := a.isLt; have hb' := b.isLt
    simp only [emb, Matrix.fromBlocks_apply₂₂, Matrix.zero_apply]
    have h1 : n + b.val < n + lw.length := by omega
    have h2 : ¬ n + lw.length + a.val < n + lw.length := by omega
    have h4 : ¬ (n + lw.length + a.val = n + b.val ∧ n + lw.length + a.val < n ∧ ((y.getD (n + lw.length + a.val) none).isSome = true)) := by omega
    simp only [h1, h2, h4, if_true, if_false, Nat.add_sub_cancel_left, add_zero]
    exact changePat_out _ _ (by have := hc a.val a.isLt; omega)
  · -- bottom-right: zero
    have ha := a.isLt; have hb' := b.isLt
    simp only [emb, Matrix.fromBlocks_apply₂₂, Matrix.zero_apply]
    have h1 : ¬ n + lw.length + b.val < n + lw.length := by omega
    have h4 : ¬ (n + lw.length + a.val = n + lw.length + b.val ∧ n + lw.length + a.val < n ∧ ((y.getD (n + lw.length + a.val) none).isSome = true)) := by omega
    simp only [h1, h4, if_false, Nat.add_sub_cancel_left, add_zero]
    exact changePat_out _ _ (by have := hc b.val b.isLt; omega)

/-- **`hpK` entry formula**: the model's `K` is the second-difference matrix of Part A (over `ℚ`). -/
theorem model_hpK_eq_Kmat (n i j : Nat) (hi : i < n - 2) (hj : j < n) :
    (hpK n).get i j = (Kmat n : Matrix _ _ ℚ) ⟨i, hi⟩ ⟨j, hj⟩ := hpK_get n i j hi hj

/-- **trend + gap = data on the model** (`log=False`): wherever the observation exists the returned trend and gap
add up to it exactly, and the gap is missing exactly where the observation is. -/
theorem model_trend_plus_gap (n : Nat) (lam : Rat) (lw cw : List Nat) (ld cd : List Rat)
    (y : Array (Option Rat)) (f : Filtered) (h : filterData id id n lam lw cw ld cd y = some f)
    (i : Nat) (hi : i < n) :
    (∀ v, y.getD i none = some v → ∃ g, f.gap.getD i none = some g ∧ f.trend.getD i 0 + g = v) ∧
    (y.getD i none = none → f.gap.getD i none = none) := by
  obtain ⟨x, _, ht, hg⟩ := filterData_spec id id n lam lw cw ld cd y f h
  constructor
  · intro v hv
    have hv' : y[i]?.getD none = some v := by simpa using hv
    refine ⟨v - x.toVec.getD i 0, ?_, ?_⟩
    · rw [hg]; simp [hi, hv']
    · rw [ht]; simp [hi]
  · intro hv
    have hv' : y[i]?.getD none = none := by simpa using hv
    rw [hg]; simp [hi, hv']

/-- **`log=True` on the model: in logarithms, trend + gap = data.**  For abstract `lg`/`ex` with `lg (ex z) = z`
(`log ∘ exp = id`, true of the real functions; satisfiable over `ℚ`, see the example below), wherever the observation
`v` exists the returned trend and gap satisfy `lg trend + lg gap = lg v`.
(Statement audit, round 5: the earlier multiplicative form `trend · gap = data` assumed `ex (lg v) = v` and
`ex (a − b) · ex b = ex a` for *all* rationals, which no pair of functions `ℚ → ℚ` satisfies — a vacuous theorem; it is
replaced by this one, whose hypothesis is met by non-trivial functions.) -/
theorem model_log_trend_plus_gap_in_logs (lg ex : Rat → Rat) (hleft : ∀ z, lg (ex z) = z)
    (n : Nat) (lam : Rat) (lw cw : List Nat) (ld cd : List Rat)
    (y : Array (Option Rat)) (f : Filtered) (h : filterData lg ex n lam lw cw ld cd y = some f)
    (i : Nat) (hi : i < n) (v : Rat) (hv : y.getD i none = some v) :
    ∃ g, f.gap.getD i none = some g ∧ lg (f.trend.getD i 0) + lg g = lg v := by
  obtain ⟨x, _, ht, hg⟩ := filterData_spec lg ex n lam lw cw ld cd y f h
  have hv' : y[i]?.getD none = some v := by simpa using hv
  refine ⟨ex (lg v - x.toVec.getD i 0), ?_, ?_⟩
  · rw [hg]; simp [hi, hv']
  · rw [ht]
    simp only [Array.map_map]
    have : ((Array.range n).map (ex ∘ fun i => x.toVec.getD i 0)).getD i 0 = ex (x.toVec.getD i 0) := by
      simp [hi]
    rw [this, hleft, hleft]; ring

/-- non-vacuity: `lg z = z / 2`, `ex z = 2 z` satisfy `lg (ex z) = z` and are not the identity; the model answers on a
concrete instance with a level and a change constraint (kernel evaluation) -/
example : (∀ z : Rat, (fun z => z / 2) ((fun z => 2 * z) z) = z) ∧
    (filterData (fun z => z / 2) (fun z => 2 * z) 4 1 [3] [1] [7] [2] #[some 0, some 1, none, some 9]).isSome = true :=
  ⟨fun z => by ring, by decide +kernel⟩

/-- the system matrix sees the data only through the observation pattern (so `log=True`, which changes the
values but not the pattern, solves the same matrix against the logged right-hand side) -/
theorem model_sysMatrix_pattern_only (n : Nat) (lam : Rat) (lw cw : List Nat) (y y' : Array (Option Rat))
    (h : ∀ i, (y.getD i none).isSome = (y'.getD i none).isSome) :
    sysMatrix n lam lw cw y = sysMatrix n lam lw cw y' := by
  unfold sysMatrix addEye
  congr 1
  funext i j
  rw [h i]

/-- **`log=True` is `exp ∘ hpf ∘ log` on the model**: for arbitrary functions `lg`, `ex`, filtering with them equals
filtering the `lg`-transformed data, levels and changes with the identity and applying `ex` to trend and gap. -/
theorem model_log_is_exp_hpf_log (lg ex : Rat → Rat) (n : Nat) (lam : Rat) (lw cw : List Nat) (ld cd : List Rat)
    (y : Array (Option Rat)) :
    filterData lg ex n lam lw cw ld cd y =
      (filterData id id n lam lw cw (ld.map lg) (cd.map lg) (y.map (Option.map lg))).map
        (fun f => ⟨f.trend.map ex, f.gap.map (Option.map ex), f.mult⟩) :=
  filterData_log lg ex n lam lw cw ld cd y

/-- **Clipping is restriction of the unclipped result**: the variants are filtered on the whole encompassing range
(`(setup r).lo … (setup r).hi`, which uses the data outside the requested span), and the requested span enters the
output only through `Array.extract` (the slice `[clip_start:clip_end]`) and the reported start. -/
theorem model_span_only_clips (lg ex : Rat → Rat) (r : Request) :
    dataHpf lg ex r =
      (r.dcols.mapM (fun col => filterData lg ex (setup r).n r.lam (setup r).lw (setup r).cw (setup r).ld (setup r).cd
          ((Ser.mk r.dstart col).fromUntil (setup r).lo (setup r).hi))).map
        (fun fs => ⟨(setup r).slo,
          fs.map (fun f => f.trend.extract ((setup r).slo - (setup r).lo).toNat ((setup r).shi - (setup r).lo + 1).toNat),
          fs.map (fun f => f.gap.extract ((setup r).slo - (setup r).lo).toNat ((setup r).shi - (setup r).lo + 1).toNat)⟩) := by
  unfold dataHpf clip
  dsimp only
  generalize (r.dcols.mapM (fun col => filterData lg ex (setup r).n r.lam (setup r).lw (setup r).cw (setup r).ld (setup r).cd
          ((Ser.mk r.dstart col).fromUntil (setup r).lo (setup r).hi))) = o
  cases o <;> rfl

/-- **Clipping is restriction of the unclipped result** (full form): the answer for any requested span is the answer
for the encompassing span itself (same problem: `setup_wide`, idempotence of `get_encompassing_span`), sliced to
`[span.min − lo : span.max − lo + 1]` and re-dated. Data outside the requested span are still used. -/
theorem model_clip_of_unclipped (lg ex : Rat → Rat) (r : Request) :
    dataHpf lg ex r =
      (dataHpf lg ex { r with span := some ((setup r).lo, (setup r).hi) }).map (fun R =>
        ⟨(setup r).slo,
          R.trend.map (fun a => a.extract ((setup r).slo - (setup r).lo).toNat ((setup r).shi - (setup r).lo + 1).toNat),
          R.gap.map (fun a => a.extract ((setup r).slo - (setup r).lo).toNat ((setup r).shi - (setup r).lo + 1).toNat)⟩) := by
  rw [model_span_only_clips lg ex r, model_span_only_clips lg ex { r with span := some ((setup r).lo, (setup r).hi) }]
  rw [setup_wide r]
  simp only [Option.map_map]
  obtain ⟨_, h2⟩ := setup_shi_le r
  have hn := setup_n r
  have hc1 : ((setup r).shi - (setup r).lo + 1).toNat ≤ ((setup r).hi - (setup r).lo + 1).toNat := by omega
  congr 1
  funext fs
  simp only [Function.comp, List.map_map]
  congr 1 <;>
  · apply List.map_congr_left
    intro f _
    simp only [Function.comp, Array.extract_extract]
    congr 1
    · omega
    · omega

/-- the right-hand side has zeros at the missing observations and the (logged) data elsewhere -/
theorem model_rhs_zero_at_missing (lg : Rat → Rat) (y : Array (Option Rat)) (ld cd : List Rat) (i : Nat) (hi : i < y.size) :
    (rhs lg y ld cd).getD i 0 = (match y.getD i none with | some v => lg v | none => 0) :=
  rhs_get_data lg y ld cd i hi

/-- **What the model returns solves the bordered system of Part A exactly.**  If `filterData` answers (its exact
re-check `F·x = rhs` succeeded), the returned trend together with suitable multipliers `μ` satisfies
`hpF (τ, μ) = (W y, (levels, changes))` over `ℚ` — the hypothesis of `hp_constraints_met`, `hp_optimal`, `hp_unique`. -/
theorem model_answer_solves_system (n : Nat) (lam : Rat) (lw cw : List Nat) (ld cd : List Rat)
    (y : Array (Option Rat)) (hy : y.size = n) (hld : ld.length = lw.length) (hcd : cd.length = cw.length)
    (hl : ∀ a, a < lw.length → lw.getD a 0 < n) (hc : ∀ a, a < cw.length → cw.getD a 0 < n)
    (f : Filtered) (h : filterData id id n lam lw cw ld cd y = some f) :
    ∃ μ : Fin lw.length ⊕ Fin cw.length → ℚ,
      hpF (obsOf n y) lam (posF n lw hl) (posF n cw hc) *ᵥ Sum.elim (fun t : Fin n => f.trend.getD t.val 0) μ
        = Sum.elim (hpRhs (obsOf n y) (fun t => (y.getD t.val none).getD 0))
            (Sum.elim (fun a => ld.getD a.val 0) (fun a => cd.getD a.val 0)) := by
  obtain ⟨x, hsol, ht, _⟩ := filterData_spec id id n lam lw cw ld cd y f h
  have heq := solveChecked_spec _ _ _ hsol
  obtain ⟨hxr, hxc⟩ := solveChecked_dims _ _ _ hsol
  have hFr := sysMatrix_rows n lam lw cw y
  have hFc := sysMatrix_cols n lam lw cw y
  have hbs : (rhs id y ld cd).size = n + lw.length + cw.length := by rw [rhs_size, hy, hld, hcd]
  -- every row of the exact re-check, as a finite sum
  have hrow : ∀ i, i < n + lw.length + cw.length →
      ∑ k ∈ Finset.range (n + lw.length + cw.length), (sysMatrix n lam lw cw y).get i k * x.get k 0
        = (rhs id y ld cd).getD i 0 := by
    intro i hi
    have h1 := eqv_get _ _ heq i 0 (by rw [mul_rows, hFr]; exact hi) (by rw [mul_cols, hxc, col_cols]; exact Nat.one_pos)
    rw [get_mul _ _ i 0 (by rw [hFr]; exact hi) (by rw [hxc, col_cols]; exact Nat.one_pos), hFc,
      get_col _ _ (by rw [hbs]; exact hi)] at h1
    exact h1
  refine ⟨fun q => x.get (emb n lw.length (Sum.inr q)) 0, ?_⟩
  have hv : ∀ c : Fin n ⊕ (Fin lw.length ⊕ Fin cw.length),
      Sum.elim (fun t : Fin n => f.trend.getD t.val 0) (fun q => x.get (emb n lw.length (Sum.inr q)) 0) c
        = x.get (emb n lw.length c) 0 := by
    intro c
    rcases c with t | q
    · have htn := t.isLt
      simp only [Sum.elim_inl, emb]
      rw [ht]
      have : ((Array.range n).map (fun i => x.toVec.getD i 0)).map id = (Array.range n).map (fun i => x.toVec.getD i 0) := by
        simp
      rw [this]
      have : ((Array.range n).map (fun i => x.toVec.getD i 0)).getD t.val 0 = x.toVec.getD t.val 0 := by
        simp [htn]
      rw [this, toVec_getD x t.val (by rw [hxr, hFr]; omega)]
    · simp only [Sum.elim_inr]
  funext r
  have hb : emb n lw.length r < n + lw.length + cw.length := by
    rcases r with t | a | a
    · have := t.isLt; simp only [emb]; omega
    · have := a.isLt; simp only [emb]; omega
    · have := a.isLt; simp only [emb]; omega
  have hL : (hpF (obsOf n y) lam (posF n lw hl) (posF n cw hc) *ᵥ
      Sum.elim (fun t : Fin n => f.trend.getD t.val 0) (fun q => x.get (emb n lw.length (Sum.inr q)) 0)) r
        = (rhs id y ld cd).getD (emb n lw.length r) 0 := by
    unfold Matrix.mulVec dotProduct
    rw [← hrow _ hb, sum_emb n lw.length cw.length (fun k => (sysMatrix n lam lw cw y).get (emb n lw.length r) k * x.get k 0)]
    refine Finset.sum_congr rfl (fun c _ => ?_)
    rw [hv c, model_sysMatrix_eq_hpF n lam lw cw y hl hc r c]
  rw [hL]
  rcases r with t | a | a
  · have htn := t.isLt
    simp only [emb, Sum.elim_inl]
    rw [rhs_get_data id y ld cd t.val (by omega)]
    unfold hpRhs obsOf
    dsimp only
    rcases y.getD t.val none with _ | v <;> simp
  · simp only [emb, Sum.elim_inr, Sum.elim_inl]
    have := rhs_get_level id y ld cd a.val (by rw [hld]; exact a.isLt)
    rw [hy] at this
    rw [this]; rfl
  · simp only [emb, Sum.elim_inr]
    have := rhs_get_change id y ld cd a.val (by rw [hcd]; exact a.isLt)
    rw [hy, hld] at this
    rw [this]; rfl

/-- **End-to-end on the model** (`λ > 0`, two observations): the trend returned by the executable model meets every
constraint exactly and is the unique minimiser of the Hodrick-Prescott objective among the sequences that meet them. -/
theorem model_trend_is_the_minimiser (n : Nat) (lam : Rat) (hlam : 0 < lam) (lw cw : List Nat) (ld cd : List Rat)
    (y : Array (Option Rat)) (hy : y.size = n) (hld : ld.length = lw.length) (hcd : cd.length = cw.length)
    (hl : ∀ a, a < lw.length → lw.getD a 0 < n) (hc : ∀ a, a < cw.length → cw.getD a 0 < n)
    (hc0 : ∀ a, a < cw.length → 0 < cw.getD a 0)
    (f : Filtered) (h : filterData id id n lam lw cw ld cd y = some f) :
    let τ : Fin n → ℚ := fun t => f.trend.getD t.val 0
    let obs := obsOf n y
    let yv : Fin n → ℚ := fun t => (y.getD t.val none).getD 0
    let feasible : (Fin n → ℚ) → Prop := fun σ =>
      (∀ a : Fin lw.length, σ (posF n lw hl a) = ld.getD a.val 0) ∧
      (∀ a : Fin cw.length, σ (posF n cw hc a) - σ (pred (posF n cw hc a)) = cd.getD a.val 0)
    feasible τ ∧ (∀ σ, feasible σ → hpObj obs yv lam τ ≤ hpObj obs yv lam σ) ∧
      (∀ s t : Fin n, s ≠ t → obs s = true → obs t = true →
        ∀ σ, feasible σ → hpObj obs yv lam σ ≤ hpObj obs yv lam τ → σ = τ) := by
  intro τ obs yv feasible
  obtain ⟨μ, hsys⟩ := model_answer_solves_system n lam lw cw ld cd y hy hld hcd hl hc f h
  have hcw : ∀ i : Fin cw.length, 0 < (posF n cw hc i).val := fun i => hc0 i.val i.isLt
  refine ⟨hp_constraints_met obs yv lam _ _ hcw _ _ τ μ hsys, ?_, ?_⟩
  · intro σ hσ
    exact hp_optimal obs yv lam hlam.le _ _ hcw _ _ τ μ hsys σ hσ.1 hσ.2
  · intro s t hst hs ht σ hσ hle
    exact hp_unique obs yv lam hlam s t hst hs ht _ _ hcw _ _ τ μ hsys σ hσ.1 hσ.2 hle

/-- **Existence on the model's own matrix.**  For `λ > 0`, two observed positions and independent constraints (distinct
level positions, distinct change positions `≥ 1`, no level–changes–level cycle) the matrix the executable model builds
(`sysMatrix`, indexed through `emb`) is non-singular over `ℚ`: an exact rational solution of the model's system exists and
is unique.  What is *not* proved is that `QMat.solve` (Gauss–Jordan with the first non-zero pivot) finds it, i.e. the
completeness of `solve` on non-singular input; `solveChecked = none` is therefore proved impossible only modulo that. -/
theorem model_sysMatrix_nonsingular (n : Nat) (lam : Rat) (hlam : 0 < lam) (lw cw : List Nat) (y : Array (Option Rat))
    (hl : ∀ a, a < lw.length → lw.getD a 0 < n) (hc : ∀ a, a < cw.length → cw.getD a 0 < n)
    (hc0 : ∀ a, a < cw.length → 0 < cw.getD a 0)
    (s t : Fin n) (hst : s ≠ t) (hs : obsOf n y s = true) (ht : obsOf n y t = true)
    (hlinj : Function.Injective (posF n lw hl)) (hcinj : Function.Injective (posF n cw hc))
    (hnc : ∀ i i', (posF n lw hl i).val < (posF n lw hl i').val →
      ∃ j, (posF n lw hl i).val < j ∧ j ≤ (posF n lw hl i').val ∧ ∀ k, (posF n cw hc k).val ≠ j) :
    IsUnit (Matrix.of (fun r c : Fin n ⊕ (Fin lw.length ⊕ Fin cw.length) =>
      (sysMatrix n lam lw cw y).get (emb n lw.length r) (emb n lw.length c))).det := by
  have e : Matrix.of (fun r c : Fin n ⊕ (Fin lw.length ⊕ Fin cw.length) =>
      (sysMatrix n lam lw cw y).get (emb n lw.length r) (emb n lw.length c))
        = hpF (K := ℚ) (obsOf n y) lam (posF n lw hl) (posF n cw hc) := by
    ext r c
    exact model_sysMatrix_eq_hpF n lam lw cw y hl hc r c
  rw [e]
  exact hp_bordered_nonsingular (obsOf n y) lam hlam s t hst hs ht _ _
    (hp_independent_constraints _ _ hlinj hcinj (fun k => hc0 k.val k.isLt) hnc)

/-- non-vacuity of Part B: the model solves a concrete instance with a missing observation, a level and a change
constraint (checked by evaluation), and its answer satisfies the constraints -/
example : (filterData id id 4 1 [3] [1] [7] [2] #[some 0, some 1, none, some 9]).map (·.trend)
    = some #[(-4 : Rat) / 11, 18 / 11, 46 / 11, 7] := by decide +kernel

end Model

/-! ## Part C — the l1 trend filter (`lonf`) -/

section L1

variable {m q : Type} [Fintype m] [Fintype q]

/-- `½‖y − τ‖² + λ‖Dτ‖₁` -/
def l1Obj (D : Matrix q m K) (lam : K) (y τ : m → K) : K :=
  (1 / 2) * ((y - τ) ⬝ᵥ (y - τ)) + lam * ∑ i, |(D *ᵥ τ) i|

/-- duality gap of a dual point `ν` (with `τ = y − Dᵀν`): `Σ_i (λ |(Dτ)_i| − ν_i (Dτ)_i)` -/
def l1Gap (D : Matrix q m K) (lam : K) (τ : m → K) (ν : q → K) : K :=
  ∑ i, (lam * |(D *ᵥ τ) i| - ν i * (D *ᵥ τ) i)

/-- **Duality-gap bound** (what the certificate evaluates): for *any* `ν` in the box `|ν_i| ≤ λ`, the primal point
`τ = y − Dᵀν` is within `l1Gap` of the optimum; more precisely every `τ'` satisfies
`l1Obj τ' ≥ l1Obj τ + ½‖τ' − τ‖² − l1Gap`. -/
theorem l1_gap_bound (D : Matrix q m K) (lam : K) (y : m → K) (ν : q → K) (hbox : ∀ i, |ν i| ≤ lam)
    (τ : m → K) (hτ : τ = y - Dᵀ *ᵥ ν) (τ' : m → K) :
    l1Obj D lam y τ + (1 / 2) * ((τ' - τ) ⬝ᵥ (τ' - τ)) - l1Gap D lam τ ν ≤ l1Obj D lam y τ' := by
  set g := Dᵀ *ᵥ ν with hg
  set h := τ' - τ with hh
  have e1 : y - τ = g := by rw [hτ]; abel
  have e2 : y - τ' = g - h := by rw [hh, hτ]; abel
  -- λ|z'_i| ≥ ν_i z'_i
  have hz' : ν ⬝ᵥ (D *ᵥ τ') ≤ lam * ∑ i, |(D *ᵥ τ') i| := by
    unfold dotProduct
    rw [Finset.mul_sum]
    refine Finset.sum_le_sum (fun i _ => ?_)
    calc ν i * (D *ᵥ τ') i ≤ |ν i * (D *ᵥ τ') i| := le_abs_self _
      _ = |ν i| * |(D *ᵥ τ') i| := abs_mul _ _
      _ ≤ lam * |(D *ᵥ τ') i| := mul_le_mul_of_nonneg_right (hbox i) (abs_nonneg _)
  -- ν·Dτ' = ν·Dτ + g·h
  have e3 : ν ⬝ᵥ (D *ᵥ τ') = ν ⬝ᵥ (D *ᵥ τ) + g ⬝ᵥ h := by
    have : τ' = τ + h := by rw [hh]; abel
    rw [this, Matrix.mulVec_add, dotProduct_add]
    congr 1
    rw [hg, Matrix.mulVec_transpose, Matrix.dotProduct_mulVec]
  have e4 : l1Gap D lam τ ν = lam * ∑ i, |(D *ᵥ τ) i| - ν ⬝ᵥ (D *ᵥ τ) := by
    unfold l1Gap dotProduct
    rw [Finset.sum_sub_distrib, Finset.mul_sum]
  have e5 : (g - h) ⬝ᵥ (g - h) = g ⬝ᵥ g - 2 * (g ⬝ᵥ h) + h ⬝ᵥ h := by
    simp only [sub_dotProduct, dotProduct_sub]
    rw [dotProduct_comm h g]; ring
  unfold l1Obj
  rw [e1, e2, e4, e5]
  linarith

/-- complementarity in the form the property states it: `ν_i = λ` where `(Dτ)_i > 0`, `ν_i = −λ` where
`(Dτ)_i < 0` — then the duality gap vanishes -/
theorem l1_gap_zero_of_kkt (D : Matrix q m K) (lam : K) (τ : m → K) (ν : q → K)
    (hpos : ∀ i, 0 < (D *ᵥ τ) i → ν i = lam) (hneg : ∀ i, (D *ᵥ τ) i < 0 → ν i = -lam) :
    l1Gap D lam τ ν = 0 := by
  unfold l1Gap
  refine Finset.sum_eq_zero (fun i _ => ?_)
  rcases lt_trichotomy ((D *ᵥ τ) i) 0 with h | h | h
  · rw [hneg i h, abs_of_neg h]; ring
  · rw [h]; simp
  · rw [hpos i h, abs_of_pos h]; ring

/-- **KKT ⇒ optimal** for the l1 trend filter of any order (any `D`): if `τ = y − Dᵀν`, `|ν_i| ≤ λ` and
`ν_i = ±λ` where `(Dτ)_i ≷ 0`, then `τ` minimises `½‖y − τ‖² + λ‖Dτ‖₁`, and every other point is worse by at
least `½‖τ' − τ‖²` (so the minimiser is unique). -/
theorem l1_kkt_optimal (D : Matrix q m K) (lam : K) (y : m → K) (ν : q → K) (hbox : ∀ i, |ν i| ≤ lam)
    (τ : m → K) (hτ : τ = y - Dᵀ *ᵥ ν)
    (hpos : ∀ i, 0 < (D *ᵥ τ) i → ν i = lam) (hneg : ∀ i, (D *ᵥ τ) i < 0 → ν i = -lam) (τ' : m → K) :
    l1Obj D lam y τ + (1 / 2) * ((τ' - τ) ⬝ᵥ (τ' - τ)) ≤ l1Obj D lam y τ' := by
  have := l1_gap_bound D lam y ν hbox τ hτ τ'
  rw [l1_gap_zero_of_kkt D lam τ ν hpos hneg] at this
  linarith

theorem l1_kkt_min (D : Matrix q m K) (lam : K) (y : m → K) (ν : q → K) (hbox : ∀ i, |ν i| ≤ lam)
    (τ : m → K) (hτ : τ = y - Dᵀ *ᵥ ν)
    (hpos : ∀ i, 0 < (D *ᵥ τ) i → ν i = lam) (hneg : ∀ i, (D *ᵥ τ) i < 0 → ν i = -lam) (τ' : m → K) :
    l1Obj D lam y τ ≤ l1Obj D lam y τ' := by
  have := l1_kkt_optimal D lam y ν hbox τ hτ hpos hneg τ'
  have h2 : 0 ≤ (1 / 2 : K) * ((τ' - τ) ⬝ᵥ (τ' - τ)) := mul_nonneg (by norm_num) (dot_self_nonneg _)
  linarith

theorem l1_kkt_unique (D : Matrix q m K) (lam : K) (y : m → K) (ν : q → K) (hbox : ∀ i, |ν i| ≤ lam)
    (τ : m → K) (hτ : τ = y - Dᵀ *ᵥ ν)
    (hpos : ∀ i, 0 < (D *ᵥ τ) i → ν i = lam) (hneg : ∀ i, (D *ᵥ τ) i < 0 → ν i = -lam) (τ' : m → K)
    (hle : l1Obj D lam y τ' ≤ l1Obj D lam y τ) : τ' = τ := by
  have := l1_kkt_optimal D lam y ν hbox τ hτ hpos hneg τ'
  have h0 : (τ' - τ) ⬝ᵥ (τ' - τ) = 0 := by
    have h2 : 0 ≤ (τ' - τ) ⬝ᵥ (τ' - τ) := dot_self_nonneg _
    linarith
  exact sub_eq_zero.1 (dot_self_eq_zero h0)

/-- data with `D y = 0` (affine for order 2, constant for order 1) are returned unchanged: `ν = 0` is a certificate -/
theorem l1_kernel_fixed (D : Matrix q m K) (lam : K) (hlam : 0 ≤ lam) (y : m → K) (hy : D *ᵥ y = 0) (τ' : m → K) :
    l1Obj D lam y y ≤ l1Obj D lam y τ' := by
  refine l1_kkt_min D lam y 0 (fun i => by simpa using hlam) y (by simp) ?_ ?_ τ'
  · intro i h; rw [hy] at h; exact absurd h (lt_irrefl _)
  · intro i h; rw [hy] at h; exact absurd h (lt_irrefl _)

/-! ### lonf's own difference matrices -/

section LonfModel
open IrisVerif.HP IrisVerif.HPModel

/-- **lonf's matrices, entry formulas by proof**: the model's (= the code's, `dmat` stream) first-order matrix … -/
theorem model_lonfD1_get (n i j : Nat) (hi : i < n - 1) (hj : j < n) :
    (lonfD 1 n).get i j = (Dmat1 n : Matrix _ _ ℚ) ⟨i, hi⟩ ⟨j, hj⟩ := by
  unfold lonfD Dmat1 d1EntryK
  simp only [if_true]
  rw [get_ofFn _ _ _ _ _ hi hj]

/-- … and second-order matrix (the Hodrick-Prescott `K`). -/
theorem model_lonfD2_get (n i j : Nat) (hi : i < n - 2) (hj : j < n) :
    (lonfD 2 n).get i j = (Kmat n : Matrix _ _ ℚ) ⟨i, hi⟩ ⟨j, hj⟩ := by
  unfold lonfD
  simp only [show ¬ (2 = 1) by decide, if_false]
  exact hpK_get n i j hi hj

/-- the l1 objective of order 1 in sum form: `½ Σ (y−τ)² + λ Σ |τ_i − τ_{i+1}|` -/
def lonfObj1 {n : Nat} (lam : K) (y τ : Fin n → K) : K :=
  (1 / 2) * (∑ t, (y t - τ t) ^ 2) + lam * ∑ i : Fin (n - 1), |τ (q0 i) - τ (q1 i)|

/-- the l1 objective of order 2 in sum form: `½ Σ (y−τ)² + λ Σ |τ_i − 2τ_{i+1} + τ_{i+2}|` -/
def lonfObj2 {n : Nat} (lam : K) (y τ : Fin n → K) : K :=
  (1 / 2) * (∑ t, (y t - τ t) ^ 2) + lam * ∑ i : Fin (n - 2), |τ (p0 i) - 2 * τ (p1 i) + τ (p2 i)|

omit [IsStrictOrderedRing K] in
theorem lonfObj1_eq {n : Nat} (lam : K) (y τ : Fin n → K) : lonfObj1 lam y τ = l1Obj (Dmat1 n) lam y τ := by
  unfold lonfObj1 l1Obj
  congr 2
  · unfold dotProduct
    refine Finset.sum_congr rfl (fun t _ => ?_)
    simp only [Pi.sub_apply]; ring
  · refine Finset.sum_congr rfl (fun i _ => ?_)
    rw [Dmat1_mulVec]

omit [IsStrictOrderedRing K] in
theorem lonfObj2_eq {n : Nat} (lam : K) (y τ : Fin n → K) : lonfObj2 lam y τ = l1Obj (Kmat n) lam y τ := by
  unfold lonfObj2 l1Obj
  congr 2
  · unfold dotProduct
    refine Finset.sum_congr rfl (fun t _ => ?_)
    simp only [Pi.sub_apply]; ring
  · refine Finset.sum_congr rfl (fun i _ => ?_)
    rw [Kmat_mulVec]

/-- **`l1_kkt_optimal` on lonf's own first-order matrix**, objective in sum form -/
theorem lonf_order1_kkt_optimal {n : Nat} (lam : K) (y : Fin n → K) (ν : Fin (n - 1) → K) (hbox : ∀ i, |ν i| ≤ lam)
    (τ : Fin n → K) (hτ : τ = y - (Dmat1 n)ᵀ *ᵥ ν)
    (hpos : ∀ i, 0 < τ (q0 i) - τ (q1 i) → ν i = lam) (hneg : ∀ i, τ (q0 i) - τ (q1 i) < 0 → ν i = -lam)
    (τ' : Fin n → K) :
    lonfObj1 lam y τ + (1 / 2) * (∑ t, (τ' t - τ t) ^ 2) ≤ lonfObj1 lam y τ' := by
  have := l1_kkt_optimal (Dmat1 n) lam y ν hbox τ hτ
    (fun i h => hpos i (by rwa [Dmat1_mulVec] at h)) (fun i h => hneg i (by rwa [Dmat1_mulVec] at h)) τ'
  rw [lonfObj1_eq, lonfObj1_eq]
  have e : (τ' - τ) ⬝ᵥ (τ' - τ) = ∑ t, (τ' t - τ t) ^ 2 := by
    unfold dotProduct
    refine Finset.sum_congr rfl (fun t _ => ?_)
    simp only [Pi.sub_apply]; ring
  rw [← e]; exact this

/-- **`l1_kkt_optimal` on lonf's own second-order matrix**, objective in sum form -/
theorem lonf_order2_kkt_optimal {n : Nat} (lam : K) (y : Fin n → K) (ν : Fin (n - 2) → K) (hbox : ∀ i, |ν i| ≤ lam)
    (τ : Fin n → K) (hτ : τ = y - (Kmat n)ᵀ *ᵥ ν)
    (hpos : ∀ i, 0 < τ (p0 i) - 2 * τ (p1 i) + τ (p2 i) → ν i = lam)
    (hneg : ∀ i, τ (p0 i) - 2 * τ (p1 i) + τ (p2 i) < 0 → ν i = -lam)
    (τ' : Fin n → K) :
    lonfObj2 lam y τ + (1 / 2) * (∑ t, (τ' t - τ t) ^ 2) ≤ lonfObj2 lam y τ' := by
  have := l1_kkt_optimal (Kmat n) lam y ν hbox τ hτ
    (fun i h => hpos i (by rwa [Kmat_mulVec] at h)) (fun i h => hneg i (by rwa [Kmat_mulVec] at h)) τ'
  rw [lonfObj2_eq, lonfObj2_eq]
  have e : (τ' - τ) ⬝ᵥ (τ' - τ) = ∑ t, (τ' t - τ t) ^ 2 := by
    unfold dotProduct
    refine Finset.sum_congr rfl (fun t _ => ?_)
    simp only [Pi.sub_apply]; ring
  rw [← e]; exact this
end LonfModel

/-! ### missing observations in the l1 filter: fidelity weights `w` (`1` observed, `0` missing) -/

/-- `½ Σ wᵢ (yᵢ − τᵢ)² + λ‖Dτ‖₁` -/
def l1ObjW (D : Matrix q m K) (lam : K) (w y τ : m → K) : K :=
  (1 / 2) * (∑ t, w t * (y t - τ t) ^ 2) + lam * ∑ i, |(D *ᵥ τ) i|

/-- **Duality-gap bound with missing observations**: if `|ν_i| ≤ λ` and `w_t (y_t − τ_t) = (Dᵀν)_t` for every `t`
(so `Dᵀν` is the gap at the observed periods and vanishes at the missing ones), every `τ'` satisfies
`l1ObjW τ' ≥ l1ObjW τ + ½ Σ w (τ' − τ)² − l1Gap`. -/
theorem l1w_gap_bound (D : Matrix q m K) (lam : K) (w y : m → K) (ν : q → K) (hbox : ∀ i, |ν i| ≤ lam)
    (τ : m → K) (hτ : ∀ t, w t * (y t - τ t) = (Dᵀ *ᵥ ν) t) (τ' : m → K) :
    l1ObjW D lam w y τ + (1 / 2) * (∑ t, w t * (τ' t - τ t) ^ 2) - l1Gap D lam τ ν ≤ l1ObjW D lam w y τ' := by
  set g := Dᵀ *ᵥ ν with hg
  set h := τ' - τ with hh
  have hz' : ν ⬝ᵥ (D *ᵥ τ') ≤ lam * ∑ i, |(D *ᵥ τ') i| := by
    unfold dotProduct
    rw [Finset.mul_sum]
    refine Finset.sum_le_sum (fun i _ => ?_)
    calc ν i * (D *ᵥ τ') i ≤ |ν i * (D *ᵥ τ') i| := le_abs_self _
      _ = |ν i| * |(D *ᵥ τ') i| := abs_mul _ _
      _ ≤ lam * |(D *ᵥ τ') i| := mul_le_mul_of_nonneg_right (hbox i) (abs_nonneg _)
  have e3 : ν ⬝ᵥ (D *ᵥ τ') = ν ⬝ᵥ (D *ᵥ τ) + g ⬝ᵥ h := by
    have : τ' = τ + h := by rw [hh]; abel
    rw [this, Matrix.mulVec_add, dotProduct_add]
    congr 1
    rw [hg, Matrix.mulVec_transpose, Matrix.dotProduct_mulVec]
  have e4 : l1Gap D lam τ ν = lam * ∑ i, |(D *ᵥ τ) i| - ν ⬝ᵥ (D *ᵥ τ) := by
    unfold l1Gap dotProduct
    rw [Finset.sum_sub_distrib, Finset.mul_sum]
  have e5 : ∑ t, w t * (y t - τ' t) ^ 2
      = ∑ t, w t * (y t - τ t) ^ 2 - 2 * (g ⬝ᵥ h) + ∑ t, w t * (τ' t - τ t) ^ 2 := by
    unfold dotProduct
    rw [Finset.mul_sum, ← Finset.sum_sub_distrib, ← Finset.sum_add_distrib]
    refine Finset.sum_congr rfl (fun t _ => ?_)
    rw [← hτ t, hh]
    simp only [Pi.sub_apply]
    ring
  unfold l1ObjW
  rw [e4, e5]
  linarith

/-- **KKT ⇒ optimal, with missing observations** (weights `w ≥ 0`): the conditions `|ν| ≤ λ`, `w(y − τ) = Dᵀν`,
`ν_i = ±λ` where `(Dτ)_i ≷ 0` imply that `τ` minimises `½ Σ_obs (y − τ)² + λ‖Dτ‖₁`.  (The minimiser need not be
unique at the missing periods; the margin `½ Σ w (τ' − τ)²` pins it at the observed ones.) -/
theorem l1w_kkt_min (D : Matrix q m K) (lam : K) (w y : m → K) (hw : ∀ t, 0 ≤ w t) (ν : q → K)
    (hbox : ∀ i, |ν i| ≤ lam) (τ : m → K) (hτ : ∀ t, w t * (y t - τ t) = (Dᵀ *ᵥ ν) t)
    (hpos : ∀ i, 0 < (D *ᵥ τ) i → ν i = lam) (hneg : ∀ i, (D *ᵥ τ) i < 0 → ν i = -lam) (τ' : m → K) :
    l1ObjW D lam w y τ ≤ l1ObjW D lam w y τ' := by
  have := l1w_gap_bound D lam w y ν hbox τ hτ τ'
  rw [l1_gap_zero_of_kkt D lam τ ν hpos hneg] at this
  have h2 : 0 ≤ (1 / 2 : K) * ∑ t, w t * (τ' t - τ t) ^ 2 :=
    mul_nonneg (by norm_num) (Finset.sum_nonneg (fun t _ => mul_nonneg (hw t) (sq_nonneg _)))
  linarith

/-- non-vacuity of the hypotheses of `l1w_gap_bound` / `l1w_kkt_min`: order 1, `y = (0, –, 4)` with the middle observation
missing, `λ = 1`: `ν = (−1, −1)`, `τ = (1, 2, 3)` -/
example :
    let D : Matrix (Fin 2) (Fin 3) ℚ := Matrix.of ![![1, -1, 0], ![0, 1, -1]]
    let w : Fin 3 → ℚ := ![1, 0, 1]
    let y : Fin 3 → ℚ := ![0, 100, 4]
    let ν : Fin 2 → ℚ := ![-1, -1]
    let τ : Fin 3 → ℚ := ![1, 2, 3]
    (∀ t, 0 ≤ w t) ∧ (∀ i, |ν i| ≤ 1) ∧ (∀ t, w t * (y t - τ t) = (Dᵀ *ᵥ ν) t) ∧
      (∀ i, 0 < (D *ᵥ τ) i → ν i = 1) ∧ (∀ i, (D *ᵥ τ) i < 0 → ν i = -1) := by
  intro D w y ν τ
  refine ⟨?_, ?_, ?_, ?_, ?_⟩
  · intro t; fin_cases t <;> simp [w]
  · intro i; fin_cases i <;> simp [ν]
  · intro t; fin_cases t <;> simp [w, y, τ, D, ν, Matrix.mulVec, dotProduct, Fin.sum_univ_succ] <;> norm_num
  · intro i; fin_cases i <;> simp [τ, D, ν, Matrix.mulVec, dotProduct, Fin.sum_univ_succ] <;> norm_num
  · intro i; fin_cases i <;> simp [τ, D, ν, Matrix.mulVec, dotProduct, Fin.sum_univ_succ]

/-- non-vacuity of `lonf_order1_kkt_optimal` on lonf's own matrix: `n = 2`, `y = (0, 4)`, `λ = 1`, `ν = −1`, `τ = (1, 3)` -/
example :
    let y : Fin 2 → ℚ := ![0, 4]
    let ν : Fin (2 - 1) → ℚ := fun _ => -1
    let τ : Fin 2 → ℚ := ![1, 3]
    (∀ i, |ν i| ≤ 1) ∧ τ = y - (Dmat1 2)ᵀ *ᵥ ν ∧ (∀ i, 0 < τ (q0 i) - τ (q1 i) → ν i = 1) ∧
      (∀ i, τ (q0 i) - τ (q1 i) < 0 → ν i = -1) := by
  intro y ν τ
  have s1 : ∀ f : Fin (2 - 1) → ℚ, ∑ i, f i = f ⟨0, by omega⟩ := fun f => Fin.sum_univ_one f
  refine ⟨fun i => by simp [ν], ?_, ?_, fun i _ => rfl⟩
  · funext t
    fin_cases t <;> simp [τ, y, ν, Matrix.mulVec, dotProduct, s1, Dmat1, d1EntryK] <;> norm_num
  · intro i h
    exfalso
    have hi : i = ⟨0, by omega⟩ := Fin.ext (by have := i.isLt; omega)
    subst hi
    simp [τ, q0, q1] at h
/-- non-vacuity of the KKT hypotheses: order-1 filter of `y = (0, 4)` with `λ = 1`: `ν = 1·sign`, `τ = (1, 3)` -/
example :
    let D : Matrix (Fin 1) (Fin 2) ℚ := Matrix.of ![![1, -1]]
    let y : Fin 2 → ℚ := ![0, 4]
    let ν : Fin 1 → ℚ := ![-1]
    let τ : Fin 2 → ℚ := ![1, 3]
    (∀ i, |ν i| ≤ 1) ∧ τ = y - Dᵀ *ᵥ ν ∧ (∀ i, 0 < (D *ᵥ τ) i → ν i = 1) ∧ (∀ i, (D *ᵥ τ) i < 0 → ν i = -1) := by
  intro D y ν τ
  refine ⟨?_, ?_, ?_, ?_⟩
  · intro i; fin_cases i; simp [ν]
  · funext i; fin_cases i <;> simp [τ, y, D, ν, Matrix.mulVec, dotProduct] <;> norm_num
  · intro i; fin_cases i; simp [τ, D, ν, Matrix.mulVec, dotProduct]
  · intro i; fin_cases i; simp [τ, D, ν, Matrix.mulVec, dotProduct]

end L1

end IrisVerif.C14
