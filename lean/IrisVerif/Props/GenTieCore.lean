/-
Lemmas about the numpy-flavoured helpers of `Model/QMatNp.lean` (entry formulas, dimensions, Python slice bounds on
natural-number arguments), shared by the `Props/GenTieCxx.lean` files, which prove that the hand-written executable
models equal the definitions that `tools/gens/npmat*.py` regenerate from /repo's numpy source on every run.
-/
import IrisVerif.Lemmas.QMatRefines
import IrisVerif.Model.QMatNp

namespace IrisVerif.GenTie

open IrisVerif IrisVerif.QMat

/-! ## `ofFn` extensionality -/

theorem ofFn_congr (r c : Nat) (f g : Nat → Nat → Rat) (h : ∀ i j, i < r → j < c → f i j = g i j) :
    QMat.ofFn r c f = QMat.ofFn r c g := by
  unfold QMat.ofFn
  congr 1
  apply Array.ext
  · simp
  · intro i hi1 hi2
    simp only [Array.size_map, Array.size_range] at hi1
    apply Array.ext
    · simp
    · intro j hj1 hj2
      simp only [Array.getElem_map, Array.size_map, Array.size_range, Array.getElem_range] at hj1 ⊢
      exact h i j hi1 hj1

theorem ofFn_congr' {r r' c c' : Nat} (f g : Nat → Nat → Rat) (hr : r = r') (hc : c = c')
    (h : ∀ i j, i < r → j < c → f i j = g i j) : QMat.ofFn r c f = QMat.ofFn r' c' g := by
  subst hr; subst hc; exact ofFn_congr r c f g h

/-- a matrix built by `ofFn` from the entries of a well-shaped matrix of the same dimensions is that matrix -/
theorem ofFn_get (a : QMat) (hw : a.wellShaped = true) {r c : Nat} (hr : a.rows = r) (hc : a.cols = c) :
    QMat.ofFn r c a.get = a := by
  subst hr; subst hc; exact (eq_ofFn_of_wellShaped a hw).symm

/-! ## Python slice bounds on natural numbers -/

open QMatNp

@[simp] theorem sliceIdx_natCast (n k : Nat) : sliceIdx n (k : Int) = min k n := by
  unfold sliceIdx
  have : ¬ ((k : Int) < 0) := by omega
  simp [this]

theorem sliceIdx_neg (n k : Nat) (hk : 0 < k) : sliceIdx n (-(k : Int)) = n - k := by
  unfold sliceIdx
  have : (-(k : Int) < 0) := by omega
  simp only [this, if_true]
  omega

@[simp] theorem lo_none (n : Nat) : lo n none = 0 := rfl
@[simp] theorem hi_none (n : Nat) : hi n none = n := rfl
@[simp] theorem lo_some_nat (n k : Nat) : lo n (some (k : Int)) = min k n := sliceIdx_natCast n k
@[simp] theorem hi_some_nat (n k : Nat) : hi n (some (k : Int)) = min k n := sliceIdx_natCast n k

theorem sliceIdx_le (n : Nat) (k : Int) : sliceIdx n k ≤ n := by
  unfold sliceIdx
  split
  · omega
  · exact Nat.min_le_right _ _

/-! ## entry formulas and dimensions of the helpers -/

@[simp] theorem slice_rows (a : QMat) (r0 r1 c0 c1 : Option Int) :
    (slice a r0 r1 c0 c1).rows = hi a.rows r1 - lo a.rows r0 := rfl
@[simp] theorem slice_cols (a : QMat) (r0 r1 c0 c1 : Option Int) :
    (slice a r0 r1 c0 c1).cols = hi a.cols c1 - lo a.cols c0 := rfl
@[simp] theorem wellShaped_slice (a : QMat) (r0 r1 c0 c1 : Option Int) : (slice a r0 r1 c0 c1).wellShaped = true :=
  wellShaped_ofFn _ _ _

theorem get_slice (a : QMat) (r0 r1 c0 c1 : Option Int) (i j : Nat) :
    (slice a r0 r1 c0 c1).get i j =
      if i < hi a.rows r1 - lo a.rows r0 ∧ j < hi a.cols c1 - lo a.cols c0
      then a.get (lo a.rows r0 + i) (lo a.cols c0 + j) else 0 := by
  unfold slice; rw [get_block]

@[simp] theorem setSlice_rows (a : QMat) (r0 r1 c0 c1 : Option Int) (e : QMat) : (setSlice a r0 r1 c0 c1 e).rows = a.rows := rfl
@[simp] theorem setSlice_cols (a : QMat) (r0 r1 c0 c1 : Option Int) (e : QMat) : (setSlice a r0 r1 c0 c1 e).cols = a.cols := rfl
@[simp] theorem wellShaped_setSlice (a : QMat) (r0 r1 c0 c1 : Option Int) (e : QMat) :
    (setSlice a r0 r1 c0 c1 e).wellShaped = true := wellShaped_ofFn _ _ _

theorem get_setSlice (a : QMat) (r0 r1 c0 c1 : Option Int) (e : QMat) (i j : Nat) (hi' : i < a.rows) (hj : j < a.cols) :
    (setSlice a r0 r1 c0 c1 e).get i j =
      if lo a.rows r0 ≤ i ∧ i < hi a.rows r1 ∧ lo a.cols c0 ≤ j ∧ j < hi a.cols c1
      then e.get (i - lo a.rows r0) (j - lo a.cols c0) else a.get i j := by
  unfold setSlice; rw [get_ofFn_of_lt _ _ _ _ _ hi' hj]

@[simp] theorem fillSlice_rows (a : QMat) (r0 r1 c0 c1 : Option Int) (v : Rat) : (fillSlice a r0 r1 c0 c1 v).rows = a.rows := rfl
@[simp] theorem fillSlice_cols (a : QMat) (r0 r1 c0 c1 : Option Int) (v : Rat) : (fillSlice a r0 r1 c0 c1 v).cols = a.cols := rfl
@[simp] theorem wellShaped_fillSlice (a : QMat) (r0 r1 c0 c1 : Option Int) (v : Rat) :
    (fillSlice a r0 r1 c0 c1 v).wellShaped = true := wellShaped_ofFn _ _ _

theorem get_fillSlice (a : QMat) (r0 r1 c0 c1 : Option Int) (v : Rat) (i j : Nat) (hi' : i < a.rows) (hj : j < a.cols) :
    (fillSlice a r0 r1 c0 c1 v).get i j =
      if lo a.rows r0 ≤ i ∧ i < hi a.rows r1 ∧ lo a.cols c0 ≤ j ∧ j < hi a.cols c1 then v else a.get i j := by
  unfold fillSlice; rw [get_ofFn_of_lt _ _ _ _ _ hi' hj]

@[simp] theorem zeros_shape (a : QMat) : zeros (shape a) = QMat.zero a.rows a.cols := by
  unfold zeros shape; simp

@[simp] theorem zeros_natCast (m n : Nat) : zeros ((m : Int), (n : Int)) = QMat.zero m n := by
  unfold zeros; simp

@[simp] theorem shape_fst (a : QMat) : (shape a).1 = (a.rows : Int) := rfl
@[simp] theorem shape_snd (a : QMat) : (shape a).2 = (a.cols : Int) := rfl

@[simp] theorem eye_natCast (n : Nat) : eye (n : Int) = QMat.identity n := by
  unfold eye; simp

theorem range_natCast (n : Nat) : QMatNp.range (n : Int) = (List.range n).map Int.ofNat := by
  unfold QMatNp.range; simp

/-- a fold over Python's `range(n)` is a fold over `List.range n` -/
theorem foldl_range_natCast {β : Type} (n : Nat) (f : β → Int → β) (b : β) :
    (QMatNp.range (n : Int)).foldl f b = (List.range n).foldl (fun acc (i : Nat) => f acc (i : Int)) b := by
  rw [range_natCast, List.foldl_map]
  rfl

@[simp] theorem index?_natCast (n k : Nat) : index? n (k : Int) = if k < n then some k else none := by
  unfold index?
  have : ¬ ((k : Int) < 0) := by omega
  simp [this]

theorem listGet_natCast {α : Type} (xs : List α) (k : Nat) (d : α) : listGet xs (k : Int) d = xs.getD k d := by
  unfold listGet
  rw [index?_natCast]
  by_cases h : k < xs.length
  · simp only [h, if_true]
  · simp only [h, if_false]
    simp [List.getD_eq_getElem?_getD, List.getElem?_eq_none (Nat.le_of_not_lt h)]

theorem listSet_natCast {α : Type} (xs : List α) (k : Nat) (v : α) : listSet xs (k : Int) v = xs.set k v := by
  unfold listSet
  rw [index?_natCast]
  by_cases h : k < xs.length
  · simp only [h, if_true]
  · simp only [h, if_false]
    exact (List.set_eq_of_length_le (Nat.le_of_not_lt h)).symm

@[simp] theorem replicate_natCast {α : Type} (n : Nat) (v : α) : QMatNp.replicate (n : Int) v = List.replicate n v := by
  unfold QMatNp.replicate; simp

/-! ## the list-of-slots idiom -/

theorem foldl_set_chain_aux {α : Type} (k : Nat) (g : Nat → α) (F : Option α → α)
    (hF : ∀ i, F (some (g i)) = g (i + 1)) (m : Nat) (hm : m ≤ k) :
    let xs := (List.range m).foldl (fun (xs : List (Option α)) (i : Nat) => xs.set (i + 1) (some (F (xs.getD i none))))
      ((List.replicate (k + 1) none).set 0 (some (g 0)))
    xs.length = k + 1 ∧ ∀ j, j ≤ m → xs[j]? = some (some (g j)) := by
  induction m with
  | zero =>
    refine ⟨by simp, fun j hj => ?_⟩
    have : j = 0 := by omega
    subst this
    simp
  | succ m ih =>
    obtain ⟨hlen, hget⟩ := ih (by omega)
    simp only [List.range_succ, List.foldl_append, List.foldl_cons, List.foldl_nil]
    refine ⟨by rw [List.length_set]; exact hlen, fun j hj => ?_⟩
    rw [List.getElem?_set]
    by_cases hjm : m + 1 = j
    · subst hjm
      rw [if_pos rfl, if_pos (by omega)]
      rw [List.getD_eq_getElem?_getD, hget m (Nat.le_refl _), Option.getD_some, hF]
    · rw [if_neg hjm]
      exact hget j (by omega)

/-- the list idiom `xs = [None]*(k+1); xs[0] = g0; for i in range(k): xs[i+1] = F(xs[i])` builds `[g 0, …, g k]` -/
theorem foldl_set_chain {α : Type} (k : Nat) (g : Nat → α) (F : Option α → α)
    (hF : ∀ i, F (some (g i)) = g (i + 1)) :
    (List.range k).foldl (fun (xs : List (Option α)) (i : Nat) => xs.set (i + 1) (some (F (xs.getD i none))))
      ((List.replicate (k + 1) none).set 0 (some (g 0)))
      = (List.range (k + 1)).map (fun j => some (g j)) := by
  obtain ⟨hlen, hget⟩ := foldl_set_chain_aux k g F hF k (Nat.le_refl _)
  apply List.ext_getElem?
  intro j
  by_cases hj : j ≤ k
  · rw [hget j hj]
    simp [List.getElem?_map, List.getElem?_range (show j < k + 1 by omega)]
  · rw [List.getElem?_eq_none (by omega), List.getElem?_eq_none (by simp; omega)]

/-! ## element assignment and loops of element assignments -/

theorem setEntry_natCast (a : QMat) (p q : Nat) (v : Rat) (hp : p < a.rows) (hq : q < a.cols) :
    setEntry a (p : Int) (q : Int) v = QMat.ofFn a.rows a.cols (fun r c => if r = p ∧ c = q then v else a.get r c) := by
  unfold setEntry
  simp only [index?_natCast, hp, hq, if_true]

/-- `a` is the `R × C` matrix with entries `f` -/
structure Is (a : QMat) (R C : Nat) (f : Nat → Nat → Rat) : Prop where
  rows : a.rows = R
  cols : a.cols = C
  ws : a.wellShaped = true
  get : ∀ r c, r < R → c < C → a.get r c = f r c

theorem Is.eq_ofFn {a : QMat} {R C : Nat} {f : Nat → Nat → Rat} (h : Is a R C f) : a = QMat.ofFn R C f := by
  apply ext_of_get _ _ h.ws (wellShaped_ofFn _ _ _) h.rows h.cols
  intro i j hi hj
  rw [h.rows] at hi; rw [h.cols] at hj
  rw [h.get i j hi hj, get_ofFn_of_lt _ _ _ _ _ hi hj]

theorem Is.ofFn (R C : Nat) (f : Nat → Nat → Rat) : Is (QMat.ofFn R C f) R C f :=
  ⟨rfl, rfl, wellShaped_ofFn _ _ _, fun r c hr hc => get_ofFn_of_lt _ _ _ _ _ hr hc⟩

theorem Is.congr {a : QMat} {R C : Nat} {f g : Nat → Nat → Rat} (h : Is a R C f)
    (hfg : ∀ r c, r < R → c < C → f r c = g r c) : Is a R C g :=
  ⟨h.rows, h.cols, h.ws, fun r c hr hc => (h.get r c hr hc).trans (hfg r c hr hc)⟩

/-- `a[p, q] = v` with both indices in range -/
theorem Is.setEntry {a : QMat} {R C : Nat} {f : Nat → Nat → Rat} (h : Is a R C f) (p q : Nat) (v : Rat)
    (hp : p < R) (hq : q < C) :
    Is (QMatNp.setEntry a (p : Int) (q : Int) v) R C (fun r c => if r = p ∧ c = q then v else f r c) := by
  rw [setEntry_natCast a p q v (by rw [h.rows]; exact hp) (by rw [h.cols]; exact hq), h.rows, h.cols]
  refine ⟨rfl, rfl, wellShaped_ofFn _ _ _, fun r c hr hc => ?_⟩
  rw [get_ofFn_of_lt _ _ _ _ _ hr hc]
  split
  · rfl
  · exact h.get r c hr hc

/-- a loop `for i in range(m)` whose body rewrites row `i` only (entry by entry, as a function `h i c old`) -/
theorem Is.foldl_rows {R C : Nat} (step : QMat → Nat → QMat) (h : Nat → Nat → Rat → Rat)
    (hstep : ∀ (K : QMat) (f : Nat → Nat → Rat) (i : Nat), i < R → Is K R C f →
      Is (step K i) R C (fun r c => if r = i then h i c (f r c) else f r c))
    (K0 : QMat) (f0 : Nat → Nat → Rat) (h0 : Is K0 R C f0) (m : Nat) (hm : m ≤ R) :
    Is ((List.range m).foldl step K0) R C (fun r c => if r < m then h r c (f0 r c) else f0 r c) := by
  induction m with
  | zero => exact h0.congr (fun _ _ _ _ => by simp)
  | succ m ih =>
    rw [List.range_succ, List.foldl_append]
    simp only [List.foldl_cons, List.foldl_nil]
    refine (hstep _ _ m (by omega) (ih (by omega))).congr (fun r c _ _ => ?_)
    by_cases h1 : r = m
    · subst h1; simp
    · by_cases h2 : r < m
      · simp [h1, h2, Nat.lt_succ_of_lt h2]
      · have : ¬ r < m + 1 := by omega
        simp [h1, h2, this]

/-- the same for a loop whose body rewrites column `i` only -/
theorem Is.foldl_cols {R C : Nat} (step : QMat → Nat → QMat) (h : Nat → Nat → Rat → Rat)
    (hstep : ∀ (K : QMat) (f : Nat → Nat → Rat) (i : Nat), i < C → Is K R C f →
      Is (step K i) R C (fun r c => if c = i then h i r (f r c) else f r c))
    (K0 : QMat) (f0 : Nat → Nat → Rat) (h0 : Is K0 R C f0) (m : Nat) (hm : m ≤ C) :
    Is ((List.range m).foldl step K0) R C (fun r c => if c < m then h c r (f0 r c) else f0 r c) := by
  induction m with
  | zero => exact h0.congr (fun _ _ _ _ => by simp)
  | succ m ih =>
    rw [List.range_succ, List.foldl_append]
    simp only [List.foldl_cons, List.foldl_nil]
    refine (hstep _ _ m (by omega) (ih (by omega))).congr (fun r c _ _ => ?_)
    by_cases h1 : c = m
    · subst h1; simp
    · by_cases h2 : c < m
      · simp [h1, h2, Nat.lt_succ_of_lt h2]
      · have : ¬ c < m + 1 := by omega
        simp [h1, h2, this]


theorem range_sub (n k : Nat) : QMatNp.range ((n : Int) - (k : Int)) = (List.range (n - k)).map Int.ofNat := by
  unfold QMatNp.range
  have h1 : ((n : Int) - (k : Int)).toNat = n - k := by omega
  rw [h1]

theorem foldl_range_sub {β : Type} (n k : Nat) (f : β → Int → β) (b : β) :
    (QMatNp.range ((n : Int) - (k : Int))).foldl f b = (List.range (n - k)).foldl (fun acc (i : Nat) => f acc (i : Int)) b := by
  rw [range_sub, List.foldl_map]
  rfl

theorem zeros_sub_left (n k m : Nat) : zeros (((n : Int) - (k : Int)), (m : Int)) = QMat.zero (n - k) m := by
  unfold zeros
  have h1 : ((n : Int) - (k : Int)).toNat = n - k := by omega
  simp only [h1, Int.toNat_natCast]

theorem Is.zero (R C : Nat) : Is (QMat.zero R C) R C (fun _ _ => 0) := Is.ofFn R C _

/-! ## `enumerate`, loops over pairs of arrays -/

theorem enumerate_eq {α : Type} (xs : List α) (d : α) :
    QMatNp.enumerate xs = (List.range xs.length).map (fun (i : Nat) => ((i : Int), xs.getD i d)) := by
  unfold QMatNp.enumerate
  apply List.ext_getElem
  · simp
  · intro i h1 h2
    simp only [List.length_zip, List.length_map, List.length_range, Nat.min_self] at h1
    simp [List.getD_eq_getElem?_getD, List.getElem?_eq_getElem h1]

theorem foldl_enumerate {α β : Type} (xs : List α) (d : α) (F : β → Int × α → β) (b : β) :
    (QMatNp.enumerate xs).foldl F b = (List.range xs.length).foldl (fun acc (i : Nat) => F acc ((i : Int), xs.getD i d)) b := by
  rw [enumerate_eq xs d, List.foldl_map]

theorem foldl_pair {α β γ : Type} (xs : List γ) (f : α → γ → α) (g : β → γ → β) (a : α) (b : β) :
    xs.foldl (fun (st : α × β) x => (f st.1 x, g st.2 x)) (a, b) = (xs.foldl f a, xs.foldl g b) := by
  induction xs generalizing a b with
  | nil => rfl
  | cons x xs ih => simp only [List.foldl_cons]; exact ih _ _

theorem getD_map_ofNat (lw : List Nat) (i : Nat) : (lw.map Int.ofNat).getD i 0 = ((lw.getD i 0 : Nat) : Int) := by
  simp only [List.getD_eq_getElem?_getD, List.getElem?_map]
  cases lw[i]? <;> rfl

end IrisVerif.GenTie
