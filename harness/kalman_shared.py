"""
Shared parts of the C03 / C08 harnesses (one Lean model `IrisVerif/Model/Kalman.lean`, driver `C03`).

* generator of small state-space systems with dyadic entries, time-varying stds and missing-data masks
* implementation runner: `irispie.fords.kalmans.predict / update / smooth / Cache.calculate_likelihood*`
  called directly with our own `generate_period_system` / `generate_period_data`
* encoder / decoder of the driver's line protocol, tolerance comparison (class T)
* batch Gaussian conditioning of the stacked system in numpy (independent of any recursion)
* generator of random linear `Simultaneous` models (source text from coefficient arrays) and the
  companion state space built from the same arrays (independent of irispie's solver and filter)
"""
from __future__ import annotations
import math, itertools, sys
from fractions import Fraction
import numpy as np

from .common import Ctx, rat_of_float

LOG_2_PI = math.log(2 * math.pi)
if hasattr(sys, 'set_int_max_str_digits'):
    sys.set_int_max_str_digits(0)
RTOL = 1e-8          # |impl - model| <= RTOL * (1 + max|model|) on instances with cond(F_t) <= COND_MAX
COND_MAX = 1e6


# ---------------------------------------------------------------------------------------
# random small systems (direct-call stream)
# ---------------------------------------------------------------------------------------

def dy(rng, lo, hi, bits=3):
    return rng.randint(lo * (1 << bits), hi * (1 << bits)) / float(1 << bits)


def gen_system(rng, n=None, ny=None, nper=None, masks="random", unknown_init=False):
    n = n or rng.randint(1, 5)
    nu = rng.randint(1, min(3, n))
    ny = ny or rng.randint(1, 3)
    nw = ny + rng.randint(0, 1)
    nper = nper or rng.randint(1, 12)
    T = np.array([[0.0 if rng.chance(0.3) else dy(rng, -1, 1) for _ in range(n)] for _ in range(n)])
    while np.abs(T).sum(axis=1).max() > 1.0:
        T = T / 2
    if unknown_init:
        # one unit root in the first state, block-triangular like the library's alpha vector
        T[:, 0] = 0.0
        T[0, 0] = 1.0
    P = np.array([[0.0 if rng.chance(0.3) else dy(rng, -1, 1) for _ in range(nu)] for _ in range(n)])
    p_identity = False
    if rng.chance(0.15):
        nu = n; P = np.eye(n); p_identity = True
    for j in range(nu):
        if not P[:, j].any():
            P[rng.randint(0, n - 1), j] = 1.0
    K = np.array([0.0 if rng.chance(0.3) else dy(rng, -2, 2) for _ in range(n)])
    if unknown_init:
        K[0] = 0.0
    Z = np.array([[0.0 if rng.chance(0.3) else dy(rng, -2, 2) for _ in range(n)] for _ in range(ny)])
    for i in range(ny):
        if not Z[i].any():
            Z[i, rng.randint(0, n - 1)] = 1.0
    if unknown_init and not Z[:, 0].any():
        Z[0, 0] = 1.0
    H = np.zeros((ny, nw))
    for i in range(ny):
        H[i, i] = rng.choice([0.5, 1.0, 1.5])
    for i in range(ny):
        for j in range(ny, nw):
            H[i, j] = dy(rng, -1, 1)
    if rng.chance(0.2):
        H[rng.randint(0, ny - 1), :] = 0.0          # a measurement equation without shock
    D = np.array([0.0 if rng.chance(0.3) else dy(rng, -2, 2) for _ in range(ny)])
    a = np.array([dy(rng, -2, 2) for _ in range(n)])
    B = np.array([[dy(rng, -1, 1, 2) for _ in range(n)] for _ in range(n)])
    Q = B @ B.T + np.diag([rng.choice([0.0, 0.25, 0.5]) for _ in range(n)])
    xi = None
    if unknown_init:
        xi = np.zeros((n, 1)); xi[0, 0] = 1.0
        a[0] = 0.0; Q[0, :] = 0.0; Q[:, 0] = 0.0
    std_choices = [0.25, 0.5, 1.0, 1.5, 2.0]
    tv = rng.chance(0.5)
    su0 = [rng.choice(std_choices) for _ in range(nu)]
    sw0 = [rng.choice(std_choices) for _ in range(nw)]
    stdu, stdw, u0, w0, y = [], [], [], [], []
    shocks_from_data = rng.chance(0.25)
    for t in range(nper):
        stdu.append([rng.choice(std_choices + [0.0]) if tv and rng.chance(0.4) else s for s in su0])
        stdw.append([rng.choice(std_choices) if tv and rng.chance(0.4) else s for s in sw0])
        u0.append([dy(rng, -1, 1) if shocks_from_data and rng.chance(0.5) else 0.0 for _ in range(nu)])
        w0.append([dy(rng, -1, 1) if shocks_from_data and rng.chance(0.3) else 0.0 for _ in range(nw)])
        y.append([dy(rng, -4, 4) for _ in range(ny)])
    if masks == "random":
        p_miss = rng.choice([0.0, 0.2, 0.5, 0.8])
        mask = [[0 if rng.chance(p_miss) else 1 for _ in range(ny)] for _ in range(nper)]
        if rng.chance(0.3) and nper > 1:
            mask[rng.randint(0, nper - 1)] = [0] * ny            # a period without any observation
        if rng.chance(0.4 if unknown_init else 0.15):
            for t in range(rng.randint(1 if unknown_init else 0, max(1, nper - 1)), nper):
                mask[t] = [0] * ny                               # no observations at the end of the sample (forecast tail)
    else:
        mask = masks
    return {"T": T.tolist(), "P": P.tolist(), "K": K.tolist(), "Z": Z.tolist(), "H": H.tolist(), "D": D.tolist(),
            "a": a.tolist(), "Q": Q.tolist(), "xi": None if xi is None else xi.tolist(),
            "stdu": stdu, "stdw": stdw, "u0": u0, "w0": w0, "y": y, "mask": mask,
            "rescale": bool(rng.chance(0.3)), "p_none": bool(p_identity and rng.chance(0.5)),
            # which output steps are stored must not matter: half of the unknown-init cases run without a prediction store
            "store_predict": bool(not (unknown_init and rng.chance(0.5)))}


def arrays(case):
    A = {k: np.array(case[k], dtype=float) for k in ("T", "P", "K", "Z", "H", "D", "a", "Q")}
    ny = len(case["Z"]); n = len(case["T"])
    A["Z"] = A["Z"].reshape(ny, n)
    A["H"] = A["H"].reshape(ny, -1)
    A["P"] = A["P"].reshape(n, -1)
    A["nper"] = len(case["mask"])
    A["mask"] = [np.array(m, dtype=bool) for m in case["mask"]]
    A["stdu"] = [np.array(s, dtype=float) for s in case["stdu"]]
    A["stdw"] = [np.array(s, dtype=float) for s in case["stdw"]]
    A["u0"] = [np.array(s, dtype=float) for s in case["u0"]]
    A["w0"] = [np.array(s, dtype=float) for s in case["w0"]]
    A["y"] = [np.array(s, dtype=float) for s in case["y"]]
    A["xi"] = None if case.get("xi") is None else np.array(case["xi"], dtype=float)
    return A


# ---------------------------------------------------------------------------------------
# implementation runner (direct calls into fords/kalmans.py)
# ---------------------------------------------------------------------------------------

def impl_direct(case):
    """returns dict of per-period lists and likelihood pieces; raises what the implementation raises"""
    from irispie.fords import kalmans as KM
    A = arrays(case)
    nper = A["nper"]
    P_arg = None if case.get("p_none") else A["P"]

    def gen_sys(t):
        inx = A["mask"][t]
        return (A["T"], P_arg, A["K"], A["Z"][inx, :], A["H"][inx, :], A["D"][inx], np.diag(A["stdu"][t] ** 2),
                np.diag(A["stdw"][t] ** 2), None, None)

    def gen_data(t):
        inx = A["mask"][t]
        return A["y"][t][inx], A["u0"][t], np.zeros((0,)), A["w0"][t], inx.tolist()

    rec = {k: [None] * nper for k in ("a0", "y0", "Q0", "F", "Q1", "a1", "u1", "w1", "pe", "a2", "Q2", "u2", "w2", "y2")}

    def store_predict(t, a0=None, y0=None, u0=None, v0=None, w0=None, Q0=None, F=None, cov_u0=None, cov_w0=None):
        if a0 is not None: rec["a0"][t] = np.array(a0, dtype=float)
        if y0 is not None: rec["y0"][t] = np.array(y0, dtype=float)
        if Q0 is not None: rec["Q0"][t] = np.array(Q0, dtype=float)
        if F is not None: rec["F"][t] = np.array(F, dtype=float)

    def store_update(t, xi=None, y=None, u=None, v=None, w=None, pe=None, Q=None):
        if Q is not None: rec["Q1"][t] = np.array(Q, dtype=float)
        if xi is not None: rec["a1"][t] = np.array(xi, dtype=float)
        if u is not None: rec["u1"][t] = np.array(u, dtype=float)
        if w is not None: rec["w1"][t] = np.array(w, dtype=float)
        if pe is not None: rec["pe"][t] = np.array(pe, dtype=float)

    def store_smooth(t, xi=None, y=None, u=None, v=None, w=None, Q=None):
        rec["a2"][t] = np.array(xi, dtype=float); rec["Q2"][t] = np.array(Q, dtype=float)
        rec["u2"][t] = np.array(u, dtype=float); rec["w2"][t] = np.array(w, dtype=float)
        rec["y2"][t] = np.array(y, dtype=float)

    initials = (A["a"].copy(), A["Q"].copy(), None if A["xi"] is None else A["xi"].copy())
    sp = store_predict if case.get("store_predict", True) else None
    cache = KM.predict(num_periods=nper, initials=initials, partial_generate_period_system=gen_sys,
                       partial_generate_period_data=gen_data, store_predict=sp, store_update=store_update,
                       store_smooth=store_smooth)
    rec["delta"] = None
    if cache.needs_estimate_unknown_init:
        KM.estimate_unknown_init(cache=cache)
        KM.correct_for_unknown_init(cache=cache, store_predict=sp)
        rec["delta"] = np.array(cache.unknown_init_estimate, dtype=float)
    KM.update(cache=cache, store_update=store_update)
    KM.smooth(cache=cache, store_smooth=store_smooth)
    if sp is None:
        # nothing was stored for the prediction step: take what the later steps and the likelihood actually use
        for t in range(nper):
            rec["a0"][t] = np.array(cache.all_a0[t], dtype=float); rec["y0"][t] = np.array(cache.all_y0[t], dtype=float)
            rec["Q0"][t] = np.array(cache.all_Q0[t], dtype=float)
            Fi = np.array(cache.all_Fi[t], dtype=float)
            rec["F"][t] = np.linalg.inv(Fi) if Fi.size else Fi
    cache.calculate_likelihood(rescale_variance=bool(case.get("rescale")))
    cache.calculate_likelihood_contributions()
    rec["nll"] = float(cache.neg_log_likelihood)
    rec["contrib"] = [float(x) for x in cache.neg_log_likelihood_contributions]
    rec["var_scale"] = float(cache.var_scale)
    rec["num_obs"] = [int(x) for x in cache.all_num_obs]
    rec["log_det_F"] = [float(x) for x in cache.all_log_det_F]
    rec["pe_Fi_pe"] = [float(x) for x in cache.all_pe_Fi_pe]
    rec["sum_num_obs"] = int(cache.sum_num_obs)
    rec["condF"] = max([float(np.linalg.cond(F)) for F in rec["F"] if F is not None and F.size] + [1.0])
    return rec


# ---------------------------------------------------------------------------------------
# line protocol
# ---------------------------------------------------------------------------------------

def mat_text(a) -> str:
    a = np.asarray(a, dtype=float)
    if a.ndim == 1:
        a = a.reshape(-1, 1)
    return " ".join([str(a.shape[0]), str(a.shape[1])] + [rat_of_float(x) for x in a.ravel()])


def encode(case) -> str:
    A = arrays(case)
    ws = ["kf", "1" if case.get("rescale") else "0", "0" if A["xi"] is None else "1"]
    for k in ("T", "P", "K", "Z", "H", "D", "a", "Q"):
        ws.append(mat_text(A[k]))
    if A["xi"] is not None:
        ws.append(mat_text(A["xi"]))
    ws.append(str(A["nper"]))
    for t in range(A["nper"]):
        inx = A["mask"][t]
        ws.append("".join("1" if b else "0" for b in inx))
        ws.append(mat_text(A["y"][t][inx]))
        ws += [mat_text(A["stdu"][t]), mat_text(A["stdw"][t]), mat_text(A["u0"][t]), mat_text(A["w0"][t])]
    return " ".join(ws)


class _Tok:
    def __init__(self, s):
        self.ws = s.split(); self.i = 0

    def word(self):
        w = self.ws[self.i]; self.i += 1; return w

    def rat(self):
        return Fraction(self.word())

    def mat(self):
        r = int(self.word()); c = int(self.word())
        vals = [float(Fraction(self.word())) for _ in range(r * c)]
        return np.array(vals, dtype=float).reshape(r, c)


def decode(reply: str, has_xi: bool):
    """model reply -> dict (floats rounded from the exact rationals)"""
    if not reply.startswith("ok "):
        return {"err": reply}
    tk = _Tok(reply)
    tk.word()
    out = {"mid": tk.word(), "tid": tk.word(), "sim": tk.word(), "csum": tk.word()}
    out["sum_num_obs"] = int(tk.word()); out["var_scale"] = tk.rat(); out["sum_pe_Fi_pe"] = tk.rat()
    out["log_scale_count"] = int(tk.word()); nper = int(tk.word())
    out["delta"] = tk.mat().ravel() if has_xi else None
    keys = ("a0", "Q0", "F", "y0", "pe", "Q1", "a1", "u1", "w1", "a2", "Q2", "u2", "w2")
    for k in keys + ("num_obs", "det_Fi", "pe_Fi_pe"):
        out[k] = []
    for _ in range(nper):
        out["num_obs"].append(int(tk.word())); out["det_Fi"].append(tk.rat()); out["pe_Fi_pe"].append(tk.rat())
        for k in keys:
            m = tk.mat()
            out[k].append(m.ravel() if k in ("a0", "y0", "pe", "a1", "u1", "w1", "a2", "u2", "w2") else m)
    assert tk.i == len(tk.ws), "trailing tokens in model reply"
    # assemble what needs `log` (the only non-rational operation of the code)
    out["log_det_F"] = [-math.log(float(d)) if d > 0 else float("nan") for d in out["det_Fi"]]
    vs = float(out["var_scale"])
    out["nll"] = (out["sum_num_obs"] * LOG_2_PI + sum(out["log_det_F"])
                  + (out["log_scale_count"] * math.log(vs) if out["log_scale_count"] else 0.0) + float(out["sum_pe_Fi_pe"])) / 2
    lvs = math.log(vs) if out["log_scale_count"] else 0.0
    out["contrib"] = [((ld + k * lvs + float(q / out["var_scale"]) + k * LOG_2_PI) / 2 if k else 0.0)
                      for ld, q, k in zip(out["log_det_F"], out["pe_Fi_pe"], out["num_obs"])]
    return out


def close(a, b, rtol=RTOL) -> bool:
    a = np.asarray(a, dtype=float); b = np.asarray(b, dtype=float)
    if a.shape != b.shape:
        if a.size == b.size:
            a = a.ravel(); b = b.ravel()
        else:
            return False
    if a.size == 0:
        return True
    if np.isnan(a).any() or np.isnan(b).any():
        return bool((np.isnan(a) == np.isnan(b)).all() and close(np.nan_to_num(a), np.nan_to_num(b), rtol))
    scale = 1.0 + max(float(np.max(np.abs(a))), float(np.max(np.abs(b))))
    return bool(np.max(np.abs(a - b)) <= rtol * scale)


def compare_direct(impl, model, rtol=RTOL):
    """list of (key, t) where implementation and model differ beyond tolerance"""
    bad = []
    for k in ("a0", "Q0", "F", "y0", "pe", "Q1", "a1", "u1", "w1", "a2", "Q2", "u2", "w2"):
        for t, (x, y) in enumerate(zip(impl[k], model[k])):
            if x is None or not close(x, y, rtol):
                bad.append((k, t))
    if impl["num_obs"] != model["num_obs"]:
        bad.append(("num_obs", -1))
    for k in ("log_det_F", "pe_Fi_pe", "contrib"):
        for t, (x, y) in enumerate(zip(impl[k], model[k])):
            if not close([x], [float(y)], rtol):
                bad.append((k, t))
    if not close([impl["nll"]], [model["nll"]], rtol): bad.append(("nll", -1))
    if not close([impl["var_scale"]], [float(model["var_scale"])], rtol): bad.append(("var_scale", -1))
    if model.get("delta") is not None and not close(impl["delta"], model["delta"], rtol): bad.append(("delta", -1))
    return bad


# ---------------------------------------------------------------------------------------
# batch Gaussian conditioning of the stacked system (no recursion over conditional moments)
# ---------------------------------------------------------------------------------------

class Batch:
    """primitives e = (alpha_init, u_1..u_T, w_1..w_T) ~ N(mu, Sig); every state, shock and observation is affine in e"""

    def __init__(self, T, P, K, Z, H, D, a, Q, stdu, stdw, u0, w0, y, mask):
        n, nu, nw = T.shape[0], P.shape[1], H.shape[1]
        nper = len(mask)
        d = n + nper * (nu + nw)
        self.n, self.nu, self.nw, self.nper, self.d = n, nu, nw, nper, d
        mu = np.zeros(d); Sig = np.zeros((d, d))
        mu[:n] = a; Sig[:n, :n] = Q
        self.A = []; self.k = []; self.Eu = []; self.Ew = []
        A_prev = np.zeros((n, d)); A_prev[:, :n] = np.eye(n); k_prev = np.zeros(n)
        self.A_init = A_prev.copy()
        Cs, cs, ys, owner = [], [], [], []
        for t in range(nper):
            iu = n + t * nu; iw = n + nper * nu + t * nw
            mu[iu:iu + nu] = u0[t]; Sig[iu:iu + nu, iu:iu + nu] = np.diag(np.asarray(stdu[t]) ** 2)
            mu[iw:iw + nw] = w0[t]; Sig[iw:iw + nw, iw:iw + nw] = np.diag(np.asarray(stdw[t]) ** 2)
            Eu = np.zeros((nu, d)); Eu[:, iu:iu + nu] = np.eye(nu)
            Ew = np.zeros((nw, d)); Ew[:, iw:iw + nw] = np.eye(nw)
            A_t = T @ A_prev + P @ Eu
            k_t = T @ k_prev + K
            self.A.append(A_t); self.k.append(k_t); self.Eu.append(Eu); self.Ew.append(Ew)
            Cy = Z @ A_t + H @ Ew; cy = Z @ k_t + D
            for i in range(Z.shape[0]):
                if mask[t][i]:
                    Cs.append(Cy[i]); cs.append(cy[i]); ys.append(y[t][i]); owner.append(t)
            A_prev, k_prev = A_t, k_t
        self.mu, self.Sig = mu, Sig
        self.C = np.array(Cs).reshape(len(Cs), d); self.c = np.array(cs); self.Y = np.array(ys, dtype=float)
        self.owner = np.array(owner, dtype=int)

    def upto(self, t):
        """number of stacked observations in periods 0..t"""
        return int((self.owner <= t).sum())

    def cond(self, B, b, m):
        """mean and covariance of B e + b given the first m stacked observations"""
        mean = B @ self.mu + b
        cov = B @ self.Sig @ B.T
        if m == 0:
            return mean, cov
        C = self.C[:m]; S = C @ self.Sig @ C.T
        resid = self.Y[:m] - (C @ self.mu + self.c[:m])
        X = B @ self.Sig @ C.T
        W = np.linalg.solve(S, np.column_stack([resid, X.T]))
        return mean + X @ W[:, 0], cov - X @ W[:, 1:]

    def nll(self, m, scale=1.0):
        if m == 0:
            return 0.0
        C = self.C[:m]; S = scale * (C @ self.Sig @ C.T)
        resid = self.Y[:m] - (C @ self.mu + self.c[:m])
        sign, logdet = np.linalg.slogdet(S)
        return 0.5 * (m * LOG_2_PI + logdet + resid @ np.linalg.solve(S, resid))

    def quad(self):
        m = len(self.Y)
        if m == 0:
            return 0.0
        S = self.C @ self.Sig @ self.C.T
        resid = self.Y - (self.C @ self.mu + self.c)
        return float(resid @ np.linalg.solve(S, resid))

    def condS(self):
        if getattr(self, "unidentified", False):
            return float("inf")
        if len(self.Y) and float(np.max(np.abs(self.Sig))) * float(np.linalg.cond(self.C @ self.Sig @ self.C.T)) > 1e9:
            return float("inf")        # prior variance x cond(S): the conditional moments lose more digits than the tolerance allows
        if len(self.Y) == 0:
            return 1.0
        S = self.C @ self.Sig @ self.C.T
        sv = np.linalg.svd(S, compute_uv=False)
        if sv[-1] < 1e-9:
            return float("inf")        # an observation with (numerically) zero prior variance: the Gaussian density is degenerate
        return float(sv[0] / sv[-1])


def batch_of_case(case) -> Batch:
    A = arrays(case)
    return Batch(A["T"], A["P"], A["K"], A["Z"], A["H"], A["D"], A["a"], A["Q"], A["stdu"], A["stdw"], A["u0"], A["w0"],
                 A["y"], A["mask"])


def sd(cov):
    return np.sqrt(np.maximum(np.diag(cov), 0.0))


# ---------------------------------------------------------------------------------------
# random linear Simultaneous models (source text from coefficient arrays)
# ---------------------------------------------------------------------------------------

def r2(rng, lo, hi):
    return round(lo + (hi - lo) * rng.random(), 2)


def gen_model(rng, forward=False, unit_root=False):
    """coefficient arrays of
         (I - A0) x_t = A1 x_{t-1} + A2 x_{t-2} + c + E e_t           (x in logs for log-variables)
         o_t = M0 x_t + M1 x_{t-1} + d + Hw w_t                        (o in logs for log-variables)
       A0 strictly lower triangular; rho(companion) < 1 by the row-sum bound."""
    nx = rng.randint(1, 3)
    ny = rng.randint(1, 3)
    lag2 = rng.chance(0.4)
    A0 = np.zeros((nx, nx)); A1 = np.zeros((nx, nx)); A2 = np.zeros((nx, nx))
    for i in range(nx):
        for j in range(i):
            if rng.chance(0.3):
                A0[i, j] = r2(rng, -0.4, 0.4)
        for j in range(nx):
            if i == j or rng.chance(0.5):
                A1[i, j] = r2(rng, -0.8, 0.8)
            if lag2 and rng.chance(0.3):
                A2[i, j] = r2(rng, -0.3, 0.3)
    # scale rows so that |A0|+|A1|+|A2| row sums stay below 0.9 (sufficient for stability)
    for i in range(nx):
        s = np.abs(A0[i]).sum() + np.abs(A1[i]).sum() + np.abs(A2[i]).sum()
        if s > 0.9:
            f = 0.9 / s
            A0[i] = np.round(A0[i] * f - 0.005 * np.sign(A0[i]), 2); A1[i] = np.round(A1[i] * f - 0.005 * np.sign(A1[i]), 2)
            A2[i] = np.round(A2[i] * f - 0.005 * np.sign(A2[i]), 2)
    if not A1.any():
        A1[0, 0] = 0.5
    unit = None
    if unit_root:
        # one random walk with drift, decoupled from the stationary variables, never lagged elsewhere: its level is the model's
        # single unit-root component (initial condition = fixed unknown, concentrated out by GLS)
        unit = rng.randint(0, nx - 1)
        for M in (A0, A1, A2):
            M[unit, :] = 0.0; M[:, unit] = 0.0
        A1[unit, unit] = 1.0
    c = np.array([r2(rng, -1, 1) if rng.chance(0.7) else 0.0 for _ in range(nx)])
    if unit is not None and rng.chance(0.8) and c[unit] == 0.0:
        c[unit] = rng.choice([-0.6, -0.25, 0.3, 0.5, 0.8])         # a random walk WITH drift: balanced-growth steady state
    ne = nx if rng.chance(0.7) else rng.randint(1, nx)
    E = np.zeros((nx, ne))
    for j in range(ne):
        E[j, j] = 1.0
    for i in range(ne, nx):
        E[i, rng.randint(0, ne - 1)] = r2(rng, 0.2, 1.0)
    M0 = np.zeros((ny, nx)); M1 = np.zeros((ny, nx))
    for i in range(ny):
        M0[i, rng.randint(0, nx - 1)] = rng.choice([1.0, 1.0, 0.5, -1.0, 2.0])
        for j in range(nx):
            if M0[i, j] == 0 and rng.chance(0.3):
                M0[i, j] = r2(rng, -1, 1)
            if rng.chance(0.25):
                M1[i, j] = r2(rng, -0.5, 0.5)
    if unit is not None:
        M1[:, unit] = 0.0
        if not M0[:, unit].any():
            M0[rng.randint(0, ny - 1), unit] = 1.0
    d = np.array([r2(rng, -1, 1) if rng.chance(0.6) else 0.0 for _ in range(ny)])
    has_w = [True if rng.chance(0.75) else False for _ in range(ny)]
    if not any(has_w) and ny > ne:
        has_w[0] = True
    nw = sum(has_w)
    Hw = np.zeros((ny, nw)); j = 0
    for i in range(ny):
        if has_w[i]:
            Hw[i, j] = 1.0; j += 1
    logx = [bool(rng.chance(0.3)) and i != unit for i in range(nx)]
    logy = [bool(rng.chance(0.3)) for _ in range(ny)]
    std_e = [rng.choice([0.2, 0.5, 1.0, 1.3]) for _ in range(ne)]
    std_w = [rng.choice([0.1, 0.3, 0.7]) for _ in range(nw)]
    fwd = None
    if forward:
        # one forward-looking variable f = b*f{+1} + g'x + cf, entering some transition and measurement equations
        fwd = {"b": r2(rng, 0.2, 0.6), "g": [r2(rng, -0.4, 0.4) if rng.chance(0.7) else 0.0 for _ in range(nx)], "cf": r2(rng, -0.5, 0.5),
               "load": [r2(rng, -0.3, 0.3) if rng.chance(0.6) else 0.0 for _ in range(nx)],
               "mload": [r2(rng, -0.5, 0.5) if rng.chance(0.5) else 0.0 for _ in range(ny)]}
        if not any(fwd["g"]): fwd["g"][0] = 0.2
        if not any(fwd["load"]) and not any(fwd["mload"]): fwd["load"][0] = 0.3
    return {"fwd": fwd, "A0": A0.tolist(), "A1": A1.tolist(), "A2": A2.tolist(), "c": c.tolist(), "E": E.tolist(), "M0": M0.tolist(),
            "M1": M1.tolist(), "d": d.tolist(), "Hw": Hw.tolist(), "logx": logx, "logy": logy, "std_e": std_e, "std_w": std_w,
            "unit": unit}


def _term(coef, name, lag, is_log):
    ref = name + (f"{{-{lag}}}" if lag else "")
    if is_log:
        ref = f"log({ref})"
    return f"{coef if isinstance(coef, str) else repr(coef)}*{ref}"


def model_source(mc, params=False) -> str:
    """params=True: the own-lag coefficients A1[i,i] and the constants c[i], d[i] are model parameters pa_i, pc_i, pd_i
    (so that parameter variants can differ in what enters the first-order solution)"""
    A0, A1, A2, E = (np.array(mc[k]) for k in ("A0", "A1", "A2", "E"))
    M0, M1, Hw = (np.array(mc[k]) for k in ("M0", "M1", "Hw"))
    nx, ne = E.shape; ny, nw = Hw.shape
    xs = [f"x{i}" for i in range(nx)]; es = [f"e{i}" for i in range(ne)]
    os_ = [f"o{i}" for i in range(ny)]; ws = [f"w{i}" for i in range(nw)]
    fwd = mc.get("fwd")
    L = ["!transition_variables", "    " + ", ".join(xs + (["f"] if fwd else []))]
    if params:
        L += ["!parameters", "    " + ", ".join([f"pa{i}" for i in range(nx)] + [f"pc{i}" for i in range(nx)] + [f"pd{i}" for i in range(ny)])]
    if any(mc["logx"]):
        L += ["!log_variables", "    " + ", ".join(x for x, l in zip(xs, mc["logx"]) if l)]
    L += ["!transition_shocks", "    " + ", ".join(es)]
    L += ["!measurement_variables", "    " + ", ".join(os_)]
    if any(mc["logy"]):
        L += ["!log_variables", "    " + ", ".join(o for o, l in zip(os_, mc["logy"]) if l)]
    if nw:
        L += ["!measurement_shocks", "    " + ", ".join(ws)]
    L.append("!transition_equations")
    for i in range(nx):
        lhs = f"log({xs[i]})" if mc["logx"][i] else xs[i]
        terms = []
        for j in range(nx):
            if A0[i, j]: terms.append(_term(float(A0[i, j]), xs[j], 0, mc["logx"][j]))
            if params and i == j: terms.append(_term(f"pa{i}", xs[j], 1, mc["logx"][j]))
            elif A1[i, j]: terms.append(_term(float(A1[i, j]), xs[j], 1, mc["logx"][j]))
            if A2[i, j]: terms.append(_term(float(A2[i, j]), xs[j], 2, mc["logx"][j]))
        if fwd and fwd["load"][i]: terms.append(f"{float(fwd['load'][i])!r}*f")
        terms.append(f"pc{i}" if params else repr(float(mc["c"][i])))
        for j in range(ne):
            if E[i, j]: terms.append(f"{float(E[i, j])!r}*{es[j]}")
        L.append(f"    {lhs} = " + " + ".join(terms) + ";")
    if fwd:
        terms = [f"{float(fwd['b'])!r}*f{{+1}}"] + [_term(float(fwd["g"][j]), xs[j], 0, mc["logx"][j]) for j in range(nx) if fwd["g"][j]]
        L.append("    f = " + " + ".join(terms + [repr(float(fwd["cf"]))]) + ";")
    L.append("!measurement_equations")
    for i in range(ny):
        lhs = f"log({os_[i]})" if mc["logy"][i] else os_[i]
        terms = []
        for j in range(nx):
            if M0[i, j]: terms.append(_term(float(M0[i, j]), xs[j], 0, mc["logx"][j]))
            if M1[i, j]: terms.append(_term(float(M1[i, j]), xs[j], 1, mc["logx"][j]))
        if fwd and fwd["mload"][i]: terms.append(f"{float(fwd['mload'][i])!r}*f")
        terms.append(f"pd{i}" if params else repr(float(mc["d"][i])))
        for j in range(nw):
            if Hw[i, j]: terms.append(f"{float(Hw[i, j])!r}*{ws[j]}")
        L.append(f"    {lhs} = " + " + ".join(terms) + ";")
    return "\n".join(L) + "\n"


def companion(mc):
    """state s_t = (x_t, x_{t-1}, x_{t-2}) in logs where declared:  s_t = T s_{t-1} + K + P e_t,  o_t = Z s_t + D + H w_t"""
    A0, A1, A2, E = (np.array(mc[k], dtype=float) for k in ("A0", "A1", "A2", "E"))
    M0, M1, Hw = (np.array(mc[k], dtype=float) for k in ("M0", "M1", "Hw"))
    nx, ne = E.shape; ny = M0.shape[0]
    Ji = np.linalg.inv(np.eye(nx) - A0)
    n = 3 * nx
    T = np.zeros((n, n)); T[:nx, :nx] = Ji @ A1; T[:nx, nx:2 * nx] = Ji @ A2
    T[nx:2 * nx, :nx] = np.eye(nx); T[2 * nx:, nx:2 * nx] = np.eye(nx)
    K = np.zeros(n); K[:nx] = Ji @ np.array(mc["c"], dtype=float)
    P = np.zeros((n, ne)); P[:nx] = Ji @ E
    Z = np.zeros((ny, n)); Z[:, :nx] = M0; Z[:, nx:2 * nx] = M1
    D = np.array(mc["d"], dtype=float)
    return T, P, K, Z, Hw, D


def stationary_moments(T, P, K, std_e):
    n = T.shape[0]
    mean = np.linalg.solve(np.eye(n) - T, K)
    S = P @ np.diag(np.asarray(std_e, dtype=float) ** 2) @ P.T
    vecQ = np.linalg.solve(np.eye(n * n) - np.kron(T, T), S.ravel())
    Q = vecQ.reshape(n, n)
    return mean, (Q + Q.T) / 2


def initial_law(mc):
    """(mean, cov, xi) of the companion state before the first period: stationary law; with a unit-root variable its level is a
    fixed unknown (xi = its loading) and the remaining, decoupled block has its own stationary law"""
    T, P, K, Z, H, D = companion(mc)
    unit = mc.get("unit")
    if unit is None:
        mean, Q = stationary_moments(T, P, K, mc["std_e"])
        return mean, Q, None
    n = T.shape[0]; nx = n // 3
    J = [unit, nx + unit, 2 * nx + unit]
    O = [i for i in range(n) if i not in J]
    mean = np.zeros(n); Q = np.zeros((n, n))
    if O:
        mo, Qo = stationary_moments(T[np.ix_(O, O)], P[O, :], K[O], mc["std_e"])
        mean[O] = mo; Q[np.ix_(O, O)] = Qo
    xi = np.zeros((n, 1)); xi[unit, 0] = 1.0
    return mean, Q, xi


def build_model(mc):
    import irispie as ir
    m = ir.Simultaneous.from_string(model_source(mc), linear=True, flatten=True)
    ne = len(mc["std_e"]); nw = len(mc["std_w"])
    m.assign(**{f"std_e{i}": mc["std_e"][i] for i in range(ne)}, **{f"std_w{i}": mc["std_w"][i] for i in range(nw)})
    m.steady()
    m.solve()
    return m


def gen_data(rng, mc, nper):
    """simulate observations from the model's own distribution (so that they are of plausible size) + missing mask + stds"""
    T, P, K, Z, H, D = companion(mc)
    mean, Q, xi = initial_law(mc)
    if xi is not None:
        mean = mean + xi[:, 0] * round(-6 + 12 * rng.random(), 1)     # a level away from zero
    ny = Z.shape[0]; ne = P.shape[1]; nw = H.shape[1]

    def gauss():
        # Box-Muller from the run's own PRNG
        u1 = max(rng.random(), 1e-12); u2 = rng.random()
        return math.sqrt(-2 * math.log(u1)) * math.cos(2 * math.pi * u2)
    s = mean + np.array([0.5 * gauss() for _ in range(len(mean))])
    tv = rng.chance(0.4)
    std_e_t, std_w_t, ys = [], [], []
    for t in range(nper):
        se = [rng.choice([0.2, 0.5, 1.0, 1.5]) if tv and rng.chance(0.3) else x for x in mc["std_e"]]
        sw = [rng.choice([0.1, 0.4, 0.9]) if tv and rng.chance(0.3) else x for x in mc["std_w"]]
        s = T @ s + K + P @ np.array([x * gauss() for x in se])
        o = Z @ s + D + (H @ np.array([x * gauss() for x in sw]) if nw else 0.0)
        ys.append([round(float(v), 3) for v in o]); std_e_t.append(se); std_w_t.append(sw)
    p_miss = rng.choice([0.0, 0.2, 0.5])
    mask = [[0 if rng.chance(p_miss) else 1 for _ in range(ny)] for _ in range(nper)]
    if nper > 2 and rng.chance(0.4):
        mask[rng.randint(0, nper - 1)] = [0] * ny
    if nper > 3 and rng.chance(0.5 if xi is not None else 0.25):
        for t in range(nper - rng.randint(1, 3), nper):
            mask[t] = [0] * ny                                   # forecast tail: no observation at the end of the span
    if not any(any(r) for r in mask):
        mask[0][0] = 1
    if xi is not None and not any(mask[t][i] for t in range(nper) for i in range(ny) if Z[i, mc["unit"]]):
        i = [i for i in range(ny) if Z[i, mc["unit"]]][0]
        mask[0][i] = 1; mask[1][i] = 1                           # the unknown level must be identified
    return {"y": ys, "mask": mask, "std_e_t": std_e_t if tv else None, "std_w_t": std_w_t if tv else None, "nper": nper}


def databox_of(mc, data, start, deviation_of=None):
    """input databox: observables in levels (exp of the log-scale value for log-variables), NaN where missing"""
    import irispie as ir
    db = ir.Databox()
    ny = len(mc["logy"])
    for i in range(ny):
        v = np.array([data["y"][t][i] if data["mask"][t][i] else np.nan for t in range(data["nper"])], dtype=float)
        if deviation_of is not None:
            dv = np.asarray(deviation_of, dtype=float)
            v = v - (dv[:, i] if dv.ndim == 2 else dv[i])
        if mc["logy"][i]:
            v = np.exp(v)
        db[f"o{i}"] = ir.Series(start=start, values=v)
    if data["std_e_t"] is not None:
        for j in range(len(mc["std_e"])):
            db[f"std_e{j}"] = ir.Series(start=start, values=np.array([r[j] for r in data["std_e_t"]], dtype=float))
        for j in range(len(mc["std_w"])):
            db[f"std_w{j}"] = ir.Series(start=start, values=np.array([r[j] for r in data["std_w_t"]], dtype=float))
    return db


def series_values(db, name, span):
    """values of db[name] over span as a 1-d float array (NaN outside the stored range)"""
    s = db[name]
    return np.array(s.get_data(span), dtype=float).ravel()


# ---------------------------------------------------------------------------------------
# through Simultaneous.kalman_filter
# ---------------------------------------------------------------------------------------

def gen_sel(rng, nper):
    """positions of a filter span that is not a consecutive run: an arithmetic progression (ir.Span with a step) or hand-picked"""
    if rng.chance(0.5):
        step = rng.randint(2, 3); lo = rng.randint(0, 1)
        sel = list(range(lo, nper, step))
    else:
        sel = sorted(rng.sample(range(nper), rng.randint(2, max(2, nper - 2))))
    if len(sel) < 2 or sel == list(range(sel[0], sel[-1] + 1)):
        sel = [0, nper - 1] if nper > 2 else None
    return sel


def gen_persistent_model(rng):
    """stationary but HIGHLY PERSISTENT: real roots 0.98 ... 0.9995 on the diagonal of a lower-triangular A1 (eigenvalues = diagonal),
    optionally a complex pair rho*exp(+-i*theta) with modulus close to 1 as a rotation block; the unconditional variances are
    1/(1-rho^2) ~ 25 ... 1000 times the shock variances, so the initial MSE of the filter matters"""
    mc = gen_model(rng)
    nx = len(mc["logx"])
    A0 = np.zeros((nx, nx)); A2 = np.zeros((nx, nx)); A1 = np.zeros((nx, nx))
    roots = [0.98, 0.99, 0.995, 0.999, 0.9995]
    for i in range(nx):
        A1[i, i] = rng.choice(roots) * (-1 if rng.chance(0.15) else 1)
    # (no cross terms between the persistent states: cascaded near-unit roots give unconditional variances of 1e6 and more, where
    #  the batch oracle itself -- V - C S^-1 C' with cond(S) ~ 1e7 -- loses the digits the comparison needs)
    if nx >= 2 and rng.chance(0.45):
        rho = rng.choice([0.98, 0.99, 0.995, 0.998]); th = rng.choice([0.3, 0.8, 1.5, 2.4])
        A1[0, 0] = round(rho * math.cos(th), 6); A1[0, 1] = round(-rho * math.sin(th), 6)
        A1[1, 0] = round(rho * math.sin(th), 6); A1[1, 1] = round(rho * math.cos(th), 6)
    mc["A0"], mc["A1"], mc["A2"] = A0.tolist(), A1.tolist(), A2.tolist()
    ne = len(mc["std_e"])
    E = np.zeros((nx, ne))
    for j in range(ne): E[j, j] = 1.0
    for i in range(ne, nx): E[i, rng.randint(0, ne - 1)] = r2(rng, 0.2, 1.0)
    mc["E"] = E.tolist()
    mc["M1"] = (np.array(mc["M1"]) * 0).tolist()
    # every observable with its own measurement shock: the stacked covariance stays well conditioned
    ny = len(mc["logy"])
    mc["Hw"] = np.eye(ny).tolist(); mc["std_w"] = [rng.choice([0.3, 0.7, 1.0]) for _ in range(ny)]
    mc["c"] = [round(v * 0.01, 4) for v in mc["c"]]
    mc["persistent"] = True
    return mc


def gen_e2e_case(rng, nper_max=10, unit_root=False, noncontiguous=False, persistent=False):
    mc = gen_persistent_model(rng) if persistent else gen_model(rng, unit_root=unit_root)
    nper = rng.randint(5 if noncontiguous else (4 if unit_root else 3), nper_max)
    data = gen_data(rng, mc, nper)
    case = {"mc": mc, "data": data, "deviation": bool(rng.chance(0.5 if unit_root else 0.3)), "rescale": bool(rng.chance(0.3))}
    if unit_root:
        # the steady state is a path: the level the random walk starts from (deviation data are taken relative to this path)
        case["unit_level"] = round(-5 + 10 * rng.random(), 1)
    if noncontiguous:
        # observations in the in-between periods are present in the databox and must not be used
        p_miss = 0.15
        data["mask"] = [[0 if rng.chance(p_miss) else 1 for _ in r] for r in data["mask"]]
        data["std_e_t"] = None; data["std_w_t"] = None
        case["sel"] = gen_sel(rng, nper); case["sel_as_span"] = bool(rng.chance(0.7))
        if not any(any(data["mask"][t]) for t in case["sel"]):
            data["mask"][case["sel"][0]][0] = 1
    return case


def gen_callseq_case(rng, nper_max=8):
    """a sequence of calls on ONE solved model object, options drawn independently per call"""
    mc = gen_model(rng)
    nper = rng.randint(5, nper_max)
    data = gen_data(rng, mc, nper)
    calls = []
    for i in range(rng.randint(3, 4)):
        kind = rng.weighted([("filter", 6), ("nll", 2), ("simulate", 2)])
        call = {"kind": kind, "deviation": bool(rng.chance(0.5)), "rescale": bool(rng.chance(0.25)), "sel": None}
        if kind != "simulate" and rng.chance(0.3):
            call["sel"] = gen_sel(rng, nper); call["sel_as_span"] = bool(rng.chance(0.7))
        elif kind != "simulate" and rng.chance(0.3):
            a = rng.randint(0, nper - 3); call["sel"] = None; call["sub"] = [a, rng.randint(a + 2, nper - 1)]
        calls.append(call)
    if not any(c["kind"] == "filter" for c in calls[1:]):
        calls.append({"kind": "filter", "deviation": not calls[0]["deviation"], "rescale": False, "sel": None})
    # between the calls the object's state may change WITHOUT a new solve(): stds of transition and/or measurement shocks are
    # re-assigned or rescaled (they do not enter the first-order solution), the object is replaced by a copy of itself
    std_choices = [0.2, 0.5, 1.0, 1.3, 2.0]
    def mutation():
        kind = rng.weighted([("assign_stds", 4), ("rescale_stds", 3), ("copy", 2)])
        if kind == "assign_stds":
            which = rng.choice(["e", "w", "both"])
            return {"kind": kind,
                    "std_e": [rng.choice(std_choices) for _ in mc["std_e"]] if which in ("e", "both") else None,
                    "std_w": [rng.choice([0.1, 0.3, 0.7, 1.0]) for _ in mc["std_w"]] if which in ("w", "both") else None}
        if kind == "rescale_stds":
            return {"kind": kind, "factor": rng.choice([0.5, 1.5, 2.0, 3.0])}
        return {"kind": kind}
    out = []
    for i, call in enumerate(calls):
        out.append(call)
        if i < len(calls) - 1 and rng.chance(0.5):
            out.append(mutation())
            if rng.chance(0.25):
                out.append(mutation())
    calls = out
    if rng.chance(0.6) and not any(c["kind"] in ("assign_stds", "rescale_stds") for c in calls):
        calls += [mutation() if rng.chance(0.5) else {"kind": "rescale_stds", "factor": 2.0},
                  {"kind": "filter", "deviation": False, "rescale": False, "sel": None}]
    if calls[-1]["kind"] in ("assign_stds", "rescale_stds", "copy"):
        calls.append({"kind": "filter", "deviation": bool(rng.chance(0.3)), "rescale": False, "sel": None})
    return {"mc": mc, "data": data, "calls": calls}


def apply_mutation(m, mc_now, call):
    """apply a state-changing op to the model object and to the oracle's parameter record; returns the (possibly new) object"""
    if call["kind"] == "assign_stds":
        vals = {}
        if call.get("std_e") is not None:
            mc_now["std_e"] = [float(v) for v in call["std_e"]]
            vals.update({f"std_e{j}": v for j, v in enumerate(mc_now["std_e"])})
        if call.get("std_w") is not None:
            mc_now["std_w"] = [float(v) for v in call["std_w"]]
            vals.update({f"std_w{j}": v for j, v in enumerate(mc_now["std_w"])})
        if vals:
            m.assign(**vals)
    elif call["kind"] == "rescale_stds":
        m.rescale_stds(call["factor"])
        mc_now["std_e"] = [float(v) * call["factor"] for v in mc_now["std_e"]]
        mc_now["std_w"] = [float(v) * call["factor"] for v in mc_now["std_w"]]
    elif call["kind"] == "copy":
        m = m.copy()
    return m


def callseq_subcase(case, call, mc_now=None):
    """the e2e case of one call of a sequence (sub-spans are expressed as a consecutive `sel`), with the parameters in force"""
    data = case["data"]
    c = {"mc": mc_now or case["mc"], "data": data, "deviation": call["deviation"], "rescale": call["rescale"], "sel": call.get("sel"),
         "sel_as_span": call.get("sel_as_span", True)}
    if call.get("sub"):
        a, b = call["sub"]
        c["sel"] = list(range(a, b + 1)); c["sel_as_span"] = True
    if c["sel"] is not None and data["std_e_t"] is not None:
        data = dict(data); data["std_e_t"] = None; data["std_w_t"] = None
        c["data"] = data
    return c


def e2e_span(nper):
    import irispie as ir
    start = ir.qq(2020, 1)
    return start, start >> (start + (nper - 1))


def steady_path(mc, nper, level=0.0):
    """a deterministic solution path of the model (all shocks zero) on the log scale for log-variables: the constant steady state
    for a stationary model; with a unit-root variable a time-varying path -- its level starts at `level` before the first period
    and grows by the drift, and every observable loading on it moves along.  Returns (x path nper x nx, observable path nper x ny)."""
    T, P, K, Z, H, D = companion(mc)
    mean, _, xi = initial_law(mc)
    sv = mean.copy()
    if xi is not None:
        sv = sv + xi[:, 0] * float(level)
    nx = len(mc["logx"])
    xs, ys = [], []
    for _ in range(nper):
        sv = T @ sv + K
        xs.append(sv[:nx].copy()); ys.append(Z @ sv + D)
    return np.array(xs).reshape(nper, nx), np.array(ys).reshape(nper, -1)


def case_path(case):
    """steady path of an e2e case over its data periods (level of the unit-root variable from the case)"""
    return steady_path(case["mc"], case["data"]["nper"], case.get("unit_level", 0.0))


def steady_logscale(mc):
    """steady state of (x, o) on the log scale for log-variables, from the coefficient arrays alone"""
    T, P, K, Z, H, D = companion(mc)
    if mc.get("unit") is not None:
        raise ValueError("no steady state with a unit root")
    sbar = np.linalg.solve(np.eye(T.shape[0]) - T, K)
    nx = len(mc["logx"])
    return sbar[:nx], Z @ sbar + D


def effective(case):
    """a filter span that is not a consecutive run (`sel` = the selected period positions): the filter runs through every period
    from the first to the last selected one, only observations dated in the selected periods are data; the periods in between are
    periods without observations.  Returns the equivalent case on the contiguous range (identity when `sel` is None)."""
    sel = case.get("sel")
    if sel is None:
        return case
    d = case["data"]; lo, hi = min(sel), max(sel); ny = len(case["mc"]["logy"])
    de = dict(d)
    de["y"] = d["y"][lo:hi + 1]
    de["mask"] = [list(d["mask"][t]) if t in sel else [0] * ny for t in range(lo, hi + 1)]
    de["std_e_t"] = d["std_e_t"][lo:hi + 1] if d["std_e_t"] is not None else None
    de["std_w_t"] = d["std_w_t"][lo:hi + 1] if d["std_w_t"] is not None else None
    de["nper"] = hi - lo + 1
    ce = dict(case); ce["data"] = de; ce["sel"] = None
    return ce


def prepare_e2e(case, m=None):
    """model object, input databox (ALL periods of the data, also those not in the filter span), the span handed to the filter,
    the contiguous span the filter runs through, keyword arguments"""
    import irispie as ir
    mc, data = case["mc"], case["data"]
    m = m or build_model(mc)
    start, span = e2e_span(data["nper"])
    dev_of = case_path(case)[1] if case["deviation"] else None
    db = databox_of(mc, data, start, deviation_of=dev_of)
    kw = dict(stds_from_data=data["std_e_t"] is not None, deviation=case["deviation"], rescale_variance=case["rescale"])
    sel = case.get("sel")
    if sel is None:
        return m, db, span, span, kw
    lo, hi = min(sel), max(sel)
    steps = set(b - a for a, b in zip(sel, sel[1:]))
    if len(steps) == 1 and case.get("sel_as_span", True):
        fspan = ir.Span(start + lo, start + hi, steps.pop())
    else:
        fspan = tuple(start + i for i in sel)
    return m, db, fspan, (start + lo) >> (start + hi), kw


def run_e2e(case, m=None, **extra):
    """kalman_filter on the case; deviation cases get data minus steady state (log-variables: divided by it); returns the
    contiguous span the filter runs through (= the filter span unless `sel` is given)"""
    m, db, fspan, span, kw = prepare_e2e(case, m)
    kw = dict(kw, return_info=True)
    kw.update(extra)
    out, info = m.kalman_filter(db, fspan, **kw)
    return m, db, span, out, info


def e2e_batch(case) -> Batch:
    """joint Gaussian of the case from the coefficient arrays alone (companion form, own Lyapunov solve)"""
    full_case = case
    case = effective(case)
    mc, data = case["mc"], case["data"]
    T, P, K, Z, H, D = companion(mc)
    mean, Q, xi = initial_law(mc)
    nper = data["nper"]
    se = data["std_e_t"] or [mc["std_e"]] * nper
    sw = data["std_w_t"] or [mc["std_w"]] * nper
    y = [np.array(r, dtype=float) for r in data["y"]]
    if case["deviation"]:
        # data minus the (possibly time-varying) steady path; constants dropped; a unit-root level stays a fixed unknown
        lo = min(full_case["sel"]) if full_case.get("sel") is not None else 0
        ypath = steady_path(mc, lo + nper, full_case.get("unit_level", 0.0))[1][lo:]
        y = [r - ypath[t] for t, r in enumerate(y)]
        K = np.zeros_like(K); D = np.zeros_like(D); mean = np.zeros_like(mean)
    mk = lambda a: Batch(T, P, K, Z, H, D, a, Q, se, sw, [np.zeros(P.shape[1])] * nper, [np.zeros(H.shape[1])] * nper, y, data["mask"])
    B = mk(mean)
    if xi is not None:
        delta = gls_delta(B, xi)
        if delta is None:
            B.unidentified = True
            return B
        B = mk(mean + xi @ delta)
        B.delta = delta
    return B


def gls_delta(B: Batch, xi):
    """GLS estimate of a fixed unknown initial condition a_init + xi*delta on the stacked system (None if not identified)"""
    if len(B.Y) == 0:
        return None
    S = B.C @ B.Sig @ B.C.T
    M = B.C @ B.A_init.T @ xi
    if np.linalg.cond(S) > 1e8:
        return None
    G = M.T @ np.linalg.solve(S, M)
    if np.linalg.cond(G) > 1e8:
        return None
    resid = B.Y - (B.C @ B.mu + B.c)
    return np.linalg.solve(G, M.T @ np.linalg.solve(S, resid))


def var_key(name, is_log):
    return f"log({name})" if is_log else name


def lean_case_of_e2e(case, m):
    """the filter's own inputs (triangular solution, initial moments, per-period stds and data) as a direct-stream case"""
    from irispie.fords import initializers
    from irispie.fords.descriptors import Squid
    full_case = case
    case = effective(case)
    mc, data = case["mc"], case["data"]
    sol = m._gets_solution(deviation=case["deviation"])
    cov_u = m._gets_cov_transition_shocks()
    a, Q, xi = initializers.initialize(sol, cov_u, diffuse_method="fixed_unknown", diffuse_scale=None)
    squid = Squid.from_squidable(m)
    q2n = m.create_qid_to_name()
    u_names = [q2n[q] for q in squid.u_qids]; w_names = [q2n[q] for q in squid.w_qids]; y_names = [q2n[q] for q in squid.y_qids]
    nper = data["nper"]
    se = data["std_e_t"] or [mc["std_e"]] * nper
    sw = data["std_w_t"] or [mc["std_w"]] * nper
    lo = min(full_case["sel"]) if full_case.get("sel") is not None else 0
    ybar = steady_path(mc, lo + nper, full_case.get("unit_level", 0.0))[1][lo:] if case["deviation"] else None
    ys, masks = [], []
    for t in range(nper):
        row, mrow = [], []
        for nm in y_names:
            i = int(nm[1:])
            v = data["y"][t][i] - (ybar[t][i] if case["deviation"] else 0.0)
            if mc["logy"][i]:
                v = float(np.log(np.exp(v)))
            row.append(float(v)); mrow.append(int(data["mask"][t][i]))
        ys.append(row); masks.append(mrow)
    lc = {"T": sol.Ta.tolist(), "P": sol.Pa.tolist(), "K": sol.Ka.tolist(), "Z": sol.Za.tolist(), "H": sol.H.tolist(),
          "D": sol.D.tolist(), "a": a.tolist(), "Q": Q.tolist(), "xi": None if xi is None else xi.tolist(),
          "stdu": [[r[int(nm[1:])] for nm in u_names] for r in se], "stdw": [[r[int(nm[1:])] for nm in w_names] for r in sw],
          "u0": [[0.0] * len(u_names)] * nper, "w0": [[0.0] * len(w_names)] * nper, "y": ys, "mask": masks,
          "rescale": case["rescale"], "p_none": False}
    maps = {"Ua_sel": sol.Ua[list(squid.curr_xi_indexes), :], "x_names": [q2n[q] for q in squid.curr_xi_qids],
            "u_names": u_names, "w_names": w_names, "y_names": y_names}
    return lc, maps


# ---------------------------------------------------------------------------------------
# several parameter variants in one model object
# ---------------------------------------------------------------------------------------

def gen_variant_case(rng, nper_max=8):
    """2-3 parameter variants differing in own-lag coefficients, constants and stds (all enter the solution / the filter)"""
    mc0 = gen_model(rng)
    nx = len(mc0["logx"]); ny = len(mc0["logy"])
    mcs = [mc0]
    for _ in range(rng.randint(1, 2)):
        mc = json_copy(mc0)
        room = [0.9 - (sum(abs(v) for v in mc0["A0"][i]) + sum(abs(v) for k, v in enumerate(mc0["A1"][i]) if k != i)
                       + sum(abs(v) for v in mc0["A2"][i])) for i in range(nx)]
        for i in range(nx):
            mc["A1"][i][i] = round((-1 if rng.chance(0.3) else 1) * max(0.0, room[i]) * (0.2 + 0.7 * rng.random()), 2)
            mc["c"][i] = r2(rng, -1, 1)
        mc["d"] = [r2(rng, -1, 1) for _ in range(ny)]
        mc["std_e"] = [rng.choice([0.2, 0.5, 1.0, 1.3]) for _ in mc0["std_e"]]
        mcs.append(mc)
    nper = rng.randint(3, nper_max)
    data = gen_data(rng, mc0, nper)
    # options that each work alone must also work with several variants: variance rescaling, deviation mode, stds from data
    return {"mcs": mcs, "data": data, "rescale": bool(rng.chance(0.5)), "deviation": bool(rng.chance(0.3))}


def variant_subcases(case):
    """the single-variant e2e case of every variant.  All variants see the same databox; in deviation mode it holds the data minus
    the steady state of variant 0, so variant v's level-equivalent data are shifted by the difference of the steady states"""
    out = []
    dev = bool(case.get("deviation"))
    y0bar = steady_logscale(case["mcs"][0])[1] if dev else None
    for mc in case["mcs"]:
        data = case["data"]
        if dev:
            yv = steady_logscale(mc)[1]
            data = dict(data); data["y"] = [list(np.array(r, dtype=float) - y0bar + yv) for r in case["data"]["y"]]
        out.append({"mc": mc, "data": data, "deviation": dev, "rescale": bool(case.get("rescale"))})
    return out


def json_copy(x):
    import json
    return json.loads(json.dumps(x))


def build_model_variants(mcs):
    import irispie as ir
    mc0 = mcs[0]; nv = len(mcs)
    nx = len(mc0["logx"]); ny = len(mc0["logy"])
    m = ir.Simultaneous.from_string(model_source(mc0, params=True), linear=True, flatten=True)
    m.alter_num_variants(nv)
    vals = {}
    for i in range(nx):
        vals[f"pa{i}"] = [float(mc["A1"][i][i]) for mc in mcs]; vals[f"pc{i}"] = [float(mc["c"][i]) for mc in mcs]
    for i in range(ny):
        vals[f"pd{i}"] = [float(mc["d"][i]) for mc in mcs]
    for j in range(len(mc0["std_e"])):
        vals[f"std_e{j}"] = [float(mc["std_e"][j]) for mc in mcs]
    for j in range(len(mc0["std_w"])):
        vals[f"std_w{j}"] = [float(mc["std_w"][j]) for mc in mcs]
    m.assign(**vals)
    m.steady()
    m.solve()
    return m


def run_variants(case, **extra):
    data = case["data"]
    m = build_model_variants(case["mcs"])
    start, span = e2e_span(data["nper"])
    dev = bool(case.get("deviation"))
    db = databox_of(case["mcs"][0], data, start, deviation_of=steady_logscale(case["mcs"][0])[1] if dev else None)
    kw = dict(return_info=True, stds_from_data=data["std_e_t"] is not None, deviation=dev, rescale_variance=bool(case.get("rescale")))
    kw.update(extra)
    out, info = m.kalman_filter(db, span, **kw)
    return m, db, span, out, info


def slice_databox(dbx, v, nv, span):
    """single-variant view (column v) over `span` of every series of a multi-variant output databox"""
    import irispie as ir
    res = ir.Databox()
    for name in dbx.keys():
        try:
            arr = np.array(dbx[name].get_data(span), dtype=float)
        except Exception:
            continue
        arr = arr.reshape(arr.shape[0], -1)
        col = arr[:, v] if arr.shape[1] == nv else arr[:, 0]
        res[name] = ir.Series(start=span.start, values=np.array(col, dtype=float))
    return res


def slice_variant(out, info, v, nv, span):
    out_v = {k: slice_databox(out[k], v, nv, span) for k in ("predict_med", "predict_std", "update_med", "update_std", "smooth_med", "smooth_std")}
    return out_v, info[v]


# ---------------------------------------------------------------------------------------
# forward-looking models, shock means (unanticipated, anticipated, measurement) from data, operation sequences on one object
# ---------------------------------------------------------------------------------------

def gen_sequence_case(rng, nper_max=8):
    mc = gen_model(rng, forward=bool(rng.chance(0.75)))
    nper = rng.randint(4, nper_max)
    data = gen_data(rng, mc, nper)
    ne = len(mc["std_e"]); nw = len(mc["std_w"])
    z = lambda n: [[0.0] * n for _ in range(nper)]
    ue, ae, we = z(ne), z(ne), z(nw)
    for t in range(nper):
        for j in range(ne):
            if rng.chance(0.25): ue[t][j] = r2(rng, -1, 1)
            if t >= 1 and rng.chance(0.3): ae[t][j] = r2(rng, -1, 1)
        for j in range(nw):
            if rng.chance(0.2): we[t][j] = r2(rng, -0.5, 0.5)
    if not any(any(r) for r in ae):
        ae[nper - 1][0] = 0.5
    # every op sees the anticipated shocks only up to its own horizon (last period with a non-zero anticipated value): the horizons of
    # consecutive ops on the same object grow, shrink or stay
    pat = rng.choice([["filter"], ["simulate", "filter"], ["filter", "filter"], ["filter", "filter", "filter"],
                      ["filter", "simulate", "filter"], ["simulate", "filter", "filter"]])
    ops = [[op, rng.randint(1, nper - 1)] for op in pat]
    if len(ops) > 1 and rng.chance(0.6):
        hs = sorted(h for _, h in ops)
        if hs[0] == hs[-1]: hs[0] = max(1, hs[-1] - 2)
        ops = [[op, h] for (op, _), h in zip(ops, hs)]            # increasing horizons: cached expansions get extended
    for _, h in ops:
        if not any(ae[h]): ae[h][0] = 0.5
    # state changes of the object between the ops, without a new solve(): stds re-assigned / rescaled, object replaced by its copy
    if len(ops) > 1 and rng.chance(0.5):
        mut = rng.choice([["rescale_stds", rng.choice([0.5, 2.0, 3.0])], ["copy", None],
                          ["assign_stds", {"kind": "assign_stds", "std_e": [rng.choice([0.2, 0.5, 1.0, 2.0]) for _ in mc["std_e"]],
                                           "std_w": [rng.choice([0.1, 0.3, 0.7]) for _ in mc["std_w"]]}]])
        ops.insert(rng.randint(1, len(ops) - 1), mut)
    return {"mc": mc, "data": data, "deviation": False, "rescale": False, "u_mean": ue, "ant": ae, "w_mean": we, "ops": ops}


def run_sequence(case):
    """the listed operations on ONE solved model object; returns one (db, span, out, info, ant) per filter call"""
    import irispie as ir
    mc, data = case["mc"], case["data"]
    m = build_model(mc)
    start, span = e2e_span(data["nper"])
    nper = data["nper"]
    results = []
    mc_now = json_copy(mc)
    for op, h in case["ops"]:
        if op in ("assign_stds", "rescale_stds", "copy"):
            call = h if op == "assign_stds" else ({"kind": op, "factor": h} if op == "rescale_stds" else {"kind": op})
            m = apply_mutation(m, mc_now, call)
            continue
        ant = [list(r) if t <= h else [0.0] * len(r) for t, r in enumerate(case["ant"])]
        db = databox_of(mc, data, start)
        for j in range(len(mc["std_e"])):
            db[f"e{j}"] = ir.Series(start=start, values=np.array([r[j] for r in case["u_mean"]], dtype=float))
            db[f"ant_e{j}"] = ir.Series(start=start, values=np.array([r[j] for r in ant], dtype=float))
        for j in range(len(mc["std_w"])):
            db[f"w{j}"] = ir.Series(start=start, values=np.array([r[j] for r in case["w_mean"]], dtype=float))
        if op == "simulate":
            sdb = ir.Databox.steady(m, span)
            for j in range(len(mc["std_e"])):
                sdb[f"ant_e{j}"] = db[f"ant_e{j}"].copy()
                sdb[f"e{j}"] = db[f"e{j}"].copy()
            m.simulate(sdb, span, method="first_order")
        else:
            out, info = m.kalman_filter(db, span, return_info=True, shocks_from_data=True)
            results.append((db, span, out, info, ant))
    case["_mc_now"] = mc_now
    return m, results
