#!/usr/bin/env python3
"""
run_seeded.py <dir-with-patch.diff+demo.py+meta.json> [--tier quick|thorough] [--props C09,C11]

Confirms a seeded change (tests are NOT re-run here: see meta.json / the confirmation log) and runs the /verif
check(s) against it in a scratch worktree of /repo (VERIF_REPO), never in /repo itself:

  1. git worktree add /tmp/ws-<name> HEAD ; demo.py must exit 0 on the clean worktree
  2. git apply patch.diff ; demo.py must exit non-zero with the change
  3. VERIF_REPO=/tmp/ws-<name> ./check <prop> --tier <tier>   (expect exit 1 + VIOLATION line with a replay)
  4. worktree removed; generated Lean files regenerated from /repo

Prints one JSON line with the outcome and appends it to <dir>/verdict.json.
"""
import sys, os, json, subprocess, shutil, argparse, time

VERIF = os.path.dirname(os.path.dirname(os.path.abspath(__file__)))


def sh(cmd, **kw):
    return subprocess.run(cmd, shell=True, text=True, stdout=subprocess.PIPE, stderr=subprocess.STDOUT, **kw)


def main():
    ap = argparse.ArgumentParser()
    ap.add_argument("dir")
    ap.add_argument("--tier", default="quick")
    ap.add_argument("--props", default="")
    ap.add_argument("--seed", default="0")
    a = ap.parse_args()
    d = os.path.abspath(a.dir)
    meta = json.load(open(os.path.join(d, "meta.json")))
    props = [p for p in a.props.split(",") if p] or [meta["property"]]
    name = os.path.basename(os.path.dirname(d)) + "-" + os.path.basename(d)
    wt = f"/tmp/ws-{name}"
    sh(f"git -C /repo worktree remove --force {wt}")
    r = sh(f"git -C /repo worktree add -q {wt} HEAD")
    out = {"dir": d, "props": props, "tier": a.tier}
    # the evidence files belong to runs against /repo itself: keep them, restore them afterwards
    saved = {}
    for p in props:
        ef = os.path.join(VERIF, "evidence", f"{p}.json")
        if os.path.exists(ef):
            saved[ef] = open(ef).read()
    try:
        env = dict(os.environ, PYTHONPATH=f"{wt}/src")
        r0 = subprocess.run(["/venv/bin/python", os.path.join(d, "demo.py")], env=env, cwd=wt, stdout=subprocess.PIPE, stderr=subprocess.STDOUT, text=True, timeout=1800)
        out["demo_clean_rc"] = r0.returncode
        ap_ = sh(f"git -C {wt} apply {d}/patch.diff")
        out["patch_applies"] = ap_.returncode == 0
        if ap_.returncode != 0:
            out["apply_error"] = ap_.stdout[-500:]
        r1 = subprocess.run(["/venv/bin/python", os.path.join(d, "demo.py")], env=env, cwd=wt, stdout=subprocess.PIPE, stderr=subprocess.STDOUT, text=True, timeout=1800)
        out["demo_mutant_rc"] = r1.returncode
        out["demo_mutant_tail"] = r1.stdout[-400:]
        out["checks"] = {}
        for p in props:
            t0 = time.time()
            env2 = dict(os.environ, VERIF_REPO=wt, VERIF_SEED=a.seed)
            env2.pop("PYTHONPATH", None)
            rc = subprocess.run([os.path.join(VERIF, "check"), p, "--tier", a.tier], env=env2, cwd=VERIF, stdout=subprocess.PIPE, stderr=subprocess.STDOUT, text=True, timeout=7200)
            lines = [l for l in rc.stdout.split("\n") if l.startswith("VIOLATION") or l.startswith("KNOWN-FINDING") or l.startswith("INTERNAL") or l.startswith(f"[{p}]")]
            replay = None
            for l in lines:
                if l.startswith("VIOLATION") and "replay=" in l:
                    rp = l.split("replay=")[1].split()[0]
                    if os.path.exists(rp):
                        rj = json.load(open(rp))
                        replay = {"kind": rj.get("kind"), "site": rj.get("site"), "case": str(rj.get("case"))[:300], "detail": str(rj.get("detail"))[:300],
                                  "broken_ties": [str(x)[:200] for x in rj.get("broken_ties", [])][:4], "no_failing_input": "no-failing-input-found" in l}
                    break
            out["checks"][p] = {"rc": rc.returncode, "wall_s": round(time.time() - t0, 1), "lines": lines[-6:], "replay": replay}
    finally:
        sh(f"git -C /repo worktree remove --force {wt}")
        sh(f"cd {VERIF} && /venv/bin/python tools/py2lean.py --repo /repo")
        for ef, txt in saved.items():
            open(ef, "w").write(txt)
        import glob
        for pr in props:
            for f in glob.glob(os.path.join(VERIF, "replays", f"{pr}-seed*.json")):
                os.remove(f)
    print(json.dumps(out, indent=1))
    with open(os.path.join(d, "verdict.json"), "w") as f:
        json.dump(out, f, indent=1)


if __name__ == "__main__":
    main()
