/-
Lemmas about the model of Python's `range` (IrisVerif.Model.Spans). Core Lean only.
-/
import IrisVerif.Model.Spans

namespace IrisVerif.Dates

theorem pyRange_length (lo hi step : Int) : (pyRange lo hi step).length = pyRangeLen lo hi step := by
  simp [pyRange]

theorem pyRange_getElem (lo hi step : Int) (i : Nat) (h : i < (pyRange lo hi step).length) :
    (pyRange lo hi step)[i] = lo + (i : Int) * step := by
  simp [pyRange]

/-- index `i` is inside a forward range iff the element is below the stop -/
theorem lt_pyRangeLen_pos (lo hi step : Int) (hs : 0 < step) (i : Nat) :
    i < pyRangeLen lo hi step ↔ lo + (i : Int) * step < hi := by
  unfold pyRangeLen
  simp only [hs, if_true]
  split
  · rename_i hlt
    have hq : 0 ≤ (hi - lo - 1) / step := Int.ediv_nonneg (by omega) (by omega)
    have key : (i : Int) ≤ (hi - lo - 1) / step ↔ (i : Int) * step ≤ hi - lo - 1 :=
      Int.le_ediv_iff_mul_le hs
    constructor
    · intro h
      have : (i : Int) ≤ (hi - lo - 1) / step := by omega
      have := key.mp this; omega
    · intro h
      have : (i : Int) ≤ (hi - lo - 1) / step := key.mpr (by omega)
      omega
  · rename_i hge
    constructor
    · intro h; omega
    · intro h
      have : 0 ≤ (i : Int) * step := Int.mul_nonneg (by omega) (by omega)
      omega

theorem lt_pyRangeLen_neg (lo hi step : Int) (hs : step < 0) (i : Nat) :
    i < pyRangeLen lo hi step ↔ hi < lo + (i : Int) * step := by
  unfold pyRangeLen
  have hns : ¬ (step > 0) := by omega
  simp only [hns, if_false, hs, if_true]
  split
  · rename_i hlt
    have hq : 0 ≤ (lo - hi - 1) / (-step) := Int.ediv_nonneg (by omega) (by omega)
    have key : (i : Int) ≤ (lo - hi - 1) / (-step) ↔ (i : Int) * (-step) ≤ lo - hi - 1 :=
      Int.le_ediv_iff_mul_le (by omega)
    have e : (i : Int) * (-step) = -((i : Int) * step) := by rw [Int.mul_neg]
    constructor
    · intro h
      have : (i : Int) ≤ (lo - hi - 1) / (-step) := by omega
      have := key.mp this; omega
    · intro h
      have : (i : Int) ≤ (lo - hi - 1) / (-step) := key.mpr (by omega)
      omega
  · rename_i hge
    constructor
    · intro h; omega
    · intro h
      have : 0 ≤ (i : Int) * (-step) := Int.mul_nonneg (by omega) (by omega)
      have e : (i : Int) * (-step) = -((i : Int) * step) := by rw [Int.mul_neg]
      omega

/-- `range(lo, hi, step)` enumerates exactly `lo, lo+step, …` strictly before `hi` (in the direction of `step`). -/
theorem mem_pyRange (lo hi step x : Int) (hs : step ≠ 0) :
    x ∈ pyRange lo hi step ↔
      ∃ i : Nat, x = lo + (i : Int) * step ∧ (0 < step → x < hi) ∧ (step < 0 → hi < x) := by
  unfold pyRange
  simp only [List.mem_map, List.mem_range]
  rcases Int.lt_or_gt_of_ne hs with hneg | hpos
  · constructor
    · rintro ⟨i, hi', rfl⟩
      exact ⟨i, rfl, fun h => by omega, fun _ => (lt_pyRangeLen_neg lo hi step hneg i).mp hi'⟩
    · rintro ⟨i, rfl, _, h2⟩
      exact ⟨i, (lt_pyRangeLen_neg lo hi step hneg i).mpr (h2 hneg), rfl⟩
  · constructor
    · rintro ⟨i, hi', rfl⟩
      exact ⟨i, rfl, fun _ => (lt_pyRangeLen_pos lo hi step hpos i).mp hi', fun h => by omega⟩
    · rintro ⟨i, rfl, h1, _⟩
      exact ⟨i, (lt_pyRangeLen_pos lo hi step hpos i).mpr (h1 hpos), rfl⟩

theorem pyRange_shift (lo hi step k : Int) :
    pyRange (lo + k) (hi + k) step = (pyRange lo hi step).map (· + k) := by
  have hl : pyRangeLen (lo + k) (hi + k) step = pyRangeLen lo hi step := by
    unfold pyRangeLen
    have e1 : hi + k - (lo + k) - 1 = hi - lo - 1 := by omega
    have e2 : lo + k - (hi + k) - 1 = lo - hi - 1 := by omega
    have e3 : (lo + k < hi + k) = (lo < hi) := by apply propext; omega
    have e4 : (hi + k < lo + k) = (hi < lo) := by apply propext; omega
    simp only [e1, e2, e3, e4]
  unfold pyRange
  rw [hl, List.map_map]
  apply List.map_congr_left
  intro i _
  simp only [Function.comp]
  omega

theorem mul_le_mul_iff_pos (i m : Nat) (step : Int) (hpos : 0 < step) :
    (i : Int) * step ≤ (m : Int) * step ↔ i ≤ m := by
  constructor
  · intro h
    apply Nat.le_of_not_lt
    intro hlt
    have : (m : Int) * step < (i : Int) * step := Int.mul_lt_mul_of_pos_right (by omega) hpos
    omega
  · intro h
    exact Int.mul_le_mul_of_nonneg_right (by omega) (by omega)

theorem sign_pos {x : Int} (h : 0 < x) : sign x = 1 := by simp [sign, h]
theorem sign_neg {x : Int} (h : x < 0) : sign x = -1 := by
  have h1 : ¬ x > 0 := by omega
  have h2 : x ≠ 0 := by omega
  simp [sign, h1, h2]

theorem pyRangeLen_exact (a step : Int) (m : Nat) (hs : step ≠ 0) :
    pyRangeLen a (a + (m : Int) * step + sign step) step = m + 1 := by
  have key : ∀ i : Nat, i < pyRangeLen a (a + (m : Int) * step + sign step) step ↔ i ≤ m := by
    intro i
    rcases Int.lt_or_gt_of_ne hs with hneg | hpos
    · rw [lt_pyRangeLen_neg _ _ _ hneg, sign_neg hneg]
      have hk := mul_le_mul_iff_pos i m (-step) (by omega)
      rw [Int.mul_neg, Int.mul_neg] at hk
      rw [← hk]; omega
    · rw [lt_pyRangeLen_pos _ _ _ hpos, sign_pos hpos]
      have hk := mul_le_mul_iff_pos i m step hpos
      rw [← hk]; omega
  have h1 := (key m).mpr (Nat.le_refl m)
  have h2 := mt (key (m + 1)).mp (by omega)
  omega

/-- when the end is reachable from the start (`end = start + m·step`) the reversed span enumerates the
same periods in the opposite order -/
theorem pyRange_reverse (a step : Int) (m : Nat) (hs : step ≠ 0) :
    pyRange (a + (m : Int) * step) (a + sign (-step)) (-step) =
      (pyRange a (a + (m : Int) * step + sign step) step).reverse := by
  have hs' : -step ≠ 0 := by omega
  have hlen := pyRangeLen_exact a step m hs
  have hlen' : pyRangeLen (a + (m : Int) * step) (a + sign (-step)) (-step) = m + 1 := by
    have := pyRangeLen_exact (a + (m : Int) * step) (-step) m hs'
    have e : a + (m : Int) * step + (m : Int) * (-step) + sign (-step) = a + sign (-step) := by
      rw [Int.mul_neg]; omega
    rw [e] at this; exact this
  apply List.ext_getElem
  · simp [pyRange_length, hlen, hlen']
  · intro i h1 h2
    rw [pyRange_getElem, List.getElem_reverse, pyRange_getElem]
    simp only [pyRange_length, hlen]
    have hi : i < m + 1 := by simpa [pyRange_length, hlen'] using h1
    have e : ((m + 1 - 1 - i : Nat) : Int) = (m : Int) - i := by omega
    rw [e, Int.mul_neg, Int.sub_mul]
    omega

end IrisVerif.Dates
