"""
C11 -- Period conversions round-trip; frequency conversion preserves containment.

Correspondence: Lean model IrisVerif/Model/{Dates,DateFormats}.lean (driver C11) vs irispie.dates,
exact text (class E). Oracle: the round-trip identities evaluated on the implementation itself
and containment / monotonicity / coarse-fine-coarse through datetime.
"""
from __future__ import annotations
import datetime as dt

import irispie as ir
from irispie import dates as D

from .common import Ctx, err_kind
from .c09 import CLS, FREQ, LETTER, FVAL, REG, MAXORD, show_period, day_ordinals, regular_serials

DRIVERS = ["C11"]
LEVEL = "proof"
EXTRA_PROPS = ['GenTieC09']   # further property modules audited with this check (translator ties)
ASSUMPTIONS = [
    "Python's format mini-language (:04g, :02g), str.split/strip, int() and the re module are tied to the model's character-level functions by exact correspondence on every produced string plus a malformed stream, not by proof",
    "strings are ASCII: Python's \\d and int() also accept non-ASCII decimal digits, which the model's matcher does not represent",
    "supported calendar: years 1..9999 (datetime); regular periods of year 0 are included where no datetime call is involved",
]
MANIFEST = {
    "category": "proof",
    "text": ("Lean 4 theorems about an executable model of the period conversions in dates.py, for every period of every frequency in the "
             "supported calendar: from_ymd(to_ymd(p, pos)) = p for all three positions, eval(repr(p)) = p, from_iso(to_iso(p, pos)) = p, "
             "from_sdmx(to_sdmx(p)) = p with the frequency auto-detected by the model's matcher for the regular-expression subset used by "
             "SDMX_REXP_FORMATS (the pattern TEXT is regenerated from dates.py on every run, so a changed pattern re-checks the proofs); "
             "refrequent returns the target period containing the chosen day of the source period (containment as day intervals), is monotone, "
             "and coarse->fine->coarse returns the original period for every pair of positions; periods_from_sdmx_strings of the strings of "
             "any list of same-frequency periods (gaps, repetitions, any order) returns that list, frequency given or detected. Tie: translator for formulas, tables and "
             "patterns; exact correspondence of every produced string and conversion (quick: 1890-2110 + boundary years, all frequency pairs "
             "and positions; thorough: years 1-9999) plus malformed-string and string-sequence streams; independent datetime oracle on the implementation, also through the function "
             "forms/aliases of refrequent and the sequence forms (periods_from_*/daters_from_*/Span.to_*_strings)."),
    "design": "7/C11",
    "note": "Python's format/split/int/re are tied by correspondence on produced and malformed strings, not modelled in full.",
    "technique": "Lean 4 proof over executable model + translator-regenerated tables/patterns + exhaustive differential correspondence",
}

POS = ["start", "middle", "end"]
ALLF = ["I", "Y", "H", "Q", "M", "D"]


def impl_eval(line: str) -> str:
    try:
        if "|" in line:
            op, raw = line.split("|", 1)
            ws = op.split()
            if ws[0] == "unsdmx":
                return show_period(ir.Period.from_sdmx_string(raw))
            if ws[0] == "unsdmxas":
                return show_period(ir.Period.from_sdmx_string(raw, frequency=FREQ[ws[1]]))
            if ws[0] == "detect":
                f = ir.Frequency.from_sdmx_string(raw)
                return {v: k for k, v in FREQ.items()}.get(f, "no-class")
            if ws[0] == "uniso":
                return show_period(ir.Period.from_iso_string(raw, frequency=FREQ[ws[1]]))
            if ws[0] == "pfs":
                strs = raw.split(",") if raw != "" else []
                r = D.periods_from_sdmx_strings(strs, frequency=None if ws[1] == "-" else FREQ[ws[1]])
                return "[" + ",".join(show_period(q) for q in r) + "]"
            return "bad-op"
        ws = line.split()
        op = ws[0]
        if op == "sdmx":
            return CLS[ws[1]](int(ws[2])).to_sdmx_string()
        if op == "iso":
            return CLS[ws[1]](int(ws[2])).to_iso_string(position=ws[3])
        if op == "repr":
            return repr(CLS[ws[1]](int(ws[2])))
        if op == "rt":
            p = CLS[ws[1]](int(ws[2]))
            f = FREQ[ws[1]]
            outs = []

            def attempt(fn):
                try:
                    outs.append(show_period(fn()))
                except Exception as e:
                    outs.append(err_kind(e))
            attempt(lambda: ir.Period.from_sdmx_string(p.to_sdmx_string()))
            attempt(lambda: eval(repr(p), {"yy": ir.yy, "hh": ir.hh, "qq": ir.qq, "mm": ir.mm, "dd": ir.dd, "ii": ir.ii}))
            for pos in POS:
                attempt(lambda: ir.Period.from_ymd(f, *p.to_ymd(position=pos)))
            for pos in POS:
                attempt(lambda: ir.Period.from_iso_string(p.to_iso_string(position=pos), frequency=f))
            return " ".join(outs)
        if op == "refreq":
            return show_period(CLS[ws[1]](int(ws[2])).refrequent(FREQ[ws[3]], position=ws[4]))
        if op == "toymd":
            y, m, d = CLS[ws[1]](int(ws[2])).to_ymd(position=ws[3])
            return f"{y} {m} {d}"
        if op == "fromymd":
            return show_period(CLS[ws[1]].from_ymd(int(ws[2]), int(ws[3]), int(ws[4])))
    except Exception as e:
        return err_kind(e)
    return "bad-op"


def periods(ctx: Ctx, thin_days=1):
    """(letter, serial) over the enumerated calendar"""
    out = []
    for f in REG:
        out += [(f, s) for s in regular_serials(ctx, f)]
    ords = list(day_ordinals(ctx))
    out += [("D", n) for n in ords[::thin_days]]
    out += [("I", n) for n in (-1000001, -12, -1, 0, 1, 5, 9, 10, 99, 100, 2020, 123456789)]
    return out


def own_sdmx(f, s) -> str:
    """the SDMX string of period (f, s), formatted here (not by irispie)"""
    if f == "I":
        return f"({s})"
    if f == "D":
        return dt.date.fromordinal(s).isoformat()
    y, seg = s // FVAL[f], s % FVAL[f] + 1
    return {"Y": f"{y:04d}", "H": f"{y:04d}-H{seg}", "Q": f"{y:04d}-Q{seg}", "M": f"{y:04d}-{seg:02d}"}[f]


SEQ_BASE = {"Y": 2020, "H": 4040, "Q": 8080, "M": 24240, "D": 737425, "I": 0}


def gen_sequences(ctx: Ctx, rng):
    """lists of (f, serial) of one frequency in every arrangement the sequence forms must not care about: consecutive runs,
    gaps, repetitions, descending and shuffled orders, irregular interiors between end points that are len-1 apart"""
    out = []
    for _ in range(ctx.n(700, 12000)):
        f = rng.choice(ALLF)
        a = SEQ_BASE[f] + rng.randint(-40, 40)
        n = rng.choice([0, 1, 1, 2, 2, 3, 3, 3, 4, 5, 6, 8, 13, 30])
        shape = rng.weighted([("run", 3), ("gaps", 3), ("repeat", 3), ("desc", 2), ("shuffled", 3), ("ends-apart", 4)])
        if shape == "run":
            seq = [a + i for i in range(n)]
        elif shape == "gaps":
            seq, x = [], a
            for _ in range(n):
                seq.append(x); x += rng.choice([1, 1, 2, 3, 7])
        elif shape == "repeat":
            seq = [a + rng.randint(0, 3) for _ in range(n)]
        elif shape == "desc":
            seq = [a - i * rng.choice([1, 2]) for i in range(n)]
        elif shape == "shuffled":
            seq = [a + i for i in range(n)]
            for i in range(len(seq) - 1, 0, -1):
                j = rng.randint(0, i); seq[i], seq[j] = seq[j], seq[i]
        else:
            # first and last are len-1 apart, the interior is anything in between (repeats, gaps, disorder)
            seq = [a] + [a + rng.randint(0, max(n - 1, 0)) for _ in range(max(n - 2, 0))] + ([a + n - 1] if n >= 2 else [])
        out.append((f, shape, seq))
        ctx.count("sequence_" + shape)
    return out


def gen_lines(ctx: Ctx):
    streams = {}
    ps = periods(ctx, thin_days=3)   # regular periods: all; days: every third (quick: of 1890-2110, thorough: of years 1-9999)
    streams["roundtrip"] = [f"rt {f} {s}" for f, s in ps]
    strs = []
    for f, s in ps[:: (3 if ctx.quick else 1)]:
        strs.append(f"sdmx {f} {s}")
        strs.append(f"repr {f} {s}")
        if f != "I":
            strs.append(f"iso {f} {s} end")
    streams["strings"] = strs
    # frequency conversion: all ordered pairs, all positions
    conv = []
    thin = 7 if ctx.quick else 11
    for f, s in ps:
        if f == "I":
            continue
        if f == "D" and (s % thin):
            continue
        for g in REG + ["D"]:
            for pos in POS:
                conv.append(f"refreq {f} {s} {g} {pos}")
    streams["refrequent"] = conv
    # detection and parsing of produced and malformed strings
    rng = ctx.rng.fork("malformed")
    raw = []
    produced = ["2020", "0001", "9999", "2020-H1", "2020-H2", "2020-Q4", "2020-12", "2020-01", "2020-02-29", "(5)", "(-5)", "(+5)", "(0)", "(123456)"]
    for s in produced:
        raw += [f"detect|{s}", f"unsdmx|{s}", f"detect| {s} ", f"unsdmx| {s}  "]
        for f in ALLF:
            raw.append(f"unsdmxas {f}|{s}")
    malformed = ["", "20", "20201", "2020-", "2020-H", "2020-H3", "2020-Q0", "2020-Q5", "2020-Q12", "2020-13", "2020-00", "2020-1", "2020-W05",
                 "2020-02-30", "2020-2-3", "2019-02-29", "abcd", "2020Q1", "2020-q1", "(5", "5)", "()", "(5),", "(a)", "2020-Q1-", "2020--1",
                 "2020\t", "20 20", "-2020", "+2020", "2020-H1x", "x2020-H1", "2020-01-01-01", "0000", "0000-Q1"]
    for s in malformed:
        raw += [f"detect|{s}", f"unsdmx|{s}"]
        for f in ALLF:
            raw.append(f"unsdmxas {f}|{s}")
    alphabet = "0123456789-HQ()+ W,"
    for _ in range(ctx.n(1500, 30000)):
        base = rng.choice(produced)
        chars = list(base)
        for _ in range(rng.randint(1, 2)):
            k = rng.randint(0, 2)
            if k == 0 and chars:
                chars[rng.randint(0, len(chars) - 1)] = rng.choice(alphabet)
            elif k == 1:
                chars.insert(rng.randint(0, len(chars)), rng.choice(alphabet))
            elif chars:
                del chars[rng.randint(0, len(chars) - 1)]
        s = "".join(chars)
        raw += [f"detect|{s}", f"unsdmx|{s}"]
    isos = ["2020-02-29", "2020-2-29", "2020-02-30", "2020-02", "2020-02-29-1", " 2020-02-29", "2020-13-01", "2020-00-10", "0001-01-01", "x-1-1"]
    for s in isos:
        for f in ["Y", "H", "Q", "M", "D"]:
            raw.append(f"uniso {f}|{s}")
    streams["strings_in"] = raw
    # explicit (y, m, d) -> period, valid and invalid months/days
    fy = []
    for f in REG + ["D"]:
        for y in (1, 1900, 2000, 2020, 2023, 9999):
            for m in range(0, 14):
                for d in (0, 1, 28, 29, 30, 31, 32):
                    fy.append(f"fromymd {f} {y} {m} {d}")
    streams["fromymd"] = fy
    # periods_from_sdmx_strings: sequences in every arrangement, frequency given / auto-detected / wrong, a malformed or
    # foreign-frequency element somewhere in the list
    rs = ctx.rng.fork("sequences")
    seqs = []
    for f, shape, seq in gen_sequences(ctx, rs):
        strs = [own_sdmx(f, x) for x in seq]
        k = rs.weighted([("none", 5), ("given", 4), ("wrong", 1), ("bad-element", 1), ("foreign-element", 1)])
        freq = "-"
        if k == "given":
            freq = f
        elif k == "wrong":
            freq = rs.choice([g for g in ALLF if g != f])
        elif k == "bad-element" and strs:
            strs[rs.randint(0, len(strs) - 1)] = rs.choice(["2020-Q5", "x", "2020-13", "(", "2020-02-30"])
        elif k == "foreign-element" and strs:
            g = rs.choice([g for g in ALLF if g != f])
            strs[rs.randint(0, len(strs) - 1)] = own_sdmx(g, SEQ_BASE[g])
        seqs.append(f"pfs {freq}|" + ",".join(strs))
    streams["sequences"] = seqs
    return streams


FINER = {"Y": ["H", "Q", "M", "D"], "H": ["Q", "M", "D"], "Q": ["M", "D"], "M": ["D"], "D": []}


def in_calendar(f, s):
    if f == "D":
        return 1 <= s <= MAXORD
    return 1 <= s // FVAL[f] <= 9999


def oracle(ctx: Ctx, scale=1):
    """the property statement evaluated on the implementation with datetime as the only reference"""
    ps = periods(ctx, thin_days=(11 if ctx.quick else 29) if scale == 1 else 1)
    ns = {"yy": ir.yy, "hh": ir.hh, "qq": ir.qq, "mm": ir.mm, "dd": ir.dd, "ii": ir.ii}
    for f, s in ps:
        p = CLS[f](s)
        fr = FREQ[f]
        case = {"freq": f, "serial": s}
        ctx.evaluations += 1
        # --- round trips
        try:
            sd = p.to_sdmx_string()
            if ir.Frequency.from_sdmx_string(sd) is not fr:
                ctx.fail(f"sdmx-detect-{f}", case, f"{sd!r} detected as {ir.Frequency.from_sdmx_string(sd)}")
            elif ir.Period.from_sdmx_string(sd) != p or type(ir.Period.from_sdmx_string(sd)) is not type(p):
                ctx.fail(f"sdmx-roundtrip-{f}", case, f"{sd!r} -> {ir.Period.from_sdmx_string(sd)!r}")
        except Exception as e:
            ctx.fail(f"sdmx-roundtrip-{f}", case, f"to/from_sdmx_string raises {e!r}")
        try:
            q = eval(repr(p), dict(ns))
            if type(q) is not type(p) or q != p:
                ctx.fail(f"repr-roundtrip-{f}", case, f"{p!r} -> {q!r}")
        except Exception as e:
            ctx.fail(f"repr-roundtrip-{f}", case, f"eval(repr) raises {e!r}")
        if f == "I":
            continue
        try:
            for pos in POS:
                y, m, d = p.to_ymd(position=pos)
                date = p.to_python_date(position=pos)
                ok = (date == dt.date(y, m, d)) and ir.Period.from_ymd(fr, y, m, d) == p
                ok = ok and ir.Period.from_python_date(date, frequency=fr) == p
                ok = ok and ir.Period.from_iso_string(p.to_iso_string(position=pos), frequency=fr) == p
                ok = ok and p.to_iso_string(position=pos) == date.isoformat()
                if f != "D":
                    y2, seg = p.to_year_segment()
                    ok = ok and type(p).from_year_segment(y2, seg) == p
                if not ok:
                    ctx.fail(f"ymd-roundtrip-{f}", case, f"position {pos}: ({y},{m},{d})")
        except Exception as e:
            ctx.fail(f"ymd-roundtrip-{f}", case, repr(e))
        # --- frequency conversion: containment, coarse -> fine -> coarse
        try:
            for g in REG + ["D"]:
                for pos in POS:
                    q = p.refrequent(FREQ[g], position=pos)
                    day = p.to_python_date(position=pos)
                    a, b = q.to_python_date(position="start"), q.to_python_date(position="end")
                    if type(q) is not CLS[g] or not (a <= day <= b):
                        ctx.fail(f"refrequent-containment-{f}{g}", case, f"{pos}: day {day} not in {q!r} = [{a}, {b}]")
                    if g in FINER[f]:
                        for pos2 in POS:
                            back = q.refrequent(fr, position=pos2)
                            if back != p:
                                ctx.fail(f"coarse-fine-coarse-{f}{g}", case, f"{pos}/{pos2}: {p!r} -> {q!r} -> {back!r}")
                    ctx.nontriv((f, g, pos, s % FVAL[f] if f != "D" else day.month))
        except Exception as e:
            ctx.fail(f"refrequent-raises-{f}", case, repr(e))
    # --- monotonicity on consecutive and random pairs
    rng = ctx.rng.fork("mono")
    for f in REG + ["D"]:
        pool = [s for ff, s in ps if ff == f]
        for _ in range(ctx.n(1500, 20000) * scale):
            a = rng.choice(pool)
            b = a + rng.choice([1, 1, 2, 3, 5, 30, 366])
            if not in_calendar(f, b):
                continue
            for g in REG + ["D"]:
                for pos in POS:
                    try:
                        qa = CLS[f](a).refrequent(FREQ[g], position=pos)
                        qb = CLS[f](b).refrequent(FREQ[g], position=pos)
                        if not (qa <= qb):
                            ctx.fail(f"refrequent-monotone-{f}{g}", {"freq": f, "a": a, "b": b, "to": g, "pos": pos}, f"{qa!r} > {qb!r}")
                    except Exception as e:
                        ctx.fail(f"refrequent-raises-{f}", {"freq": f, "a": a, "b": b}, repr(e))
            ctx.evaluations += 1


def oracle_forms(ctx: Ctx, scale=1):
    """the other entry points of the same conversions: the module-level function forms and aliases of `refrequent`, and the
    sequence forms (`periods_from_sdmx_strings/_iso_strings/_python_dates`, `daters_from_*`, `Span.to_*_strings`) must be the
    element-by-element conversions, whatever the arrangement of the sequence"""
    rng = ctx.rng.fork("forms")
    # --- function forms and aliases of refrequent, with the position forwarded
    forms = [("Period.convert", lambda p, g, pos: p.convert(g, position=pos)),
             ("Period.convert_to_new_freq", lambda p, g, pos: p.convert_to_new_freq(g, position=pos)),
             ("Period.convert_to_new_frequency", lambda p, g, pos: p.convert_to_new_frequency(g, position=pos)),
             ("irispie.refrequent", lambda p, g, pos: ir.refrequent(p, g, position=pos)),
             ("irispie.convert_to_new_freq", lambda p, g, pos: ir.convert_to_new_freq(p, g, position=pos)),
             ("dates.refrequent", lambda p, g, pos: D.refrequent(p, g, position=pos)),
             ("Period.to_daily", lambda p, g, pos: p.to_daily(position=pos) if g is ir.Frequency.DAILY else p.refrequent(g, position=pos))]
    # the position handed over positionally (regular source periods: `to_ymd(position)` takes it as its first argument;
    # a daily source has no position to take)
    positional = [("Period.refrequent(g, pos)", lambda p, g, pos: p.refrequent(g, pos)),
                  ("Period.convert(g, pos)", lambda p, g, pos: p.convert(g, pos)),
                  ("Period.convert_to_new_freq(g, pos)", lambda p, g, pos: p.convert_to_new_freq(g, pos)),
                  ("irispie.refrequent(p, g, pos)", lambda p, g, pos: ir.refrequent(p, g, pos)),
                  ("Period.to_daily(pos)", lambda p, g, pos: p.to_daily(pos) if g is ir.Frequency.DAILY else p.refrequent(g, pos))]
    for _ in range(ctx.n(400, 6000) * scale):
        f = rng.choice(REG + ["D"])
        s = SEQ_BASE[f] + rng.randint(-400, 400)
        p = CLS[f](s)
        g = rng.choice(REG + ["D"])
        case = {"freq": f, "serial": s, "to": g}
        ctx.evaluations += 1
        for pos in POS:
            try:
                want = p.refrequent(FREQ[g], position=pos)
                day = p.to_python_date(position=pos)
                if not (want.to_python_date(position="start") <= day <= want.to_python_date(position="end")):
                    continue   # reported by the containment oracle
                for name, fn in forms + (positional if f != "D" else []):
                    got = fn(p, FREQ[g], pos)
                    if type(got) is not type(want) or got != want:
                        ctx.fail("refrequent-function-form", {**case, "pos": pos, "form": name},
                                 f"{name}({p!r}, {g}, position={pos!r}) = {got!r}, the method gives {want!r}")
            except Exception as e:
                ctx.fail("refrequent-function-form", {**case, "pos": pos}, repr(e))
    # --- integer arguments of other integer types (numpy scalars, as they come out of arrays and loops over them): the period
    # built from them is the period built from the Python ints, or the call refuses; it is never silently another period
    import numpy as np
    ctors = {"Y": ir.yy, "H": ir.hh, "Q": ir.qq, "M": ir.mm}
    for _ in range(ctx.n(300, 4000) * scale):
        f = rng.choice(REG + ["D", "I"])
        s = SEQ_BASE[f] + rng.randint(-400, 400)
        p = CLS[f](s)
        npint = rng.choice([np.int64, np.int32, np.int16 if f != "D" else np.int64])
        case = {"freq": f, "serial": s, "int_type": npint.__name__}
        ctx.evaluations += 1
        calls = []
        if f == "I":
            calls = [("ii(n)", lambda: ir.ii(npint(s))), ("IntegerPeriod(n)", lambda: D.IntegerPeriod(npint(s)))]
        else:
            y, m, d = p.to_ymd(position=rng.choice(POS)) if f != "D" else p.to_ymd()
            for g in REG + ["D"]:
                calls.append((f"from_ymd({g})", (lambda g=g: ir.Period.from_ymd(FREQ[g], npint(y), npint(m), npint(d))), (lambda g=g: ir.Period.from_ymd(FREQ[g], y, m, d))))
                calls.append((f"from_ymd({g}) month only numpy", (lambda g=g: ir.Period.from_ymd(FREQ[g], y, npint(m), d)), (lambda g=g: ir.Period.from_ymd(FREQ[g], y, m, d))))
            if f == "D":
                calls.append(("dd(y, m, d)", lambda: ir.dd(npint(y), npint(m), npint(d)), lambda: ir.dd(y, m, d)))
            else:
                yy_, seg = p.to_year_segment()
                calls.append(("from_year_segment", lambda: type(p).from_year_segment(npint(yy_), npint(seg)), lambda: p))
                calls.append(("from_year_segment segment only numpy", lambda: type(p).from_year_segment(yy_, npint(seg)), lambda: p))
                calls.append(("constructor", (lambda: ctors[f](npint(yy_), npint(seg)) if f != "Y" else ctors[f](npint(yy_))), lambda: p))
                calls.append(("constructor segment only numpy", (lambda: ctors[f](yy_, npint(seg)) if f != "Y" else ctors[f](npint(yy_))), lambda: p))
        for entry in calls:
            name, fn = entry[0], entry[1]
            want_fn = entry[2] if len(entry) > 2 else (lambda: p)
            try:
                want = want_fn()
            except Exception:
                continue
            try:
                got = fn()
            except Exception:
                ctx.count("numpy_int_argument_refused")
                continue
            if type(got) is not type(want) or int(got.serial) != int(want.serial):
                ctx.fail("integer-type-of-argument", {**case, "call": name}, f"{name} with {npint.__name__} arguments gives {got!r}, with Python ints {want!r}")
    # --- a representation recorded from a period still converts back to it after arithmetic was done with (another name of)
    # that period: `q = p; q += k` must not move `p`
    for _ in range(ctx.n(200, 3000) * scale):
        f = rng.choice(ALLF)
        s = SEQ_BASE[f] + rng.randint(-300, 300)
        p = CLS[f](s)
        case = {"freq": f, "serial": s}
        ctx.evaluations += 1
        try:
            recorded = (p.to_sdmx_string(), repr(p), None if f == "I" else p.to_iso_string(), None if f == "I" else p.to_ymd())
            q = p
            q += rng.randint(1, 9)
            q -= rng.randint(1, 4)
            back = ir.Period.from_sdmx_string(recorded[0])
            ok = p.serial == s and back == p and repr(p) == recorded[1]
            if f != "I":
                ok = ok and p.to_iso_string() == recorded[2] and p.to_ymd() == recorded[3] and ir.Period.from_ymd(FREQ[f], *recorded[3]) == p
            if not ok:
                ctx.fail("period-mutated-by-augmented-assignment", case, f"recorded {recorded[:2]}, after `q = p; q += k; q -= j` p is {p!r} (serial {p.serial}, was {s})")
        except Exception as e:
            ctx.fail("period-mutated-by-augmented-assignment", case, repr(e))
    # --- sequence forms
    for f, shape, seq in gen_sequences(ctx, rng):
        ps = [CLS[f](x) for x in seq]
        if f != "I" and not all(in_calendar(f, x) for x in seq):
            continue
        case = {"freq": f, "shape": shape, "serials": seq}
        ctx.evaluations += 1
        try:
            strs = [own_sdmx(f, x) for x in seq]
            for kw in ({}, {"frequency": FREQ[f]}):
                got = D.periods_from_sdmx_strings(strs, **kw)
                if list(got) != ps or any(type(a) is not type(b) for a, b in zip(got, ps)):
                    ctx.fail("sdmx-sequence", {**case, "frequency_given": bool(kw)}, f"{strs[:6]} -> {list(got)[:6]!r}")
            got = D.daters_from_sdmx_strings(FREQ[f], strs)
            if list(got) != ps:
                ctx.fail("sdmx-sequence", {**case, "form": "daters_from_sdmx_strings"}, f"{strs[:6]} -> {list(got)[:6]!r}")
            if list(D.periods_from_sdmx_strings(iter(strs))) != ps:
                ctx.fail("sdmx-sequence", {**case, "form": "iterator"}, "an iterator of strings is not parsed like the list")
            if f != "I":
                for pos in POS:
                    isos = [q.to_iso_string(position=pos) for q in ps]
                    dates = [q.to_python_date(position=pos) for q in ps]
                    if list(D.periods_from_iso_strings(isos, frequency=FREQ[f])) != ps or list(D.daters_from_iso_strings(FREQ[f], isos)) != ps:
                        ctx.fail("iso-sequence", {**case, "pos": pos}, f"{isos[:6]}")
                    if list(D.periods_from_python_dates(dates, frequency=FREQ[f])) != ps:
                        ctx.fail("python-date-sequence", {**case, "pos": pos}, f"{dates[:6]}")
            ctx.nontriv(("seq", f, shape, min(len(seq), 4)))
        except Exception as e:
            ctx.fail("sdmx-sequence", case, repr(e))
    # --- a span's own string forms come back as the span's periods (forward, backward, stepped)
    for _ in range(ctx.n(200, 3000) * scale):
        f = rng.choice(ALLF)
        a = SEQ_BASE[f] + rng.randint(-30, 30)
        b = a + rng.randint(-12, 12)
        st = rng.choice([1, 1, -1, 2, -2, 3, 5])
        case = {"freq": f, "span": [a, b, st]}
        ctx.evaluations += 1
        try:
            sp = ir.Span(CLS[f](a), CLS[f](b), st)
            ps = list(sp)
            if list(D.periods_from_sdmx_strings(sp.to_sdmx_strings())) != ps:
                ctx.fail("span-sdmx-strings", case, f"{sp.to_sdmx_strings()[:6]}")
            if f != "I":
                for pos in POS:
                    if list(D.periods_from_iso_strings(sp.to_iso_strings(position=pos), frequency=FREQ[f])) != ps:
                        ctx.fail("span-iso-strings", {**case, "pos": pos}, f"{sp.to_iso_strings(position=pos)[:6]}")
                    if list(D.periods_from_python_dates(sp.to_python_dates(position=pos), frequency=FREQ[f])) != ps:
                        ctx.fail("span-python-dates", {**case, "pos": pos}, "")
        except Exception as e:
            ctx.fail("span-sdmx-strings", case, repr(e))


def history_independence(ctx: Ctx, streams, first_pass):
    """every request is a pure function of its arguments: a second evaluation of a sample of all requests, in a shuffled order
    that interleaves frequencies and streams (after everything else has run in this process), must give the first answers.
    This is what exposes memos keyed too coarsely (e.g. by serial or by year without the frequency) and state left behind."""
    rng = ctx.rng.fork("history")
    pool = [(name, i) for name, lines in streams.items() for i in range(len(lines))]
    k = min(len(pool), ctx.n(30000, 300000))
    for j in range(k):   # partial Fisher-Yates: the first k entries are a uniform sample in random order
        r = rng.randint(j, len(pool) - 1)
        pool[j], pool[r] = pool[r], pool[j]
    bad = 0
    for name, i in pool[:k]:
        again = impl_eval(streams[name][i])
        if again != first_pass[name][i]:
            bad += 1
            if bad <= 3:
                ctx.fail("answer-depends-on-history", {"line": streams[name][i]} if "zzz" in streams[name][i][:4] else streams[name][i],
                         f"first evaluation {first_pass[name][i]!r}, evaluated again later in the same process {again!r}")
    ctx.count("history_reevaluations", k)
    ctx.evaluations += k


def run(ctx: Ctx):
    ctx.rule = ("every regular period and (thinned in quick) every day of the enumerated years (quick: 1890-2110 + boundary years; thorough: "
                "1-9999) through every round trip and every ordered frequency pair x position; produced, hand-written malformed and randomly "
                "mutated SDMX/ISO strings. distinct_nontrivial counts distinct (from, to, position, segment-or-month) conversion classes")
    streams = gen_lines(ctx)
    first_pass = {}
    for name, lines in streams.items():
        impl = [impl_eval(l) for l in lines]
        first_pass[name] = impl
        ctx.compare(name, lines, impl, ctx.model("C11", lines))
        ctx.evaluations += len(lines)
        ctx.count(f"lines_{name}", len(lines))
        for l, o in list(zip(lines, impl))[:: max(1, len(lines) // 2)][:2]:
            ctx.sample({"stream": name, "request": l, "implementation": o})
        if name == "strings_in":
            for o in impl:
                ctx.count("strings_in_" + (o if o.startswith("err") or o in ("no-class",) else "accepted"))
    history_independence(ctx, streams, first_pass)
    ctx.exhaustive = False   # regular periods are enumerated completely in the thorough tier, days are thinned
    oracle(ctx)
    oracle_forms(ctx)


def search(ctx: Ctx, seeds):
    # bounded: the quick enumeration without thinning of days and with twice the random pairs (~1-2 min)
    ctx.tier = "quick"
    oracle_forms(ctx, scale=2)
    oracle(ctx, scale=2)


def replay(ctx: Ctx, payload):
    case = payload.get("case")
    if isinstance(case, str):
        impl = [impl_eval(case)]
        ctx.compare("replay", [case], impl, ctx.model("C11", [case]))
        ctx.evaluations += 1
    oracle_forms(ctx)
    oracle(ctx)
