/-
Bridge for property C15 (model-implied autocovariances): the hypotheses of the matrix-level theorems of
`Props/C15.lean` Part 1 are *derived* from the executable model `Model/Acov.lean` through the `QMat → Matrix`
refinement lemmas (`Lemmas/QMatRefines.lean`).

* `lyapunov_view`: what the model's Lyapunov solver returns satisfies `Ω = T Ω Tᵀ + Σ` and `Ωᵀ = Ω` as Mathlib
  matrices (from the model's exact certificate `isLyapunov`/`isSymmetric`), hence (by `C15.lyapunov_iff_kron`) its
  `vec` solves the Kronecker system `(I − T⊗T) vec Ω = vec Σ`.
* `stable_Lyap`: for the stable block of a solved model this is the hypothesis `C15.Lyap` of `gamma0_fixed_point`;
  `gamma0_fixed_point_model` carries the fixed-point theorem down, `covY00_view` identifies the model's measurement
  block with the (2,2) block of `C15.Gamma0`.
* `autocovTriangular_view`: the model's list `Γ_{j+1} = 𝒜 Γ_j` is `𝒜^j Γ_0` (`C15.autocov_closed_form` on the views).
* padding: `covAlpha00_view`, `Ta00_view` (zero padding as `fromBlocks 0 0 0 ·`), `padded_Lyap`
  (`C15.padded_lyapunov` on the model), `covTriangular00_view` (the assembled `Γ_0` is `C15.Gamma0` of the padded
  system), `calA_view`, `covTriangular00_fixed_point` (`gamma0_fixed_point` for the matrix the model returns).
* scaling law: `sigmaU_rescale`, `rescale_Lyap` (the `s²`-scaled solution solves the rescaled model's equation) and,
  when `I − T⊗T` is non-singular, `rescale_solution` (the model's solution for the rescaled model *is* `s²` times the
  original one, as `QMat` values), with the consequence for every `Γ_j` (`autocovTriangular_rescale`).
-/
import IrisVerif.Lemmas.QMatRefines
import IrisVerif.Props.C15

open Matrix

namespace IrisVerif.BridgeC15

open IrisVerif IrisVerif.QMat IrisVerif.Acov
open Kronecker

/-! ## entrywise scaling of `QMat` values (for the `s²` law) -/

/-- `a' = c · a`, entrywise at every index, with the same dimensions -/
structure Scaled (c : Rat) (a a' : QMat) : Prop where
  rows : a'.rows = a.rows
  cols : a'.cols = a.cols
  get : ∀ i j, a'.get i j = c * a.get i j

theorem Scaled.rfl_one (a : QMat) : Scaled 1 a a := ⟨rfl, rfl, fun _ _ => (one_mul _).symm⟩

theorem scaled_smul (c : Rat) (a : QMat) (hw : a.wellShaped = true) : Scaled c a (QMat.smul c a) := by
  refine ⟨rfl, rfl, fun i j => ?_⟩
  rw [get_smul]
  split
  · rfl
  · rename_i h
    rw [get_of_out a hw i j (by omega), mul_zero]

theorem Scaled.mul_left {c : Rat} {b b' : QMat} (h : Scaled c b b') (a : QMat) : Scaled c (a * b) (a * b') := by
  refine ⟨rfl, h.cols, fun i j => ?_⟩
  rw [get_mul, get_mul, h.cols]
  split
  · rw [Finset.mul_sum]
    exact Finset.sum_congr rfl (fun k _ => by rw [h.get]; ring)
  · rw [mul_zero]

theorem Scaled.mul_right {c : Rat} {a a' : QMat} (h : Scaled c a a') (b : QMat) : Scaled c (a * b) (a' * b) := by
  refine ⟨h.rows, rfl, fun i j => ?_⟩
  rw [get_mul, get_mul, h.rows, h.cols]
  split
  · rw [Finset.mul_sum]
    exact Finset.sum_congr rfl (fun k _ => by rw [h.get]; ring)
  · rw [mul_zero]

theorem Scaled.add {c : Rat} {a a' b b' : QMat} (ha : Scaled c a a') (hb : Scaled c b b') :
    Scaled c (a + b) (a' + b') := by
  refine ⟨ha.rows, ha.cols, fun i j => ?_⟩
  rw [get_add, get_add, ha.rows, ha.cols]
  split
  · rw [ha.get, hb.get]; ring
  · rw [mul_zero]

theorem Scaled.transpose {c : Rat} {a a' : QMat} (h : Scaled c a a') : Scaled c a.transpose a'.transpose := by
  refine ⟨h.cols, h.rows, fun i j => ?_⟩
  rw [get_transpose, get_transpose, h.rows, h.cols]
  split
  · rw [h.get]
  · rw [mul_zero]

theorem Scaled.hstack {c : Rat} {a a' b b' : QMat} (ha : Scaled c a a') (hb : Scaled c b b') :
    Scaled c (QMat.hstack a b) (QMat.hstack a' b') := by
  refine ⟨ha.rows, by rw [hstack_cols, hstack_cols, ha.cols, hb.cols], fun i j => ?_⟩
  rw [get_hstack, get_hstack, ha.rows, ha.cols, hb.cols]
  split
  · split
    · rw [ha.get]
    · rw [hb.get]
  · rw [mul_zero]

theorem Scaled.vstack {c : Rat} {a a' b b' : QMat} (ha : Scaled c a a') (hb : Scaled c b b') :
    Scaled c (QMat.vstack a b) (QMat.vstack a' b') := by
  refine ⟨by rw [vstack_rows, vstack_rows, ha.rows, hb.rows], ha.cols, fun i j => ?_⟩
  rw [get_vstack, get_vstack, ha.rows, ha.cols, hb.rows]
  split
  · split
    · rw [ha.get]
    · rw [hb.get]
  · rw [mul_zero]

theorem Scaled.toMat {c : Rat} {a a' : QMat} (h : Scaled c a a') (r k : Nat) : a'.toMat r k = c • a.toMat r k := by
  ext i j
  simp [h.get]

/-! ## the Lyapunov solver -/

/-- **what `Acov.lyapunov` returns**, seen as Mathlib matrices: an `n × n` well-shaped symmetric solution of the
Lyapunov equation -/
theorem lyapunov_view (T Sig Om : QMat) (n : Nat) (hr : T.rows = n) (hc : T.cols = n)
    (h : lyapunov T Sig = some Om) :
    Om.rows = n ∧ Om.cols = n ∧ Om.wellShaped = true ∧
    Om.toMat n n = T.toMat n n * Om.toMat n n * (T.toMat n n)ᵀ + Sig.toMat n n ∧
    (Om.toMat n n)ᵀ = Om.toMat n n := by
  obtain ⟨hl, hs⟩ := C15.lyapunov_sound T Sig Om h
  have hdim : Om.rows = n ∧ Om.cols = n ∧ Om.wellShaped = true := by
    unfold lyapunov at h
    simp only at h
    split at h
    · cases h
    · split at h
      · injection h with h
        subst h
        exact ⟨hr, hr, wellShaped_unvec _ _ _⟩
      · cases h
  obtain ⟨h1, h2, h3⟩ := hdim
  refine ⟨h1, h2, h3, ?_, ?_⟩
  · unfold isLyapunov at hl
    have := (toMat_eq_of_eqv _ _ hl n n h1 h2).1
    refine this.trans ?_
    rw [toMat_add _ _ n n (by rw [mul_rows, mul_rows, hr]) (by rw [mul_cols, transpose_cols, hr]),
      toMat_mul _ _ n n n (by rw [mul_rows, hr]) (by rw [mul_cols, h2]) (by rw [transpose_cols, hr]),
      toMat_mul _ _ n n n hr hc h2, toMat_transpose _ _ _ hr hc]
  · exact ((isSymmetric_iff Om n h1).1 hs).2

/-- … hence its `vec` solves the Kronecker system the model hands to the checked solver, at the Mathlib level -/
theorem lyapunov_kron (T Sig Om : QMat) (n : Nat) (hr : T.rows = n) (hc : T.cols = n)
    (h : lyapunov T Sig = some Om) :
    (1 - T.toMat n n ⊗ₖ T.toMat n n) *ᵥ vec (Om.toMat n n) = vec (Sig.toMat n n) :=
  (C15.lyapunov_iff_kron _ _ _).1 (lyapunov_view T Sig Om n hr hc h).2.2.2.1

/-! ## the stable block of a solved model -/

/-- dimension side conditions on the inputs of the model (the harness passes the implementation's matrices) -/
structure Dims (s : Sol) : Prop where
  covU_cols : s.covU.cols = s.Pa.cols
  covW_cols : s.covW.cols = s.H.cols
  H_rows : s.H.rows = s.ny
  Za_rows : s.Za.rows = s.ny
  covU_ws : s.covU.wellShaped = true
  covW_ws : s.covW.wellShaped = true

/-- `Model/Acov.lean` performs no shape checks of its own (its inputs are the implementation's matrices, cut to
shape by the driver's parser).  `Dims` holds for every input of the shape the driver constructs: the shock covariances
are `QMat.diag` of vectors of the right length, `H` and `Za` have `ny` rows. -/
theorem dims_of_driver_shape (s : Sol) (du dw : QVec) (hU : s.covU = QMat.diag du) (hW : s.covW = QMat.diag dw)
    (h1 : du.size = s.Pa.cols) (h2 : dw.size = s.H.cols) (h3 : s.H.rows = s.ny) (h4 : s.Za.rows = s.ny) : Dims s :=
  ⟨by rw [hU]; exact h1, by rw [hW]; exact h2, h3, h4, by rw [hU]; exact wellShaped_diag _,
    by rw [hW]; exact wellShaped_diag _⟩

section stable
variable (s : Sol)

local notation "nS" => s.na - s.nu
local notation "nE" => s.Pa.cols
local notation "nW" => s.H.cols
set_option quotPrecheck false
local notation "Ts" => (TaStable s).toMat nS nS
local notation "Ps" => (PaStable s).toMat nS nE
local notation "Zs" => (ZaStable s).toMat s.ny nS
local notation "Su" => s.covU.toMat nE nE
local notation "Sw" => s.covW.toMat nW nW
local notation "Hm" => s.H.toMat s.ny nW

theorem sigmaU_view (hU : s.covU.cols = s.Pa.cols) : (sigmaU s).toMat nS nS = Ps * Su * Psᵀ := by
  unfold sigmaU
  rw [toMat_mul (PaStable s * s.covU) (PaStable s).transpose nS nE nS rfl (by rw [mul_cols, hU]) rfl,
    toMat_mul (PaStable s) s.covU nS nE nE rfl rfl hU, toMat_transpose (PaStable s) (s.na - s.nu) s.Pa.cols rfl rfl]

/-- **the hypothesis of `C15.gamma0_fixed_point`, derived from the model**: the stable-block covariance the model
computes satisfies the Lyapunov equation `Ω = T Ω Tᵀ + P Σ_u Pᵀ` and is symmetric -/
theorem stable_Lyap (hU : s.covU.cols = s.Pa.cols) (OmS : QMat)
    (h : lyapunov (TaStable s) (sigmaU s) = some OmS) :
    C15.Lyap Ts Ps Su (OmS.toMat nS nS) ∧ (OmS.toMat nS nS)ᵀ = OmS.toMat nS nS := by
  obtain ⟨_, _, _, h4, h5⟩ := lyapunov_view (TaStable s) (sigmaU s) OmS nS rfl rfl h
  refine ⟨?_, h5⟩
  unfold C15.Lyap
  rw [← sigmaU_view s hU]
  exact h4

/-- the model's measurement block of `Γ_0` is the (2,2) block of `C15.Gamma0` -/
theorem covY00_view (hd : Dims s) (OmS : QMat) (hOc : OmS.cols = nS) :
    (covY00 s OmS).toMat s.ny s.ny = Zs * OmS.toMat nS nS * Zsᵀ + Hm * Sw * Hmᵀ := by
  unfold covY00
  have hZr : (ZaStable s).rows = s.ny := rfl
  have hZc : (ZaStable s).cols = nS := rfl
  rw [toMat_add _ _ s.ny s.ny (by rw [mul_rows, mul_rows, hZr]) (by rw [mul_cols, transpose_cols, hZr]),
    toMat_mul _ _ s.ny nS s.ny (by rw [mul_rows, hZr]) (by rw [mul_cols, hOc]) (by rw [transpose_cols, hZr]),
    toMat_mul _ _ s.ny nS nS hZr hZc hOc, toMat_transpose _ _ _ hZr hZc,
    toMat_mul _ _ s.ny nW s.ny (by rw [mul_rows, hd.H_rows]) (by rw [mul_cols, hd.covW_cols])
      (by rw [transpose_cols, hd.H_rows]),
    toMat_mul _ _ s.ny nW nW hd.H_rows rfl hd.covW_cols, toMat_transpose _ _ _ hd.H_rows rfl]

/-- **`gamma0_fixed_point` carried down to the model**: the order-0 matrix assembled from the model's stable-block
covariance (its (2,2) block *is* the model's `covY00`) is a fixed point of second-moment propagation of the joint
`(α, y)` system of the stable block -/
theorem gamma0_fixed_point_model (hd : Dims s) (OmS : QMat)
    (h : lyapunov (TaStable s) (sigmaU s) = some OmS) :
    C15.Gamma0 Zs Hm Sw (OmS.toMat nS nS) =
        C15.calA Ts Zs * C15.Gamma0 Zs Hm Sw (OmS.toMat nS nS) * (C15.calA Ts Zs)ᵀ
          + C15.calB Ps Zs Hm * C15.calS Su Sw * (C15.calB Ps Zs Hm)ᵀ ∧
    C15.Gamma0 Zs Hm Sw (OmS.toMat nS nS) =
      fromBlocks (OmS.toMat nS nS) (OmS.toMat nS nS * Zsᵀ) (OmS.toMat nS nS * Zsᵀ)ᵀ
        ((covY00 s OmS).toMat s.ny s.ny) := by
  obtain ⟨hL, hsym⟩ := stable_Lyap s hd.covU_cols OmS h
  have hOc := (lyapunov_view (TaStable s) (sigmaU s) OmS nS rfl rfl h).2.1
  refine ⟨C15.gamma0_fixed_point _ _ _ _ _ _ _ hL hsym, ?_⟩
  rw [covY00_view s hd OmS hOc]
  rfl

/-! ## the lag recursion -/

theorem calA_rows (hd : Dims s) : (Acov.calA s).rows = s.na + s.ny := by
  show (Ta00 s).rows + (s.Za * Ta00 s).rows = _
  rw [mul_rows, hd.Za_rows]; rfl

theorem calA_cols : (Acov.calA s).cols = s.na + s.ny := rfl

theorem covTriangular00_dims (hd : Dims s) (OmS : QMat) :
    (covTriangular00 s OmS).rows = s.na + s.ny ∧ (covTriangular00 s OmS).cols = s.na + s.ny := by
  constructor
  · show (covAlpha00 s OmS).rows + ((covAlpha00 s OmS * s.Za.transpose).transpose).rows = _
    rw [transpose_rows, mul_cols, transpose_cols, hd.Za_rows]; rfl
  · show (covAlpha00 s OmS).cols + (covAlpha00 s OmS * s.Za.transpose).cols = _
    rw [mul_cols, transpose_cols, hd.Za_rows]; rfl

theorem autocovTriangular_dims (hd : Dims s) (OmS : QMat) (j : Nat) :
    (autocovTriangular s OmS j).rows = s.na + s.ny ∧ (autocovTriangular s OmS j).cols = s.na + s.ny := by
  induction j with
  | zero => exact covTriangular00_dims s hd OmS
  | succ j ih =>
    show (Acov.calA s * autocovTriangular s OmS j).rows = _ ∧ (Acov.calA s * autocovTriangular s OmS j).cols = _
    rw [mul_rows, mul_cols]
    exact ⟨calA_rows s hd, ih.2⟩

/-- **`autocov_closed_form` carried down to the model**: the `j`-th matrix of the model's list is `𝒜^j Γ_0` -/
theorem autocovTriangular_view (hd : Dims s) (OmS : QMat) (j : Nat) :
    (autocovTriangular s OmS j).toMat (s.na + s.ny) (s.na + s.ny) =
      ((Acov.calA s).toMat (s.na + s.ny) (s.na + s.ny)) ^ j
        * (covTriangular00 s OmS).toMat (s.na + s.ny) (s.na + s.ny) := by
  refine C15.autocov_closed_form _ _ (fun j => (autocovTriangular s OmS j).toMat (s.na + s.ny) (s.na + s.ny))
    rfl (fun j => ?_) j
  show (Acov.calA s * autocovTriangular s OmS j).toMat _ _ = _
  rw [toMat_mul _ _ (s.na + s.ny) (s.na + s.ny) (s.na + s.ny) (calA_rows s hd) (calA_cols s)
    (autocovTriangular_dims s hd OmS j).2]

/-! ## the scaling law -/

theorem TaStable_rescale (f : Rat) : TaStable (rescale s f) = TaStable s := rfl
theorem PaStable_rescale (f : Rat) : PaStable (rescale s f) = PaStable s := rfl

theorem sigmaU_scaled (hw : s.covU.wellShaped = true) (f : Rat) :
    Scaled (f * f) (sigmaU s) (sigmaU (rescale s f)) :=
  ((scaled_smul (f * f) s.covU hw).mul_left (PaStable s)).mul_right (PaStable s).transpose

/-- **the `s²`-scaled solution solves the rescaled model's Lyapunov equation** (`C15.scaling_lyapunov` on the model) -/
theorem rescale_Lyap (hd : Dims s) (OmS : QMat) (h : lyapunov (TaStable s) (sigmaU s) = some OmS) (f : Rat) :
    C15.Lyap Ts Ps ((rescale s f).covU.toMat nE nE) ((f * f) • OmS.toMat nS nS) := by
  have hS : (rescale s f).covU.toMat nE nE = (f * f) • Su := (scaled_smul (f * f) s.covU hd.covU_ws).toMat _ _
  unfold C15.Lyap
  rw [hS]
  exact C15.scaling_lyapunov _ _ _ _ _ (stable_Lyap s hd.covU_cols OmS h).1

/-- **the scaling law on the model's solver output**: when `I − T⊗T` is non-singular, the covariance the model
computes for the model with all std multiplied by `f` *is* `f²` times the original one (equality of `QMat` values) -/
theorem rescale_solution (hd : Dims s) (OmS OmS' : QMat) (f : Rat)
    (hdet : IsUnit (1 - Ts ⊗ₖ Ts).det)
    (h : lyapunov (TaStable s) (sigmaU s) = some OmS)
    (h' : lyapunov (TaStable (rescale s f)) (sigmaU (rescale s f)) = some OmS') :
    OmS' = QMat.smul (f * f) OmS := by
  obtain ⟨r1, r2, r3, r4, _⟩ := lyapunov_view (TaStable s) (sigmaU s) OmS nS rfl rfl h
  obtain ⟨q1, q2, q3, q4, _⟩ := lyapunov_view (TaStable (rescale s f)) (sigmaU (rescale s f)) OmS' nS rfl rfl h'
  have hSig : (sigmaU (rescale s f)).toMat nS nS = (f * f) • (sigmaU s).toMat nS nS :=
    (sigmaU_scaled s hd.covU_ws f).toMat _ _
  have e1 : (f * f) • OmS.toMat nS nS = Ts * ((f * f) • OmS.toMat nS nS) * Tsᵀ + (f * f) • (sigmaU s).toMat nS nS := by
    conv_lhs => rw [r4]
    simp only [Matrix.mul_smul, Matrix.smul_mul, smul_add]
  have e2 : OmS'.toMat nS nS = Ts * OmS'.toMat nS nS * Tsᵀ + (f * f) • (sigmaU s).toMat nS nS := by
    rw [← hSig]; exact q4
  have heq := (C15.lyapunov_unique_kron _ _ _ _ hdet e2 e1).1
  refine ext_of_get _ _ q3 (wellShaped_smul _ _) (q1.trans r1.symm) (q2.trans r2.symm) (fun i j hi hj => ?_)
  have := congrFun (congrFun heq ⟨i, q1 ▸ hi⟩) ⟨j, q2 ▸ hj⟩
  simp only [toMat_apply, Matrix.smul_apply, smul_eq_mul] at this
  rw [this, get_smul, if_pos ⟨by omega, by omega⟩]

theorem covAlpha00_scaled {c : Rat} {Om Om' : QMat} (h : Scaled c Om Om') :
    Scaled c (covAlpha00 s Om) (covAlpha00 s Om') := by
  refine ⟨rfl, rfl, fun i j => ?_⟩
  unfold covAlpha00
  rw [get_ofFn, get_ofFn]
  split
  · split
    · rw [h.get]
    · rw [mul_zero]
  · rw [mul_zero]

/-- every entry of the assembled order-0 matrix scales with `f²` -/
theorem covTriangular00_scaled (hw : s.covW.wellShaped = true) (f : Rat) {Om Om' : QMat} (h : Scaled (f * f) Om Om') :
    Scaled (f * f) (covTriangular00 s Om) (covTriangular00 (rescale s f) Om') := by
  have hca := covAlpha00_scaled s h
  have hcay : Scaled (f * f) (covAlpha00 s Om * s.Za.transpose) (covAlpha00 s Om' * s.Za.transpose) :=
    hca.mul_right _
  have hy : Scaled (f * f) (covY00 s Om) (covY00 (rescale s f) Om') :=
    Scaled.add ((h.mul_left (ZaStable s)).mul_right (ZaStable s).transpose)
      (((scaled_smul (f * f) s.covW hw).mul_left s.H).mul_right s.H.transpose)
  exact Scaled.vstack (Scaled.hstack hca hcay) (Scaled.hstack hcay.transpose hy)

/-- **the `s²` law for every autocovariance of the model** (entrywise, hence for every reported cell):
`Γ_j` of the rescaled model computed from the scaled stable-block covariance is `f²` times `Γ_j` -/
theorem autocovTriangular_scaled (hw : s.covW.wellShaped = true) (f : Rat) {Om Om' : QMat}
    (h : Scaled (f * f) Om Om') (j : Nat) :
    Scaled (f * f) (autocovTriangular s Om j) (autocovTriangular (rescale s f) Om' j) := by
  induction j with
  | zero => exact covTriangular00_scaled s hw f h
  | succ j ih => exact ih.mul_left (Acov.calA s)

/-- … also after the map to the square (`ξ = U α`) form -/
theorem toSquare_scaled (f : Rat) {g g' : QMat} (h : Scaled (f * f) g g') :
    Scaled (f * f) (toSquare s g) (toSquare (rescale s f) g') :=
  (h.mul_left (bigU s)).mul_right (bigU s).transpose

/-- **the scaling law end to end**: under non-singularity of `I − T⊗T`, every autocovariance matrix the model reports
for the rescaled model (before the NaN mask and the selection, which only copy cells) is `f²` times the original -/
theorem acov_rescale (hd : Dims s) (OmS OmS' : QMat) (f : Rat)
    (hdet : IsUnit (1 - Ts ⊗ₖ Ts).det)
    (h : lyapunov (TaStable s) (sigmaU s) = some OmS)
    (h' : lyapunov (TaStable (rescale s f)) (sigmaU (rescale s f)) = some OmS') (j : Nat) :
    Scaled (f * f) (toSquare s (autocovTriangular s OmS j))
      (toSquare (rescale s f) (autocovTriangular (rescale s f) OmS' j)) := by
  rw [rescale_solution s hd OmS OmS' f hdet h h']
  have hO := (lyapunov_view (TaStable s) (sigmaU s) OmS nS rfl rfl h).2.2.1
  exact toSquare_scaled s f (autocovTriangular_scaled s hd.covW_ws f (scaled_smul (f * f) OmS hO) j)

end stable

/-! ## the zero padding: the matrices the model actually assembles -/

section padded
variable (s : Sol)

local notation "nS" => s.na - s.nu
local notation "nE" => s.Pa.cols
local notation "nW" => s.H.cols
local notation "N0" => s.nu + (s.na - s.nu)
set_option quotPrecheck false
local notation "Ts" => (TaStable s).toMat nS nS
local notation "Ps" => (PaStable s).toMat nS nE
local notation "Zs" => (ZaStable s).toMat s.ny nS
local notation "Su" => s.covU.toMat nE nE
local notation "Sw" => s.covW.toMat nW nW
local notation "Hm" => s.H.toMat s.ny nW
local notation "eS" => (finSumFinEquiv (m := s.nu) (n := s.na - s.nu)).symm

/-- the padded covariance (`cov_alpha_00`) is the zero padding of the stable block -/
theorem covAlpha00_view (OmS : QMat) :
    (covAlpha00 s OmS).toMat N0 N0 =
      (fromBlocks (0 : Matrix (Fin s.nu) (Fin s.nu) ℚ) 0 0 (OmS.toMat nS nS)).submatrix eS eS := by
  ext i j
  unfold covAlpha00
  refine Fin.addCases (fun i => ?_) (fun i => ?_) i <;> refine Fin.addCases (fun j => ?_) (fun j => ?_) j <;>
    simp [get_ofFn, finSumFinEquiv_symm_apply_castAdd, finSumFinEquiv_symm_apply_natAdd]
  all_goals omega

/-- the padded transition matrix (`Ta_00`) likewise -/
theorem Ta00_view :
    (Ta00 s).toMat N0 N0 = (fromBlocks (0 : Matrix (Fin s.nu) (Fin s.nu) ℚ) 0 0 Ts).submatrix eS eS := by
  ext i j
  unfold Ta00 TaStable
  refine Fin.addCases (fun i => ?_) (fun i => ?_) i <;> refine Fin.addCases (fun j => ?_) (fun j => ?_) j <;>
    simp [get_ofFn, get_block, finSumFinEquiv_symm_apply_castAdd, finSumFinEquiv_symm_apply_natAdd]
  all_goals omega

/-- `Pa` with its unit-root rows set to zero -/
def Ppad : Matrix (Fin N0) (Fin nE) ℚ := (fromRows (0 : Matrix (Fin s.nu) (Fin nE) ℚ) Ps).submatrix eS id

theorem Ppad_apply (i : Fin N0) (j : Fin nE) :
    Ppad s i j = if s.nu ≤ (i : Nat) then s.Pa.get i j else 0 := by
  unfold Ppad PaStable
  refine Fin.addCases (fun i => ?_) (fun i => ?_) i
  · have := i.isLt
    simp [finSumFinEquiv_symm_apply_castAdd]
  · simp [finSumFinEquiv_symm_apply_natAdd, get_block]

/-- **`C15.padded_lyapunov` on the model**: the zero-padded covariance `cov_alpha_00` solves the Lyapunov equation of
the system whose unit-root rows and columns are set to zero (`Ta_00`, padded `Pa`) -/
theorem padded_Lyap (hU : s.covU.cols = s.Pa.cols) (OmS : QMat)
    (h : lyapunov (TaStable s) (sigmaU s) = some OmS) :
    C15.Lyap ((Ta00 s).toMat N0 N0) (Ppad s) Su ((covAlpha00 s OmS).toMat N0 N0) ∧
    ((covAlpha00 s OmS).toMat N0 N0)ᵀ = (covAlpha00 s OmS).toMat N0 N0 := by
  obtain ⟨hL, hsym⟩ := stable_Lyap s hU OmS h
  have hp := C15.padded_lyapunov (u := Fin s.nu) Ts Ps Su (OmS.toMat nS nS) hL
  unfold C15.Lyap at hp ⊢
  rw [covAlpha00_view, Ta00_view]
  constructor
  · unfold Ppad
    conv_lhs => rw [hp]
    simp only [Matrix.submatrix_add, Matrix.transpose_submatrix, Matrix.submatrix_mul_equiv, Pi.add_apply]
    congr 1
  · rw [Matrix.transpose_submatrix, Matrix.fromBlocks_transpose, hsym]
    simp

local notation "Zf" => s.Za.toMat s.ny N0
local notation "eJ" => (finSumFinEquiv (m := s.nu + (s.na - s.nu)) (n := s.ny)).symm

theorem Za_split : Zf = (fromCols (s.Za.toMat s.ny s.nu) Zs).submatrix id eS := by
  ext i j
  unfold ZaStable
  refine Fin.addCases (fun j => ?_) (fun j => ?_) j
  · simp [finSumFinEquiv_symm_apply_castAdd]
  · simp [finSumFinEquiv_symm_apply_natAdd, get_block]

/-- the measurement block computed from the stable block is the one of the padded system -/
theorem Z_padded (OmS : QMat) :
    Zf * (covAlpha00 s OmS).toMat N0 N0 * Zfᵀ = Zs * OmS.toMat nS nS * Zsᵀ := by
  rw [covAlpha00_view, Za_split, Matrix.transpose_submatrix, Matrix.submatrix_mul_equiv,
    Matrix.submatrix_mul_equiv, fromCols_mul_fromBlocks, transpose_fromCols, fromCols_mul_fromRows]
  simp

/-- **the model's assembled `Γ_0` is `C15.Gamma0` of the padded system** (`get_cov_triangular_00`) -/
theorem covTriangular00_view (hd : Dims s) (hle : s.nu ≤ s.na) (hZc : s.Za.cols = s.na) (OmS : QMat)
    (hOc : OmS.cols = nS) :
    (covTriangular00 s OmS).toMat (N0 + s.ny) (N0 + s.ny) =
      (C15.Gamma0 Zf Hm Sw ((covAlpha00 s OmS).toMat N0 N0)).submatrix eJ eJ := by
  have hN : s.na = N0 := by omega
  unfold covTriangular00 C15.Gamma0
  simp only
  have hcar : (covAlpha00 s OmS).rows = N0 := hN
  have hcac : (covAlpha00 s OmS).cols = N0 := hN
  have hcayc : (covAlpha00 s OmS * s.Za.transpose).cols = s.ny := hd.Za_rows
  have hcay : (covAlpha00 s OmS * s.Za.transpose).toMat N0 s.ny = (covAlpha00 s OmS).toMat N0 N0 * Zfᵀ := by
    rw [toMat_mul _ _ N0 N0 s.ny hcar hcac hd.Za_rows, toMat_transpose s.Za s.ny N0 hd.Za_rows (hZc.trans hN)]
  rw [toMat_vstack_hstack (covAlpha00 s OmS) (covAlpha00 s OmS * s.Za.transpose)
      (covAlpha00 s OmS * s.Za.transpose).transpose (covY00 s OmS) N0 s.ny N0 s.ny hcar hcac hcayc hcayc hcar rfl,
    toMat_transpose (covAlpha00 s OmS * s.Za.transpose) N0 s.ny hcar hcayc, hcay, covY00_view s hd OmS hOc,
    ← Z_padded]

/-- the model's `𝒜` is `C15.calA` of the padded system -/
theorem calA_view (hd : Dims s) (hle : s.nu ≤ s.na) (hZc : s.Za.cols = s.na) :
    (Acov.calA s).toMat (N0 + s.ny) (N0 + s.ny) = (C15.calA ((Ta00 s).toMat N0 N0) Zf).submatrix eJ eJ := by
  have hN : s.na = N0 := by omega
  unfold Acov.calA C15.calA
  simp only
  rw [toMat_vstack_hstack (Ta00 s) (QMat.zero s.na s.ny) (s.Za * Ta00 s) (QMat.zero s.ny s.ny)
      N0 s.ny N0 s.ny hN hN rfl hd.Za_rows hN rfl,
    toMat_mul s.Za (Ta00 s) s.ny N0 N0 hd.Za_rows (hZc.trans hN) hN, toMat_zero, toMat_zero]

/-- **`C15.gamma0_fixed_point` for the matrix the model actually assembles**: `Γ_0 = get_cov_triangular_00`
(zero-padded unit-root block included) is a fixed point of second-moment propagation of the model's joint transition
matrix `𝒜 = calA s`, with the shock loading of the padded system -/
theorem covTriangular00_fixed_point (hd : Dims s) (hle : s.nu ≤ s.na) (hZc : s.Za.cols = s.na) (OmS : QMat)
    (h : lyapunov (TaStable s) (sigmaU s) = some OmS) :
    (covTriangular00 s OmS).toMat (N0 + s.ny) (N0 + s.ny) =
      (Acov.calA s).toMat (N0 + s.ny) (N0 + s.ny) * (covTriangular00 s OmS).toMat (N0 + s.ny) (N0 + s.ny)
          * ((Acov.calA s).toMat (N0 + s.ny) (N0 + s.ny))ᵀ
        + (C15.calB (Ppad s) Zf Hm * C15.calS Su Sw * (C15.calB (Ppad s) Zf Hm)ᵀ).submatrix eJ eJ := by
  obtain ⟨hL, hsym⟩ := padded_Lyap s hd.covU_cols OmS h
  have hOc := (lyapunov_view (TaStable s) (sigmaU s) OmS nS rfl rfl h).2.1
  have hfix := C15.gamma0_fixed_point _ (Ppad s) Zf Hm Su Sw _ hL hsym
  rw [covTriangular00_view s hd hle hZc OmS hOc, calA_view s hd hle hZc]
  conv_lhs => rw [hfix]
  simp only [Matrix.submatrix_add, Matrix.transpose_submatrix, Matrix.submatrix_mul_equiv, Pi.add_apply]

end padded

/-- what a successful `acov` is made of: the checked Lyapunov solution of the stable block and, per order, the
selected, NaN-masked square form of `Γ_j` -/
theorem acov_ok (s : Sol) (sel : List Nat) (k : Nat) (l : List CMat) (h : acov s sel k = some l) :
    ∃ OmS, lyapunov (TaStable s) (sigmaU s) = some OmS ∧
      l = (List.range (k + 1)).map (fun j => select (fillNaN s (toSquare s (autocovTriangular s OmS j))) sel) := by
  unfold acov at h
  split at h
  · cases h
  · rename_i OmS hO
    injection h with h
    exact ⟨OmS, hO, h.symm⟩

/-! ## non-vacuity (kernel evaluation of the executable model) -/

namespace Examples

/-- AR(1) with coefficient 1/2 and a measurement `y = α + w`, unit variances: stationary variance 4/3 -/
def exSol : Sol :=
  ⟨1, 1, 0, QMat.ofRows [[1/2]], QMat.ofRows [[1]], QMat.ofRows [[1]], QMat.ofRows [[1]], QMat.ofRows [[1]],
    QMat.ofRows [[1]], QMat.ofRows [[1]], 0⟩

theorem ex_lyapunov :
    (lyapunov (TaStable exSol) (sigmaU exSol)).map (fun o => decide (3 * o.get 0 0 = 4)) = some true := by
  decide +kernel

theorem ex_rescaled :
    (lyapunov (TaStable (rescale exSol 3)) (sigmaU (rescale exSol 3))).map (fun o => decide (o.get 0 0 = 12))
      = some true := by
  decide +kernel

/-- the hypotheses `h` and `Dims` of the bridge theorems are met -/
example : (∃ OmS, lyapunov (TaStable exSol) (sigmaU exSol) = some OmS) ∧ Dims exSol := by
  constructor
  · have h := ex_lyapunov
    cases hh : lyapunov (TaStable exSol) (sigmaU exSol) with
    | none => rw [hh] at h; cases h
    | some o => exact ⟨o, rfl⟩
  · exact ⟨rfl, rfl, rfl, rfl, by decide +kernel, by decide +kernel⟩

end Examples

end IrisVerif.BridgeC15
