-- Root of the `IrisVerif` library: models, lemmas, property theorems and drivers.
import IrisVerif.Props.C09
import IrisVerif.Driver.C09
