/-
Line-protocol driver for the blazer / Sequential-ordering model (property C16).

  blaze <nr> <nc> <bits|-> | <eids> | <qids> | <rp> | <cp>
      bits: row-major 0/1 string; id and permutation lists: comma separated integers or `-`
      reply  F=e:q,..;L=e:q,..;I=e,../q,..;R=e,../q,..;B=[e,../q,..][..]..      (B=err:bad when blaze raises)
  hpm <n> <bits>
      reply  T / F   (the decidable perfect-matching predicate used by the theorems)
  seq <lhs>:<tok>,<tok>..;<lhs>:..;..        tok: `name` (zero shift) or `name@shift` (lag/lead, dropped by the model as by the code)
      reply  names=..;im=<bits>;isseq=T|F;res=ok:[..]|err:bad;state=<lhs>:<reads>;..
  split <qids of eq 0>;<qids of eq 1>;.. | <eids> | <can be exogenized> | <exogenized> | <endogenized> | <rp> | <cp>
      reply  W=<unknown qids>;M=<bits of the steady incidence matrix>;B=<blocks>
  (seq / seqops states end in ;valid=T|F -- the executable `SeqValid` of the theorems on the state)
  seqops <eqs as for seq> | <op> | <op> ..     op: `r <perm>` reorder_equations, `s` sequentialize, `c` copy
      reply  <state> | res=..;<state> | ..      state: names=..;im=..;isseq=..;state=..
-/
import IrisVerif.Model.Blazer
import IrisVerif.Driver.Util

open IrisVerif.Blazer IrisVerif.Driver

namespace IrisVerif.Driver.C16

def csv (l : List String) : String := ",".intercalate l

/-- drop blanks -/
def nosp (s : String) : String := String.ofList (s.toList.filter fun ch => ch ≠ ' ')

def intList? (s : String) : Option (List Int) :=
  let s := nosp s
  if s = "-" || s = "" then some [] else (s.splitOn ",").mapM fun w => w.toInt?

def natList? (s : String) : Option (List Nat) :=
  let s := nosp s
  if s = "-" || s = "" then some [] else (s.splitOn ",").mapM fun w => w.toNat?

def bits? (s : String) : Option (List Bool) :=
  if s = "-" then some []
  else s.toList.mapM fun ch => if ch = '1' then some true else if ch = '0' then some false else none

def chunk (nc : Nat) : Nat → List Bool → List (List Bool)
  | 0, _ => []
  | k + 1, l => l.take nc :: chunk nc k (l.drop nc)

def showPairs (eids qids : List Int) (ps : List Pair) : String :=
  csv (ps.map fun p => toString (idAt eids p.1) ++ ":" ++ toString (idAt qids p.2))

def showIds (ids : List Int) (ps : List Nat) : String := csv (ps.map fun i => toString (idAt ids i))

def showIdBlock (b : List Int × List Int) : String :=
  "[" ++ csv (b.1.map toString) ++ "/" ++ csv (b.2.map toString) ++ "]"

def doBlaze (nr nc : Nat) (m : List (List Bool)) (eids qids : List Int) (rp cp : List Nat) : String :=
  let im := incOf m
  let p := prefetch im (List.range nr) (List.range nc)
  let head := "F=" ++ showPairs eids qids p.first ++ ";L=" ++ showPairs eids qids p.last ++
    ";I=" ++ showIds eids p.ri ++ "/" ++ showIds qids p.ci
  match blazePos im nr nc rp cp with
  | .error _ =>
    -- the re-ordered inner ids are still observable (triangularize ran before the generator raised)
    let reorder := p.ri.length * p.ci.length ≠ 0
    let ri := if reorder then applyPerm rp p.ri else p.ri
    let ci := if reorder then applyPerm cp p.ci else p.ci
    head ++ ";R=" ++ showIds eids ri ++ "/" ++ showIds qids ci ++ ";B=err:bad"
  | .ok o =>
    match blaze m eids qids rp cp with
    | .error _ => "err:shape"
    | .ok bs =>
      head ++ ";R=" ++ showIds eids o.innerRows ++ "/" ++ showIds qids o.innerCols ++
        ";B=" ++ String.join (bs.map showIdBlock)

def isPermOfRange (p : List Nat) (n : Nat) : Bool := p.isPerm (List.range n)

/-- executable perfect-matching test on positions (same recursion as `IrisVerif.Blazer.hasPMb`
in Lemmas; kept here so that the driver imports Model files only) -/
def hasPM (im : Inc) : List Nat → List Nat → Bool
  | [], cols => cols.isEmpty
  | r :: rs, cols => cols.any fun c => im r c && hasPM im rs (cols.erase c)

def showSEq (e : SEq) : String := toString e.lhs ++ ":" ++ csv (e.reads.map toString)

/-- a token `name` (zero shift) or `name@shift` -/
def sTok? (w : String) : Option STok :=
  match w.splitOn "@" with
  | [n] => n.toNat?.map fun n => (n, 0)
  | [n, k] => do
    let n ← n.toNat?
    let k ← (if k.startsWith "+" then (k.drop 1).toString else k).toInt?
    pure (n, k)
  | _ => none

/-- `<lhs>:<token>,<token>..`; the model keeps the zero-shift tokens (`SEq.ofTokens`) -/
def sEq? (s : String) : Option SEq :=
  match s.splitOn ":" with
  | [l, r] => do
    let l ← (nosp l).toNat?
    let r := nosp r
    let toks ← (if r = "" || r = "-" then some [] else (r.splitOn ",").mapM sTok?)
    pure (SEq.ofTokens l toks)
  | _ => none

def doSeq (m : SModel) : String :=
  let names := lhsNames m
  let im := seqInc m
  let bits := String.join ((List.range m.length).map fun i =>
    String.join ((List.range names.length).map fun j => if im i j then "1" else "0"))
  let (res, m') := sequentialize m
  "names=" ++ csv (names.map toString) ++ ";im=" ++ bits ++ ";isseq=" ++ showBool (isSequential m) ++
    ";res=" ++ (match res with
      | .ok o => "ok:[" ++ csv (o.map toString) ++ "]"
      | .error _ => "err:bad") ++
    ";state=" ++ ";".intercalate (m'.map showSEq) ++ ";valid=" ++ showBool (seqValidB m')

def seqOp? (s : String) : Option SOp :=
  match words s with
  | ["s"] => some .sequentialize
  | ["c"] => some .copy
  | ["r", p] => (natList? p).map .reorder
  | ["r"] => some (.reorder [])
  | _ => none

def showState (m : SModel) : String :=
  let names := lhsNames m
  let im := seqInc m
  let bits := String.join ((List.range m.length).map fun i =>
    String.join ((List.range names.length).map fun j => if im i j then "1" else "0"))
  "names=" ++ csv (names.map toString) ++ ";im=" ++ bits ++ ";isseq=" ++ showBool (isSequential m) ++
    ";state=" ++ ";".intercalate (m.map showSEq) ++ ";valid=" ++ showBool (seqValidB m)

/-- one reply segment per call: outcome of the call, then the observable state afterwards -/
def doSeqOps : SModel → List SOp → List String
  | _, [] => []
  | m, op :: rest =>
    let res := match op with
      | .reorder p => (match (reorderEquations m p).1 with | .ok _ => "ok" | .error _ => "err:bad")
      | .sequentialize => (match (sequentialize m).1 with
          | .ok o => "ok:[" ++ csv (o.map toString) ++ "]"
          | .error _ => "err:bad")
      | .copy => "ok"
    let m' := applyOp m op
    ("res=" ++ res ++ ";" ++ showState m') :: doSeqOps m' rest

def intLists? (s : String) : Option (List (List Int)) :=
  if nosp s = "" || nosp s = "-" then some [] else (s.splitOn ";").mapM intList?

def showBits (m : List (List Bool)) : String :=
  String.join (m.map fun row => String.join (row.map fun b => if b then "1" else "0"))

/-- `split_into_blocks`: the unknowns, the steady incidence matrix, the blocks -/
def doSplit (tokens : List (List Int)) (eids canExo exo endo : List Int) (rp cp : List Nat) : String :=
  let w := wrtQids canExo exo endo
  let m := steadyInc tokens w
  "W=" ++ csv (w.map toString) ++ ";M=" ++ showBits m ++ ";B=" ++
    (match splitIntoBlocks tokens eids canExo exo endo rp cp with
     | .ok bs => String.join (bs.map showIdBlock)
     | .error .shape => "err:shape"
     | .error _ => "err:bad")

def step (line : String) : String :=
  match words line with
  | "blaze" :: nr :: nc :: bits :: rest =>
    match nr.toNat?, nc.toNat?, bits? bits with
    | some nr, some nc, some bs =>
      if bs.length ≠ nr * nc then "bad-op" else
      match (" ".intercalate rest).splitOn "|" with
      | [_, e, q, rp, cp] =>
        match intList? e, intList? q, natList? rp, natList? cp with
        | some e, some q, some rp, some cp =>
          if e.length ≠ nr ∨ q.length ≠ nc then "bad-op"
          else doBlaze nr nc (chunk nc nr bs) e q rp cp
        | _, _, _, _ => "bad-op"
      | _ => "bad-op"
    | _, _, _ => "bad-op"
  | ["hpm", n, bits] =>
    match n.toNat?, bits? bits with
    | some n, some bs =>
      if bs.length ≠ n * n then "bad-op"
      else showBool (hasPM (incOf (chunk n n bs)) (List.range n) (List.range n))
    | _, _ => "bad-op"
  | "split" :: rest =>
    match (" ".intercalate rest).splitOn "|" with
    | [t, e, c, x, n, rp, cp] =>
      match intLists? t, intList? e, intList? c, intList? x, intList? n, natList? rp, natList? cp with
      | some t, some e, some c, some x, some n, some rp, some cp => doSplit t e c x n rp cp
      | _, _, _, _, _, _, _ => "bad-op"
    | _ => "bad-op"
  | "seqops" :: rest =>
    match (" ".intercalate rest).splitOn "|" with
    | body :: ops =>
      match ((body.splitOn ";").filter fun s => nosp s ≠ "").mapM sEq?, ops.mapM seqOp? with
      | some m, some ops => " | ".intercalate (showState m :: doSeqOps m ops)
      | _, _ => "bad-op"
    | [] => "bad-op"
  | "seq" :: rest =>
    let body := " ".intercalate rest
    match ((body.splitOn ";").filter fun s => nosp s ≠ "").mapM sEq? with
    | some m => doSeq m
    | none => "bad-op"
  | _ => "bad-op"

end IrisVerif.Driver.C16

def main : IO Unit := IrisVerif.Driver.runMain IrisVerif.Driver.C16.step
