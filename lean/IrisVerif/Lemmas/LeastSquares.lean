/-
Least squares over a linearly ordered field: the normal equations characterise the minimiser of the
sum of squared residuals (vector form, then the multi-equation matrix form used by the VAR estimator).
-/
import Mathlib.Data.Matrix.Mul
import Mathlib.Algebra.Order.Ring.Defs
import Mathlib.Algebra.Order.BigOperators.Ring.Finset
import Mathlib.LinearAlgebra.Matrix.NonsingularInverse
import Mathlib.Tactic.Linarith
import Mathlib.Tactic.Ring
import Mathlib.Tactic.Abel

open Matrix

namespace IrisVerif.LeastSquares

variable {m n : Type} [Fintype m] [Fintype n]
variable {K : Type} [Field K] [LinearOrder K] [IsStrictOrderedRing K]

theorem dot_self_nonneg' (v : m → K) : 0 ≤ v ⬝ᵥ v := by
  unfold dotProduct
  exact Finset.sum_nonneg (fun i _ => mul_self_nonneg (v i))

theorem dot_self_eq_zero' (v : m → K) (h : v ⬝ᵥ v = 0) : v = 0 := by
  unfold dotProduct at h
  funext i
  have := (Finset.sum_eq_zero_iff_of_nonneg (fun i _ => mul_self_nonneg (v i))).1 h i (Finset.mem_univ i)
  exact mul_self_eq_zero.1 this

/-- Pythagoras for a residual orthogonal to the column space -/
theorem ls_decomp (X : Matrix m n K) (y : m → K) (b : n → K)
    (h : Xᵀ *ᵥ (y - X *ᵥ b) = 0) (b' : n → K) :
    (y - X *ᵥ b') ⬝ᵥ (y - X *ᵥ b') =
      (y - X *ᵥ b) ⬝ᵥ (y - X *ᵥ b) + (X *ᵥ (b' - b)) ⬝ᵥ (X *ᵥ (b' - b)) := by
  set r := y - X *ᵥ b with hr
  set d := b' - b with hd
  have e1 : y - X *ᵥ b' = r - X *ᵥ d := by
    simp only [hr, hd, Matrix.mulVec_sub]; abel
  have e2 : r ⬝ᵥ (X *ᵥ d) = 0 := by
    rw [Matrix.dotProduct_mulVec, ← Matrix.mulVec_transpose, h, zero_dotProduct]
  rw [e1]
  simp only [sub_dotProduct, dotProduct_sub]
  rw [dotProduct_comm (X *ᵥ d) r, e2]; ring

/-- normal equations ⇒ minimiser of the sum of squares -/
theorem ls_min (X : Matrix m n K) (y : m → K) (b : n → K)
    (h : Xᵀ *ᵥ (y - X *ᵥ b) = 0) (b' : n → K) :
    (y - X *ᵥ b) ⬝ᵥ (y - X *ᵥ b) ≤ (y - X *ᵥ b') ⬝ᵥ (y - X *ᵥ b') := by
  rw [ls_decomp X y b h b']
  linarith [dot_self_nonneg' (X *ᵥ (b' - b))]

/-- equality of the sums of squares forces equal fitted values -/
theorem ls_min_eq_fit (X : Matrix m n K) (y : m → K) (b : n → K)
    (h : Xᵀ *ᵥ (y - X *ᵥ b) = 0) (b' : n → K)
    (heq : (y - X *ᵥ b') ⬝ᵥ (y - X *ᵥ b') = (y - X *ᵥ b) ⬝ᵥ (y - X *ᵥ b)) :
    X *ᵥ b' = X *ᵥ b := by
  rw [ls_decomp X y b h b'] at heq
  have : (X *ᵥ (b' - b)) ⬝ᵥ (X *ᵥ (b' - b)) = 0 := by linarith
  have := dot_self_eq_zero' _ this
  rw [Matrix.mulVec_sub, sub_eq_zero] at this
  exact this


/-! ### the multi-equation form used by the VAR estimator -/

section MultiEq
set_option linter.unusedSectionVars false
variable {v k T : Type} [Fintype v] [Fintype k] [Fintype T] [DecidableEq k]

/-- the normal equations in the form `ordinary_least_squares` solves them: `Mx βᵀ = My` with
`Mx = X Xᵀ`, `My = X Yᵀ` (`Y`: one row per equation, `X`: one row per regressor, one column per
fitted period or dummy observation) -/
def NormalEq (Y : Matrix v T K) (X : Matrix k T K) (β : Matrix v k K) : Prop :=
  (X * Xᵀ) * βᵀ = X * Yᵀ

/-- sum of squared residuals over all equations and all fitted columns -/
def ssr (Y : Matrix v T K) (X : Matrix k T K) (β : Matrix v k K) : K :=
  ∑ i, ∑ t, (Y - β * X) i t * (Y - β * X) i t

omit [LinearOrder K] [IsStrictOrderedRing K] [DecidableEq k] in
theorem row_resid (Y : Matrix v T K) (X : Matrix k T K) (β : Matrix v k K) (i : v) :
    (fun t => (Y - β * X) i t) = Y i - Xᵀ *ᵥ β i := by
  funext t
  simp only [Matrix.sub_apply, Matrix.mul_apply, Pi.sub_apply, Matrix.mulVec, dotProduct, Matrix.transpose_apply]
  congr 1
  exact Finset.sum_congr rfl (fun j _ => mul_comm _ _)

omit [LinearOrder K] [IsStrictOrderedRing K] [DecidableEq k] in
theorem orth_row (Y : Matrix v T K) (X : Matrix k T K) (β : Matrix v k K)
    (h : NormalEq Y X β) (i : v) : Xᵀᵀ *ᵥ (Y i - Xᵀ *ᵥ β i) = 0 := by
  have h0 : X * (Y - β * X)ᵀ = 0 := by
    unfold NormalEq at h
    rw [Matrix.transpose_sub, Matrix.transpose_mul, Matrix.mul_sub, sub_eq_zero, ← Matrix.mul_assoc]
    exact h.symm
  rw [← row_resid, Matrix.transpose_transpose]
  funext j
  have := congrFun (congrFun h0 j) i
  simp only [Matrix.mul_apply, Matrix.transpose_apply, Matrix.zero_apply] at this
  simp only [Matrix.mulVec, dotProduct, Pi.zero_apply]
  exact this

omit [LinearOrder K] [IsStrictOrderedRing K] [DecidableEq k] in
theorem ssr_eq_rows (Y : Matrix v T K) (X : Matrix k T K) (β : Matrix v k K) :
    ssr Y X β = ∑ i, (Y i - Xᵀ *ᵥ β i) ⬝ᵥ (Y i - Xᵀ *ᵥ β i) := by
  unfold ssr
  refine Finset.sum_congr rfl (fun i _ => ?_)
  rw [← row_resid]
  rfl

end MultiEq

end IrisVerif.LeastSquares
