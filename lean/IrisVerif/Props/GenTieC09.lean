/-
GenTieC09 — the hand-written calendar model EQUALS the definitions regenerated from dates.py.

`Generated/DatesStmtGen.lean` is rewritten on every run by tools/gens/dates_stmt.py: each small method of
src/irispie/dates.py is translated statement by statement (name table = trusted part, in that file's header).
Every theorem here says, for ALL inputs, that a function of Model/Dates.lean or Model/Spans.lean is equal to the
regenerated definition of the Python method it models.  A semantic edit of one of these methods changes the
generated definition and the corresponding `model_eq_generated_*` proof stops checking.

Where the model has one function for all frequencies and Python has a mixin method plus a daily override, the
relation is stated per frequency class (`p.freq.isRegular = true` / `p.freq = .D`).
-/
import IrisVerif.Model.Dates
import IrisVerif.Model.Spans
import IrisVerif.Model.DateFormats
import IrisVerif.Generated.DatesStmtGen

set_option linter.unusedSimpArgs false
set_option linter.unusedVariables false

namespace IrisVerif.Dates.GenTie
open IrisVerif.Dates IrisVerif.Gen.Dates IrisVerif.Gen.DatesStmt

/-! ## (a) year-anchored constructors and accessors -/

/-- `RegularPeriodMixin.to_year_segment` -/
theorem model_eq_generated_RegularPeriodMixin_to_year_segment (p : Period) (h : p.freq.isRegular = true) :
    toYearSegment p = pure (RegularPeriodMixin_to_year_segment p) := by
  obtain ⟨f, s⟩ := p
  cases f <;> first | rfl | (simp [Freq.isRegular] at h)

/-- `DailyPeriod.to_year_segment` (the repaired form: serial minus the ordinal of January 1st, plus one) -/
theorem model_eq_generated_DailyPeriod_to_year_segment (p : Period) (h : p.freq = .D) :
    toYearSegment p = pure (DailyPeriod_to_year_segment p) := by
  obtain ⟨f, s⟩ := p
  cases h
  rfl

/-- `RegularPeriodMixin.get_year` -/
theorem model_eq_generated_RegularPeriodMixin_get_year (p : Period) :
    Period.year p = RegularPeriodMixin_get_year p := by
  obtain ⟨f, s⟩ := p
  cases f <;> rfl

/-- `DailyPeriod.get_year` -/
theorem model_eq_generated_DailyPeriod_get_year (p : Period) (h : p.freq = .D) :
    Period.year p = pure (DailyPeriod_get_year p) := by
  obtain ⟨f, s⟩ := p
  cases h
  rfl

/-- `DailyPeriod.to_ymd` -/
theorem model_eq_generated_DailyPeriod_to_ymd (p : Period) (h : p.freq = .D) (pos : Pos) :
    toYmd p pos = pure (DailyPeriod_to_ymd p) := by
  obtain ⟨f, s⟩ := p
  cases h
  rfl

/-- `RegularPeriodMixin.create_soy` (also `create_boy`, checked to be an alias) -/
theorem model_eq_generated_RegularPeriodMixin_create_soy (p : Period) :
    createSoy p = RegularPeriodMixin_create_soy p := rfl

/-- `DailyPeriod.create_soy` -/
theorem model_eq_generated_DailyPeriod_create_soy (p : Period) (h : p.freq = .D) :
    createSoy p = DailyPeriod_create_soy p := by
  obtain ⟨f, s⟩ := p
  cases h
  simp [createSoy, DailyPeriod_create_soy, Period.year, toYearSegment, fromYearSegment, bind, Except.bind, pure, Except.pure]

/-- `RegularPeriodMixin.create_eoy` -/
theorem model_eq_generated_RegularPeriodMixin_create_eoy (p : Period) (h : p.freq.isRegular = true) :
    createEoy p = RegularPeriodMixin_create_eoy p := by
  obtain ⟨f, s⟩ := p
  cases f <;> first | rfl | (simp [Freq.isRegular] at h)

/-- `DailyPeriod.create_eoy` -/
theorem model_eq_generated_DailyPeriod_create_eoy (p : Period) (h : p.freq = .D) :
    createEoy p = DailyPeriod_create_eoy p := by
  obtain ⟨f, s⟩ := p
  cases h
  rfl

/-- `RegularPeriodMixin.create_eopy` -/
theorem model_eq_generated_RegularPeriodMixin_create_eopy (p : Period) (h : p.freq.isRegular = true) :
    createEopy p = RegularPeriodMixin_create_eopy p := by
  obtain ⟨f, s⟩ := p
  cases f <;> first | rfl | (simp [Freq.isRegular] at h)

/-- `DailyPeriod.create_eopy` -/
theorem model_eq_generated_DailyPeriod_create_eopy (p : Period) (h : p.freq = .D) :
    createEopy p = DailyPeriod_create_eopy p := by
  obtain ⟨f, s⟩ := p
  cases h
  rfl

/-- `RegularPeriodMixin.create_tty` -/
theorem model_eq_generated_RegularPeriodMixin_create_tty (p : Period) :
    createTty p = RegularPeriodMixin_create_tty p := rfl

/-- `DailyPeriod.create_tty` -/
theorem model_eq_generated_DailyPeriod_create_tty (p : Period) :
    createTty p = DailyPeriod_create_tty p := rfl

/-! `DailyPeriod.create_som` / `create_eopm` have no counterpart in Model/Dates.lean; the reference definitions are
stated here (first of the month of the period's own date; the day before it) and tied the same way. -/

/-- first day of the month containing the daily period `p` -/
def createSom (p : Period) : R Period := do
  let (y, m, _) ← toYmd p .start
  pure ⟨p.freq, ymd2ord y m 1⟩

/-- last day of the previous month -/
def createEopm (p : Period) : R Period := do
  let q ← createSom p
  pure (q.add (-1))

/-- `DailyPeriod.create_som` -/
theorem model_eq_generated_DailyPeriod_create_som (p : Period) :
    createSom p = DailyPeriod_create_som p := rfl

/-- `DailyPeriod.create_eopm` -/
theorem model_eq_generated_DailyPeriod_create_eopm (p : Period) :
    createEopm p = DailyPeriod_create_eopm p := rfl

/-! ## (b) shift keywords, frequency conversion -/

/-- `Period.shift`: the `match` on the keywords (`"boy"` and `"soy"` are the same case of the code) -/
theorem model_eq_generated_Period_shift (p : Period) (by_ : ShiftBy) :
    Period.shift p by_ = Period_shift p by_ := by
  cases by_ <;> rfl

/-- `Period.refrequent` (also `convert`, `convert_to_new_freq`, `convert_to_new_frequency`: checked aliases) -/
theorem model_eq_generated_Period_refrequent (p : Period) (f : Freq) (pos : Pos) :
    refrequent p f pos = Period_refrequent p f pos := rfl

/-- the module-level `refrequent` (also `convert_to_new_freq`) -/
theorem model_eq_generated_refrequent_function (p : Period) (f : Freq) (pos : Pos) :
    refrequent p f pos = refrequent_function p f pos := rfl

/-- `RegularPeriodMixin.to_ymd`: table lookup, `monthrange` for the open day -/
theorem model_eq_generated_RegularPeriodMixin_to_ymd (p : Period) (h : p.freq.isRegular = true) (pos : Pos) :
    toYmd p pos = RegularPeriodMixin_to_ymd p pos := by
  obtain ⟨f, s⟩ := p
  cases f <;> first
    | (simp [Freq.isRegular] at h; done)
    | (simp only [toYmd, RegularPeriodMixin_to_ymd, mdrGet, toYearSegment, bind, Except.bind, pure, Except.pure]
       split <;> simp_all [throw, throwThe, MonadExceptOf.throw])

/-- errors of `toYmd` are `badInput` only (so the catch-all `except:` of `to_daily` changes nothing) -/
theorem toYmd_error (p : Period) (pos : Pos) (e : Err) (h : toYmd p pos = .error e) : e = .badInput := by
  obtain ⟨f, s⟩ := p
  cases f <;> simp only [toYmd, toYearSegment, bind, Except.bind, pure, Except.pure, throw, throwThe, MonadExceptOf.throw] at h
  all_goals first
    | (cases h <;> rfl)
    | (split at h <;> (cases h <;> rfl))

/-- errors of `fromYmd` are `badInput` only -/
theorem fromYmd_error (f : Freq) (y m d : Int) (e : Err) (h : fromYmd f y m d = .error e) : e = .badInput := by
  cases f <;> simp only [fromYmd, pure, Except.pure, throw, throwThe, MonadExceptOf.throw] at h
  all_goals first
    | (cases h <;> rfl)
    | (split at h <;> (cases h <;> rfl))

/-- `RegularPeriodMixin.to_daily`: `DailyPeriod.from_ymd(*self.to_ymd(position=position))` inside `try/except` -/
theorem model_eq_generated_RegularPeriodMixin_to_daily (p : Period) (pos : Pos) :
    toDaily p pos = RegularPeriodMixin_to_daily p pos := by
  simp only [toDaily, refrequent, RegularPeriodMixin_to_daily, bind, Except.bind]
  cases h : toYmd p pos with
  | error e => simp [reraise, toYmd_error p pos e h]
  | ok v =>
    obtain ⟨y, m, d⟩ := v
    simp only [reraise]
    cases h2 : fromYmd Freq.D y m d with
    | error e => simp [fromYmd_error _ _ _ _ e h2]
    | ok q => rfl

/-- `RegularPeriodMixin.from_ymd` (a classmethod: the class is the receiver) -/
theorem model_eq_generated_RegularPeriodMixin_from_ymd (f : Freq) (h : f.isRegular = true) (y m d : Int) :
    fromYmd f y m d = pure (RegularPeriodMixin_from_ymd f y m d) := by
  cases f <;> first | rfl | (simp [Freq.isRegular] at h)

/-- `DailyPeriod.from_ymd` (through `daily_serial_from_ymd`; `datetime.date` rejects impossible dates) -/
theorem model_eq_generated_DailyPeriod_from_ymd (y m d : Int) :
    fromYmd .D y m d = DailyPeriod_from_ymd .D y m d := by
  simp only [fromYmd, DailyPeriod_from_ymd, dailySerialFromYmd]
  split <;> rfl

/-- `daily_serial_from_ymd` on possible dates -/
theorem model_eq_generated_daily_serial_from_ymd (y m d : Int) :
    dailySerialFromYmd y m d = if ValidYmd y m d then pure (daily_serial_from_ymd y m d) else throw .badInput := rfl

/-- `DailyPeriod.from_year_segment` -/
theorem model_eq_generated_DailyPeriod_from_year_segment (y s : Int) :
    fromYearSegment .D y s = DailyPeriod_from_year_segment .D y s := rfl

/-- `IntegerPeriod.from_year_segment` -/
theorem model_eq_generated_IntegerPeriod_from_year_segment (y s : Int) :
    fromYearSegment .I y s = IntegerPeriod_from_year_segment .I y s := rfl

/-! ## (c) span operators, constructor, resolution, in-place methods, functional operators -/

/-- `x >> y` with a period-like `x`: `_SpannableMixin.__rshift__` -/
theorem model_eq_generated_SpannableMixin_rshift (x : Endpoint) (y : Option Endpoint) :
    Span.rshift (some x) y = SpannableMixin_rshift x y := rfl

/-- `y >> x` dispatched to the right operand (`None >> x`): `_SpannableMixin.__rrshift__` -/
theorem model_eq_generated_SpannableMixin_rrshift (x : Endpoint) (y : Option Endpoint) :
    Span.rshift y (some x) = SpannableMixin_rrshift x y := rfl

/-- `x << y` with a period-like `x`: `_SpannableMixin.__lshift__` -/
theorem model_eq_generated_SpannableMixin_lshift (x : Endpoint) (y : Option Endpoint) :
    Span.lshift (some x) y = SpannableMixin_lshift x y := rfl

/-- `y << x` dispatched to the right operand (`None << x`): `_SpannableMixin.__rlshift__` -/
theorem model_eq_generated_SpannableMixin_rlshift (x : Endpoint) (y : Option Endpoint) :
    Span.lshift y (some x) = SpannableMixin_rlshift x y := rfl

theorem add_add (p : Period) (a b : Int) : (p.add a).add b = p.add (a + b) := by
  simp [Period.add, Int.add_assoc]

/-- `period ** n`: `_SpannableMixin.__pow__` (never raises) -/
theorem model_eq_generated_SpannableMixin_pow (p : Period) (n : Int) :
    SpannableMixin_pow p n = pure (Period.pow p n) := by
  simp only [SpannableMixin_pow, Period.pow, add_add, Span.make, Option.getD, Period.add]
  by_cases h1 : n = 1
  · subst h1; simp
  by_cases h2 : n = -1
  · subst h2; simp
  by_cases h3 : n > 0
  · simp [h1, h2, h3, bind, Except.bind, pure, Except.pure]; omega
  by_cases h4 : n < 0
  · simp [h1, h2, h3, h4, bind, Except.bind, pure, Except.pure]; omega
  have h5 : n = 0 := by omega
  subst h5; simp

/-- `Span.__init__`: default ends by the sign of the step, the frequency check, and the `needs_resolve` attribute -/
theorem model_eq_generated_Span_init (a b : Option Endpoint) (step : Int) :
    Span_init a b step = (Span.make a b step).map (fun s => (s, s.needsResolve)) := by
  simp only [Span_init, Span.make, checkPeriodsOE, typeTag]
  by_cases hs : step > 0 <;> rcases a with _ | ⟨p⟩ | ⟨e, o⟩ <;> rcases b with _ | ⟨q⟩ | ⟨e', o'⟩ <;>
    first
    | (by_cases hf : p.freq = q.freq <;>
        simp [hs, hf, Span.needsResolve, Endpoint.needsResolve, Except.map, bind, Except.bind, pure, Except.pure, typeTag,
          throw, throwThe, MonadExceptOf.throw]; done)
    | (simp [hs, Span.needsResolve, Endpoint.needsResolve, Except.map, bind, Except.bind, pure, Except.pure, typeTag,
          throw, throwThe, MonadExceptOf.throw]; done)

/-- `Span.resolve` -/
theorem model_eq_generated_Span_resolve (s : Span) (c : Ctx) :
    Span.resolve s c = Span_resolve s c := by
  obtain ⟨a, b, st⟩ := s
  cases a <;> cases b <;> simp [Span.resolve, Span_resolve, Endpoint.needsResolve, Endpoint.resolve]

/-- `Span.reverse` (in place) -/
theorem model_eq_generated_Span_reverse (s : Span) : Span.reverse s = Span_reverse s := rfl

/-- `Span.shift` (in place) -/
theorem model_eq_generated_Span_shift (s : Span) (k : Int) : Span.shift s k = Span_shift s k := rfl

/-- `Span.shift_start` (in place) -/
theorem model_eq_generated_Span_shift_start (s : Span) (k : Int) : Span.shiftStart s k = Span_shift_start s k := rfl

/-- `Span.shift_end` (in place) -/
theorem model_eq_generated_Span_shift_end (s : Span) (k : Int) : Span.shiftEnd s k = Span_shift_end s k := rfl

/-- `span + k` -/
theorem model_eq_generated_Span_add (s : Span) (k : Int) : Span.addInt s k = Span_add s k := rfl

/-- `span - k` for an integer `k` -/
theorem model_eq_generated_Span_sub (s : Span) (k : Int) : Span.subInt s k = Span_sub s k := rfl

/-- `span >> step` -/
theorem model_eq_generated_Span_rshift_step (s : Span) (k : Int) : Span.withStepR s k = Span_rshift_step s k := rfl

/-- `span << step` -/
theorem model_eq_generated_Span_lshift_step (s : Span) (k : Int) : Span.withStepL s k = Span_lshift_step s k := rfl

/-! ## (d) module-level helpers -/

/-- `_sign` -/
theorem model_eq_generated_sign (x : Int) : sign x = sign_function x := rfl

/-- `periods_from_until` (also `periods_from_to`, `daters_from_to`) -/
theorem model_eq_generated_periods_from_until (a b : Period) (step : Int) :
    periodsFromUntil a b step = periods_from_until a b step := by
  simp only [periodsFromUntil, periods_from_until, pyRangeR, checkPeriods]
  by_cases hf : a.freq = b.freq <;> by_cases hs : step = 0 <;>
    simp [hf, hs, bind, Except.bind, pure, Except.pure, throw, throwThe, MonadExceptOf.throw]

/-- reference definition for `period_indexes` (no counterpart in Model/Spans.lean): position of every period relative to the
base, `None` kept, mixed frequencies rejected when the generator is consumed -/
def periodIndexes (ps : List (Option Period)) (base : Period) : R (List (Option Int)) :=
  ps.mapM (fun t => match t with
    | some t => (t.subPeriod base).map some
    | none => pure none)

/-- `period_indexes` -/
theorem model_eq_generated_period_indexes (ps : List (Option Period)) (base : Period) :
    periodIndexes ps base = period_indexes ps base := by
  unfold periodIndexes period_indexes
  congr 1

/-- `periods_from_sdmx_strings` (C11): frequency detected from the FIRST string when not given, then every string parsed by
that frequency's class, in order -/
theorem model_eq_generated_periods_from_sdmx_strings (f? : Option Freq) (l : List Str) :
    periodsFromSdmx f? l = periods_from_sdmx_strings l f? := by
  cases l with
  | nil => rfl
  | cons s0 rest =>
    cases f? with
    | some f => rfl
    | none =>
      simp only [periodsFromSdmx, periods_from_sdmx_strings, listHead, List.isEmpty, Bool.not_false, Bool.not_true,
        bind, Except.bind, pure, Except.pure]
      cases h : detectFreq s0 with
      | error e => simp
      | ok o => cases o <;> simp [needSome, throw, throwThe, MonadExceptOf.throw, pure, Except.pure]

/-! ## Default parameter values (what a call that omits the argument means; the name table and the harness assume these) -/

/-- `shift(by=-1)`, `to_ymd/to_daily(position="start")`, `from_ymd(month=1, day=1)`, `from_year_segment(segment=1)` (integer
periods: `0`), `Span(from_per=None, until_per=None, step=1)`, `periods_from_until(step=1)`,
`periods_from_sdmx_strings(frequency=None)` -/
theorem generated_defaults :
    Period_shift_default1 = .by_ (-1) ∧ RegularPeriodMixin_to_ymd_default1 = .start ∧ RegularPeriodMixin_to_daily_default1 = .start
    ∧ RegularPeriodMixin_from_ymd_default1 = 1 ∧ RegularPeriodMixin_from_ymd_default2 = 1
    ∧ DailyPeriod_from_ymd_default1 = 1 ∧ DailyPeriod_from_ymd_default2 = 1
    ∧ DailyPeriod_from_year_segment_default1 = 1 ∧ IntegerPeriod_from_year_segment_default1 = 0
    ∧ Span_init_default1 = none ∧ Span_init_default2 = none ∧ Span_init_default3 = 1
    ∧ periods_from_until_default1 = 1 ∧ periods_from_sdmx_strings_default1 = none := by
  refine ⟨rfl, rfl, rfl, rfl, rfl, rfl, rfl, rfl, rfl, rfl, rfl, rfl, rfl, rfl⟩

/-! ## Non-vacuity: the generated definitions compute on concrete non-trivial values -/

example : RegularPeriodMixin_create_eoy ⟨.Q, 8081⟩ = .ok ⟨.Q, 8083⟩ := by decide
example : DailyPeriod_create_eoy ⟨.D, 738000⟩ = .ok ⟨.D, 738155⟩ := by decide
example : Period_shift ⟨.M, 24250⟩ .tty = .ok ⟨.M, 24249⟩ := by decide
example : RegularPeriodMixin_to_ymd ⟨.M, 24241⟩ .end_ = .ok (2020, 2, 29) := by decide
example : SpannableMixin_rlshift (.res ⟨.Q, 5⟩) none = .ok ⟨.res ⟨.Q, 5⟩, .ctx false 0, -1⟩ := by decide
example : (Span_init (some (.res ⟨.Q, 5⟩)) (some (.res ⟨.M, 5⟩)) 1) = .error .mixedFreq := by decide
example : periods_from_until ⟨.M, 10⟩ ⟨.M, 15⟩ 2 = .ok [⟨.M, 10⟩, ⟨.M, 12⟩, ⟨.M, 14⟩] := by decide
example : period_indexes [some ⟨.Q, 12⟩, none, some ⟨.Q, 7⟩] ⟨.Q, 10⟩ = .ok [some 2, none, some (-3)] := by decide
example : Span_resolve ⟨.ctx false 1, .res ⟨.Y, 9⟩, 2⟩ ⟨⟨.Y, 3⟩, ⟨.Y, 7⟩⟩ = .ok ⟨.res ⟨.Y, 4⟩, .res ⟨.Y, 9⟩, 2⟩ := by decide

end IrisVerif.Dates.GenTie
