/-
Lemmas about the numpy-flavoured helpers of `Model/QMatNp.lean` (entry formulas, dimensions, Python slice bounds on
natural-number arguments), shared by the `Props/GenTieCxx.lean` files, which prove that the hand-written executable
models equal the definitions that `tools/gens/npmat*.py` regenerate from /repo's numpy source on every run.
-/
import IrisVerif.Lemmas.QMatRefines
import IrisVerif.Model.QMatNp

namespace IrisVerif.GenTie

open IrisVerif IrisVerif.QMat

/-! ## `ofFn` extensionality -/

theorem ofFn_congr (r c : Nat) (f g : Nat → Nat → Rat) (h : ∀ i j, i < r → j < c → f i j = g i j) :
    QMat.ofFn r c f = QMat.ofFn r c g := by
  unfold QMat.ofFn
  congr 1
  apply Array.ext
  · simp
  · intro i hi1 hi2
    simp only [Array.size_map, Array.size_range] at hi1
    apply Array.ext
    · simp
    · intro j hj1 hj2
      simp only [Array.getElem_map, Array.size_map, Array.size_range, Array.getElem_range] at hj1 ⊢
      exact h i j hi1 hj1

theorem ofFn_congr' {r r' c c' : Nat} (f g : Nat → Nat → Rat) (hr : r = r') (hc : c = c')
    (h : ∀ i j, i < r → j < c → f i j = g i j) : QMat.ofFn r c f = QMat.ofFn r' c' g := by
  subst hr; subst hc; exact ofFn_congr r c f g h

/-- a matrix built by `ofFn` from the entries of a well-shaped matrix of the same dimensions is that matrix -/
theorem ofFn_get (a : QMat) (hw : a.wellShaped = true) {r c : Nat} (hr : a.rows = r) (hc : a.cols = c) :
    QMat.ofFn r c a.get = a := by
  subst hr; subst hc; exact (eq_ofFn_of_wellShaped a hw).symm

/-! ## Python slice bounds on natural numbers -/

open QMatNp

@[simp] theorem sliceIdx_natCast (n k : Nat) : sliceIdx n (k : Int) = min k n := by
  unfold sliceIdx
  have : ¬ ((k : Int) < 0) := by omega
  simp [this]

theorem sliceIdx_neg (n k : Nat) (hk : 0 < k) : sliceIdx n (-(k : Int)) = n - k := by
  unfold sliceIdx
  have : (-(k : Int) < 0) := by omega
  simp only [this, if_true]
  omega

@[simp] theorem lo_none (n : Nat) : lo n none = 0 := rfl
@[simp] theorem hi_none (n : Nat) : hi n none = n := rfl
@[simp] theorem lo_some_nat (n k : Nat) : lo n (some (k : Int)) = min k n := sliceIdx_natCast n k
@[simp] theorem hi_some_nat (n k : Nat) : hi n (some (k : Int)) = min k n := sliceIdx_natCast n k

theorem sliceIdx_le (n : Nat) (k : Int) : sliceIdx n k ≤ n := by
  unfold sliceIdx
  split
  · omega
  · exact Nat.min_le_right _ _

/-! ## entry formulas and dimensions of the helpers -/

@[simp] theorem slice_rows (a : QMat) (r0 r1 c0 c1 : Option Int) :
    (slice a r0 r1 c0 c1).rows = hi a.rows r1 - lo a.rows r0 := rfl
@[simp] theorem slice_cols (a : QMat) (r0 r1 c0 c1 : Option Int) :
    (slice a r0 r1 c0 c1).cols = hi a.cols c1 - lo a.cols c0 := rfl
@[simp] theorem wellShaped_slice (a : QMat) (r0 r1 c0 c1 : Option Int) : (slice a r0 r1 c0 c1).wellShaped = true :=
  wellShaped_ofFn _ _ _

theorem get_slice (a : QMat) (r0 r1 c0 c1 : Option Int) (i j : Nat) :
    (slice a r0 r1 c0 c1).get i j =
      if i < hi a.rows r1 - lo a.rows r0 ∧ j < hi a.cols c1 - lo a.cols c0
      then a.get (lo a.rows r0 + i) (lo a.cols c0 + j) else 0 := by
  unfold slice; rw [get_block]

@[simp] theorem setSlice_rows (a : QMat) (r0 r1 c0 c1 : Option Int) (e : QMat) : (setSlice a r0 r1 c0 c1 e).rows = a.rows := rfl
@[simp] theorem setSlice_cols (a : QMat) (r0 r1 c0 c1 : Option Int) (e : QMat) : (setSlice a r0 r1 c0 c1 e).cols = a.cols := rfl
@[simp] theorem wellShaped_setSlice (a : QMat) (r0 r1 c0 c1 : Option Int) (e : QMat) :
    (setSlice a r0 r1 c0 c1 e).wellShaped = true := wellShaped_ofFn _ _ _

theorem get_setSlice (a : QMat) (r0 r1 c0 c1 : Option Int) (e : QMat) (i j : Nat) (hi' : i < a.rows) (hj : j < a.cols) :
    (setSlice a r0 r1 c0 c1 e).get i j =
      if lo a.rows r0 ≤ i ∧ i < hi a.rows r1 ∧ lo a.cols c0 ≤ j ∧ j < hi a.cols c1
      then e.get (i - lo a.rows r0) (j - lo a.cols c0) else a.get i j := by
  unfold setSlice; rw [get_ofFn_of_lt _ _ _ _ _ hi' hj]

@[simp] theorem fillSlice_rows (a : QMat) (r0 r1 c0 c1 : Option Int) (v : Rat) : (fillSlice a r0 r1 c0 c1 v).rows = a.rows := rfl
@[simp] theorem fillSlice_cols (a : QMat) (r0 r1 c0 c1 : Option Int) (v : Rat) : (fillSlice a r0 r1 c0 c1 v).cols = a.cols := rfl
@[simp] theorem wellShaped_fillSlice (a : QMat) (r0 r1 c0 c1 : Option Int) (v : Rat) :
    (fillSlice a r0 r1 c0 c1 v).wellShaped = true := wellShaped_ofFn _ _ _

theorem get_fillSlice (a : QMat) (r0 r1 c0 c1 : Option Int) (v : Rat) (i j : Nat) (hi' : i < a.rows) (hj : j < a.cols) :
    (fillSlice a r0 r1 c0 c1 v).get i j =
      if lo a.rows r0 ≤ i ∧ i < hi a.rows r1 ∧ lo a.cols c0 ≤ j ∧ j < hi a.cols c1 then v else a.get i j := by
  unfold fillSlice; rw [get_ofFn_of_lt _ _ _ _ _ hi' hj]

@[simp] theorem zeros_shape (a : QMat) : zeros (shape a) = QMat.zero a.rows a.cols := by
  unfold zeros shape; simp

@[simp] theorem zeros_natCast (m n : Nat) : zeros ((m : Int), (n : Int)) = QMat.zero m n := by
  unfold zeros; simp

@[simp] theorem shape_fst (a : QMat) : (shape a).1 = (a.rows : Int) := rfl
@[simp] theorem shape_snd (a : QMat) : (shape a).2 = (a.cols : Int) := rfl

@[simp] theorem eye_natCast (n : Nat) : eye (n : Int) = QMat.identity n := by
  unfold eye; simp

theorem range_natCast (n : Nat) : QMatNp.range (n : Int) = (List.range n).map Int.ofNat := by
  unfold QMatNp.range; simp

/-- a fold over Python's `range(n)` is a fold over `List.range n` -/
theorem foldl_range_natCast {β : Type} (n : Nat) (f : β → Int → β) (b : β) :
    (QMatNp.range (n : Int)).foldl f b = (List.range n).foldl (fun acc (i : Nat) => f acc (i : Int)) b := by
  rw [range_natCast, List.foldl_map]
  rfl

@[simp] theorem index?_natCast (n k : Nat) : index? n (k : Int) = if k < n then some k else none := by
  unfold index?
  have : ¬ ((k : Int) < 0) := by omega
  simp [this]

theorem listGet_natCast {α : Type} (xs : List α) (k : Nat) (d : α) : listGet xs (k : Int) d = xs.getD k d := by
  unfold listGet
  rw [index?_natCast]
  by_cases h : k < xs.length
  · simp only [h, if_true]
  · simp only [h, if_false]
    simp [List.getD_eq_getElem?_getD, List.getElem?_eq_none (Nat.le_of_not_lt h)]

theorem listSet_natCast {α : Type} (xs : List α) (k : Nat) (v : α) : listSet xs (k : Int) v = xs.set k v := by
  unfold listSet
  rw [index?_natCast]
  by_cases h : k < xs.length
  · simp only [h, if_true]
  · simp only [h, if_false]
    exact (List.set_eq_of_length_le (Nat.le_of_not_lt h)).symm

@[simp] theorem replicate_natCast {α : Type} (n : Nat) (v : α) : QMatNp.replicate (n : Int) v = List.replicate n v := by
  unfold QMatNp.replicate; simp

/-! ## the list-of-slots idiom -/

theorem foldl_set_chain_aux {α : Type} (k : Nat) (g : Nat → α) (F : Option α → α)
    (hF : ∀ i, F (some (g i)) = g (i + 1)) (m : Nat) (hm : m ≤ k) :
    let xs := (List.range m).foldl (fun (xs : List (Option α)) (i : Nat) => xs.set (i + 1) (some (F (xs.getD i none))))
      ((List.replicate (k + 1) none).set 0 (some (g 0)))
    xs.length = k + 1 ∧ ∀ j, j ≤ m → xs[j]? = some (some (g j)) := by
  induction m with
  | zero =>
    refine ⟨by simp, fun j hj => ?_⟩
    have : j = 0 := by omega
    subst this
    simp
  | succ m ih =>
    obtain ⟨hlen, hget⟩ := ih (by omega)
    simp only [List.range_succ, List.foldl_append, List.foldl_cons, List.foldl_nil]
    refine ⟨by rw [List.length_set]; exact hlen, fun j hj => ?_⟩
    rw [List.getElem?_set]
    by_cases hjm : m + 1 = j
    · subst hjm
      rw [if_pos rfl, if_pos (by omega)]
      rw [List.getD_eq_getElem?_getD, hget m (Nat.le_refl _), Option.getD_some, hF]
    · rw [if_neg hjm]
      exact hget j (by omega)

/-- the list idiom `xs = [None]*(k+1); xs[0] = g0; for i in range(k): xs[i+1] = F(xs[i])` builds `[g 0, …, g k]` -/
theorem foldl_set_chain {α : Type} (k : Nat) (g : Nat → α) (F : Option α → α)
    (hF : ∀ i, F (some (g i)) = g (i + 1)) :
    (List.range k).foldl (fun (xs : List (Option α)) (i : Nat) => xs.set (i + 1) (some (F (xs.getD i none))))
      ((List.replicate (k + 1) none).set 0 (some (g 0)))
      = (List.range (k + 1)).map (fun j => some (g j)) := by
  obtain ⟨hlen, hget⟩ := foldl_set_chain_aux k g F hF k (Nat.le_refl _)
  apply List.ext_getElem?
  intro j
  by_cases hj : j ≤ k
  · rw [hget j hj]
    simp [List.getElem?_map, List.getElem?_range (show j < k + 1 by omega)]
  · rw [List.getElem?_eq_none (by omega), List.getElem?_eq_none (by simp; omega)]

end IrisVerif.GenTie
