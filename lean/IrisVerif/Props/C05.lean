/-
C05 -- the steady state returned by `solve_steady` satisfies the steady-state equations.

Property theorems about the executable model `IrisVerif/Model/Steady.lean`. Sections:
  1. steady paths are constant / arithmetic / geometric as declared (+ the real-number identity behind the
     multiplicative modelling of log-variables)
  2. evaluation depends only on the rows of the quantities that occur in the expression
  3. index bijection of the evaluator's residual vector and the exit test
  4. frame conditions of write-back, of one block step and of the whole loop; plan resolution
  5. consistency: the evaluator's array at the final guess is the steady array of the written-back variant
  6. block recursion (for every solver)
  7. steady autovalues
  8. residuals of degree <= 1 are affine in the date: zero at two dates => zero at every date
  9. the linear algorithm: a solution of the stacked two-date system solves the system at every date
     (`Props/BridgeC05.lean` derives the hypotheses from the executable `Linear.*` returning a result)
 10. non-vacuity examples   12. tolerance version of 8 (bounded at two dates ⇒ bounded at every date)
 11. executable certificate `goodGuess?`, `certify`: `SolverCertified` is inhabited by every wrapped solver
What stays outside (runtime facts, validated per run by the harness): convergence of the iteration, the
neqs exit test itself, floating point, and "every date" for genuinely nonlinear models.
-/
import IrisVerif.Model.Steady
import Mathlib.Algebra.Order.Field.Rat
import Mathlib.Algebra.Field.Rat
import Mathlib.Tactic.Ring
import Mathlib.Tactic.Linarith
import Mathlib.Tactic.FieldSimp
import Mathlib.Tactic.Push
import Mathlib.Data.Matrix.Mul
import Mathlib.Data.Matrix.Block
import Mathlib.Tactic.Abel
import Mathlib.Analysis.SpecialFunctions.Log.Basic

namespace IrisVerif.C05
open IrisVerif.Steady

/-! ## 1. Steady paths -/

theorem ratZpow_eq_zpow (c : Rat) (s : Int) : ratZpow c s = c ^ s := by
  unfold ratZpow
  split
  · rename_i h
    obtain ⟨n, rfl⟩ := Int.eq_ofNat_of_zero_le h
    simp
  · rename_i h
    have h' : s < 0 := by omega
    obtain ⟨n, rfl⟩ := Int.exists_eq_neg_ofNat (le_of_lt h')
    simp [zpow_neg]

/-- non-log quantity: the cell at shift `s` is `level + change * s` (a missing change counts as 0) -/
theorem steadyCell_nonlog (l : Rat) (c : Cell) (s : Int) :
    steadyCell false (some l) c s = some (l + c.getD 0 * (s : Rat)) := by
  simp [steadyCell]

/-- arithmetic path: consecutive cells of a non-log quantity differ by the stored change -/
theorem steadyCell_arithmetic (l c : Rat) (s : Int) :
    steadyCell false (some l) (some c) (s + 1) = (steadyCell false (some l) (some c) s).map (· + c) := by
  simp [steadyCell]; ring

/-- constant path: no change stored (or change 0) -/
theorem steadyCell_constant (l : Rat) (s : Int) :
    steadyCell false (some l) none s = some l ∧ steadyCell false (some l) (some 0) s = some l := by
  simp [steadyCell]

/-- log-variable with positive level and change: the cell at shift `s` is `level * change ^ s` -/
theorem steadyCell_log (l c : Rat) (hl : 0 < l) (hc : 0 < c) (s : Int) :
    steadyCell true (some l) (some c) s = some (l * c ^ s) := by
  simp [steadyCell, not_le.mpr hl, hc, ratZpow_eq_zpow]

/-- geometric path: consecutive cells of a log-variable have the stored change as their ratio -/
theorem steadyCell_geometric (l c : Rat) (hl : 0 < l) (hc : 0 < c) (s : Int) :
    steadyCell true (some l) (some c) (s + 1) = (steadyCell true (some l) (some c) s).map (· * c) := by
  rw [steadyCell_log l c hl hc, steadyCell_log l c hl hc]
  simp [zpow_add_one₀ (ne_of_gt hc), mul_assoc]

/-- a log-variable without a (valid) change is constant; a non-positive or missing level is NaN -/
theorem steadyCell_log_degenerate (l : Rat) (s : Int) :
    (0 < l → steadyCell true (some l) none s = some l) ∧ (l ≤ 0 → ∀ c, steadyCell true (some l) c s = none)
    ∧ (∀ c lg, steadyCell lg none c s = none) := by
  refine ⟨fun hl => ?_, fun hl c => ?_, fun c lg => ?_⟩
  · simp [steadyCell, not_le.mpr hl, ratZpow_eq_zpow]
  · simp [steadyCell, hl]
  · simp [steadyCell]

/-- the identity behind the multiplicative modelling: what the code computes for a log-variable,
`exp (log level + log change * shift)`, is `level * change ^ shift` -/
theorem exp_log_path (l c : ℝ) (hl : 0 < l) (hc : 0 < c) (s : ℤ) :
    Real.exp (Real.log l + Real.log c * (s : ℝ)) = l * c ^ s := by
  have key : ∀ (x : ℝ) (s : ℤ), Real.exp ((s : ℝ) * x) = Real.exp x ^ s := by
    intro x s
    cases s with
    | ofNat n => simpa using Real.exp_nat_mul x n
    | negSucc n =>
      rw [zpow_negSucc, Int.cast_negSucc, neg_mul, Real.exp_neg]
      congr 1
      exact_mod_cast Real.exp_nat_mul x (n + 1)
  rw [Real.exp_add, Real.exp_log hl, mul_comm (Real.log c), key, Real.exp_log hc]

/-! ## 2. Evaluation reads only the rows of the quantities that occur -/

theorem eval_congr (arr arr' : SArray) (t : Int) (e : Expr)
    (h : ∀ q ∈ e.qids, ∀ s, arr q s = arr' q s) : e.eval arr t = e.eval arr' t := by
  induction e with
  | num q => rfl
  | tok q s => simpa [Expr.eval] using h q (by simp [Expr.qids]) (t + s)
  | neg a ih => simp only [Expr.eval]; rw [ih (fun q hq => h q (by simpa [Expr.qids] using hq))]
  | pow a n ih => simp only [Expr.eval]; rw [ih (fun q hq => h q (by simpa [Expr.qids] using hq))]
  | add a b iha ihb | sub a b iha ihb | mul a b iha ihb | div a b iha ihb =>
    simp only [Expr.eval]
    rw [iha (fun q hq => h q (by simp [Expr.qids, hq])), ihb (fun q hq => h q (by simp [Expr.qids, hq]))]

/-! ## 3. Index bijection of the residual vector, exit test -/

theorem flatResid_length (eqs : List Expr) (arr : SArray) (t : Int) :
    (Evaluator.flatResid eqs arr t).length = eqs.length := by simp [Evaluator.flatResid]

theorem nonflatResid_length (eqs : List Expr) (arr : SArray) (t k : Int) :
    (Evaluator.nonflatResid eqs arr t k).length = 2 * eqs.length := by
  simp [Evaluator.nonflatResid, Evaluator.flatResid]; omega

/-- entry `i < n` of the non-flat residual vector is equation `i` at date `t` -/
theorem nonflatResid_lo (eqs : List Expr) (arr : SArray) (t k : Int) (i : Nat) (hi : i < eqs.length) :
    (Evaluator.nonflatResid eqs arr t k)[i]? = some ((eqs[i]).eval arr t) := by
  simp [Evaluator.nonflatResid, Evaluator.flatResid, List.getElem?_append_left, hi]

/-- entry `n + i` of the non-flat residual vector is equation `i` at date `t + k` -/
theorem nonflatResid_hi (eqs : List Expr) (arr : SArray) (t k : Int) (i : Nat) (hi : i < eqs.length) :
    (Evaluator.nonflatResid eqs arr t k)[eqs.length + i]? = some ((eqs[i]).eval arr (t + k)) := by
  simp [Evaluator.nonflatResid, Evaluator.flatResid, hi]

/-- the dates at which the evaluator evaluates the equations -/
def evalDates (flat : Bool) : List Int := if flat then [0] else [0, 1]

/-- the exit test bounds every entry of the vector -/
theorem exitTest_sound (tol : Rat) (r : List Cell) (h : exitTest tol r = true) :
    ∀ c ∈ r, ∃ x, c = some x ∧ -tol < x ∧ x < tol := by
  intro c hc
  have := (List.all_eq_true.mp h) c hc
  cases c with
  | none => simp at this
  | some x => exact ⟨x, rfl, by simpa using this⟩

/-- **exit test ⇒ residual bound for every (equation, date)**: if the residual vector of the evaluator at a
guess passes the solver's exit test, every equation of the block is within `tol` at date `t` (and `t+1` when
not flat) on the evaluator's steady array -/
theorem exit_implies_residual_bound (ev : Evaluator) (g : List Rat) (tol : Rat)
    (h : exitTest tol (ev.resid g) = true) :
    ∀ e ∈ ev.eqs, ∀ d ∈ evalDates ev.flat, ∃ x, e.eval (ev.array g) d = some x ∧ -tol < x ∧ x < tol := by
  intro e he d hd
  apply exitTest_sound tol _ h
  unfold Evaluator.resid
  cases hf : ev.flat with
  | true =>
    simp [evalDates, hf] at hd; subst hd
    simp [Evaluator.flatResid]; exact ⟨e, he, rfl⟩
  | false =>
    simp [evalDates, hf] at hd
    rcases hd with rfl | rfl
    · simp [Evaluator.nonflatResid, Evaluator.flatResid]; exact Or.inl ⟨e, he, rfl⟩
    · simp [Evaluator.nonflatResid, Evaluator.flatResid]; exact Or.inr ⟨e, he, rfl⟩

theorem sumSq_nonneg (r : List Cell) (s : Rat) (h : sumSq r = some s) : 0 ≤ s := by
  induction r generalizing s with
  | nil => simp [sumSq] at h; subst h; exact le_refl _
  | cons c rest ih =>
    cases c with
    | none => simp [sumSq] at h
    | some x =>
      simp only [sumSq] at h
      cases hr : sumSq rest with
      | none => rw [hr] at h; cases h
      | some s' =>
        rw [hr] at h; cases h
        have := ih s' hr
        nlinarith [mul_self_nonneg x]

/-- **the acceptance test of the non-default solver `scipy_root` implies the sup-norm exit test**: `‖f‖₂ < tol`
(with `tol ≥ 0`) gives `|fᵢ| < tol` for every entry, so everything proved from `exitTest` (residual bound per
(equation, date), block recursion) also holds for blocks accepted by `scipy_root` -/
theorem exitTest2_implies_exitTest (tol : Rat) (htol : 0 ≤ tol) (r : List Cell) (h : exitTest2 tol r = true) :
    exitTest tol r = true := by
  unfold exitTest2 at h
  cases hs : sumSq r with
  | none => rw [hs] at h; cases h
  | some s =>
    rw [hs] at h
    have hlt : s < tol * tol := by simpa using h
    clear h
    unfold exitTest
    rw [List.all_eq_true]
    induction r generalizing s with
    | nil => intro c hc; cases hc
    | cons c rest ih =>
      cases c with
      | none => simp [sumSq] at hs
      | some x =>
        simp only [sumSq] at hs
        cases hr : sumSq rest with
        | none => rw [hr] at hs; cases hs
        | some s' =>
          rw [hr] at hs; cases hs
          have hs' := sumSq_nonneg rest s' hr
          intro c hc
          rcases List.mem_cons.mp hc with rfl | hc
          · have hx : x ^ 2 < tol ^ 2 := by nlinarith [mul_self_nonneg x]
            have := abs_lt_of_sq_lt_sq' hx htol
            simpa using this
          · exact ih s' hr (by nlinarith [mul_self_nonneg x]) c hc

/-- the residual bound for a block accepted by `scipy_root` -/
theorem scipy_exit_implies_residual_bound (ev : Evaluator) (g : List Rat) (tol : Rat) (htol : 0 ≤ tol)
    (h : exitTest2 tol (ev.resid g) = true) :
    ∀ e ∈ ev.eqs, ∀ d ∈ evalDates ev.flat, ∃ x, e.eval (ev.array g) d = some x ∧ -tol < x ∧ x < tol :=
  exit_implies_residual_bound ev g tol (exitTest2_implies_exitTest tol htol _ h)

/-- **options in force**: an explicit per-call override decides the mode of that call in both directions (in
particular `flat=False` on a model created flat selects the growth algorithm); without an override the creation flag
is used -/
theorem resolveFlags_override (created : Flags) (l f : Bool) :
    resolveFlags created (some l) (some f) = ⟨l, f⟩ ∧ resolveFlags created none none = created
    ∧ (resolveFlags created none (some f)).flat = f ∧ (resolveFlags created (some l) none).linear = l := by
  cases created; simp [resolveFlags, resolveFlag]

/-- the tolerance of the exit test is the one in force at the call: the user's when given, else the model's equality
tolerance at that moment -- two calls with the same arguments use the same tolerance whatever happened in between -/
theorem tolInForce_spec (u e : Rat) : tolInForce (some u) e = u ∧ tolInForce none e = e := by
  simp [tolInForce]

/-- a block accepted at the tolerance in force is within *that* tolerance (what the multi-step oracle demands of each
solve of a sequence) -/
theorem accepted_within_tolerance_in_force (ev : Evaluator) (g : List Rat) (user : Option Rat) (equality : Rat)
    (h : exitTest (tolInForce user equality) (ev.resid g) = true) :
    ∀ e ∈ ev.eqs, ∀ d ∈ evalDates ev.flat,
      ∃ x, e.eval (ev.array g) d = some x ∧ -(tolInForce user equality) < x ∧ x < tolInForce user equality :=
  exit_implies_residual_bound ev g _ h

/-! ## 4. Frame conditions and plan resolution -/

theorem updMany_of_not_mem (kvs : List (Nat × Cell)) (f : Nat → Cell) (q : Nat)
    (h : ∀ kv ∈ kvs, kv.1 ≠ q) : updMany f kvs q = f q := by
  induction kvs generalizing f with
  | nil => rfl
  | cons kv rest ih =>
    obtain ⟨k, x⟩ := kv
    simp only [updMany]
    rw [ih _ (fun kv hkv => h kv (List.mem_cons_of_mem _ hkv))]
    have : k ≠ q := h (k, x) (List.mem_cons_self ..)
    simp [upd, Ne.symm this]

/-- write-back writes levels only at the evaluator's level unknowns -/
theorem writeBack_level_frame (loggable : Nat → Bool) (ev : Evaluator) (g : List Rat) (v : Variant) (q : Nat)
    (hq : q ∉ ev.wrtLevel) : (writeBack loggable ev g v).level q = v.level q := by
  unfold writeBack
  apply updMany_of_not_mem
  intro kv hkv
  simp only [List.mem_map] at hkv
  obtain ⟨⟨k, x⟩, hmem, rfl⟩ := hkv
  intro h; simp at h; subst h
  exact hq (List.of_mem_zip hmem).1

/-- write-back writes changes only at the evaluator's change unknowns -/
theorem writeBack_change_frame (loggable : Nat → Bool) (ev : Evaluator) (g : List Rat) (v : Variant) (q : Nat)
    (hq : q ∉ ev.wrtChange) : (writeBack loggable ev g v).change q = v.change q := by
  unfold writeBack
  apply updMany_of_not_mem
  intro kv hkv
  simp only [List.mem_map, List.mem_filter] at hkv
  obtain ⟨⟨k, x⟩, ⟨hmem, _⟩, rfl⟩ := hkv
  intro h; simp at h; subst h
  exact hq (List.of_mem_zip hmem).1

theorem mem_insertSorted (x q : Nat) (l : List Nat) : q ∈ insertSorted x l ↔ q = x ∨ q ∈ l := by
  induction l with
  | nil => simp [insertSorted]
  | cons y ys ih =>
    unfold insertSorted
    split
    · simp
    · split
      · rename_i h; subst h; simp
      · simp [ih]; tauto

theorem mem_sortDedup (q : Nat) (l : List Nat) : q ∈ sortDedup l ↔ q ∈ l := by
  induction l with
  | nil => simp [sortDedup]
  | cons y ys ih =>
    have : sortDedup (y :: ys) = insertSorted y (sortDedup ys) := rfl
    rw [this, mem_insertSorted, ih]; simp

theorem mem_blockLevelQids (cfg : Config) (b : Block) (q : Nat) :
    q ∈ blockLevelQids cfg b ↔ q ∈ b.qids ∧ q ∉ cfg.fixedLevel := by
  simp [blockLevelQids, mem_sortDedup]

theorem mem_blockChangeQids (cfg : Config) (b : Block) (q : Nat) :
    q ∈ blockChangeQids cfg b ↔ q ∈ b.qids ∧ q ∉ cfg.fixedChange := by
  simp [blockChangeQids, mem_sortDedup]

/-- one block step never writes the level of a quantity outside the block or with a fixed level -/
theorem blockStep_level_frame (cfg : Config) (solver : Solver) (bid : Nat) (b : Block) (v v' : Variant)
    (h : blockStep cfg solver bid b v = .ok v') (q : Nat) (hq : q ∉ b.qids ∨ q ∈ cfg.fixedLevel) :
    v'.level q = v.level q := by
  unfold blockStep at h
  split at h
  · cases h; rfl
  · simp only at h
    split at h
    · cases h
    · cases h
      rw [writeBack_level_frame]
      · simp only [mkEvaluator]; split <;> rfl
      · simp only [mkEvaluator, mem_blockLevelQids]; tauto

/-- in growth mode one block step never writes the change of a quantity outside the block or with a fixed change -/
theorem blockStep_change_frame (cfg : Config) (hflat : cfg.flat = false) (solver : Solver) (bid : Nat) (b : Block)
    (v v' : Variant) (h : blockStep cfg solver bid b v = .ok v') (q : Nat)
    (hq : q ∉ b.qids ∨ q ∈ cfg.fixedChange) : v'.change q = v.change q := by
  unfold blockStep at h
  split at h
  · cases h; rfl
  · simp only at h
    split at h
    · cases h
    · cases h
      rw [writeBack_change_frame]
      · simp [mkEvaluator, hflat]
      · simp [mkEvaluator, hflat, mem_blockChangeQids]; tauto

/-- in flat mode a block step leaves every change at its flat value once the variant is flat -/
theorem blockStep_change_flat (cfg : Config) (hflat : cfg.flat = true) (solver : Solver) (bid : Nat) (b : Block)
    (v v' : Variant) (h : blockStep cfg solver bid b v = .ok v')
    (hv : v.change = (zeroChanges cfg.isVar cfg.logly v).change) : v'.change = v.change := by
  unfold blockStep at h
  split at h
  · cases h; rfl
  · simp only at h
    split at h
    · cases h
    · cases h
      funext q
      rw [writeBack_change_frame]
      · simp only [mkEvaluator, hflat]; simp; rw [← hv]
      · simp [mkEvaluator, hflat]

/-- **frame condition of the whole loop (levels)**: a quantity that is in no block, or whose level is fixed by the
plan, keeps its level through `_steady_nonlinear` -- for every solver -/
theorem blockLoop_level_frame (cfg : Config) (solver : Solver) (blocks : List Block) (bid : Nat) (v v' : Variant)
    (h : blockLoopFrom cfg solver bid blocks v = .ok v') (q : Nat)
    (hq : (∀ b ∈ blocks, q ∉ b.qids) ∨ q ∈ cfg.fixedLevel) : v'.level q = v.level q := by
  induction blocks generalizing bid v with
  | nil => simp [blockLoopFrom] at h; cases h; rfl
  | cons b rest ih =>
    simp only [blockLoopFrom] at h
    split at h
    · cases h
    · rename_i v1 h1
      have hq' : (∀ b ∈ rest, q ∉ b.qids) ∨ q ∈ cfg.fixedLevel :=
        hq.imp (fun hh b hb => hh b (List.mem_cons_of_mem _ hb)) id
      rw [ih (bid + 1) v1 h hq']
      exact blockStep_level_frame cfg solver bid b v v1 h1 q
        (hq.imp (fun hh => hh b (List.mem_cons_self ..)) id)

/-- **frame condition of the whole loop (changes, growth mode)** -/
theorem blockLoop_change_frame (cfg : Config) (hflat : cfg.flat = false) (solver : Solver) (blocks : List Block)
    (bid : Nat) (v v' : Variant) (h : blockLoopFrom cfg solver bid blocks v = .ok v') (q : Nat)
    (hq : (∀ b ∈ blocks, q ∉ b.qids) ∨ q ∈ cfg.fixedChange) : v'.change q = v.change q := by
  induction blocks generalizing bid v with
  | nil => simp [blockLoopFrom] at h; cases h; rfl
  | cons b rest ih =>
    simp only [blockLoopFrom] at h
    split at h
    · cases h
    · rename_i v1 h1
      have hq' : (∀ b ∈ rest, q ∉ b.qids) ∨ q ∈ cfg.fixedChange :=
        hq.imp (fun hh b hb => hh b (List.mem_cons_of_mem _ hb)) id
      rw [ih (bid + 1) v1 h hq']
      exact blockStep_change_frame cfg hflat solver bid b v v1 h1 q
        (hq.imp (fun hh => hh b (List.mem_cons_self ..)) id)

/-- plan resolution: the unknowns are the endogenous variables that are not exogenized, plus the endogenized
parameters -/
theorem mem_resolveWrt_qids (canExo : List Nat) (p : Plan) (q : Nat) :
    q ∈ (resolveWrt canExo p).qids ↔ (q ∈ canExo ∧ q ∉ p.exogenized) ∨ q ∈ p.endogenized := by
  simp [resolveWrt, mem_sortDedup]

/-- an exogenized quantity (that is not also endogenized) is not an unknown; blocks are built from the unknowns
only, so by `blockLoop_level_frame` / `blockLoop_change_frame` it is never written -/
theorem exogenized_not_unknown (canExo : List Nat) (p : Plan) (q : Nat)
    (hx : q ∈ p.exogenized) (hn : q ∉ p.endogenized) : q ∉ (resolveWrt canExo p).qids := by
  rw [mem_resolveWrt_qids]; tauto

/-- endogenized parameters are exactly the extra unknowns, and their change is held fixed -/
theorem endogenized_extra_unknowns (canExo : List Nat) (p : Plan) (q : Nat) (hq : q ∉ canExo) :
    (q ∈ (resolveWrt canExo p).qids ↔ q ∈ p.endogenized)
    ∧ (q ∈ p.endogenized → q ∈ (resolveWrt canExo p).fixedChange) := by
  constructor
  · rw [mem_resolveWrt_qids]; tauto
  · intro h; simp [resolveWrt, mem_sortDedup, h]

theorem resolveWrt_fixed (canExo : List Nat) (p : Plan) (q : Nat) :
    (q ∈ (resolveWrt canExo p).fixedLevel ↔ q ∈ p.fixedLevel)
    ∧ (q ∈ (resolveWrt canExo p).fixedChange ↔ q ∈ p.fixedChange ∨ q ∈ p.endogenized) := by
  simp [resolveWrt, mem_sortDedup]

example : (resolveWrt [0, 1, 2, 3] { exogenized := [1], endogenized := [7], fixedLevel := [2], fixedChange := [3] }).qids
    = [0, 2, 3, 7] := by decide


/-! ## 5. Consistency of the evaluator's array with the stored path -/

theorem updMany_zip (ks : List Nat) (xs : List Rat) (f : Nat → Cell) (q : Nat) :
    updMany f ((ks.zip xs).map (fun (k, x) => (k, some x))) q
      = match Evaluator.lookup ks xs q with
        | some x => some x
        | none => f q := by
  induction ks generalizing xs f with
  | nil => simp [updMany, Evaluator.lookup]
  | cons k ks ih =>
    cases xs with
    | nil => simp [updMany, Evaluator.lookup]
    | cons x xs =>
      simp only [List.zip_cons_cons, List.map_cons, updMany, Evaluator.lookup]
      rw [ih]
      cases Evaluator.lookup ks xs q with
      | some y => rfl
      | none =>
        simp only [upd]
        split <;> rfl

theorem lookup_of_not_mem (ks : List Nat) (xs : List Rat) (q : Nat) (h : q ∉ ks) :
    Evaluator.lookup ks xs q = none := by
  induction ks generalizing xs with
  | nil => simp [Evaluator.lookup]
  | cons k ks ih =>
    cases xs with
    | nil => simp [Evaluator.lookup]
    | cons x xs =>
      simp only [Evaluator.lookup]
      rw [ih xs (fun hh => h (List.mem_cons_of_mem _ hh))]
      have : q ≠ k := fun hh => h (hh ▸ List.mem_cons_self ..)
      simp [this]

theorem lookup_of_mem (ks : List Nat) (xs : List Rat) (q : Nat) (h : q ∈ ks) (hl : ks.length ≤ xs.length) :
    ∃ x, Evaluator.lookup ks xs q = some x := by
  induction ks generalizing xs with
  | nil => cases h
  | cons k ks ih =>
    cases xs with
    | nil => simp at hl
    | cons x xs =>
      simp only [Evaluator.lookup]
      by_cases hq : q ∈ ks
      · obtain ⟨y, hy⟩ := ih xs hq (by simpa using hl)
        exact ⟨y, by rw [hy]⟩
      · rw [lookup_of_not_mem ks xs q hq]
        have : q = k := by
          rcases List.mem_cons.mp h with h | h
          · exact h
          · exact absurd h hq
        exact ⟨x, by simp [this]⟩

/-- a stored change that `create_steady_array` and the evaluator read in the same way -/
def ChangeOK (lg : Bool) (c : Cell) : Prop := lg = true → (c = none ∨ ∃ x, c = some x ∧ 0 < x)

/-- the single cell identity behind the consistency theorem -/
theorem cell_eq_path (lg : Bool) (l : Rat) (c : Cell) (s : Int) (hl : lg = true → 0 < l) (hc : ChangeOK lg c) :
    steadyCell lg (some l) c s = some (Evaluator.path lg l (Evaluator.fillChange lg c) s) := by
  cases lg with
  | false => simp [steadyCell, Evaluator.path, Evaluator.fillChange]
  | true =>
    have hl' := hl rfl
    rcases hc rfl with rfl | ⟨x, rfl, hx⟩
    · simp [steadyCell, Evaluator.path, Evaluator.fillChange, not_le.mpr hl']
    · simp [steadyCell, Evaluator.path, Evaluator.fillChange, not_le.mpr hl', hx, not_lt.mpr (le_of_lt hx)]

/-- what the loop needs from a final guess and from the state the evaluator was built on -/
structure GoodGuess (loggable : Nat → Bool) (ev : Evaluator) (g : List Rat) : Prop where
  /-- the guess has an entry for every unknown -/
  len : ev.wrtLevel.length + ev.wrtChange.length ≤ g.length
  /-- entries of log-variables are positive (they are `exp` of the iterate) -/
  posLevel : ∀ q x, ev.logly q = true → Evaluator.lookup ev.wrtLevel (ev.guessLevels g) q = some x → 0 < x
  posChange : ∀ q x, ev.logly q = true → Evaluator.lookup ev.wrtChange (ev.guessChanges g) q = some x → 0 < x
  /-- every change unknown is a variable (endogenized parameters have a fixed change) -/
  loggable : ∀ q ∈ ev.wrtChange, loggable q = true
  /-- a block quantity whose level is held fixed has an assigned level (positive for a log-variable) -/
  fixedLevel : ∀ q, ev.inWrt q = true → q ∉ ev.wrtLevel → ∃ l, ev.base.level q = some l ∧ (ev.logly q = true → 0 < l)
  /-- a block quantity whose change is held fixed has a change that both readers agree on -/
  fixedChange : ev.flat = false → ∀ q, ev.inWrt q = true → q ∉ ev.wrtChange → ChangeOK (ev.logly q) (ev.base.change q)
  /-- the flat evaluator has no change unknowns and sits on a flat variant (a variable's change is 0, or 1 for a
  log-variable; a parameter has none) -/
  flatNoChange : ev.flat = true → ev.wrtChange = []
  flatBase : ev.flat = true → ∀ q, ev.inWrt q = true → ChangeOK (ev.logly q) (ev.base.change q)
    ∧ Evaluator.fillChange (ev.logly q) (ev.base.change q) = (if ev.logly q then 1 else 0)

theorem writeBack_level_eq (loggable : Nat → Bool) (ev : Evaluator) (g : List Rat) (v : Variant) (q : Nat) :
    (writeBack loggable ev g v).level q
      = match Evaluator.lookup ev.wrtLevel (ev.guessLevels g) q with
        | some x => some x
        | none => v.level q := by
  unfold writeBack
  exact updMany_zip _ _ _ _

theorem writeBack_change_eq (loggable : Nat → Bool) (ev : Evaluator) (g : List Rat) (v : Variant) (q : Nat)
    (hl : ∀ q ∈ ev.wrtChange, loggable q = true) :
    (writeBack loggable ev g v).change q
      = match Evaluator.lookup ev.wrtChange (ev.guessChanges g) q with
        | some x => some x
        | none => v.change q := by
  unfold writeBack
  have : (ev.wrtChange.zip (ev.guessChanges g)).filter (fun (q, _) => loggable q)
      = ev.wrtChange.zip (ev.guessChanges g) := by
    apply List.filter_eq_self.mpr
    intro ⟨k, x⟩ hk
    exact hl k (List.of_mem_zip hk).1
  simp only [this]
  exact updMany_zip _ _ _ _

/-- **consistency**: the steady array on which the evaluator computed its residuals at the final guess is the
steady array that `create_steady_array` rebuilds from the variant after write-back -/
theorem array_eq_steadyArray_writeBack (loggable : Nat → Bool) (ev : Evaluator) (g : List Rat)
    (h : GoodGuess loggable ev g) :
    ev.array g = steadyArray ev.logly (writeBack loggable ev g ev.base) := by
  funext q s
  unfold Evaluator.array steadyArray
  by_cases hin : ev.inWrt q = true
  · simp only [hin, if_true]
    -- level
    have hlen : ev.wrtLevel.length ≤ (ev.guessLevels g).length := by
      have := h.len; simp [Evaluator.guessLevels, List.length_take]; omega
    have hlenc : ev.wrtChange.length ≤ (ev.guessChanges g).length := by
      have := h.len; simp [Evaluator.guessChanges, List.length_drop]; omega
    have hlevel : (writeBack loggable ev g ev.base).level q = some (ev.levelAt g q)
        ∧ (ev.logly q = true → 0 < ev.levelAt g q) := by
      rw [writeBack_level_eq]; unfold Evaluator.levelAt
      cases hlk : Evaluator.lookup ev.wrtLevel (ev.guessLevels g) q with
      | some x => exact ⟨rfl, fun hlg => h.posLevel q x hlg hlk⟩
      | none =>
        have hnot : q ∉ ev.wrtLevel := by
          intro hmem
          obtain ⟨x, hx⟩ := lookup_of_mem _ _ q hmem hlen
          rw [hx] at hlk; cases hlk
        obtain ⟨l, hl, hpos⟩ := h.fixedLevel q hin hnot
        simp only [hl]
        cases hlg : ev.logly q with
        | false => simp [Evaluator.fillLevel]
        | true =>
          have := hpos hlg
          simp [Evaluator.fillLevel, not_lt.mpr (le_of_lt this), this]
    have hchange : ChangeOK (ev.logly q) ((writeBack loggable ev g ev.base).change q)
        ∧ Evaluator.fillChange (ev.logly q) ((writeBack loggable ev g ev.base).change q) = ev.changeAt g q := by
      cases hf : ev.flat with
      | true =>
        have hnc := h.flatNoChange hf
        rw [writeBack_change_frame _ _ _ _ _ (by simp [hnc])]
        obtain ⟨hok, hfill⟩ := h.flatBase hf q hin
        refine ⟨hok, ?_⟩
        rw [hfill]; unfold Evaluator.changeAt
        simp [hf]
      | false =>
        rw [writeBack_change_eq _ _ _ _ _ h.loggable]; unfold Evaluator.changeAt
        simp only [hf]
        cases hlk : Evaluator.lookup ev.wrtChange (ev.guessChanges g) q with
        | some x =>
          constructor
          · intro hlg; exact Or.inr ⟨x, rfl, h.posChange q x hlg hlk⟩
          · cases hlg : ev.logly q with
            | false => simp [Evaluator.fillChange]
            | true =>
              have := h.posChange q x hlg hlk
              simp [Evaluator.fillChange, not_lt.mpr (le_of_lt this)]
        | none =>
          have hnot : q ∉ ev.wrtChange := by
            intro hmem
            obtain ⟨x, hx⟩ := lookup_of_mem _ _ q hmem hlenc
            rw [hx] at hlk; cases hlk
          exact ⟨h.fixedChange hf q hin hnot, by simp⟩
    rw [hlevel.1, cell_eq_path _ _ _ _ hlevel.2 hchange.1, hchange.2]
  · have hin' : ev.inWrt q = false := by simpa using hin
    simp only [hin', Bool.false_eq_true, if_false]
    have h1 : q ∉ ev.wrtLevel := by
      intro hm; simp [Evaluator.inWrt, hm] at hin'
    have h2 : q ∉ ev.wrtChange := by
      intro hm; simp [Evaluator.inWrt, hm] at hin'
    rw [writeBack_level_frame _ _ _ _ _ h1, writeBack_change_frame _ _ _ _ _ h2]

/-! ## 6. Block recursion -/

/-- the changes of a flat variant (what `zero_changes` writes) -/
def FlatReady (cfg : Config) (v : Variant) : Prop :=
  cfg.flat = true → v.change = (zeroChanges cfg.isVar cfg.logly v).change

/-- what is assumed of the (unmodelled) solver on this run: whatever it returns passes the exit test and is a
good guess for the evaluator it was given -/
def SolverCertified (cfg : Config) (solver : Solver) (tol : Rat) : Prop :=
  ∀ bid ev g, solver bid ev = some g → exitTest tol (ev.resid g) = true ∧ GoodGuess cfg.loggable ev g

/-- every equation of the block is within `tol` at the evaluation dates on the steady array of `v` -/
def BlockHolds (cfg : Config) (tol : Rat) (b : Block) (v : Variant) : Prop :=
  ∀ e ∈ blockEqs cfg b, ∀ d ∈ evalDates cfg.flat,
    ∃ x, e.eval (steadyArray cfg.logly v) d = some x ∧ -tol < x ∧ x < tol

theorem mkEvaluator_logly (cfg : Config) (b : Block) (v : Variant) : (mkEvaluator cfg b v).logly = cfg.logly := rfl
theorem mkEvaluator_flat (cfg : Config) (b : Block) (v : Variant) : (mkEvaluator cfg b v).flat = cfg.flat := rfl
theorem mkEvaluator_eqs (cfg : Config) (b : Block) (v : Variant) : (mkEvaluator cfg b v).eqs = blockEqs cfg b := rfl

/-- a solved block holds on the variant that write-back stores (exit test + index bijection + consistency) -/
theorem blockStep_solves (cfg : Config) (solver : Solver) (tol : Rat) (hs : SolverCertified cfg solver tol)
    (bid : Nat) (b : Block) (v v' : Variant) (h : blockStep cfg solver bid b v = .ok v')
    (hns : blockSkipped cfg b = false) : BlockHolds cfg tol b v' := by
  unfold blockStep at h
  simp only [hns, Bool.false_eq_true, if_false] at h
  split at h
  · cases h
  · rename_i g hg
    cases h
    obtain ⟨hexit, hgood⟩ := hs bid _ g hg
    have hb := exit_implies_residual_bound _ g tol hexit
    rw [array_eq_steadyArray_writeBack cfg.loggable _ g hgood] at hb
    intro e he d hd
    exact hb e (by rw [mkEvaluator_eqs]; exact he) d (by rw [mkEvaluator_flat]; exact hd)

theorem blockStep_flatReady (cfg : Config) (solver : Solver) (bid : Nat) (b : Block) (v v' : Variant)
    (h : blockStep cfg solver bid b v = .ok v') (hv : FlatReady cfg v) : FlatReady cfg v' := by
  intro hflat
  have := blockStep_change_flat cfg hflat solver bid b v v' h (hv hflat)
  rw [this, hv hflat]; rfl

/-- a block step does not move the residual of an equation that mentions none of the block's quantities -/
theorem blockStep_preserves (cfg : Config) (solver : Solver) (bid : Nat) (b : Block) (v v' : Variant)
    (h : blockStep cfg solver bid b v = .ok v') (hv : FlatReady cfg v)
    (e : Expr) (he : ∀ q ∈ e.qids, q ∉ b.qids) (d : Int) :
    e.eval (steadyArray cfg.logly v') d = e.eval (steadyArray cfg.logly v) d := by
  apply eval_congr
  intro q hq s
  unfold steadyArray
  rw [blockStep_level_frame cfg solver bid b v v' h q (Or.inl (he q hq))]
  cases hflat : cfg.flat with
  | false => rw [blockStep_change_frame cfg hflat solver bid b v v' h q (Or.inl (he q hq))]
  | true => rw [blockStep_change_flat cfg hflat solver bid b v v' h (hv hflat)]

theorem blockLoop_preserves (cfg : Config) (solver : Solver) (blocks : List Block) (bid : Nat) (v v' : Variant)
    (h : blockLoopFrom cfg solver bid blocks v = .ok v') (hv : FlatReady cfg v)
    (e : Expr) (he : ∀ b ∈ blocks, ∀ q ∈ e.qids, q ∉ b.qids) (d : Int) :
    e.eval (steadyArray cfg.logly v') d = e.eval (steadyArray cfg.logly v) d := by
  induction blocks generalizing bid v with
  | nil => simp [blockLoopFrom] at h; cases h; rfl
  | cons b rest ih =>
    simp only [blockLoopFrom] at h
    split at h
    · cases h
    · rename_i v1 h1
      rw [ih (bid + 1) v1 h (blockStep_flatReady cfg solver bid b v v1 h1 hv)
        (fun b' hb' => he b' (List.mem_cons_of_mem _ hb'))]
      exact blockStep_preserves cfg solver bid b v v1 h1 hv e (he b (List.mem_cons_self ..)) d

/-- C16's ordering property, as far as it is needed here: the equations of a block mention no unknown of a
later block -/
def Ordered (cfg : Config) (blocks : List Block) : Prop :=
  blocks.Pairwise (fun bi bj => ∀ e ∈ blockEqs cfg bi, ∀ q ∈ e.qids, q ∉ bj.qids)

/-- **block recursion** (for every solver, every block list, every configuration): if `_steady_nonlinear`
completes, every returned guess passed the exit test, and the blocks have the ordering property, then on the
*final stored* variant every equation of every solved block is within `tol` at every evaluation date --
solving block by block yields a point where all equations hold together -/
theorem block_recursion (cfg : Config) (solver : Solver) (tol : Rat) (hs : SolverCertified cfg solver tol)
    (blocks : List Block) (bid : Nat) (v v' : Variant)
    (hrun : blockLoopFrom cfg solver bid blocks v = .ok v') (hv : FlatReady cfg v)
    (hord : Ordered cfg blocks) :
    ∀ b ∈ blocks, blockSkipped cfg b = false → BlockHolds cfg tol b v' := by
  induction blocks generalizing bid v with
  | nil => intro b hb; cases hb
  | cons b0 rest ih =>
    simp only [blockLoopFrom] at hrun
    split at hrun
    · cases hrun
    · rename_i v1 h1
      have hv1 := blockStep_flatReady cfg solver bid b0 v v1 h1 hv
      have hord' : Ordered cfg rest := (List.pairwise_cons.mp hord).2
      intro b hb hns
      rcases List.mem_cons.mp hb with rfl | hb
      · -- the head block: solved now, undisturbed by the later blocks
        have hsolved := blockStep_solves cfg solver tol hs bid b v v1 h1 hns
        intro e he d hd
        obtain ⟨x, hx, hb⟩ := hsolved e he d hd
        refine ⟨x, ?_, hb⟩
        rw [blockLoop_preserves cfg solver rest (bid + 1) v1 v' hrun hv1 e
          (fun b' hb' => (List.pairwise_cons.mp hord).1 b' hb' e he) d]
        exact hx
      · exact ih (bid + 1) v1 hrun hv1 hord' b hb hns

/-- the statement for `steadyNonlinear` itself -/
theorem steadyNonlinear_all_equations_hold (cfg : Config) (solver : Solver) (tol : Rat)
    (hs : SolverCertified cfg solver tol) (blocks : List Block) (v v' : Variant)
    (hrun : steadyNonlinear cfg solver blocks v = .ok v') (hv : FlatReady cfg v) (hord : Ordered cfg blocks) :
    ∀ b ∈ blocks, blockSkipped cfg b = false → BlockHolds cfg tol b v' :=
  block_recursion cfg solver tol hs blocks 0 v v' hrun hv hord

/-- one block (`split_into_blocks=False`) is trivially ordered: blockwise and one-system solving are instances of
the same theorem -/
theorem ordered_singleton (cfg : Config) (b : Block) : Ordered cfg [b] := List.pairwise_singleton _ _

/-! ## 7. Steady autovalues -/

/-- the autovalue update writes levels of autovalue targets only -/
theorem updateAutovalues_frame (logly : Nat → Bool) (autos : List (Nat × Expr)) (v : Variant) (q : Nat)
    (hq : ∀ a ∈ autos, a.1 ≠ q) :
    (updateAutovalues logly autos v).level q = v.level q ∧ (updateAutovalues logly autos v).change = v.change := by
  refine ⟨?_, rfl⟩
  unfold updateAutovalues
  apply updMany_of_not_mem
  intro kv hkv
  simp only [List.mem_map] at hkv
  obtain ⟨⟨k, e⟩, hmem, rfl⟩ := hkv
  exact hq (k, e) hmem

/-- equations that do not mention an autovalue target keep their residuals: when the targets do not occur in the
solved equations, the steady state found by the loop still holds after the update -/
theorem updateAutovalues_preserves (logly : Nat → Bool) (autos : List (Nat × Expr)) (v : Variant) (e : Expr)
    (he : ∀ a ∈ autos, a.1 ∉ e.qids) (d : Int) :
    e.eval (steadyArray logly (updateAutovalues logly autos v)) d = e.eval (steadyArray logly v) d := by
  apply eval_congr
  intro q hq s
  unfold steadyArray
  have := updateAutovalues_frame logly autos v q (fun a ha h => he a ha (h ▸ hq))
  rw [this.1, this.2]

theorem updMany_last (kvs : List (Nat × Cell)) (f : Nat → Cell) (k : Nat) (x : Cell)
    (hmem : (k, x) ∈ kvs) (huniq : ∀ kv ∈ kvs, kv.1 = k → kv.2 = x) : updMany f kvs k = x := by
  induction kvs generalizing f with
  | nil => cases hmem
  | cons kv rest ih =>
    obtain ⟨k', x'⟩ := kv
    simp only [updMany]
    by_cases hr : (k, x) ∈ rest
    · exact ih _ hr (fun kv hkv => huniq kv (List.mem_cons_of_mem _ hkv))
    · have hk : (k', x') = (k, x) := by
        rcases List.mem_cons.mp hmem with h | h
        · exact h.symm
        · exact absurd h hr
      cases hk
      rw [updMany_of_not_mem]
      · simp [upd]
      · intro kv hkv hkk
        have := huniq kv (List.mem_cons_of_mem _ hkv) hkk
        apply hr
        have : kv = (k, x) := Prod.ext hkk this
        exact this ▸ hkv

/-- **after the update every autovalue equation holds with the final levels**: if no right-hand side mentions an
autovalue target and the targets are distinct, then for each `(q, rhs)` the stored level of `q` is the value of
`rhs` on the final steady array at date 0 (so `-q + rhs = 0` there whenever the cell of `q` is its level) -/
theorem updateAutovalues_holds (logly : Nat → Bool) (autos : List (Nat × Expr)) (v : Variant)
    (hrhs : ∀ a ∈ autos, ∀ a' ∈ autos, a'.1 ∉ a.2.qids)
    (hdistinct : ∀ a ∈ autos, ∀ a' ∈ autos, a.1 = a'.1 → a = a') :
    ∀ a ∈ autos, (updateAutovalues logly autos v).level a.1
      = a.2.eval (steadyArray logly (updateAutovalues logly autos v)) 0 := by
  intro a ha
  rw [updateAutovalues_preserves logly autos v a.2 (fun a' ha' => hrhs a ha a' ha') 0]
  unfold updateAutovalues
  apply updMany_last
  · simp only [List.mem_map]
    exact ⟨a, ha, rfl⟩
  · intro kv hkv hk
    simp only [List.mem_map] at hkv
    obtain ⟨a', ha', rfl⟩ := hkv
    have := hdistinct a' ha' a ha hk
    rw [this]


/-! ## 8. Residuals of degree ≤ 1 are affine in the date -/

/-- the expression does not depend on the date: only constants and quantities with a constant path -/
def isConst (moving : Nat → Bool) : Expr → Bool
  | .num _ => true
  | .tok q _ => !moving q
  | .neg a => isConst moving a
  | .add a b => isConst moving a && isConst moving b
  | .sub a b => isConst moving a && isConst moving b
  | .mul a b => isConst moving a && isConst moving b
  | .div a b => isConst moving a && isConst moving b
  | .pow a _ => isConst moving a

/-- degree ≤ 1 in the moving quantities: sums of (date-constant coefficient) × (token), divided by
date-constant expressions. Every equation of a linear model is of this form (coefficients may contain parameters). -/
def isAffine (moving : Nat → Bool) : Expr → Bool
  | .num _ => true
  | .tok _ _ => true
  | .neg a => isAffine moving a
  | .add a b => isAffine moving a && isAffine moving b
  | .sub a b => isAffine moving a && isAffine moving b
  | .mul a b => (isConst moving a && isAffine moving b) || (isAffine moving a && isConst moving b)
  | .div a b => isAffine moving a && isConst moving b
  | .pow a _ => isConst moving a

/-- every row of the array is missing, or an arithmetic path (constant when the quantity is not `moving`) -/
def ArithArray (moving : Nat → Bool) (arr : SArray) : Prop :=
  ∀ q, (∀ s, arr q s = none) ∨ ∃ l c : Rat, (moving q = false → c = 0) ∧ ∀ s : Int, arr q s = some (l + c * (s : Rat))

def ConstShape (f : Int → Cell) : Prop := (∀ t, f t = none) ∨ ∃ a : Rat, ∀ t, f t = some a
def AffShape (f : Int → Cell) : Prop := (∀ t, f t = none) ∨ ∃ a b : Rat, ∀ t : Int, f t = some (a + b * (t : Rat))

theorem ConstShape.aff {f : Int → Cell} (h : ConstShape f) : AffShape f := by
  rcases h with h | ⟨a, h⟩
  · exact Or.inl h
  · exact Or.inr ⟨a, 0, fun t => by simp [h t]⟩

theorem eval_shape (moving : Nat → Bool) (arr : SArray) (h : ArithArray moving arr) (e : Expr) :
    (isConst moving e = true → ConstShape (fun t => e.eval arr t)) ∧
    (isAffine moving e = true → AffShape (fun t => e.eval arr t)) := by
  induction e with
  | num q =>
    exact ⟨fun _ => Or.inr ⟨q, fun t => rfl⟩, fun _ => Or.inr ⟨q, 0, fun t => by simp [Expr.eval]⟩⟩
  | tok q s =>
    rcases h q with hn | ⟨l, c, hc, hp⟩
    · exact ⟨fun _ => Or.inl (fun t => by simp [Expr.eval, hn]), fun _ => Or.inl (fun t => by simp [Expr.eval, hn])⟩
    · constructor
      · intro hm
        have : c = 0 := hc (by simpa [isConst] using hm)
        exact Or.inr ⟨l, fun t => by simp [Expr.eval, hp, this]⟩
      · intro _
        exact Or.inr ⟨l + c * (s : Rat), c, fun t => by simp [Expr.eval, hp]; ring⟩
  | neg a ih =>
    constructor
    · intro hc
      rcases ih.1 (by simpa [isConst] using hc) with hn | ⟨x, hx⟩
      · exact Or.inl (fun t => by have := hn t; simp only at this; simp [Expr.eval, this])
      · exact Or.inr ⟨-x, fun t => by have := hx t; simp only at this; simp [Expr.eval, this]⟩
    · intro ha
      rcases ih.2 (by simpa [isAffine] using ha) with hn | ⟨x, y, hx⟩
      · exact Or.inl (fun t => by have := hn t; simp only at this; simp [Expr.eval, this])
      · exact Or.inr ⟨-x, -y, fun t => by have := hx t; simp only at this; simp [Expr.eval, this]; ring⟩
  | pow a n ih =>
    have hc : isConst moving (Expr.pow a n) = true → ConstShape (fun t => (Expr.pow a n).eval arr t) := by
      intro hc
      rcases ih.1 (by simpa [isConst] using hc) with hn | ⟨x, hx⟩
      · exact Or.inl (fun t => by have := hn t; simp only at this; simp [Expr.eval, this])
      · exact Or.inr ⟨x ^ n, fun t => by have := hx t; simp only at this; simp [Expr.eval, this]⟩
    exact ⟨hc, fun ha => (hc (by simpa [isAffine, isConst] using ha)).aff⟩
  | add a b iha ihb =>
    constructor
    · intro hc
      simp only [isConst, Bool.and_eq_true] at hc
      rcases iha.1 hc.1 with hn | ⟨x, hx⟩
      · exact Or.inl (fun t => by have := hn t; simp only at this; simp [Expr.eval, this])
      · rcases ihb.1 hc.2 with hn | ⟨y, hy⟩
        · exact Or.inl (fun t => by have := hn t; simp only at this; simp [Expr.eval, this])
        · exact Or.inr ⟨x + y, fun t => by
            have h1 := hx t; have h2 := hy t; simp only at h1 h2; simp [Expr.eval, h1, h2]⟩
    · intro ha
      simp only [isAffine, Bool.and_eq_true] at ha
      rcases iha.2 ha.1 with hn | ⟨x, x', hx⟩
      · exact Or.inl (fun t => by have := hn t; simp only at this; simp [Expr.eval, this])
      · rcases ihb.2 ha.2 with hn | ⟨y, y', hy⟩
        · exact Or.inl (fun t => by have := hn t; simp only at this; simp [Expr.eval, this])
        · exact Or.inr ⟨x + y, x' + y', fun t => by
            have h1 := hx t; have h2 := hy t; simp only at h1 h2; simp [Expr.eval, h1, h2]; ring⟩
  | sub a b iha ihb =>
    constructor
    · intro hc
      simp only [isConst, Bool.and_eq_true] at hc
      rcases iha.1 hc.1 with hn | ⟨x, hx⟩
      · exact Or.inl (fun t => by have := hn t; simp only at this; simp [Expr.eval, this])
      · rcases ihb.1 hc.2 with hn | ⟨y, hy⟩
        · exact Or.inl (fun t => by have := hn t; simp only at this; simp [Expr.eval, this])
        · exact Or.inr ⟨x - y, fun t => by
            have h1 := hx t; have h2 := hy t; simp only at h1 h2; simp [Expr.eval, h1, h2]⟩
    · intro ha
      simp only [isAffine, Bool.and_eq_true] at ha
      rcases iha.2 ha.1 with hn | ⟨x, x', hx⟩
      · exact Or.inl (fun t => by have := hn t; simp only at this; simp [Expr.eval, this])
      · rcases ihb.2 ha.2 with hn | ⟨y, y', hy⟩
        · exact Or.inl (fun t => by have := hn t; simp only at this; simp [Expr.eval, this])
        · exact Or.inr ⟨x - y, x' - y', fun t => by
            have h1 := hx t; have h2 := hy t; simp only at h1 h2; simp [Expr.eval, h1, h2]; ring⟩
  | mul a b iha ihb =>
    have hcc : isConst moving (Expr.mul a b) = true → ConstShape (fun t => (Expr.mul a b).eval arr t) := by
      intro hc
      simp only [isConst, Bool.and_eq_true] at hc
      rcases iha.1 hc.1 with hn | ⟨x, hx⟩
      · exact Or.inl (fun t => by have := hn t; simp only at this; simp [Expr.eval, this])
      · rcases ihb.1 hc.2 with hn | ⟨y, hy⟩
        · exact Or.inl (fun t => by have := hn t; simp only at this; simp [Expr.eval, this])
        · exact Or.inr ⟨x * y, fun t => by
            have h1 := hx t; have h2 := hy t; simp only at h1 h2; simp [Expr.eval, h1, h2]⟩
    refine ⟨hcc, ?_⟩
    intro ha
    simp only [isAffine, Bool.or_eq_true, Bool.and_eq_true] at ha
    rcases ha with ⟨h1, h2⟩ | ⟨h1, h2⟩
    · rcases iha.1 h1 with hn | ⟨x, hx⟩
      · exact Or.inl (fun t => by have := hn t; simp only at this; simp [Expr.eval, this])
      · rcases ihb.2 h2 with hn | ⟨y, y', hy⟩
        · exact Or.inl (fun t => by have := hn t; simp only at this; simp [Expr.eval, this])
        · exact Or.inr ⟨x * y, x * y', fun t => by
            have h1 := hx t; have h2 := hy t; simp only at h1 h2; simp [Expr.eval, h1, h2]; ring⟩
    · rcases iha.2 h1 with hn | ⟨x, x', hx⟩
      · exact Or.inl (fun t => by have := hn t; simp only at this; simp [Expr.eval, this])
      · rcases ihb.1 h2 with hn | ⟨y, hy⟩
        · exact Or.inl (fun t => by have := hn t; simp only at this; simp [Expr.eval, this])
        · exact Or.inr ⟨x * y, x' * y, fun t => by
            have h1 := hx t; have h2 := hy t; simp only at h1 h2; simp [Expr.eval, h1, h2]; ring⟩
  | div a b iha ihb =>
    constructor
    · intro hc
      simp only [isConst, Bool.and_eq_true] at hc
      rcases iha.1 hc.1 with hn | ⟨x, hx⟩
      · exact Or.inl (fun t => by have := hn t; simp only at this; simp [Expr.eval, this])
      · rcases ihb.1 hc.2 with hn | ⟨y, hy⟩
        · exact Or.inl (fun t => by have := hn t; simp only at this; simp [Expr.eval, this])
        · by_cases hy0 : y = 0
          · exact Or.inl (fun t => by
              have h1 := hx t; have h2 := hy t; simp only at h1 h2; simp [Expr.eval, h1, h2, hy0])
          · exact Or.inr ⟨x / y, fun t => by
              have h1 := hx t; have h2 := hy t; simp only at h1 h2; simp [Expr.eval, h1, h2, hy0]⟩
    · intro ha
      simp only [isAffine, Bool.and_eq_true] at ha
      rcases iha.2 ha.1 with hn | ⟨x, x', hx⟩
      · exact Or.inl (fun t => by have := hn t; simp only at this; simp [Expr.eval, this])
      · rcases ihb.1 ha.2 with hn | ⟨y, hy⟩
        · exact Or.inl (fun t => by have := hn t; simp only at this; simp [Expr.eval, this])
        · by_cases hy0 : y = 0
          · exact Or.inl (fun t => by
              have h1 := hx t; have h2 := hy t; simp only at h1 h2; simp [Expr.eval, h1, h2, hy0])
          · exact Or.inr ⟨x / y, x' / y, fun t => by
              have h1 := hx t; have h2 := hy t; simp only at h1 h2; simp [Expr.eval, h1, h2, hy0]; field_simp⟩

/-- **the residual of an equation of degree ≤ 1 along arithmetic paths is affine in the date** -/
theorem residual_affine_in_date (moving : Nat → Bool) (arr : SArray) (h : ArithArray moving arr) (e : Expr)
    (he : isAffine moving e = true) : AffShape (fun t => e.eval arr t) := (eval_shape moving arr h e).2 he

/-- an affine function of the date that vanishes at two distinct dates vanishes at every date -/
theorem affine_two_zeros (f : Int → Cell) (hf : AffShape f) (t0 t1 : Int) (hne : t0 ≠ t1)
    (h0 : f t0 = some 0) (h1 : f t1 = some 0) : ∀ t, f t = some 0 := by
  rcases hf with hn | ⟨a, b, hab⟩
  · rw [hn t0] at h0; cases h0
  · rw [hab t0] at h0; rw [hab t1] at h1
    have e0 : a + b * (t0 : Rat) = 0 := by simpa using h0
    have e1 : a + b * (t1 : Rat) = 0 := by simpa using h1
    have hd : b * ((t0 : Rat) - (t1 : Rat)) = 0 := by linear_combination e0 - e1
    have hne' : (t0 : Rat) - (t1 : Rat) ≠ 0 := by
      intro hh; apply hne; exact_mod_cast sub_eq_zero.mp hh
    have hb : b = 0 := by
      rcases mul_eq_zero.mp hd with hb | hb
      · exact hb
      · exact absurd hb hne'
    have ha : a = 0 := by rw [hb] at e0; simpa using e0
    intro t; rw [hab t, ha, hb]; simp

/-- **zero at two dates ⇒ zero at every date**, for every equation of degree ≤ 1 on arithmetic paths: covers every
linear model (and, read in logarithms, the log-linear balanced-growth case) -/
theorem affine_residual_zero_everywhere (moving : Nat → Bool) (arr : SArray) (h : ArithArray moving arr) (e : Expr)
    (he : isAffine moving e = true) (t0 t1 : Int) (hne : t0 ≠ t1)
    (h0 : e.eval arr t0 = some 0) (h1 : e.eval arr t1 = some 0) : ∀ t, e.eval arr t = some 0 :=
  affine_two_zeros _ (residual_affine_in_date moving arr h e he) t0 t1 hne h0 h1

/-- which quantities of a stored variant move: non-log quantities with a non-zero change -/
def movingOf (logly : Nat → Bool) (v : Variant) (q : Nat) : Bool :=
  !logly q && (match v.change q with
    | some c => c != 0
    | none => false)

/-- the steady array of a variant is arithmetic whenever its log-variables do not grow (e.g. a flat steady state, or
a model without log-variables) -/
theorem steadyArray_arith (logly : Nat → Bool) (v : Variant)
    (hlog : ∀ q, logly q = true → v.change q = none ∨ v.change q = some 1) :
    ArithArray (movingOf logly v) (steadyArray logly v) := by
  intro q
  unfold steadyArray
  cases hl : v.level q with
  | none => exact Or.inl (fun s => by simp [steadyCell])
  | some l =>
    cases hlg : logly q with
    | false =>
      refine Or.inr ⟨l, (v.change q).getD 0, ?_, fun s => by simp [steadyCell]⟩
      intro hm
      unfold movingOf at hm
      cases hc : v.change q with
      | none => rfl
      | some c => simp [hlg, hc] at hm; simpa using hm
    | true =>
      by_cases hpos : l ≤ 0
      · exact Or.inl (fun s => by simp [steadyCell, hpos])
      · refine Or.inr ⟨l, 0, fun _ => rfl, fun s => ?_⟩
        rcases hlog q hlg with hc | hc <;> simp [steadyCell, hpos, hc, ratZpow_eq_zpow]

/-- the every-date statement for the stored steady state of a model whose equations have degree ≤ 1: if an equation
holds exactly at dates `t` and `t+1` (what the evaluator tests), it holds at every date -/
theorem stored_steady_state_every_date (logly : Nat → Bool) (v : Variant)
    (hlog : ∀ q, logly q = true → v.change q = none ∨ v.change q = some 1)
    (e : Expr) (he : isAffine (movingOf logly v) e = true)
    (h0 : e.eval (steadyArray logly v) 0 = some 0) (h1 : e.eval (steadyArray logly v) 1 = some 0) :
    ∀ t, e.eval (steadyArray logly v) t = some 0 :=
  affine_residual_zero_everywhere _ _ (steadyArray_arith logly v hlog) e he 0 1 (by decide) h0 h1

/-! ## 9. The linear algorithm -/

section Linear
open Matrix
variable {m n p : Type} [Fintype n] [Fintype p] {K : Type} [CommRing K]

/-- flat: `ξ = (-(A+B)) \ C` solves `A ξ + B ξ + C = 0` -/
theorem linear_flat (A B : Matrix m n K) (C : m → K) (ξ : n → K) (h : (-(A + B)) *ᵥ ξ = C) :
    A *ᵥ ξ + B *ᵥ ξ + C = 0 := by
  rw [← h, Matrix.neg_mulVec, Matrix.add_mulVec]; abel

/-- the two block rows of the stacked system (k = 1) give the transition system on the path `ξ + t δ` at every `t` -/
theorem linear_two_dates_all_dates (A B : Matrix m n K) (C : m → K) (ξ δ : n → K)
    (h0 : (A + B) *ᵥ ξ + (-B) *ᵥ δ + C = 0) (h1 : (A + B) *ᵥ ξ + A *ᵥ δ + C = 0) (t : K) :
    A *ᵥ (ξ + t • δ) + B *ᵥ (ξ + (t - 1) • δ) + C = 0 := by
  have hd : A *ᵥ δ + B *ᵥ δ = 0 := by
    have e : A *ᵥ δ + B *ᵥ δ = ((A + B) *ᵥ ξ + A *ᵥ δ + C) - ((A + B) *ᵥ ξ + (-B) *ᵥ δ + C) := by
      simp only [Matrix.neg_mulVec]; abel
    rw [h1, h0, sub_zero] at e; exact e
  have e : A *ᵥ (ξ + t • δ) + B *ᵥ (ξ + (t - 1) • δ) + C
      = ((A + B) *ᵥ ξ + (-B) *ᵥ δ + C) + t • (A *ᵥ δ + B *ᵥ δ) := by
    have hs : (t - 1) • δ = t • δ - δ := by rw [sub_smul, one_smul]
    rw [hs]
    simp only [Matrix.mulVec_add, Matrix.mulVec_sub, Matrix.mulVec_smul, Matrix.add_mulVec, Matrix.neg_mulVec,
      smul_add]
    abel
  rw [e, h0, hd, smul_zero, add_zero]

/-- **linear algorithm**: any solution `(ξ, δ)` of the stacked two-date system
`[[A+B, -B], [A+B, A]] (ξ; δ) + (C; C) = 0` (what `solve_steady_linear_nonflat` solves, `k = 1`) satisfies
`A ξ̄_t + B ξ̄_{t-1} + C = 0` on the path `ξ̄_t = ξ + t δ` for every `t` -/
theorem stacked_solution_all_dates (A B : Matrix m n K) (C : m → K) (ξ δ : n → K)
    (h : Matrix.fromBlocks (A + B) (-B) (A + B) A *ᵥ Sum.elim ξ δ + Sum.elim C C = 0) (t : K) :
    A *ᵥ (ξ + t • δ) + B *ᵥ (ξ + (t - 1) • δ) + C = 0 := by
  rw [Matrix.fromBlocks_mulVec] at h
  have h0 : (A + B) *ᵥ ξ + (-B) *ᵥ δ + C = 0 := by
    funext i; have := congrFun h (Sum.inl i); simpa using this
  have h1 : (A + B) *ᵥ ξ + A *ᵥ δ + C = 0 := by
    funext i; have := congrFun h (Sum.inr i); simpa using this
  exact linear_two_dates_all_dates A B C ξ δ h0 h1 t

/-- measurement block: `F y + G ξ + H = 0` at two dates gives it on the paths at every date -/
theorem measurement_all_dates (F : Matrix p p K) (G : Matrix p n K) (H y dy : p → K) (ξ δ : n → K)
    (h0 : F *ᵥ y + G *ᵥ ξ + H = 0) (h1 : F *ᵥ (y + dy) + G *ᵥ (ξ + δ) + H = 0) (t : K) :
    F *ᵥ (y + t • dy) + G *ᵥ (ξ + t • δ) + H = 0 := by
  have hd : F *ᵥ dy + G *ᵥ δ = 0 := by
    have e : F *ᵥ dy + G *ᵥ δ = (F *ᵥ (y + dy) + G *ᵥ (ξ + δ) + H) - (F *ᵥ y + G *ᵥ ξ + H) := by
      simp only [Matrix.mulVec_add]; abel
    rw [h1, h0, sub_zero] at e; exact e
  have e : F *ᵥ (y + t • dy) + G *ᵥ (ξ + t • δ) + H = (F *ᵥ y + G *ᵥ ξ + H) + t • (F *ᵥ dy + G *ᵥ δ) := by
    simp only [Matrix.mulVec_add, Matrix.mulVec_smul, smul_add]; abel
  rw [e, h0, hd, smul_zero, add_zero]

end Linear


/-! ## 10. The hypotheses are satisfiable (non-vacuity) -/

/-- `x = 1/2 x[-1] + 1` (qid 0) and `z = z[-1] + 1/2 x` (qid 1), written as `-lhs + rhs` -/
def exEqs : List Expr :=
  [ .add (.neg (.tok 0 0)) (.add (.mul (.num (1/2)) (.tok 0 (-1))) (.num 1)),
    .add (.neg (.tok 1 0)) (.add (.tok 1 (-1)) (.mul (.num (1/2)) (.tok 0 0))) ]

def exCfg : Config :=
  { flat := false, logly := fun _ => false, isVar := fun q => q < 2, loggable := fun q => q < 2,
    eqs := exEqs, fixedLevel := [], fixedChange := [] }

def exBlocks : List Block := [⟨[0], [0]⟩, ⟨[1], [1]⟩]

/-- the two blocks have the ordering property (and the reversed order has not) -/
example : Ordered exCfg exBlocks := by unfold Ordered; decide
example : ¬ Ordered exCfg exBlocks.reverse := by unfold Ordered; decide

/-- both equations are of degree ≤ 1 when both variables move; `x * z` is not -/
example : exEqs.all (isAffine (fun _ => true)) = true := by decide
example : isAffine (fun _ => true) (.mul (.tok 0 0) (.tok 1 0)) = false := by decide

/-- the exact steady state `x = 2, Δx = 0`, `z = 0, Δz = 1` replayed through the loop: the solver's answers pass the
exit test, the loop completes, and the stored variant has the expected paths -/
def exSolver : Solver := fun bid _ => if bid = 0 then some [2, 0] else some [0, 1]
def exV0 : Variant := ⟨fun _ => none, fun _ => none⟩

example : (match steadyNonlinear exCfg exSolver exBlocks exV0 with
    | .ok v => [v.level 0, v.change 0, v.level 1, v.change 1] == [some 2, some 0, some 0, some 1]
    | .error _ => false) = true := by decide +kernel

example : exitTest (1 / 1000000000000) ((mkEvaluator exCfg ⟨[0], [0]⟩ exV0).resid [2, 0]) = true := by decide +kernel


/-! ## 12. Tolerance version of section 8: bounded at two dates ⇒ bounded at every date -/

/-- an affine function of the date that is within `ε` at two dates `t0 < t1` is within
`ε · (1 + 2 |t − t0| / (t1 − t0))` at every date `t` (linear interpolation / extrapolation through the two values) -/
theorem affine_two_dates_bound (f : Int → Cell) (hf : AffShape f) (t0 t1 : Int) (hlt : t0 < t1) (ε x0 x1 : Rat)
    (h0 : f t0 = some x0) (h1 : f t1 = some x1) (b0 : |x0| ≤ ε) (b1 : |x1| ≤ ε) :
    ∀ t : Int, ∃ x, f t = some x ∧
      |x| ≤ ε * (1 + 2 * |((t - t0 : Int) : Rat)| / ((t1 - t0 : Int) : Rat)) := by
  rcases hf with hn | ⟨a, b, hab⟩
  · rw [hn t0] at h0; cases h0
  · intro t
    refine ⟨a + b * (t : Rat), hab t, ?_⟩
    have e0 : x0 = a + b * (t0 : Rat) := by
      have := hab t0; rw [h0] at this; exact Option.some.inj this
    have e1 : x1 = a + b * (t1 : Rat) := by
      have := hab t1; rw [h1] at this; exact Option.some.inj this
    have hd : (0 : Rat) < ((t1 - t0 : Int) : Rat) := by exact_mod_cast sub_pos.mpr hlt
    have hd' : ((t1 : Rat) - (t0 : Rat)) ≠ 0 := by
      have : ((t1 - t0 : Int) : Rat) = (t1 : Rat) - (t0 : Rat) := by push_cast; ring
      rw [← this]; exact ne_of_gt hd
    have key : a + b * (t : Rat)
        = x0 + ((t - t0 : Int) : Rat) / ((t1 - t0 : Int) : Rat) * (x1 - x0) := by
      rw [e0, e1]; push_cast; field_simp; ring
    rw [key]
    have hx : |x1 - x0| ≤ 2 * ε := by
      have := abs_sub x1 x0
      linarith
    have hnn : 0 ≤ |((t - t0 : Int) : Rat)| / ((t1 - t0 : Int) : Rat) := div_nonneg (abs_nonneg _) hd.le
    calc |x0 + ((t - t0 : Int) : Rat) / ((t1 - t0 : Int) : Rat) * (x1 - x0)|
        ≤ |x0| + |((t - t0 : Int) : Rat) / ((t1 - t0 : Int) : Rat) * (x1 - x0)| := abs_add_le _ _
      _ = |x0| + |((t - t0 : Int) : Rat)| / ((t1 - t0 : Int) : Rat) * |x1 - x0| := by
          rw [abs_mul, abs_div, abs_of_pos hd]
      _ ≤ ε + |((t - t0 : Int) : Rat)| / ((t1 - t0 : Int) : Rat) * (2 * ε) := by
          have := mul_le_mul_of_nonneg_left hx hnn
          linarith
      _ = ε * (1 + 2 * |((t - t0 : Int) : Rat)| / ((t1 - t0 : Int) : Rat)) := by ring

/-- **tolerance version of `affine_residual_zero_everywhere`**: the residual of an equation of degree ≤ 1 along
arithmetic paths that is within `ε` at two dates `t0 < t1` is defined and within `ε (1 + 2|t − t0|/(t1 − t0))` at every
date `t` -/
theorem affine_residual_bounded_everywhere (moving : Nat → Bool) (arr : SArray) (h : ArithArray moving arr) (e : Expr)
    (he : isAffine moving e = true) (t0 t1 : Int) (hlt : t0 < t1) (ε x0 x1 : Rat)
    (h0 : e.eval arr t0 = some x0) (h1 : e.eval arr t1 = some x1) (b0 : |x0| ≤ ε) (b1 : |x1| ≤ ε) :
    ∀ t : Int, ∃ x, e.eval arr t = some x ∧
      |x| ≤ ε * (1 + 2 * |((t - t0 : Int) : Rat)| / ((t1 - t0 : Int) : Rat)) :=
  affine_two_dates_bound _ (residual_affine_in_date moving arr h e he) t0 t1 hlt ε x0 x1 h0 h1 b0 b1

/-- with the evaluator's two dates `0` and `1`: the bound is `ε (1 + 2|t|)` -- `11 ε` over the oracle's dates −5…5 -/
theorem affine_residual_bound_dates_0_1 (moving : Nat → Bool) (arr : SArray) (h : ArithArray moving arr) (e : Expr)
    (he : isAffine moving e = true) (ε x0 x1 : Rat)
    (h0 : e.eval arr 0 = some x0) (h1 : e.eval arr 1 = some x1) (b0 : |x0| ≤ ε) (b1 : |x1| ≤ ε) (t : Int) :
    ∃ x, e.eval arr t = some x ∧ |x| ≤ ε * (1 + 2 * |(t : Rat)|) := by
  obtain ⟨x, hx, hb⟩ := affine_residual_bounded_everywhere moving arr h e he 0 1 (by decide) ε x0 x1 h0 h1 b0 b1 t
  refine ⟨x, hx, ?_⟩
  simpa using hb

/-- **what the oracle's dates −5…5 check relies on, as a theorem about the loop's output**: in growth mode, if a solved
block holds within `tol` at the evaluation dates on the stored variant (the conclusion of the block recursion), then
every equation of that block of degree ≤ 1 holds within `tol (1 + 2|t|)` at every date `t`, provided the stored
log-variables do not grow (no log-variables, or a flat steady state) -/
theorem blockHolds_affine_every_date (cfg : Config) (hflat : cfg.flat = false) (tol : Rat) (b : Block) (v : Variant)
    (hb : BlockHolds cfg tol b v)
    (hlog : ∀ q, cfg.logly q = true → v.change q = none ∨ v.change q = some 1)
    (e : Expr) (he : e ∈ blockEqs cfg b) (haff : isAffine (movingOf cfg.logly v) e = true) (t : Int) :
    ∃ x, e.eval (steadyArray cfg.logly v) t = some x ∧ |x| ≤ tol * (1 + 2 * |(t : Rat)|) := by
  obtain ⟨x0, h0, l0, u0⟩ := hb e he 0 (by simp [evalDates, hflat])
  obtain ⟨x1, h1, l1, u1⟩ := hb e he 1 (by simp [evalDates, hflat])
  exact affine_residual_bound_dates_0_1 _ _ (steadyArray_arith cfg.logly v hlog) e haff tol x0 x1 h0 h1
    (abs_le.mpr ⟨l0.le, u0.le⟩) (abs_le.mpr ⟨l1.le, u1.le⟩) t


/-! ## 11. An executable certificate: `SolverCertified` is inhabited -/

theorem lookup_mem_zip (ks : List Nat) (xs : List Rat) (q : Nat) (x : Rat)
    (h : Evaluator.lookup ks xs q = some x) : (q, x) ∈ ks.zip xs := by
  induction ks generalizing xs with
  | nil => simp [Evaluator.lookup] at h
  | cons k ks ih =>
    cases xs with
    | nil => simp [Evaluator.lookup] at h
    | cons y ys =>
      simp only [Evaluator.lookup] at h
      cases hr : Evaluator.lookup ks ys q with
      | some z =>
        rw [hr] at h; cases h
        exact List.mem_cons_of_mem _ (ih ys hr)
      | none =>
        rw [hr] at h
        by_cases hq : q = k
        · simp [hq] at h
          subst hq; subst h
          exact List.mem_cons_self ..
        · simp [hq] at h

theorem changeOK?_sound (lg : Bool) (c : Cell) (h : changeOK? lg c = true) : ChangeOK lg c := by
  intro hlg
  unfold changeOK? at h
  rw [hlg] at h
  cases c with
  | none => exact Or.inl rfl
  | some x => exact Or.inr ⟨x, rfl, by simpa using h⟩

/-- **soundness of the executable certificate** -/
theorem goodGuess?_sound (loggable : Nat → Bool) (ev : Evaluator) (g : List Rat)
    (h : goodGuess? loggable ev g = true) : GoodGuess loggable ev g := by
  unfold goodGuess? at h
  simp only [Bool.and_eq_true, decide_eq_true_eq, List.all_eq_true, Bool.or_eq_true, Bool.not_eq_true',
    List.contains_iff_mem, List.isEmpty_iff, List.mem_append] at h
  obtain ⟨⟨⟨⟨⟨⟨⟨hlen, hpl⟩, hpc⟩, hlog⟩, hfl⟩, hfc⟩, hnc⟩, hfb⟩ := h
  have inWrt_iff : ∀ q, ev.inWrt q = true ↔ q ∈ ev.wrtLevel ∨ q ∈ ev.wrtChange := by
    intro q; simp [Evaluator.inWrt]
  refine ⟨hlen, ?_, ?_, hlog, ?_, ?_, ?_, ?_⟩
  · intro q x hlg hlk
    have := hpl (q, x) (lookup_mem_zip _ _ q x hlk)
    rcases this with h1 | h1
    · simp [hlg] at h1
    · exact h1
  · intro q x hlg hlk
    have := hpc (q, x) (lookup_mem_zip _ _ q x hlk)
    rcases this with h1 | h1
    · simp [hlg] at h1
    · exact h1
  · intro q hin hnot
    have hq : q ∈ ev.wrtChange := by
      rcases (inWrt_iff q).1 hin with h1 | h1
      · exact absurd h1 hnot
      · exact h1
    rcases hfl q hq with h1 | h1
    · exact absurd h1 hnot
    · cases hl : ev.base.level q with
      | none => rw [hl] at h1; simp at h1
      | some l =>
        rw [hl] at h1
        refine ⟨l, rfl, fun hlg => ?_⟩
        simp only [Bool.or_eq_true, Bool.not_eq_true', decide_eq_true_eq] at h1
        rcases h1 with h2 | h2
        · rw [hlg] at h2; cases h2
        · exact h2
  · intro hflat q hin hnot
    have hq : q ∈ ev.wrtLevel := by
      rcases (inWrt_iff q).1 hin with h1 | h1
      · exact h1
      · exact absurd h1 hnot
    rcases hfc with h0 | h0
    · rw [hflat] at h0; cases h0
    · rcases h0 q hq with h1 | h1
      · exact absurd h1 hnot
      · exact changeOK?_sound _ _ h1
  · intro hflat
    rcases hnc with h0 | h0
    · rw [hflat] at h0; cases h0
    · exact h0
  · intro hflat q hin
    rcases hfb with h0 | h0
    · rw [hflat] at h0; cases h0
    · have := h0 q ((inWrt_iff q).1 hin)
      exact ⟨changeOK?_sound _ _ this.1, this.2⟩

/-- **`SolverCertified` is inhabited, by every solver**: whatever iteration is wrapped by the acceptance step
(`certify`: an answer is taken only if it passes the exit test and the executable certificate) is certified -/
theorem certify_certified (cfg : Config) (tol : Rat) (s : Solver) :
    SolverCertified cfg (certify tol cfg.loggable s) tol := by
  intro bid ev g h
  unfold certify at h
  split at h
  · rename_i g' _
    split at h
    · rename_i hc
      cases h
      simp only [Bool.and_eq_true] at hc
      exact ⟨hc.1, goodGuess?_sound _ _ _ hc.2⟩
    · cases h
  · cases h

/-- **block recursion without an assumed certificate**: for every configuration, every block list with the ordering
property and *every* iteration `s`, if the loop run with the accepting wrapper completes, every equation of every solved
block is within `tol` at the evaluation dates on the final stored variant -/
theorem steadyNonlinear_certified (cfg : Config) (tol : Rat) (s : Solver) (blocks : List Block) (v v' : Variant)
    (hrun : steadyNonlinear cfg (certify tol cfg.loggable s) blocks v = .ok v') (hv : FlatReady cfg v)
    (hord : Ordered cfg blocks) :
    ∀ b ∈ blocks, blockSkipped cfg b = false → BlockHolds cfg tol b v' :=
  steadyNonlinear_all_equations_hold cfg _ tol (certify_certified cfg tol s) blocks v v' hrun hv hord

/-- end to end on the concrete two-block example (no hypothesis left): the loop with the accepting wrapper around
`exSolver` completes, and both equations hold on the variant it stores, at dates 0 and 1 -/
example : ∃ v', steadyNonlinear exCfg (certify (1 / 1000000000000) exCfg.loggable exSolver) exBlocks exV0 = .ok v'
    ∧ ∀ b ∈ exBlocks, blockSkipped exCfg b = false → BlockHolds exCfg (1 / 1000000000000) b v' := by
  have hok : isOk (steadyNonlinear exCfg (certify (1 / 1000000000000) exCfg.loggable exSolver) exBlocks exV0) = true := by
    decide +kernel
  cases hrun : steadyNonlinear exCfg (certify (1 / 1000000000000) exCfg.loggable exSolver) exBlocks exV0 with
  | error e => rw [hrun] at hok; cases hok
  | ok v' =>
    refine ⟨v', rfl, ?_⟩
    exact steadyNonlinear_certified exCfg _ exSolver exBlocks exV0 v' hrun (fun h => by cases h)
      (by unfold Ordered; decide)

/-- and a wrong answer is refused: with `x = 3` for the first block the wrapped loop reports non-convergence -/
example : isOk (steadyNonlinear exCfg (certify (1 / 1000000000000) exCfg.loggable (fun _ _ => some [3, 0])) exBlocks exV0)
    = false := by decide +kernel


/-! ## 13. Write-back is keyed by quantity, not by position -/

theorem upd_comm (f : Nat → Cell) (k k' : Nat) (x x' : Cell) (h : k ≠ k') :
    upd (upd f k x) k' x' = upd (upd f k' x') k x := by
  funext q
  simp only [upd]
  by_cases h1 : q = k'
  · by_cases h2 : q = k
    · exact absurd (h2.symm.trans h1) h
    · subst h1; simp [h2]
  · by_cases h2 : q = k
    · subst h2; simp [h1]
    · simp [h1, h2]

/-- **the order in which the (quantity, value) pairs are written does not matter** as long as no quantity occurs twice:
write-back depends on which value is paired with which quantity id only. (The evaluator enumerates its unknowns in
CPython set order, e.g. `[8, 7]`; reordering the ids without reordering the values -- or vice versa -- is *not* such a
permutation of pairs and changes the result.) -/
theorem updMany_perm (kvs kvs' : List (Nat × Cell)) (hp : kvs.Perm kvs') (hn : (kvs.map Prod.fst).Nodup)
    (f : Nat → Cell) : updMany f kvs = updMany f kvs' := by
  induction hp generalizing f with
  | nil => rfl
  | cons a _ ih =>
    obtain ⟨k, x⟩ := a
    simp only [updMany]
    exact ih (List.nodup_cons.mp (by simpa using hn)).2 _
  | swap a b l =>
    obtain ⟨k, x⟩ := a
    obtain ⟨k', x'⟩ := b
    simp only [updMany]
    have hne : k' ≠ k := by
      simp only [List.map_cons, List.nodup_cons, List.mem_cons, not_or] at hn
      exact hn.1.1
    rw [upd_comm f k' k x' x hne]
  | trans h1 _ ih1 ih2 =>
    rw [ih1 hn, ih2 ((h1.map Prod.fst).nodup_iff.mp hn)]

/-- two pairings of different values with the same two quantities give different variants: the pairing is observable -/
example : updMany (fun _ => none) [(8, some 1), (7, some 2)] 7 ≠ updMany (fun _ => none) [(7, some 1), (8, some 2)] 7 := by
  decide +kernel


/-! ## 14. Histories: a flat solve does not depend on the changes the variant held before -/

/-- **a flat block step resets the change of every quantity, not only of the block's unknowns**: after a flat block that
calls the solver, every variable has the flat change (0, or 1 for a log-variable) and every other quantity none --
whatever the variant held before (a trend left by an earlier growth-mode solve, or assigned by the user, also for
exogenous variables and for quantities the plan keeps fixed) -/
theorem blockStep_flat_resets_all (cfg : Config) (hflat : cfg.flat = true) (solver : Solver) (bid : Nat) (b : Block)
    (v v' : Variant) (h : blockStep cfg solver bid b v = .ok v') (hns : blockSkipped cfg b = false) :
    v'.change = (zeroChanges cfg.isVar cfg.logly v).change := by
  unfold blockStep at h
  simp only [hns, Bool.false_eq_true, if_false] at h
  split at h
  · cases h
  · cases h
    funext q
    rw [writeBack_change_frame]
    · simp [mkEvaluator, hflat]
    · simp [mkEvaluator, hflat]

theorem blockStep_flat_makes_ready (cfg : Config) (solver : Solver) (bid : Nat) (b : Block)
    (v v' : Variant) (h : blockStep cfg solver bid b v = .ok v') (hns : blockSkipped cfg b = false) :
    FlatReady cfg v' := by
  intro hflat
  rw [blockStep_flat_resets_all cfg hflat solver bid b v v' h hns]
  rfl

theorem blockStep_skipped (cfg : Config) (solver : Solver) (bid : Nat) (b : Block) (v v' : Variant)
    (h : blockStep cfg solver bid b v = .ok v') (hs : blockSkipped cfg b = true) : v' = v := by
  unfold blockStep at h
  simp only [hs, if_true] at h
  cases h; rfl

/-- **block recursion for any history**: `block_recursion` without the hypothesis that the variant is already flat.
Blocks skipped before the first solved block do not touch the variant; the first solved block makes the variant flat
(`blockStep_flat_resets_all`); from there on the original induction applies. So a flat re-solve of a model object that
holds stale trends yields a stored variant on which every equation of every solved block holds. -/
theorem block_recursion_any_history (cfg : Config) (solver : Solver) (tol : Rat) (hs : SolverCertified cfg solver tol)
    (blocks : List Block) (bid : Nat) (v v' : Variant)
    (hrun : blockLoopFrom cfg solver bid blocks v = .ok v') (hord : Ordered cfg blocks) :
    ∀ b ∈ blocks, blockSkipped cfg b = false → BlockHolds cfg tol b v' := by
  induction blocks generalizing bid v with
  | nil => intro b hb; cases hb
  | cons b0 rest ih =>
    have hrun0 := hrun
    simp only [blockLoopFrom] at hrun
    split at hrun
    · cases hrun
    · rename_i v1 h1
      have hord' : Ordered cfg rest := (List.pairwise_cons.mp hord).2
      cases hsk : blockSkipped cfg b0 with
      | true =>
        have hv1 : v1 = v := blockStep_skipped cfg solver bid b0 v v1 h1 hsk
        intro b hb hns
        rcases List.mem_cons.mp hb with rfl | hb
        · rw [hsk] at hns; cases hns
        · exact ih (bid + 1) v1 hrun hord' b hb hns
      | false =>
        -- the head block is solved: from here on the variant is flat-ready and `block_recursion` applies to the whole list
        have hv1 := blockStep_flat_makes_ready cfg solver bid b0 v v1 h1 hsk
        intro b hb hns
        rcases List.mem_cons.mp hb with rfl | hb
        · have hsolved := blockStep_solves cfg solver tol hs bid b v v1 h1 hns
          intro e he d hd
          obtain ⟨x, hx, hbd⟩ := hsolved e he d hd
          refine ⟨x, ?_, hbd⟩
          rw [blockLoop_preserves cfg solver rest (bid + 1) v1 v' hrun hv1 e
            (fun b' hb' => (List.pairwise_cons.mp hord).1 b' hb' e he) d]
          exact hx
        · exact block_recursion cfg solver tol hs rest (bid + 1) v1 v' hrun hv1 hord' b hb hns

/-- the statement for `steadyNonlinear` with the accepting wrapper around an arbitrary iteration: no certificate
assumed, no assumption on the history of the variant -/
theorem steadyNonlinear_certified_any_history (cfg : Config) (tol : Rat) (s : Solver) (blocks : List Block)
    (v v' : Variant) (hrun : steadyNonlinear cfg (certify tol cfg.loggable s) blocks v = .ok v')
    (hord : Ordered cfg blocks) :
    ∀ b ∈ blocks, blockSkipped cfg b = false → BlockHolds cfg tol b v' :=
  block_recursion_any_history cfg _ tol (certify_certified cfg tol s) blocks 0 v v' hrun hord


/-! ## 15. Spellings of a plan -/

/-- **`fix` is `fix_level` followed by `fix_change`** in growth mode -- on every plan, in particular on a fresh one in which
no change has been fixed yet -- and `fix_level` alone in flat mode; likewise `unfix` -/
theorem fix_eq_fixLevel_fixChange (p : Plan) (q : Nat) :
    Plan.apply true p (.fix q) = Plan.apply true (Plan.apply true p (.fixLevel q)) (.fixChange q)
    ∧ Plan.apply false p (.fix q) = Plan.apply false p (.fixLevel q)
    ∧ Plan.apply true p (.unfix q) = Plan.apply true (Plan.apply true p (.unfixLevel q)) (.unfixChange q) := by
  simp [Plan.apply]

theorem mem_regOn (l : List Nat) (q r : Nat) : r ∈ regOn l q ↔ r ∈ l ∨ r = q := by
  unfold regOn
  split
  · rename_i h
    have : q ∈ l := by simpa using h
    constructor
    · exact Or.inl
    · rintro (h | rfl)
      · exact h
      · exact this
  · simp

/-- after `fix q` in growth mode the quantity is in both fixed sets, so (by `resolveWrt_fixed`, `mem_blockLevelQids`,
`mem_blockChangeQids` and the frame theorems) neither its level nor its change is ever written by the loop -/
theorem fix_fixes_both (p : Plan) (q : Nat) :
    q ∈ (Plan.apply true p (.fix q)).fixedLevel ∧ q ∈ (Plan.apply true p (.fix q)).fixedChange := by
  simp [Plan.apply, mem_regOn]

/-- `swap (x, p)` is `exogenize x` and `endogenize p` -/
theorem swap_eq (pl : Plan) (g : Bool) (x q : Nat) :
    Plan.apply g pl (.swap x q) = Plan.apply g (Plan.apply g pl (.exogenize x)) (.endogenize q) := by
  simp [Plan.apply]

example : (Plan.applyAll true {} [.fix 3]).fixedChange = [3] ∧ (Plan.applyAll false {} [.fix 3]).fixedChange = [] := by
  decide


/-! ## 16. Statement audit: no equation is lost, one end-to-end theorem, non-vacuity, the known findings -/

/-- `blockEqs` reads `wrt.equations[eid]`; the model's `filterMap` would drop an out-of-range id silently (the code raises
`IndexError`), so the membership is spelled out: the equations of a block are exactly the equations its ids point to -/
theorem mem_blockEqs (cfg : Config) (b : Block) (e : Expr) :
    e ∈ blockEqs cfg b ↔ ∃ eid ∈ b.eids, cfg.eqs[eid]? = some e := by
  simp [blockEqs, List.mem_filterMap]

/-- with in-range ids no equation of the block is dropped -/
theorem blockEqs_length (cfg : Config) (b : Block) (h : ∀ eid ∈ b.eids, eid < cfg.eqs.length) :
    (blockEqs cfg b).length = b.eids.length := by
  have key : ∀ l : List Nat, (∀ eid ∈ l, eid < cfg.eqs.length) →
      (l.filterMap (fun e => cfg.eqs[e]?)).length = l.length := by
    intro l
    induction l with
    | nil => intro _; rfl
    | cons x xs ih =>
      intro hl
      have hx : x < cfg.eqs.length := hl x (List.mem_cons_self ..)
      have : cfg.eqs[x]? = some cfg.eqs[x] := List.getElem?_eq_getElem hx
      rw [List.filterMap_cons, this]
      simp only [List.length_cons]
      rw [ih (fun e he => hl e (List.mem_cons_of_mem _ he))]
  exact key b.eids h

/-- every equation of the system sits in a block that calls the solver: what a *valid* block decomposition provides
(C16), and exactly what fails in the finding `split-blocks-fully-fixed-quantity`, where an equation is given to a
block without unknowns -/
def Covering (cfg : Config) (blocks : List Block) : Prop :=
  ∀ eid, eid < cfg.eqs.length → ∃ b ∈ blocks, eid ∈ b.eids ∧ blockSkipped cfg b = false

/-- **end-to-end (composition)**: input-level hypotheses only -- the block list is ordered and covering, and the loop,
run with the accepting wrapper around an *arbitrary* iteration on an *arbitrary* variant, completes. Then EVERY
equation of the system is within `tol` at the evaluation dates on the stored variant. Cites: exit test + index
bijection (3), consistency (5), frame (4), block recursion (6, 14), certificate (11). The statement claims nothing for
equations that sit only in skipped blocks -- hence `Covering`. -/
theorem all_equations_hold (cfg : Config) (tol : Rat) (s : Solver) (blocks : List Block) (v v' : Variant)
    (hrun : steadyNonlinear cfg (certify tol cfg.loggable s) blocks v = .ok v')
    (hord : Ordered cfg blocks) (hcov : Covering cfg blocks) :
    ∀ e ∈ cfg.eqs, ∀ d ∈ evalDates cfg.flat,
      ∃ x, e.eval (steadyArray cfg.logly v') d = some x ∧ -tol < x ∧ x < tol := by
  intro e he d hd
  obtain ⟨eid, hlt, hget⟩ := List.mem_iff_getElem.mp he
  obtain ⟨b, hb, hmem, hns⟩ := hcov eid hlt
  have hin : e ∈ blockEqs cfg b := (mem_blockEqs cfg b e).2 ⟨eid, hmem, by rw [List.getElem?_eq_getElem hlt, hget]⟩
  exact steadyNonlinear_certified_any_history cfg tol s blocks v v' hrun hord b hb hns e hin d hd

/-- ... and, for the equations of degree ≤ 1 of a growth-mode model whose stored log-variables do not grow, at EVERY
date within `tol (1 + 2|t|)` -/
theorem all_affine_equations_hold_every_date (cfg : Config) (hflat : cfg.flat = false) (tol : Rat) (s : Solver)
    (blocks : List Block) (v v' : Variant)
    (hrun : steadyNonlinear cfg (certify tol cfg.loggable s) blocks v = .ok v')
    (hord : Ordered cfg blocks) (hcov : Covering cfg blocks)
    (hlog : ∀ q, cfg.logly q = true → v'.change q = none ∨ v'.change q = some 1)
    (e : Expr) (he : e ∈ cfg.eqs) (haff : isAffine (movingOf cfg.logly v') e = true) (t : Int) :
    ∃ x, e.eval (steadyArray cfg.logly v') t = some x ∧ |x| ≤ tol * (1 + 2 * |(t : Rat)|) := by
  have h := all_equations_hold cfg tol s blocks v v' hrun hord hcov e he
  obtain ⟨x0, h0, l0, u0⟩ := h 0 (by simp [evalDates, hflat])
  obtain ⟨x1, h1, l1, u1⟩ := h 1 (by simp [evalDates, hflat])
  exact affine_residual_bound_dates_0_1 _ _ (steadyArray_arith cfg.logly v' hlog) e haff tol x0 x1 h0 h1
    (abs_le.mpr ⟨l0.le, u0.le⟩) (abs_le.mpr ⟨l1.le, u1.le⟩) t

/-- non-vacuity of the end-to-end theorem: the two-block example is covering, so BOTH equations of the system hold -/
example : ∃ v', steadyNonlinear exCfg (certify (1 / 1000000000000) exCfg.loggable exSolver) exBlocks exV0 = .ok v'
    ∧ ∀ e ∈ exCfg.eqs, ∀ d ∈ evalDates exCfg.flat,
        ∃ x, e.eval (steadyArray exCfg.logly v') d = some x ∧ -(1 / 1000000000000 : Rat) < x ∧ x < 1 / 1000000000000 := by
  have hok : isOk (steadyNonlinear exCfg (certify (1 / 1000000000000) exCfg.loggable exSolver) exBlocks exV0) = true := by
    decide +kernel
  cases hrun : steadyNonlinear exCfg (certify (1 / 1000000000000) exCfg.loggable exSolver) exBlocks exV0 with
  | error e => rw [hrun] at hok; cases hok
  | ok v' =>
    exact ⟨v', rfl, all_equations_hold exCfg _ exSolver exBlocks exV0 v' hrun (by unfold Ordered; decide)
      (by unfold Covering; decide)⟩

/-! ### flat mode with a stale history (non-vacuity of section 14) -/

def exCfgFlat : Config := { exCfg with flat := true, eqs := [exEqs.headD (.num 0)] }
/-- a variant that still carries trends from an earlier growth-mode solve -/
def exStale : Variant := ⟨fun q => if q = 0 then some 7 else none, fun q => if q < 2 then some 3 else none⟩

example : ∃ v', steadyNonlinear exCfgFlat (certify (1 / 1000000000000) exCfgFlat.loggable (fun _ _ => some [2])) [⟨[0], [0]⟩]
      exStale = .ok v'
    ∧ v'.change 0 = some 0 ∧ v'.change 1 = some 0
    ∧ ∀ e ∈ exCfgFlat.eqs, ∀ d ∈ evalDates exCfgFlat.flat,
        ∃ x, e.eval (steadyArray exCfgFlat.logly v') d = some x ∧ -(1 / 1000000000000 : Rat) < x ∧ x < 1 / 1000000000000 := by
  have hok : isOk (steadyNonlinear exCfgFlat (certify (1 / 1000000000000) exCfgFlat.loggable (fun _ _ => some [2]))
      [⟨[0], [0]⟩] exStale) = true := by decide +kernel
  cases hrun : steadyNonlinear exCfgFlat (certify (1 / 1000000000000) exCfgFlat.loggable (fun _ _ => some [2]))
      [⟨[0], [0]⟩] exStale with
  | error e => rw [hrun] at hok; cases hok
  | ok v' =>
    have hstep : blockStep exCfgFlat (certify (1 / 1000000000000) exCfgFlat.loggable (fun _ _ => some [2])) 0 ⟨[0], [0]⟩ exStale
        = .ok v' := by
      unfold steadyNonlinear blockLoopFrom at hrun
      split at hrun
      · cases hrun
      · rename_i v1 h1
        simp only [blockLoopFrom] at hrun
        cases hrun; exact h1
    have hch := blockStep_flat_resets_all exCfgFlat rfl _ 0 ⟨[0], [0]⟩ exStale v' hstep (by decide)
    refine ⟨v', rfl, ?_, ?_, all_equations_hold exCfgFlat _ _ _ exStale v' hrun (by unfold Ordered; decide)
      (by unfold Covering; decide)⟩
    · rw [hch]; decide
    · rw [hch]; decide

/-! ### write-back reaches every block quantity, whatever its kind -/

/-- **every unknown level of the block is written** -/
theorem writeBack_level_written (loggable : Nat → Bool) (ev : Evaluator) (g : List Rat) (v : Variant) (q : Nat)
    (hq : q ∈ ev.wrtLevel) (hlen : ev.wrtLevel.length ≤ (ev.guessLevels g).length) :
    ∃ x, Evaluator.lookup ev.wrtLevel (ev.guessLevels g) q = some x ∧ (writeBack loggable ev g v).level q = some x := by
  obtain ⟨x, hx⟩ := lookup_of_mem _ _ q hq hlen
  exact ⟨x, hx, by rw [writeBack_level_eq, hx]⟩

/-- **every unknown change of a loggable quantity is written** -- transition, measurement and exogenous variables alike
(`kind in LOGGABLE_VARIABLE`); only non-variables (endogenized parameters) are filtered out -/
theorem writeBack_change_written (loggable : Nat → Bool) (ev : Evaluator) (g : List Rat) (v : Variant) (q : Nat)
    (hq : q ∈ ev.wrtChange) (hlog : ∀ q ∈ ev.wrtChange, loggable q = true)
    (hlen : ev.wrtChange.length ≤ (ev.guessChanges g).length) :
    ∃ x, Evaluator.lookup ev.wrtChange (ev.guessChanges g) q = some x ∧ (writeBack loggable ev g v).change q = some x := by
  obtain ⟨x, hx⟩ := lookup_of_mem _ _ q hq hlen
  exact ⟨x, hx, by rw [writeBack_change_eq _ _ _ _ _ hlog, hx]⟩

/-- a filter that knows only some of the loggable kinds (say transition variables, qid 0) loses the change of the others
(a measurement variable, qid 1): the stored variant differs -- the filter is observable -/
example :
    (writeBack (fun _ => true) ⟨false, fun _ => false, [0, 1], [0, 1], [], exV0⟩ [1, 2, 3, 4] exV0).change 1 = some 4
    ∧ (writeBack (fun q => q = 0) ⟨false, fun _ => false, [0, 1], [0, 1], [], exV0⟩ [1, 2, 3, 4] exV0).change 1 = none := by
  decide +kernel

/-! ### which version of an equation is solved -/

/-- the steady algorithms see the part after `!!` when there is one, the only version otherwise -/
theorem steadyVersion_spec (d st : Expr) :
    (Equation.steadyVersion ⟨d, some st⟩) = st ∧ (Equation.steadyVersion ⟨d, none⟩) = d := by
  simp [Equation.steadyVersion]

/-- `pi = pi[-1] + 1/4 yg !! pi = pit` (pi: 1, yg: 0, pit: parameter 2 with value 2): the constant of the first-order
system comes from the steady version (2); the dynamic version would give 0 and leave the level of `pi` open -/
example :
    linearConstants (fun q => q = 2) (fun _ => false) (fun q => if q = 2 then some 2 else none)
      [⟨.add (.neg (.tok 1 0)) (.add (.tok 1 (-1)) (.mul (.num (1/4)) (.tok 0 0))),
        some (.add (.neg (.tok 1 0)) (.tok 2 0))⟩] = [some 2]
    ∧ linearConstants (fun q => q = 2) (fun _ => false) (fun q => if q = 2 then some 2 else none)
      [⟨.add (.neg (.tok 1 0)) (.add (.tok 1 (-1)) (.mul (.num (1/4)) (.tok 0 0))), none⟩] = [some 0] := by
  decide +kernel

/-! ### the two recorded findings, machine-checked on the model of the current code -/

/-- **finding `linear-steady-ignores-exogenous-variables`**: `y = 1/2 y[-1] + 2 z + 1` (y: 0, exogenous z: 1 with level 10).
The constant of the first-order system is formed at the zero point, where the exogenous `z` counts as 0: `C = 1`; the
flat linear algorithm on `A = 1, B = -1/2, C = 1`... in the code's sign convention `A ξ + B ξ₋₁ + C = 0` with the residual
`-y + 1/2 y[-1] + 2 z + 1`: `A = -1, B = 1/2` ... returns `y = 2`; on the stored steady array (z = 10) the equation is off
by 20 -/
example :
    let eq : Expr := .add (.neg (.tok 0 0)) (.add (.add (.mul (.num (1/2)) (.tok 0 (-1))) (.mul (.num 2) (.tok 1 0))) (.num 1))
    let level : Nat → Cell := fun q => if q = 1 then some 10 else none
    linearConstants (fun _ => false) (fun _ => false) level [⟨eq, none⟩] = [some 1]
    ∧ (Linear.solveFlat (QMat.ofRows [[-1]]) (QMat.ofRows [[1/2]]) (QMat.ofRows [[1]])).map (fun x => x.get 0 0) = some 2
    ∧ eq.eval (steadyArray (fun _ => false) ⟨fun q => if q = 0 then some 2 else some 10, fun _ => none⟩) 0 = some 20 := by
  decide +kernel

/-- **finding `split-blocks-fully-fixed-quantity`** (the mechanism, on the block loop of the current code): `t` (qid 0) has
level and change fixed by the plan, its drift `d` (qid 2) is endogenized, `v` (qid 1) is to be found from `v = t`.
A block ordering that hands the equation of `v` to the fully fixed `t` -- what `blaze` returns for the non-square
incidence matrix (4 equations, 5 columns in the recorded case) -- makes that block one that "needs no solver": it is
skipped, the loop completes without error, and the equation of `v` is off by 4 on the stored variant.
`Covering` is what this block list lacks; `all_equations_hold` does not apply. -/
example :
    let eqs : List Expr := [ .add (.neg (.tok 1 0)) (.tok 0 0),                              -- v = t
                             .add (.neg (.tok 0 0)) (.add (.tok 0 (-1)) (.tok 2 0)) ]        -- t = t[-1] + d
    let cfg : Config := { flat := false, logly := fun _ => false, isVar := fun q => q < 2, loggable := fun q => q < 2,
                          eqs := eqs, fixedLevel := [0], fixedChange := [0, 2] }
    let blocks : List Block := [⟨[0], [0]⟩, ⟨[1], [2]⟩]
    let v0 : Variant := ⟨fun q => if q = 0 then some 1 else if q = 1 then some 5 else some (1/4),
                         fun q => if q = 0 then some 1 else none⟩
    blockSkipped cfg ⟨[0], [0]⟩ = true
    ∧ (match steadyNonlinear cfg (certify (1 / 1000000000000) cfg.loggable (fun _ _ => some [1])) blocks v0 with
       | .ok v' => v'.level 2 == some 1 && (eqs.headD (.num 0)).eval (steadyArray cfg.logly v') 0 == some (-4)
       | .error _ => false) = true := by
  decide +kernel

/-! ### non-vacuity of the remaining property-level theorems -/

/-- `updateAutovalues_holds` on a concrete instance: `aux (qid 5) := 2 x[-1] + 1` with `x = (3, 1/2)` gives `aux = 6` -/
example :
    let autos : List (Nat × Expr) := [(5, .add (.mul (.num 2) (.tok 0 (-1))) (.num 1))]
    let v : Variant := ⟨fun q => if q = 0 then some 3 else none, fun q => if q = 0 then some (1/2) else none⟩
    (updateAutovalues (fun _ => false) autos v).level 5 = some 6 := by
  decide +kernel

/-- `affine_residual_bound_dates_0_1` on a concrete instance: residual `1/1000 + 1/1000 · t` of `-x + y` with
`x = (0, 0)`, `y = (1/1000, 1/1000)`: within `2/1000` at dates 0 and 1, hence within `2/1000 · (1 + 2·5)` at date 5 -/
example : ∃ x, (Expr.add (.neg (.tok 0 0)) (.tok 1 0)).eval
      (steadyArray (fun _ => false) ⟨fun q => if q = 0 then some 0 else some (1/1000), fun q => if q = 0 then some 0 else some (1/1000)⟩) 5
      = some x ∧ |x| ≤ (2 / 1000 : Rat) * (1 + 2 * |((5 : Int) : Rat)|) := by
  refine affine_residual_bound_dates_0_1 (fun _ => true) _ ?harr _ (by decide) (2 / 1000) (1 / 1000) (2 / 1000)
    ?h0 ?h1 ?b0 ?b1 5
  case harr =>
    intro q
    by_cases hq : q = 0
    · exact Or.inr ⟨0, 0, ⟨fun _ => rfl, fun s => by simp [steadyArray, steadyCell, hq]⟩⟩
    · exact Or.inr ⟨1 / 1000, 1 / 1000, ⟨fun h => by simp at h, fun s => by simp [steadyArray, steadyCell, hq]⟩⟩
  case h0 => decide +kernel
  case h1 => decide +kernel
  case b0 => norm_num [abs_of_pos]
  case b1 => norm_num [abs_of_pos]


/-! ## 17. The geometric analogue of section 8: log-linear equations on balanced-growth paths -/

/-- a monomial: products, quotients, natural powers and signs of constants and tokens (no sums) -/
def isMono : Expr → Bool
  | .num _ => true
  | .tok _ _ => true
  | .neg a => isMono a
  | .mul a b => isMono a && isMono b
  | .div a b => isMono a && isMono b
  | .pow a _ => isMono a
  | .add _ _ => false
  | .sub _ _ => false

/-- every row of the array is missing, or a geometric path `l · c^s` with a positive gross rate (constant rows: `c = 1`) -/
def GeoArray (arr : SArray) : Prop :=
  ∀ q, (∀ s, arr q s = none) ∨ ∃ l c : Rat, 0 < c ∧ ∀ s : Int, arr q s = some (l * c ^ s)

def GeoShape (f : Int → Cell) : Prop := (∀ t, f t = none) ∨ ∃ a r : Rat, 0 < r ∧ ∀ t : Int, f t = some (a * r ^ t)

/-- **a monomial evaluates along geometric paths to `a · r^t`** (or is undefined at every date) -/
theorem mono_shape (arr : SArray) (h : GeoArray arr) (e : Expr) (he : isMono e = true) :
    GeoShape (fun t => e.eval arr t) := by
  induction e with
  | num q => exact Or.inr ⟨q, 1, one_pos, fun t => by simp [Expr.eval]⟩
  | tok q s =>
    rcases h q with hn | ⟨l, c, hc, hp⟩
    · exact Or.inl (fun t => by simp [Expr.eval, hn])
    · exact Or.inr ⟨l * c ^ s, c, hc, fun t => by
        simp only [Expr.eval, hp]; rw [zpow_add₀ (ne_of_gt hc)]; congr 1; ring⟩
  | add a b _ _ => simp [isMono] at he
  | sub a b _ _ => simp [isMono] at he
  | neg a ih =>
    rcases ih (by simpa [isMono] using he) with hn | ⟨x, r, hr, hx⟩
    · exact Or.inl (fun t => by have := hn t; simp only at this; simp [Expr.eval, this])
    · exact Or.inr ⟨-x, r, hr, fun t => by have := hx t; simp only at this; simp [Expr.eval, this]⟩
  | pow a n ih =>
    rcases ih (by simpa [isMono] using he) with hn | ⟨x, r, hr, hx⟩
    · exact Or.inl (fun t => by have := hn t; simp only at this; simp [Expr.eval, this])
    · refine Or.inr ⟨x ^ n, r ^ n, pow_pos hr n, fun t => ?_⟩
      have := hx t; simp only at this
      simp only [Expr.eval, this, mul_pow]
      congr 2
      rw [← zpow_natCast, ← zpow_mul, mul_comm, zpow_mul, zpow_natCast]
  | mul a b iha ihb =>
    simp only [isMono, Bool.and_eq_true] at he
    rcases iha he.1 with hn | ⟨x, r, hr, hx⟩
    · exact Or.inl (fun t => by have := hn t; simp only at this; simp [Expr.eval, this])
    · rcases ihb he.2 with hn | ⟨y, r', hr', hy⟩
      · exact Or.inl (fun t => by have := hn t; simp only at this; simp [Expr.eval, this])
      · exact Or.inr ⟨x * y, r * r', mul_pos hr hr', fun t => by
          have h1 := hx t; have h2 := hy t; simp only at h1 h2
          simp only [Expr.eval, h1, h2, mul_zpow]; congr 1; ring⟩
  | div a b iha ihb =>
    simp only [isMono, Bool.and_eq_true] at he
    rcases iha he.1 with hn | ⟨x, r, hr, hx⟩
    · exact Or.inl (fun t => by have := hn t; simp only at this; simp [Expr.eval, this])
    · rcases ihb he.2 with hn | ⟨y, r', hr', hy⟩
      · exact Or.inl (fun t => by have := hn t; simp only at this; simp [Expr.eval, this])
      · by_cases hy0 : y = 0
        · exact Or.inl (fun t => by
            have h1 := hx t; have h2 := hy t; simp only at h1 h2; simp [Expr.eval, h1, h2, hy0])
        · refine Or.inr ⟨x / y, r / r', div_pos hr hr', fun t => ?_⟩
          have h1 := hx t; have h2 := hy t; simp only at h1 h2
          have hne : y * r' ^ t ≠ 0 := mul_ne_zero hy0 (zpow_ne_zero _ (ne_of_gt hr'))
          simp only [Expr.eval, h1, h2, hne, if_false, div_zpow]
          congr 1
          field_simp

/-- **zero at two dates ⇒ zero at every date, geometric case**: an equation `lhs = rhs` between two monomials (the code's
residual `-(lhs) + rhs`) on geometric paths -- every log-linear balanced-growth equation such as `y = a·k[-1]^2 / n`,
`c[+1]/c = β·r`, `m1 = la · m2[-1]`. If the residual vanishes at two distinct dates, both sides grow at the same rate and
the residual vanishes at every date. -/
theorem mono_residual_zero_everywhere (arr : SArray) (h : GeoArray arr) (l r : Expr)
    (hl : isMono l = true) (hr : isMono r = true) (t0 t1 : Int) (hne : t0 ≠ t1)
    (h0 : (Expr.add (.neg l) r).eval arr t0 = some 0) (h1 : (Expr.add (.neg l) r).eval arr t1 = some 0) :
    ∀ t, (Expr.add (.neg l) r).eval arr t = some 0 := by
  rcases mono_shape arr h l hl with hn | ⟨a₁, r₁, hr₁, hL⟩
  · have := hn t0; simp only at this; simp [Expr.eval, this] at h0
  rcases mono_shape arr h r hr with hn | ⟨a₂, r₂, hr₂, hR⟩
  · have := hn t0; simp only at this
    have hL0 := hL t0; simp only at hL0
    simp [Expr.eval, this, hL0] at h0
  have val : ∀ t, (Expr.add (.neg l) r).eval arr t = some (-(a₁ * r₁ ^ t) + a₂ * r₂ ^ t) := by
    intro t
    have h1' := hL t; have h2' := hR t; simp only at h1' h2'
    simp [Expr.eval, h1', h2']
  rw [val] at h0 h1
  have e0 : a₁ * r₁ ^ t0 = a₂ * r₂ ^ t0 := by
    have := Option.some.inj h0; linarith
  have e1 : a₁ * r₁ ^ t1 = a₂ * r₂ ^ t1 := by
    have := Option.some.inj h1; linarith
  have p1 : ∀ t : Int, r₁ ^ t ≠ 0 := fun t => zpow_ne_zero _ (ne_of_gt hr₁)
  have p2 : ∀ t : Int, r₂ ^ t ≠ 0 := fun t => zpow_ne_zero _ (ne_of_gt hr₂)
  intro t
  rw [val]
  by_cases ha : a₁ = 0
  · have : a₂ = 0 := by
      rw [ha, zero_mul] at e0
      rcases mul_eq_zero.mp e0.symm with h' | h'
      · exact h'
      · exact absurd h' (p2 t0)
    simp [ha, this]
  · -- both coefficients are non-zero; the ratio of the rates is 1
    have ha2 : a₂ ≠ 0 := by
      intro h'; rw [h', zero_mul] at e0
      rcases mul_eq_zero.mp e0 with h'' | h''
      · exact ha h''
      · exact absurd h'' (p1 t0)
    have hρ : (r₂ / r₁) ^ t0 = (r₂ / r₁) ^ t1 := by
      have q0 : (r₂ / r₁) ^ t0 = a₁ / a₂ := by
        rw [div_zpow]; field_simp; linarith
      have q1 : (r₂ / r₁) ^ t1 = a₁ / a₂ := by
        rw [div_zpow]; field_simp; linarith
      rw [q0, q1]
    have hρ1 : r₂ / r₁ = 1 := by
      by_contra hcon
      exact hne ((zpow_right_inj₀ (div_pos hr₂ hr₁) hcon).mp hρ)
    have hrr : r₂ = r₁ := by
      have := (div_eq_one_iff_eq (ne_of_gt hr₁)).mp hρ1; exact this
    subst hrr
    have haa : a₁ = a₂ := mul_right_cancel₀ (p2 t0) e0
    rw [haa]; simp

/-- the steady array of a variant is geometric when its non-log quantities do not move (log-variables may grow at any
positive rate): the balanced-growth situation -/
theorem steadyArray_geo (logly : Nat → Bool) (v : Variant)
    (hnon : ∀ q, logly q = false → v.change q = none ∨ v.change q = some 0)
    (hpos : ∀ q, logly q = true → v.change q = none ∨ ∃ c, v.change q = some c ∧ 0 < c) :
    GeoArray (steadyArray logly v) := by
  intro q
  unfold steadyArray
  cases hl : v.level q with
  | none => exact Or.inl (fun s => by simp [steadyCell])
  | some l =>
    cases hlg : logly q with
    | false =>
      refine Or.inr ⟨l, 1, one_pos, fun s => ?_⟩
      rcases hnon q hlg with hc | hc <;> simp [steadyCell, hc]
    | true =>
      by_cases hp : l ≤ 0
      · exact Or.inl (fun s => by simp [steadyCell, hp])
      · rcases hpos q hlg with hc | ⟨c, hc, hcp⟩
        · exact Or.inr ⟨l, 1, one_pos, fun s => by simp [steadyCell, hp, hc, ratZpow_eq_zpow]⟩
        · exact Or.inr ⟨l, c, hcp, fun s => by simp [steadyCell, hp, hc, hcp, ratZpow_eq_zpow]⟩

/-- **every date for the stored balanced-growth path**: a monomial equation that holds exactly at dates 0 and 1 on the
stored steady array holds at every date -/
theorem stored_balanced_growth_every_date (logly : Nat → Bool) (v : Variant)
    (hnon : ∀ q, logly q = false → v.change q = none ∨ v.change q = some 0)
    (hpos : ∀ q, logly q = true → v.change q = none ∨ ∃ c, v.change q = some c ∧ 0 < c)
    (l r : Expr) (hl : isMono l = true) (hr : isMono r = true)
    (h0 : (Expr.add (.neg l) r).eval (steadyArray logly v) 0 = some 0)
    (h1 : (Expr.add (.neg l) r).eval (steadyArray logly v) 1 = some 0) :
    ∀ t, (Expr.add (.neg l) r).eval (steadyArray logly v) t = some 0 :=
  mono_residual_zero_everywhere _ (steadyArray_geo logly v hnon hpos) l r hl hr 0 1 (by decide) h0 h1

/-- non-vacuity: `c = 3/4 · y` with `y = (2, 17/16)`, `c = (3/2, 17/16)` (both log-variables) holds at dates 0 and 1, hence
at every date; the equation is a monomial equation, `c = 3/4·y + 1` is not -/
example : ∀ t, (Expr.add (.neg (.tok 1 0)) (.mul (.num (3/4)) (.tok 0 0))).eval
    (steadyArray (fun _ => true) ⟨fun q => if q = 0 then some 2 else some (3/2), fun _ => some (17/16)⟩) t = some 0 := by
  apply stored_balanced_growth_every_date
  · intro q hq; cases hq
  · intro q _; exact Or.inr ⟨17/16, rfl, by norm_num⟩
  · decide
  · decide
  · decide +kernel
  · decide +kernel

example : isMono (.add (.mul (.num (3/4)) (.tok 0 0)) (.num 1)) = false := by decide


/-- **finding `nonlinear-growth-two-date-solution`** (the mechanism, on the model): `(x - 1)·(x[-1] - 1) = 0` has the
steady state `x = 1`; it is of degree 2 in `x` (not `isAffine`, and `-(lhs) + rhs` is not monomial = monomial with a
growing non-log `x`). In growth mode the guess `level 1, change 1` -- the trending path `x_t = 1 + t` -- makes the residual
vanish at BOTH dates the evaluator looks at (0 and 1): the exit test is met, the accepting wrapper takes the answer, the
loop completes and stores it; on the stored variant the equation is off by 2 at date 2 (and by `t(t-1)` at date `t`).
Everything proved about dates t, t+1 (`all_equations_hold`) holds here; the every-date theorems do not apply. -/
example :
    let eq : Expr := .add (.neg (.mul (.sub (.tok 0 0) (.num 1)) (.sub (.tok 0 (-1)) (.num 1)))) (.num 0)
    let cfg : Config := { flat := false, logly := fun _ => false, isVar := fun q => q = 0, loggable := fun q => q = 0,
                          eqs := [eq], fixedLevel := [], fixedChange := [] }
    isAffine (fun _ => true) eq = false
    ∧ exitTest (1 / 1000000000000) ((mkEvaluator cfg ⟨[0], [0]⟩ exV0).resid [1, 1]) = true
    ∧ (match steadyNonlinear cfg (certify (1 / 1000000000000) cfg.loggable (fun _ _ => some [1, 1])) [⟨[0], [0]⟩] exV0 with
       | .ok v' => v'.level 0 == some 1 && v'.change 0 == some 1
                   && eq.eval (steadyArray cfg.logly v') 0 == some 0 && eq.eval (steadyArray cfg.logly v') 1 == some 0
                   && eq.eval (steadyArray cfg.logly v') 2 == some (-2) && eq.eval (steadyArray cfg.logly v') (-3) == some (-12)
       | .error _ => false) = true := by
  decide +kernel

end IrisVerif.C05
