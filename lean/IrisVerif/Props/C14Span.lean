/-
C14, second layer (`Model/HPSpan.lean`): the forms of the `span` argument of `_data_hpf`, the filter span as the hull
of data ∪ constraints ∪ requested periods, the output as the restriction to `[min span, max span]`, and the state of
the filter object across the variant loop.
-/
import IrisVerif.Model.HPSpan
import IrisVerif.Lemmas.PyRange
import IrisVerif.Props.BridgeC14

namespace IrisVerif.C14Span

open IrisVerif IrisVerif.HP IrisVerif.HPModel IrisVerif.Dates

/-! ## minimum and maximum of the requested periods -/

theorem foldl_min_spec (l : List Int) (a : Int) :
    (l.foldl min a ≤ a ∧ ∀ x ∈ l, l.foldl min a ≤ x) ∧ (l.foldl min a = a ∨ l.foldl min a ∈ l) := by
  induction l generalizing a with
  | nil => simp
  | cons b l ih =>
    obtain ⟨⟨h1, h2⟩, h3⟩ := ih (min a b)
    simp only [List.foldl_cons, List.mem_cons]
    refine ⟨⟨by omega, ?_⟩, ?_⟩
    · rintro x (rfl | hx)
      · omega
      · exact h2 x hx
    · rcases h3 with h | h
      · rcases Int.le_total a b with hab | hab
        · left; rw [h]; omega
        · right; left; rw [h]; omega
      · right; right; exact h

theorem foldl_max_spec (l : List Int) (a : Int) :
    (a ≤ l.foldl max a ∧ ∀ x ∈ l, x ≤ l.foldl max a) ∧ (l.foldl max a = a ∨ l.foldl max a ∈ l) := by
  induction l generalizing a with
  | nil => simp
  | cons b l ih =>
    obtain ⟨⟨h1, h2⟩, h3⟩ := ih (max a b)
    simp only [List.foldl_cons, List.mem_cons]
    refine ⟨⟨by omega, ?_⟩, ?_⟩
    · rintro x (rfl | hx)
      · omega
      · exact h2 x hx
    · rcases h3 with h | h
      · rcases Int.le_total a b with hab | hab
        · right; left; rw [h]; omega
        · left; rw [h]; omega
      · right; right; exact h

/-- **`hullOf` is (min, max)**: both ends are requested periods and every requested period lies between them. -/
theorem hullOf_spec (l : List Int) (a b : Int) (h : hullOf l = some (a, b)) :
    a ∈ l ∧ b ∈ l ∧ ∀ x ∈ l, a ≤ x ∧ x ≤ b := by
  cases l with
  | nil => simp [hullOf] at h
  | cons c l =>
    simp only [hullOf, Option.some.injEq, Prod.mk.injEq] at h
    obtain ⟨rfl, rfl⟩ := h
    obtain ⟨⟨m1, m2⟩, m3⟩ := foldl_min_spec l c
    obtain ⟨⟨x1, x2⟩, x3⟩ := foldl_max_spec l c
    refine ⟨?_, ?_, ?_⟩
    · rcases m3 with h | h
      · rw [h]; exact List.mem_cons_self
      · exact List.mem_cons_of_mem _ h
    · rcases x3 with h | h
      · rw [h]; exact List.mem_cons_self
      · exact List.mem_cons_of_mem _ h
    · intro x hx
      rcases List.mem_cons.1 hx with rfl | hx
      · exact ⟨m1, x1⟩
      · exact ⟨m2 x hx, x2 x hx⟩

theorem hullOf_isSome (l : List Int) (h : l ≠ []) : ∃ a b, hullOf l = some (a, b) := by
  cases l with
  | nil => exact absurd rfl h
  | cons c l => exact ⟨_, _, rfl⟩

/-- the hull is determined by *which* periods are requested -/
theorem hullOf_eq_of_spec (l : List Int) (a b : Int) (ha : a ∈ l) (hb : b ∈ l) (hall : ∀ x ∈ l, a ≤ x ∧ x ≤ b) :
    hullOf l = some (a, b) := by
  obtain ⟨a', b', h⟩ := hullOf_isSome l (List.ne_nil_of_mem ha)
  obtain ⟨ha', hb', hall'⟩ := hullOf_spec l a' b' h
  have e1 : a' = a := by have := (hall a' ha').1; have := (hall' a ha).1; omega
  have e2 : b' = b := by have := (hall b' hb').2; have := (hall' b hb).2; omega
  rw [h, e1, e2]

/-- **order, repetition and direction of the requested periods are irrelevant**: two requests with the same set of
periods (a shuffled list, a reversed span, a tuple with repetitions) have the same hull -/
theorem hullOf_congr (l l' : List Int) (h : ∀ x, x ∈ l ↔ x ∈ l') : hullOf l = hullOf l' := by
  cases hl : l with
  | nil =>
    cases hl' : l' with
    | nil => rfl
    | cons c t => exfalso; have := (h c).2 (by rw [hl']; exact List.mem_cons_self); rw [hl] at this; cases this
  | cons c t =>
    obtain ⟨a, b, hab⟩ := hullOf_isSome l (by rw [hl]; exact List.cons_ne_nil _ _)
    obtain ⟨ha, hb, hall⟩ := hullOf_spec l a b hab
    rw [← hl, hab]
    exact (hullOf_eq_of_spec l' a b ((h a).1 ha) ((h b).1 hb) (fun x hx => hall x ((h x).2 hx))).symm

theorem hull_periods_perm (dlo dhi : Int) (l l' : List Int) (h : l.Perm l') :
    (SpanReq.periods l).hull dlo dhi = (SpanReq.periods l').hull dlo dhi := by
  unfold SpanReq.hull SpanReq.elems
  simp only [Option.bind_some]
  exact hullOf_congr l l' (fun x => h.mem_iff)

/-- **a backward span selects what the forward span selects**: `Span(a + m·step, a, -step)` and
`Span(a, a + m·step, step)` have the same hull (any non-zero step) -/
theorem hull_backward_eq_forward (dlo dhi a step : Int) (m : Nat) (hs : step ≠ 0) :
    (SpanReq.range (some (a + (m : Int) * step)) (some a) (-step)).hull dlo dhi
      = (SpanReq.range (some a) (some (a + (m : Int) * step)) step).hull dlo dhi := by
  unfold SpanReq.hull SpanReq.elems
  have hs' : -step ≠ 0 := by omega
  simp only [hs, hs', if_false, Option.getD_some, Option.bind_some]
  rw [pyRange_reverse a step m hs]
  exact hullOf_congr _ _ (fun x => List.mem_reverse)

/-- a forward unit-step span `Span(a, b)` with `a ≤ b` has hull `(a, b)`; so has `...` for the data's own range -/
theorem hull_unit_range (dlo dhi a b : Int) (hab : a ≤ b) :
    (SpanReq.range (some a) (some b) 1).hull dlo dhi = some (a, b) := by
  unfold SpanReq.hull SpanReq.elems
  simp only [show (1 : Int) ≠ 0 by decide, if_false, Option.getD_some, Option.bind_some, sign_pos (show (0 : Int) < 1 by decide)]
  apply hullOf_eq_of_spec
  · rw [mem_pyRange _ _ _ _ (by decide)]; exact ⟨0, by omega, fun _ => by omega, fun h => by omega⟩
  · rw [mem_pyRange _ _ _ _ (by decide)]; exact ⟨(b - a).toNat, by omega, fun _ => by omega, fun h => by omega⟩
  · intro x hx
    rw [mem_pyRange _ _ _ _ (by decide)] at hx
    obtain ⟨i, rfl, h1, _⟩ := hx
    have := h1 (by decide)
    omega

theorem hull_dots (dlo dhi : Int) (h : dlo ≤ dhi) : SpanReq.dots.hull dlo dhi = some (dlo, dhi) := by
  have := hull_unit_range dlo dhi dlo dhi h
  unfold SpanReq.hull SpanReq.elems at this ⊢
  simp only [show (1 : Int) ≠ 0 by decide, if_false, Option.getD_some, sign_pos (show (0 : Int) < 1 by decide)] at this
  exact this

/-- open ends are the data's own start / end -/
theorem hull_open_ends (dlo dhi : Int) (b : Int) (h : dlo ≤ b) :
    (SpanReq.range none (some b) 1).hull dlo dhi = some (dlo, b) := by
  have := hull_unit_range dlo dhi dlo b h
  unfold SpanReq.hull SpanReq.elems at this ⊢
  simpa using this

/-! ## the filter span is the hull of data ∪ constraints ∪ requested periods -/

/-- **`get_encompassing_span`**: the lower end is below the data start, the requested minimum and the start of each
constraint series, and is one of them; the upper end likewise. -/
theorem encompassing_is_hull (dlo dhi : Int) (level change : Option Ser) (slo shi : Int) :
    let e := HP.encompassing dlo dhi level change slo shi
    (e.1 ≤ dlo ∧ e.1 ≤ slo ∧ (∀ s, level = some s → e.1 ≤ s.start) ∧ (∀ s, change = some s → e.1 ≤ s.start)) ∧
    (e.1 = dlo ∨ e.1 = slo ∨ (∃ s, level = some s ∧ e.1 = s.start) ∨ (∃ s, change = some s ∧ e.1 = s.start)) ∧
    (dhi ≤ e.2 ∧ shi ≤ e.2 ∧ (∀ s, level = some s → s.stop ≤ e.2) ∧ (∀ s, change = some s → s.stop ≤ e.2)) ∧
    (e.2 = dhi ∨ e.2 = shi ∨ (∃ s, level = some s ∧ e.2 = s.stop) ∨ (∃ s, change = some s ∧ e.2 = s.stop)) := by
  unfold HP.encompassing
  rcases level with _ | l <;> rcases change with _ | c <;> simp [List.foldl] <;> omega

theorem setup_requested (r : Request) (a b : Int) :
    (setup { r with span := some (a, b) }).slo = a ∧ (setup { r with span := some (a, b) }).shi = b := by
  unfold setup; simp

/-- **the filter runs on the hull**: for any form of `span` whose periods have minimum `a` and maximum `b`, every
requested period `x` lies inside the filter span `[lo, hi]`, and so do the data. -/
theorem filter_span_contains_request (r : Request) (s : SpanReq) (a b : Int)
    (hh : s.hull r.dstart (r.dstart + r.dlen - 1) = some (a, b)) (l : List Int)
    (hl : s.elems r.dstart (r.dstart + r.dlen - 1) = some l) (x : Int) (hx : x ∈ l) :
    let st := setup { r with span := some (a, b) }
    st.lo ≤ x ∧ x ≤ st.hi ∧ st.lo ≤ r.dstart ∧ r.dstart + r.dlen - 1 ≤ st.hi := by
  intro st
  unfold SpanReq.hull at hh
  rw [hl, Option.bind_some] at hh
  obtain ⟨_, _, hall⟩ := hullOf_spec l a b hh
  obtain ⟨h1, h2⟩ := hall x hx
  have hb := (C14Span.encompassing_is_hull r.dstart (r.dstart + r.dlen - 1) r.level r.change a b)
  have e : (st.lo, st.hi) = HP.encompassing r.dstart (r.dstart + r.dlen - 1) r.level r.change a b := by
    simp only [st, setup, Option.getD_some]
  have e1 : st.lo = (HP.encompassing r.dstart (r.dstart + r.dlen - 1) r.level r.change a b).1 := by rw [← e]
  have e2 : st.hi = (HP.encompassing r.dstart (r.dstart + r.dlen - 1) r.level r.change a b).2 := by rw [← e]
  rw [e1, e2]
  obtain ⟨⟨g1, g2, _, _⟩, _, ⟨g3, g4, _, _⟩, _⟩ := hb
  omega

/-! ## the output is the restriction to `[min span, max span]` -/

theorem filterData_sizes (lg ex : Rat → Rat) (n : Nat) (lam : Rat) (lw cw : List Nat) (ld cd : List Rat)
    (y : Array (Option Rat)) (f : Filtered) (h : filterData lg ex n lam lw cw ld cd y = some f) :
    f.trend.size = n ∧ f.gap.size = n := by
  obtain ⟨x, _, ht, hg⟩ := filterData_spec lg ex n lam lw cw ld cd y f h
  rw [ht, hg]; simp

/-- **the requested span only clips**: for any form of `span` with hull `(a, b)`, a successful run returns, dated from
`a`, for every variant the slice `[a − lo : b − lo + 1]` of the trend and gap computed on the filter span (request with the
span widened to `[lo, hi]`), and this slice has exactly `b − a + 1` periods: one value for every period from the
smallest to the largest requested one, whatever the order or step of the request. -/
theorem dataHpfReq_restriction (lg ex : Rat → Rat) (r : Request) (s : SpanReq) (a b : Int)
    (hh : s.hull r.dstart (r.dstart + r.dlen - 1) = some (a, b)) :
    let r' : Request := { r with span := some (a, b) }
    let st := setup r'
    dataHpfReq lg ex r s = some
      ((dataHpf lg ex { r' with span := some (st.lo, st.hi) }).map (fun R =>
        ⟨a, R.trend.map (fun v => v.extract (a - st.lo).toNat (b - st.lo + 1).toNat),
            R.gap.map (fun v => v.extract (a - st.lo).toNat (b - st.lo + 1).toNat)⟩)) := by
  intro r' st
  unfold dataHpfReq
  rw [hh, Option.map_some]
  have := C14.model_clip_of_unclipped lg ex r'
  obtain ⟨e1, e2⟩ := setup_requested r a b
  rw [e1, e2] at this
  rw [this]

/-- length of the returned arrays: `b − a + 1` -/
theorem dataHpf_output_length (lg ex : Rat → Rat) (r : Request) (a b : Int) (hab : a ≤ b) (res : Result)
    (h : dataHpf lg ex { r with span := some (a, b) } = some res) :
    res.start = a ∧ (∀ v ∈ res.trend, v.size = (b - a + 1).toNat) ∧ (∀ v ∈ res.gap, v.size = (b - a + 1).toNat) := by
  set r' : Request := { r with span := some (a, b) } with hr'
  obtain ⟨e1, e2⟩ := setup_requested r a b
  have hle := setup_shi_le r'
  have hn := setup_n r'
  rw [C14.model_span_only_clips lg ex r'] at h
  cases hm : (r'.dcols.mapM (fun col => filterData lg ex (setup r').n r'.lam (setup r').lw (setup r').cw (setup r').ld
      (setup r').cd ((Ser.mk r'.dstart col).fromUntil (setup r').lo (setup r').hi))) with
  | none => rw [hm] at h; cases h
  | some fs =>
    rw [hm, Option.map_some, Option.some.injEq] at h
    subst h
    have hsz : ∀ f ∈ fs, f.trend.size = (setup r').n ∧ f.gap.size = (setup r').n := by
      intro f hf
      obtain ⟨col, _, hc⟩ := mapM_mem _ _ _ hm f hf
      exact filterData_sizes _ _ _ _ _ _ _ _ _ _ hc
    rw [← hr'] at e1 e2
    refine ⟨e1, ?_, ?_⟩
    · intro v hv
      obtain ⟨f, hf, rfl⟩ := List.mem_map.1 hv
      rw [Array.size_extract, (hsz f hf).1, hn, e1, e2]
      rw [e1, e2] at hle
      omega
    · intro v hv
      obtain ⟨f, hf, rfl⟩ := List.mem_map.1 hv
      rw [Array.size_extract, (hsz f hf).2, hn, e1, e2]
      rw [e1, e2] at hle
      omega
where
  mapM_mem {α β : Type} (g : α → Option β) (l : List α) (out : List β) (h : l.mapM g = some out) (y : β) (hy : y ∈ out) :
      ∃ x ∈ l, g x = some y := by
    induction l generalizing out with
    | nil => simp at h; subst h; cases hy
    | cons c l ih =>
      simp only [List.mapM_cons] at h
      cases hc : g c with
      | none => simp [hc] at h
      | some d =>
        cases hl : l.mapM g with
        | none => simp [hc, hl] at h
        | some ds =>
          simp [hc, hl] at h
          subst h
          rcases List.mem_cons.1 hy with rfl | hy
          · exact ⟨c, List.mem_cons_self, hc⟩
          · obtain ⟨x, hx, hg⟩ := ih ds hl hy
            exact ⟨x, List.mem_cons_of_mem _ hx, hg⟩

/-! ## the filter object across the variant loop -/

/-- one call of `filter_data` leaves the object as it was (it works on a copy of `self._F`) … -/
theorem step_state (lg ex : Rat → Rat) (ld cd : List Rat) (o : HPObject) (y : Array (Option Rat)) :
    (o.step lg ex ld cd y).1 = o := rfl

/-- … and returns what the stateless `filterData` returns -/
theorem step_output (lg ex : Rat → Rat) (n : Nat) (lam : Rat) (lw cw : List Nat) (ld cd : List Rat)
    (y : Array (Option Rat)) :
    ((HPObject.init n lam lw cw).step lg ex ld cd y).2 = filterData lg ex n lam lw cw ld cd y := rfl

/-- **history independence / variant locality**: after any number of variants the object is the one `__init__` built,
and the outputs are the stateless filter mapped over the variants — output `k` depends on variant `k` only, not on the
variants filtered before it. -/
theorem run_is_map (lg ex : Rat → Rat) (ld cd : List Rat) (o : HPObject) (ys : List (Array (Option Rat))) :
    (o.run lg ex ld cd ys).1 = o ∧ (o.run lg ex ld cd ys).2 = ys.map (fun y => (o.step lg ex ld cd y).2) := by
  induction ys with
  | nil => exact ⟨rfl, rfl⟩
  | cons y ys ih =>
    obtain ⟨h1, h2⟩ := ih
    simp only [HPObject.run, step_state, List.map_cons]
    exact ⟨h1, by rw [h2]⟩

theorem run_variant_local (lg ex : Rat → Rat) (n : Nat) (lam : Rat) (lw cw : List Nat) (ld cd : List Rat)
    (ys : List (Array (Option Rat))) (k : Nat) :
    ((HPObject.init n lam lw cw).run lg ex ld cd ys).2[k]? = (ys[k]?).map (filterData lg ex n lam lw cw ld cd) := by
  rw [(run_is_map lg ex ld cd _ ys).2, List.getElem?_map]
  rfl

/-! ## non-vacuity -/

example : (SpanReq.range (some 7) (some 2) (-2)).hull 0 9 = some (3, 7) := by decide +kernel
example : (SpanReq.periods [5, 2, 8, 2]).hull 0 9 = some (2, 8) := by decide +kernel
example : (SpanReq.periods []).hull 0 9 = none := by decide +kernel
example : (dataHpfReq id id ⟨1, 0, 4, [#[some 0, some 1, none, some 9]], some ⟨3, #[some 7]⟩, some ⟨1, #[some 2]⟩, none⟩
    (SpanReq.range (some 5) (some (-1)) (-3))).map (·.map (fun R => (R.start, R.trend.map Array.size)))
      = some (some (-1, [7])) := by decide +kernel
example : (((HPObject.init 4 1 [3] [1]).run id id [7] [2] [#[some 0, some 1, none, some 9], #[some 1, none, some 2, some 3]]).2.map
    Option.isSome) = [true, true] := by decide +kernel

end IrisVerif.C14Span
