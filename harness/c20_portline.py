"""C20: request/reply lines of the portable codec correspondence (driver C20, `port` lines)"""
from __future__ import annotations


def request_and_reply(m, p):
    """[(request, implementation reply)] for the quantities and the equations of model m with portable p (None: export failed)"""
    from . import c20 as H
    if p is None:
        return None
    inv = m._invariant
    qs = []
    for q in inv.quantities:
        l = "-" if q.logly is None else ("T" if q.logly else "F")
        a = "None" if q.attributes is None else ("+".join(sorted(q.attributes)) or "-")
        qs.append(f"{q.human}~{H.KCH[q.kind]}~{l}~{a}")
    req_q = "port q " + ",".join(qs)
    rep_q = ",".join(f"{k}~{n}~{'-' if l is None else ('T' if l else 'F')}~{'+'.join(sorted(a.split())) or '-'}"
                     for k, n, l, d, a in p["source"]["quantities"])
    ek = {"TRANSITION_EQUATION": "T", "MEASUREMENT_EQUATION": "M", "STEADY_AUTOVALUES": "A"}
    req_e = "port e " + "@".join(f"{ek[d.kind.name]};{d.human};{s.human}" for d, s in zip(inv.dynamic_equations, inv.steady_equations))
    rep_e = "@".join(f"{k};{d};{'None' if s is None else s}" for k, d, s, desc, a in p["source"]["equations"])
    out = [(req_q, rep_q), (req_e, rep_e)]
    # the composed round trip: fromPortable (toPortable m) in the model vs from_portable(to_portable(m)) on the real code
    import irispie as ir
    nq = len(inv.quantities)
    fl = "".join("1" if b else "0" for b in (m.is_linear, m.is_flat, m.is_deterministic))
    es = "@".join(f"{ek[d.kind.name]};{d.human};{s.human}" for d, s in zip(inv.dynamic_equations, inv.steady_equations))
    vs = "@".join(",".join(H.rat(v.levels[q]) for q in range(nq)) + ";" + ",".join(H.rat(v.changes[q]) for q in range(nq)) for v in m._variants)
    # with descriptions (blanks as ^): the driver also evaluates the well-formedness `PortableWF` of the round-trip theorem
    qsd = [x + "~" + (str(q.description or "").replace(" ", "^")) for x, q in zip(qs, inv.quantities)]
    req = f"port rt {fl} {H.rat(inv.tolerance['eigenvalue'])} " + ",".join(qsd) + " " + es + " " + vs
    try:
        m2 = ir.Simultaneous.from_portable(p)
        i2 = m2._invariant
        n2 = len(i2.quantities)
        rep = ("ok wf=T " + ",".join(f"{q.human}~{H.KCH[q.kind]}~{'-' if q.logly is None else ('T' if q.logly else 'F')}" for q in i2.quantities)
               + " " + "@".join(f"{ek[d.kind.name]};{d.human};{s.human}" for d, s in zip(i2.dynamic_equations, i2.steady_equations))
               + " " + "".join("T" if b else "F" for b in (m2.is_linear, m2.is_flat, m2.is_deterministic))
               + " " + "@".join(",".join(H.rat(v.levels[q]) for q in range(n2)) + ";" + ",".join(H.rat(v.changes[q]) for q in range(n2)) for v in m2._variants))
    except Exception as e:
        rep = "err:" + type(e).__name__
    out.append((req, rep))
    # the same through JSON (tuples become lists): model of the code as it is -- levels survive, steady changes do not
    import json
    try:
        m3 = ir.Simultaneous.from_portable(json.loads(json.dumps(p)))
        i3 = m3._invariant
        n3 = len(i3.quantities)
        repj = ("ok wf=T " + ",".join(f"{q.human}~{H.KCH[q.kind]}~{'-' if q.logly is None else ('T' if q.logly else 'F')}" for q in i3.quantities)
                + " " + "@".join(f"{ek[d.kind.name]};{d.human};{s.human}" for d, s in zip(i3.dynamic_equations, i3.steady_equations))
                + " " + "".join("T" if b else "F" for b in (m3.is_linear, m3.is_flat, m3.is_deterministic))
                + " " + "@".join(",".join(H.rat(v.levels[q]) for q in range(n3)) + ";" + ",".join(H.rat(v.changes[q]) for q in range(n3)) for v in m3._variants))
    except Exception as e:
        repj = "err:" + type(e).__name__
    out.append((req.replace("port rt ", "port rtj ", 1), repj))
    return out
