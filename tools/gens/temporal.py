"""
py2lean plugin for property C13: series/_temporal.py -> lean/IrisVerif/Generated/TemporalGen.lean

Extracted on every run from the Python AST (nothing is copied by hand):

* the eight temporal-change lambdas handed to `self.temporal_change(shift, <lambda>, neutral_value=<c>)` by
  `Inlay.diff/adiff/diff_log/adiff_log/roc/aroc/pct/apct`, their `neutral_value`, and for the annualised
  variants the fixed `shift = -1` and the line `factor = self.frequency.value or 1`;
* the five conversion helpers `roc_from_pct/pct_from_roc/pct_from_apct/roc_from_apct/roc_from_aroc`
  (`self.data = <expr in self.data, factor>`);
* `_CUMULATIVE_FACTORY[*]["forward"|"backward"]` lambdas and `["initial"]` constants;
* the `func_name` string each `cum_*` method hands to `temporal_cumulation`.

Every formula becomes a Lean definition over an abstract carrier `α` with `+ - * /` (core classes `Add Sub Mul
Div`), natural-number literals through `NatCast`, and the symbols `log exp pw` as explicit parameters
(`_np.log -> log`, `_np.exp -> exp`, `**` -> `pw`; this table is the trusted part).  All formulas share the
parameter prefix `(log exp : α → α) (pw : α → α → α)` (+ `factor` where the code has it in scope) so that the
model can select them uniformly.  A free name that resolves to nothing (e.g. a bare `exp`) or any syntax outside
this subset raises Untranslatable: the tie no longer checks.
"""
from __future__ import annotations
import ast

from py2lean import Source, ExprTr, Untranslatable, HEADER, strip_doc

REL = "src/irispie/series/_temporal.py"

CALLS = {"_np.log": ("fn", "log"), "_np.exp": ("fn", "exp")}

CHANGE = [  # python method, lean name, annualised?
    ("diff", "diff", False), ("diff_log", "diffLog", False), ("pct", "pct", False), ("roc", "roc", False),
    ("adiff", "adiff", True), ("adiff_log", "adiffLog", True), ("apct", "apct", True), ("aroc", "aroc", True),
]
CONVERSIONS = [("roc_from_pct", "rocFromPct"), ("pct_from_roc", "pctFromRoc"), ("pct_from_apct", "pctFromApct"),
               ("roc_from_apct", "rocFromApct"), ("roc_from_aroc", "rocFromAroc")]
CUM = [("diff", "Diff"), ("diff_log", "DiffLog"), ("pct", "Pct"), ("roc", "Roc")]

PREFIX = "(log exp : α → α) (pw : α → α → α)"


class FieldTr(ExprTr):
    """integer literals become casts of naturals so that only core's `NatCast` is needed on the carrier"""
    def tr(self, node) -> str:
        if isinstance(node, ast.Constant) and isinstance(node.value, int) and not isinstance(node.value, bool):
            if node.value < 0:
                raise Untranslatable(f"{self.where}: negative literal {node.value}")
            return f"(({node.value} : Nat) : α)"
        return super().tr(node)


def _is_factor_assign(st: ast.stmt) -> bool:
    """`factor = self.frequency.value or 1`"""
    if not (isinstance(st, ast.Assign) and len(st.targets) == 1 and isinstance(st.targets[0], ast.Name)
            and st.targets[0].id == "factor"):
        return False
    v = st.value
    if not (isinstance(v, ast.BoolOp) and isinstance(v.op, ast.Or) and len(v.values) == 2):
        return False
    a, b = v.values
    chain = ExprTr({}, {}, False, "").dotted(a)
    return chain == "self.frequency.value" and isinstance(b, ast.Constant) and b.value == 1 and not isinstance(b.value, bool)


def _int_const(node, where) -> int:
    try:
        v = ast.literal_eval(node)
    except Exception:
        raise Untranslatable(f"{where}: not an integer literal")
    if isinstance(v, bool) or not isinstance(v, int):
        raise Untranslatable(f"{where}: not an integer literal ({v!r})")
    return v


def _lean_int(v: int) -> str:
    return f"({v})" if v < 0 else str(v)


def _lambda2(node, where):
    if not (isinstance(node, ast.Lambda) and len(node.args.args) == 2 and not node.args.vararg and not node.args.kwarg
            and not node.args.kwonlyargs and not node.args.defaults and not node.args.posonlyargs):
        raise Untranslatable(f"{where}: not a two-argument lambda")
    return [a.arg for a in node.args.args], node.body


def gen_temporal(repo: str) -> str:
    src = Source(repo, REL)
    out = [HEADER.format(src=src.relpath), "set_option linter.unusedVariables false\n", "namespace IrisVerif.Gen.Temporal\n"]
    out.append("/-- `factor = self.frequency.value or 1` (the annualisation factor; identical in every method that uses it). -/")
    out.append("def annualFactor (freqValue : Int) : Int := if freqValue = 0 then 1 else freqValue\n")
    out.append("section\nvariable {α : Type} [Add α] [Sub α] [Mul α] [Div α] [NatCast α]\n")

    # ---- change lambdas ---------------------------------------------------------------
    for py, ln, annual in CHANGE:
        where = f"Inlay.{py}"
        fn = src.find("Inlay", py)
        body = strip_doc(fn.body)
        params = [a.arg for a in fn.args.posonlyargs + fn.args.args]
        has_factor = False
        fixed_shift = None
        for st in body[:-1]:
            if _is_factor_assign(st):
                has_factor = True
            elif (isinstance(st, ast.Assign) and len(st.targets) == 1 and isinstance(st.targets[0], ast.Name)
                  and st.targets[0].id == "shift"):
                fixed_shift = _int_const(st.value, where + ": shift")
            else:
                raise Untranslatable(f"{where}: unexpected statement `{ast.unparse(st)[:60]}`")
        last = body[-1] if body else None
        if not (isinstance(last, ast.Expr) and isinstance(last.value, ast.Call)
                and ExprTr({}, {}, False, "").dotted(last.value.func) == "self.temporal_change"):
            raise Untranslatable(f"{where}: does not end in a call of self.temporal_change")
        call = last.value
        if len(call.args) != 2 or not (isinstance(call.args[0], ast.Name) and call.args[0].id == "shift"):
            raise Untranslatable(f"{where}: temporal_change is not called as (shift, <lambda>, ...)")
        kws = {k.arg: k.value for k in call.keywords}
        if sorted(kws) != ["neutral_value"]:
            raise Untranslatable(f"{where}: keywords {sorted(map(str, kws))}")
        if annual:
            if fixed_shift is None or "shift" in params or not has_factor:
                raise Untranslatable(f"{where}: annualised variant without fixed shift / factor")
        else:
            if fixed_shift is not None or has_factor or params[:2] != ["self", "shift"]:
                raise Untranslatable(f"{where}: flexible variant has a fixed shift, a factor, or no `shift` parameter")
            d = fn.args.defaults
            if len(d) != 1 or _int_const(d[0], where + ": default shift") != -1:
                raise Untranslatable(f"{where}: default shift is not -1")
        (ax, ay), lam = _lambda2(call.args[1], where)
        names = {ax: ax, ay: ay}
        if has_factor:
            names["factor"] = "factor"
        tr = FieldTr(names, CALLS, False, where)
        out.append(f"/-- the lambda of `{where}` -/")
        out.append(f"def {ln}F {PREFIX} (factor {ax} {ay} : α) : α := {tr.tr(lam)}")
        nv = kws["neutral_value"]
        if isinstance(nv, ast.Constant) and nv.value is None:
            out.append(f"def {ln}Neutral : Option Int := none")
        else:
            out.append(f"def {ln}Neutral : Option Int := some {_lean_int(_int_const(nv, where + ': neutral_value'))}")
        if annual:
            out.append(f"def {ln}Shift : Int := {_lean_int(fixed_shift)}")
        out.append("")

    # ---- conversion helpers -------------------------------------------------------------
    for py, ln in CONVERSIONS:
        where = f"Inlay.{py}"
        fn = src.find("Inlay", py)
        body = strip_doc(fn.body)
        has_factor = False
        for st in body[:-1]:
            if _is_factor_assign(st):
                has_factor = True
            else:
                raise Untranslatable(f"{where}: unexpected statement `{ast.unparse(st)[:60]}`")
        last = body[-1] if body else None
        if not (isinstance(last, ast.Assign) and len(last.targets) == 1
                and ExprTr({}, {}, False, "").dotted(last.targets[0]) == "self.data"):
            raise Untranslatable(f"{where}: does not end in `self.data = ...`")
        names = {"self.data": "data"}
        if has_factor:
            names["factor"] = "factor"
        tr = FieldTr(names, CALLS, False, where)
        out.append(f"/-- `{where}`: `self.data = ...` -/")
        out.append(f"def {ln} {PREFIX} (factor data : α) : α := {tr.tr(last.value)}")
    out.append("")

    # ---- _CUMULATIVE_FACTORY ------------------------------------------------------------
    node = src.find("_CUMULATIVE_FACTORY")
    if not isinstance(node, ast.Dict):
        raise Untranslatable("_CUMULATIVE_FACTORY is not a dict literal")
    table = {}
    for k, v in zip(node.keys, node.values):
        if not (isinstance(k, ast.Constant) and isinstance(k.value, str) and isinstance(v, ast.Dict)):
            raise Untranslatable("_CUMULATIVE_FACTORY: entry shape")
        inner = {}
        for kk, vv in zip(v.keys, v.values):
            if not (isinstance(kk, ast.Constant) and isinstance(kk.value, str)):
                raise Untranslatable("_CUMULATIVE_FACTORY: inner key")
            inner[kk.value] = vv
        table[k.value] = inner
    if sorted(table) != sorted(k for k, _ in CUM):
        raise Untranslatable(f"_CUMULATIVE_FACTORY: keys {sorted(table)}")
    for key, ln in CUM:
        inner = table[key]
        if sorted(inner) != ["backward", "forward", "initial"]:
            raise Untranslatable(f"_CUMULATIVE_FACTORY[{key!r}]: keys {sorted(inner)}")
        for direction in ("forward", "backward"):
            where = f"_CUMULATIVE_FACTORY[{key!r}][{direction!r}]"
            (a, b), lam = _lambda2(inner[direction], where)
            tr = FieldTr({a: a, b: b}, CALLS, False, where)
            out.append(f"/-- `{where}` -/")
            out.append(f"def cum{ln}{direction.capitalize()} {PREFIX} ({a} {b} : α) : α := {tr.tr(lam)}")
        out.append(f"def cum{ln}Initial : Int := {_lean_int(_int_const(inner['initial'], key + ': initial'))}")
        out.append("")
    out.append("end\n")

    # ---- which factory entry each cum_* method selects ------------------------------------
    rows = []
    for key, _ in CUM:
        py = "cum_" + key
        fn = src.find("Inlay", py)
        body = strip_doc(fn.body)
        ok = (len(body) == 1 and isinstance(body[0], ast.Expr) and isinstance(body[0].value, ast.Call)
              and ExprTr({}, {}, False, "").dotted(body[0].value.func) == "self.temporal_cumulation"
              and len(body[0].value.args) == 2 and isinstance(body[0].value.args[0], ast.Constant)
              and isinstance(body[0].value.args[0].value, str) and isinstance(body[0].value.args[1], ast.Starred))
        if not ok:
            raise Untranslatable(f"Inlay.{py}: not `self.temporal_cumulation(<name>, *args, **kwargs)`")
        rows.append((py, body[0].value.args[0].value))
    out.append("/-- (method, `func_name` it hands to `temporal_cumulation`) -/")
    out.append("def cumDispatch : List (String × String) := [" + ", ".join(f'("{a}", "{b}")' for a, b in rows) + "]\n")

    out.append("end IrisVerif.Gen.Temporal\n")
    return "\n".join(out)


GENERATORS = {
    "TemporalGen.lean": (gen_temporal, {"C13"}),
}
