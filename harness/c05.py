"""
C05 -- the steady state returned by solve_steady satisfies the steady-state equations.

Correspondence (driver C05, model IrisVerif/Model/Steady.lean):
  path    Variant.create_steady_array cells                     exact for non-log rows (dyadic inputs), 1e-12 relative for log rows
  wrt     _resolve_steady_wrt (plan -> unknowns / fixed sets)   exact
  steady  the block loop of _steady_nonlinear replayed with the implementation's final guesses as the solver:
          per block the evaluator's wrt lists (exact), the residual vector of eval_func at the final guess
          (tolerance), the exit test; the variant after write-back (exact) and after the autovalue update (tolerance)
  lin     solve_steady_linear_flat / _nonflat on the model's own first-order system: exact rational solution of the
          (stacked) system vs lstsq (tolerance) when non-singular; always: exact rational residual of
          A xi_t + B xi_{t-1} + C on the implementation's (xi, dxi) for t = -5..5, and of the measurement block.
Oracle (independent of the Lean model and of irispie's parser/equators): every steady equation *text* of the generated
model is evaluated by a small regex-to-Python evaluator at dates -5..+5 on the path defined by the stored levels and
changes (constant / linear / geometric); plan-fixed and exogenized quantities must keep their assigned values.
"""
from __future__ import annotations
import contextlib, io, json, math, os, re, glob, fractions

import numpy as np
import irispie as ir
from irispie.simultaneous import _steady as S
from irispie.steadiers import solver_dispatcher as SD
from irispie.fords import steadiers as FS
from irispie.incidences import blazer as BZ
from irispie.simultaneous._variants import Variant

from .common import Ctx, Rng, rat_of_float, VERIF

DRIVERS = ["C05"]
EXTRA_PROPS = ['BridgeC05', 'GenTieCore', 'GenTieC05']   # refinement bridge from the executable QMat linear algorithm to the matrix-level theorems (audited with this check)
LEVEL = "proof"
MANIFEST = {
    "category": "proof",
    "text": ("Lean 4 theorems (partial) about an executable rational model of the steady-state machinery. Proved: the steady path is "
             "constant/arithmetic/geometric as declared (over the reals exp(log l + s log c) = l*c^s); exit test => every (equation, date in "
             "{t,t+1}) residual < tol via the index bijection (sup-norm test of neqs; the 2-norm test of scipy_root implies it); write-back "
             "touches only the block's unknowns, writes every unknown level and every unknown change of a loggable quantity, and depends only "
             "on the (qid, value) pairing; plan-fixed/exogenized quantities are never written, endogenized parameters are exactly the extra "
             "unknowns, `fix` = fix_level+fix_change in growth mode; the evaluator's array at an accepted guess is the array rebuilt from the "
             "stored variant (under an executable certificate proved sound). END TO END (all_equations_hold): for every iteration wrapped by "
             "the acceptance step and every starting variant (any history, flat or growth), if the loop completes and the block list is "
             "ordered and COVERING (every equation sits in a block that calls the solver -- the validity of the decomposition is C16's part "
             "and is exactly what fails in the known finding split-blocks-fully-fixed-quantity, machine-checked as an example), every equation "
             "of the system is within tol at dates t, t+1 on the stored variant. Every-date statements: equations of degree <= 1 on arithmetic "
             "paths (within tol(1+2|t|); exact bound eps(1+2|t-t0|/(t1-t0))), monomial (log-linear) equations on geometric paths (zero at two "
             "dates => zero at all dates); NOT for genuinely nonlinear equations (oracle only; a nonlinear equation can vanish at the two "
             "evaluated dates of a spurious trending path and fail elsewhere: known finding nonlinear-growth-two-date-solution, "
             "machine-checked as an example). Linear algorithm: whatever the executable "
             "algorithm returns makes the model's own residual zero at every rational date (QMat -> Matrix bridge; flat, growth, measurement "
             "block); the constants of the first-order system come from the STEADY versions at the zero point (exogenous variables count as "
             "0 there: known finding linear-steady-ignores-exogenous-variables, machine-checked). Autovalue equations hold after the update "
             "when targets are distinct and absent from the right-hand sides. Outside the theorems (runtime, validated per run): convergence, "
             "floating point, scipy's success flag, lstsq. Tie: differential correspondence on every run (streams path, wrt, planops, flags, "
             "settings, steady = the loop replayed with the implementation's final guesses, lin/linchk/meas/measchk/linconst = exact-rational "
             "validation of the linear path) plus an independent text-level oracle on random stationary / drift / balanced-growth models, "
             "flat and growth, linear and nonlinear, blocks on/off, plans in every spelling, 1-3 variants, both solvers, hard starts, "
             "multi-step sessions and mode histories judged against the options in force at each call."),
    "design": "7/C05",
    "note": ("partial: Newton/Levenberg convergence, the neqs exit test itself and the every-date claim for genuinely nonlinear "
             "models are runtime facts (validated per generated program by the oracle), floating point is not modelled"),
    "technique": "Lean 4 proof over executable model + differential correspondence + certificate validation in exact rationals",
}
ASSUMPTIONS = [
    "a stored log-variable level below 1e-6 (iteration collapsed to the boundary of the log domain, e.g. the trivial root k=0) is treated as degenerate: the oracle then demands the equations at dates 0 and 1 only (counted in input_distribution)",
    "a solve made under a loose tolerance tau (> 1e-9, set on the model or through solver_settings) is judged at the two dates the exit test evaluates, within 10*tau; only solves under the default tolerance are judged at dates -5..5 within 1e-8*scale",
    "the nonlinear solvers (neqs Levenberg, scipy root/lm incl. its success flag) and numpy lstsq are unmodelled; their outputs are validated per run (exit test, exact residuals)",
    "log-variables are modelled multiplicatively (level*change^shift); agreement with exp(log level + shift*log change) is a theorem over the reals, floating-point exp/log is compared with tolerance",
    "the order of the unknowns inside the evaluator's guess vector (CPython set order) is not modelled: the model uses increasing qid and the harness permutes the implementation's final guess accordingly; the *sets* of level/change unknowns are compared exactly",
    "known finding `split-blocks-fully-fixed-quantity` (recorded, not repaired): probed once per run on the minimal case (corpus/C05/split-blocks-fully-fixed-quantity.json, reported through the known site); the generator does not otherwise combine a plan that fixes level and change of one quantity with an explicit split_into_blocks=True, so that no failure of that origin lands on another site",
    "a failure is put on the narrow site nonlinear-growth-two-date-solution only when all of: growth mode, every equation within tolerance at dates 0 and 1, the failing equation's residual along the stored path not affine in the date, and a non-log quantity of that equation has a non-zero stored change; anything else stays on steady-equation-residual",
    "exogenous variables are only combined with the nonlinear algorithm: with linear=True the steady algorithm ignores them (known finding `linear-steady-ignores-exogenous-variables`, same root cause as the C06 finding; corpus/C05/linear-steady-ignores-exogenous-variables.json is probed on every run and reported through the known site)",
    "generated models possess a steady state by construction (stationary blocks are strictly diagonally dominant for every variant, unit root with drift, balanced growth); the every-date oracle is only meaningful for such models -- for a singular parameterisation the linear algorithm (least squares) completes without error on a model that has no steady state, which is outside the property's quantifier",
]

TOL_ORACLE = 1e-8          # relative to 1 + max |term|; solver tolerance is 1e-12, a wrong rule moves residuals by >= 1e-3
TOL_CORR = 1e-9
DATES = list(range(-5, 6))


# ---------------------------------------------------------------------------------------
# expression trees of the generator: text for irispie, prefix form for Lean
# ---------------------------------------------------------------------------------------

def N(x): return ("n", float(x))
def T(name, s=0): return ("t", name, int(s))
def add(*xs):
    e = xs[0]
    for x in xs[1:]:
        e = ("+", e, x)
    return e
def sub(a, b): return ("-", a, b)
def mul(a, b): return ("*", a, b)
def div(a, b): return ("/", a, b)
def neg(a): return ("~", a)
def ipow(a, n): return ("^", a, int(n))
def fn(name, a): return ("f", name, a)        # log / exp: outside the rational fragment
def rpow(a, b): return ("r", a, b)            # real power: outside the rational fragment


def num_text(x: float) -> str:
    s = repr(float(x))
    assert "e" not in s and "inf" not in s and "nan" not in s, s
    return s if x >= 0 else f"({s})"


def to_text(e) -> str:
    k = e[0]
    if k == "n": return num_text(e[1])
    if k == "t": return e[1] if e[2] == 0 else f"{e[1]}[{e[2]:+d}]"
    if k == "~": return f"(-{to_text(e[1])})"
    if k in "+-*/": return f"({to_text(e[1])}{k}{to_text(e[2])})"
    if k == "^": return f"({to_text(e[1])}^{e[2]})"
    if k == "f": return f"{e[1]}({to_text(e[2])})"
    if k == "r": return f"({to_text(e[1])}^{to_text(e[2])})"
    raise ValueError(k)


class Transcendental(Exception):
    pass


def to_lean(e, qid) -> str:
    k = e[0]
    if k == "n": return "n " + rat_of_float(e[1])
    if k == "t": return f"t {qid[e[1]]} {e[2]}"
    if k == "~": return "~ " + to_lean(e[1], qid)
    if k in "+-*/": return f"{k} {to_lean(e[1], qid)} {to_lean(e[2], qid)}"
    if k == "^": return f"^ {to_lean(e[1], qid)} {e[2]}"
    raise Transcendental(k)


def eq_to_lean(lhs, rhs, qid) -> str | None:
    """the implementation's residual is -(lhs) + rhs"""
    try:
        return to_lean(("+", ("~", lhs), rhs), qid)
    except Transcendental:
        return None


# ---------------------------------------------------------------------------------------
# independent oracle: equation text -> residual on the stored path
# ---------------------------------------------------------------------------------------

_TOKEN = re.compile(r"([A-Za-z_]\w*)(?:\[([+-]?\d+)\])?")
def _log(x):
    # numpy's convention at the boundary of the domain (a log-variable whose level underflowed to exactly 0.0)
    return float("-inf") if x == 0 else math.log(x)


def _exp(x):
    return 0.0 if x == float("-inf") else math.exp(x)


_FUNCS = {"log": _log, "exp": _exp, "sqrt": math.sqrt}


def compile_text(text: str):
    """`lhs = rhs` (or `dynamic !! steady`: the steady form) -> code object of lhs-(rhs) with V(name, shift) calls"""
    if "!!" in text:
        text = text.split("!!")[1]
    text = text.strip().rstrip(";")
    lhs, rhs = text.split("=")
    def conv(s):
        s = s.replace("^", "**")
        return _TOKEN.sub(lambda m: m.group(0) if m.group(1) in _FUNCS else f"V('{m.group(1)}',{int(m.group(2) or 0)})", s)
    return compile(f"({conv(lhs)})-({conv(rhs)})", "<eq>", "eval")


def path_value(kind, level, change, s):
    """constant / linear / geometric path from a stored (level, change)"""
    if kind == "p":
        return level
    if level is None:
        return float("nan")
    if kind == "l":
        c = 1.0 if (change is None or not change > 0) else change
        return level * c ** s
    return level + (0.0 if change is None else change) * s


def oracle_residual(code, kinds, levels, changes, t):
    big = [0.0]
    def V(name, s):
        k = kinds[name]
        if k == "e":
            return 0.0
        v = path_value(k, levels.get(name), changes.get(name), t + s)
        if v is None:
            v = float("nan")
        big[0] = max(big[0], abs(v)) if v == v else big[0]
        return v
    try:
        r = eval(code, {"V": V, **_FUNCS})
    except (ValueError, ZeroDivisionError, OverflowError):
        r = float("nan")
    return r, 1.0 + big[0]


# ---------------------------------------------------------------------------------------
# model generator
# ---------------------------------------------------------------------------------------

def eq_key(lr) -> str:
    return f"{to_text(lr[0])} = {to_text(lr[1])}"


def eq_source(dyn: dict, lr) -> str:
    """source text of an equation: `steady` or, when the equation has a separate dynamic version, `dynamic !! steady`
    (the generator's equation lists always hold the STEADY version -- the one the property is about)"""
    k = eq_key(lr)
    return f"{eq_key(dyn[k])} !! {k}" if k in dyn else k


class Builder:
    def __init__(self, nv):
        self.nv = nv
        self.dyn = {}            # steady text -> (lhs, rhs) of the dynamic version
        self.fixboth = []        # (variable, parameter, is_log): level AND change can be fixed, the parameter endogenized
        self.tvars, self.mvars, self.logs = [], [], []
        self.params: dict[str, list[float]] = {}
        self.shocks = []
        self.teqs, self.meqs, self.autos = [], [], []      # (lhs, rhs[, steady (lhs, rhs)])
        self.init: dict[str, tuple] = {}
        self.stationary = []         # non-log stationary variables that other modules may link to
        self.swaps, self.fixlevels, self.fixchanges = [], [], []   # plan candidates
        self.tags = []
        self.k = 0

    def fresh(self, stem):
        self.k += 1
        return f"{stem}{self.k}"

    def param(self, stem, choices, rng, same=False):
        name = self.fresh(stem)
        v0 = rng.choice(choices)
        self.params[name] = [v0 if (same or i == 0) else rng.choice(choices) for i in range(self.nv)]
        return name


def mod_ar(G: Builder, rng: Rng, n: int, rich: bool):
    xs = [G.fresh("x") for _ in range(n)]
    G.tvars += xs
    for i, x in enumerate(xs):
        rho = G.param("rho", [0.25, 0.5, 0.75, 0.125], rng)
        a = G.param("a", [1.0, 2.0, -1.0, 0.5, 1.5], rng)
        e = G.fresh("e")
        G.shocks.append(e)
        rhs = add(mul(T(rho), T(x, -1)), mul(sub(N(1), T(rho)), T(a)))
        # the module must possess a steady state for every variant: keep the absolute row sum of the coefficients on the
        # module's own variables below 0.9 (strict diagonal dominance of I - M: non-singular, stationary); a term that
        # would exceed the budget is dropped (the random draws are made regardless, so the stream stays aligned)
        budget = [0.9 - max(G.params[rho])]
        def within(coef, tok):
            nonlocal rhs
            if abs(coef) <= budget[0]:
                budget[0] -= abs(coef)
                rhs = add(rhs, mul(N(coef), tok))
        for j, y in enumerate(xs):
            if j != i and rng.chance(0.5):
                within(rng.choice([0.125, -0.125, 0.0625]), T(y, -1))
            if j < i and rng.chance(0.4):
                within(rng.choice([0.25, -0.25, 0.125]), T(y, 0))
        if rich and rng.chance(0.4):
            within(0.0625, T(x, -2))
        if rich and rng.chance(0.3) and n > 1:
            within(0.0625, T(rng.choice(xs), 1))
        if G.stationary and rng.chance(0.4):
            rhs = add(rhs, mul(N(rng.choice([0.25, -0.125])), T(rng.choice(G.stationary), rng.choice([0, -1]))))
        rhs = add(rhs, T(e))
        eq = (T(x), rhs)
        if rich and rng.chance(0.15):
            # dynamic !! steady pair with the same steady solution is only safe for the isolated AR(1) form
            pass
        G.teqs.append(eq)
        G.init[x] = (rng.choice([0.0, 1.0, 0.5, -1.0, 2.0]), None)
        G.swaps.append((x, a))
    G.stationary += xs
    G.tags.append(f"ar{n}")


def mod_drift(G: Builder, rng: Rng):
    z = G.fresh("z"); G.tvars.append(z)
    d = G.param("d", [0.5, 0.25, -0.5, 1.0], rng)
    rhs = add(T(z, -1), T(d))
    if G.stationary and rng.chance(0.7):
        rhs = add(rhs, mul(N(rng.choice([0.5, -0.25])), T(rng.choice(G.stationary))))
    G.teqs.append((T(z), rhs))
    G.init[z] = (rng.choice([0.0, 1.0, -2.0, 3.0]), rng.choice([None, 0.0, 0.5]))
    G.fixlevels.append(z)
    G.fixchanges.append((z, d))
    G.fixboth.append((z, d, False))
    G.tags.append("drift")
    return z


def mod_meas(G: Builder, rng: Rng, extra, intercept=None):
    o = G.fresh("obs"); G.mvars.append(o)
    pool = G.stationary + extra
    rhs = mul(N(rng.choice([1.0, 2.0, 0.5])), T(rng.choice(pool)))
    if rng.chance(0.6):
        rhs = add(rhs, mul(N(rng.choice([1.0, -1.0, 0.25])), T(rng.choice(pool))))
    if intercept:
        # a non-zero measurement intercept, as a literal or as a parameter
        rhs = add(rhs, N(rng.choice([1.5, -0.5, 3.0])) if rng.chance(0.5) else T(G.param("mu", [1.5, -2.0, 0.25], rng)))
    elif rng.chance(0.5):
        rhs = add(rhs, N(rng.choice([1.0, -0.5])))
    G.meqs.append((T(o), rhs))
    G.init[o] = (rng.choice([0.0, 1.0]), None)
    G.tags.append("meas")


def mod_pin(G: Builder, rng: Rng):
    """equations with a separate steady version (`dynamic !! steady`): an integrating dynamic equation whose long-run level is
    pinned down only by its steady version (pi = pi[-1] + b*yg + eps !! pi = pit, yg a zero-mean process), and a stationary
    one whose steady version is the solved form (xq = rho*xq[-1] + (1-rho)*aq + e !! xq = aq)"""
    yg = G.fresh("yg"); pi = G.fresh("pi"); G.tvars += [yg, pi]
    rho = G.param("rho", [0.5, 0.25, 0.75], rng); b = G.param("b", [0.25, 0.5, -0.25], rng)
    pit = G.param("pit", [2.0, -1.0, 0.5, 3.0], rng)
    e1, e2 = G.fresh("e"), G.fresh("e"); G.shocks += [e1, e2]
    G.teqs.append((T(yg), add(mul(T(rho), T(yg, -1)), T(e1))))
    st = (T(pi), T(pit))
    G.dyn[eq_key(st)] = (T(pi), add(T(pi, -1), mul(T(b), T(yg)), T(e2)))
    G.teqs.append(st)
    G.init[yg] = (rng.choice([0.0, 0.5]), None); G.init[pi] = (rng.choice([0.0, 1.0]), None)
    if rng.chance(0.5):
        xq = G.fresh("xq"); G.tvars.append(xq)
        r2 = G.param("rho", [0.5, 0.25], rng); aq = G.param("a", [1.0, 2.0, -1.0], rng)
        e3 = G.fresh("e"); G.shocks.append(e3)
        st2 = (T(xq), T(aq))
        G.dyn[eq_key(st2)] = (T(xq), add(mul(T(r2), T(xq, -1)), mul(sub(N(1), T(r2)), T(aq)), T(e3)))
        G.teqs.append(st2)
        G.init[xq] = (0.5, None)
        G.stationary.append(xq)
    G.stationary.append(pi)
    G.tags.append("pin")


def mod_loglin(G: Builder, rng: Rng, flat: bool):
    """log(y) = log(y[-1]) + gg + c*x : linear in log(y); growth rate exp(gg + c*xbar)"""
    y = G.fresh("y"); G.tvars.append(y); G.logs.append(y)
    rhs = fn("log", T(y, -1))
    if not flat:
        gg = G.param("gg", [0.0625, 0.03125, -0.03125], rng)
        rhs = add(rhs, T(gg))
        if G.stationary and rng.chance(0.5):
            rhs = add(rhs, mul(N(0.0625), T(rng.choice(G.stationary))))
    # pin the level in flat mode with a level equation instead (otherwise 0 = 0)
    if flat:
        lv = G.param("lv", [0.5, 1.0, -0.5], rng)
        rhs = add(mul(N(0.5), fn("log", T(y, -1))), mul(N(0.5), T(lv)))
    G.teqs.append((fn("log", T(y)), rhs))
    G.init[y] = (rng.choice([1.0, 2.0, 0.5]), rng.choice([None, 1.0, 1.0625]) if not flat else None)
    G.fixlevels.append(y)
    G.tags.append("loglin")
    return y


def mod_bgp(G: Builder, rng: Rng, flat: bool):
    """balanced growth, rational: y/y[-1] = g; c = s*y; k = (1-d)*k[-1] + (1-s)*y; ky = k/y; c[+1]/c = b*r"""
    y, c, k, ky = (G.fresh(s) for s in ("y", "c", "k", "ky"))
    G.tvars += [y, c, k, ky]; G.logs += [y, c, k]
    g = G.param("g", [1.0] if flat else [1.03125, 1.0625, 1.015625], rng)
    s = G.param("s", [0.75, 0.5, 0.625], rng)
    d = G.param("dl", [0.125, 0.25, 0.0625], rng)
    if flat:
        # in flat mode the growth equation degenerates to 1 = g: pin the level of y instead
        lv = G.param("lv", [1.0, 2.0, 0.5], rng)
        G.teqs.append((T(y), add(mul(N(0.5), T(y, -1)), mul(N(0.5), T(lv)))))
    else:
        G.teqs.append((div(T(y), T(y, -1)), T(g)))
    G.teqs.append((T(c), mul(T(s), T(y))))
    G.teqs.append((T(k), add(mul(sub(N(1), T(d)), T(k, -1)), mul(sub(N(1), T(s)), T(y)))))
    G.teqs.append((T(ky), div(T(k), T(y))))
    for v in (y, c, k):
        G.init[v] = (rng.choice([1.0, 2.0, 1.5]), rng.choice([None, 1.0, 1.03125]) if not flat else None)
    G.init[ky] = (rng.choice([1.0, 2.0]), None)
    if rng.chance(0.5):
        r = G.fresh("r"); G.tvars.append(r)
        b = G.param("b", [0.9375, 0.96875], rng)
        G.teqs.append((div(T(c, 1), T(c)), mul(T(b), T(r))))
        G.init[r] = (1.0, None)
    if not flat:
        G.fixlevels.append(y)
        G.fixboth.append((y, g, True))
    G.tags.append("bgp")


def mod_prod(G: Builder, rng: Rng):
    """stationary nonlinear, rational: w AR; v = x*w; q*b = 1 + 0.125*b*(w - 1)"""
    w, v, q = (G.fresh(s) for s in ("w", "v", "q"))
    G.tvars += [w, v, q]
    rw = G.param("rw", [0.5, 0.25], rng)
    b = G.param("b", [0.9375, 0.875, 0.75], rng)
    x = rng.choice(G.stationary) if G.stationary else None
    rhs = add(mul(T(rw), T(w, -1)), N(1.0))
    if x:
        rhs = add(rhs, mul(N(0.25), T(x)))
    G.teqs.append((T(w), rhs))
    G.teqs.append((T(v), mul(T(x) if x else N(2.0), T(w, -1))))
    G.teqs.append((mul(T(q), T(b)), add(N(1.0), mul(mul(N(0.125), T(b)), sub(T(w), N(1.0))))))
    if rng.chance(0.5):
        u = G.fresh("u"); G.tvars.append(u)
        G.teqs.append((T(u), add(mul(N(0.5), T(u, -1)), mul(N(0.25), ipow(T(w), 2)))))
        G.init[u] = (1.0, None)
    for n_ in (w, v, q):
        G.init[n_] = (rng.choice([1.0, 2.0, 0.5]), None)
    G.stationary.append(w)
    G.tags.append("prod")


def mod_solow(G: Builder, rng: Rng):
    """k = (1-d)*k[-1] + s*k[-1]^al, k a log-variable: kbar = (s/d)^(1/(1-al)) (transcendental: oracle only)"""
    k = G.fresh("k"); G.tvars.append(k); G.logs.append(k)
    s = G.param("s", [0.25, 0.5], rng); d = G.param("dl", [0.125, 0.25], rng); al = G.param("al", [0.5, 0.25], rng)
    G.teqs.append((T(k), add(mul(sub(N(1), T(d)), T(k, -1)), mul(T(s), rpow(T(k, -1), T(al))))))
    G.init[k] = (rng.choice([1.0, 2.0, 3.0]), None)
    yy = G.fresh("yy"); G.tvars.append(yy)
    G.teqs.append((T(yy), fn("exp", mul(N(0.125), fn("log", T(k))))))
    G.init[yy] = (1.0, None)
    G.tags.append("solow")


def mod_trends(G: Builder, rng: Rng):
    """growth mode: two (or three) unit-root trends with *different* drifts and a simultaneous block of 2-3 non-log
    variables that inherit different steady changes from them (linear equations, usable in linear and nonlinear solves)"""
    t1, t2 = G.fresh("tr"), G.fresh("tr")
    G.tvars += [t1, t2]
    g1 = G.param("d", [1.0, 0.5, -0.5, 0.25], rng)
    g2 = G.param("d", [3.0, 2.0, -1.0, 0.75, 1.5], rng)
    G.teqs.append((T(t1), add(T(t1, -1), T(g1))))
    G.teqs.append((T(t2), add(T(t2, -1), T(g2))))
    G.init[t1] = (rng.choice([5.0, 1.0, 0.0]), rng.choice([None, 0.5]))
    G.init[t2] = (rng.choice([7.0, -2.0, 0.0]), rng.choice([None, 1.0]))
    u, v = G.fresh("u"), G.fresh("u")
    G.tvars += [u, v]
    c1, c2 = rng.choice([0.5, 0.25, -0.5]), rng.choice([0.25, -0.25, 0.125])       # |c1*c2| < 1: the block is non-singular
    G.teqs.append((T(u), add(mul(N(rng.choice([2.0, 1.0, -1.0])), T(t1)), mul(N(c1), T(v, rng.choice([0, -1]))))))
    G.teqs.append((T(v), sub(T(t2), mul(N(c2), T(u, rng.choice([0, -1, 1]))))))
    members = [u, v]
    if rng.chance(0.25):
        w = G.fresh("u"); G.tvars.append(w); members.append(w)
        G.teqs.append((T(w), add(mul(N(0.5), T(u, -1)), mul(N(0.25), T(v)), mul(N(0.25), T(w, -1)))))
        # close the loop: v also reads w
        l, r = G.teqs[-2]
        G.teqs[-2] = (l, add(r, mul(N(0.125), T(w, -1))))
    for n_ in members:
        G.init[n_] = (rng.choice([1.0, 0.0, 2.0]), rng.choice([None, 0.0, 0.5]))
    G.fixlevels += [t1]
    G.fixchanges += [(t1, g1), (t2, g2)]
    G.fixboth += [(t1, g1, False), (t2, g2, False)]
    G.tags.append("trends")
    return [t1, t2] + members


def mod_logtrends(G: Builder, rng: Rng):
    """growth mode, nonlinear: two log-variables growing at different gross rates and a simultaneous pair of log-variables
    whose growth rates (sqrt(ga*gb) and sqrt(gb/ga)) differ from each other and from the drivers"""
    la, lb, m1, m2 = (G.fresh("l") for _ in range(4))
    G.tvars += [la, lb, m1, m2]; G.logs += [la, lb, m1, m2]
    ga = G.param("g", [1.03125, 1.0625], rng)
    gb = G.param("g", [1.015625, 1.125, 0.96875], rng)
    G.teqs.append((div(T(la), T(la, -1)), T(ga)))
    G.teqs.append((div(T(lb), T(lb, -1)), T(gb)))
    G.teqs.append((T(m1), mul(T(la), T(m2, -1))))
    G.teqs.append((mul(T(m2), T(m1, -1)), T(lb)))
    for n_ in (la, lb, m1, m2):
        G.init[n_] = (rng.choice([1.0, 2.0, 1.5]), rng.choice([None, 1.0, 1.03125]))
    G.tags.append("logtrends")


def finish_case(G: Builder, linear, flat, plan, split, solver) -> dict:
    eq_text = lambda lr: eq_source(G.dyn, lr)
    src = ["!transition-variables\n    " + ", ".join(G.tvars)]
    if G.logs: src.append("!log-variables\n    " + ", ".join(G.logs))
    src.append("!parameters\n    " + ", ".join(G.params))
    if G.shocks: src.append("!transition-shocks\n    " + ", ".join(G.shocks))
    src.append("!transition-equations\n" + "\n".join(f"    {eq_text(e)};" for e in G.teqs))
    return {
        "source": "\n".join(src) + "\n", "linear": linear, "flat": flat, "nv": G.nv, "params": G.params, "init": dict(G.init),
        "plan": plan, "split": split, "tags": G.tags, "solver": solver, "dyn": G.dyn, "has_dyn": bool(G.dyn),
        "teqs": G.teqs, "meqs": [], "autos": [], "tvars": G.tvars, "mvars": [], "logs": G.logs, "shocks": G.shocks,
    }


def gen_hard_case(rng: Rng) -> dict:
    """models and starting points on which an iteration can stall away from a root: residuals with a local extremum
    away from zero, systems without a real solution for the drawn parameters, plans that overdetermine a block.
    The property makes no claim when solve_steady raises; it demands the equations whenever it completes -- with every
    solver option. Polynomial cases are flat (constant paths), the overdetermined ones are linear (affine in the date),
    so `holds at dates t, t+1` does imply `holds at every date` for whatever is accepted."""
    G = Builder(1)
    kind = rng.weighted([("cubic", 4), ("quad", 3), ("prodsum", 3), ("overdet", 3)])
    solver = rng.choice(list(SOLVERS))
    split = rng.choice([None, True, False])
    plan = None
    flat = True
    x = G.fresh("x"); G.tvars.append(x)
    if kind == "cubic":
        # x^3 + p*x + a = b*(x - x[-1]): local extrema of the residual at +-sqrt(-p/3), of size a -+ 2(-p/3)^1.5
        p, loc, ext = rng.choice([(-3.0, 1.0, 2.0), (-0.75, 0.5, 0.25), (-12.0, 2.0, 16.0)])
        a = G.param("a", [ext + 1.0, -(ext + 1.0), ext + 0.5, -(ext + 2.0), ext - 0.125 * ext], rng)
        b = G.param("b", [0.25, 0.5, 0.125], rng)
        G.teqs.append((add(ipow(T(x), 3), mul(N(p), T(x)), T(a)), mul(T(b), sub(T(x), T(x, -1)))))
        G.init[x] = (loc * rng.choice([-3.0, -2.0, -0.5, 0.875, 1.25, 2.5]), None)
    elif kind == "quad":
        # x*x + c = b*(x - x[-1]): no real root when c > 0 (the squared residual still has a minimum at 0)
        c = G.param("c", [1.0, 0.5, 2.0, -1.0, -4.0, -0.25], rng)
        b = G.param("b", [0.25, 0.5], rng)
        G.teqs.append((add(mul(T(x), T(x)), T(c)), mul(T(b), sub(T(x), T(x, -1)))))
        G.init[x] = (rng.choice([-2.0, -0.5, 0.25, 1.5, 3.0]), None)
    elif kind == "prodsum":
        # x*y = a, x + y = s: real solutions iff s^2 >= 4a
        y = G.fresh("y"); G.tvars.append(y)
        a = G.param("a", [1.0, 2.0, 4.0, 0.75], rng)
        sm = G.param("s", [1.0, 2.0, 3.0, 5.0, 2.5], rng)
        G.teqs.append((mul(T(x), T(y, -1)), T(a)))
        G.teqs.append((add(T(x), T(y)), T(sm)))
        G.init[x] = (rng.choice([0.5, 1.0, 2.0, -1.0, 3.0]), None)
        G.init[y] = (rng.choice([0.5, 1.0, 2.0, 4.0]), None)
    else:
        # growth mode, level of an AR variable fixed away from (or at) its only steady level: nothing left to solve it with
        flat = False
        rho = G.param("rho", [0.5, 0.25, 0.75], rng)
        a = G.param("a", [1.0, 2.0, -1.0], rng)
        e = G.fresh("e"); G.shocks.append(e)
        G.teqs.append((T(x), add(mul(T(rho), T(x, -1)), mul(sub(N(1), T(rho)), T(a)), T(e))))
        level = G.params[a][0] + rng.choice([0.0, 0.0, 1.0, -0.5, 0.25])
        G.init[x] = (level, rng.choice([None, 0.0, 0.25]))
        plan = {"exogenized": [], "endogenized": [], "fixed_level": [x], "fixed_change": []}
    # followers, so that there is more than one block
    z = G.fresh("z"); w = G.fresh("w"); G.tvars += [z, w]
    G.teqs.append((T(z), add(mul(N(2.0), T(x)), mul(N(0.5), T(z, -1)))))
    G.teqs.append((T(w), sub(T(z, 1), T(x, -2))))
    G.init[z] = (rng.choice([1.0, 0.0, 4.0]), None)
    G.init[w] = (rng.choice([1.0, 0.0]), None)
    G.tags += ["hard", kind]
    case = finish_case(G, False, flat, plan, split, solver)
    if solver == "neqs_levenberg":
        # a user option: give up after 400 iterations instead of 5000 (most of these systems have no solution)
        case["solver_settings"] = {"max_iterations": 400}
    return case


ZERO_KINDS = [0.0, -0.0, 0]          # float zero, negative zero, integer zero


def gen_zero_const_case(rng: Rng) -> dict:
    """data edge of the linear algorithm: a linear model in which EVERY transition equation has an exactly zero constant
    (zero-mean processes: mean parameters 0.0 / -0.0 / integer 0, zero drift) while the measurement equations have non-zero
    intercepts; some variants sit next to the edge instead (mean 1e-9, or an ordinary non-zero mean)"""
    flat = rng.chance(0.5)
    nv = rng.weighted([(1, 2), (2, 2), (3, 1)])
    G = Builder(nv)
    mod_ar(G, rng, rng.randint(1, 3), rng.chance(0.5))
    if rng.chance(0.4):
        mod_ar(G, rng, rng.randint(1, 2), False)
    extra = []
    if not flat and rng.chance(0.5):
        extra.append(mod_drift(G, rng))
    for _ in range(rng.randint(1, 2)):
        mod_meas(G, rng, extra, intercept=True)
    edge = rng.weighted([("all-zero", 6), ("one-variant-near", 2), ("one-variant-ordinary", 2)])
    for name in G.params:
        if name[0] in "ad" and not name.startswith("dl"):
            vals = [rng.choice(ZERO_KINDS) for _ in range(nv)]
            if edge != "all-zero":
                vals[rng.randint(0, nv - 1)] = 1e-9 if edge == "one-variant-near" else rng.choice([1.0, -0.5])
            G.params[name] = vals
    for k in list(G.init):
        if rng.chance(0.5):
            G.init[k] = (rng.choice([0.0, 1.0, -1.0]), None)
    G.tags += ["zero-const", edge]
    eq_text = lambda lr: eq_source(G.dyn, lr)
    src = ["!transition-variables\n    " + ", ".join(G.tvars), "!measurement-variables\n    " + ", ".join(G.mvars),
           "!parameters\n    " + ", ".join(G.params), "!transition-shocks\n    " + ", ".join(G.shocks),
           "!transition-equations\n" + "\n".join(f"    {eq_text(e)};" for e in G.teqs),
           "!measurement-equations\n" + "\n".join(f"    {eq_text(e)};" for e in G.meqs)]
    return {"source": "\n".join(src) + "\n", "linear": True, "flat": flat, "nv": nv, "params": G.params, "init": dict(G.init),
            "plan": None, "split": None, "tags": G.tags, "solver": None, "dyn": G.dyn,
            "teqs": G.teqs, "meqs": G.meqs, "autos": [], "tvars": G.tvars, "mvars": G.mvars, "logs": [], "shocks": G.shocks}


_FULLY_FIXED_SRC = ("!transition-variables\n    u, v, t1, t2\n!parameters\n    d1, d2\n!transition-equations\n"
                    "    u = 2*t1 + 0.5*v[-1];\n    v = t2 + 0.25*u[+1];\n    t1 = t1[-1] + d1;\n    t2 = t2[-1] + d2;\n")
_FULLY_FIXED_SPLIT_OK = None


def fully_fixed_split_ok() -> bool:
    """does this tree solve block by block correctly when the plan fixes level AND change of one quantity (finding
    `split-blocks-fully-fixed-quantity`, pending fix C05-split-blocks-fully-fixed)? Probed once on the minimal case."""
    global _FULLY_FIXED_SPLIT_OK
    if _FULLY_FIXED_SPLIT_OK is None:
        try:
            m = ir.Simultaneous.from_string(_FULLY_FIXED_SRC)
            m.assign(d1=0.5, d2=0.25, t1=(5.0, 0.5), t2=(1.0, 1.0), u=2.0, v=2.0)
            p = ir.SteadyPlan(m); p.fix_level("t2"); p.fix_change("t2"); p.endogenize("d2")
            with contextlib.redirect_stdout(io.StringIO()), np.errstate(all="ignore"):
                m.solve_steady(plan=p, split_into_blocks=True)
                ok = m.check_steady(when_fails="silent")
            _FULLY_FIXED_SPLIT_OK = bool(ok)
        except Exception:
            _FULLY_FIXED_SPLIT_OK = False
    return _FULLY_FIXED_SPLIT_OK


def avoid_known_split_defect(case: dict) -> dict:
    """until the pending fix is applied, a plan that fixes level and change of the same quantity is not combined with an
    explicit split_into_blocks=True (the default, None, does not split when the plan fixes anything)"""
    p = case.get("plan")
    if p and case.get("split") is True and set(p["fixed_level"]) & set(p["fixed_change"]) and not fully_fixed_split_ok():
        case["split"] = None
        case["tags"] = case["tags"] + ["split-True-avoided(fully-fixed)"]
    return case


def gen_trend_case(rng: Rng) -> dict:
    """growth mode, more than eight quantities declared in a random order, a recursive chain of stationary variables and
    unit-root singles around exactly ONE simultaneous group (the blazer peels singletons and leaves one inner block, so
    several groups would merge): a pair / triple of non-log variables fed by two trends with different drifts, or a pair of
    log-variables with different growth rates -- the members of the block have different steady changes and arbitrary ids"""
    nv = rng.weighted([(1, 3), (2, 1)])
    G = Builder(nv)
    extra = []
    for _ in range(rng.randint(3, 7)):
        mod_ar(G, rng, 1, False)                   # singles; links only go to earlier ones: a recursive chain
    if rng.chance(0.4):
        extra.append(mod_drift(G, rng))
    if rng.chance(0.65):
        extra += mod_trends(G, rng)
    else:
        mod_logtrends(G, rng)
    for _ in range(rng.randint(0, 3)):
        mod_ar(G, rng, 1, False)
    plan = None
    if G.fixchanges and rng.chance(0.3):
        z, d = rng.choice(G.fixchanges)
        plan = {"exogenized": [z], "endogenized": [d], "fixed_level": [], "fixed_change": []}
        G.init[z] = (rng.choice([1.0, -2.0, 3.0]), rng.choice([0.5, -0.25, 1.0]))
    elif G.fixboth and rng.chance(0.5):
        # level and change of a trend fixed at assigned values (written with whatever spelling), its drift found instead
        z, d, _ = rng.choice(G.fixboth)
        plan = {"exogenized": [], "endogenized": [d], "fixed_level": [z], "fixed_change": [z]}
        G.init[z] = (rng.choice([1.0, -2.0, 3.0]), rng.choice([0.5, -0.25, 1.0, 2.0]))
    declared = list(G.tvars)
    rng.shuffle(declared); rng.shuffle(G.teqs)
    G.tags.append("shuffled")
    case = finish_case(G, False, False, plan, rng.choice([None, True, True, False]), rng.choice(list(SOLVERS)))
    case["source"] = case["source"].replace("!transition-variables\n    " + ", ".join(G.tvars),
                                            "!transition-variables\n    " + ", ".join(declared), 1)
    case["plan_spelling"] = rng.randint(1, 10**6) if plan else 0
    return avoid_known_split_defect(case)


def gen_case(rng: Rng, force=None) -> dict:
    """a generated model with its flags, parameters, initial values and (possibly) a steady plan"""
    if force and force.get("hard"):
        return gen_hard_case(rng)
    if force and force.get("trends"):
        return gen_trend_case(rng)
    if force and force.get("zero_const"):
        return gen_zero_const_case(rng)
    linear = rng.chance(0.4) if force is None else force.get("linear", False)
    flat = rng.chance(0.35) if force is None else force.get("flat", False)
    nv = rng.weighted([(1, 5), (2, 3), (3, 2)])
    G = Builder(nv)
    rich = rng.chance(0.6)
    mod_ar(G, rng, rng.randint(1, 3), rich)
    extra = []
    if linear:
        if rng.chance(0.5):
            mod_ar(G, rng, rng.randint(1, 2), rich)
        if not flat and rng.chance(0.7):
            extra.append(mod_drift(G, rng))
        if rng.chance(0.4):
            mod_loglin(G, rng, flat)
    else:
        fam = rng.weighted([("bgp", 4), ("prod", 3), ("solow", 2), ("drift", 2), ("loglin", 2), ("none", 1)])
        if fam == "bgp" or rng.chance(0.2): mod_bgp(G, rng, flat)
        if fam == "prod" or rng.chance(0.25): mod_prod(G, rng)
        if fam == "solow": mod_solow(G, rng)
        if (fam == "drift" or rng.chance(0.2)) and not flat: extra.append(mod_drift(G, rng))
        if fam == "loglin": mod_loglin(G, rng, flat)
    # blocks whose members have different steady changes, in models with more than eight quantities, declared in a random order
    trends = (not flat) and rng.chance(0.2)
    if trends:
        extra += mod_trends(G, rng)
        if not linear and rng.chance(0.5):
            mod_logtrends(G, rng)
        if len(G.tvars) < 10:
            mod_ar(G, rng, rng.randint(2, 3), rich)
    if rng.chance(0.35 if linear else 0.15):
        mod_pin(G, rng)
    if rng.chance(0.5):
        mod_meas(G, rng, extra)
    # steady autovalues: an auxiliary parameter assigned from the final steady state
    if rng.chance(0.4):
        for _ in range(rng.randint(1, 2)):
            aux = G.fresh("aux"); G.params[aux] = [0.0] * nv
            x = rng.choice(G.stationary + extra)      # `extra`: unit-root variables, whose path moves
            rhs = add(mul(N(rng.choice([2.0, 0.5, -1.0])), T(x, rng.choice([0, -1, 1]))), T(rng.choice([p for p in G.params if p != aux and not p.startswith("aux")])))
            G.autos.append((T(aux), rhs))
        G.tags.append("auto")
    # steady plan (nonlinear solver only)
    plan = {"exogenized": [], "endogenized": [], "fixed_level": [], "fixed_change": []}
    if not linear and rng.chance(0.55):
        if G.swaps and rng.chance(0.6):
            x, a = rng.choice(G.swaps)
            plan["exogenized"].append(x); plan["endogenized"].append(a)
            # in a flat solve the exogenized quantity may carry a stale trend (assigned, or left by an earlier growth solve):
            # the flat evaluator resets it, the model's `zeroChanges` does the same, the `steady` stream compares the result
            G.init[x] = (rng.choice([1.0, 2.0, 0.5, -1.0]), 0.0 if not flat else rng.choice([None, 0.5, -0.25]))
        if G.fixchanges and not flat and rng.chance(0.35):
            # exogenize a unit-root variable with an assigned (level, change); its drift parameter becomes the unknown
            z, d = rng.choice(G.fixchanges)
            if z not in plan["exogenized"]:
                plan["exogenized"].append(z); plan["endogenized"].append(d)
                G.init[z] = (rng.choice([1.0, -2.0, 3.0]), rng.choice([0.5, -0.25, 1.0]))
        if G.fixlevels and rng.chance(0.6):
            v = rng.choice(G.fixlevels)
            if v not in plan["exogenized"]:
                plan["fixed_level"].append(v)
                G.init[v] = (rng.choice([1.0, 2.0, 0.5]), G.init[v][1])
        if G.fixchanges and not flat and rng.chance(0.4):
            z, d = rng.choice(G.fixchanges)
            if z not in plan["exogenized"] and d not in plan["endogenized"]:
                plan["fixed_change"].append(z); plan["endogenized"].append(d)
                G.init[z] = (G.init[z][0] if G.init[z][0] is not None else 0.0, rng.choice([0.5, -0.25, 1.0]))
        if G.fixboth and not flat and rng.chance(0.45):
            # level AND change of a trending quantity fixed at assigned values, its drift / growth parameter found instead
            z, d, is_log = rng.choice(G.fixboth)
            if z not in plan["exogenized"] and d not in plan["endogenized"] and z not in plan["fixed_change"]:
                if z not in plan["fixed_level"]: plan["fixed_level"].append(z)
                plan["fixed_change"].append(z); plan["endogenized"].append(d)
                G.init[z] = (rng.choice([2.0, 1.0, 3.0]), rng.choice([1.03125, 1.0625, 1.015625] if is_log else [0.5, -0.25, 1.0]))
    has_plan = any(plan.values())
    split = rng.choice([None, True, False])
    # leave some initial values unassigned (default initial guess) -- never for plan-fixed ones
    pinned = set(plan["exogenized"] + plan["fixed_level"] + plan["fixed_change"])
    init = {}
    for k, v in G.init.items():
        if k in pinned or rng.chance(0.8):
            init[k] = v
    eq_text = lambda lr: eq_source(G.dyn, lr)
    src = []
    # the quantity ids follow the order of declaration: vary it (also the order of the equations), so that the members of a
    # block are not always neighbours with small ids
    declared = list(G.tvars)
    if trends or rng.chance(0.3):
        rng.shuffle(declared)
        rng.shuffle(G.teqs)
        G.tags.append("shuffled")
    src.append("!transition-variables\n    " + ", ".join(declared))
    if G.mvars: src.append("!measurement-variables\n    " + ", ".join(G.mvars))
    if G.logs: src.append("!log-variables\n    " + ", ".join(G.logs))
    src.append("!parameters\n    " + ", ".join(G.params))
    src.append("!transition-shocks\n    " + ", ".join(G.shocks))
    src.append("!transition-equations\n" + "\n".join(f"    {eq_text(e)};" for e in G.teqs))
    if G.meqs: src.append("!measurement-equations\n" + "\n".join(f"    {eq_text(e)};" for e in G.meqs))
    if G.autos: src.append("!steady-autovalues\n" + "\n".join(f"    {eq_text(e)};" for e in G.autos))
    return avoid_known_split_defect({
        "source": "\n".join(src) + "\n", "linear": linear, "flat": flat, "nv": nv, "params": G.params, "init": init,
        "plan": plan if has_plan else None, "split": split, "tags": G.tags,
        "solver": rng.weighted([("neqs_levenberg", 2), ("scipy_root", 1)]) if not linear else None,
        "plan_spelling": rng.randint(1, 10**6) if has_plan else 0, "has_dyn": bool(G.dyn), "dyn": G.dyn,
        "teqs": G.teqs, "meqs": G.meqs, "autos": G.autos, "tvars": G.tvars, "mvars": G.mvars, "logs": G.logs, "shocks": G.shocks,
    })


def case_for_json(case):
    """JSON form of a case; the generator seed lets a replay rebuild the equation trees"""
    d = {k: case[k] for k in ("source", "linear", "flat", "nv", "params", "init", "plan", "split", "tags", "solver") if k in case}
    if "gen_seed" in case:
        d["gen_seed"], d["force"] = case["gen_seed"], case.get("force")
    return d


# ---------------------------------------------------------------------------------------
# running a case on the implementation (with a recording solver) + property oracle
# ---------------------------------------------------------------------------------------

_RECORD: list | None = None
_UNSORTED = 0
_UNSORTED_DISTINCT = 0        # ... of which the change unknowns have at least two different values


def _make_spy(real_name: str):
    """a recording solver: delegates to the real solver `real_name` of solver_dispatcher (looked up at call time, so a
    changed facade is what runs) and records what the model needs to replay the block"""
    def spy(steady_evaluator, maybelog_init_guess, solver_settings):
        out = getattr(SD, real_name)(steady_evaluator, maybelog_init_guess, solver_settings=solver_settings)
        final, success, status = out
        if _RECORD is not None and success:
            ev = steady_evaluator
            where = set(ev._where_logly)
            lev_q = [q for q, b in zip(ev.wrt_qids, ev._bool_index_wrt_levels) if b]
            chg_q = [q for q, b in zip(ev.wrt_qids, ev._bool_index_wrt_changes) if b] if ev._bool_index_wrt_changes else []
            pos = {q: i for i, q in enumerate(ev.wrt_qids)}
            g = np.array(final, dtype=float)
            nl = len(lev_q)
            # the order of the unknowns inside the guess vector is CPython's set order (e.g. [8, 1, 2]); it has no observable
            # effect (residuals are ordered by equation), the model uses increasing qid: permute the guess accordingly
            dl = sorted((q, float(np.exp(x)) if pos[q] in where else float(x)) for q, x in zip(lev_q, g[:nl]))
            dc = sorted((q, float(np.exp(x)) if pos[q] in where else float(x)) for q, x in zip(chg_q, g[nl:]))
            delog = [x for _, x in dl] + [x for _, x in dc]
            if lev_q != sorted(lev_q) or chg_q != sorted(chg_q):
                global _UNSORTED, _UNSORTED_DISTINCT
                _UNSORTED += 1
                if len(set(round(x, 9) for _, x in dc)) > 1:
                    _UNSORTED_DISTINCT += 1
            lev_q, chg_q = sorted(lev_q), sorted(chg_q)
            resid = np.array(ev.eval_func(g), dtype=float).flatten().tolist()
            _RECORD.append({"wrt_qids": list(ev.wrt_qids), "lev_q": lev_q, "chg_q": chg_q, "guess": delog, "resid": resid,
                            "maybelog": g.tolist(), "solver": real_name})
        return out
    return spy


# solver option of solve_steady -> name of the recording wrapper registered in solver_dispatcher
SOLVERS = ("neqs_levenberg", "scipy_root")
SPY = {name: "c05_spy_" + name for name in SOLVERS}
for _name in SOLVERS:
    setattr(SD, SPY[_name], _make_spy(_name))
    setattr(SD, "create_solver_settings_for_" + SPY[_name],
            (lambda real: (lambda **kw: getattr(SD, "create_solver_settings_for_" + real)(**kw)))(_name))


def write_plan(plan, p: dict, spelling: int = 0):
    """write the intended registers `p` into a SteadyPlan through the public spellings: `fix` (= fix_level + fix_change),
    `fix_level(s)`, `fix_change(s)`, `swap`, `exogenize`/`endogenize`, with `un...` detours; spelling 0 is the plain one"""
    if not spelling:
        if p["exogenized"]: plan.exogenize(p["exogenized"])
        if p["endogenized"]: plan.endogenize(p["endogenized"])
        if p["fixed_level"]: plan.fix_level(p["fixed_level"])
        if p["fixed_change"]: plan.fix_change(p["fixed_change"])
        return
    rng = Rng(spelling)
    growth = bool(plan.can_be_fixed_change)
    both = [n for n in p["fixed_level"] if n in p["fixed_change"]]
    for n in both:
        how = rng.choice(["fix", "fix", "fix", "separate", "plural", "detour"]) if growth else "separate"
        if how == "fix": plan.fix(n)
        elif how == "separate": plan.fix_level(n); plan.fix_change(n)
        elif how == "plural": plan.fix_levels([n]); plan.fix_changes([n])
        else: plan.fix(n); plan.unfix(n); plan.fix(n)
    for n in p["fixed_level"]:
        if n in both: continue
        how = rng.choice(["plain", "plural", "detour"]) if growth else rng.choice(["plain", "plural", "fix"])
        if how == "plain": plan.fix_level(n)
        elif how == "plural": plan.fix_levels(n)
        elif how == "fix": plan.fix(n)                       # flat plan: `fix` is the level only
        else: plan.fix(n); plan.unfix_change(n)
    for n in p["fixed_change"]:
        if n in both: continue
        if rng.chance(0.6): plan.fix_change(n)
        else: plan.fix(n); plan.unfix_level(n)
    exo, endo = list(p["exogenized"]), list(p["endogenized"])
    while exo and endo and rng.chance(0.6):
        plan.swap((exo.pop(0), endo.pop(0)))
    if exo:
        plan.exogenize(exo if rng.chance(0.5) else tuple(exo))
    for n in endo:
        plan.endogenize(n)
    # detours that must leave no trace
    if rng.chance(0.4):
        others = [n for n in plan.can_be_exogenized if n not in p["exogenized"]]
        if others:
            n = rng.choice(sorted(others))
            plan.exogenize(n); plan.unexogenize(n)
    if rng.chance(0.3):
        others = [n for n in plan.can_be_endogenized if n not in p["endogenized"]]
        if others:
            n = rng.choice(sorted(others))
            plan.endogenize(n); plan.unendogenize(n)


def build(case):
    m = ir.Simultaneous.from_string(case["source"], linear=case["linear"], flat=case["flat"])
    if case["nv"] > 1:
        m.alter_num_variants(case["nv"])
    m.assign(**{k: (v if case["nv"] > 1 else v[0]) for k, v in case["params"].items()})
    assign = {}
    for k, (l, c) in case["init"].items():
        assign[k] = (l, c) if c is not None else l
    if assign:
        m.assign(**assign)
    plan = None
    if case["plan"]:
        plan = ir.SteadyPlan(m)
        write_plan(plan, case["plan"], case.get("plan_spelling", 0))
    return m, plan


def snapshot(m):
    return [(dict(v.levels), dict(v.changes)) for v in m._variants]


def solve(m, plan, case, spy=True):
    """returns (ok, error text, records)"""
    global _RECORD
    kwargs = {}
    if not case["linear"]:
        if plan is not None: kwargs["plan"] = plan
        if case["split"] is not None: kwargs["split_into_blocks"] = case["split"]
        name = case.get("solver") or "neqs_levenberg"
        if spy: kwargs["solver"] = SPY[name]
        elif name != "neqs_levenberg": kwargs["solver"] = name      # the public option, exactly as a user passes it
        if case.get("solver_settings"): kwargs["solver_settings"] = dict(case["solver_settings"])
    _RECORD = []
    try:
        with contextlib.redirect_stdout(io.StringIO()), np.errstate(all="ignore"):
            m.solve_steady(**kwargs)
        return True, "", _RECORD
    except Exception as e:
        return False, f"{type(e).__name__}: {str(e)[:200]}", _RECORD
    finally:
        _RECORD = None


def kinds_of(case):
    kinds = {}
    for n in case["tvars"] + case["mvars"]:
        kinds[n] = "l" if n in case["logs"] else "v"
    for n in case.get("xvars", []):
        kinds[n] = "v"                 # exogenous variables: a stored (level, change) like any other variable
    for n in case["params"]:
        kinds[n] = "p"
    for n in case["shocks"]:
        kinds[n] = "e"
    return kinds


def two_date_solution(flat: bool, kinds, levels, changes, texts, codes, failing_text, tol) -> str | None:
    """the NARROW class of the known finding `nonlinear-growth-two-date-solution`: in growth mode the solver returned a trending
    path on which every equation is within tolerance at the two dates the evaluator (and check_steady) look at, while an
    equation whose residual along the stored path is NOT affine in the date (degree >= 2 in the trending quantities: affine
    and monomial shapes cannot do this, `affine_residual_bounded_everywhere` / `mono_residual_zero_everywhere`) is violated
    at another date, and a non-log quantity occurring in that equation -- which a steady state can only hold constant there --
    has a non-zero stored change. Returns a description when ALL of this holds, else None (the failure stays on its site)."""
    if flat:
        return None
    for code in codes:
        for t in (0, 1):
            r, scale = oracle_residual(code, kinds, levels, changes, t)
            if not (abs(r) <= tol * scale):
                return None
    code = codes[texts.index(failing_text)]
    rs = [oracle_residual(code, kinds, levels, changes, t)[0] for t in range(-3, 5)]
    second = [rs[i + 1] - 2 * rs[i] + rs[i - 1] for i in range(1, len(rs) - 1)]
    if not any(abs(d) > 1e-6 for d in second if d == d):
        return None                                   # affine in the date: not this class
    names = set(m.group(1) for m in _TOKEN.finditer(failing_text.split("!!")[-1]))
    trending = sorted(n for n in names if kinds.get(n) == "v" and abs(changes.get(n) or 0.0) > 1e-9)
    if not trending:
        return None
    return (f"two-date solution: all equations within tolerance at dates 0 and 1; the residual of `{failing_text}` is not affine in the "
            f"date (second differences {second[1]:.3g}, {second[2]:.3g}); trending non-log quantities "
            + ", ".join(f"{n}: change {changes[n]:.6g}" for n in trending))


def oracle(ctx: Ctx, case, m, before, tol=TOL_ORACLE, payload=None, note="", dates=None) -> bool:
    """every steady equation text holds at dates -5..5 on the stored path, for every variant; plan-fixed values are kept.
    `tol`: relative threshold, derived by the caller from the tolerance in force at the solve that is being judged;
    `payload`: what a replay needs when the case is one step of a multi-step session"""
    kinds = kinds_of(case)
    _cfj = case_for_json
    case_for_json_ = (lambda c: payload) if payload is not None else _cfj
    ok = True
    name_to_qid = m.create_name_to_qid()
    texts = [f"{to_text(l)} = {to_text(r)}" for (l, r) in case["teqs"] + case["meqs"]]
    codes = [compile_text(t) for t in texts]
    auto_lhs = {l[1] for (l, r) in case["autos"]}
    collapsed_vids = set()
    for vid, v in enumerate(m._variants):
        levels = {n: v.levels[q] for n, q in name_to_qid.items()}
        changes = {n: v.changes[q] for n, q in name_to_qid.items()}
        worst = (0.0, None)
        # degenerate collapse: the iteration ran a log-variable to the boundary of its domain (level ~ 0, e.g. the trivial
        # root k = 0 of a Solow equation, with an arbitrary growth rate). The residuals are below the *absolute* tolerance at
        # the two dates the evaluator tests, but exp/log conditioning is uncontrolled there and a non-log follower such as
        # yy = k^0.125 is not on a linear path: dates beyond {0, 1} are not demanded for such a point (counted, see notes).
        collapsed = any(kinds[n] == "l" and levels.get(n) is not None and abs(levels[n]) < 1e-6 for n in kinds)
        if collapsed:
            ctx.count("degenerate_collapsed_log_level(dates 0,1 only)")
            collapsed_vids.add(vid)
        for text, code in zip(texts, codes):
            for t in ([0, 1] if collapsed else (dates or DATES)):
                r, scale = oracle_residual(code, kinds, levels, changes, t)
                ctx.evaluations += 1
                if not (abs(r) <= tol * scale):
                    ok = False
                    why = two_date_solution(case["flat"], kinds, levels, changes, texts, codes, text, tol) if t not in (0, 1) else None
                    ctx.fail("nonlinear-growth-two-date-solution" if why else "steady-equation-residual", case_for_json_(case),
                             f"{note}variant {vid}: `{text}` at date {t:+d}: residual {r!r} on the stored steady path (scale {scale:.3g}, allowed {tol:g})"
                             + (f"; {why}" if why else ""))
                    break
                if abs(r) / scale > worst[0]:
                    worst = (abs(r) / scale, text)
        ctx.extra["max_rel_residual_seen"] = max(ctx.extra.get("max_rel_residual_seen", 0.0), worst[0])
        # autovalue equations hold at date 0 with the final levels (right-hand sides never mention an autovalue target here)
        for (l, r) in case["autos"]:
            code = compile_text(f"{to_text(l)} = {to_text(r)}")
            res, scale = oracle_residual(code, kinds, levels, changes, 0)
            if not (abs(res) <= tol * scale):
                ok = False
                ctx.fail("autovalue-equation", case_for_json_(case), f"variant {vid}: `{to_text(l)} = {to_text(r)}`: residual {res!r} after solve_steady")
        # frame: quantities fixed or exogenized by the plan keep their assigned values
        if case["plan"]:
            lv0, ch0 = before[vid]
            p = case["plan"]
            for n in p["exogenized"]:
                q = name_to_qid[n]
                if v.levels[q] != lv0[q] or (not case["flat"] and v.changes[q] != ch0[q]):
                    ok = False
                    ctx.fail("plan-exogenized-changed", case_for_json_(case), f"variant {vid}: exogenized {n}: ({lv0[q]}, {ch0[q]}) -> ({v.levels[q]}, {v.changes[q]})")
            for n in p["fixed_level"]:
                q = name_to_qid[n]
                if v.levels[q] != lv0[q]:
                    ok = False
                    ctx.fail("plan-fixed-level-changed", case_for_json_(case), f"variant {vid}: fixed level of {n}: {lv0[q]} -> {v.levels[q]}")
            for n in p["fixed_change"]:
                q = name_to_qid[n]
                if v.changes[q] != ch0[q]:
                    ok = False
                    ctx.fail("plan-fixed-change-changed", case_for_json_(case), f"variant {vid}: fixed change of {n}: {ch0[q]} -> {v.changes[q]}")
            # parameters that are not endogenized (and not autovalue targets) are never touched
            for n in case["params"]:
                q = name_to_qid[n]
                if n not in p["endogenized"] and n not in auto_lhs and v.levels[q] != lv0[q]:
                    ok = False
                    ctx.fail("parameter-changed", case_for_json_(case), f"variant {vid}: parameter {n}: {lv0[q]} -> {v.levels[q]}")
    # the implementation's own observation point
    try:
        with contextlib.redirect_stdout(io.StringIO()):
            kw = {"equation_switch": "steady"} if case.get("has_dyn") else {}
            _, info = m.check_steady(return_info=True, when_fails="silent", unpack_singleton=False, **kw)
        for vid, i in enumerate(info):
            if vid in collapsed_vids:
                continue        # a log-variable level of (nearly) 0 gives log -> -inf / NaN cells in create_steady_array
            d = np.abs(np.array(i["discrepancies"], dtype=float))
            if d.size and not (np.nanmax(d) <= max(1e-7, 10 * tol)) or np.isnan(d).any():
                ok = False
                ctx.fail("check-steady-discrepancy", case_for_json_(case), f"variant {vid}: check_steady discrepancies up to {np.nanmax(d)!r}")
    except Exception as e:
        ok = False
        ctx.fail("check-steady-raises", case_for_json_(case), repr(e)[:300])
    return ok


# ---------------------------------------------------------------------------------------
# correspondence lines
# ---------------------------------------------------------------------------------------

def cell(x) -> str:
    if x is None:
        return "nan"
    x = float(x)
    return "nan" if (x != x or x in (float("inf"), float("-inf"))) else rat_of_float(x)


def close(a: str, b: str, tol=TOL_CORR, scale=1.0) -> bool:
    if a == "nan" or b == "nan":
        return a == b
    fa, fb = fractions.Fraction(a), fractions.Fraction(b)
    return abs(fa - fb) <= tol * max(scale, abs(fa), abs(fb), 1)


def steady_line(case, m, plan, vid, before, records):
    """request line for the replay of the block loop of variant `vid`, plus what the implementation produced"""
    qid = m.create_name_to_qid()
    quantities = m._invariant.quantities
    nq = max(q.id for q in quantities) + 1
    codes = ["p"] * nq
    for q in quantities:
        if q.logly is not None:
            codes[q.id] = "l" if q.logly else "v"
    flags = m.resolve_flags()
    wrt = S._resolve_steady_wrt(m, plan, is_flat=flags.is_flat)
    split = S._resolve_split_into_blocks(case["split"], plan)
    if split:
        # the columns the code orders: all unknown qids, or (once the fix for fully fixed quantities is in) those with unknowns
        bq = S._get_qids_with_unknowns(wrt, flags.is_flat) if hasattr(S, "_get_qids_with_unknowns") else wrt.qids
        if hasattr(S, "_get_qids_with_unknowns") and len(bq) != len(wrt.eids):
            blocks = (BZ.Block(wrt.eids, wrt.qids),)          # the fixed code solves as one system when no 1-1 ordering exists
        else:
            im = S._calculate_steady_incidence_matrix(wrt.equations, bq)
            blocks = BZ.blaze(im, wrt.eids, bq)
    else:
        blocks = (BZ.Block(wrt.eids, wrt.qids),)
    # equations by eid, from the generator's trees, matched through the human text
    by_human = {}
    for (l, r) in case["teqs"] + case["meqs"]:
        by_human[re.sub(r"\s+", "", f"{to_text(l)}={to_text(r)}")] = (l, r)
    exprs, rational = [], []
    for e in wrt.equations:
        l, r = by_human[re.sub(r"\s+", "", e.human)]
        s = eq_to_lean(l, r, qid)
        rational.append(s is not None)
        exprs.append(s if s is not None else "n 0")
    lv0, ch0 = before[vid]
    L = " ".join(cell(lv0[q]) for q in range(nq))
    C = " ".join(cell(ch0[q]) for q in range(nq))
    # which blocks call the solver (the model recomputes this; here only to attach the guesses in order)
    fl, fc = set(wrt.fixed_level_qids), set(wrt.fixed_change_qids)
    recs = list(records)
    bparts, used = [], []
    for b in blocks:
        lq = sorted(set(b.qids) - fl); cq = sorted(set(b.qids) - fc)
        skipped = (not lq and not cq) or not b.eids
        if skipped or not recs:
            g = "-"
            used.append(None)
        else:
            rec = recs.pop(0)
            used.append(rec)
            g = " ".join(rat_of_float(x) for x in rec["guess"]) or "-"
        bparts.append(f"{' '.join(map(str, b.eids))} : {' '.join(map(str, b.qids))} : {g}")
    autos = []
    for (l, r) in case["autos"]:
        autos.append(f"{qid[l[1]]} {to_lean(r, qid)}")
    line = (f"steady {1 if flags.is_flat else 0} ; {''.join(codes)} ; {L} ; {C} ; {' | '.join(exprs)} ; "
            f"{' '.join(map(str, wrt.fixed_level_qids))} ; {' '.join(map(str, wrt.fixed_change_qids))} ; {' | '.join(bparts)} ; {' | '.join(autos)}")
    return line, {"blocks": blocks, "used": used, "rational": rational, "wrt": wrt, "nq": nq, "leftover": len(recs)}


def compare_steady(ctx: Ctx, case, vid, line, meta, reply, after_loop, after_auto):
    """tolerance-aware comparison of one `steady` reply with what the implementation did"""
    cj = {"case": case_for_json(case), "variant": vid, "line": line}
    if reply is None:
        return
    ctx.streams_compared["steady"] = ctx.streams_compared.get("steady", 0) + 1
    if meta["leftover"]:
        ctx.disagree("steady", cj, f"{meta['leftover']} more solver calls than non-skipped blocks", reply); return
    parts = [p.strip() for p in reply.split(";")]
    if len(parts) != 4:
        ctx.disagree("steady", cj, "implementation ran", reply); return
    blk = [b.strip() for b in parts[0].split("|")] if parts[0] else []
    if len(blk) != len(meta["blocks"]):
        ctx.disagree("steady", cj, f"{len(meta['blocks'])} blocks", reply); return
    neq_all = len(meta["rational"])
    for b, rec, mb in zip(meta["blocks"], meta["used"], blk):
        if rec is None:
            if mb != "skip":
                ctx.disagree("steady", cj, "block skipped by the implementation", mb); return
            ctx.count("blocks_skipped")
            continue
        mm = re.match(r"WL (\S*) WC (\S*) R (.*) X ([TF]) X2 ([TF]) G ([TF])$", mb)
        if not mm:
            ctx.disagree("steady", cj, "block solved by the implementation", mb); return
        wl = ",".join(map(str, rec["lev_q"])); wc = ",".join(map(str, rec["chg_q"]))
        if (mm.group(1), mm.group(2)) != (wl, wc):
            ctx.disagree("steady", cj, f"WL {wl} WC {wc}", mb); return
        mres = mm.group(3).split()
        ires = rec["resid"]
        if len(mres) != len(ires):
            ctx.disagree("steady", cj, f"residual vector of length {len(ires)}", mb); return
        ne = len(b.eids)
        allrat = True
        for i, (a, r) in enumerate(zip(ires, mres)):
            if not meta["rational"][b.eids[i % ne]]:
                allrat = False
                continue
            if not close(cell(a), r, tol=1e-9):
                ctx.disagree("steady", cj, f"residual[{i}] = {a!r}", f"{r} in {mb[:200]}"); return
        # the block was accepted by the implementation: the model's acceptance test of that solver must pass on the same
        # residuals (neqs_levenberg: sup-norm < tol; scipy_root: 2-norm < tol)
        accepted = mm.group(5) if rec.get("solver") == "scipy_root" else mm.group(4)
        if allrat and accepted != "T":
            ctx.disagree("steady", cj, f"block accepted by solver {rec.get('solver')} (residuals {ires[:6]})", mb); return
        ctx.count("blocks_accepted_by:" + str(rec.get("solver")))
        # the executable certificate `goodGuess?` of the model (side conditions of the consistency theorem) on this block
        ctx.count("model_certificate_goodGuess:" + mm.group(6))
        ctx.count("blocks_replayed")
        ctx.count(f"block_size_{min(ne, 6)}")
    for name, part, (lv, ch) in (("after-loop", (parts[1], parts[2]), after_loop),):
        ml, mc = part[0].split(), part[1].split()
        il = [cell(lv[q]) for q in range(meta["nq"])]
        ic = [cell(ch[q]) for q in range(meta["nq"])]
        if ml != il or mc != ic:
            ctx.disagree("steady", cj, f"{name} L {' '.join(il)} C {' '.join(ic)}", f"L {parts[1]} C {parts[2]}"); return
    ma = parts[3].split()
    ia = [cell(after_auto[0][q]) for q in range(meta["nq"])]
    if len(ma) != len(ia) or not all(close(a, b) for a, b in zip(ia, ma)):
        ctx.disagree("steady", cj, "after autovalues L " + " ".join(ia), parts[3]); return


def mat_text(a) -> str:
    a = np.atleast_2d(np.array(a, dtype=float))
    return f"{a.shape[0]} {a.shape[1]} " + " ".join(rat_of_float(x) for x in a.flatten())


def colvec_text(v) -> str:
    v = np.array(v, dtype=float).flatten()
    return f"{len(v)} 1 " + " ".join(rat_of_float(x) for x in v)


def linear_lines(case, m):
    """per variant: lin (exact solve), linchk and measchk (exact residuals of the implementation's output)"""
    out = []
    flags = m.resolve_flags()
    for vid, v in enumerate(m._variants):
        sysm = m._systemize(v, m._invariant.steady_descriptor, flags)
        algo = FS.solve_steady_linear_flat if flags.is_flat else FS.solve_steady_linear_nonflat
        Xi, Y, dXi, dY = algo(sysm)
        A, B, C, F, Gm, H = sysm.A, sysm.B, sysm.C, sysm.F, sysm.G, sysm.H
        head = f"{mat_text(A)} ; {mat_text(B)} ; {colvec_text(C)}"
        out.append((f"lin {1 if flags.is_flat else 0} ; {head}", ("lin", vid, Xi, dXi)))
        out.append((f"linchk ; {head} ; {colvec_text(Xi)} ; {colvec_text(dXi)} ; -5 5", ("linchk", vid, None, None)))
        if F.shape[0]:
            out.append((f"measchk ; {mat_text(F)} ; {mat_text(Gm)} ; {colvec_text(H)} ; {colvec_text(Xi)} ; {colvec_text(dXi)} ; "
                        f"{colvec_text(Y)} ; {colvec_text(dY)} ; -5 5", ("measchk", vid, None, None)))
            # the model's own measurement block (Linear.solveMeasurementNonflat) on the implementation's (xi, dxi)
            out.append((f"meas ; {mat_text(F)} ; {mat_text(Gm)} ; {colvec_text(H)} ; {colvec_text(Xi)} ; {colvec_text(dXi)}",
                        ("meas", vid, Y, dY)))
    return out


def compare_linear(ctx: Ctx, case, line, tag, reply):
    if reply is None:
        return
    kind, vid, Xi, dXi = tag
    cj = {"case": case_for_json(case), "variant": vid, "line": line[:2000]}
    ctx.streams_compared[kind] = ctx.streams_compared.get(kind, 0) + 1
    ws = reply.split()
    if kind == "linconst":
        C, H, nt, rational = Xi
        impl = C[:nt] + H
        mc = ws
        good = len(mc) == len(impl) and all((not r) or close(cell(a), b, 1e-9) for a, b, r in zip(impl, mc, rational))
        good = good and all(abs(x) <= 1e-12 for x in C[nt:])        # auxiliary (lag-identity) rows carry no constant
        if not good:
            ctx.disagree("linconst", cj, "C " + " ".join(map(str, C)) + " H " + " ".join(map(str, H)), reply)
        return
    if kind == "meas":
        if reply == "singular":
            ctx.count("meas_singular"); return
        i = ws.index("dy")
        my, mdy = ws[1:i], ws[i + 1:]
        iy = [cell(x) for x in np.array(Xi).flatten()]          # (Xi, dXi) slots carry (Y, dY) for this kind
        idy = [cell(x) for x in np.array(dXi).flatten()]
        if len(iy) != len(my) or len(idy) != len(mdy) or not all(close(a, b, 1e-8) for a, b in zip(iy + idy, my + mdy)):
            ctx.disagree("meas", cj, "y " + " ".join(iy) + " dy " + " ".join(idy), reply)
        return
    if kind == "lin":
        if reply == "singular":
            ctx.count("lin_singular(level-indeterminate)")
            return
        try:
            i = ws.index("dxi") if "dxi" in ws else len(ws)
            mxi, mdxi = ws[1:i], ws[i + 1:]
        except ValueError:
            ctx.disagree("lin", cj, "solution", reply); return
        ixi = [cell(x) for x in np.array(Xi).flatten()]
        idx = [cell(x) for x in np.array(dXi).flatten()] if mdxi else []
        if len(ixi) != len(mxi) or not all(close(a, b, 1e-8) for a, b in zip(ixi + idx, mxi + mdxi)):
            ctx.disagree("lin", cj, "xi " + " ".join(map(str, np.array(Xi).flatten())) + " dxi " + " ".join(map(str, np.array(dXi).flatten())), reply)
        ctx.count("lin_exact_solution_compared")
        return
    # exact residuals of the implementation's output
    vals = {ws[i]: fractions.Fraction(ws[i + 1]) for i in range(0, len(ws) - 1, 2)}
    for k, x in vals.items():
        if not (x <= fractions.Fraction(1, 10**8)):
            ctx.disagree(kind, cj, f"implementation's (xi, dxi): exact {k} residual should be ~0", reply)
            return


# ---------------------------------------------------------------------------------------
# the two small streams: paths and plan resolution
# ---------------------------------------------------------------------------------------

def gen_path_lines(ctx: Ctx):
    rng = ctx.rng.fork("path")
    lines, impl = [], []
    for _ in range(ctx.n(400, 6000)):
        logly = rng.chance(0.5)
        level = rng.weighted([(None, 1), ("v", 8)])
        change = rng.weighted([(None, 2), ("v", 6)])
        if level == "v":
            level = rng.dyadic(-4, 4, 3) if not logly or rng.chance(0.2) else rng.randint(1, 32) / 8.0
        if change == "v":
            change = rng.dyadic(-2, 2, 3) if not logly or rng.chance(0.2) else rng.randint(4, 12) / 8.0
        s0 = rng.randint(-4, 2); n = rng.randint(2, 7)
        if s0 == 0 and n == 1:
            n = 2
        v = Variant()
        v.levels = {0: level, 1: 1.0}
        v.changes = {0: change, 1: None}
        with np.errstate(all="ignore"):
            arr = v.create_steady_array({0: logly, 1: None}, num_columns=n, shift_in_first_column=s0)
        lines.append(f"path {1 if logly else 0} {cell(level)} {cell(change)} {s0} {n}")
        impl.append((logly, [cell(x) for x in arr[0, :]]))
        ctx.count("path_log" if logly else "path_nonlog")
        if level is not None and change not in (None, 0.0, 1.0):
            ctx.nontriv(("path", logly, level, change, s0, n))
    return lines, impl


def run_paths(ctx: Ctx):
    lines, impl = gen_path_lines(ctx)
    replies = ctx.model("C05", ["consts"] + lines)
    ctx.evaluations += len(lines)
    if replies is None:
        return
    want = rat_of_float(float(np.exp(1 / 9)))
    if replies[0] != want:
        ctx.disagree("path", "consts", want, replies[0])
    ctx.streams_compared["path"] = len(lines)
    for line, (logly, cells), rep in zip(lines, impl, replies[1:]):
        mc = rep.split()
        if logly:
            good = len(mc) == len(cells) and all(close(a, b, 1e-12) for a, b in zip(cells, mc))
        else:
            good = mc == cells            # exact (dyadic inputs)
        if not good:
            ctx.disagree("path", line, " ".join(cells), rep)


def run_wrt(ctx: Ctx, cases_models):
    """_resolve_steady_wrt for random (also partly nonsensical) plans on the generated models"""
    rng = ctx.rng.fork("wrt")
    lines, impl = [], []
    for case, m in cases_models:
        qid = m.create_name_to_qid()
        flags = m.resolve_flags()
        plannable = m.get_steady_plannable(is_flat=flags.is_flat)
        for _ in range(3):
            p = ir.SteadyPlan(m)
            exo = rng.sample(list(plannable.can_be_exogenized), rng.randint(0, 2))
            endo = rng.sample(list(plannable.can_be_endogenized), rng.randint(0, 2))
            fl = rng.sample(list(plannable.can_be_fixed_level), rng.randint(0, 2))
            fc = rng.sample(list(plannable.can_be_fixed_change), rng.randint(0, 2)) if plannable.can_be_fixed_change else []
            if exo: p.exogenize(exo)
            if endo: p.endogenize(endo)
            if fl: p.fix_level(fl)
            if fc: p.fix_change(fc)
            w = S._resolve_steady_wrt(m, p, is_flat=flags.is_flat)
            can = " ".join(str(qid[n]) for n in plannable.can_be_exogenized)
            f = lambda names: " ".join(str(qid[n]) for n in names)
            lines.append(f"wrt ; {can} ; {f(exo)} ; {f(endo)} ; {f(fl)} ; {f(fc)}")
            impl.append(f"{','.join(map(str, w.qids))} ; {','.join(map(str, w.fixed_level_qids))} ; {','.join(map(str, w.fixed_change_qids))}")
            ctx.count("wrt_lines")
    ctx.compare("wrt", lines, impl, ctx.model("C05", lines))
    ctx.evaluations += len(lines)


# ---------------------------------------------------------------------------------------
# one generated case end to end
# ---------------------------------------------------------------------------------------

def run_case(ctx: Ctx, case, pending, with_model=True) -> str:
    """implementation + oracle now; model lines are queued in `pending` and compared after one driver call"""
    try:
        m, plan = build(case)
    except Exception as e:
        ctx.count("build_failed")
        ctx.extra.setdefault("build_failures", []).append(repr(e)[:200])
        return "build-failed"
    before = snapshot(m)
    lin_lines = []
    if case["linear"] and with_model:
        try:
            with np.errstate(all="ignore"):
                lin_lines = linear_lines(case, m)
        except Exception as e:
            ctx.count("linear_lines_failed")
    # autovalues off first so that the state after the loop can be observed, then the update as a second step
    global _RECORD
    okk, err, records = solve_two_step(m, plan, case)
    if not okk:
        ctx.count("solve_raised")
        if "hard" not in case["tags"]:
            ctx.count("solve_raised:" + ("+".join(case["tags"])))
        ctx.extra.setdefault("solve_errors", [])
        if len(ctx.extra["solve_errors"]) < 5:
            ctx.extra["solve_errors"].append(err)
        return "solve-raised"
    after_loop, after_auto = okk
    ctx.count("solved")
    ctx.count("mode:" + ("linear" if case["linear"] else "nonlinear") + ("-flat" if case["flat"] else "-growth"))
    ctx.count("variants:%d" % case["nv"])
    ctx.count("split:" + str(case["split"]))
    if not case["linear"]:
        ctx.count("solver:" + str(case.get("solver")))
    if case["plan"]:
        ctx.count("with_plan")
        for k, v in case["plan"].items():
            if v: ctx.count("plan_" + k)
    for t in case["tags"]:
        ctx.count("module:" + t)
    good = oracle(ctx, case, m, before)
    ctx.nontriv((case["linear"], case["flat"], case["nv"], case["split"], tuple(case["tags"]), bool(case["plan"]),
                 len(case["teqs"]) + len(case["meqs"]), case.get("solver")))
    ctx.sample({"source": case["source"], "linear": case["linear"], "flat": case["flat"], "plan": case["plan"], "split": case["split"],
                "levels": {k: v for k, v in list(zip(m.create_name_to_qid().keys(), m._variants[0].levels.values()))[:6]}})
    if with_model:
        if not case["linear"]:
            per_variant = records
            for vid in range(case["nv"]):
                try:
                    line, meta = steady_line(case, m, plan, vid, before, per_variant[vid])
                except Exception as e:
                    ctx.count("steady_line_failed")
                    ctx.extra.setdefault("steady_line_errors", []).append(repr(e)[:200])
                    continue
                pending.append(("steady", case, vid, line, meta, after_loop[vid], after_auto[vid]))
        for line, tag in lin_lines:
            pending.append(("lin", case, line, tag))
        if case["linear"] and case.get("_systems"):
            try:
                for line, tag in linconst_lines(case, m, before, case["_systems"]):
                    pending.append(("lin", case, line, tag))
            except Exception as e:
                ctx.count("linconst_lines_failed")
                ctx.extra.setdefault("linconst_errors", []).append(repr(e)[:160])
    return "ok" if good else "oracle-failed"


@contextlib.contextmanager
def recording_linear_systems(store: list):
    """while active, the two linear steady algorithms record the constants (C, H) of the system `_steady_linear` hands them
    (whatever descriptor it was built from) and then run unchanged"""
    originals = {n: getattr(FS, n) for n in ("solve_steady_linear_flat", "solve_steady_linear_nonflat")}
    def wrap(f):
        def g(system, *a, **k):
            store.append((np.array(system.C, dtype=float).flatten().tolist(), np.array(system.H, dtype=float).flatten().tolist()))
            return f(system, *a, **k)
        return g
    try:
        for n, f in originals.items():
            setattr(FS, n, wrap(f))
        yield
    finally:
        for n, f in originals.items():
            setattr(FS, n, f)


def linconst_lines(case, m, before, systems):
    """per variant: the constants of the system the linear algorithm was given, against the model's `linearConstants` of the
    STEADY versions at the zero point (transition rows in the order of transition_eids, then the measurement rows)"""
    out = []
    qid = m.create_name_to_qid()
    quantities = m._invariant.quantities
    nq = max(q.id for q in quantities) + 1
    codes = ["p"] * nq
    for q in quantities:
        if q.logly is not None:
            codes[q.id] = "l" if q.logly else "v"
    sv = m._invariant.steady_descriptor.system_vectors
    by_human = {re.sub(r"\s+", "", eq_key(lr)): lr for lr in case["teqs"] + case["meqs"]}
    eqs = {e.id: e for e in m._invariant.steady_equations}
    rows, rational = [], []
    for eid in list(sv.transition_eids) + list(sv.measurement_eids):
        lr = by_human[re.sub(r"\s+", "", eqs[eid].human)]
        st = eq_to_lean(lr[0], lr[1], qid)
        dy = case.get("dyn", {}).get(eq_key(lr))
        dytxt = eq_to_lean(dy[0], dy[1], qid) if dy else None
        rational.append(st is not None and (dy is None or dytxt is not None))
        rows.append("n 0" if not rational[-1] else (f"{dytxt} !! {st}" if dy else st))
    nt = len(sv.transition_eids)
    for vid, (C, H) in enumerate(systems):
        lv0 = before[vid][0]
        L = " ".join(cell(lv0[q]) for q in range(nq))
        out.append((f"linconst ; {''.join(codes)} ; {L} ; {' | '.join(rows)}", ("linconst", vid, (C, H, nt, rational), None)))
    return out


def solve_two_step(m, plan, case):
    """solve_steady(update_steady_autovalues=False) then update_steady_autovalues(): the same two steps solve_steady
    performs, with a snapshot in between; the recording solver's calls are split per variant"""
    global _RECORD
    kwargs = {"update_steady_autovalues": False}
    if not case["linear"]:
        if plan is not None: kwargs["plan"] = plan
        if case["split"] is not None: kwargs["split_into_blocks"] = case["split"]
        kwargs["solver"] = SPY[case.get("solver") or "neqs_levenberg"]
        if case.get("solver_settings"): kwargs["solver_settings"] = dict(case["solver_settings"])
    per_variant = []
    try:
        with contextlib.redirect_stdout(io.StringIO()), np.errstate(all="ignore"):
            if case["linear"]:
                case["_systems"] = []
                with recording_linear_systems(case["_systems"]):
                    m.solve_steady(**kwargs)
            else:
                # same loop as solve_steady, variant by variant, to attribute the solver calls
                flags = m.resolve_flags()
                solver = S._choose_steady_solver(flags.is_linear, flags.is_flat)
                kw = {k: v for k, v in kwargs.items() if k != "update_steady_autovalues"}
                for vid, v in enumerate(m._variants):
                    _RECORD = []
                    solver(m, v, flags, vid, **kw)
                    per_variant.append(_RECORD)
                    _RECORD = None
            after_loop = snapshot(m)
            m.update_steady_autovalues()
            after_auto = snapshot(m)
        return (after_loop, after_auto), "", per_variant
    except Exception as e:
        return None, f"{type(e).__name__}: {str(e)[:160]}", per_variant
    finally:
        _RECORD = None


def flush(ctx: Ctx, pending):
    if not pending:
        return
    lines = [p[3] if p[0] == "steady" else p[2] for p in pending]
    replies = ctx.model("C05", lines)
    if replies is None:
        return
    for p, rep in zip(pending, replies):
        if p[0] == "steady":
            _, case, vid, line, meta, after_loop, after_auto = p
            compare_steady(ctx, case, vid, line, meta, rep, after_loop, after_auto)
        else:
            _, case, line, tag = p
            compare_linear(ctx, case, line, tag, rep)


def end_to_end_default_entry(ctx: Ctx, case):
    """the public entry point exactly as a user calls it (default solver, autovalues inside solve_steady)"""
    try:
        m, plan = build(case)
    except Exception:
        return
    before = snapshot(m)
    okk, err, _ = solve(m, plan, case, spy=False)
    if not okk:
        ctx.count("solve_raised(public entry)")
        return
    ctx.count("solved(public entry)")
    oracle(ctx, case, m, before)


# ---------------------------------------------------------------------------------------
# options in force at a call: flag overrides and exit-test tolerance (streams `flags`, `settings`)
# ---------------------------------------------------------------------------------------

_TINY = """
!transition-variables
    x
!parameters
    rho
!transition-equations
    x = rho*x[-1] + 1;
"""


def run_flags(ctx: Ctx):
    """Simultaneous.resolve_flags for every creation flag pair and every override pair (None / False / True), plus the one
    derived observable the steady machinery reads from it (steady plannable: changes can be fixed iff not flat)"""
    lines, impl = [], []
    enc = {None: "-", True: "1", False: "0"}
    for cl in (False, True):
        for cf in (False, True):
            m = ir.Simultaneous.from_string(_TINY, linear=cl, flat=cf)
            for ol in (None, False, True):
                for of in (None, False, True):
                    kw = {}
                    if ol is not None: kw["linear"] = ol
                    if of is not None: kw["flat"] = of
                    f = m.resolve_flags(**kw)
                    pl = m.get_steady_plannable(**kw)
                    lines.append(f"flags {enc[cl]} {enc[cf]} {enc[ol]} {enc[of]}")
                    out = f"{1 if f.is_linear else 0} {1 if f.is_flat else 0}"
                    if bool(pl.can_be_fixed_change) == bool(f.is_flat):
                        out += " plannable-inconsistent"
                    impl.append(out)
    ctx.compare("flags", lines, impl, ctx.model("C05", lines))
    ctx.evaluations += len(lines)


PLAN_OPS = ["exogenize", "unexogenize", "endogenize", "unendogenize", "fix_level", "unfix_level", "fix_change", "unfix_change",
            "fix", "unfix", "swap", "unswap", "fix_levels", "fix_changes"]


def run_planops(ctx: Ctx):
    """random sequences of the public mutators of SteadyPlan (all spellings) on growth and flat plans: the four registers
    against the model `Plan.applyAll`; and, independently of the model, spelling equivalence on the real code: the same
    sequence with `fix` / `unfix` / `swap` / `unswap` / plural aliases expanded into their elementary calls must give the
    same registers"""
    rng = ctx.rng.fork("planops")
    src = "!transition-variables\n    x, y, z, w\n!parameters\n    a, b, c\n!transition-equations\n    x = a*x[-1] + b;\n    y = y[-1] + c;\n    z = x + y;\n    w = 0.5*w[-1] + z;\n"
    lines, impl = [], []
    for flat in (False, True):
        m = ir.Simultaneous.from_string(src, flat=flat)
        qid = m.create_name_to_qid()
        for _ in range(ctx.n(40, 400)):
            p1, p2 = ir.SteadyPlan(m), ir.SteadyPlan(m)
            ops = []
            for _ in range(rng.randint(1, 7)):
                op = rng.choice(PLAN_OPS)
                if flat and op in ("fix_change", "unfix_change", "fix_changes"):
                    continue                     # a flat plan has no fixed-change register: these calls are rejected
                v = rng.choice(["x", "y", "z", "w"]); q = rng.choice(["a", "b", "c"])
                if op in ("swap", "unswap"):
                    getattr(p1, op)((v, q))
                    getattr(p2, "exogenize" if op == "swap" else "unexogenize")(v)
                    getattr(p2, "endogenize" if op == "swap" else "unendogenize")(q)
                    ops.append(f"{op} {qid[v]} {qid[q]}")
                elif op in ("endogenize", "unendogenize"):
                    getattr(p1, op)(q); getattr(p2, op)(q); ops.append(f"{op} {qid[q]}")
                else:
                    getattr(p1, op)(v)
                    base = {"fix_levels": "fix_level", "fix_changes": "fix_change"}.get(op, op)
                    if base in ("fix", "unfix"):
                        getattr(p2, base + "_level")(v)
                        if not flat: getattr(p2, base + "_change")(v)
                    else:
                        getattr(p2, base)(v)
                    ops.append(f"{base} {qid[v]}")
                ctx.count("planops:" + op)
            reg = lambda p: [sorted(qid[n] for n in g()) for g in (p.get_exogenized_names, p.get_endogenized_names,
                                                                  p.get_fixed_level_names, p.get_fixed_change_names)]
            r1, r2 = reg(p1), reg(p2)
            ctx.evaluations += 1
            if r1 != r2:
                ctx.fail("plan-spelling-not-equivalent", {"planops": ops, "flat": flat},
                         f"registers after the convenience spellings {r1} differ from the elementary calls {r2}")
            if not ops:
                continue
            lines.append(f"planops {0 if flat else 1} ; " + " | ".join(ops))
            impl.append(" ; ".join(",".join(map(str, r)) for r in r1))
    ctx.compare("planops", lines, impl, ctx.model("C05", lines))


def run_settings(ctx: Ctx):
    """sequences of calls of create_solver_settings_for_<solver>: the tolerance of each call depends on that call's
    arguments only (user value if given, else the equality tolerance passed in)"""
    rng = ctx.rng.fork("settings")
    lines, impl = [], []
    grid = [1e-12, 1e-3, 1e-6, 1e-10, 1e-8, 0.5 ** 20]
    for _ in range(ctx.n(6, 40)):
        for _ in range(rng.randint(3, 8)):
            solver = rng.choice(list(SOLVERS))
            key = "func_tolerance" if solver == "neqs_levenberg" else "tol"
            user = rng.choice(grid) if rng.chance(0.35) else None
            eq = rng.choice(grid)
            us = None if user is None and rng.chance(0.5) else ({key: user} if user is not None else {})
            try:
                d = getattr(SD, "create_solver_settings_for_" + solver)(user_solver_settings=us, self_equality_tolerance=eq)
                out = rat_of_float(d[key])
            except Exception as e:
                out = "err:" + type(e).__name__
            lines.append(f"tol {rat_of_float(user) if user is not None else '-'} {rat_of_float(eq)}")
            impl.append(out)
            ctx.count("settings_calls")
    ctx.compare("settings", lines, impl, ctx.model("C05", lines))
    ctx.evaluations += len(lines)


# ---------------------------------------------------------------------------------------
# multi-step sessions on one model object: tolerance overrides / resets, re-assignments, per-call flag overrides in
# both directions, solver options -- every solve that completes is judged against the options in force at that call
# ---------------------------------------------------------------------------------------

LOOSE = [1e-3, 1e-5, 1e-7]


def gen_bimodal_case(rng: Rng) -> dict:
    """a model that has a steady state in growth mode AND (given the right plan) in flat mode: stationary singles, equations
    driven by exogenous variables (whose level and change are assigned by the user), and trending quantities -- a unit root
    with drift and/or a growing log-variable with followers -- whose drift / growth parameter can be swapped for the
    trending quantity itself in a flat solve"""
    G = Builder(rng.weighted([(1, 3), (2, 1)]))
    for _ in range(rng.randint(1, 3)):
        mod_ar(G, rng, 1, False)
    xvars, pairs, flat_swaps = [], {}, []
    for _ in range(rng.randint(1, 2)):
        zx = G.fresh("zx"); xvars.append(zx)
        pairs[zx] = (rng.choice([10.0, 2.0, -1.0, 4.0]), rng.choice([0.5, -0.25, 1.0, 0.125]))
        xe = G.fresh("xe"); G.tvars.append(xe)
        rho = G.param("rho", [0.5, 0.25, 0.75], rng); a = G.param("a", [1.0, 2.0, -1.0], rng)
        G.teqs.append((T(xe), add(mul(T(rho), T(xe, -1)), mul(sub(N(1), T(rho)), T(a)),
                                   mul(N(rng.choice([2.0, 0.5, -1.0])), T(zx, rng.choice([0, -1]))))))
        G.init[xe] = (rng.choice([1.0, 0.0]), None)
        if rng.chance(0.6):
            ce = G.fresh("ce"); G.tvars.append(ce)
            G.teqs.append((T(ce), add(mul(N(0.5), T(xe)), T(zx))))
            G.init[ce] = (1.0, None)
    if rng.chance(0.6):
        tr = G.fresh("tr"); d = G.param("d", [0.5, 0.25, -0.5, 1.0], rng)
        f1, f2 = G.fresh("f"), G.fresh("f")
        G.tvars += [tr, f1, f2]
        G.teqs.append((T(tr), add(T(tr, -1), T(d))))
        G.teqs.append((T(f1), add(mul(N(rng.choice([2.0, 0.5])), T(tr, -1)), N(1.0))))
        G.teqs.append((T(f2), add(mul(N(0.5), T(f1)), T(tr))))
        G.init[tr] = (rng.choice([10.0, 3.0, 0.0]), None)
        G.init[f1] = (1.0, None); G.init[f2] = (1.0, None)
        flat_swaps.append((tr, d))
    if rng.chance(0.4):
        y = G.fresh("y"); g = G.param("g", [1.03125, 1.0625], rng); cy = G.fresh("c"); sp = G.param("s", [0.75, 0.5], rng)
        G.tvars += [y, cy]; G.logs += [y, cy]
        G.teqs.append((div(T(y), T(y, -1)), T(g)))
        G.teqs.append((T(cy), mul(T(sp), T(y))))
        G.init[y] = (rng.choice([1.0, 2.0]), None); G.init[cy] = (1.0, None)
        flat_swaps.append((y, g))
    declared = list(G.tvars)
    if rng.chance(0.5):
        rng.shuffle(declared); rng.shuffle(G.teqs)
    G.tags.append("bimodal")
    case = finish_case(G, False, False, None, None, None)
    case["source"] = case["source"].replace("!transition-variables\n    " + ", ".join(G.tvars),
        "!transition-variables\n    " + ", ".join(declared) + "\n!exogenous-variables\n    " + ", ".join(xvars), 1)
    case["xvars"], case["pairs"], case["flat_swaps"] = xvars, pairs, flat_swaps
    return case


def gen_history_session(seed: int) -> dict:
    """HISTORIES of modes on one model object: (level, change) pairs assigned to exogenous variables (and to quantities a later
    plan keeps fixed), growth-mode solves, flat re-solves (with the swap plan when the model has trending quantities),
    re-assignments in between -- every completed solve must leave levels AND changes of ALL quantities that satisfy the
    equations in the mode of that call"""
    rng = Rng(seed ^ 0x5DEECE66D)
    case = gen_bimodal_case(rng)
    steps = [{"op": "assign_pairs", "values": {k: list(v) for k, v in case["pairs"].items()}}]
    solver = lambda: rng.choice(list(SOLVERS))
    def solve_step(mode_flat):
        return {"op": "solve", "linear_in_force": False, "explicit_same": rng.chance(0.4), "solver": solver(), "user_tol": None,
                "split": rng.choice([None, True, False]), "use_plan": True, "mode_flat": mode_flat,
                "plan_kind": "flat_swap" if (mode_flat and case["flat_swaps"]) else None}
    modes = rng.choice([[False, True], [False, True, False, True], [True, False, True], [False, True, True], [True, True]])
    for j, mode in enumerate(modes):
        steps.append(solve_step(mode))
        if j + 1 < len(modes) and rng.chance(0.5):
            # the user re-assigns a trend (exogenous variable, or a quantity the flat plan keeps fixed) or moves a parameter
            what = rng.choice(["pairs", "swapvar", "param"])
            if what == "pairs" or (what == "swapvar" and not case["flat_swaps"]):
                zx = rng.choice(case["xvars"])
                steps.append({"op": "assign_pairs", "values": {zx: [rng.choice([5.0, 1.0, -2.0]), rng.choice([0.5, -0.5, 0.25, 0.0])]}})
            elif what == "swapvar":
                v, _ = rng.choice(case["flat_swaps"])
                logv = v in case["logs"]
                steps.append({"op": "assign_pairs", "values": {v: [rng.choice([2.0, 1.0, 4.0]), rng.choice([1.03125, 1.0625] if logv else [0.5, -0.25, 1.0])]}})
            else:
                ps = [p for p in case["params"] if p[0] == "a"]
                if ps:
                    steps.append({"op": "assign", "name": rng.choice(ps), "factor": rng.choice([1.25, 0.75]), "shift": rng.choice([0.25, -0.125])})
    return {"sess_seed": seed, "kind": "history", "case": case, "create_linear": rng.chance(0.3), "create_flat": rng.chance(0.5), "steps": steps}


def gen_session(seed: int) -> dict:
    if seed % 4 == 0:
        return gen_history_session(seed)
    rng = Rng(seed)
    s_linear = rng.chance(0.5)                  # structure: are the equations linear / is the steady state flat
    s_flat = rng.chance(0.35)
    case = gen_case(Rng(rng.next()), {"linear": s_linear, "flat": s_flat})
    create_linear = s_linear and rng.chance(0.65)
    create_flat = rng.chance(0.5)               # independent of the structure: the right mode is then requested per call
    steps = []
    params = [p for p in case["params"] if p[0] in "adg" and not p.startswith("aux") and not p.startswith("al")]
    nsolve = 0
    if rng.chance(0.45) and params:
        # the dense form of the class: a rough pass under a loose tolerance (set on the model, or passed once through
        # solver_settings), back to the default, a re-assignment that moves the steady state, and a proper solve with the
        # same iterative solver -- optionally twice
        solver = rng.choice(list(SOLVERS))
        def it_solve(user_tol=None):
            st = gen_solve_step(rng, case, False, create_linear)
            st.update({"linear_in_force": False, "solver": solver, "user_tol": user_tol})
            return st
        for _ in range(rng.randint(1, 2)):
            loose = rng.choice(LOOSE[:2])
            if rng.chance(0.5):
                steps += [{"op": "override_tolerance", "equality": loose}, it_solve(), {"op": "reset_tolerance"}]
            else:
                steps += [it_solve(user_tol=loose)]
            steps.append({"op": "assign", "name": rng.choice(params), "factor": rng.choice([1.25, 0.75, 1.5]), "shift": rng.choice([0.25, -0.125, 0.5])})
            steps.append(it_solve())
        return {"sess_seed": seed, "case": case, "create_linear": create_linear, "create_flat": create_flat, "steps": steps}
    for _ in range(rng.randint(3, 7)):
        op = rng.weighted([("solve", 5), ("override", 2), ("reset", 2), ("assign", 3)])
        if op == "override":
            steps.append({"op": "override_tolerance", "equality": rng.choice(LOOSE + [1e-10])})
        elif op == "reset":
            steps.append({"op": "reset_tolerance"})
        elif op == "assign" and params:
            p = rng.choice(params)
            steps.append({"op": "assign", "name": p, "factor": rng.choice([1.25, 0.75, 1.5]), "shift": rng.choice([0.0, 0.25, -0.125])})
        else:
            nsolve += 1
            steps.append(gen_solve_step(rng, case, s_linear, create_linear))
    if nsolve < 2:
        steps.append({"op": "assign", "name": rng.choice(params), "factor": 1.25, "shift": 0.125} if params else {"op": "reset_tolerance"})
        steps.append(gen_solve_step(rng, case, s_linear, create_linear))
    return {"sess_seed": seed, "case": case, "create_linear": create_linear, "create_flat": create_flat, "steps": steps}


def gen_solve_step(rng: Rng, case, s_linear, create_linear) -> dict:
    want_linear = s_linear and rng.chance(0.6)             # a structurally linear model may be solved by either algorithm
    solver = rng.choice(list(SOLVERS))
    return {"op": "solve", "linear_in_force": want_linear,
            "explicit_same": rng.chance(0.4),              # pass an override even when it repeats the creation flag
            "solver": solver, "user_tol": rng.choice(LOOSE) if rng.chance(0.3) else None,
            "split": rng.choice([None, True, False]), "use_plan": rng.chance(0.7)}


def session_for_json(sess, upto=None):
    return {"sess_seed": sess["sess_seed"], "history": list(sess.get("history", [])), "source": sess["case"]["source"], "create_linear": sess["create_linear"],
            "create_flat": sess["create_flat"], "structure": {"linear": sess["case"]["linear"], "flat": sess["case"]["flat"]},
            "params": sess["case"]["params"], "init": sess["case"]["init"], "plan": sess["case"]["plan"],
            "steps": sess["steps"][: (upto + 1) if upto is not None else None]}


def run_session(ctx: Ctx, sess) -> None:
    case = sess["case"]
    s_flat = case["flat"]
    try:
        created = dict(case, linear=sess["create_linear"], flat=sess["create_flat"], plan=None)
        m, _ = build(created)
        plan = None
        if case["plan"]:
            # the plan is made for the mode that will be requested (fix_change only exists in growth mode)
            kw = {} if sess["create_flat"] == s_flat else {"flat": s_flat}
            plan = ir.SteadyPlan(m, **kw)
            write_plan(plan, case["plan"], case.get("plan_spelling", 0))
    except Exception as e:
        ctx.count("session_build_failed")
        ctx.extra.setdefault("session_build_failures", [])
        if len(ctx.extra["session_build_failures"]) < 4:
            ctx.extra["session_build_failures"].append(repr(e)[:200])
        return
    ctx.count("sessions")
    if sess.get("kind") == "history":
        ctx.count("sessions_mode_history")
    ctx.count(f"session_created:linear={sess['create_linear']},flat={sess['create_flat']};structure:linear={case['linear']},flat={s_flat}")
    equality = 1e-12
    flat_plan, flat_plan_dict = None, None
    if case.get("flat_swaps"):
        try:
            flat_plan = ir.SteadyPlan(m, flat=True)
            flat_plan_dict = {"exogenized": [v for v, _ in case["flat_swaps"]], "endogenized": [p for _, p in case["flat_swaps"]],
                              "fixed_level": [], "fixed_change": []}
            flat_plan.exogenize(flat_plan_dict["exogenized"]); flat_plan.endogenize(flat_plan_dict["endogenized"])
        except Exception as e:
            ctx.count("session_build_failed"); return
    current = {k: list(v) for k, v in case["params"].items()}
    for i, st in enumerate(sess["steps"]):
        op = st["op"]
        if op == "override_tolerance":
            m.override_tolerance(equality=st["equality"]); equality = st["equality"]
        elif op == "reset_tolerance":
            m.reset_tolerance(); equality = 1e-12
        elif op == "assign":
            current[st["name"]] = [v * st["factor"] + st["shift"] for v in current[st["name"]]]
            m.assign(**{st["name"]: current[st["name"]] if case["nv"] > 1 else current[st["name"]][0]})
        elif op == "assign_pairs":
            m.assign(**{k: (v[0], v[1]) for k, v in st["values"].items()})
        else:
            kwargs = {}
            lin = st["linear_in_force"]
            s_flat = st.get("mode_flat", case["flat"])          # the mode requested at this call
            if lin != sess["create_linear"] or st["explicit_same"]: kwargs["linear"] = lin
            if s_flat != sess["create_flat"] or st["explicit_same"]: kwargs["flat"] = s_flat
            tol_in_force = equality
            use_plan = plan is not None and st["use_plan"] and not lin
            step_plan, step_plan_dict = (plan, case["plan"]) if use_plan else (None, None)
            if st.get("plan_kind") == "flat_swap" and flat_plan is not None:
                step_plan, step_plan_dict, use_plan = flat_plan, flat_plan_dict, True
            # parameters found by an earlier swap stay in the model: read the values in force from the model itself
            qid_now = m.create_name_to_qid()
            current = {k: [v.levels[qid_now[k]] for v in m._variants] for k in current}
            if not lin:
                if st["solver"] != "neqs_levenberg": kwargs["solver"] = st["solver"]
                if st["user_tol"] is not None:
                    kwargs["solver_settings"] = {("func_tolerance" if st["solver"] == "neqs_levenberg" else "tol"): st["user_tol"]}
                    tol_in_force = st["user_tol"]
                if st["split"] is not None: kwargs["split_into_blocks"] = st["split"]
                if use_plan: kwargs["plan"] = step_plan
            before = snapshot(m)
            try:
                with contextlib.redirect_stdout(io.StringIO()), np.errstate(all="ignore"):
                    m.solve_steady(**kwargs)
            except Exception as e:
                ctx.count("session_solve_raised")
                continue
            ctx.count("session_solves_completed")
            ctx.count("session_solve:" + ("linear" if lin else "nonlinear:" + st["solver"]) + (":flat" if s_flat else ":growth")
                      + (":override" if ("flat" in kwargs and s_flat != sess["create_flat"]) else "")
                      + (":loose" if tol_in_force > 1e-9 else ""))
            # the judge: a linear solve is exact; an iterative one was stopped by the tolerance in force at this call.
            # Under the default (tight) tolerance the equations are demanded at dates -5..5; under a loose tolerance only
            # what that tolerance can promise: the two dates the exit test looks at, within 10x the tolerance (away from
            # those dates an error of size tol in a growth rate is amplified without bound, e.g. in a ratio k/y)
            loose = (not lin) and tol_in_force > 1e-9
            tol = max(TOL_ORACLE, 10.0 * tol_in_force) if loose else TOL_ORACLE
            dates = [0, 1] if loose else None
            judged = dict(case, flat=s_flat, plan=step_plan_dict if use_plan else None,
                          params={k: v for k, v in current.items()})
            if sess.get("kind") == "history":
                ctx.count("history_solve:" + ("flat" if s_flat else "growth") + (":swap-plan" if st.get("plan_kind") else ""))
            oracle(ctx, judged, m, before, tol=tol, dates=dates, payload=session_for_json(sess, i),
                   note=f"step {i} ({'linear' if lin else st['solver']}, kwargs {sorted(k for k in kwargs if k != 'plan')}, tolerance in force {tol_in_force:g}): ")
            ctx.nontriv(("session", sess["create_linear"], sess["create_flat"], case["linear"], s_flat, lin, st["solver"] if not lin else "",
                         tol_in_force, equality, i))


def run_sessions(ctx: Ctx, n: int, tag="sessions"):
    """the sessions run one after the other in this process; a failure may depend on what earlier sessions left behind in
    the process, so the replay payload of a session carries the seeds of the sessions run before it (`history`)"""
    rng = ctx.rng.fork(tag)
    history = []
    for _ in range(n):
        sess = gen_session(rng.next())
        sess["history"] = list(history)
        run_session(ctx, sess)
        history.append(sess["sess_seed"])
        if len(ctx.samples) < 8 and ctx.counts.get("sessions", 0) == 3:
            ctx.sample(session_for_json(sess))


# ---------------------------------------------------------------------------------------
# entry points
# ---------------------------------------------------------------------------------------

def corpus_cases():
    out = []
    for path in sorted(glob.glob(os.path.join(VERIF, "corpus", "C05", "*.json"))):
        try:
            out.append((path, json.load(open(path))))
        except Exception:
            pass
    return out


def case_from_json(cj) -> dict:
    """rebuild the generator-side fields (equation trees) from a stored seed, or run source-only"""
    if "gen_seed" in cj:
        case = gen_case(Rng(cj["gen_seed"]), cj.get("force"))
        return case
    raise KeyError("gen_seed")


def run(ctx: Ctx):
    ctx.rule = ("random models composed of modules (stationary AR blocks with lags/leads and cross links, unit root with drift, "
                "log-linear growth, rational balanced growth with log-variables, stationary products/ratios, Solow with real power), "
                "linear/nonlinear x flat/growth, 1-3 variants, split_into_blocks in {None, True, False}, steady plans (swap, fix level, "
                "fix change), solver option in {neqs_levenberg, scipy_root}; plus a hard-start family (cubic / quadratic residuals with local "
                "extrema or no real root, product-sum systems, overdetermining plans) from good and bad starting points with both solvers; "
                "multi-step sessions on one model object (override/reset of the equality tolerance, solver_settings tolerances, parameter "
                "re-assignments, per-call linear/flat overrides in both directions on models created with either flag), each completed "
                "solve judged against the options in force at that call; exhaustive flag-resolution table; growth-mode models with more than eight "
                "quantities declared in random order around one simultaneous block whose members have different steady changes; mode histories on "
                "one object (exogenous variables with assigned trends, growth solve, flat re-solve with a swap plan, re-assignments); plans written "
                "through every public spelling (fix / fix_level+fix_change / plural aliases / swap / un... detours) incl. level-and-change "
                "fixes; linear models whose transition constants are all exactly zero (0.0, -0.0, integer 0, near-edge 1e-9) with non-zero "
                "measurement intercepts; `dynamic !! steady` equations (the steady versions are judged). "
                "distinct_nontrivial = distinct (linear, flat, variants, split, module list, plan?, #equations, solver) among "
                "solved cases, plus distinct non-constant path requests")
    for path, payload in corpus_cases():
        replay(ctx, payload)
        ctx.count("corpus_replayed")
    run_paths(ctx)
    run_flags(ctx)
    run_planops(ctx)
    # multi-step sessions come before everything else that solves: whatever state a solve leaves behind in the process
    # (module-level defaults, caches) is then empty at the start, and the later streams run on top of it
    run_sessions(ctx, ctx.n(36, 400))
    run_settings(ctx)
    rng = ctx.rng.fork("cases")
    pending, models = [], []
    ncases = ctx.n(60, 900)
    for i in range(ncases):
        seed = rng.next()
        force = None
        if i % 7 == 3: force = {"linear": True, "flat": False}
        if i % 7 == 5: force = {"linear": False, "flat": False}
        case = gen_case(Rng(seed), force)
        case["gen_seed"], case["force"] = seed, force
        status = run_case(ctx, case, pending)
        if i % 5 == 0:
            end_to_end_default_entry(ctx, case)
        if status != "build-failed" and len(models) < ctx.n(12, 60):
            try:
                models.append((case, build(case)[0]))
            except Exception:
                pass
        if len(pending) >= 150:
            flush(ctx, pending); pending.clear()
    flush(ctx, pending)
    run_wrt(ctx, models)
    solved = ctx.counts.get("solved", 0)
    # growth-mode models with more than eight quantities declared in a random order and one simultaneous block whose members
    # have different steady changes (cheap: linear or log-linear blocks)
    trng = ctx.rng.fork("trends")
    for i in range(ctx.n(40, 400)):
        seed = trng.next()
        force = {"trends": True}
        case = gen_case(Rng(seed), force)
        case["gen_seed"], case["force"] = seed, force
        run_case(ctx, case, pending)
        if i % 4 == 0:
            end_to_end_default_entry(ctx, case)
    flush(ctx, pending); pending = []
    # the data edge of the linear algorithm: all transition constants exactly zero, measurement intercepts non-zero
    zrng = ctx.rng.fork("zero-const")
    for i in range(ctx.n(24, 240)):
        seed = zrng.next()
        force = {"zero_const": True}
        case = gen_case(Rng(seed), force)
        case["gen_seed"], case["force"] = seed, force
        run_case(ctx, case, pending)
        if i % 4 == 0:
            end_to_end_default_entry(ctx, case)
    flush(ctx, pending); pending = []
    # hard starts / unsolvable systems / overdetermining plans, with every solver option: the solver has to either
    # raise or store a steady state that satisfies the equations
    hrng = ctx.rng.fork("hard")
    pending = []
    for i in range(ctx.n(48, 500)):
        seed = hrng.next()
        force = {"hard": True}
        case = gen_case(Rng(seed), force)
        case["gen_seed"], case["force"] = seed, force
        status = run_case(ctx, case, pending)
        ctx.count(f"hard:{case['tags'][-1]}:{case['solver']}:{'completed' if status in ('ok', 'oracle-failed') else 'raised'}")
        if case["solver"] != "neqs_levenberg":
            end_to_end_default_entry(ctx, case)      # the non-default option under its public name, without the recorder
    flush(ctx, pending)
    ctx.extra["programs"] = ctx.counts.get("solved", 0)
    ctx.counts["evaluators_with_unsorted_set_order"] = _UNSORTED
    ctx.counts["evaluators_with_unsorted_set_order_and_distinct_changes"] = _UNSORTED_DISTINCT
    if solved < ncases // 2:
        from .common import InternalError
        raise InternalError(f"only {solved} of {ncases} generated models were solved by the implementation: generator out of tune "
                            f"(errors: {ctx.extra.get('solve_errors')}, {ctx.extra.get('build_failures')})")


def search(ctx: Ctx, seeds):
    """failing-input search on the real code: the oracle alone, first on the disagreement cases, then a bigger budget"""
    pending = []
    for s in seeds:
        c = s.get("case") if isinstance(s, dict) else None
        if isinstance(c, dict) and "gen_seed" in c:
            case = gen_case(Rng(c["gen_seed"]), c.get("force")); case["gen_seed"], case["force"] = c["gen_seed"], c.get("force")
            run_case(ctx, case, pending, with_model=False)
            end_to_end_default_entry(ctx, case)
    for s in seeds:
        c = s.get("case") if isinstance(s, dict) else None
        if isinstance(c, dict) and "sess_seed" in c:
            run_session(ctx, gen_session(c["sess_seed"]))
    run_sessions(ctx, 200, tag="search-sessions")
    rng = ctx.rng.fork("search")
    for i in range(900):
        if len(ctx.failures) >= 3:
            break
        seed = rng.next()
        force = {"hard": True} if i % 4 == 2 else ({"trends": True} if i % 4 == 1 else ({"zero_const": True} if i % 4 == 3 else None))
        case = gen_case(Rng(seed), force); case["gen_seed"], case["force"] = seed, force
        run_case(ctx, case, pending, with_model=False)
        if len(ctx.failures) >= 3:
            break


def replay(ctx: Ctx, payload):
    c = payload.get("case")
    if isinstance(c, dict) and "case" in c and isinstance(c["case"], dict):
        c = c["case"]
    if not isinstance(c, dict):
        return
    pending = []
    if "planops" in c:
        run_planops(ctx); return
    if "sess_seed" in c:
        hist = []
        for h in c.get("history", []):          # rebuild the process state the session ran in
            sh = gen_session(h); sh["history"] = list(hist)
            run_session(ctx, sh); hist.append(h)
        sess = gen_session(c["sess_seed"]); sess["history"] = hist
        run_session(ctx, sess)
        return
    if "gen_seed" in c:
        case = gen_case(Rng(c["gen_seed"]), c.get("force")); case["gen_seed"], case["force"] = c["gen_seed"], c.get("force")
        run_case(ctx, case, pending)
        end_to_end_default_entry(ctx, case)
        flush(ctx, pending)
    elif "source" in c:
        replay_source(ctx, c)


def replay_source(ctx: Ctx, c):
    """hand-written corpus entries: source + flags + params + init (+ plan); equations are read from the source text"""
    eqs = []
    sect = None
    for raw in c["source"].split("\n"):
        s = raw.strip()
        if s.startswith("!"):
            sect = s.split()[0]
            continue
        if sect in ("!transition-equations", "!measurement-equations") and "=" in s:
            eqs.append(s.rstrip(";"))
    names = lambda key: [n.strip() for n in re.findall(key + r"\s*\n\s*([^\n!]*)", c["source"])[0].split(",") if n.strip()] if key in c["source"] else []
    case = dict(c)
    case.setdefault("nv", 1); case.setdefault("split", None); case.setdefault("plan", None); case.setdefault("tags", ["corpus"])
    case["tvars"], case["mvars"] = names("!transition-variables"), names("!measurement-variables")
    case["logs"], case["shocks"] = names("!log-variables"), names("!transition-shocks")
    case["xvars"] = names("!exogenous-variables")
    case["teqs"], case["meqs"], case["autos"] = [], [], []
    case["params"] = {k: (v if isinstance(v, list) else [v]) for k, v in c["params"].items()}
    case["init"] = {k: tuple(v) if isinstance(v, list) else (v, None) for k, v in c.get("init", {}).items()}
    m, plan = build(case)
    before = snapshot(m)
    okk, err, _ = solve(m, plan, case, spy=False)
    if not okk:
        ctx.count("corpus_solve_raised")
        return
    # oracle on the raw texts
    kinds = kinds_of(case)
    qid = m.create_name_to_qid()
    for vid, v in enumerate(m._variants):
        levels = {n: v.levels[q] for n, q in qid.items()}
        changes = {n: v.changes[q] for n, q in qid.items()}
        for text in eqs:
            code = compile_text(text)
            for t in DATES:
                r, scale = oracle_residual(code, kinds, levels, changes, t)
                ctx.evaluations += 1
                if not (abs(r) <= TOL_ORACLE * scale):
                    site = c.get("site", "steady-equation-residual")
                    why = None
                    if site == "nonlinear-growth-two-date-solution":
                        # the narrow site is earned, not declared: otherwise the failure goes to the general site
                        why = two_date_solution(case["flat"], kinds, levels, changes, eqs, [compile_text(x) for x in eqs], text, TOL_ORACLE) \
                            if t not in (0, 1) else None
                        if not why:
                            site = "steady-equation-residual"
                    if c.get("report_only_if_known"):
                        # a finding that is recorded under another property (same root cause); it is reported here only once
                        # known_findings.json lists the site for C05 too (then as KNOWN-FINDING), until then it is counted
                        from .common import load_known
                        if site not in {k.get("site") for k in load_known("C05")}:
                            ctx.count("finding_candidate_not_listed:" + site)
                            ctx.extra.setdefault("finding_candidates", {})[site] = f"`{text}` at date {t:+d}: residual {r!r}"
                            break
                    ctx.fail(site, c, f"variant {vid}: `{text}` at date {t:+d}: residual {r!r}" + (f"; {why}" if why else ""))
                    break
